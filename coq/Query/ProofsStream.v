(** C11 — proofs about Layer 2 (Stream.v): every chunking, every selection vector. *)
From Coq Require Import Permutation.
From GV Require Import Query.Expr Query.Stream Query.ProofsExpr.
Open Scope Z_scope.

(** * generic facts *)
Lemma rows_of_cons c cs : rows_of (c :: cs) = lrows c ++ rows_of cs.
Proof. reflexivity. Qed.
Lemma phys_rows_cons c cs : phys_rows (c :: cs) = c_rows c ++ phys_rows cs.
Proof. reflexivity. Qed.

Lemma lrows_plain l : lrows (mkChunk l None) = l.
Proof. reflexivity. Qed.

Lemma sel_rows_length rows s :
  Forall (fun i => 0 <= i < Z.of_nat (length rows)) s -> length (sel_rows rows s) = length s.
Proof.
  induction 1 as [|i s Hi _ IH]; [reflexivity|].
  unfold sel_rows in *. cbn [flat_map]. rewrite app_length, IH.
  destruct (nth_error rows (Z.to_nat i)) eqn:E; [reflexivity|].
  apply nth_error_None in E. lia.
Qed.

Lemma lrows_length c : chunk_wf c -> Z.of_nat (length (lrows c)) = row_count c.
Proof.
  unfold chunk_wf, lrows, row_count. destruct (c_sel c) as [s|]; [|reflexivity].
  intros H. now rewrite sel_rows_length.
Qed.

Lemma chunk_wfb_ok c : chunk_wfb c = true <-> chunk_wf c.
Proof.
  unfold chunk_wfb, chunk_wf. destruct (c_sel c) as [s|]; [|tauto].
  rewrite forallb_forall, Forall_forall. split; intros H i Hi; specialize (H i Hi).
  - apply andb_true_iff in H. lia.
  - apply andb_true_iff. lia.
Qed.

(** the driver lemma: an operator that consumes at least one chunk per emitted chunk *)
Section Drain.
  Context {St : Type}.
  Variable next : St -> list chunk -> option (chunk * St * list chunk).
  Variable Inv : St -> list chunk -> Prop.
  Variable spec : St -> list chunk -> list row.
  Hypothesis Hnone : forall s cs, Inv s cs -> next s cs = None -> spec s cs = [].
  Hypothesis Hsome : forall s cs c s' rest, Inv s cs -> next s cs = Some (c, s', rest) ->
    Inv s' rest /\ (length rest < length cs)%nat /\ spec s cs = lrows c ++ spec s' rest.

  Lemma drain_st_spec fuel : forall s cs, Inv s cs -> (length cs < fuel)%nat ->
    rows_of (drain_st next fuel s cs) = spec s cs.
  Proof.
    induction fuel as [|f IH]; intros s cs HI Hf; [lia|].
    cbn [drain_st]. destruct (next s cs) as [[[c s'] rest]|] eqn:E.
    - destruct (Hsome _ _ _ _ _ HI E) as (HI' & Hl & Hs).
      rewrite rows_of_cons, IH by (auto; lia). now rewrite Hs.
    - cbn. symmetry. now apply Hnone.
  Qed.

  (** every emitted chunk satisfies [P] when the operator guarantees it *)
  Variable P : chunk -> Prop.
  Hypothesis HP : forall s cs c s' rest, Inv s cs -> next s cs = Some (c, s', rest) -> P c.
  Lemma drain_st_all fuel : forall s cs, Inv s cs -> Forall P (drain_st next fuel s cs).
  Proof.
    induction fuel as [|f IH]; intros s cs HI; [constructor|].
    cbn [drain_st]. destruct (next s cs) as [[[c s'] rest]|] eqn:E; [|constructor].
    destruct (Hsome _ _ _ _ _ HI E) as (HI' & _ & _). constructor; eauto.
  Qed.
End Drain.

Lemma fuel_of_gt cs : (length cs < fuel_of cs)%nat.
Proof. unfold fuel_of. lia. Qed.

(** * Filter *)
Section FilterP.
  Variable fa : binop -> Z -> Z -> Z.
  Variable envf : row -> env.
  Notation rp := (row_passes fa envf).

  Lemma sel_from_pred_rows (f : row -> bool) rows : forall pre,
    sel_rows (pre ++ rows) (sel_from_pred f (Z.of_nat (length pre)) rows) = filter f rows.
  Proof.
    induction rows as [|r t IH]; intros pre; [reflexivity|].
    cbn [sel_from_pred filter].
    assert (E : Z.of_nat (length pre) + 1 = Z.of_nat (length (pre ++ [r]))) by (rewrite app_length; cbn; lia).
    assert (E2 : pre ++ r :: t = (pre ++ [r]) ++ t) by (now rewrite <- app_assoc).
    destruct (f r).
    - unfold sel_rows. cbn [flat_map]. rewrite Nat2Z.id, nth_error_app2, Nat.sub_diag by lia. cbn [nth_error app].
      f_equal. fold (sel_rows (pre ++ r :: t) (sel_from_pred f (Z.of_nat (length pre) + 1) t)).
      rewrite E, E2. apply IH.
    - rewrite E, E2. apply IH.
  Qed.
  Lemma sel_from_pred_rows0 f rows : sel_rows rows (sel_from_pred f 0 rows) = filter f rows.
  Proof. exact (sel_from_pred_rows f rows []). Qed.

  Lemma sel_from_pred_wf f rows : forall i,
    Forall (fun j => i <= j < i + Z.of_nat (length rows)) (sel_from_pred f i rows).
  Proof.
    induction rows as [|r t IH]; intros i; [constructor|].
    cbn [sel_from_pred length]. specialize (IH (i + 1)).
    assert (H : Forall (fun j => i <= j < i + Z.of_nat (S (length t))) (sel_from_pred f (i + 1) t)).
    { eapply Forall_impl; [|exact IH]. cbn beta. intros; lia. }
    destruct (f r); [constructor; [lia|exact H]|exact H].
  Qed.

  (** ** the operator before df57ccb: selects among the PHYSICAL rows of every chunk *)
  Lemma filter_pre_none p : forall cs, filter_next_pre fa envf p tt cs = None -> filter (rp p) (phys_rows cs) = [].
  Proof.
    induction cs as [|c rest IH]; [reflexivity|].
    cbn [filter_next_pre]. destruct (sel_from_pred (rp p) 0 (c_rows c)) as [|i s] eqn:E; [|discriminate].
    intros H. rewrite phys_rows_cons, filter_app, (IH H), app_nil_r.
    rewrite <- sel_from_pred_rows0, E. reflexivity.
  Qed.
  Lemma filter_pre_some p : forall cs c u rest, filter_next_pre fa envf p tt cs = Some (c, u, rest) ->
    (length rest < length cs)%nat /\ filter (rp p) (phys_rows cs) = lrows c ++ filter (rp p) (phys_rows rest).
  Proof.
    induction cs as [|c0 rest0 IH]; intros c u rest; [discriminate|].
    cbn [filter_next_pre]. destruct (sel_from_pred (rp p) 0 (c_rows c0)) as [|i s] eqn:E.
    - intros H. destruct (IH _ _ _ H) as (Hl & Hs). split; [cbn [length]; lia|].
      rewrite phys_rows_cons, filter_app, Hs.
      rewrite <- (sel_from_pred_rows0 (rp p) (c_rows c0)), E. reflexivity.
    - intros H. injection H as <- _ <-. split; [cbn [length]; lia|].
      rewrite phys_rows_cons, filter_app. f_equal.
      unfold lrows. cbn [c_sel c_rows]. rewrite <- E. symmetry. apply sel_from_pred_rows0.
  Qed.
  Lemma filter_pre_spec_phys_l p cs :
    rows_of (drain_filter_pre fa envf p cs) = filter (rp p) (phys_rows cs).
  Proof.
    unfold drain_filter_pre.
    apply (drain_st_spec (filter_next_pre fa envf p) (fun _ _ => True) (fun _ cs => filter (rp p) (phys_rows cs))).
    - intros [] cs0 _. apply filter_pre_none.
    - intros [] cs0 c [] rest _ H. destruct (filter_pre_some _ _ _ _ _ H) as (A & B). auto.
    - exact I.
    - apply fuel_of_gt.
  Qed.

  Lemma sel_free_phys cs : sel_free cs = true -> phys_rows cs = rows_of cs.
  Proof.
    induction cs as [|c cs IH]; [reflexivity|]. cbn [sel_free forallb]. intros H.
    apply andb_true_iff in H as [H1 H2]. rewrite phys_rows_cons, rows_of_cons, (IH H2).
    unfold lrows. destruct (c_sel c); [discriminate|reflexivity].
  Qed.
  Lemma filter_pre_spec_l p cs : sel_free cs = true ->
    rows_of (drain_filter_pre fa envf p cs) = filter (rp p) (rows_of cs).
  Proof. intros H. rewrite filter_pre_spec_phys_l, (sel_free_phys cs H). reflexivity. Qed.

  (** ** the operator as it is now: selects among the LOGICAL rows *)
  Lemma sel_filter_rows (f : row -> bool) rows s :
    sel_rows rows (sel_filter f rows s) = filter f (sel_rows rows s).
  Proof.
    unfold sel_filter. induction s as [|i s IH]; [reflexivity|].
    unfold sel_rows in *. cbn [filter flat_map].
    destruct (nth_error rows (Z.to_nat i)) as [r|] eqn:E.
    - cbn [app filter]. destruct (f r).
      + cbn [flat_map]. rewrite E. cbn [app]. f_equal. exact IH.
      + exact IH.
    - cbn [app]. exact IH.
  Qed.
  Lemma sel_filter_wf (f : row -> bool) rows s :
    Forall (fun i => 0 <= i < Z.of_nat (length rows)) s ->
    Forall (fun i => 0 <= i < Z.of_nat (length rows)) (sel_filter f rows s).
  Proof.
    unfold sel_filter. intros H. apply Forall_forall. intros i Hi.
    apply filter_In in Hi as [Hi _]. rewrite Forall_forall in H. now apply H.
  Qed.
  Lemma sel_filter_length (f : row -> bool) rows s : (length (sel_filter f rows s) <= length s)%nat.
  Proof.
    unfold sel_filter. induction s as [|i s IH]; [cbn; lia|].
    cbn [filter]. destruct (match nth_error rows (Z.to_nat i) with Some r => f r | None => false end); cbn [length]; lia.
  Qed.
  Lemma sel_from_pred_length (f : row -> bool) rows : forall i, (length (sel_from_pred f i rows) <= length rows)%nat.
  Proof.
    induction rows as [|r t IH]; intros i; [cbn; lia|].
    cbn [sel_from_pred length]. specialize (IH (i + 1)). destruct (f r); cbn [length]; lia.
  Qed.

  Lemma filter_sel_rows p c :
    lrows (mkChunk (c_rows c) (Some (filter_sel fa envf p c))) = filter (rp p) (lrows c).
  Proof.
    unfold lrows, filter_sel. cbn [c_sel c_rows]. destruct (c_sel c) as [s|].
    - apply sel_filter_rows.
    - apply sel_from_pred_rows0.
  Qed.
  Lemma filter_sel_wf p c : chunk_wf c -> chunk_wf (mkChunk (c_rows c) (Some (filter_sel fa envf p c))).
  Proof.
    unfold chunk_wf, filter_sel. cbn [c_sel c_rows]. destruct (c_sel c) as [s|].
    - apply sel_filter_wf.
    - intros _. eapply Forall_impl; [|apply (sel_from_pred_wf (rp p) (c_rows c) 0)]. cbn beta. intros; lia.
  Qed.
  Lemma filter_sel_count p c :
    row_count (mkChunk (c_rows c) (Some (filter_sel fa envf p c))) <= row_count c.
  Proof.
    unfold row_count, filter_sel. cbn [c_sel c_rows]. destruct (c_sel c) as [s|].
    - pose proof (sel_filter_length (rp p) (c_rows c) s). lia.
    - pose proof (sel_from_pred_length (rp p) (c_rows c) 0). lia.
  Qed.

  Lemma filter_next_none p : forall cs, filter_next fa envf p tt cs = None -> filter (rp p) (rows_of cs) = [].
  Proof.
    induction cs as [|c rest IH]; [reflexivity|].
    cbn [filter_next]. intros H. rewrite rows_of_cons, filter_app.
    rewrite <- (filter_sel_rows p c). unfold lrows at 1. cbn [c_sel c_rows].
    destruct (filter_sel fa envf p c) as [|i s'] eqn:E; [|discriminate].
    cbn. apply IH, H.
  Qed.
  Lemma filter_next_some p : forall cs c u rest, filter_next fa envf p tt cs = Some (c, u, rest) ->
    (length rest < length cs)%nat /\ filter (rp p) (rows_of cs) = lrows c ++ filter (rp p) (rows_of rest)
    /\ (exists c0, In c0 cs /\ c = mkChunk (c_rows c0) (Some (filter_sel fa envf p c0)))
    /\ (forall x, In x rest -> In x cs).
  Proof.
    induction cs as [|c0 rest0 IH]; intros c u rest; [discriminate|].
    cbn [filter_next]. intros H. rewrite rows_of_cons, filter_app.
    rewrite <- (filter_sel_rows p c0).
    destruct (filter_sel fa envf p c0) as [|i s'] eqn:E.
    - destruct (IH _ _ _ H) as (Hl & Hs & (x & Hx & Hc) & Hr). split; [cbn [length]; lia|]. split; [rewrite Hs; reflexivity|].
      split; [exists x; split; [now right|exact Hc]|]. intros y Hy. right. now apply Hr.
    - injection H as <- _ <-. split; [cbn [length]; lia|]. split; [reflexivity|].
      split; [exists c0; split; [now left|now rewrite E]|]. intros y Hy. now right.
  Qed.
  Lemma filter_spec_l p cs :
    rows_of (drain_filter fa envf p cs) = filter (rp p) (rows_of cs).
  Proof.
    unfold drain_filter.
    apply (drain_st_spec (filter_next fa envf p) (fun _ _ => True) (fun _ cs => filter (rp p) (rows_of cs))).
    - intros [] cs0 _. apply filter_next_none.
    - intros [] cs0 c [] rest _ H. destruct (filter_next_some _ _ _ _ _ H) as (A & B & _). auto.
    - exact I.
    - apply fuel_of_gt.
  Qed.

  (** every chunk the filter emits is an input chunk with a narrowed selection: well-formedness
      and the 2048-row bound are preserved (so Limit / Skip / Distinct above a Filter are within
      their theorems' hypotheses) *)
  Lemma filter_out_all (Q : chunk -> Prop) p cs :
    (forall c, Q c -> Q (mkChunk (c_rows c) (Some (filter_sel fa envf p c)))) ->
    Forall Q cs -> Forall Q (drain_filter fa envf p cs).
  Proof.
    intros HQ W. unfold drain_filter.
    apply (drain_st_all (filter_next fa envf p) (fun _ cs => Forall Q cs) (fun _ cs => filter (rp p) (rows_of cs))).
    - intros [] cs0 c [] rest W0 H. destruct (filter_next_some _ _ _ _ _ H) as (A & B & _ & D).
      split; [|auto]. apply Forall_forall. intros x Hx. rewrite Forall_forall in W0. apply W0, D, Hx.
    - intros [] cs0 c [] rest W0 H. destruct (filter_next_some _ _ _ _ _ H) as (_ & _ & (x & Hx & ->) & _).
      apply HQ. rewrite Forall_forall in W0. now apply W0.
    - exact W.
  Qed.
  Lemma filter_out_wf p cs : Forall chunk_wf cs -> Forall chunk_wf (drain_filter fa envf p cs).
  Proof. apply filter_out_all. intros c. apply filter_sel_wf. Qed.
  Lemma filter_out_small p cs : Forall small_chunk cs -> Forall small_chunk (drain_filter fa envf p cs).
  Proof.
    apply filter_out_all. intros c [W L]. split; [now apply filter_sel_wf|].
    pose proof (filter_sel_count p c). lia.
  Qed.
End FilterP.

(** * three-way split of a stream *)
Lemma filter3_perm {A} (a b c : A -> bool) (l : list A) :
  (forall x, exactly_one3 (a x) (b x) (c x) = true) ->
  Permutation l (filter a l ++ filter b l ++ filter c l).
Proof.
  intros H. induction l as [|x l IH]; [constructor|].
  cbn [filter]. specialize (H x).
  destruct (a x), (b x), (c x); try discriminate H; cbn [app].
  - constructor. exact IH.
  - apply Permutation_cons_app. exact IH.
  - rewrite app_assoc. apply Permutation_cons_app. rewrite <- app_assoc. exact IH.
Qed.

(** * Limit *)
Lemma firstn_app_exact {A} (l1 l2 : list A) n : (length l1 <= n)%nat ->
  firstn n (l1 ++ l2) = l1 ++ firstn (n - length l1) l2.
Proof. intros H. rewrite firstn_app, firstn_all2 by exact H. reflexivity. Qed.

Lemma wf_tail c cs : Forall chunk_wf (c :: cs) -> chunk_wf c /\ Forall chunk_wf cs.
Proof. intros H. inversion H; auto. Qed.

Lemma limit_loop_none rem ret : forall cs, Forall chunk_wf cs -> limit_loop rem ret cs = None -> rows_of cs = [].
Proof.
  induction cs as [|c rest IH]; [reflexivity|]. intros W. apply wf_tail in W as [Wc Wr].
  cbn [limit_loop]. pose proof (lrows_length c Wc) as L.
  destruct (row_count c =? 0) eqn:E0.
  - intros H. rewrite rows_of_cons, (IH Wr H). apply Z.eqb_eq in E0.
    destruct (lrows c); [reflexivity|cbn [length] in L; lia].
  - destruct (row_count c <=? rem); discriminate.
Qed.

Lemma limit_loop_some rem ret : 0 < rem -> forall cs c ret' rest, Forall chunk_wf cs ->
  limit_loop rem ret cs = Some (c, ret', rest) ->
  (length rest < length cs)%nat /\ Forall chunk_wf rest /\ chunk_wf c /\ ret < ret' <= ret + rem /\
  firstn (Z.to_nat rem) (rows_of cs) = lrows c ++ firstn (Z.to_nat (rem - (ret' - ret))) (rows_of rest).
Proof.
  intros Hrem. induction cs as [|c0 rest0 IH]; intros c ret' rest W; [discriminate|].
  apply wf_tail in W as [Wc Wr]. cbn [limit_loop]. pose proof (lrows_length c0 Wc) as L.
  destruct (row_count c0 =? 0) eqn:E0.
  - intros H. destruct (IH _ _ _ Wr H) as (A & B & C & D & E). split; [cbn [length]; lia|].
    repeat split; try assumption; try lia.
    apply Z.eqb_eq in E0. rewrite rows_of_cons.
    destruct (lrows c0); [exact E|cbn [length] in L; lia].
  - apply Z.eqb_neq in E0. destruct (row_count c0 <=? rem) eqn:E1.
    + apply Z.leb_le in E1. intros H. injection H as <- <- <-.
      split; [cbn [length]; lia|]. repeat split; try assumption; try lia.
      rewrite rows_of_cons, firstn_app_exact by lia. f_equal. f_equal. lia.
    + apply Z.leb_gt in E1. intros H. injection H as <- <- <-.
      assert (Hlen : length (firstn (Z.to_nat rem) (lrows c0)) = Z.to_nat rem) by (rewrite firstn_length; lia).
      split; [cbn [length]; lia|]. repeat split; try assumption; try (rewrite Hlen; lia).
      rewrite Hlen, rows_of_cons, firstn_app, lrows_plain.
      f_equal. replace (Z.to_nat rem - length (lrows c0))%nat with 0%nat by lia.
      replace (Z.to_nat (rem - (ret + Z.of_nat (Z.to_nat rem) - ret))) with 0%nat by lia. reflexivity.
Qed.

Lemma limit_spec_l limit cs : Forall chunk_wf cs ->
  rows_of (drain_limit limit cs) = firstn (Z.to_nat limit) (rows_of cs).
Proof.
  intros W. unfold drain_limit.
  rewrite (drain_st_spec (limit_next limit)
             (fun ret cs => Forall chunk_wf cs /\ 0 <= ret)
             (fun ret cs => firstn (Z.to_nat (limit - ret)) (rows_of cs))).
  - now rewrite Z.sub_0_r.
  - intros ret cs0 [W0 H0]. unfold limit_next. destruct (limit <=? ret) eqn:E.
    + intros _. apply Z.leb_le in E. replace (Z.to_nat (limit - ret)) with 0%nat by lia. reflexivity.
    + intros H. rewrite (limit_loop_none _ _ _ W0 H). apply firstn_nil.
  - intros ret cs0 c ret' rest [W0 H0]. unfold limit_next. destruct (limit <=? ret) eqn:E; [discriminate|].
    apply Z.leb_gt in E. intros H.
    destruct (limit_loop_some (limit - ret) ret ltac:(lia) _ _ _ _ W0 H) as (A & B & C & D & F).
    repeat split; try assumption; try lia. rewrite F. do 3 f_equal. lia.
  - split; [exact W|lia].
  - apply fuel_of_gt.
Qed.

Lemma limit_out_wf limit cs : Forall chunk_wf cs -> Forall chunk_wf (drain_limit limit cs).
Proof.
  intros W. unfold drain_limit.
  apply (drain_st_all (limit_next limit)
             (fun ret cs => Forall chunk_wf cs /\ 0 <= ret)
             (fun ret cs => firstn (Z.to_nat (limit - ret)) (rows_of cs))).
  - intros ret cs0 c ret' rest [W0 H0]. unfold limit_next. destruct (limit <=? ret) eqn:E; [discriminate|].
    apply Z.leb_gt in E. intros H.
    destruct (limit_loop_some (limit - ret) ret ltac:(lia) _ _ _ _ W0 H) as (A & B & C & D & F).
    repeat split; try assumption; try lia. rewrite F. do 3 f_equal. lia.
  - intros ret cs0 c ret' rest [W0 H0]. unfold limit_next. destruct (limit <=? ret) eqn:E; [discriminate|].
    apply Z.leb_gt in E. intros H.
    destruct (limit_loop_some (limit - ret) ret ltac:(lia) _ _ _ _ W0 H) as (A & B & C & D & F). exact C.
  - split; [exact W|lia].
Qed.

(** * Skip *)
Lemma skipn_app_exact {A} (l1 l2 : list A) n : (length l1 <= n)%nat ->
  skipn n (l1 ++ l2) = skipn (n - length l1) l2.
Proof. intros H. rewrite skipn_app, skipn_all2 by exact H. reflexivity. Qed.

Lemma skip_next_none skip : forall cs skipped, Forall chunk_wf cs -> skip_next skip skipped cs = None ->
  skipn (Z.to_nat (skip - skipped)) (rows_of cs) = [].
Proof.
  induction cs as [|c rest IH]; intros skipped W; [intros _; apply skipn_nil|].
  apply wf_tail in W as [Wc Wr]. cbn [skip_next]. pose proof (lrows_length c Wc) as L.
  destruct (skipped <? skip) eqn:E; [|discriminate]. apply Z.ltb_lt in E.
  destruct (row_count c <=? Z.min (skip - skipped) (row_count c)) eqn:E1; [|discriminate].
  apply Z.leb_le in E1. intros H. rewrite rows_of_cons, skipn_app_exact by lia.
  rewrite <- (IH _ Wr H). f_equal. lia.
Qed.

Lemma skip_next_some skip : forall cs skipped c skipped' rest, Forall chunk_wf cs ->
  skip_next skip skipped cs = Some (c, skipped', rest) ->
  (length rest < length cs)%nat /\ Forall chunk_wf rest /\ chunk_wf c /\
  skipn (Z.to_nat (skip - skipped)) (rows_of cs) = lrows c ++ skipn (Z.to_nat (skip - skipped')) (rows_of rest).
Proof.
  induction cs as [|c0 rest0 IH]; intros skipped c skipped' rest W; [discriminate|].
  apply wf_tail in W as [Wc Wr]. cbn [skip_next]. pose proof (lrows_length c0 Wc) as L.
  destruct (skipped <? skip) eqn:E.
  - apply Z.ltb_lt in E.
    destruct (row_count c0 <=? Z.min (skip - skipped) (row_count c0)) eqn:E1.
    + apply Z.leb_le in E1. intros H. destruct (IH _ _ _ _ Wr H) as (A & B & C & D).
      split; [cbn [length]; lia|]. repeat split; try assumption.
      rewrite rows_of_cons, skipn_app_exact by lia. rewrite <- D. f_equal. lia.
    + apply Z.leb_gt in E1. intros H. injection H as <- <- <-.
      split; [cbn [length]; lia|]. repeat split; try assumption.
      rewrite rows_of_cons, skipn_app, lrows_plain.
      replace (Z.min (skip - skipped) (row_count c0)) with (skip - skipped) by lia.
      f_equal. replace (Z.to_nat (skip - skipped) - length (lrows c0))%nat with 0%nat by lia.
      rewrite Z.sub_diag. reflexivity.
  - apply Z.ltb_ge in E. intros H. injection H as <- <- <-.
    split; [cbn [length]; lia|]. repeat split; try assumption.
    replace (Z.to_nat (skip - skipped)) with 0%nat by lia. reflexivity.
Qed.

Lemma skip_spec_l skip cs : Forall chunk_wf cs ->
  rows_of (drain_skip skip cs) = skipn (Z.to_nat skip) (rows_of cs).
Proof.
  intros W. unfold drain_skip.
  rewrite (drain_st_spec (skip_next skip) (fun _ cs => Forall chunk_wf cs)
             (fun sk cs => skipn (Z.to_nat (skip - sk)) (rows_of cs))).
  - now rewrite Z.sub_0_r.
  - intros sk cs0 W0. apply skip_next_none, W0.
  - intros sk cs0 c sk' rest W0 H. destruct (skip_next_some _ _ _ _ _ _ W0 H) as (A & B & C & D). auto.
  - exact W.
  - apply fuel_of_gt.
Qed.

Lemma skip_out_wf skip cs : Forall chunk_wf cs -> Forall chunk_wf (drain_skip skip cs).
Proof.
  intros W. unfold drain_skip.
  apply (drain_st_all (skip_next skip) (fun _ cs => Forall chunk_wf cs)
             (fun sk cs => skipn (Z.to_nat (skip - sk)) (rows_of cs))).
  - intros sk cs0 c sk' rest W0 H. destruct (skip_next_some _ _ _ _ _ _ W0 H) as (A & B & C & D). auto.
  - intros sk cs0 c sk' rest W0 H. destruct (skip_next_some _ _ _ _ _ _ W0 H) as (A & B & C & D). exact C.
  - exact W.
Qed.

Lemma skip_limit_spec_l s n cs : Forall chunk_wf cs ->
  rows_of (drain_limit n (drain_skip s cs)) = firstn (Z.to_nat n) (skipn (Z.to_nat s) (rows_of cs)).
Proof. intros W. rewrite limit_spec_l by (apply skip_out_wf, W). now rewrite skip_spec_l. Qed.

(** * LimitSkip (fused) *)
Lemma limitskip_loop_none skip limit : forall cs sk ret, Forall chunk_wf cs -> ret < limit ->
  limitskip_loop skip limit sk ret cs = None ->
  firstn (Z.to_nat (limit - ret)) (skipn (Z.to_nat (skip - sk)) (rows_of cs)) = [].
Proof.
  induction cs as [|c rest IH]; intros sk ret W Hr; [intros _; now rewrite skipn_nil, firstn_nil|].
  apply wf_tail in W as [Wc Wr]. cbn [limitskip_loop]. pose proof (lrows_length c Wc) as L.
  destruct (row_count c =? 0) eqn:E0.
  - apply Z.eqb_eq in E0. intros H. rewrite rows_of_cons.
    destruct (lrows c); [cbn [app]; apply (IH _ _ Wr Hr H)|cbn [length] in L; lia].
  - apply Z.eqb_neq in E0.
    destruct ((sk <? skip) && (row_count c <=? Z.min (skip - sk) (row_count c))) eqn:E1.
    + apply andb_true_iff in E1 as [E1 E2]. apply Z.ltb_lt in E1. apply Z.leb_le in E2.
      intros H. rewrite rows_of_cons, skipn_app_exact by lia.
      rewrite <- (IH _ _ Wr Hr H). do 2 f_equal. lia.
    + destruct (Z.min (row_count c - (if sk <? skip then Z.min (skip - sk) (row_count c) else 0)) (limit - ret) =? 0) eqn:E2;
        [|discriminate].
      apply Z.eqb_eq in E2. exfalso.
      destruct (sk <? skip) eqn:E3; cbn [andb] in E1.
      * apply Z.leb_gt in E1. lia.
      * pose proof (Zle_0_nat (length (lrows c))). lia.
Qed.

Lemma limitskip_loop_some skip limit : forall cs sk ret c sk' ret' rest, Forall chunk_wf cs -> ret < limit ->
  limitskip_loop skip limit sk ret cs = Some (c, (sk', ret'), rest) ->
  (length rest < length cs)%nat /\ Forall chunk_wf rest /\ ret < ret' <= limit /\
  firstn (Z.to_nat (limit - ret)) (skipn (Z.to_nat (skip - sk)) (rows_of cs))
  = lrows c ++ firstn (Z.to_nat (limit - ret')) (skipn (Z.to_nat (skip - sk')) (rows_of rest)).
Proof.
  induction cs as [|c0 rest0 IH]; intros sk ret c sk' ret' rest W Hr; [discriminate|].
  apply wf_tail in W as [Wc Wr]. cbn [limitskip_loop]. pose proof (lrows_length c0 Wc) as L.
  destruct (row_count c0 =? 0) eqn:E0.
  - apply Z.eqb_eq in E0. intros H. destruct (IH _ _ _ _ _ _ Wr Hr H) as (A & B & C & D).
    split; [cbn [length]; lia|]. repeat split; try assumption; try lia.
    rewrite rows_of_cons. destruct (lrows c0); [exact D|cbn [length] in L; lia].
  - apply Z.eqb_neq in E0.
    destruct ((sk <? skip) && (row_count c0 <=? Z.min (skip - sk) (row_count c0))) eqn:E1.
    + apply andb_true_iff in E1 as [E1 E2]. apply Z.ltb_lt in E1. apply Z.leb_le in E2.
      intros H. destruct (IH _ _ _ _ _ _ Wr Hr H) as (A & B & C & D).
      split; [cbn [length]; lia|]. repeat split; try assumption; try lia.
      rewrite rows_of_cons, skipn_app_exact by lia. rewrite <- D. do 2 f_equal. lia.
    + set (start := if sk <? skip then Z.min (skip - sk) (row_count c0) else 0).
      set (tr := Z.min (row_count c0 - start) (limit - ret)).
      destruct (tr =? 0) eqn:E2; [discriminate|]. apply Z.eqb_neq in E2.
      intros H. injection H as <- <- <- <-.
      assert (Hs : 0 <= start < row_count c0 /\ Z.to_nat start = Z.to_nat (skip - sk)
                   /\ (if sk <? skip then skip else sk) >= skip - 0 * sk
                      \/ 0 <= start < row_count c0 /\ start = 0 /\ skip <= sk).
      { unfold start. destruct (sk <? skip) eqn:E3; cbn [andb] in E1.
        - apply Z.leb_gt in E1. apply Z.ltb_lt in E3. left. lia.
        - apply Z.ltb_ge in E3. right. pose proof (Zle_0_nat (length (lrows c0))). lia. }
      assert (Hst : Z.to_nat (skip - sk) = Z.to_nat start /\ 0 <= start < row_count c0
                    /\ Z.to_nat (skip - (if sk <? skip then skip else sk)) = 0%nat).
      { unfold start in *. destruct (sk <? skip) eqn:E3.
        - apply Z.ltb_lt in E3. destruct Hs as [Hs|Hs]; lia.
        - apply Z.ltb_ge in E3. destruct Hs as [Hs|Hs]; lia. }
      destruct Hst as (Hst1 & Hst2 & Hst3).
      assert (Htr : 0 < tr <= limit - ret /\ tr <= row_count c0 - start) by (unfold tr in *; lia).
      split; [cbn [length]; lia|]. repeat split; try assumption; try lia.
      rewrite Hst3, Hst1, lrows_plain. cbn [skipn].
      rewrite rows_of_cons, skipn_app.
      replace (Z.to_nat start - length (lrows c0))%nat with 0%nat by lia. cbn [skipn].
      rewrite firstn_app.
      assert (Hl : length (skipn (Z.to_nat start) (lrows c0)) = Z.to_nat (row_count c0 - start))
        by (rewrite skipn_length; lia).
      rewrite Hl.
      destruct (Z.le_gt_cases (row_count c0 - start) (limit - ret)) as [Hc|Hc].
      * replace tr with (row_count c0 - start) by (unfold tr; lia).
        rewrite (firstn_all2 (skipn (Z.to_nat start) (lrows c0)) (n := Z.to_nat (limit - ret))) by lia.
        rewrite (firstn_all2 (skipn (Z.to_nat start) (lrows c0)) (n := Z.to_nat (row_count c0 - start))) by lia.
        f_equal. f_equal. lia.
      * replace tr with (limit - ret) by (unfold tr; lia). f_equal.
        replace (Z.to_nat (limit - ret) - Z.to_nat (row_count c0 - start))%nat with 0%nat by lia.
        replace (Z.to_nat (limit - (ret + (limit - ret)))) with 0%nat by lia. reflexivity.
Qed.

Lemma limitskip_spec_l s n cs : Forall chunk_wf cs -> 0 <= s ->
  rows_of (drain_limitskip s n cs) = firstn (Z.to_nat n) (skipn (Z.to_nat s) (rows_of cs)).
Proof.
  intros W Hs. unfold drain_limitskip.
  rewrite (drain_st_spec (limitskip_next s n)
             (fun st cs => Forall chunk_wf cs /\ 0 <= snd st)
             (fun st cs => firstn (Z.to_nat (n - snd st)) (skipn (Z.to_nat (s - fst st)) (rows_of cs)))).
  - cbn [fst snd]. now rewrite !Z.sub_0_r.
  - intros [sk ret] cs0 [W0 H0]. unfold limitskip_next. cbn [fst snd]. destruct (n <=? ret) eqn:E.
    + intros _. apply Z.leb_le in E. replace (Z.to_nat (n - ret)) with 0%nat by lia. reflexivity.
    + apply Z.leb_gt in E. apply limitskip_loop_none; assumption.
  - intros [sk ret] cs0 c [sk' ret'] rest [W0 H0]. unfold limitskip_next. cbn [fst snd].
    destruct (n <=? ret) eqn:E; [discriminate|]. apply Z.leb_gt in E. intros H.
    destruct (limitskip_loop_some _ _ _ _ _ _ _ _ _ W0 E H) as (A & B & C & D).
    cbn [fst snd] in *. repeat split; try assumption; lia.
  - cbn [snd]. split; [exact W|lia].
  - apply fuel_of_gt.
Qed.

(** * Distinct *)
Lemma distinct_chunk_spec : forall rows cap seen o s R,
  Z.of_nat (length rows) <= cap ->
  distinct_chunk_pre cap rows seen = (o, s) ->
  dedup_from seen (rows ++ R) = o ++ dedup_from s R.
Proof.
  induction rows as [|r t IH]; intros cap seen o s R Hc.
  - cbn [distinct_chunk_pre]. intros H. injection H as <- <-. reflexivity.
  - cbn [distinct_chunk_pre app dedup_from]. cbn [length] in Hc.
    destruct (seen_mem (row_key r) seen).
    + intros H. apply (IH cap seen o s R); [lia|exact H].
    + destruct (cap <=? 1) eqn:E.
      * apply Z.leb_le in E. intros H. injection H as <- <-.
        destruct t; [reflexivity|cbn [length] in Hc; lia].
      * apply Z.leb_gt in E.
        destruct (distinct_chunk_pre (cap - 1) t (row_key r :: seen)) as [o' s'] eqn:E2.
        intros H. injection H as <- <-. cbn [app]. f_equal.
        apply (IH (cap - 1) _ o' s' R); [lia|exact E2].
Qed.

Lemma distinct_next_none : forall cs seen, Forall small_chunk cs -> distinct_next_pre seen cs = None ->
  dedup_from seen (rows_of cs) = [].
Proof.
  induction cs as [|c rest IH]; intros seen W; [reflexivity|].
  inversion W as [|c' r' [Wc Hc] Wr]; subst. cbn [distinct_next_pre].
  destruct (distinct_chunk_pre 2048 (lrows c) seen) as [o s] eqn:E.
  pose proof (lrows_length c Wc) as L.
  rewrite rows_of_cons, (distinct_chunk_spec (lrows c) 2048 seen o s (rows_of rest) ltac:(lia) E).
  destruct o; [|discriminate]. intros H. cbn [app]. apply IH; assumption.
Qed.

Lemma distinct_next_some : forall cs seen c seen' rest, Forall small_chunk cs ->
  distinct_next_pre seen cs = Some (c, seen', rest) ->
  (length rest < length cs)%nat /\ Forall small_chunk rest /\
  dedup_from seen (rows_of cs) = lrows c ++ dedup_from seen' (rows_of rest).
Proof.
  induction cs as [|c0 rest0 IH]; intros seen c seen' rest W; [discriminate|].
  inversion W as [|c' r' [Wc Hc] Wr]; subst. cbn [distinct_next_pre].
  destruct (distinct_chunk_pre 2048 (lrows c0) seen) as [o s] eqn:E.
  pose proof (lrows_length c0 Wc) as L.
  rewrite rows_of_cons, (distinct_chunk_spec (lrows c0) 2048 seen o s (rows_of rest0) ltac:(lia) E).
  destruct o as [|r o].
  - intros H. destruct (IH _ _ _ _ Wr H) as (A & B & C). split; [cbn [length]; lia|]. split; [exact B|].
    cbn [app]. exact C.
  - intros H. injection H as <- <- <-. split; [cbn [length]; lia|]. split; [exact Wr|]. reflexivity.
Qed.

Lemma distinct_spec_l cs : Forall small_chunk cs ->
  rows_of (drain_distinct_pre cs) = dedup_from [] (rows_of cs).
Proof.
  intros W. unfold drain_distinct_pre.
  apply (drain_st_spec distinct_next_pre (fun _ cs => Forall small_chunk cs)
             (fun seen cs => dedup_from seen (rows_of cs))).
  - intros seen cs0 W0. apply distinct_next_none, W0.
  - intros seen cs0 c seen' rest W0 H. destruct (distinct_next_some _ _ _ _ _ W0 H) as (A & B & C). auto.
  - exact W.
  - apply fuel_of_gt.
Qed.

(** the proposed repair of C11-K5: no bound on the chunk size is needed *)
Lemma distinct_chunk_fix_spec : forall rows seen o s R,
  distinct_chunk rows seen = (o, s) ->
  dedup_from seen (rows ++ R) = o ++ dedup_from s R.
Proof.
  induction rows as [|r t IH]; intros seen o s R.
  - cbn [distinct_chunk]. intros H. injection H as <- <-. reflexivity.
  - cbn [distinct_chunk app dedup_from].
    destruct (seen_mem (row_key r) seen).
    + intros H. apply (IH seen o s R H).
    + destruct (distinct_chunk t (row_key r :: seen)) as [o' s'] eqn:E2.
      intros H. injection H as <- <-. cbn [app]. f_equal. apply (IH _ o' s' R E2).
Qed.
Lemma distinct_next_fix_none : forall cs seen, distinct_next seen cs = None ->
  dedup_from seen (rows_of cs) = [].
Proof.
  induction cs as [|c rest IH]; intros seen; [reflexivity|]. cbn [distinct_next].
  destruct (distinct_chunk (lrows c) seen) as [o s] eqn:E.
  rewrite rows_of_cons, (distinct_chunk_fix_spec (lrows c) seen o s (rows_of rest) E).
  destruct o; [|discriminate]. intros H. cbn [app]. now apply IH.
Qed.
Lemma distinct_next_fix_some : forall cs seen c seen' rest,
  distinct_next seen cs = Some (c, seen', rest) ->
  (length rest < length cs)%nat /\
  dedup_from seen (rows_of cs) = lrows c ++ dedup_from seen' (rows_of rest).
Proof.
  induction cs as [|c0 rest0 IH]; intros seen c seen' rest; [discriminate|]. cbn [distinct_next].
  destruct (distinct_chunk (lrows c0) seen) as [o s] eqn:E.
  rewrite rows_of_cons, (distinct_chunk_fix_spec (lrows c0) seen o s (rows_of rest0) E).
  destruct o as [|r o].
  - intros H. destruct (IH _ _ _ _ H) as (A & C). split; [cbn [length]; lia|]. cbn [app]. exact C.
  - intros H. injection H as <- <- <-. split; [cbn [length]; lia|]. reflexivity.
Qed.
Lemma distinct_fix_spec_l cs : rows_of (drain_distinct cs) = dedup_from [] (rows_of cs).
Proof.
  unfold drain_distinct.
  apply (drain_st_spec distinct_next (fun _ _ => True) (fun seen cs => dedup_from seen (rows_of cs))).
  - intros seen cs0 _. apply distinct_next_fix_none.
  - intros seen cs0 c seen' rest _ H. destruct (distinct_next_fix_some _ _ _ _ _ H) as (A & C). auto.
  - exact I.
  - apply fuel_of_gt.
Qed.
(** every chunk the operator emits is plain (no selection vector) *)
Lemma distinct_next_plain : forall cs seen c seen' rest,
  distinct_next seen cs = Some (c, seen', rest) -> c_sel c = None /\ (length rest < length cs)%nat.
Proof.
  induction cs as [|c0 rest0 IH]; intros seen c seen' rest; [discriminate|]. cbn [distinct_next].
  destruct (distinct_chunk (lrows c0) seen) as [o s]. destruct o as [|r o].
  - intros H. destruct (IH _ _ _ _ H) as [A B]. split; [exact A|cbn [length]; lia].
  - intros H. injection H as <- _ <-. split; [reflexivity|cbn [length]; lia].
Qed.
Lemma distinct_out_wf_l cs : Forall chunk_wf (drain_distinct cs).
Proof.
  unfold drain_distinct. generalize (fuel_of cs) as fuel, (@nil rowkey) as seen. intros fuel. revert cs.
  induction fuel as [|f IH]; intros cs seen; [constructor|]. cbn [drain_st].
  destruct (distinct_next seen cs) as [[[c s'] rest]|] eqn:E; [|constructor].
  constructor; [|apply IH]. destruct (distinct_next_plain _ _ _ _ _ E) as [A _].
  unfold chunk_wf. now rewrite A.
Qed.
(** on the chunks every engine producer emits the operator before 24f6dab answered as the current one *)
Lemma distinct_fix_same_small cs : Forall small_chunk cs ->
  rows_of (drain_distinct cs) = rows_of (drain_distinct_pre cs).
Proof. intros W. now rewrite distinct_fix_spec_l, distinct_spec_l. Qed.

(** what [dedup_from] returns: every key of the input once, in first-occurrence order *)
Lemma keypart_eqb_eq a b : keypart_eqb a b = true <-> a = b.
Proof.
  destruct a, b; cbn; try (split; [discriminate|congruence]); try tauto.
  - rewrite Bool.eqb_true_iff. split; congruence.
  - rewrite Z.eqb_eq. split; congruence.
  - unfold zlist_eqb. revert s0. induction s as [|x s IH]; intros [|y s0]; cbn; try (split; [discriminate|congruence]); try tauto.
    rewrite andb_true_iff, Z.eqb_eq. split.
    + intros [-> H]. apply IH in H. congruence.
    + intros H. injection H as -> H. split; [reflexivity|]. apply IH. congruence.
Qed.
Lemma rowkey_eqb_eq : forall a b, rowkey_eqb a b = true <-> a = b.
Proof.
  unfold rowkey_eqb. induction a as [|x a IH]; intros [|y b]; cbn; try (split; [discriminate|congruence]); try tauto.
  rewrite andb_true_iff, keypart_eqb_eq, IH. split; [intros [-> ->]; reflexivity|intros H; injection H; auto].
Qed.
Lemma rowkey_dec (a b : rowkey) : {a = b} + {a <> b}.
Proof.
  destruct (rowkey_eqb a b) eqn:E; [left; now apply rowkey_eqb_eq|right].
  intros H. apply rowkey_eqb_eq in H. congruence.
Qed.
Lemma seen_mem_in k seen : seen_mem k seen = true <-> In k seen.
Proof.
  unfold seen_mem. rewrite existsb_exists. split.
  - intros [x [H1 H2]]. apply rowkey_eqb_eq in H2. now subst.
  - intros H. exists k. split; [exact H|]. now apply rowkey_eqb_eq.
Qed.

Lemma dedup_keys : forall l seen,
  NoDup (map row_key (dedup_from seen l))
  /\ (forall k, In k (map row_key (dedup_from seen l)) <-> In k (map row_key l) /\ ~ In k seen).
Proof.
  induction l as [|r t IH]; intros seen.
  - cbn. split; [constructor|]. intros k. tauto.
  - cbn [dedup_from map]. destruct (seen_mem (row_key r) seen) eqn:E.
    + apply seen_mem_in in E. destruct (IH seen) as [A B]. split; [exact A|].
      intros k. rewrite B. cbn [In]. split; [tauto|]. intros [[<-|H] N]; [contradiction|tauto].
    + assert (N : ~ In (row_key r) seen) by (rewrite <- seen_mem_in; congruence).
      destruct (IH (row_key r :: seen)) as [A B]. cbn [map]. split.
      * constructor; [|exact A]. rewrite B. cbn [In]. tauto.
      * intros k. cbn [In]. rewrite B. cbn [In].
        destruct (rowkey_dec (row_key r) k) as [Heq|Hne]; [subst k|]; intuition congruence.
Qed.

Lemma dedup_sub : forall l seen r, In r (dedup_from seen l) -> In r l.
Proof.
  induction l as [|x t IH]; intros seen r; [intros []|].
  cbn [dedup_from]. destruct (seen_mem (row_key x) seen).
  - intros H. right. eapply IH, H.
  - intros [<-|H]; [now left|right; eapply IH, H].
Qed.

(** the key is faithful on rows of Null/Bool/Int64/String values *)
Lemma key_of_inj v1 v2 : key_scalar v1 = true -> key_scalar v2 = true -> key_of v1 = key_of v2 -> v1 = v2.
Proof. destruct v1, v2; cbn; intros A B H; try discriminate; congruence. Qed.
Lemma row_key_inj : forall r1 r2, forallb key_scalar r1 = true -> forallb key_scalar r2 = true ->
  row_key r1 = row_key r2 -> r1 = r2.
Proof.
  induction r1 as [|a r1 IH]; intros [|b r2]; cbn; try discriminate; [reflexivity|].
  intros A B H. apply andb_true_iff in A as [A1 A2]. apply andb_true_iff in B as [B1 B2].
  injection H as H1 H2. f_equal; [now apply key_of_inj|now apply IH].
Qed.

(** * Union *)
Lemma union_next_none : forall inputs, union_next inputs = None -> flat_map rows_of inputs = [].
Proof.
  induction inputs as [|i more IH]; [reflexivity|]. cbn [union_next]. destruct i as [|c rest]; [|discriminate].
  intros H. cbn. apply IH, H.
Qed.
Lemma union_next_some : forall inputs c inputs', union_next inputs = Some (c, inputs') ->
  length (concat inputs) = S (length (concat inputs')) /\
  flat_map rows_of inputs = lrows c ++ flat_map rows_of inputs'.
Proof.
  induction inputs as [|i more IH]; intros c inputs'; [discriminate|]. cbn [union_next].
  destruct i as [|c0 rest].
  - intros H. destruct (IH _ _ H) as [A B]. split; [exact A|exact B].
  - intros H. injection H as <- <-. split; [reflexivity|].
    cbn [flat_map]. rewrite rows_of_cons, <- app_assoc. reflexivity.
Qed.
Lemma union_spec_l inputs : rows_of (drain_union inputs) = flat_map rows_of inputs.
Proof.
  unfold drain_union. generalize (Nat.lt_succ_diag_r (length (concat inputs))).
  generalize (S (length (concat inputs))) as fuel. intros fuel. revert inputs.
  induction fuel as [|f IH]; intros inputs Hf; [lia|].
  cbn [drain_union_st]. destruct (union_next inputs) as [[c inputs']|] eqn:E.
  - destruct (union_next_some _ _ _ E) as [A B]. rewrite rows_of_cons, IH by lia. now rewrite B.
  - cbn. symmetry. now apply union_next_none.
Qed.

(** * COUNT *)
Lemma count_star_fold : forall rows z,
  fold_left (fun st r => aggs_update [AggCountStar] r st) rows [z] = [z + Z.of_nat (length rows)].
Proof.
  induction rows as [|r t IH]; intros z; [cbn; f_equal; lia|].
  cbn [fold_left]. unfold aggs_update at 2. cbn [combine map fst snd agg_update].
  rewrite IH. cbn [length]. f_equal. lia.
Qed.

Lemma simple_agg_drain aggs cs :
  rows_of (drain_simple_agg aggs cs)
  = [map VInt (fold_left (fun st r => aggs_update aggs r st) (rows_of cs) (aggs_init aggs))].
Proof. unfold drain_simple_agg, fuel_of. cbn [drain_st simple_agg_next]. reflexivity. Qed.

Lemma count_star_l cs :
  rows_of (drain_simple_agg [AggCountStar] cs) = [[VInt (Z.of_nat (length (rows_of cs)))]].
Proof. rewrite simple_agg_drain. cbn [aggs_init map]. rewrite count_star_fold. reflexivity. Qed.

Lemma count_col_fold c : forall rows z,
  fold_left (fun st r => aggs_update [AggCount c] r st) rows [z]
  = [z + Z.of_nat (length (filter (nonnull_at c) rows))].
Proof.
  induction rows as [|r t IH]; intros z; [cbn; f_equal; lia|].
  cbn [fold_left]. unfold aggs_update at 2. cbn [combine map fst snd agg_update].
  rewrite IH. cbn [filter]. unfold nonnull_at at 2.
  destruct (nth_error r c) as [[| | | | |]|]; cbn [length]; f_equal; lia.
Qed.
Lemma count_col_l c cs :
  rows_of (drain_simple_agg [AggCount c] cs) = [[VInt (Z.of_nat (length (filter (nonnull_at c) (rows_of cs))))]].
Proof. rewrite simple_agg_drain. cbn [aggs_init map]. rewrite count_col_fold. reflexivity. Qed.

(** * hash aggregate *)
Lemma groups_update_length k upd init : forall gs,
  (length (groups_update k upd init gs) <= S (length gs))%nat.
Proof.
  induction gs as [|[k' st] t IH]; cbn [groups_update length]; [lia|].
  destruct (rowkey_eqb k k'); cbn [length]; lia.
Qed.
Lemma hash_groups_fold_length gcols aggs : forall rows gs,
  (length (fold_left (fun gs r => groups_update (group_key gcols r) (aggs_update aggs r) (aggs_init aggs) gs) rows gs)
   <= length gs + length rows)%nat.
Proof.
  induction rows as [|r t IH]; intros gs; cbn [fold_left length]; [lia|].
  etransitivity; [apply IH|]. pose proof (groups_update_length (group_key gcols r) (aggs_update aggs r) (aggs_init aggs) gs). lia.
Qed.

Lemma hash_agg_next_nil gcols aggs cs' : hash_agg_next gcols aggs (Some []) cs' = None.
Proof. reflexivity. Qed.
Lemma hash_agg_next_cons gcols aggs g gs' cs' :
  hash_agg_next gcols aggs (Some (g :: gs')) cs'
  = Some (mkChunk (map group_row (firstn 2048 (g :: gs'))) None, Some (skipn 2048 (g :: gs')), []).
Proof. unfold hash_agg_next. change (firstn 2048 (g :: gs')) with (g :: firstn 2047 gs'). reflexivity. Qed.

Lemma hash_agg_emit gcols aggs : forall fuel gs cs', (length gs < fuel)%nat ->
  rows_of (drain_st (hash_agg_next gcols aggs) fuel (Some gs) cs') = map group_row gs.
Proof.
  induction fuel as [|f IH]; intros gs cs' Hf; [lia|].
  cbn [drain_st]. destruct gs as [|g gs']; [now rewrite hash_agg_next_nil|].
  rewrite hash_agg_next_cons, rows_of_cons, lrows_plain, IH.
  - rewrite <- map_app. now rewrite firstn_skipn.
  - rewrite skipn_length. cbn [length] in *. lia.
Qed.

(** emission in batches of 2048 loses no group *)
Lemma hash_agg_drain_l gcols aggs cs :
  rows_of (drain_hash_agg gcols aggs cs) = map group_row (hash_groups gcols aggs (rows_of cs)).
Proof.
  unfold drain_hash_agg.
  assert (E : forall fuel, drain_st (hash_agg_next gcols aggs) fuel None cs
                           = drain_st (hash_agg_next gcols aggs) fuel (Some (hash_groups gcols aggs (rows_of cs))) cs)
    by (intros [|f]; reflexivity).
  rewrite E. apply hash_agg_emit.
  unfold fuel_of, hash_groups.
  pose proof (hash_groups_fold_length gcols aggs (rows_of cs) []) as H. cbn [length] in H. lia.
Qed.

(** GROUP BY with count-star: one group per distinct key (first-occurrence order), each with the
    number of rows of that key *)
Definition cnt (keys : list rowkey) (k : rowkey) : Z := Z.of_nat (count_occ rowkey_dec keys k).
Fixpoint glookup (k : rowkey) (gs : list group) : option (list Z) :=
  match gs with
  | [] => None
  | (k0, st) :: t => if rowkey_dec k k0 then Some st else glookup k t
  end.

Lemma gu_keys k u i : forall gs,
  map fst (groups_update k u i gs)
  = if in_dec rowkey_dec k (map fst gs) then map fst gs else map fst gs ++ [k].
Proof.
  induction gs as [|[k0 st] t IH]; [reflexivity|].
  cbn [groups_update map fst]. destruct (rowkey_eqb k k0) eqn:E.
  - apply rowkey_eqb_eq in E. subst k0. cbn [map fst].
    destruct (in_dec rowkey_dec k (k :: map fst t)) as [_|N]; [reflexivity|]. exfalso. apply N. now left.
  - assert (Ne : k <> k0) by (intros ->; rewrite (proj2 (rowkey_eqb_eq k0 k0) eq_refl) in E; discriminate).
    cbn [map fst]. rewrite IH.
    destruct (in_dec rowkey_dec k (map fst t)) as [I|N], (in_dec rowkey_dec k (k0 :: map fst t)) as [I'|N'];
      try reflexivity.
    + exfalso. apply N'. now right.
    + destruct I' as [I'|I']; [congruence|contradiction].
Qed.

Lemma gu_lookup k u i k' : forall gs,
  glookup k' (groups_update k u i gs)
  = if rowkey_dec k' k then Some (u (match glookup k gs with Some st => st | None => i end)) else glookup k' gs.
Proof.
  induction gs as [|[k0 st] t IH].
  - cbn [groups_update glookup]. destruct (rowkey_dec k' k); reflexivity.
  - cbn [groups_update]. destruct (rowkey_eqb k k0) eqn:E.
    + apply rowkey_eqb_eq in E. subst k0. cbn [glookup].
      destruct (rowkey_dec k k) as [_|N]; [|congruence]. destruct (rowkey_dec k' k); reflexivity.
    + assert (Ne : k <> k0) by (intros ->; rewrite (proj2 (rowkey_eqb_eq k0 k0) eq_refl) in E; discriminate).
      cbn [glookup]. rewrite IH. destruct (rowkey_dec k k0); [congruence|].
      destruct (rowkey_dec k' k0), (rowkey_dec k' k); try reflexivity. congruence.
Qed.

Lemma NoDup_snoc {A} (l : list A) k : NoDup l -> ~ In k l -> NoDup (l ++ [k]).
Proof.
  induction 1 as [|x l Hx ND IH]; cbn [app]; intros N; [constructor; [intros []|constructor]|].
  constructor.
  - rewrite in_app_iff. cbn [In]. intros [H|[H|[]]]; [contradiction|]. apply N. now left.
  - apply IH. intros H. apply N. now right.
Qed.

Definition groups_inv (gs : list group) (keys : list rowkey) : Prop :=
  NoDup (map fst gs)
  /\ (forall k, In k (map fst gs) <-> In k keys)
  /\ (forall k, glookup k gs = if in_dec rowkey_dec k keys then Some [cnt keys k] else None).

Lemma groups_inv_step gs keys r gcols : groups_inv gs keys ->
  groups_inv (groups_update (group_key gcols r) (aggs_update [AggCountStar] r) (aggs_init [AggCountStar]) gs)
             (keys ++ [group_key gcols r]).
Proof.
  set (k := group_key gcols r). intros (ND & KS & LK).
  assert (Hc : forall k', cnt (keys ++ [k]) k' = cnt keys k' + (if rowkey_dec k k' then 1 else 0)).
  { intros k'. unfold cnt. rewrite count_occ_app. cbn [count_occ]. destruct (rowkey_dec k k'); lia. }
  split; [|split].
  - rewrite gu_keys. destruct (in_dec rowkey_dec k (map fst gs)) as [I|N]; [exact ND|].
    apply NoDup_snoc; assumption.
  - intros k'. rewrite gu_keys, in_app_iff. cbn [In].
    destruct (in_dec rowkey_dec k (map fst gs)) as [I|N].
    + rewrite KS. split; [tauto|]. intros [H|[<-|[]]]; [exact H|now apply KS].
    + rewrite in_app_iff, KS. cbn [In]. tauto.
  - intros k'. rewrite gu_lookup, Hc.
    destruct (rowkey_dec k' k) as [->|Ne].
    + destruct (rowkey_dec k k) as [_|N]; [|congruence].
      destruct (in_dec rowkey_dec k (keys ++ [k])) as [_|N]; [|exfalso; apply N; rewrite in_app_iff; right; now left].
      rewrite LK. unfold aggs_update, aggs_init. cbn [map combine fst snd agg_update].
      destruct (in_dec rowkey_dec k keys) as [I|N].
      * do 2 f_equal.
      * unfold cnt. rewrite (proj1 (count_occ_not_In rowkey_dec keys k) N). reflexivity.
    + rewrite LK. destruct (rowkey_dec k k'); [congruence|]. rewrite Z.add_0_r.
      destruct (in_dec rowkey_dec k' keys) as [I|N], (in_dec rowkey_dec k' (keys ++ [k])) as [I'|N']; try reflexivity.
      * exfalso. apply N'. rewrite in_app_iff. now left.
      * apply in_app_iff in I' as [I'|[I'|[]]]; [contradiction|congruence].
Qed.

Lemma hash_groups_inv gcols : forall rows gs keys, groups_inv gs keys ->
  groups_inv (fold_left (fun gs r => groups_update (group_key gcols r) (aggs_update [AggCountStar] r)
                                        (aggs_init [AggCountStar]) gs) rows gs)
             (keys ++ map (group_key gcols) rows).
Proof.
  induction rows as [|r t IH]; intros gs keys H; [now rewrite app_nil_r|].
  cbn [fold_left map]. replace (keys ++ group_key gcols r :: map (group_key gcols) t)
    with ((keys ++ [group_key gcols r]) ++ map (group_key gcols) t) by (now rewrite <- app_assoc).
  apply IH, groups_inv_step, H.
Qed.

Lemma glookup_in gs : NoDup (map fst gs) -> forall k st, In (k, st) gs -> glookup k gs = Some st.
Proof.
  induction gs as [|[k0 st0] t IH]; intros ND k st; [intros []|].
  cbn [map fst] in ND. inversion ND as [|x l Hn ND']; subst. cbn [glookup]. intros [H|H].
  - injection H as <- <-. destruct (rowkey_dec k0 k0); [reflexivity|congruence].
  - destruct (rowkey_dec k k0) as [->|Ne]; [|now apply IH].
    exfalso. apply Hn. change k0 with (fst (k0, st)). now apply in_map.
Qed.

Lemma agg_count_groups_l gcols rows :
  let gs := hash_groups gcols [AggCountStar] rows in
  let keys := map (group_key gcols) rows in
  NoDup (map fst gs) /\ (forall k, In k (map fst gs) <-> In k keys)
  /\ (forall k st, In (k, st) gs -> st = [cnt keys k]).
Proof.
  intros gs keys.
  assert (I0 : groups_inv [] []).
  { split; [constructor|split]; [intros k; tauto|]. intros k. cbn. destruct (in_dec rowkey_dec k []) as [[]|_]. reflexivity. }
  pose proof (hash_groups_inv gcols rows [] [] I0) as (ND & KS & LK). cbn [app] in *.
  split; [exact ND|split; [exact KS|]].
  intros k st H. pose proof (glookup_in _ ND _ _ H) as G. unfold gs, hash_groups in G.
  rewrite LK in G. destruct (in_dec rowkey_dec k (map (group_key gcols) rows)); [|discriminate].
  injection G as <-. reflexivity.
Qed.

Lemma cnt_count_key keys k : cnt keys k = count_key keys k.
Proof.
  unfold cnt, count_key. f_equal. induction keys as [|x t IH]; [reflexivity|].
  cbn [count_occ filter]. destruct (rowkey_dec x k) as [->|N].
  - rewrite (proj2 (rowkey_eqb_eq k k) eq_refl). cbn [length]. now rewrite IH.
  - destruct (rowkey_eqb k x) eqn:E; [apply rowkey_eqb_eq in E; congruence|exact IH].
Qed.

Lemma agg_count_groups_l' gcols rows :
  let gs := hash_groups gcols [AggCountStar] rows in
  let keys := map (group_key gcols) rows in
  NoDup (map fst gs) /\ (forall k, In k (map fst gs) <-> In k keys)
  /\ (forall k st, In (k, st) gs -> st = [count_key keys k]).
Proof.
  intros gs keys. destruct (agg_count_groups_l gcols rows) as (A & B & C). split; [exact A|split; [exact B|]].
  intros k st H. rewrite <- cnt_count_key. now apply C.
Qed.

Lemma distinct_each_once_l cs :
  let out := rows_of (drain_distinct cs) in
  NoDup (map row_key out)
  /\ (forall r, In r (rows_of cs) -> In (row_key r) (map row_key out))
  /\ (forall r, In r out -> In r (rows_of cs)).
Proof.
  intros out. unfold out. rewrite distinct_fix_spec_l.
  destruct (dedup_keys (rows_of cs) []) as [A B]. split; [exact A|split].
  - intros r H. apply B. split; [now apply in_map|intros []].
  - intros r. apply dedup_sub.
Qed.

Lemma small_chunkb_ok c : small_chunkb c = true <-> small_chunk c.
Proof.
  unfold small_chunkb, small_chunk. rewrite andb_true_iff, chunk_wfb_ok, Z.leb_le. tauto.
Qed.
