(** C09 — the whole pass: where reordering is justified ([rs_chk]), what the front ends' plans
    (no join conditions) get, every switch combination, irrelevance of the statistics, the engine's
    stacked filters, and the witnesses of the places where the code changes the answer. *)
From Coq Require Import ZArith List Bool String Permutation Lia.
Import ListNotations.
From GV Require Import Query.Plan Query.Opt Query.RunOpt Query.ProofsOptBase Query.ProofsOptPush
  Query.ProofsOptBag Query.ProofsOptJoin.
Open Scope Z_scope.

(** ** observations that only read columns *)
Lemma eval_respects : forall G e, respects (eval G e).
Proof. intros G e a b E. apply eval_ext. intros v _. apply E. Qed.

Lemma passes_respects : forall G e, respects (passes G e).
Proof. intros G e a b E. apply passes_ext. intros v _. apply E. Qed.

Lemma project_row_respects : forall G items, respects (project_row G items).
Proof.
  intros G items a b E. unfold project_row. apply map_ext. intros [e al]. cbn [fst]. f_equal.
  unfold proj_cell. destruct e; try (rewrite (eval_respects G _ a b E); reflexivity).
  rewrite E. reflexivity.
Qed.

Lemma expand_row_respects : forall G f t ev d ty h T (g : row -> T),
  respects g -> respects (fun r => map g (expand_row G f t ev d ty h r)).
Proof.
  intros G f t ev d ty h T g Rg a b E. unfold expand_row. rewrite E.
  destruct (lookup f b) as [[| | | |s|]|]; try reflexivity.
  rewrite !map_map. apply map_ext. intros et. apply Rg, row_equiv_app_l, E.
Qed.

(** ** reordering: every site that fires keeps the normal form => same bag *)
Theorem reorder_sound : forall G b a, rs_chk b a = true -> bag_eqv (sem G b) (sem G a).
Proof.
  intros G b.
  assert (forall a, plan_eqb b a = true -> bag_eqv (sem G b) (sem G a)) as Same.
  { intros a H. apply plan_eqb_eq in H. subst. apply bag_eqv_refl. }
  assert (forall a, jt_wf b && jt_wf a && jnf_eqb b a = true -> bag_eqv (sem G b) (sem G a)) as Fire.
  { intros a H. apply andb_true_iff in H as [H H3]. apply andb_true_iff in H as [H1 H2].
    apply join_normal_form_wf; assumption. }
  clear Same Fire.
  induction b; intros a H; cbn [rs_chk] in H;
    match type of H with (if ?c then _ else _) = true => destruct c eqn:RF end;
    try (apply andb_true_iff in H as [H H3]; apply andb_true_iff in H as [H1 H2];
         apply join_normal_form_wf; assumption);
    try (apply plan_eqb_eq in H; subst; apply bag_eqv_refl);
    destruct a; try discriminate H;
    try (apply plan_eqb_eq in H; rewrite <- H; apply bag_eqv_refl).
  - (* Expand *)
    repeat match goal with H : _ && _ = true |- _ => apply andb_true_iff in H as [? ?] end.
    repeat match goal with
      | H : String.eqb _ _ = true |- _ => apply String.eqb_eq in H
      | H : ostr_eqb _ _ = true |- _ => apply ostr_eqb_eq in H
      | H : dir_eqb _ _ = true |- _ => apply dir_eqb_eq in H
      | H : hops_eqb _ _ = true |- _ => apply hops_eqb_eq in H
      end.
    subst.
    cbn [sem]. apply bag_eqv_flat_map; [intros; apply expand_row_respects; assumption|]. apply IHb. assumption.
  - (* Filter *)
    apply andb_true_iff in H as [H1 H2]. apply expr_eqb_eq in H1. subst.
    cbn [sem]. apply bag_eqv_filter; [apply passes_respects|]. apply IHb, H2.
  - (* Project *)
    apply andb_true_iff in H as [H1 H2]. apply (list_eqb_eq _ item_eqb_eq) in H1. subst.
    cbn [sem]. apply perm_bag_eqv, bag_eqv_map; [apply project_row_respects|]. apply IHb, H2.
  - (* Return *)
    apply andb_true_iff in H as [H H2]. apply andb_true_iff in H as [H1 H3].
    apply (list_eqb_eq _ item_eqb_eq) in H1. apply Bool.eqb_prop in H3. subst.
    cbn [sem]. apply perm_bag_eqv.
    assert (Permutation (map (project_row G items0) (sem G b)) (map (project_row G items0) (sem G a))) as P
      by (apply bag_eqv_map; [apply project_row_respects|]; apply IHb, H2).
    unfold return_rows. destruct distinct0; [apply dedup_perm, P|exact P].
  - (* Aggregate *)
    apply andb_true_iff in H as [H H2]. apply andb_true_iff in H as [H1 H3].
    apply (list_eqb_eq _ expr_eqb_eq) in H1. apply (list_eqb_eq _ agg_eqb_eq) in H3. subst.
    cbn [sem]. apply perm_bag_eqv, agg_rows_bag. apply IHb, H2.
  - (* Sort *)
    apply andb_true_iff in H as [H1 H2]. apply (list_eqb_eq _ skey_eqb_eq) in H1. subst.
    cbn [sem].
    eapply bag_eqv_trans; [apply perm_bag_eqv, sort_rows_perm|].
    eapply bag_eqv_trans; [apply IHb, H2|]. apply bag_eqv_sym, perm_bag_eqv, sort_rows_perm.
  - (* Distinct *)
    repeat (apply andb_true_iff in H as [H ?]).
    cbn [sem]. apply (bag_eqv_dedup _ _ (schema b) (schema a));
      [apply nodupb_NoDup; assumption|apply nodupb_NoDup; assumption| | |apply IHb; assumption].
    + intros r Hr. apply (keys_sem G b); assumption.
    + intros r Hr. apply (keys_sem G a); assumption.
Qed.

(** under a Return the bags are equal on the nose (column order no longer matters) *)
Corollary reorder_sound_return : forall G items d b a,
  rs_chk b a = true -> Permutation (sem G (PReturn items d b)) (sem G (PReturn items d a)).
Proof.
  intros G items d b a H. cbn [sem].
  assert (Permutation (map (project_row G items) (sem G b)) (map (project_row G items) (sem G a))) as P
    by (apply bag_eqv_map; [apply project_row_respects|]; apply reorder_sound; assumption).
  unfold return_rows. destruct d; [apply dedup_perm, P|exact P].
Qed.

(** ** plans without join conditions (all the front ends emit) are never reordered *)
Lemma jt_collect_no_conds : forall p, no_conds p = true -> snd (fst (jt_collect p)) = [].
Proof.
  induction p; cbn [no_conds jt_collect]; intros H; try reflexivity.
  - destruct (base_var p); reflexivity.
  - destruct conds; [|discriminate]. cbn [andb] in H. apply andb_true_iff in H as [H1 H2].
    specialize (IHp1 H1). specialize (IHp2 H2).
    destruct (jt_collect p1) as [[rl cl] okl], (jt_collect p2) as [[rr cr] okr]. cbn [fst snd] in *.
    subst. reflexivity.
Qed.

Lemma grow_nil : forall seen, grow [] seen = seen.
Proof. reflexivity. Qed.

Lemma reach_nil : forall fuel seen, reach fuel [] seen = seen.
Proof. induction fuel; cbn [reach]; intros; auto. Qed.

Lemma connected_nil : forall n, (2 <= n)%nat -> connected n [] = false.
Proof.
  intros n Hn. unfold connected. rewrite reach_nil.
  destruct n as [|[|n]]; try lia. cbn. reflexivity.
Qed.

Lemma no_conds_not_fires : forall p, no_conds p = true -> reorder_fires p = false.
Proof.
  intros p H. unfold reorder_fires, jt_extract.
  pose proof (jt_collect_no_conds p H) as E.
  destruct (jt_collect p) as [[rels infos] ok]. cbn [fst snd] in E. subst.
  match goal with |- context [if ?c then _ else _] => destruct c eqn:C end; [|reflexivity].
  apply andb_true_iff in C as [C _]. apply andb_true_iff in C as [_ C]. apply Z.leb_le in C.
  cbn [jg_edges flat_map]. apply connected_nil. lia.
Qed.

Theorem reorder_noop : forall b a, no_conds b = true -> reorder_chk b a = true -> a = b.
Proof.
  induction b; intros a NC H; cbn [reorder_chk] in H;
    rewrite (no_conds_not_fires _ NC) in H; cbn [no_conds] in NC;
    try (apply plan_eqb_eq in H; congruence);
    destruct a; try discriminate H;
    try (apply plan_eqb_eq in H; congruence);
    repeat match goal with H : _ && _ = true |- _ => apply andb_true_iff in H as [? ?] end;
    repeat match goal with
      | H : String.eqb _ _ = true |- _ => apply String.eqb_eq in H
      | H : ostr_eqb _ _ = true |- _ => apply ostr_eqb_eq in H
      | H : dir_eqb _ _ = true |- _ => apply dir_eqb_eq in H
      | H : hops_eqb _ _ = true |- _ => apply hops_eqb_eq in H
      | H : expr_eqb _ _ = true |- _ => apply expr_eqb_eq in H
      | H : Bool.eqb _ _ = true |- _ => apply Bool.eqb_prop in H
      | H : Nat.eqb _ _ = true |- _ => apply Nat.eqb_eq in H
      | H : list_eqb item_eqb _ _ = true |- _ => apply (list_eqb_eq _ item_eqb_eq) in H
      | H : list_eqb expr_eqb _ _ = true |- _ => apply (list_eqb_eq _ expr_eqb_eq) in H
      | H : list_eqb agg_eqb _ _ = true |- _ => apply (list_eqb_eq _ agg_eqb_eq) in H
      | H : list_eqb skey_eqb _ _ = true |- _ => apply (list_eqb_eq _ skey_eqb_eq) in H
      end;
    subst; f_equal; apply IHb; assumption.
Qed.

Lemma no_conds_try_push : forall e op, no_conds op = true -> no_conds (try_push e op) = true.
Proof.
  intros e op; induction op; cbn [try_push no_conds]; intros H; try exact H.
  - destruct (uses_any _ _); cbn [no_conds]; auto.
  - destruct (all_passed _ _); cbn [no_conds]; auto.
  - destruct (all_passed _ _); cbn [no_conds]; auto.
  - apply andb_true_iff in H as [H H2]. apply andb_true_iff in H as [H0 H1].
    destruct (_ && _); cbn [no_conds]; [rewrite H0, IHop1, H2 by assumption; reflexivity|].
    destruct (_ && _); cbn [no_conds]; [rewrite H0, H1, IHop2 by assumption; reflexivity|].
    rewrite H0, H1, H2. reflexivity.
Qed.

Lemma no_conds_pfd : forall p, no_conds p = true -> no_conds (pfd p) = true.
Proof.
  induction p; cbn [pfd no_conds]; intros H; auto.
  - apply no_conds_try_push; auto.
  - apply andb_true_iff in H as [H H2]. apply andb_true_iff in H as [H0 H1].
    rewrite H0, IHp1, IHp2 by assumption. reflexivity.
Qed.

(** ** all 2^3 switch combinations, any statistics *)

Theorem switch_subsets_l : forall G fp jr pp (R : plan -> plan) p,
  uniform p = true ->
  (fp = true -> k_push p = false) ->
  (jr = true -> k_reorder (after_fp fp p) (R (after_fp fp p)) = false) ->
  bag_eqv (sem G (optimize fp jr pp R p)) (sem G p).
Proof.
  intros G fp jr pp R p U Hf Hr. unfold optimize. fold (after_fp fp p).
  assert (sem G (after_fp fp p) = sem G p) as E1.
  { unfold after_fp. destruct fp; [|reflexivity]. apply pfd_sound; [assumption|].
    specialize (Hf eq_refl). unfold k_push in Hf. now apply negb_false_iff in Hf. }
  assert (bag_eqv (sem G (if jr then R (after_fp fp p) else after_fp fp p)) (sem G p)) as E2.
  { destruct jr; [|rewrite E1; apply bag_eqv_refl].
    specialize (Hr eq_refl). unfold k_reorder in Hr. apply negb_false_iff in Hr.
    rewrite <- E1. apply bag_eqv_sym, reorder_sound, Hr. }
  destruct pp; [rewrite ppd_id|]; exact E2.
Qed.

(** two runs that differ only in the statistics (hence in what [reorder_joins] returns) *)
Theorem stats_irrelevant_l : forall G fp jr pp (R1 R2 : plan -> plan) p,
  uniform p = true ->
  (fp = true -> k_push p = false) ->
  (jr = true -> k_reorder (after_fp fp p) (R1 (after_fp fp p)) = false) ->
  (jr = true -> k_reorder (after_fp fp p) (R2 (after_fp fp p)) = false) ->
  bag_eqv (sem G (optimize fp jr pp R1 p)) (sem G (optimize fp jr pp R2 p)).
Proof.
  intros. eapply bag_eqv_trans; [apply switch_subsets_l; assumption|].
  apply bag_eqv_sym, switch_subsets_l; assumption.
Qed.

(** what every front end's plan gets: the very same list of rows (so also the same order under
    ORDER BY and the same rows under LIMIT), whatever [reorder_joins] may do *)
Theorem switch_subsets_frontend_l : forall G fp jr pp (R : plan -> plan) p,
  uniform p = true -> no_conds p = true ->
  (fp = true -> k_push p = false) ->
  reorder_chk (after_fp fp p) (R (after_fp fp p)) = true ->
  sem G (optimize fp jr pp R p) = sem G p.
Proof.
  intros G fp jr pp R p U NC Hf Hr. unfold optimize. fold (after_fp fp p).
  assert (no_conds (after_fp fp p) = true) as NC1.
  { unfold after_fp. destruct fp; [apply no_conds_pfd|]; assumption. }
  rewrite (reorder_noop _ _ NC1 Hr).
  assert (sem G (after_fp fp p) = sem G p) as E1.
  { unfold after_fp. destruct fp; [|reflexivity]. apply pfd_sound; [assumption|].
    specialize (Hf eq_refl). unfold k_push in Hf. now apply negb_false_iff in Hf. }
  destruct jr, pp; rewrite ?ppd_id; exact E1.
Qed.

(** ** the engine's selection vectors: stacked filters compose (df57ccb) *)
Lemma semq_sem : forall G p, fst (semq G p) = sem G p.
Proof.
  intros G p; induction p; cbn [semq sem fst]; try reflexivity;
    try (rewrite IHp; reflexivity); try (rewrite IHp1, IHp2; reflexivity).
  (* Filter *)
  destruct (semq G p) as [vis ph]. cbn [fst] in IHp. subst vis.
  destruct (filter (passes G pred) (sem G p)); reflexivity.
Qed.

Theorem sem_e_sem : forall G p, sem_e G p = sem G p.
Proof. intros. unfold sem_e. apply semq_sem. Qed.

(** ** before df57ccb: the inner predicate of a stack was lost *)
Lemma semq_pre_no_stack : forall G p, no_stack p = true ->
  fst (semq_pre G p) = sem G p /\ (is_filter p = false -> snd (semq_pre G p) = sem G p).
Proof.
  intros G p; induction p; cbn [no_stack semq_pre sem is_filter fst snd]; intros NS;
    try (split; [reflexivity|reflexivity]);
    try (destruct (IHp NS) as [-> _]; split; reflexivity).
  - (* Filter *)
    apply andb_true_iff in NS as [NF NS]. apply negb_true_iff in NF.
    destruct (IHp NS) as [E1 E2]. specialize (E2 NF).
    destruct (semq_pre G p) as [vis ph]. cbn [fst snd] in *. subst.
    split; [|discriminate]. destruct (sem G p); reflexivity.
  - apply andb_true_iff in NS as [N1 N2]. destruct (IHp1 N1) as [-> _], (IHp2 N2) as [-> _]. split; reflexivity.
  - apply andb_true_iff in NS as [N1 N2]. destruct (IHp1 N1) as [-> _], (IHp2 N2) as [-> _]. split; reflexivity.
  - apply andb_true_iff in NS as [N1 N2]. destruct (IHp1 N1) as [-> _], (IHp2 N2) as [-> _]. split; reflexivity.
Qed.

Theorem sem_e_pre_no_stack : forall G p, no_stack p = true -> sem_e_pre G p = sem G p.
Proof. intros. unfold sem_e_pre. apply semq_pre_no_stack; assumption. Qed.

(** ** witnesses *)
Open Scope string_scope.
Definition gW : graph :=
  mkGraph
    [ mkNode 0 ["A"%string] [("v"%string, VInt 0)]; mkNode 1 ["A"%string] [("v"%string, VInt 1)];
      mkNode 2 ["A"%string] [("v"%string, VInt 2)];
      mkNode 3 ["B"%string] [("v"%string, VInt 0)]; mkNode 4 ["B"%string] [("v"%string, VInt 1)];
      mkNode 5 ["C"%string] [("v"%string, VInt 1)]; mkNode 6 ["C"%string] [("v"%string, VInt 2)] ]
    [ mkEdge 0 1 4 "R"%string [("ew"%string, VInt 2)]; mkEdge 1 1 5 "R"%string [] ].

(** MATCH (a:A), (b:B) MATCH (c:C) WHERE a.v = c.v RETURN a.v, b.v, c.v *)
Definition pW1 : plan :=
  PReturn [(EProp "a" "v", None); (EProp "b" "v", None); (EProp "c" "v", None)] false
    (PFilter (EBin OEq (EProp "a" "v") (EProp "c" "v"))
       (PJoin JCross [] (PScanIn "b" (Some "B"%string) (PScan "a" (Some "A"%string))) (PScan "c" (Some "C"%string)))).

(** a predicate on the optional side of a Join{Left} *)
Definition pW2 : plan :=
  PReturn [(EProp "x" "v", None); (EProp "y" "v", None)] false
    (PFilter (EUn UIsNull (EProp "y" "v"))
       (PJoin JLeft [(EVar "x", EVar "y")] (PScan "x" (Some "A"%string)) (PScan "y" (Some "A"%string)))).

(** a filter above a Return that renames *)
Definition pW3 : plan :=
  PFilter (EBin OGt (EVar "k") (ELit (VInt 0))) (PReturn [(EProp "x" "v", Some "k"%string)] false (PScan "x" (Some "A"%string))).

(** reorder: a filter above an Inner join with a usable condition; one of the outputs the pass may produce *)
Definition bW4 : plan :=
  PFilter (EBin OGt (EProp "x" "v") (ELit (VInt 0)))
    (PJoin JInner [(EVar "x", EVar "y")] (PScan "x" (Some "A"%string)) (PScan "y" (Some "A"%string))).
Definition aW4 : plan :=
  PJoin JInner [(EVar "x", EVar "y")] (PScan "x" (Some "A"%string)) (PScan "y" (Some "A"%string)).
(** ... and a swapped output whose condition the planner no longer uses *)
Definition bW5 : plan :=
  PJoin JInner [(EVar "x", EVar "y")] (PScan "x" (Some "A"%string)) (PScan "y" (Some "A"%string)).
Definition aW5 : plan :=
  PJoin JInner [(EVar "x", EVar "y")] (PScan "y" (Some "A"%string)) (PScan "x" (Some "A"%string)).

(** MATCH (c:C) MATCH (a:A)-[:R]->(b:B) WHERE a.v = 1: pushed onto the label filter of b *)
Definition pW6 : plan :=
  PFilter (EBin OEq (EProp "a" "v") (ELit (VInt 1)))
    (PJoin JCross [] (PScan "c" (Some "C"%string))
       (PFilter (EHasLabel "b" "B") (PExpand "a" "b" None DOut (Some "R"%string) hop1 (PScan "a" (Some "A"%string))))).

(** MATCH (a:A {v: 1}) WHERE a.v >= 0: a property map under a WHERE *)
Definition pW7 : plan :=
  PFilter (EBin OGe (EProp "a" "v") (ELit (VInt 0)))
    (PFilter (EBin OEq (EProp "a" "v") (ELit (VInt 1))) (PScan "a" (Some "A"%string))).

Lemma length_neq_not_perm : forall (l1 l2 : list row), List.length l1 <> List.length l2 -> ~ Permutation l1 l2.
Proof. intros l1 l2 H P. apply H, Permutation_length, P. Qed.

Theorem push_scope_refuted_l : exists G p,
  uniform p = true /\ no_conds p = true /\ k_push_pre p = true /\ ~ Permutation (sem G (pfd_pre p)) (sem G p).
Proof.
  exists gW, pW1. repeat split; try (vm_compute; reflexivity).
  apply length_neq_not_perm. vm_compute. discriminate.
Qed.

Theorem push_left_join_refuted_l : exists G p,
  uniform p = true /\ k_push_pre p = true /\ ~ Permutation (sem G (pfd_pre p)) (sem G p).
Proof.
  exists gW, pW2. repeat split; try (vm_compute; reflexivity).
  apply length_neq_not_perm. vm_compute. discriminate.
Qed.

Theorem push_return_alias_refuted_l : exists G p,
  uniform p = true /\ k_push_pre p = true /\ ~ Permutation (sem G (pfd_pre p)) (sem G p).
Proof.
  exists gW, pW3. repeat split; try (vm_compute; reflexivity).
  apply length_neq_not_perm. vm_compute. discriminate.
Qed.

Theorem reorder_drops_filter_refuted_l : exists G b a,
  uniform b = true /\ reorder_chk_pre b a = true /\ k_reorder b a = true /\
  List.length (sem G b) <> List.length (sem G a).
Proof.
  exists gW, bW4, aW4. repeat split; try (vm_compute; reflexivity). vm_compute. discriminate.
Qed.

Theorem reorder_swaps_condition_refuted_l : exists G b a,
  uniform b = true /\ reorder_chk_pre b a = true /\ k_reorder b a = true /\
  List.length (sem G b) <> List.length (sem G a).
Proof.
  exists gW, bW5, aW5. repeat split; try (vm_compute; reflexivity). vm_compute. discriminate.
Qed.

Theorem engine_stack_pre_refuted_l : exists G p,
  uniform p = true /\ k_push_pre p = false /\ no_stack p = true /\ no_stack (pfd_pre p) = false /\
  sem G (pfd_pre p) = sem G p /\ List.length (sem_e_pre G (pfd_pre p)) <> List.length (sem_e_pre G p).
Proof.
  exists gW, pW6. repeat split; try (vm_compute; reflexivity). vm_compute. discriminate.
Qed.

(** ... and a stack in the query itself lost its inner predicate under every switch combination *)
Theorem engine_stack_pre_refuted_plain_l : exists G p,
  List.length (sem_e_pre G p) <> List.length (sem G p).
Proof. exists gW, pW7. vm_compute. discriminate. Qed.

(** before df57ccb: wherever neither plan stacked filters *)
Theorem pfd_sound_engine_pre : forall G p,
  uniform p = true -> k_push p = false -> no_stack p = true -> no_stack (pfd p) = true ->
  sem_e_pre G (pfd p) = sem_e_pre G p.
Proof.
  intros G p U K N1 N2. rewrite !sem_e_pre_no_stack by assumption. apply pfd_sound; [assumption|].
  unfold k_push in K. now apply negb_false_iff in K.
Qed.

(** with the engine's filters as they are now: everywhere outside k_push *)
Theorem pfd_sound_engine : forall G p,
  uniform p = true -> k_push p = false -> sem_e G (pfd p) = sem_e G p.
Proof.
  intros G p U K. rewrite !sem_e_sem. apply pfd_sound; [assumption|].
  unfold k_push in K. now apply negb_false_iff in K.
Qed.

(** the proposed repair of C09-K1 (Opt.v [pfd]): sound outside what is left of the class, and
    the three witnesses of the class are outside it and keep their rows *)
Theorem pfd_sound_k : forall G p,
  uniform p = true -> k_push p = false -> sem G (pfd p) = sem G p.
Proof.
  intros G p U K. apply pfd_sound; [assumption|]. unfold k_push in K. now apply negb_false_iff in K.
Qed.

Theorem pfd_witnesses : forall p, In p [pW1; pW2; pW3] ->
  k_push_pre p = true /\ k_push p = false /\ sem gW (pfd p) = sem gW p.
Proof.
  intros p H. cbn [In] in H. destruct H as [<-|[<-|[<-|[]]]]; repeat split; vm_compute; reflexivity.
Qed.

Theorem pfd_witness_frontend : exists G p,
  uniform p = true /\ no_conds p = true /\ k_push_pre p = true /\ ~ Permutation (sem G (pfd_pre p)) (sem G p) /\
  k_push p = false /\ sem G (pfd p) = sem G p.
Proof.
  exists gW, pW1. repeat split; try (vm_compute; reflexivity).
  apply length_neq_not_perm. vm_compute. discriminate.
Qed.

(** the proposed repair of C09-K2 (Opt.v [reorder_chk]): the two answer-changing outputs are no
    longer possible results, the filter stays above the reordered tree, and a swapped tree carries the
    swapped condition, which the planner uses *)
Definition aW5_fix : plan :=
  PJoin JInner [(EVar "y", EVar "x")] (PScan "y" (Some "A"%string)) (PScan "x" (Some "A"%string)).

Theorem reorder_fix_witnesses :
  reorder_chk_pre bW4 aW4 = true /\ reorder_chk bW4 aW4 = false /\
  reorder_chk bW4 (PFilter (EBin OGt (EProp "x" "v") (ELit (VInt 0))) aW5_fix) = true /\
  k_reorder bW4 (PFilter (EBin OGt (EProp "x" "v") (ELit (VInt 0))) aW5_fix) = false /\
  reorder_chk_pre bW5 aW5 = true /\ reorder_chk bW5 aW5 = false /\
  reorder_chk bW5 aW5_fix = true /\ k_reorder bW5 aW5_fix = false.
Proof. vm_compute. repeat split. Qed.

(** equal normal forms as terms: equal lists of rows *)
Theorem join_normal_form_eq : forall G p q,
  jt_wf p = true -> jt_wf q = true -> jnf p = jnf q -> sem G p = sem G q.
Proof.
  intros G p q Wp Wq E. unfold jt_wf in Wp, Wq.
  repeat match goal with H : _ && _ = true |- _ => apply andb_true_iff in H as [? ?] end.
  rewrite (jt_canonical G p), (jt_canonical G q); auto using nodupb_NoDup.
  unfold jt_pred, jt_base, jl, jc, jf. rewrite E. reflexivity.
Qed.
