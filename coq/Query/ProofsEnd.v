(** C08 + C10 — the two halves composed: under every setting of the execution switches, and
    whatever indexes exist, the physical planner's result for the plain core query is the
    declarative answer. *)
From Coq Require Import ZArith List Bool String.
From GV Require Export Query.ProofsPattern Query.ProofsPhysC.
Import ListNotations.
Open Scope Z_scope.

Theorem engine_plain_answer_l : forall o st q,
  store_ok st -> single_hops (q_pat q) = true -> single_labels (q_pat q) = true -> pat_fresh (q_pat q) = true ->
  no_type_case st (q_pat q) = true -> directed (q_pat q) = true ->
  plain_core q = true -> q_order q = [] ->
  phys_ok st (cypher_plan_of q) ->
  exists t, run o st (cypher_plan_of q) = Ok t /\ Ok (out_rows t) = answer st q.
Proof.
  intros o st q Hok H1 H2 Hf H3 H4 Hp Ho Hphys.
  pose proof (plain_answer_directed_l st q Hok H1 H2 Hf H3 H4 Hp Ho) as Hpa.
  unfold plan_rows in Hpa. destruct (sem_ops st (cypher_plan_of q)) as [t|] eqn:Es.
  - exists t. split; [apply run_ok; assumption|exact Hpa].
  - exfalso. unfold plain_core in Hp. apply andb_true_iff in Hp. destruct Hp as [Hp _].
    destruct (q_ret q) as [items d|] eqn:Hr; [|discriminate Hp]. destruct d; [discriminate Hp|].
    rewrite (answer_plain st q items Hr Ho) in Hpa. discriminate Hpa.
Qed.
