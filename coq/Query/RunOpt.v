(** C09 — comparison of what the implementation did with the model (run by the check).

    One harness case carries: the graph, the translated+bound plan [b], the plan
    [Optimizer::optimize] returned under each of the 8 switch combinations, and the rows the engine
    produced.  [chk_opts] is the correspondence for the rewrites, [chk_sem] the one for [sem];
    [k_class] is the finding class evaluated on a case whose oracle failed. *)
From Coq Require Import ZArith List Bool String.
Import ListNotations.
From GV Require Export Query.Plan Query.Opt.
Open Scope Z_scope.

(** switch combination m: bit 0 = filter push-down, bit 1 = join reorder, bit 2 = projection push-down *)
Definition sw_fp (m : nat) : bool := Nat.odd m.
Definition sw_jr (m : nat) : bool := Nat.odd (Nat.div2 m).
Definition sw_pp (m : nat) : bool := Nat.odd (Nat.div2 (Nat.div2 m)).

(** is [a] a plan [optimize] may return for [b] under the switches?  (filter and projection
    push-down are functions, join reordering is the relation [reorder_chk]; since the projection
    pass comes last and is checked to return its argument, [a] is also the reorder result) *)
Definition chk_optimize (fp jr pp : bool) (b a : plan) : bool :=
  let p1 := if fp then pfd b else b in
  (if jr then reorder_chk p1 a else plan_eqb p1 a)
  && (if pp then plan_eqb (ppd a) a else true).

Definition chk_opts (b : plan) (afters : list (nat * plan)) : bool :=
  forallb (fun ma => chk_optimize (sw_fp (fst ma)) (sw_jr (fst ma)) (sw_pp (fst ma)) b (snd ma)) afters.

(** does the optimized plan differ from the input under some combination? (non-triviality) *)
Definition changed (b : plan) (afters : list (nat * plan)) : bool :=
  existsb (fun ma => negb (plan_eqb b (snd ma))) afters.

(** *** where join reordering is justified
    [rs_chk b a] follows [reorder_chk]: at a place where the pass fires, both trees must be
    well-formed join trees with the same normal form; above it only operators through which
    bag equality is proved to propagate may occur: Return, Project, Filter, Sort, Expand, Distinct
    (over duplicate-free column names), Aggregate — not Limit/Skip, whose result depends on the
    order of their input.  (The pass does not descend into the inputs of a Join that is not itself
    reordered, of a LeftJoin, a Union or a chained NodeScan: there [reorder_chk] demands the same plan.) *)
Fixpoint rs_chk (b a : plan) : bool :=
  if reorder_fires b then jt_wf b && jt_wf a && jnf_eqb b a
  else
    match b, a with
    | PReturn its d i, PReturn its' d' j => list_eqb item_eqb its its' && Bool.eqb d d' && rs_chk i j
    | PProject its i, PProject its' j => list_eqb item_eqb its its' && rs_chk i j
    | PFilter e i, PFilter e' j => expr_eqb e e' && rs_chk i j
    | PSort ks i, PSort ks' j => list_eqb skey_eqb ks ks' && rs_chk i j
    | PExpand f t ev d ty h i, PExpand f' t' ev' d' ty' h' j =>
        String.eqb f f' && String.eqb t t' && ostr_eqb ev ev' && dir_eqb d d' && ostr_eqb ty ty' && hops_eqb h h'
        && rs_chk i j
    | PDistinct i, PDistinct j =>
        nodupb (schema i) && nodupb (schema j) && uniform i && uniform j && rs_chk i j
    | PAgg gs ags i, PAgg gs' ags' j =>
        list_eqb expr_eqb gs gs' && list_eqb agg_eqb ags ags' && rs_chk i j
    | _, _ => plan_eqb b a
    end.

Definition k_reorder (b a : plan) : bool := negb (rs_chk b a).

(** the finding classes of one observed optimization *)
Definition k_optimize (fp jr pp : bool) (b a : plan) : bool :=
  (fp && k_push b) || (jr && k_reorder (if fp then pfd b else b) a).

Definition k_opts (b : plan) (afters : list (nat * plan)) : bool :=
  existsb (fun ma => k_optimize (sw_fp (fst ma)) (sw_jr (fst ma)) (sw_pp (fst ma)) b (snd ma)) afters.

(** which class: 1 = filter push-down moved a predicate out of the scope of one of its variables,
    2 = join reordering changed the join normal form (dropped a filter or a condition, turned an
    outer join into an inner one) or happened below an order-sensitive operator *)
Definition k_push_opts (b : plan) (afters : list (nat * plan)) : bool :=
  k_push b && existsb (fun ma => sw_fp (fst ma)) afters.
Definition k_reorder_opts (b : plan) (afters : list (nat * plan)) : bool :=
  existsb (fun ma => sw_jr (fst ma) && k_reorder (if sw_fp (fst ma) then pfd b else b) (snd ma)) afters.

(** *** classes that come from the executor, not from the rewrites
    4: [x.p] on an edge variable evaluated above an operator whose output vectors are untyped
       (joins, the nested loop of a chained NodeScan, Project, ...) is answered from the *node*
       with the same id (filter.rs: "try as node first" on a Generic column); below it (typed
       EdgeId column) it is answered from the edge.  Push-down moves the predicate across.
    (3, repaired by df57ccb: [FilterOperator] forgot the selection of its input (Plan.v,
       [semq_pre]); push-down creates and removes Filter-on-Filter stacks, so the *same* predicates
       gave different rows.  [k_stack_opts_pre] was its class; it no longer excuses anything.) *)
Definition k_stack_opts_pre (b : plan) (afters : list (nat * plan)) : bool :=
  existsb (fun ma => negb (conds_perm (stack_sig b) (stack_sig (snd ma)))) afters.

Fixpoint edge_vars (p : plan) : list var :=
  match p with
  | PExpand _ _ ev _ _ _ i => (match ev with Some e => [e] | None => [] end) ++ edge_vars i
  | PScanIn _ _ i | PFilter _ i | PProject _ i | PReturn _ _ i | PAgg _ _ i
  | PSort _ i | PSkip _ i | PLimit _ i | PDistinct i => edge_vars i
  | PJoin _ _ l r | PLeftJoin l r | PUnion l r => edge_vars l ++ edge_vars r
  | PEmpty | PScan _ _ => []
  end.

Fixpoint prop_vars (e : expr) : list var :=
  match e with
  | EProp x _ => [x]
  | EBin _ a b => prop_vars a ++ prop_vars b
  | EUn _ a => prop_vars a
  | EOpaque _ vs => vs       (* may read a property of any variable it mentions *)
  | _ => []
  end.

(** vectors keep their NodeId/EdgeId type only along Scan / Expand / Filter chains *)
Fixpoint typed_chain (p : plan) : bool :=
  match p with
  | PScan _ _ => true
  | PExpand _ _ _ _ _ _ i | PFilter _ i => typed_chain i
  | _ => false
  end.

Fixpoint edge_prop_untyped (evs : list var) (p : plan) : bool :=
  match p with
  | PFilter e i => (uses_any (prop_vars e) evs && negb (typed_chain i)) || edge_prop_untyped evs i
  | PScanIn _ _ i | PExpand _ _ _ _ _ _ i | PProject _ i | PReturn _ _ i | PAgg _ _ i
  | PSort _ i | PSkip _ i | PLimit _ i | PDistinct i => edge_prop_untyped evs i
  | PJoin _ _ l r | PLeftJoin l r | PUnion l r => edge_prop_untyped evs l || edge_prop_untyped evs r
  | PEmpty | PScan _ _ => false
  end.

Definition k_edge_opts (b : plan) (afters : list (nat * plan)) : bool :=
  let evs := edge_vars b in
  edge_prop_untyped evs b || existsb (fun ma => edge_prop_untyped evs (snd ma)) afters.

(** 5: [Planner::plan_expand_chain] runs two or more consecutive single-hop Expands through
       [LazyFactorizedChainOperator]; a hop that matches nothing adds no level
       (factorized_expand.rs [expand_deepest_level]: "Add the new level if there are any edges"), and
       flattening then yields the rows of the shallower levels — too few columns — instead of no
       rows.  Next to a join the columns of the other side are read at the wrong positions, so a
       predicate above the join sees NULL where the same predicate pushed below sees the value.
       Decided on the graph: some chain of the plan has a hop without rows over a non-empty input. *)
Definition is_expand (p : plan) : bool := match p with PExpand _ _ _ _ _ h _ => is_single h | _ => false end.
Definition isnil {A} (l : list A) : bool := match l with [] => true | _ => false end.

Fixpoint dry_chain (G : graph) (in_chain : bool) (p : plan) : bool :=
  match p with
  | PExpand _ _ _ _ _ h i =>
      (is_single h && (in_chain || is_expand i) && isnil (sem G p) && negb (isnil (sem G i)))
      || dry_chain G (is_single h) i
  | PScanIn _ _ i | PFilter _ i | PProject _ i | PReturn _ _ i | PAgg _ _ i
  | PSort _ i | PSkip _ i | PLimit _ i | PDistinct i => dry_chain G false i
  | PJoin _ _ l r | PLeftJoin l r | PUnion l r => dry_chain G false l || dry_chain G false r
  | PEmpty | PScan _ _ => false
  end.

Definition k_chain_opts (G : graph) (b : plan) (afters : list (nat * plan)) : bool :=
  dry_chain G false b || existsb (fun ma => dry_chain G false (snd ma)) afters.

(** the class of a failing case: 0 = none of the listed ones *)
Definition k_class (b : plan) (afters : list (nat * plan)) : nat :=
  if k_push_opts b afters then 1%nat
  else if k_reorder_opts b afters then 2%nat
  else if k_edge_opts b afters then 4%nat
  else 0%nat.

(** *** the decision per failing configuration
    The oracle names the switch combinations [bad] whose rows differ from the reference run (no
    rewrites).  A listed class excuses a combination only if it applies to *that* combination:
      1: filter push-down is on and the plan is in [k_push];
      2: join reordering is on and the step it performed — from the plan observed without it
         (combination m-2) to the plan observed with it — is in [k_reorder];
      4, 5: the input plan or the plan of that combination is in the executor classes.
    The case is listed iff every differing combination is excused; the number returned is the
    class of the first one. *)
Fixpoint after_of (m : nat) (afters : list (nat * plan)) : option plan :=
  match afters with
  | [] => None
  | (k, p) :: t => if Nat.eqb k m then Some p else after_of m t
  end.

Definition cfg_class (G : graph) (b : plan) (afters : list (nat * plan)) (m : nat) : nat :=
  let a := match after_of m afters with Some a => a | None => b end in
  if sw_fp m && k_push b then 1%nat
  else if sw_jr m && (match after_of (m - 2) afters with Some i => k_reorder i a | None => false end) then 2%nat
  else if edge_prop_untyped (edge_vars b) b || edge_prop_untyped (edge_vars b) a then 4%nat
  else if dry_chain G false b || dry_chain G false a then 5%nat
  else 0%nat.

Definition k_class_cfg (G : graph) (b : plan) (afters : list (nat * plan)) (bad : list nat) : nat :=
  match map (cfg_class G b afters) bad with
  | [] => 0%nat
  | c :: cs => if forallb (fun x => negb (Nat.eqb x 0)) (c :: cs) then c else 0%nat
  end.

Definition k_class_g (G : graph) (b : plan) (afters : list (nat * plan)) : nat :=
  match k_class b afters with
  | O => if k_chain_opts G b afters then 5%nat else 0%nat
  | n => n
  end.

(** *** engine rows against the model ([sem_e] = the semantics with the engine's selection vectors;
    equal to [sem] since df57ccb, proved in ProofsOptTop) *)
Definition vals (r : row) : list val := map (fun kv => as_value (snd kv)) r.

Fixpoint remove_vals (x : list val) (l : list (list val)) : option (list (list val)) :=
  match l with
  | [] => None
  | y :: l' => if list_eqb val_eqb x y then Some l' else option_map (cons y) (remove_vals x l')
  end.
Fixpoint bag_eqb (a b : list (list val)) : bool :=
  match a with
  | [] => match b with [] => true | _ => false end
  | x :: a' => match remove_vals x b with Some b' => bag_eqb a' b' | None => false end
  end.

(** [ordered]: the query has an ORDER BY on a total key, compare sequences *)
Definition chk_sem (G : graph) (p : plan) (ordered : bool) (rows : list (list val)) : bool :=
  let m := map vals (sem_e G p) in
  if ordered then list_eqb (list_eqb val_eqb) m rows else bag_eqb m rows.

Definition show_sem (G : graph) (p : plan) : list (list val) := map vals (sem_e G p).
Definition show_opt (fp : bool) (b : plan) : plan := if fp then pfd b else b.
