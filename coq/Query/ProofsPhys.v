(** C10 — proofs about the physical planner model (Phys.v): the optimisations switched off give
    [sem_ops]; [sem_ops] reads only the graph; the plan cache is transparent; zone-map pruning,
    the index path, the range path and factorized chains agree with the generic operators outside
    the finding classes of RunPat.v; the composite [run = sem_ops]. *)
From Coq Require Import ZArith List Bool String Ascii Lia Permutation.
From GV Require Export Query.PatSpec Query.RunPat.
Import ListNotations.
Open Scope Z_scope.


Lemma runc_off_fst : forall st p, fst (runc opts_off st p) = sem_ops st p.
Proof.
  intros st p; induction p; cbn [runc sem_ops].
  - reflexivity.
  - destruct (runc opts_off st p) as [rin cin] eqn:E. cbn [fst] in IHp. subst rin.
    destruct (is_single_hop minh maxh); cbn [fst opts_off o_fact andb]; reflexivity.
  - destruct (runc opts_off st p0) as [rin cin] eqn:E. cbn [fst] in IHp. subst rin.
    cbn [fst opts_off o_zone o_index o_range andb]. reflexivity.
  - rewrite IHp; reflexivity.
  - rewrite IHp; reflexivity.
  - rewrite IHp; reflexivity.
  - rewrite IHp; reflexivity.
  - rewrite IHp; reflexivity.
  - rewrite IHp; reflexivity.
  - destruct (runc opts_off st p) as [rin cin] eqn:E. cbn [fst] in IHp. subst rin.
    cbn [fst]. destruct cin; [destruct group_by|]; reflexivity.
Qed.

Lemma run_off_sem_ops : forall st p, run opts_off st p = sem_ops st p.
Proof. intros; apply runc_off_fst. Qed.


Section GraphOnly.
  Variables (n : list node) (e : list edge) (i i' : list string) (z z' : list (string * zcol)).
  Let s1 := mkStore n e i z.
  Let s2 := mkStore n e i' z'.
  Lemma go_neighbors : forall ci x d ty, neighbors s1 ci x d ty = neighbors s2 ci x d ty.
  Proof. reflexivity. Qed.
  Lemma go_bfs : forall ci d ty minh maxh fuel q,
    bfs s1 ci d ty minh maxh fuel q = bfs s2 ci d ty minh maxh fuel q.
  Proof.
    induction fuel as [|f IH]; intros q; cbn [bfs]; [reflexivity|].
    destruct q as [|[[x dep] ed] rest]; [reflexivity|].
    rewrite IH, go_neighbors. reflexivity.
  Qed.
  Lemma go_walk_count : forall ci d ty k x, walk_count s1 ci d ty k x = walk_count s2 ci d ty k x.
  Proof.
    induction k as [|k IH]; intros x; cbn [walk_count]; [reflexivity|].
    rewrite go_neighbors. f_equal.
    induction (neighbors s2 ci x d ty) as [|a l IHl]; cbn [fold_right]; [reflexivity|].
    rewrite IH, IHl. reflexivity.
  Qed.
  Lemma go_vle_from : forall ci d ty minh maxh x,
    vle_from s1 ci d ty minh maxh x = vle_from s2 ci d ty minh maxh x.
  Proof.
    intros. unfold vle_from, vle_fuel. rewrite go_bfs, go_neighbors. do 2 f_equal.
    induction (neighbors s2 ci x d ty) as [|a l IHl]; cbn [fold_right]; [reflexivity|].
    rewrite go_walk_count, IHl. reflexivity.
  Qed.
  Lemma go_vle_rows : forall ci cs from d ty minh maxh rs,
    vle_rows s1 ci cs from d ty minh maxh rs = vle_rows s2 ci cs from d ty minh maxh rs.
  Proof.
    intros. unfold vle_rows.
    induction rs as [|r rs IH]; cbn [rmapM]; [reflexivity|].
    rewrite IH. destruct (src_of cs from r) as [x|]; cbn [rbind]; [|reflexivity].
    rewrite go_vle_from. reflexivity.
  Qed.
  Lemma go_sem_ops : forall p, sem_ops s1 p = sem_ops s2 p.
  Proof.
    induction p; cbn [sem_ops]; rewrite ?IHp; try reflexivity.
    destruct (sem_ops s2 p) as [t|]; [|reflexivity]. cbn [rbind].
    destruct (of_opt (pos_first from (cols t))); [|reflexivity]. cbn [rbind].
    destruct (is_single_hop minh maxh); [reflexivity|].
    rewrite go_vle_rows. reflexivity.
  Qed.
End GraphOnly.

Lemma sem_ops_graph_only : forall st st' p,
  nodes st = nodes st' -> edges st = edges st' -> sem_ops st p = sem_ops st' p.
Proof.
  intros [n e i z] [n' e' i' z'] p Hn He. cbn [nodes edges] in Hn, He. subst n' e'.
  apply go_sem_ops.
Qed.


Section CacheProofs.
  Variable text : Type.
  Variable text_eqb : text -> text -> bool.
  Hypothesis text_eqb_eq : forall a b, text_eqb a b = true <-> a = b.
  Variable stats : Type.
  Variable compile : text -> stats -> option lop.
  Variable stats_of : store -> stats.
  Variable o : opts.
  Hypothesis stable : compile_stable text stats compile o.

  Lemma exec_sound : forall c st t,
    cache_sound text text_eqb stats compile c ->
    cache_sound text text_eqb stats compile (snd (exec text text_eqb stats compile stats_of o c st t)) /\
    fst (exec text text_eqb stats compile stats_of o c st t) =
      match compile t (stats_of st) with Some p => run o st p | None => Err end.
  Proof.
    intros c st t Hc. unfold exec.
    destruct (cache_get text text_eqb c t) as [p|] eqn:Eg.
    - cbn [fst snd]. split; [exact Hc|].
      destruct (Hc t p Eg) as [s Hs].
      pose proof (stable t s (stats_of st)) as Hst. rewrite Hs in Hst.
      destruct (compile t (stats_of st)) as [p2|]; [apply Hst|contradiction].
    - destruct (compile t (stats_of st)) as [p|] eqn:Ec; cbn [fst snd].
      + split; [|reflexivity].
        intros t' p' Hg. cbn [cache_get] in Hg.
        destruct (text_eqb t' t) eqn:Et.
        * apply text_eqb_eq in Et. subst t'. injection Hg as <-. exists (stats_of st). exact Ec.
        * apply Hc. exact Hg.
      + split; [exact Hc|reflexivity].
  Qed.

  Theorem cache_transparent_l : forall h c st,
    cache_sound text text_eqb stats compile c ->
    fst (fst (replay text text_eqb stats compile stats_of o c st h)) =
    replay_fresh text stats compile stats_of o st h.
  Proof.
    induction h as [|ev r IH]; intros c st Hc; [reflexivity|].
    destruct ev as [f|t]; cbn [replay replay_fresh].
    - apply IH. exact Hc.
    - destruct (exec_sound c st t Hc) as [Hs Ho].
      destruct (exec text text_eqb stats compile stats_of o c st t) as [out c'] eqn:Ee.
      cbn [fst snd] in Hs, Ho.
      specialize (IH c' st Hs).
      destruct (replay text text_eqb stats compile stats_of o c' st r) as [[outs c''] st'].
      cbn [fst] in IH |- *. rewrite IH, Ho. reflexivity.
  Qed.
End CacheProofs.

From Coq Require OrderedTypeEx.

(** * (4) Zone maps *)

(** ** order facts on normal-form values *)
Lemma val_ok_flt : forall n d, val_ok (VFlt n d) = true -> 0 < d.
Proof.
  intros n d H. cbn [val_ok] in H. apply andb_true_iff in H. destruct H as [H _].
  apply Z.ltb_lt in H. exact H.
Qed.

Definition frac (v : val) : option (Z * Z) :=
  match v with VInt x => Some (x, 1) | VFlt n d => Some (n, d) | _ => None end.

Lemma frac_pos : forall v n d, val_ok v = true -> frac v = Some (n, d) -> 0 < d.
Proof.
  intros v n d Hok Hf. destruct v; cbn [frac] in Hf; try discriminate; injection Hf as <- <-.
  - lia.
  - eapply val_ok_flt; eassumption.
Qed.

Lemma zcmp_num : forall a b n1 d1 n2 d2,
  frac a = Some (n1, d1) -> frac b = Some (n2, d2) -> zcmp a b = Some (n1 * d2 ?= n2 * d1).
Proof.
  intros a b n1 d1 n2 d2 Fa Fb.
  destruct a; cbn [frac] in Fa; try discriminate; injection Fa as <- <-;
  destruct b; cbn [frac] in Fb; try discriminate; injection Fb as <- <-;
  cbn [zcmp fcmp]; rewrite ?Z.mul_1_r; reflexivity.
Qed.

Lemma zcmp_cases : forall a b c, zcmp a b = Some c ->
  (exists n1 d1 n2 d2, frac a = Some (n1, d1) /\ frac b = Some (n2, d2) /\ c = (n1 * d2 ?= n2 * d1)) \/
  (exists s t, a = VStr s /\ b = VStr t /\ c = String.compare s t) \/
  (exists x y, a = VBool x /\ b = VBool y /\ c = bool_cmp x y).
Proof.
  intros a b c H.
  destruct a as [|x|x|n d|s|l], b as [|y|y|m e|t|l']; cbn [zcmp fcmp] in H; try discriminate;
    injection H as <-.
  - right; right. exists x, y. auto.
  - left. exists x, 1, y, 1. cbn [frac]. rewrite !Z.mul_1_r. auto.
  - left. exists x, 1, m, e. cbn [frac]. rewrite !Z.mul_1_r. auto.
  - left. exists n, d, y, 1. cbn [frac]. rewrite !Z.mul_1_r. auto.
  - left. exists n, d, m, e. cbn [frac]. auto.
  - right; left. exists s, t. auto.
Qed.

Lemma zcmp_frac_none : forall a b n d, frac a = None -> frac b = Some (n, d) -> zcmp a b = None.
Proof.
  intros a b n d Fa Fb.
  destruct a; cbn [frac] in Fa; try discriminate; destruct b; cbn [frac] in Fb; try discriminate; reflexivity.
Qed.

Lemma frac_cmp_trans_lt : forall n1 d1 n2 d2 n3 d3, 0 < d1 -> 0 < d2 -> 0 < d3 ->
  (n1 * d2 ?= n2 * d1) = Lt -> (n2 * d3 ?= n3 * d2) = Lt -> (n1 * d3 ?= n3 * d1) = Lt.
Proof.
  intros n1 d1 n2 d2 n3 d3 H1 H2 H3 A B. rewrite Z.compare_lt_iff in *. nia.
Qed.

Lemma frac_cmp_eq_r : forall n1 d1 n2 d2 n3 d3, 0 < d1 -> 0 < d2 -> 0 < d3 ->
  (n2 * d3 ?= n3 * d2) = Eq -> (n1 * d2 ?= n2 * d1) = (n1 * d3 ?= n3 * d1).
Proof.
  intros n1 d1 n2 d2 n3 d3 H1 H2 H3 A. apply Z.compare_eq_iff in A.
  rewrite (Zmult_compare_compat_r (n1 * d2) (n2 * d1) d3) by lia.
  rewrite (Zmult_compare_compat_r (n1 * d3) (n3 * d1) d2) by lia.
  f_equal; [ring|].
  replace (n2 * d1 * d3) with (n2 * d3 * d1) by ring. rewrite A. ring.
Qed.

Lemma str_cmp_trans_lt : forall s t u,
  String.compare s t = Lt -> String.compare t u = Lt -> String.compare s u = Lt.
Proof.
  intros s t u A B.
  change (OrderedTypeEx.String_as_OT.cmp s u = Lt).
  apply OrderedTypeEx.String_as_OT.cmp_lt.
  eapply OrderedTypeEx.String_as_OT.lt_trans; apply OrderedTypeEx.String_as_OT.cmp_lt; eassumption.
Qed.

Lemma zcmp_antisym : forall a b, zcmp a b = option_map CompOpp (zcmp b a).
Proof.
  intros a b.
  destruct a as [|x|x|n d|s|l], b as [|y|y|m e|t|l']; cbn [zcmp fcmp option_map]; try reflexivity;
    f_equal.
  - destruct x, y; reflexivity.
  - apply Z.compare_antisym.
  - apply Z.compare_antisym.
  - apply Z.compare_antisym.
  - apply Z.compare_antisym.
  - apply String.compare_antisym.
Qed.

Lemma zcmp_flip : forall a b c, zcmp a b = Some c -> zcmp b a = Some (CompOpp c).
Proof. intros a b c H. rewrite zcmp_antisym, H. reflexivity. Qed.

Lemma zcmp_irrefl : forall a, zcmp a a <> Some Lt.
Proof. intros a H. pose proof (zcmp_flip _ _ _ H) as H'. rewrite H in H'. discriminate. Qed.

Lemma zcmp_irrefl_gt : forall a, zcmp a a <> Some Gt.
Proof. intros a H. pose proof (zcmp_flip _ _ _ H) as H'. rewrite H in H'. discriminate. Qed.

Lemma zcmp_trans_lt : forall a b c, val_ok a = true -> val_ok b = true -> val_ok c = true ->
  zcmp a b = Some Lt -> zcmp b c = Some Lt -> zcmp a c = Some Lt.
Proof.
  intros a b c Ha Hb Hc H1 H2.
  destruct (zcmp_cases _ _ _ H1) as [(n1&d1&n2&d2&F1&F2&E1)|[(s&t&Ea&Eb&E1)|(x&y&Ea&Eb&E1)]];
  destruct (zcmp_cases _ _ _ H2) as [(n2'&d2'&n3&d3&F2'&F3&E2)|[(t'&u&Eb'&Ec&E2)|(y'&w&Eb'&Ec&E2)]];
  subst; cbn [frac] in *; try discriminate.
  - rewrite F2 in F2'. injection F2' as <- <-.
    rewrite (zcmp_num _ _ _ _ _ _ F1 F3). f_equal.
    eapply frac_cmp_trans_lt; [eapply frac_pos; [exact Ha|exact F1] | eapply frac_pos; [exact Hb|exact F2]
                              | eapply frac_pos; [exact Hc|exact F3] | symmetry; exact E1 | symmetry; exact E2].
  - injection Eb' as <-. cbn [zcmp fcmp]. f_equal. eapply str_cmp_trans_lt; symmetry; eassumption.
  - injection Eb' as <-. cbn [zcmp]. f_equal. destruct x, y, w; cbn in *; congruence.
Qed.

Lemma zcmp_trans_gt : forall a b c, val_ok a = true -> val_ok b = true -> val_ok c = true ->
  zcmp a b = Some Gt -> zcmp b c = Some Gt -> zcmp a c = Some Gt.
Proof.
  intros a b c Ha Hb Hc H1 H2.
  apply zcmp_flip in H1, H2. cbn [CompOpp] in H1, H2.
  pose proof (zcmp_trans_lt _ _ _ Hc Hb Ha H2 H1) as H3.
  apply zcmp_flip in H3. exact H3.
Qed.

Lemma zcmp_eq_r : forall a b c, val_ok a = true -> val_ok b = true -> val_ok c = true ->
  zcmp b c = Some Eq -> zcmp a b = zcmp a c.
Proof.
  intros a b c Ha Hb Hc H.
  destruct (zcmp_cases _ _ _ H) as [(n2&d2&n3&d3&F2&F3&E)|[(t&u&Eb&Ec&E)|(y&w&Eb&Ec&E)]].
  - destruct (frac a) as [[n1 d1]|] eqn:F1.
    + rewrite (zcmp_num _ _ _ _ _ _ F1 F2), (zcmp_num _ _ _ _ _ _ F1 F3). f_equal.
      apply frac_cmp_eq_r; [eapply frac_pos; [exact Ha|exact F1] | eapply frac_pos; [exact Hb|exact F2]
                           | eapply frac_pos; [exact Hc|exact F3] | symmetry; exact E].
    + rewrite (zcmp_frac_none _ _ _ _ F1 F2), (zcmp_frac_none _ _ _ _ F1 F3). reflexivity.
  - subst b c. symmetry in E. apply String.compare_eq_iff in E. subst u. reflexivity.
  - subst b c. destruct y, w; cbn in E; try discriminate; reflexivity.
Qed.

Lemma zcmp_eq_l : forall a b c, val_ok a = true -> val_ok b = true -> val_ok c = true ->
  zcmp a b = Some Eq -> zcmp a c = zcmp b c.
Proof.
  intros a b c Ha Hb Hc H.
  rewrite (zcmp_antisym a c), (zcmp_antisym b c). f_equal.
  apply zcmp_eq_r; assumption.
Qed.

Lemma zcmp_eq_feq : forall a b, zcmp a b = Some Eq -> feq a b = true.
Proof.
  intros a b H.
  destruct a as [|x|x|n d|s|l], b as [|y|y|m e|t|l']; cbn [zcmp fcmp] in H; try discriminate;
    injection H as H; cbn [feq].
  - destruct x, y; cbn in *; congruence.
  - apply Z.eqb_eq, Z.compare_eq_iff, H.
  - apply Z.eqb_eq, Z.compare_eq_iff, H.
  - apply Z.eqb_eq, Z.compare_eq_iff, H.
  - apply Z.eqb_eq, Z.compare_eq_iff, H.
  - apply String.compare_eq_iff in H. subst t. apply String.eqb_refl.
Qed.

Definition isnull (v : val) : bool := match v with VNull => true | _ => false end.

Lemma feq_zcmp_eq : forall a b, feq a b = true -> isnull a = false -> zcmp a b = Some Eq.
Proof.
  intros a b H Hn.
  destruct a as [|x|x|n d|s|l], b as [|y|y|m e|t|l']; cbn [feq isnull] in H, Hn; try discriminate;
    cbn [zcmp fcmp]; f_equal.
  - destruct x, y; cbn in *; congruence.
  - apply Z.compare_eq_iff, Z.eqb_eq, H.
  - apply Z.compare_eq_iff, Z.eqb_eq, H.
  - apply Z.compare_eq_iff, Z.eqb_eq, H.
  - apply Z.compare_eq_iff, Z.eqb_eq, H.
  - apply String.eqb_eq in H. subst t.
    destruct (String.compare s s) eqn:E; [reflexivity| |];
      pose proof (String.compare_antisym s s) as A; rewrite E in A; discriminate.
Qed.

Lemma feq_null_l : forall a b, feq a b = true -> isnull b = false -> isnull a = false.
Proof. intros a b H Hn. destruct a; try reflexivity. destruct b; cbn in *; congruence. Qed.

Lemma fcmp_zcmp : forall a b c, fcmp a b = Some c -> zcmp a b = Some c.
Proof. intros a b c H. destruct a, b; cbn [zcmp fcmp] in *; congruence. Qed.

Lemma zcmp_null_l : forall b, zcmp VNull b = None.
Proof. reflexivity. Qed.

Lemma zcmp_some_nonnull : forall a b c, zcmp a b = Some c -> isnull a = false.
Proof. intros a b c H. destruct a; try reflexivity. discriminate. Qed.

Lemma feq_sym : forall a b, feq a b = feq b a.
Proof.
  intros a b.
  destruct a as [|x|x|n d|s|l], b as [|y|y|m e|t|l']; cbn [feq]; try reflexivity.
  - destruct x, y; reflexivity.
  - apply Z.eqb_sym.
  - apply Z.eqb_sym.
  - apply Z.eqb_sym.
  - apply Z.eqb_sym.
  - apply String.eqb_sym.
Qed.

Lemma fcmp_antisym : forall a b, fcmp a b = option_map CompOpp (fcmp b a).
Proof.
  intros a b.
  destruct a as [|x|x|n d|s|l], b as [|y|y|m e|t|l']; cbn [fcmp option_map]; try reflexivity;
    f_equal; try apply Z.compare_antisym.
  apply String.compare_antisym.
Qed.

Lemma cmp_result_flip : forall op a b, cmp_result op a b = cmp_result (flip_op op) b a.
Proof.
  intros op a b. destruct op; cbn [cmp_result flip_op]; rewrite ?(feq_sym a b); try reflexivity;
    rewrite (fcmp_antisym a b); destruct (fcmp b a) as [[]|]; reflexivity.
Qed.

(** ** the invariant of [zone_of] *)
Record zinv (z : zentry) (h : list val) : Prop := mkZinv {
  zi_rows : zrows z = List.length h;
  zi_null : znull z = List.length (filter isnull h);
  zi_min_some : forall v, List.In v h -> isnull v = false -> zmin z <> None;
  zi_max_some : forall v, List.In v h -> isnull v = false -> zmax z <> None;
  zi_min : forall mn, zmin z = Some mn -> List.In mn h /\ forall v, List.In v h -> zcmp v mn <> Some Lt;
  zi_max : forall mx, zmax z = Some mx -> List.In mx h /\ forall v, List.In v h -> zcmp v mx <> Some Gt }.

Lemma zone_insert_nonnull : forall z v, isnull v = false ->
  zone_insert z v =
  mkZ (match zmin z with None => Some v | Some c => match zcmp v c with Some Lt => Some v | _ => Some c end end)
      (match zmax z with None => Some v | Some c => match zcmp v c with Some Gt => Some v | _ => Some c end end)
      (znull z) (S (zrows z)).
Proof. intros z v H. destruct v; try reflexivity. discriminate. Qed.

Lemma isnull_true : forall v, isnull v = true -> v = VNull.
Proof. intros v H. destruct v; try discriminate. reflexivity. Qed.

Lemma zinv_insert : forall z h v,
  Forall (fun v => val_ok v = true) (h ++ [v]) -> zinv z h -> zinv (zone_insert z v) (h ++ [v]).
Proof.
  intros z h v Hok [Hr Hn Hmns Hmxs Hmn Hmx].
  rewrite Forall_forall in Hok.
  assert (Hokh : forall u, List.In u h -> val_ok u = true) by (intros u Hu; apply Hok, in_or_app; auto).
  assert (Hokv : val_ok v = true) by (apply Hok, in_or_app; right; left; reflexivity).
  destruct (isnull v) eqn:Nv.
  - apply isnull_true in Nv. subst v. cbn [zone_insert].
    constructor; cbn [zrows znull zmin zmax].
    + rewrite app_length. cbn [List.length]. lia.
    + rewrite filter_app, app_length. cbn [filter isnull List.length]. lia.
    + intros u Hu Hnu. apply in_app_or in Hu. destruct Hu as [Hu|[<-|[]]]; [eauto|discriminate].
    + intros u Hu Hnu. apply in_app_or in Hu. destruct Hu as [Hu|[<-|[]]]; [eauto|discriminate].
    + intros mn Em. destruct (Hmn mn Em) as [Hi Hall]. split; [apply in_or_app; auto|].
      intros u Hu. apply in_app_or in Hu. destruct Hu as [Hu|[<-|[]]]; [auto|discriminate].
    + intros mx Em. destruct (Hmx mx Em) as [Hi Hall]. split; [apply in_or_app; auto|].
      intros u Hu. apply in_app_or in Hu. destruct Hu as [Hu|[<-|[]]]; [auto|discriminate].
  - rewrite (zone_insert_nonnull z v Nv).
    constructor; cbn [zrows znull zmin zmax].
    + rewrite app_length. cbn [List.length]. lia.
    + rewrite filter_app, app_length. cbn [filter]. rewrite Nv. cbn [List.length]. lia.
    + intros u Hu Hnu. destruct (zmin z) as [c|]; [destruct (zcmp v c) as [[]|]|]; discriminate.
    + intros u Hu Hnu. destruct (zmax z) as [c|]; [destruct (zcmp v c) as [[]|]|]; discriminate.
    + intros mn Em.
      destruct (zmin z) as [c|] eqn:Ez.
      * destruct (Hmn c eq_refl) as [Hi Hall].
        assert (Hcase : (zcmp v c = Some Lt /\ mn = v) \/ (zcmp v c <> Some Lt /\ mn = c)).
        { destruct (zcmp v c) as [[]|]; injection Em as <-; auto; right; split; auto; discriminate. }
        destruct Hcase as [[Hlt ->]|[Hnlt ->]].
        -- split; [apply in_or_app; right; left; reflexivity|].
           intros u Hu. apply in_app_or in Hu. destruct Hu as [Hu|[<-|[]]]; [|apply zcmp_irrefl].
           intros Hc. apply (Hall u Hu). eapply zcmp_trans_lt; eauto.
        -- split; [apply in_or_app; auto|].
           intros u Hu. apply in_app_or in Hu. destruct Hu as [Hu|[<-|[]]]; auto.
      * injection Em as <-. split; [apply in_or_app; right; left; reflexivity|].
        intros u Hu. apply in_app_or in Hu. destruct Hu as [Hu|[<-|[]]]; [|apply zcmp_irrefl].
        destruct (isnull u) eqn:Nu; [apply isnull_true in Nu; subst u; discriminate|].
        exfalso. exact (Hmns u Hu Nu eq_refl).
    + intros mx Em.
      destruct (zmax z) as [c|] eqn:Ez.
      * destruct (Hmx c eq_refl) as [Hi Hall].
        assert (Hcase : (zcmp v c = Some Gt /\ mx = v) \/ (zcmp v c <> Some Gt /\ mx = c)).
        { destruct (zcmp v c) as [[]|]; injection Em as <-; auto; right; split; auto; discriminate. }
        destruct Hcase as [[Hgt ->]|[Hngt ->]].
        -- split; [apply in_or_app; right; left; reflexivity|].
           intros u Hu. apply in_app_or in Hu. destruct Hu as [Hu|[<-|[]]]; [|apply zcmp_irrefl_gt].
           intros Hc. apply (Hall u Hu). eapply zcmp_trans_gt; eauto.
        -- split; [apply in_or_app; auto|].
           intros u Hu. apply in_app_or in Hu. destruct Hu as [Hu|[<-|[]]]; auto.
      * injection Em as <-. split; [apply in_or_app; right; left; reflexivity|].
        intros u Hu. apply in_app_or in Hu. destruct Hu as [Hu|[<-|[]]]; [|apply zcmp_irrefl_gt].
        destruct (isnull u) eqn:Nu; [apply isnull_true in Nu; subst u; discriminate|].
        exfalso. exact (Hmxs u Hu Nu eq_refl).
Qed.

Lemma zinv_fold : forall h2 h1 z, zinv z h1 -> Forall (fun v => val_ok v = true) (h1 ++ h2) ->
  zinv (fold_left zone_insert h2 z) (h1 ++ h2).
Proof.
  induction h2 as [|v h2 IH]; intros h1 z Hz Hok.
  - rewrite app_nil_r. exact Hz.
  - cbn [fold_left].
    replace (h1 ++ v :: h2) with ((h1 ++ [v]) ++ h2) in * by (rewrite <- app_assoc; reflexivity).
    apply IH; [|exact Hok].
    apply zinv_insert; [|exact Hz].
    rewrite Forall_forall in *. intros u Hu. apply Hok. apply in_or_app. auto.
Qed.

Lemma zinv_zone_of : forall h, Forall (fun v => val_ok v = true) h -> zinv (zone_of h) h.
Proof.
  intros h Hok. unfold zone_of. apply (zinv_fold h [] zempty); [|exact Hok].
  constructor; cbn; try reflexivity; try contradiction; discriminate.
Qed.

Lemma filter_length_le' : forall {A} (f : A -> bool) l, (List.length (filter f l) <= List.length l)%nat.
Proof.
  intros A f l. induction l as [|a l IH]; cbn [filter List.length]; [lia|].
  destruct (f a); cbn [List.length]; lia.
Qed.

Lemma filter_length_all : forall {A} (f : A -> bool) l,
  List.length (filter f l) = List.length l -> forall x, List.In x l -> f x = true.
Proof.
  intros A f l. induction l as [|a l IH]; intros H x Hx; [contradiction|].
  cbn [filter] in H. pose proof (filter_length_le' f l) as Hle.
  destruct (f a) eqn:Fa; cbn [List.length] in H.
  - destruct Hx as [<-|Hx]; [exact Fa|]. apply IH; [lia|exact Hx].
  - lia.
Qed.

(** ** pruning on one column *)
Lemma col_prune_sound : forall c op v v',
  Forall (fun v => val_ok v = true) (zhist c) -> val_ok v = true -> List.In v' (zhist c) ->
  col_might_match c op v = false ->
  (op = ONe -> forall u, List.In u (zhist c) -> zcmp u v <> None) ->
  cmp_result op v' v <> Some (VBool true).
Proof.
  intros c op v v' Hok Hv Hin Hm Hne.
  unfold col_might_match in Hm. destruct (zdirty c); [discriminate|].
  pose proof (zinv_zone_of _ Hok) as [Hr Hn Hmns Hmxs Hmn Hmx].
  rewrite Forall_forall in Hok. pose proof (Hok v' Hin) as Hv'.
  set (z := zone_of (zhist c)) in *.
  destruct op; cbn [cmp_result]; intros E.
  - (* = *)
    injection E as E. unfold z_eq in Hm.
    destruct (isnull v) eqn:Nv.
    + apply isnull_true in Nv. subst v.
      assert (v' = VNull) by (destruct v'; cbn in E; try discriminate; reflexivity). subst v'.
      apply Nat.ltb_ge in Hm.
      assert (Hf : List.In VNull (filter isnull (zhist c))) by (apply filter_In; auto).
      destruct (filter isnull (zhist c)); [contradiction|]. cbn [List.length] in Hn. lia.
    + pose proof (feq_null_l _ _ E Nv) as Nv'.
      assert (Hm' : (if z_all_null z then false else
                     match zmin z, zmax z with
                     | Some mn, Some mx => match zcmp v mn, zcmp v mx with
                                           | Some Lt, _ => false | _, Some Gt => false | _, _ => true end
                     | _, _ => z_non_null z end) = false).
      { destruct v; try exact Hm. discriminate. }
      clear Hm.
      destruct (z_all_null z) eqn:Ean.
      * unfold z_all_null in Ean. apply andb_true_iff in Ean. destruct Ean as [_ Ean].
        apply Nat.eqb_eq in Ean.
        assert (isnull v' = true) by (apply (filter_length_all isnull (zhist c)); [lia|exact Hin]).
        congruence.
      * pose proof (Hmns v' Hin Nv') as Hs1. pose proof (Hmxs v' Hin Nv') as Hs2.
        destruct (zmin z) as [mn|] eqn:Emn; [|congruence].
        destruct (zmax z) as [mx|] eqn:Emx; [|congruence].
        destruct (Hmn mn eq_refl) as [Hi1 Ha1]. destruct (Hmx mx eq_refl) as [Hi2 Ha2].
        pose proof (feq_zcmp_eq _ _ E Nv') as Heq.
        pose proof (Ha1 v' Hin) as N1. pose proof (Ha2 v' Hin) as N2.
        rewrite (zcmp_eq_l v' v mn Hv' Hv (Hok mn Hi1) Heq) in N1.
        rewrite (zcmp_eq_l v' v mx Hv' Hv (Hok mx Hi2) Heq) in N2.
        destruct (zcmp v mn) as [[]|]; destruct (zcmp v mx) as [[]|]; congruence.
  - (* <> *)
    injection E as E. apply negb_true_iff in E.
    specialize (Hne eq_refl).
    destruct (zmin z) as [mn|] eqn:Emn; [|discriminate].
    destruct (zmax z) as [mx|] eqn:Emx; [|discriminate].
    apply negb_false_iff in Hm.
    destruct (Hmn mn eq_refl) as [Hi1 Ha1]. destruct (Hmx mx eq_refl) as [Hi2 Ha2].
    destruct (zcmp mn v) as [[]|] eqn:C1; try discriminate.
    destruct (zcmp mx v) as [[]|] eqn:C2; try discriminate.
    pose proof (Ha1 v' Hin) as N1. pose proof (Ha2 v' Hin) as N2.
    rewrite (zcmp_eq_r v' mn v Hv' (Hok mn Hi1) Hv C1) in N1.
    rewrite (zcmp_eq_r v' mx v Hv' (Hok mx Hi2) Hv C2) in N2.
    pose proof (Hne v' Hin) as N3.
    destruct (zcmp v' v) as [[]|] eqn:C3; try congruence.
    apply zcmp_eq_feq in C3. congruence.
  - (* < *)
    assert (C : fcmp v' v = Some Lt) by (destruct (fcmp v' v) as [[]|]; cbn in E; congruence).
    apply fcmp_zcmp in C. pose proof (zcmp_some_nonnull _ _ _ C) as Nv'.
    pose proof (Hmns v' Hin Nv') as Hs1. unfold z_lt in Hm.
    destruct (zmin z) as [mn|] eqn:Emn; [|congruence].
    destruct (Hmn mn eq_refl) as [Hi1 Ha1]. apply (Ha1 v' Hin).
    destruct (zcmp mn v) as [[]|] eqn:C1; try discriminate.
    + rewrite (zcmp_eq_r v' mn v Hv' (Hok mn Hi1) Hv C1). exact C.
    + apply zcmp_flip in C1. cbn [CompOpp] in C1.
      exact (zcmp_trans_lt _ _ _ Hv' Hv (Hok mn Hi1) C C1).
  - (* <= *)
    assert (C : fcmp v' v = Some Lt \/ fcmp v' v = Some Eq) by (destruct (fcmp v' v) as [[]|]; cbn in E; auto; congruence).
    assert (C' : zcmp v' v = Some Lt \/ zcmp v' v = Some Eq) by (destruct C as [C|C]; apply fcmp_zcmp in C; auto).
    clear C.
    assert (Nv' : isnull v' = false) by (destruct C' as [C|C]; exact (zcmp_some_nonnull _ _ _ C)).
    pose proof (Hmns v' Hin Nv') as Hs1. unfold z_lt in Hm.
    destruct (zmin z) as [mn|] eqn:Emn; [|congruence].
    destruct (Hmn mn eq_refl) as [Hi1 Ha1]. apply (Ha1 v' Hin).
    destruct (zcmp mn v) as [[]|] eqn:C1; try discriminate.
    apply zcmp_flip in C1. cbn [CompOpp] in C1.
    destruct C' as [C|C].
    + exact (zcmp_trans_lt _ _ _ Hv' Hv (Hok mn Hi1) C C1).
    + rewrite (zcmp_eq_l v' v mn Hv' Hv (Hok mn Hi1) C). exact C1.
  - (* > *)
    assert (C : fcmp v' v = Some Gt) by (destruct (fcmp v' v) as [[]|]; cbn in E; congruence).
    apply fcmp_zcmp in C. pose proof (zcmp_some_nonnull _ _ _ C) as Nv'.
    pose proof (Hmxs v' Hin Nv') as Hs1. unfold z_gt in Hm.
    destruct (zmax z) as [mx|] eqn:Emx; [|congruence].
    destruct (Hmx mx eq_refl) as [Hi1 Ha1]. apply (Ha1 v' Hin).
    destruct (zcmp mx v) as [[]|] eqn:C1; try discriminate.
    + rewrite (zcmp_eq_r v' mx v Hv' (Hok mx Hi1) Hv C1). exact C.
    + apply zcmp_flip in C1. cbn [CompOpp] in C1.
      exact (zcmp_trans_gt _ _ _ Hv' Hv (Hok mx Hi1) C C1).
  - (* >= *)
    assert (C : fcmp v' v = Some Gt \/ fcmp v' v = Some Eq) by (destruct (fcmp v' v) as [[]|]; cbn in E; auto; congruence).
    assert (C' : zcmp v' v = Some Gt \/ zcmp v' v = Some Eq) by (destruct C as [C|C]; apply fcmp_zcmp in C; auto).
    clear C.
    assert (Nv' : isnull v' = false) by (destruct C' as [C|C]; exact (zcmp_some_nonnull _ _ _ C)).
    pose proof (Hmxs v' Hin Nv') as Hs1. unfold z_gt in Hm.
    destruct (zmax z) as [mx|] eqn:Emx; [|congruence].
    destruct (Hmx mx eq_refl) as [Hi1 Ha1]. apply (Ha1 v' Hin).
    destruct (zcmp mx v) as [[]|] eqn:C1; try discriminate.
    apply zcmp_flip in C1. cbn [CompOpp] in C1.
    destruct C' as [C|C].
    + exact (zcmp_trans_gt _ _ _ Hv' Hv (Hok mx Hi1) C C1).
    + rewrite (zcmp_eq_l v' v mx Hv' Hv (Hok mx Hi1) C). exact C1.
Qed.

(** ** the theorem *)
Definition reads_node (st : store) (c : cell) : Prop :=
  forall k v, fprop st c k = Some v -> exists n, List.In n (nodes st) /\ lookup k (nprops n) = Some v.

Lemma zone_ne_odd_app : forall st a b,
  existsb (fun kv => match lookup (fst kv) (zcols st) with
                     | Some c => existsb (fun v' => match zcmp v' (snd kv) with None => true | Some _ => false end) (zhist c)
                     | None => false end) (ne_leaves a ++ ne_leaves b) = false ->
  zone_ne_odd st a = false /\ zone_ne_odd st b = false.
Proof. intros st a b H. rewrite existsb_app in H. apply orb_false_iff in H. exact H. Qed.

Lemma leaf_prune : forall st op k v v' x c,
  zone_ok st -> val_ok v = true ->
  node_might_match st k op v = false ->
  (op = ONe -> zone_ne_odd st (ECmp ONe (EProp x k) (ELit v)) = false) ->
  reads_node st c -> fprop st c k = Some v' ->
  cmp_result op v' v <> Some (VBool true).
Proof.
  intros st op k v v' x c Hz Hv Hm Hodd Hrd Hf.
  unfold node_might_match in Hm.
  destruct (lookup k (zcols st)) as [zc|] eqn:El; [|discriminate].
  destruct (Hz k zc El) as [Hok Hcov].
  destruct (Hrd k v' Hf) as (n & Hn & Hl).
  apply (col_prune_sound zc op v v' Hok Hv (Hcov n v' Hn Hl) Hm).
  intros -> u Hu Hnone. specialize (Hodd eq_refl).
  unfold zone_ne_odd in Hodd. cbn [ne_leaves existsb fst snd] in Hodd. rewrite El in Hodd.
  rewrite orb_false_r in Hodd.
  assert (Ht : existsb (fun v'0 => match zcmp v'0 v with None => true | Some _ => false end) (zhist zc) = true).
  { apply existsb_exists. exists u. split; [exact Hu|]. rewrite Hnone. reflexivity. }
  congruence.
Qed.

Lemma zone_prune_eval : forall st cs r e,
  zone_ok st ->
  (forall x c, List.In x (expr_props e) -> row_look cs r x = Some c -> reads_node st c) ->
  lits_ok e = true -> zone_check st e = Some false -> zone_ne_odd st e = false ->
  eval (row_look cs r) cell_val (fprop st) (cell_labels st) e <> Some (VBool true).
Proof.
  intros st cs r e Hz. induction e as [v|y|y k|op a IHa b IHb|a IHa b IHb|a IHa b IHb|a IHa|a IHa|a IHa|y l|l y];
    intros Hrd Hl Hc Ho; cbn [zone_check] in Hc; try discriminate.
  - (* ECmp *)
    destruct a as [va|ya|xa ka|? ? ?|? ?|? ?|?|?|?|? ?|? ?]; try discriminate;
    destruct b as [vb|yb|xb kb|? ? ?|? ?|? ?|?|?|?|? ?|? ?]; try discriminate.
    + (* lit op prop *)
      injection Hc as Hc. cbn [lits_ok] in Hl. apply andb_true_iff in Hl. destruct Hl as [Hl _].
      cbn [eval obind].
      destruct (row_look cs r xb) as [c|] eqn:Ec; cbn [obind]; [|discriminate].
      destruct (fprop st c kb) as [v'|] eqn:Ef; cbn [obind]; [|discriminate].
      rewrite cmp_result_flip.
      apply (leaf_prune st (flip_op op) kb va v' xb c Hz Hl Hc); [| |exact Ef].
      * intros Hop. assert (op = ONe) by (destruct op; cbn in Hop; congruence). subst op. exact Ho.
      * apply (Hrd xb c); [cbn; auto|exact Ec].
    + (* prop op lit *)
      injection Hc as Hc. cbn [lits_ok] in Hl. apply andb_true_iff in Hl. destruct Hl as [_ Hl].
      cbn [eval obind].
      destruct (row_look cs r xa) as [c|] eqn:Ec; cbn [obind]; [|discriminate].
      destruct (fprop st c ka) as [v'|] eqn:Ef; cbn [obind]; [|discriminate].
      apply (leaf_prune st op ka vb v' xa c Hz Hl Hc); [| |exact Ef].
      * intros ->. exact Ho.
      * apply (Hrd xa c); [cbn; auto|exact Ec].
  - (* EAnd *)
    cbn [lits_ok] in Hl. apply andb_true_iff in Hl. destruct Hl as [Hla Hlb].
    destruct (zone_ne_odd_app st a b Ho) as [Hoa Hob].
    cbn [expr_props] in Hrd.
    assert (Hra : forall x c, List.In x (expr_props a) -> row_look cs r x = Some c -> reads_node st c)
      by (intros x c Hx; apply Hrd, in_or_app; auto).
    assert (Hrb : forall x c, List.In x (expr_props b) -> row_look cs r x = Some c -> reads_node st c)
      by (intros x c Hx; apply Hrd, in_or_app; auto).
    specialize (IHa Hra Hla). specialize (IHb Hrb Hlb).
    cbn [eval]. intros Hev.
    destruct (eval (row_look cs r) cell_val (fprop st) (cell_labels st) a) as [va|]; cbn [obind] in Hev; [|discriminate].
    destruct (eval (row_look cs r) cell_val (fprop st) (cell_labels st) b) as [vb|]; cbn [obind] in Hev; [|discriminate].
    destruct va as [|xa| | | |]; cbn [as_bool obind] in Hev; try discriminate.
    destruct vb as [|xb| | | |]; cbn [as_bool obind] in Hev; try discriminate.
    injection Hev as Hev. apply andb_true_iff in Hev. destruct Hev as [-> ->].
    destruct (zone_check st a) as [[]|]; destruct (zone_check st b) as [[]|]; try discriminate;
      try (apply IHa; auto; fail); try (apply IHb; auto; fail).
  - (* EOr *)
    cbn [lits_ok] in Hl. apply andb_true_iff in Hl. destruct Hl as [Hla Hlb].
    destruct (zone_ne_odd_app st a b Ho) as [Hoa Hob].
    cbn [expr_props] in Hrd.
    assert (Hra : forall x c, List.In x (expr_props a) -> row_look cs r x = Some c -> reads_node st c)
      by (intros x c Hx; apply Hrd, in_or_app; auto).
    assert (Hrb : forall x c, List.In x (expr_props b) -> row_look cs r x = Some c -> reads_node st c)
      by (intros x c Hx; apply Hrd, in_or_app; auto).
    specialize (IHa Hra Hla). specialize (IHb Hrb Hlb).
    cbn [eval]. intros Hev.
    destruct (eval (row_look cs r) cell_val (fprop st) (cell_labels st) a) as [va|]; cbn [obind] in Hev; [|discriminate].
    destruct (eval (row_look cs r) cell_val (fprop st) (cell_labels st) b) as [vb|]; cbn [obind] in Hev; [|discriminate].
    destruct va as [|xa| | | |]; cbn [as_bool obind] in Hev; try discriminate.
    destruct vb as [|xb| | | |]; cbn [as_bool obind] in Hev; try discriminate.
    injection Hev as Hev.
    destruct (zone_check st a) as [[]|]; destruct (zone_check st b) as [[]|]; try discriminate.
    apply orb_true_iff in Hev. destruct Hev as [->| ->]; [apply IHa|apply IHb]; auto.
Qed.

Lemma zone_prune_sound : forall st e cs r,
  zone_ok st -> lits_ok e = true -> zone_check st e = Some false -> zone_ne_odd st e = false ->
  (forall x c, List.In x (expr_props e) -> row_look cs r x = Some c -> reads_node st c) ->
  passes_row st cs r e = false.
Proof.
  intros st e cs r Hz Hl Hc Ho Hrd.
  pose proof (zone_prune_eval st cs r e Hz Hrd Hl Hc Ho) as H.
  unfold passes_row, passes.
  destruct (eval (row_look cs r) cell_val (fprop st) (cell_labels st) e) as [[|[|]| | | |]|]; try reflexivity.
  exfalso. apply H. reflexivity.
Qed.


(** * (5) The index path *)

Lemma find_nid : forall (l : list node) n, NoDup (map nid l) -> List.In n l ->
  find (fun m => nid m =? nid n) l = Some n.
Proof.
  induction l as [|a l IH]; intros n Hnd Hin; [contradiction|].
  cbn [map] in Hnd. inversion Hnd as [|? ? Hna Hnd']; subst.
  cbn [find]. destruct (nid a =? nid n) eqn:E.
  - apply Z.eqb_eq in E. destruct Hin as [->|Hin]; [reflexivity|].
    exfalso. apply Hna. rewrite E. apply in_map. exact Hin.
  - destruct Hin as [->|Hin]; [rewrite Z.eqb_refl in E; discriminate|]. apply IH; assumption.
Qed.

Lemma get_node_nid : forall st n, store_ok st -> List.In n (nodes st) -> get_node st (nid n) = Some n.
Proof. intros st n [Hnd _] Hin. unfold get_node. apply find_nid; assumption. Qed.

Lemma lookup_In : forall {A} k (l : list (string * A)) v, lookup k l = Some v -> List.In (k, v) l.
Proof.
  intros A k l v. induction l as [|[k' v'] l IH]; cbn [lookup]; [discriminate|].
  destruct (String.eqb k k') eqn:E.
  - intros H. injection H as ->. apply String.eqb_eq in E. subst k'. left. reflexivity.
  - intros H. right. apply IH. exact H.
Qed.

Definition m1 (kv : string * val) (n : node) : bool :=
  match lookup (fst kv) (nprops n) with Some v' => val_eqb v' (snd kv) | None => false end.
Definition sat (conds : list (string * val)) (n : node) : bool := forallb (fun c => m1 c n) conds.
Definition lblb (label : option string) (n : node) : bool :=
  match label with None => true | Some l => has_label n l end.

Lemma filter_map_nid : forall (g : Z -> bool) (g' P : node -> bool) (l : list node),
  (forall n, List.In n l -> g (nid n) = g' n) ->
  filter g (map nid (filter P l)) = map nid (filter (fun n => P n && g' n) l).
Proof.
  intros g g' P l. induction l as [|a l IH]; intros H; [reflexivity|].
  cbn [filter]. assert (Ha : g (nid a) = g' a) by (apply H; left; reflexivity).
  assert (IH' := IH (fun n Hn => H n (or_intror Hn))).
  destruct (P a); cbn [andb map filter].
  - rewrite Ha. destruct (g' a); cbn [map]; rewrite IH'; reflexivity.
  - exact IH'.
Qed.

Lemma filter_map_rows : forall (pr : row -> bool) (f : node -> row) (s L : node -> bool) (l : list node),
  (forall n, List.In n l -> pr (f n) = s n) ->
  filter pr (map f (filter L l)) = map f (filter (fun n => L n && s n) l).
Proof.
  intros pr f s L l. induction l as [|a l IH]; intros H; [reflexivity|].
  cbn [filter]. assert (Ha : pr (f a) = s a) by (apply H; left; reflexivity).
  assert (IH' := IH (fun n Hn => H n (or_intror Hn))).
  destruct (L a); cbn [andb map filter].
  - rewrite Ha. destruct (s a); cbn [map]; rewrite IH'; reflexivity.
  - exact IH'.
Qed.

Lemma filter_nil : forall {A} (f : A -> bool) l, (forall x, List.In x l -> f x = false) -> filter f l = [].
Proof.
  intros A f l. induction l as [|a l IH]; intros H; [reflexivity|].
  cbn [filter]. rewrite (H a (or_introl eq_refl)). apply IH. intros x Hx. apply H. right. exact Hx.
Qed.

Lemma number_from_nth : forall {A} (l : list A) s i a,
  List.In (i, a) (number_from s l) -> (s <= i)%nat /\ nth_error l (i - s) = Some a.
Proof.
  intros A l. induction l as [|a0 l IH]; intros s i a H; [contradiction|].
  cbn [number_from] in H. destruct H as [H|H].
  - injection H as <- <-. rewrite Nat.sub_diag. split; [lia|reflexivity].
  - destruct (IH _ _ _ H) as [Hle Hn]. split; [lia|].
    replace (i - s)%nat with (S (i - S s)) by lia. exact Hn.
Qed.

Lemma number_from_fun : forall {A} (l : list A) s i a b,
  List.In (i, a) (number_from s l) -> List.In (i, b) (number_from s l) -> a = b.
Proof.
  intros A l s i a b Ha Hb.
  apply number_from_nth in Ha, Hb. destruct Ha as [_ Ha]. destruct Hb as [_ Hb]. congruence.
Qed.

Lemma number_from_snd : forall {A} (l : list A) s i a, List.In (i, a) (number_from s l) -> List.In a l.
Proof. intros A l s i a H. apply number_from_nth in H. destruct H as [_ H]. eapply nth_error_In; eassumption. Qed.

Lemma number_from_In : forall {A} (l : list A) s a, List.In a l -> exists i, List.In (i, a) (number_from s l).
Proof.
  intros A l. induction l as [|a0 l IH]; intros s a H; [contradiction|].
  destruct H as [->|H].
  - exists s. left. reflexivity.
  - destruct (IH (S s) a H) as [i Hi]. exists i. right. exact Hi.
Qed.

Lemma pick_best_In : forall cands s, pick_best cands = Some s -> List.In s cands.
Proof.
  unfold pick_best.
  assert (G : forall (l : list (nat * list Z)) best s,
    fold_left (fun best c => match best with
                             | None => Some c
                             | Some b => if Nat.ltb (List.length (snd c)) (List.length (snd b)) then Some c else Some b
                             end) l best = Some s -> List.In s l \/ best = Some s).
  { induction l as [|c l IH]; intros best s H; cbn [fold_left] in H; [right; exact H|].
    destruct (IH _ _ H) as [Hi|Hb]; [left; right; exact Hi|].
    destruct best as [b|].
    - destruct (Nat.ltb (List.length (snd c)) (List.length (snd b))).
      + injection Hb as <-. left; left; reflexivity.
      + right. exact Hb.
    - injection Hb as <-. left; left; reflexivity. }
  intros cands s H. destruct (G _ _ _ H) as [Hi|Hb]; [exact Hi|discriminate].
Qed.

Lemma node_prop_nid : forall st n k, store_ok st -> List.In n (nodes st) ->
  node_prop st (nid n) k = lookup k (nprops n).
Proof. intros st n k Hs Hn. unfold node_prop. rewrite (get_node_nid st n Hs Hn). reflexivity. Qed.

Lemma fold_filter_spec : forall st i0, store_ok st -> forall (numbered : list (nat * (string * val))) Q,
  fold_left (fun cand ic =>
               if Nat.eqb (fst ic) i0 then cand
               else filter (fun i => match node_prop st i (fst (snd ic)) with
                                     | Some v' => val_eqb v' (snd (snd ic)) | None => false end) cand)
            numbered (map nid (filter Q (nodes st)))
  = map nid (filter (fun n => Q n && forallb (fun ic => Nat.eqb (fst ic) i0 || m1 (snd ic) n) numbered) (nodes st)).
Proof.
  intros st i0 Hs. induction numbered as [|ic r IH]; intros Q.
  - cbn [fold_left forallb]. f_equal. apply filter_ext. intros n. rewrite andb_true_r. reflexivity.
  - cbn [fold_left forallb]. destruct (Nat.eqb (fst ic) i0) eqn:E.
    + rewrite IH. reflexivity.
    + rewrite (filter_map_nid _ (m1 (snd ic)) Q (nodes st)).
      * rewrite IH. f_equal. apply filter_ext. intros n. cbn [orb]. rewrite andb_assoc. reflexivity.
      * intros n Hn. rewrite (node_prop_nid st n _ Hs Hn). reflexivity.
Qed.

Lemma fbp_tail : forall st conds i0 kv0, store_ok st -> List.In (i0, kv0) (number_from O conds) ->
  fold_left (fun cand ic =>
               if Nat.eqb (fst ic) i0 then cand
               else filter (fun i => match node_prop st i (fst (snd ic)) with
                                     | Some v' => val_eqb v' (snd (snd ic)) | None => false end) cand)
            (number_from O conds) (map nid (filter (m1 kv0) (nodes st)))
  = map nid (filter (sat conds) (nodes st)).
Proof.
  intros st conds i0 kv0 Hs Hin. rewrite (fold_filter_spec st i0 Hs). f_equal. apply filter_ext. intros n.
  apply eq_true_iff_eq. split.
  - intros H. apply andb_true_iff in H. destruct H as [H1 H2]. rewrite forallb_forall in H2.
    unfold sat. apply forallb_forall. intros c Hc.
    destruct (number_from_In conds O c Hc) as [i Hi].
    specialize (H2 (i, c) Hi). cbn [fst snd] in H2. apply orb_true_iff in H2. destruct H2 as [H2|H2]; [|exact H2].
    apply Nat.eqb_eq in H2. subst i. rewrite (number_from_fun _ _ _ _ _ Hi Hin). exact H1.
  - intros H. unfold sat in H. rewrite forallb_forall in H. apply andb_true_iff. split.
    + apply H. eapply number_from_snd. exact Hin.
    + apply forallb_forall. intros [i c] Hic. cbn [fst snd]. apply orb_true_iff. right.
      apply H. eapply number_from_snd. exact Hic.
Qed.

Lemma find_by_props_spec : forall st conds, store_ok st -> conds <> [] ->
  find_by_props st (idx_of st) conds = map nid (filter (sat conds) (nodes st)).
Proof.
  intros st conds Hs Hne. destruct conds as [|c0 rest]; [congruence|]. clear Hne.
  unfold find_by_props.
  set (conds := c0 :: rest).
  set (numbered := number_from O conds).
  set (hits := flat_map _ numbered).
  destruct (existsb _ hits) eqn:Eex.
  - symmetry. apply existsb_exists in Eex. destruct Eex as (h & Hh & Hem).
    unfold hits in Hh. apply in_flat_map in Hh. destruct Hh as (ic & Hic & Hh).
    destruct (existsb (String.eqb (fst (snd ic))) (indexed st)); [|contradiction].
    destruct Hh as [<-|[]]. cbn [snd] in Hem. unfold idx_of in Hem.
    destruct (map nid _) eqn:Em in Hem; [|discriminate]. apply map_eq_nil in Em.
    rewrite filter_nil; [reflexivity|]. intros n Hn.
    destruct (sat conds n) eqn:Es; [|reflexivity]. exfalso.
    unfold sat in Es. rewrite forallb_forall in Es.
    assert (Hm : m1 (snd ic) n = true).
    { apply Es. destruct ic as [i c]. eapply number_from_snd. exact Hic. }
    assert (Hf : List.In n (filter (fun n0 => match lookup (fst (snd ic)) (nprops n0) with
                                             | Some v' => val_eqb v' (snd (snd ic)) | None => false end) (nodes st))).
    { apply filter_In. split; [exact Hn|exact Hm]. }
    rewrite Em in Hf. contradiction.
  - destruct (pick_best hits) as [s|] eqn:Epb.
    + apply pick_best_In in Epb. unfold hits in Epb. apply in_flat_map in Epb.
      destruct Epb as (ic & Hic & Hh).
      destruct (existsb (String.eqb (fst (snd ic))) (indexed st)); [|contradiction].
      destruct Hh as [<-|[]]. cbn [fst snd]. destruct ic as [i0 kv0]. cbn [fst snd].
      apply (fbp_tail st conds i0 kv0 Hs Hic).
    + cbn [fst snd]. apply (fbp_tail st conds O c0 Hs). left. reflexivity.
Qed.

Lemma retain_label_spec : forall st label P, store_ok st ->
  retain_label st label (map nid (filter P (nodes st))) =
  map nid (filter (fun n => P n && lblb label n) (nodes st)).
Proof.
  intros st label P Hs. destruct label as [l|]; cbn [retain_label lblb].
  - apply filter_map_nid. intros n Hn. rewrite (get_node_nid st n Hs Hn). reflexivity.
  - f_equal. apply filter_ext. intros n. rewrite andb_true_r. reflexivity.
Qed.

(** ** [feq] and [val_eqb] agree on normal-form values of one kind *)
Lemma frac_eq_lowest : forall n d m e, 0 < d -> 0 < e -> Z.gcd n d = 1 -> Z.gcd m e = 1 ->
  n * e = m * d -> n = m /\ d = e.
Proof.
  intros n d m e Hd He Gn Gm H.
  assert (D1 : (d | e)).
  { apply (Z.gauss d n e); [|rewrite Z.gcd_comm; exact Gn]. exists m. rewrite H. ring. }
  assert (D2 : (e | d)).
  { apply (Z.gauss e m d); [|rewrite Z.gcd_comm; exact Gm]. exists n. rewrite <- H. ring. }
  assert (d = e) by (apply Z.divide_antisym_nonneg; try lia; assumption).
  subst e. split; [|reflexivity]. apply (Z.mul_reg_r _ _ d); [lia|exact H].
Qed.

Lemma feq_val_eqb : forall a b, val_ok a = true -> val_ok b = true -> same_kind a b = true ->
  feq a b = val_eqb a b.
Proof.
  intros a b Ha Hb Hk.
  destruct a as [|x|x|n d|s|l], b as [|y|y|m e|t|l']; cbn [val_ok] in Ha, Hb; try discriminate;
    cbn [same_kind is_num andb negb] in Hk; try discriminate; cbn [feq val_eqb]; try reflexivity.
  apply andb_true_iff in Ha, Hb. destruct Ha as [Ha1 Ha2]. destruct Hb as [Hb1 Hb2].
  apply Z.ltb_lt in Ha1, Hb1. apply Z.eqb_eq in Ha2, Hb2.
  apply eq_true_iff_eq. rewrite andb_true_iff, !Z.eqb_eq. split.
  - apply frac_eq_lowest; assumption.
  - intros [-> ->]. reflexivity.
Qed.

Lemma passes_and : forall st cs r a b,
  passes_row st cs r (EAnd a b) = passes_row st cs r a && passes_row st cs r b.
Proof.
  intros st cs r a b. unfold passes_row, passes. cbn [eval].
  destruct (eval (row_look cs r) cell_val (fprop st) (cell_labels st) a) as [va|]; cbn [obind]; [|reflexivity].
  destruct (eval (row_look cs r) cell_val (fprop st) (cell_labels st) b) as [vb|]; cbn [obind].
  - destruct va as [|[|]| | | |]; cbn [as_bool obind andb]; try reflexivity;
      destruct vb as [|[|]| | | |]; reflexivity.
  - destruct va as [|[|]| | | |]; reflexivity.
Qed.

Lemma row_look_single : forall x c, row_look [x] [c] x = Some c.
Proof. intros x c. unfold row_look. cbn [pos_last]. rewrite String.eqb_refl. reflexivity. Qed.

Lemma num_mix_same_kind : forall st k v n v', num_mix st k v = false -> List.In n (nodes st) ->
  lookup k (nprops n) = Some v' -> same_kind v' v = true.
Proof.
  intros st k v n v' H Hn Hl. unfold num_mix in H.
  destruct (same_kind v' v) eqn:E; [reflexivity|]. exfalso.
  assert (existsb (fun n0 => match lookup k (nprops n0) with Some v'0 => negb (same_kind v'0 v) | None => false end) (nodes st) = true).
  { apply existsb_exists. exists n. split; [exact Hn|]. rewrite Hl, E. reflexivity. }
  congruence.
Qed.

Lemma eq_leaf_passes : forall st x n k v, store_ok st -> vals_ok st -> List.In n (nodes st) ->
  val_ok v = true -> num_mix st k v = false ->
  (match (let? c := row_look [x] [CNode (nid n)] x in fprop st c k) with
   | Some v' => feq v' v | None => false end) = m1 (k, v) n.
Proof.
  intros st x n k v Hs Hv Hn Hl Hm.
  rewrite row_look_single. cbn [obind]. unfold fprop. cbn [cell_node_id].
  rewrite (get_node_nid st n Hs Hn). unfold m1. cbn [fst snd].
  destruct (lookup k (nprops n)) as [v'|] eqn:El; [|reflexivity].
  apply feq_val_eqb; [|exact Hl|].
  - apply (Hv n k v' Hn). apply lookup_In. exact El.
  - eapply num_mix_same_kind; eassumption.
Qed.

Lemma eq_conds_passes : forall st x n e, store_ok st -> vals_ok st -> List.In n (nodes st) ->
  lits_ok e = true -> only_eq_conds x e = true ->
  (forall c, List.In c (collect_eq x e) -> num_mix st (fst c) (snd c) = false) ->
  passes_row st [x] [CNode (nid n)] e = sat (collect_eq x e) n.
Proof.
  intros st x n e Hs Hv Hn.
  induction e as [v|y|y k|op a IHa b IHb|a IHa b IHb|a IHa b IHb|a IHa|a IHa|a IHa|y l|l y];
    intros Hl Ho Hm; cbn [only_eq_conds] in Ho; try discriminate.
  - destruct op; try discriminate.
    destruct a as [va|ya|xa ka|? ? ?|? ?|? ?|?|?|?|? ?|? ?]; try discriminate;
    destruct b as [vb|yb|xb kb|? ? ?|? ?|? ?|?|?|?|? ?|? ?]; try discriminate.
    + cbn [lits_ok] in Hl. apply andb_true_iff in Hl. destruct Hl as [Hl _].
      cbn [collect_eq] in Hm |- *. rewrite Ho in Hm |- *. apply String.eqb_eq in Ho. subst xb.
      unfold sat. cbn [forallb]. rewrite andb_true_r.
      rewrite <- (eq_leaf_passes st x n kb va Hs Hv Hn Hl (Hm (kb, va) (or_introl eq_refl))).
      unfold passes_row, passes. cbn [eval obind].
      destruct (let? c := row_look [x] [CNode (nid n)] x in fprop st c kb) as [v'|]; cbn [obind cmp_result]; [|reflexivity].
      rewrite (feq_sym va v'). destruct (feq v' va); reflexivity.
    + cbn [lits_ok] in Hl. apply andb_true_iff in Hl. destruct Hl as [_ Hl].
      cbn [collect_eq] in Hm |- *. rewrite Ho in Hm |- *. apply String.eqb_eq in Ho. subst xa.
      unfold sat. cbn [forallb]. rewrite andb_true_r.
      rewrite <- (eq_leaf_passes st x n ka vb Hs Hv Hn Hl (Hm (ka, vb) (or_introl eq_refl))).
      unfold passes_row, passes. cbn [eval obind].
      destruct (let? c := row_look [x] [CNode (nid n)] x in fprop st c ka) as [v'|]; cbn [obind cmp_result]; [|reflexivity].
      destruct (feq v' vb); reflexivity.
  - cbn [lits_ok] in Hl. apply andb_true_iff in Hl. destruct Hl as [Hla Hlb].
    apply andb_true_iff in Ho. destruct Ho as [Hoa Hob].
    cbn [collect_eq] in Hm |- *.
    rewrite passes_and. unfold sat. rewrite forallb_app. fold (sat (collect_eq x a) n) (sat (collect_eq x b) n).
    rewrite IHa, IHb; auto; intros c Hc; apply Hm, in_or_app; auto.
Qed.

Lemma Some_inj : forall {A} (a b : A), Some a = Some b -> a = b.
Proof. intros A a b H. injection H as H. exact H. Qed.

Lemma index_path_eq : forall st x label e t,
  store_ok st -> vals_ok st -> lits_ok e = true -> only_eq_conds x e = true ->
  (forall c, List.In c (collect_eq x e) -> num_mix st (fst c) (snd c) = false) ->
  try_index st (idx_of st) e (LScan x label) = Some t ->
  t = filter_tbl (fun r => passes_row st [x] r e) (mkT [x] (scan_rows st label)).
Proof.
  intros st x label e t Hs Hv Hl Ho Hm Ht.
  unfold try_index in Ht.
  destruct (collect_eq x e) as [|c0 rest] eqn:Ec; [discriminate|].
  destruct (existsb _ (c0 :: rest)); [|discriminate].
  apply Some_inj in Ht. subst t.
  rewrite (find_by_props_spec st (c0 :: rest) Hs) by discriminate.
  rewrite (retain_label_spec st label _ Hs).
  change (scan_rows st label) with (map (fun n => [CNode (nid n)]) (filter (lblb label) (nodes st))).
  unfold filter_tbl, mkT. cbn [cols rows]. f_equal.
  rewrite map_map. symmetry.
  etransitivity;
    [apply (filter_map_rows (fun r => passes_row st [x] r e) (fun n => [CNode (nid n)])
              (sat (c0 :: rest)) (lblb label) (nodes st))|].
  - intros n Hn. rewrite <- Ec. apply eq_conds_passes; try assumption. rewrite Ec. exact Hm.
  - f_equal. apply filter_ext. intros n. apply andb_comm.
Qed.


(** * (6) The range path *)

Definition rng_test (op : cmpop) (v' v : val) : bool :=
  match cmp_result op v' v with Some (VBool true) => true | _ => false end.

Lemma fcmp_rcmp : forall a b, same_kind a b = true -> is_bool b = false -> fcmp a b = rcmp a b.
Proof.
  intros a b Hk Hb.
  destruct a as [|x|x|n d|s|l], b as [|y|y|m e|t|l']; cbn [is_bool] in Hb; try discriminate;
    cbn [same_kind is_num andb negb] in Hk; try discriminate; reflexivity.
Qed.

Lemma lower_test : forall li v' m, fcmp v' m = rcmp v' m ->
  match rcmp v' m with Some Lt => false | Some Eq => li | Some Gt => true | None => false end
  = rng_test (if li then OGe else OGt) v' m.
Proof.
  intros li v' m H. destruct li; unfold rng_test; cbn [cmp_result]; rewrite H;
    destruct (rcmp v' m) as [[]|]; reflexivity.
Qed.

Lemma upper_test : forall hi_i v' m, fcmp v' m = rcmp v' m ->
  match rcmp v' m with Some Gt => false | Some Eq => hi_i | Some Lt => true | None => false end
  = rng_test (if hi_i then OLe else OLt) v' m.
Proof.
  intros hi_i v' m H. destruct hi_i; unfold rng_test; cbn [cmp_result]; rewrite H;
    destruct (rcmp v' m) as [[]|]; reflexivity.
Qed.

Definition bound_ok (st : store) (k : string) (b : option val) : Prop :=
  match b with Some m => val_ok m = true /\ num_mix st k m = false /\ is_bool m = false | None => True end.

Lemma in_range_tests : forall st k lo hi li hi_i n v',
  bound_ok st k lo -> bound_ok st k hi -> List.In n (nodes st) -> lookup k (nprops n) = Some v' ->
  value_in_range v' lo hi li hi_i =
  (match lo with Some m => rng_test (if li then OGe else OGt) v' m | None => true end)
  && (match hi with Some m => rng_test (if hi_i then OLe else OLt) v' m | None => true end).
Proof.
  intros st k lo hi li hi_i n v' Hlo Hhi Hn Hl. unfold value_in_range. f_equal.
  - destruct lo as [m|]; [|reflexivity]. destruct Hlo as (_ & Hm & Hb).
    apply lower_test. apply fcmp_rcmp; [|exact Hb]. eapply num_mix_same_kind; eassumption.
  - destruct hi as [m|]; [|reflexivity]. destruct Hhi as (_ & Hm & Hb).
    apply upper_test. apply fcmp_rcmp; [|exact Hb]. eapply num_mix_same_kind; eassumption.
Qed.

Lemma z_gt_test : forall h m incl v',
  Forall (fun v => val_ok v = true) h -> val_ok m = true -> List.In v' h ->
  z_gt (zone_of h) m incl = false -> rng_test (if incl then OGe else OGt) v' m = false.
Proof.
  intros h m incl v' Hok Hm Hin Hz. unfold rng_test.
  assert (N : cmp_result (if incl then OGe else OGt) v' m <> Some (VBool true)).
  { apply (col_prune_sound (mkZcol h false) (if incl then OGe else OGt) m v' Hok Hm Hin).
    - unfold col_might_match. cbn [zdirty zhist]. destruct incl; exact Hz.
    - intros E. destruct incl; discriminate. }
  destruct (cmp_result (if incl then OGe else OGt) v' m) as [[|[|]| | | |]|]; try reflexivity.
  exfalso. apply N. reflexivity.
Qed.

Lemma z_lt_test : forall h m incl v',
  Forall (fun v => val_ok v = true) h -> val_ok m = true -> List.In v' h ->
  z_lt (zone_of h) m incl = false -> rng_test (if incl then OLe else OLt) v' m = false.
Proof.
  intros h m incl v' Hok Hm Hin Hz. unfold rng_test.
  assert (N : cmp_result (if incl then OLe else OLt) v' m <> Some (VBool true)).
  { apply (col_prune_sound (mkZcol h false) (if incl then OLe else OLt) m v' Hok Hm Hin).
    - unfold col_might_match. cbn [zdirty zhist]. destruct incl; exact Hz.
    - intros E. destruct incl; discriminate. }
  destruct (cmp_result (if incl then OLe else OLt) v' m) as [[|[|]| | | |]|]; try reflexivity.
  exfalso. apply N. reflexivity.
Qed.

Lemma range_zone_sound : forall st k lo hi li hi_i n v',
  zone_ok st -> bound_ok st k lo -> bound_ok st k hi -> List.In n (nodes st) ->
  lookup k (nprops n) = Some v' ->
  node_might_match_range st k lo hi li hi_i = false ->
  value_in_range v' lo hi li hi_i = false.
Proof.
  intros st k lo hi li hi_i n v' Hz Hlo Hhi Hn Hl Hm.
  rewrite (in_range_tests st k lo hi li hi_i n v' Hlo Hhi Hn Hl).
  unfold node_might_match_range in Hm.
  destruct (lookup k (zcols st)) as [c|] eqn:Ec; [|discriminate].
  destruct (Hz k c Ec) as [Hok Hcov]. pose proof (Hcov n v' Hn Hl) as Hin.
  unfold z_range in Hm. apply andb_false_iff in Hm. destruct Hm as [Hm|Hm].
  - destruct lo as [m|]; [|discriminate]. destruct Hlo as (Hvm & _ & _).
    rewrite (z_gt_test _ m li v' Hok Hvm Hin Hm). reflexivity.
  - destruct hi as [m|]; [|discriminate]. destruct Hhi as (Hvm & _ & _).
    rewrite (z_lt_test _ m hi_i v' Hok Hvm Hin Hm). apply andb_false_r.
Qed.

Lemma find_in_range_spec : forall st z k lo hi li hi_i,
  zone_ok st -> bound_ok st k lo -> bound_ok st k hi ->
  find_in_range st z k lo hi li hi_i =
  map nid (filter (fun n => match lookup k (nprops n) with
                            | Some v => value_in_range v lo hi li hi_i | None => false end) (nodes st)).
Proof.
  intros st z k lo hi li hi_i Hz Hlo Hhi. unfold find_in_range.
  destruct (z && negb (node_might_match_range st k lo hi li hi_i)) eqn:E; [|reflexivity].
  apply andb_true_iff in E. destruct E as [_ E]. apply negb_true_iff in E.
  rewrite filter_nil; [reflexivity|]. intros n Hn.
  destruct (lookup k (nprops n)) as [v'|] eqn:El; [|reflexivity].
  eapply range_zone_sound; eassumption.
Qed.

(** ** the shape of range predicates *)
Lemma extract_range_shape : forall p x k op' v, extract_range p = Some (x, k, op', v) ->
  (p = ECmp op' (EProp x k) (ELit v)) \/
  (exists op, p = ECmp op (ELit v) (EProp x k) /\ op' = flip_op op).
Proof.
  intros p x k op' v H. unfold extract_range in H.
  destruct p as [|?|? ?|op a b|? ?|? ?|?|?|?|? ?|? ?]; try discriminate.
  destruct a as [va|ya|xa ka|? ? ?|? ?|? ?|?|?|?|? ?|? ?]; try discriminate;
  destruct b as [vb|yb|xb kb|? ? ?|? ?|? ?|?|?|?|? ?|? ?]; try discriminate;
  destruct (is_range_op op); try discriminate; injection H as <- <- <- <-.
  - right. exists op. auto.
  - left. reflexivity.
Qed.

Lemma extract_range_lit : forall p x k op' v, extract_range p = Some (x, k, op', v) ->
  lits_ok p = true -> val_ok v = true.
Proof.
  intros p x k op' v H Hl. destruct (extract_range_shape _ _ _ _ _ H) as [->|(op & -> & _)];
    cbn [lits_ok] in Hl; apply andb_true_iff in Hl; tauto.
Qed.

Lemma range_leaf_passes : forall st p x k op' v n, store_ok st -> List.In n (nodes st) ->
  extract_range p = Some (x, k, op', v) ->
  passes_row st [x] [CNode (nid n)] p =
  match lookup k (nprops n) with Some v' => rng_test op' v' v | None => false end.
Proof.
  intros st p x k op' v n Hs Hn H.
  destruct (extract_range_shape _ _ _ _ _ H) as [->|(op & -> & ->)];
    unfold passes_row, passes; cbn [eval obind]; rewrite row_look_single; cbn [obind];
    unfold fprop; cbn [cell_node_id]; rewrite (get_node_nid st n Hs Hn);
    destruct (lookup k (nprops n)) as [v'|]; cbn [obind]; try reflexivity.
  unfold rng_test. rewrite <- cmp_result_flip. reflexivity.
Qed.

Lemma extract_between_and : forall e r, extract_between e = Some r -> extract_range e = None.
Proof. intros e r H. destruct e; try discriminate. reflexivity. Qed.

Lemma rows_of_ids : forall st x label e (test : node -> bool), store_ok st ->
  (forall n, List.In n (nodes st) -> passes_row st [x] [CNode (nid n)] e = test n) ->
  mkT [x] (map (fun i => [CNode i]) (retain_label st label (map nid (filter test (nodes st)))))
  = filter_tbl (fun r => passes_row st [x] r e) (mkT [x] (scan_rows st label)).
Proof.
  intros st x label e test Hs Ht.
  rewrite (retain_label_spec st label _ Hs).
  change (scan_rows st label) with (map (fun n => [CNode (nid n)]) (filter (lblb label) (nodes st))).
  unfold filter_tbl, mkT. cbn [cols rows]. f_equal.
  rewrite map_map. symmetry.
  etransitivity;
    [apply (filter_map_rows (fun r => passes_row st [x] r e) (fun n => [CNode (nid n)])
              test (lblb label) (nodes st)); exact Ht|].
  f_equal. apply filter_ext. intros n. apply andb_comm.
Qed.

Lemma range_path_eq : forall st z x label e t,
  store_ok st -> vals_ok st -> zone_ok st -> lits_ok e = true ->
  (forall k vs, range_applies (LFilter e (LScan x label)) = Some (k, vs) ->
     forall v, List.In v vs -> num_mix st k v = false /\ is_bool v = false) ->
  try_range st z e (LScan x label) = Some t ->
  t = filter_tbl (fun r => passes_row st [x] r e) (mkT [x] (scan_rows st label)).
Proof.
  intros st z x label e t Hs Hv Hz Hl Hk Ht.
  unfold try_range in Ht. cbn [range_applies] in Hk.
  destruct (extract_between e) as [[[[[[y k] lo] hi] li] hi_i]|] eqn:Eb.
  - destruct (String.eqb y x) eqn:Eyx.
    + apply String.eqb_eq in Eyx. subst y. apply Some_inj in Ht. subst t.
      (* the two leaves *)
      destruct e as [|?|? ?|? ? ?|a b|? ?|?|?|?|? ?|? ?]; try discriminate.
      cbn [extract_between] in Eb.
      destruct (extract_range a) as [[[[x1 k1] o1] v1]|] eqn:Ea; [|discriminate].
      destruct (extract_range b) as [[[[x2 k2] o2] v2]|] eqn:Eb2; [|discriminate].
      destruct (String.eqb x1 x2 && String.eqb k1 k2) eqn:Exk; cbn [negb] in Eb; [|discriminate].
      apply andb_true_iff in Exk. destruct Exk as [E1 E2].
      apply String.eqb_eq in E1, E2. subst x2 k2.
      cbn [lits_ok] in Hl. apply andb_true_iff in Hl. destruct Hl as [Hla Hlb].
      pose proof (extract_range_lit _ _ _ _ _ Ea Hla) as Hv1.
      pose proof (extract_range_lit _ _ _ _ _ Eb2 Hlb) as Hv2.
      assert (Hxk : x1 = x /\ k1 = k /\ ((lo = v1 /\ hi = v2) \/ (lo = v2 /\ hi = v1))).
      { destruct o1, o2; try discriminate; injection Eb as <- <- <- <- <- <-; auto 8. }
      destruct Hxk as (-> & -> & Hlh).
      assert (Hlo : lo = v1 \/ lo = v2) by tauto.
      assert (Hhi : hi = v1 \/ hi = v2) by tauto.
      assert (Hb : forall m, m = v1 \/ m = v2 -> bound_ok st k (Some m)).
      { intros m Hm. assert (Hin : List.In m [lo; hi]).
        { destruct Hlh as [[-> ->]|[-> ->]], Hm as [->| ->]; cbn; auto. }
        destruct (Hk k [lo; hi] eq_refl m Hin) as [H1 H2].
        cbn [bound_ok]. destruct Hm as [->| ->]; auto. }
      rewrite (find_in_range_spec st z k (Some lo) (Some hi) li hi_i Hz (Hb lo Hlo) (Hb hi Hhi)).
      apply rows_of_ids; [exact Hs|]. intros n Hn.
      rewrite passes_and.
      rewrite (range_leaf_passes st a x k o1 v1 n Hs Hn Ea), (range_leaf_passes st b x k o2 v2 n Hs Hn Eb2).
      destruct (lookup k (nprops n)) as [v'|] eqn:El; [|reflexivity].
      rewrite (in_range_tests st k (Some lo) (Some hi) li hi_i n v' (Hb lo Hlo) (Hb hi Hhi) Hn El).
      destruct o1, o2; try discriminate; injection Eb as <- <- <- <-; try reflexivity; apply andb_comm.
    + rewrite (extract_between_and _ _ Eb) in Ht. discriminate.
  - destruct (extract_range e) as [[[[y k] op] v]|] eqn:Er; [|discriminate].
    destruct (String.eqb y x) eqn:Eyx; [|discriminate].
    apply String.eqb_eq in Eyx. subst y.
    destruct (range_bounds op v) as [[[[lo hi] li] hi_i]|] eqn:Erb; [|discriminate].
    apply Some_inj in Ht. subst t.
    pose proof (extract_range_lit _ _ _ _ _ Er Hl) as Hvv.
    destruct (Hk k [v] eq_refl v (or_introl eq_refl)) as [H1 H2].
    assert (Hb : bound_ok st k (Some v)) by (cbn [bound_ok]; auto).
    assert (Hlo : bound_ok st k lo) by (destruct op; try discriminate; injection Erb as <- <- <- <-; cbn [bound_ok]; auto).
    assert (Hhi : bound_ok st k hi) by (destruct op; try discriminate; injection Erb as <- <- <- <-; cbn [bound_ok]; auto).
    rewrite (find_in_range_spec st z k lo hi li hi_i Hz Hlo Hhi).
    apply rows_of_ids; [exact Hs|]. intros n Hn.
    rewrite (range_leaf_passes st e x k op v n Hs Hn Er).
    destruct (lookup k (nprops n)) as [v'|] eqn:El; [|reflexivity].
    rewrite (in_range_tests st k lo hi li hi_i n v' Hlo Hhi Hn El).
    destruct op; try discriminate; injection Erb as <- <- <- <-; cbn [andb]; rewrite ?andb_true_r; reflexivity.
Qed.


(** * (7) Factorized chains *)

Section FtreeInd.
  Variable P : ftree -> Prop.
  Hypothesis Hleaf : forall c, P (FNode c None).
  Hypothesis Hnode : forall c kids, Forall P kids -> P (FNode c (Some kids)).
  Fixpoint ftree_ind' (t : ftree) : P t :=
    match t with
    | FNode c None => Hleaf c
    | FNode c (Some kids) =>
        Hnode c kids ((fix go (l : list ftree) : Forall P l :=
                         match l with
                         | [] => Forall_nil P
                         | k :: r => Forall_cons k (ftree_ind' k) (go r)
                         end) kids)
    end.
End FtreeInd.

(** a path as (cells above the deepest entry, cells of the deepest entry) *)
Definition pre (c : row) (pl : row * row) : row * row := (c ++ fst pl, snd pl).
Fixpoint lpaths (t : ftree) : list (row * row) :=
  match t with
  | FNode c None => [([], c)]
  | FNode c (Some kids) => flat_map (fun k => map (pre c) (lpaths k)) kids
  end.
Definition join (pl : row * row) : row := fst pl ++ snd pl.
Definition lpathsF (f : list ftree) : list (row * row) := lpaths (FNode [] (Some f)).

Lemma join_pre : forall c pl, join (pre c pl) = c ++ join pl.
Proof. intros c pl. unfold join, pre. cbn [fst snd]. rewrite app_assoc. reflexivity. Qed.

Lemma paths_lpaths : forall t, paths t = map join (lpaths t).
Proof.
  apply ftree_ind'.
  - intros c. reflexivity.
  - intros c kids H. cbn [paths lpaths].
    induction H as [|k r Hk Hr IH]; [reflexivity|].
    cbn [flat_map]. rewrite map_app, IH, Hk, !map_map. f_equal.
    apply map_ext. intros pl. rewrite join_pre. reflexivity.
Qed.

Lemma map_app_nil : forall (l : list row), map (app []) l = l.
Proof. induction l as [|a l IH]; cbn [map]; [reflexivity|]. rewrite IH. reflexivity. Qed.

Lemma paths_forest : forall f, flat_map paths f = map join (lpathsF f).
Proof.
  intros f. unfold lpathsF. rewrite <- paths_lpaths. cbn [paths].
  induction f as [|k r IH]; [reflexivity|]. cbn [flat_map]. rewrite map_app_nil, IH. reflexivity.
Qed.

Lemma leaves_lpaths : forall {A} (g : row * row -> row * row) (h : A -> row) (nb : list A),
  flat_map (fun k => map g (lpaths k)) (map (fun te => FNode (h te) None) nb) = map (fun te => g ([], h te)) nb.
Proof.
  intros A g h nb. induction nb as [|a nb IH]; [reflexivity|].
  cbn [map flat_map lpaths app]. rewrite IH. reflexivity.
Qed.

Section Grow.
  Variables (st : store) (ci : bool) (idx : nat) (d : dir) (ty : option string).
  Definition E (pl : row * row) : list (row * row) :=
    match leaf_src idx (snd pl) with
    | Ok (Some n) => map (fun te => (join pl, [CEdge (snd te); CNode (fst te)])) (neighbors st ci n d ty)
    | _ => []
    end.
  Definition srcs_ok (L : list (row * row)) : Prop :=
    forall pl, List.In pl L -> exists n, leaf_src idx (snd pl) = Ok (Some n).

  Lemma E_pre : forall c pl, E (pre c pl) = map (pre c) (E pl).
  Proof.
    intros c pl. unfold E. cbn [pre snd].
    destruct (leaf_src idx (snd pl)) as [[n|]|]; try reflexivity.
    rewrite map_map. apply map_ext. intros te. rewrite join_pre. reflexivity.
  Qed.

  Lemma flat_map_E_pre : forall c L, flat_map E (map (pre c) L) = map (pre c) (flat_map E L).
  Proof.
    intros c L. induction L as [|a L IH]; [reflexivity|].
    cbn [map flat_map]. rewrite map_app, E_pre, IH. reflexivity.
  Qed.

  Lemma grow_kids : forall c kids,
    grow st ci idx d ty (FNode c (Some kids)) =
    do r <- grow_forest st ci idx d ty kids; Ok (FNode c (Some (fst r)), snd r).
  Proof.
    intros c kids. cbn [grow]. f_equal.
    induction kids as [|k r IH]; [reflexivity|].
    cbn [grow_forest]. rewrite IH. reflexivity.
  Qed.

  Definition grow_ok (t : ftree) : Prop :=
    srcs_ok (lpaths t) ->
    exists t', grow st ci idx d ty t = Ok (t', List.length (lpaths t')) /\ lpaths t' = flat_map E (lpaths t).

  Lemma grow_forest_spec : forall c kids, Forall grow_ok kids ->
    srcs_ok (flat_map (fun k => map (pre c) (lpaths k)) kids) ->
    exists f', grow_forest st ci idx d ty kids
               = Ok (f', List.length (flat_map (fun k => map (pre c) (lpaths k)) f')) /\
               flat_map (fun k => map (pre c) (lpaths k)) f'
               = flat_map E (flat_map (fun k => map (pre c) (lpaths k)) kids).
  Proof.
    intros c kids H. induction H as [|k r Hk Hr IH]; intros Hs.
    - exists []. split; reflexivity.
    - cbn [flat_map] in Hs.
      assert (Hs1 : srcs_ok (lpaths k)).
      { intros pl Hpl. destruct (Hs (pre c pl)) as [n Hn]; [apply in_or_app; left; apply in_map; exact Hpl|].
        exists n. exact Hn. }
      assert (Hs2 : srcs_ok (flat_map (fun k => map (pre c) (lpaths k)) r)).
      { intros pl Hpl. apply Hs. apply in_or_app. right. exact Hpl. }
      destruct (Hk Hs1) as (k' & Hk1 & Hk2). destruct (IH Hs2) as (f'' & Hf1 & Hf2).
      exists (k' :: f''). cbn [grow_forest]. rewrite Hk1, Hf1. cbn [rbind fst snd]. split.
      + f_equal. f_equal. cbn [flat_map]. rewrite app_length, map_length. reflexivity.
      + cbn [flat_map]. rewrite flat_map_app, Hk2, flat_map_E_pre, Hf2. reflexivity.
  Qed.

  Lemma grow_spec : forall t, grow_ok t.
  Proof.
    apply ftree_ind'.
    - intros c Hs. destruct (Hs ([], c) (or_introl eq_refl)) as [n Hn]. cbn [snd] in Hn.
      cbn [grow]. rewrite Hn. cbn [rbind].
      eexists. split.
      + f_equal. f_equal. cbn [lpaths]. rewrite (leaves_lpaths (pre c)). rewrite !map_length. reflexivity.
      + cbn [lpaths]. rewrite (leaves_lpaths (pre c)). cbn [flat_map]. rewrite app_nil_r.
        unfold E. cbn [snd]. rewrite Hn. apply map_ext. intros te.
        unfold pre, join. cbn [fst snd app]. rewrite app_nil_r. reflexivity.
    - intros c kids H Hs. cbn [lpaths] in Hs.
      destruct (grow_forest_spec c kids H Hs) as (f' & Hf1 & Hf2).
      rewrite grow_kids, Hf1. cbn [rbind fst snd].
      exists (FNode c (Some f')). split; [reflexivity|]. cbn [lpaths]. exact Hf2.
  Qed.

  Lemma grow_forest_top : forall f, srcs_ok (lpathsF f) ->
    exists f', grow_forest st ci idx d ty f = Ok (f', List.length (lpathsF f')) /\
               lpathsF f' = flat_map E (lpathsF f).
  Proof.
    intros f Hs. unfold lpathsF in *. cbn [lpaths] in *.
    apply grow_forest_spec; [|exact Hs].
    apply Forall_forall. intros t _. apply grow_spec.
  Qed.

  Lemma expand_match : forall cs from L,
    (forall x, neighbors st true x d ty = neighbors st ci x d ty) ->
    (forall pl n, List.In pl L -> src_of cs from (join pl) = Ok n -> leaf_src idx (snd pl) = Ok (Some n)) ->
    forall rs1, expand_rows st true cs from d ty (map join L) = Ok rs1 ->
    srcs_ok L /\ rs1 = map join (flat_map E L).
  Proof.
    intros cs from L Hci. unfold expand_rows.
    induction L as [|a L IH]; intros Hag rs1 Hex.
    - cbn in Hex. injection Hex as <-. split; [intros pl []|reflexivity].
    - cbn [map rmapM] in Hex.
      destruct (src_of cs from (join a)) as [n|] eqn:Es; cbn [rbind] in Hex; [|discriminate].
      destruct (rmapM _ (map join L)) as [y|] eqn:Er; cbn [rbind] in Hex; [|discriminate].
      injection Hex as <-.
      destruct (IH (fun pl n Hpl => Hag pl n (or_intror Hpl)) y eq_refl) as [Hs ->].
      pose proof (Hag a n (or_introl eq_refl) Es) as Hl.
      split.
      + intros pl [<-|Hpl]; [exists n; exact Hl|apply Hs; exact Hpl].
      + cbn [flat_map]. rewrite map_app. f_equal.
        unfold E. rewrite Hl, map_map, Hci. reflexivity.
  Qed.

  Lemma one_step : forall cs from f rs1,
    (forall x, neighbors st true x d ty = neighbors st ci x d ty) ->
    (forall pl n, List.In pl (lpathsF f) -> src_of cs from (join pl) = Ok n -> leaf_src idx (snd pl) = Ok (Some n)) ->
    expand_rows st true cs from d ty (map join (lpathsF f)) = Ok rs1 ->
    exists f1, grow_forest st ci idx d ty f = Ok (f1, List.length (lpathsF f1)) /\
               lpathsF f1 = flat_map E (lpathsF f) /\ rs1 = map join (lpathsF f1).
  Proof.
    intros cs from f rs1 Hci Hag Hex.
    destruct (expand_match cs from (lpathsF f) Hci Hag rs1 Hex) as [Hs ->].
    destruct (grow_forest_top f Hs) as (f1 & H1 & H2).
    exists f1. split; [exact H1|]. split; [exact H2|]. rewrite H2. reflexivity.
  Qed.

  Lemma E_shape : forall L pl', List.In pl' (flat_map E L) ->
    exists pl e n, List.In pl L /\ pl' = (join pl, [CEdge e; CNode n]).
  Proof.
    intros L pl' H. apply in_flat_map in H. destruct H as (pl & Hpl & H).
    unfold E in H. destruct (leaf_src idx (snd pl)) as [[n|]|]; try contradiction.
    apply in_map_iff in H. destruct H as (te & <- & _).
    exists pl, (snd te), (fst te). auto.
  Qed.
End Grow.


Lemma flat_steps_cols : forall st steps b t, flat_steps st b steps = Ok t ->
  cols t = cols b ++ flat_map s_cols steps.
Proof.
  intros st steps. induction steps as [|s r IH]; intros b t H.
  - cbn in H. injection H as <-. cbn [flat_map]. rewrite app_nil_r. reflexivity.
  - cbn [flat_steps] in H.
    destruct (of_opt (pos_first (s_from s) (cols b))); cbn [rbind] in H; [|discriminate].
    destruct (expand_rows st true (cols b) (s_from s) (s_dir s) (s_type s) (rows b)) as [rs|]; cbn [rbind] in H; [|discriminate].
    apply IH in H. cbn [cols mkT] in H. rewrite H. cbn [flat_map]. rewrite app_assoc. reflexivity.
Qed.

Lemma flat_steps_nil_rows : forall st steps b t, rows b = [] -> flat_steps st b steps = Ok t -> rows t = [].
Proof.
  intros st steps. induction steps as [|s r IH]; intros b t Hb H.
  - cbn in H. injection H as <-. exact Hb.
  - cbn [flat_steps] in H.
    destruct (of_opt (pos_first (s_from s) (cols b))); cbn [rbind] in H; [|discriminate].
    rewrite Hb in H. cbn [expand_rows rmapM rbind] in H.
    apply IH in H; [exact H|reflexivity].
Qed.

Lemma fact_steps_le : forall st i0 steps is_first f added f' a,
  fact_steps st i0 steps is_first f added = Ok (f', a) -> (added <= a <= added + List.length steps)%nat.
Proof.
  intros st i0 steps. induction steps as [|s r IH]; intros is_first f added f' a H.
  - cbn in H. injection H as <- <-. cbn. lia.
  - cbn [fact_steps] in H.
    destruct (grow_forest st is_first (if is_first then i0 else 1%nat) (s_dir s) (s_type s) f) as [g|]; cbn [rbind] in H; [|discriminate].
    destruct (snd g); apply IH in H; cbn [List.length]; lia.
Qed.

Lemma pos_first_last : forall seen e to, ~ List.In to seen -> to <> e ->
  pos_first to (seen ++ [e; to]) = Some (List.length seen + 1)%nat.
Proof.
  intros seen e to Hn Hne. induction seen as [|y seen IH].
  - cbn [app pos_first List.length]. 
    destruct (String.eqb to e) eqn:E1; [apply String.eqb_eq in E1; contradiction|].
    rewrite String.eqb_refl. reflexivity.
  - cbn [app pos_first List.length].
    destruct (String.eqb to y) eqn:E1.
    + apply String.eqb_eq in E1. exfalso. apply Hn. left. symmetry. exact E1.
    + rewrite IH; [reflexivity|]. intros H. apply Hn. right. exact H.
Qed.

Definition type_cond (st : store) (s : step) : bool :=
  match s_type s with
  | Some t => forallb (fun e => implb (eq_ci (etype e) t) (String.eqb (etype e) t)) (edges st)
  | None => true end.

Lemma neighbors_ci : forall st s x, type_cond st s = true ->
  neighbors st true x (s_dir s) (s_type s) = neighbors st false x (s_dir s) (s_type s).
Proof.
  intros st s x H. unfold neighbors. apply filter_ext. intros te. f_equal.
  unfold type_cond in H. unfold type_ok. destruct (s_type s) as [t|]; [|reflexivity].
  destruct (get_edge st (snd te)) as [ed|] eqn:Eg; [|reflexivity].
  unfold get_edge in Eg. apply find_some in Eg. destruct Eg as [Hin _].
  rewrite forallb_forall in H. specialize (H ed Hin).
  destruct (String.eqb (etype ed) t) eqn:E1.
  - apply String.eqb_eq in E1. unfold eq_ci. rewrite E1. apply String.eqb_refl.
  - destruct (eq_ci (etype ed) t); [discriminate|reflexivity].
Qed.

(** the steps after the first *)
Lemma fact_steps_flat_later : forall st i0 steps f cs rs added f' a t,
  rs = map join (lpathsF f) ->
  (forall pl, List.In pl (lpathsF f) -> exists e n, snd pl = [CEdge e; CNode n]) ->
  (forall pl, List.In pl (lpathsF f) -> List.length (join pl) = List.length cs) ->
  (exists seen e to, cs = seen ++ [e; to] /\ ~ List.In to seen /\ to <> e /\ steps_path cs (Some to) steps) ->
  forallb (type_cond st) steps = true ->
  flat_steps st (mkT cs rs) steps = Ok t ->
  fact_steps st i0 steps false f added = Ok (f', a) -> a = (added + List.length steps)%nat ->
  flat_map paths f' = rows t.
Proof.
  intros st i0 steps. induction steps as [|s r IH];
    intros f cs rs added f' a t Hrs Hleaf Hlen Hcs Htc Hflat Hfact Ha.
  - cbn in Hflat, Hfact. injection Hflat as <-. injection Hfact as <- <-.
    cbn [rows mkT]. rewrite Hrs. apply paths_forest.
  - destruct Hcs as (seen & e & to & Ecs & Hnin & Hne & Hsp).
    cbn [steps_path] in Hsp. destruct Hsp as [Hfrom Hsp].
    destruct (s_cols s) as [|e2 [|to2 [|? ?]]] eqn:Esc; try contradiction.
    destruct Hsp as (Hnin2 & Hne2 & Hsp).
    cbn [forallb] in Htc. apply andb_true_iff in Htc. destruct Htc as [Htc1 Htc2].
    cbn [flat_steps cols rows mkT] in Hflat. rewrite Hfrom in Hflat.
    assert (Hpos : pos_first to cs = Some (List.length seen + 1)%nat)
      by (rewrite Ecs; apply pos_first_last; assumption).
    rewrite Hpos in Hflat. cbn [of_opt rbind] in Hflat.
    destruct (expand_rows st true cs to (s_dir s) (s_type s) rs) as [rs1|] eqn:Eex; cbn [rbind] in Hflat; [|discriminate].
    rewrite Hrs in Eex.
    destruct (one_step st false 1%nat (s_dir s) (s_type s) cs to f rs1) as (f1 & Hg & Hl1 & Hrs1).
    + intros x. apply neighbors_ci. exact Htc1.
    + intros pl n Hpl Hsrc. destruct (Hleaf pl Hpl) as (e' & n' & Hsn).
      pose proof (Hlen pl Hpl) as Hl. unfold join in Hl, Hsrc. rewrite Hsn in Hl, Hsrc.
      rewrite Ecs, !app_length in Hl. cbn [List.length] in Hl.
      unfold src_of in Hsrc. rewrite Hpos in Hsrc. cbn [of_opt rbind] in Hsrc.
      rewrite nth_error_app2 in Hsrc by lia.
      replace (List.length seen + 1 - List.length (fst pl))%nat with 1%nat in Hsrc by lia.
      cbn [nth_error of_opt rbind cell_node_id] in Hsrc. injection Hsrc as <-.
      rewrite Hsn. reflexivity.
    + exact Eex.
    + cbn [fact_steps] in Hfact. rewrite Hg in Hfact. cbn [rbind fst snd] in Hfact.
      destruct (List.length (lpathsF f1)) eqn:Ecnt.
      * apply fact_steps_le in Hfact. cbn [List.length] in Ha. lia.
      * rewrite Esc in Hflat.
        apply (IH f1 (cs ++ [e2; to2]) rs1 (S added) f' a t Hrs1); try assumption.
        -- intros pl' Hpl'. rewrite Hl1 in Hpl'. apply E_shape in Hpl'.
           destruct Hpl' as (pl & e' & n' & _ & ->). exists e', n'. reflexivity.
        -- intros pl' Hpl'. rewrite Hl1 in Hpl'. apply E_shape in Hpl'.
           destruct Hpl' as (pl & e' & n' & Hpl & ->). unfold join at 1. cbn [fst snd].
           rewrite !app_length, (Hlen pl Hpl). reflexivity.
        -- exists cs, e2, to2. auto.
        -- cbn [List.length] in Ha. lia.
Qed.

Definition rows_wf (b : tbl) : Prop := Forall (fun r => List.length r = List.length (cols b)) (rows b).

(** the statement as given is false for a base table with a row longer than its column list: the
    flat second step reads the column of the previous target by NAME (position in the column list),
    the factorized one reads the last cell *)
Example fact_chain_flat_needs_wf :
  let st := mkStore [mkNode 1 [] []; mkNode 2 [] []; mkNode 3 [] []; mkNode 4 [] []; mkNode 5 [] []]
                    [mkEdge 10 1 2 "T" []; mkEdge 11 5 3 "T" []; mkEdge 12 2 4 "T" []] [] [] in
  let b := mkT ["x"%string] [[CNode 1; CNode 7; CNode 5]] in
  let steps := [mkStep "x" Out None ["e1"; "y"]%string; mkStep "y" Out None ["e2"; "z"]%string] in
  steps <> [] /\ steps_path (cols b) None steps /\ steps_no_type_case st steps = true /\
  match flat_steps st b steps, fact_chain st b steps with
  | Ok t, Ok (a, rs) => a = List.length steps /\ rs <> rows t
  | _, _ => False
  end.
Proof.
  cbv zeta. split; [discriminate|]. split.
  - cbn. repeat split; try reflexivity; try discriminate; try (intros [H|[]]; discriminate); try (intros [H|[H|[H|[]]]]; discriminate).
  - split; [reflexivity|]. vm_compute. split; [reflexivity|discriminate].
Qed.

Lemma fact_chain_flat : forall st b steps t a rs,
  rows_wf b ->
  steps <> [] -> steps_path (cols b) None steps -> steps_no_type_case st steps = true ->
  flat_steps st b steps = Ok t -> fact_chain st b steps = Ok (a, rs) ->
  (a = List.length steps \/ rows b = []) ->
  rs = rows t /\ chain_cols b steps = cols t.
Proof.
  intros st b steps t a rs Hwf Hne Hsp Htc Hflat Hfact Ha.
  split; [|unfold chain_cols; symmetry; eapply flat_steps_cols; exact Hflat].
  destruct steps as [|s0 r]; [congruence|]. clear Hne.
  unfold fact_chain in Hfact.
  destruct (pos_first (s_from s0) (cols b)) as [i0|] eqn:Epos; cbn [of_opt rbind] in Hfact; [|discriminate].
  destruct (rows b) as [|r0 rest] eqn:Erows.
  - injection Hfact as <- <-. symmetry. eapply flat_steps_nil_rows; eassumption.
  - destruct Ha as [Ha|Ha]; [|discriminate]. rewrite <- Erows in *. clear Erows r0 rest.
    destruct (fact_steps st i0 (s0 :: r) true (map (fun r1 => FNode r1 None) (rows b)) 0) as [[f' a']|] eqn:Efs;
      cbn [rbind fst snd] in Hfact; [|discriminate].
    injection Hfact as <- <-.
    set (f0 := map (fun r1 => FNode r1 None) (rows b)) in *.
    assert (HL0 : lpathsF f0 = map (fun r1 => ([], r1)) (rows b)).
    { unfold lpathsF, f0. cbn [lpaths]. rewrite (leaves_lpaths (pre []) (fun r1 : row => r1)). reflexivity. }
    assert (Hrows : rows b = map join (lpathsF f0)).
    { rewrite HL0, map_map. symmetry. apply map_id. }
    cbn [steps_path] in Hsp. destruct Hsp as [_ Hsp].
    destruct (s_cols s0) as [|e [|to [|? ?]]] eqn:Esc; try contradiction.
    destruct Hsp as (Hnin & Hne & Hsp).
    cbn [flat_steps] in Hflat. rewrite Epos in Hflat. cbn [of_opt rbind] in Hflat.
    destruct (expand_rows st true (cols b) (s_from s0) (s_dir s0) (s_type s0) (rows b)) as [rs1|] eqn:Eex;
      cbn [rbind] in Hflat; [|discriminate].
    rewrite Hrows in Eex.
    destruct (one_step st true i0 (s_dir s0) (s_type s0) (cols b) (s_from s0) f0 rs1) as (f1 & Hg & Hl1 & Hrs1).
    + reflexivity.
    + intros pl n Hpl Hsrc. rewrite HL0 in Hpl. apply in_map_iff in Hpl. destruct Hpl as (r1 & <- & _).
      unfold join in Hsrc. cbn [fst snd app] in Hsrc |- *.
      unfold src_of in Hsrc. rewrite Epos in Hsrc. cbn [of_opt rbind] in Hsrc. unfold leaf_src.
      destruct (nth_error r1 i0) as [c|]; cbn [of_opt rbind] in Hsrc; [|discriminate].
      destruct (cell_node_id c); cbn [of_opt] in Hsrc; [|discriminate]. injection Hsrc as <-. reflexivity.
    + exact Eex.
    + cbn [fact_steps] in Efs. rewrite Hg in Efs. cbn [rbind fst snd] in Efs.
      destruct (List.length (lpathsF f1)) eqn:Ecnt.
      * apply fact_steps_le in Efs. cbn [List.length] in Ha. lia.
      * rewrite Esc in Hflat.
        apply (fact_steps_flat_later st i0 r f1 (cols b ++ [e; to]) rs1 1%nat f' a' t Hrs1); try assumption.
        -- intros pl' Hpl'. rewrite Hl1 in Hpl'. apply E_shape in Hpl'.
           destruct Hpl' as (pl & e' & n' & _ & ->). exists e', n'. reflexivity.
        -- intros pl' Hpl'. rewrite Hl1 in Hpl'. apply E_shape in Hpl'.
           destruct Hpl' as (pl & e' & n' & Hpl & ->). unfold join at 1. cbn [fst snd].
           rewrite !app_length. cbn [List.length]. f_equal.
           rewrite HL0 in Hpl. apply in_map_iff in Hpl. destruct Hpl as (r1 & <- & Hr1).
           unfold join. cbn [fst snd app]. unfold rows_wf in Hwf. rewrite Forall_forall in Hwf. apply Hwf. exact Hr1.
        -- exists (cols b), e, to. auto.
Qed.
