(** C10 — proofs about the physical planner model (Phys.v): the optimisations switched off give
    [sem_ops]; [sem_ops] reads only the graph; the plan cache is transparent; zone-map pruning,
    the index path, the range path and factorized chains agree with the generic operators outside
    the finding classes of RunPat.v; the composite [run = sem_ops]. *)
From Coq Require Import ZArith List Bool String Ascii Lia Permutation.
From GV Require Export Query.PatSpec Query.RunPat.
Import ListNotations.
Open Scope Z_scope.


Lemma runc_off_fst : forall st p, fst (runc opts_off st p) = sem_ops st p.
Proof.
  intros st p; induction p; cbn [runc sem_ops].
  - reflexivity.
  - destruct (runc opts_off st p) as [rin cin] eqn:E. cbn [fst] in IHp. subst rin.
    destruct (is_single_hop minh maxh); cbn [fst opts_off o_fact andb]; reflexivity.
  - destruct (runc opts_off st p0) as [rin cin] eqn:E. cbn [fst] in IHp. subst rin.
    cbn [fst opts_off o_zone o_index o_range andb]. reflexivity.
  - rewrite IHp; reflexivity.
  - rewrite IHp; reflexivity.
  - rewrite IHp; reflexivity.
  - rewrite IHp; reflexivity.
  - rewrite IHp; reflexivity.
  - rewrite IHp; reflexivity.
  - destruct (runc opts_off st p) as [rin cin] eqn:E. cbn [fst] in IHp. subst rin.
    cbn [fst]. destruct cin; [destruct group_by|]; reflexivity.
Qed.

Lemma run_off_sem_ops : forall st p, run opts_off st p = sem_ops st p.
Proof. intros; apply runc_off_fst. Qed.


Section GraphOnly.
  Variables (n : list node) (e : list edge) (i i' : list string) (z z' : list (string * zcol)).
  Let s1 := mkStore n e i z.
  Let s2 := mkStore n e i' z'.
  Lemma go_neighbors : forall ci x d ty, neighbors s1 ci x d ty = neighbors s2 ci x d ty.
  Proof. reflexivity. Qed.
  Lemma go_bfs : forall ci d ty minh maxh fuel q,
    bfs s1 ci d ty minh maxh fuel q = bfs s2 ci d ty minh maxh fuel q.
  Proof.
    induction fuel as [|f IH]; intros q; cbn [bfs]; [reflexivity|].
    destruct q as [|[[x dep] ed] rest]; [reflexivity|].
    rewrite IH, go_neighbors. reflexivity.
  Qed.
  Lemma go_walk_count : forall ci d ty k x, walk_count s1 ci d ty k x = walk_count s2 ci d ty k x.
  Proof.
    induction k as [|k IH]; intros x; cbn [walk_count]; [reflexivity|].
    rewrite go_neighbors. f_equal.
    induction (neighbors s2 ci x d ty) as [|a l IHl]; cbn [fold_right]; [reflexivity|].
    rewrite IH, IHl. reflexivity.
  Qed.
  Lemma go_vle_from : forall ci d ty minh maxh x,
    vle_from s1 ci d ty minh maxh x = vle_from s2 ci d ty minh maxh x.
  Proof.
    intros. unfold vle_from, vle_fuel. rewrite go_bfs, go_neighbors. do 2 f_equal.
    induction (neighbors s2 ci x d ty) as [|a l IHl]; cbn [fold_right]; [reflexivity|].
    rewrite go_walk_count, IHl. reflexivity.
  Qed.
  Lemma go_vle_rows : forall ci cs from d ty minh maxh rs,
    vle_rows s1 ci cs from d ty minh maxh rs = vle_rows s2 ci cs from d ty minh maxh rs.
  Proof.
    intros. unfold vle_rows.
    induction rs as [|r rs IH]; cbn [rmapM]; [reflexivity|].
    rewrite IH. destruct (src_of cs from r) as [x|]; cbn [rbind]; [|reflexivity].
    rewrite go_vle_from. reflexivity.
  Qed.
  Lemma go_sem_ops : forall p, sem_ops s1 p = sem_ops s2 p.
  Proof.
    induction p; cbn [sem_ops]; rewrite ?IHp; try reflexivity.
    destruct (sem_ops s2 p) as [t|]; [|reflexivity]. cbn [rbind].
    destruct (of_opt (pos_first from (cols t))); [|reflexivity]. cbn [rbind].
    destruct (is_single_hop minh maxh); [reflexivity|].
    rewrite go_vle_rows. reflexivity.
  Qed.
End GraphOnly.

Lemma sem_ops_graph_only : forall st st' p,
  nodes st = nodes st' -> edges st = edges st' -> sem_ops st p = sem_ops st' p.
Proof.
  intros [n e i z] [n' e' i' z'] p Hn He. cbn [nodes edges] in Hn, He. subst n' e'.
  apply go_sem_ops.
Qed.


Section CacheProofs.
  Variable text : Type.
  Variable text_eqb : text -> text -> bool.
  Hypothesis text_eqb_eq : forall a b, text_eqb a b = true <-> a = b.
  Variable stats : Type.
  Variable compile : text -> stats -> option lop.
  Variable stats_of : store -> stats.
  Variable o : opts.
  Hypothesis stable : compile_stable text stats compile o.

  Lemma exec_sound : forall c st t,
    cache_sound text text_eqb stats compile c ->
    cache_sound text text_eqb stats compile (snd (exec text text_eqb stats compile stats_of o c st t)) /\
    fst (exec text text_eqb stats compile stats_of o c st t) =
      match compile t (stats_of st) with Some p => run o st p | None => Err end.
  Proof.
    intros c st t Hc. unfold exec.
    destruct (cache_get text text_eqb c t) as [p|] eqn:Eg.
    - cbn [fst snd]. split; [exact Hc|].
      destruct (Hc t p Eg) as [s Hs].
      pose proof (stable t s (stats_of st)) as Hst. rewrite Hs in Hst.
      destruct (compile t (stats_of st)) as [p2|]; [apply Hst|contradiction].
    - destruct (compile t (stats_of st)) as [p|] eqn:Ec; cbn [fst snd].
      + split; [|reflexivity].
        intros t' p' Hg. cbn [cache_get] in Hg.
        destruct (text_eqb t' t) eqn:Et.
        * apply text_eqb_eq in Et. subst t'. injection Hg as <-. exists (stats_of st). exact Ec.
        * apply Hc. exact Hg.
      + split; [exact Hc|reflexivity].
  Qed.

  Theorem cache_transparent_l : forall h c st,
    cache_sound text text_eqb stats compile c ->
    fst (fst (replay text text_eqb stats compile stats_of o c st h)) =
    replay_fresh text stats compile stats_of o st h.
  Proof.
    induction h as [|ev r IH]; intros c st Hc; [reflexivity|].
    destruct ev as [f|t]; cbn [replay replay_fresh].
    - apply IH. exact Hc.
    - destruct (exec_sound c st t Hc) as [Hs Ho].
      destruct (exec text text_eqb stats compile stats_of o c st t) as [out c'] eqn:Ee.
      cbn [fst snd] in Hs, Ho.
      specialize (IH c' st Hs).
      destruct (replay text text_eqb stats compile stats_of o c' st r) as [[outs c''] st'].
      cbn [fst] in IH |- *. rewrite IH, Ho. reflexivity.
  Qed.
End CacheProofs.

From Coq Require OrderedTypeEx.

(** * (4) Zone maps *)

(** ** order facts on normal-form values *)
Lemma val_ok_flt : forall n d, val_ok (VFlt n d) = true -> 0 < d.
Proof.
  intros n d H. cbn [val_ok] in H. apply andb_true_iff in H. destruct H as [H _].
  apply Z.ltb_lt in H. exact H.
Qed.

Definition frac (v : val) : option (Z * Z) :=
  match v with VInt x => Some (x, 1) | VFlt n d => Some (n, d) | _ => None end.

Lemma frac_pos : forall v n d, val_ok v = true -> frac v = Some (n, d) -> 0 < d.
Proof.
  intros v n d Hok Hf. destruct v; cbn [frac] in Hf; try discriminate; injection Hf as <- <-.
  - lia.
  - eapply val_ok_flt; eassumption.
Qed.

Lemma zcmp_num : forall a b n1 d1 n2 d2,
  frac a = Some (n1, d1) -> frac b = Some (n2, d2) -> zcmp a b = Some (n1 * d2 ?= n2 * d1).
Proof.
  intros a b n1 d1 n2 d2 Fa Fb.
  destruct a; cbn [frac] in Fa; try discriminate; injection Fa as <- <-;
  destruct b; cbn [frac] in Fb; try discriminate; injection Fb as <- <-;
  cbn [zcmp fcmp]; rewrite ?Z.mul_1_r; reflexivity.
Qed.

Lemma zcmp_cases : forall a b c, zcmp a b = Some c ->
  (exists n1 d1 n2 d2, frac a = Some (n1, d1) /\ frac b = Some (n2, d2) /\ c = (n1 * d2 ?= n2 * d1)) \/
  (exists s t, a = VStr s /\ b = VStr t /\ c = String.compare s t) \/
  (exists x y, a = VBool x /\ b = VBool y /\ c = bool_cmp x y).
Proof.
  intros a b c H.
  destruct a as [|x|x|n d|s|l], b as [|y|y|m e|t|l']; cbn [zcmp fcmp] in H; try discriminate;
    injection H as <-.
  - right; right. exists x, y. auto.
  - left. exists x, 1, y, 1. cbn [frac]. rewrite !Z.mul_1_r. auto.
  - left. exists x, 1, m, e. cbn [frac]. rewrite !Z.mul_1_r. auto.
  - left. exists n, d, y, 1. cbn [frac]. rewrite !Z.mul_1_r. auto.
  - left. exists n, d, m, e. cbn [frac]. auto.
  - right; left. exists s, t. auto.
Qed.

Lemma zcmp_frac_none : forall a b n d, frac a = None -> frac b = Some (n, d) -> zcmp a b = None.
Proof.
  intros a b n d Fa Fb.
  destruct a; cbn [frac] in Fa; try discriminate; destruct b; cbn [frac] in Fb; try discriminate; reflexivity.
Qed.

Lemma frac_cmp_trans_lt : forall n1 d1 n2 d2 n3 d3, 0 < d1 -> 0 < d2 -> 0 < d3 ->
  (n1 * d2 ?= n2 * d1) = Lt -> (n2 * d3 ?= n3 * d2) = Lt -> (n1 * d3 ?= n3 * d1) = Lt.
Proof.
  intros n1 d1 n2 d2 n3 d3 H1 H2 H3 A B. rewrite Z.compare_lt_iff in *. nia.
Qed.

Lemma frac_cmp_eq_r : forall n1 d1 n2 d2 n3 d3, 0 < d1 -> 0 < d2 -> 0 < d3 ->
  (n2 * d3 ?= n3 * d2) = Eq -> (n1 * d2 ?= n2 * d1) = (n1 * d3 ?= n3 * d1).
Proof.
  intros n1 d1 n2 d2 n3 d3 H1 H2 H3 A. apply Z.compare_eq_iff in A.
  rewrite (Zmult_compare_compat_r (n1 * d2) (n2 * d1) d3) by lia.
  rewrite (Zmult_compare_compat_r (n1 * d3) (n3 * d1) d2) by lia.
  f_equal; [ring|].
  replace (n2 * d1 * d3) with (n2 * d3 * d1) by ring. rewrite A. ring.
Qed.

Lemma str_cmp_trans_lt : forall s t u,
  String.compare s t = Lt -> String.compare t u = Lt -> String.compare s u = Lt.
Proof.
  intros s t u A B.
  change (OrderedTypeEx.String_as_OT.cmp s u = Lt).
  apply OrderedTypeEx.String_as_OT.cmp_lt.
  eapply OrderedTypeEx.String_as_OT.lt_trans; apply OrderedTypeEx.String_as_OT.cmp_lt; eassumption.
Qed.

Lemma zcmp_antisym : forall a b, zcmp a b = option_map CompOpp (zcmp b a).
Proof.
  intros a b.
  destruct a as [|x|x|n d|s|l], b as [|y|y|m e|t|l']; cbn [zcmp fcmp option_map]; try reflexivity;
    f_equal.
  - destruct x, y; reflexivity.
  - apply Z.compare_antisym.
  - apply Z.compare_antisym.
  - apply Z.compare_antisym.
  - apply Z.compare_antisym.
  - apply String.compare_antisym.
Qed.

Lemma zcmp_flip : forall a b c, zcmp a b = Some c -> zcmp b a = Some (CompOpp c).
Proof. intros a b c H. rewrite zcmp_antisym, H. reflexivity. Qed.

Lemma zcmp_irrefl : forall a, zcmp a a <> Some Lt.
Proof. intros a H. pose proof (zcmp_flip _ _ _ H) as H'. rewrite H in H'. discriminate. Qed.

Lemma zcmp_irrefl_gt : forall a, zcmp a a <> Some Gt.
Proof. intros a H. pose proof (zcmp_flip _ _ _ H) as H'. rewrite H in H'. discriminate. Qed.

Lemma zcmp_trans_lt : forall a b c, val_ok a = true -> val_ok b = true -> val_ok c = true ->
  zcmp a b = Some Lt -> zcmp b c = Some Lt -> zcmp a c = Some Lt.
Proof.
  intros a b c Ha Hb Hc H1 H2.
  destruct (zcmp_cases _ _ _ H1) as [(n1&d1&n2&d2&F1&F2&E1)|[(s&t&Ea&Eb&E1)|(x&y&Ea&Eb&E1)]];
  destruct (zcmp_cases _ _ _ H2) as [(n2'&d2'&n3&d3&F2'&F3&E2)|[(t'&u&Eb'&Ec&E2)|(y'&w&Eb'&Ec&E2)]];
  subst; cbn [frac] in *; try discriminate.
  - rewrite F2 in F2'. injection F2' as <- <-.
    rewrite (zcmp_num _ _ _ _ _ _ F1 F3). f_equal.
    eapply frac_cmp_trans_lt; [eapply frac_pos; [exact Ha|exact F1] | eapply frac_pos; [exact Hb|exact F2]
                              | eapply frac_pos; [exact Hc|exact F3] | symmetry; exact E1 | symmetry; exact E2].
  - injection Eb' as <-. cbn [zcmp fcmp]. f_equal. eapply str_cmp_trans_lt; symmetry; eassumption.
  - injection Eb' as <-. cbn [zcmp]. f_equal. destruct x, y, w; cbn in *; congruence.
Qed.

Lemma zcmp_trans_gt : forall a b c, val_ok a = true -> val_ok b = true -> val_ok c = true ->
  zcmp a b = Some Gt -> zcmp b c = Some Gt -> zcmp a c = Some Gt.
Proof.
  intros a b c Ha Hb Hc H1 H2.
  apply zcmp_flip in H1, H2. cbn [CompOpp] in H1, H2.
  pose proof (zcmp_trans_lt _ _ _ Hc Hb Ha H2 H1) as H3.
  apply zcmp_flip in H3. exact H3.
Qed.

Lemma zcmp_eq_r : forall a b c, val_ok a = true -> val_ok b = true -> val_ok c = true ->
  zcmp b c = Some Eq -> zcmp a b = zcmp a c.
Proof.
  intros a b c Ha Hb Hc H.
  destruct (zcmp_cases _ _ _ H) as [(n2&d2&n3&d3&F2&F3&E)|[(t&u&Eb&Ec&E)|(y&w&Eb&Ec&E)]].
  - destruct (frac a) as [[n1 d1]|] eqn:F1.
    + rewrite (zcmp_num _ _ _ _ _ _ F1 F2), (zcmp_num _ _ _ _ _ _ F1 F3). f_equal.
      apply frac_cmp_eq_r; [eapply frac_pos; [exact Ha|exact F1] | eapply frac_pos; [exact Hb|exact F2]
                           | eapply frac_pos; [exact Hc|exact F3] | symmetry; exact E].
    + rewrite (zcmp_frac_none _ _ _ _ F1 F2), (zcmp_frac_none _ _ _ _ F1 F3). reflexivity.
  - subst b c. symmetry in E. apply String.compare_eq_iff in E. subst u. reflexivity.
  - subst b c. destruct y, w; cbn in E; try discriminate; reflexivity.
Qed.

Lemma zcmp_eq_l : forall a b c, val_ok a = true -> val_ok b = true -> val_ok c = true ->
  zcmp a b = Some Eq -> zcmp a c = zcmp b c.
Proof.
  intros a b c Ha Hb Hc H.
  rewrite (zcmp_antisym a c), (zcmp_antisym b c). f_equal.
  apply zcmp_eq_r; assumption.
Qed.

Lemma zcmp_eq_feq : forall a b, zcmp a b = Some Eq -> feq a b = true.
Proof.
  intros a b H.
  destruct a as [|x|x|n d|s|l], b as [|y|y|m e|t|l']; cbn [zcmp fcmp] in H; try discriminate;
    injection H as H; cbn [feq].
  - destruct x, y; cbn in *; congruence.
  - apply Z.eqb_eq, Z.compare_eq_iff, H.
  - apply Z.eqb_eq, Z.compare_eq_iff, H.
  - apply Z.eqb_eq, Z.compare_eq_iff, H.
  - apply Z.eqb_eq, Z.compare_eq_iff, H.
  - apply String.compare_eq_iff in H. subst t. apply String.eqb_refl.
Qed.

Definition isnull (v : val) : bool := match v with VNull => true | _ => false end.

Lemma feq_zcmp_eq : forall a b, feq a b = true -> isnull a = false -> zcmp a b = Some Eq.
Proof.
  intros a b H Hn.
  destruct a as [|x|x|n d|s|l], b as [|y|y|m e|t|l']; cbn [feq isnull] in H, Hn; try discriminate;
    cbn [zcmp fcmp]; f_equal.
  - destruct x, y; cbn in *; congruence.
  - apply Z.compare_eq_iff, Z.eqb_eq, H.
  - apply Z.compare_eq_iff, Z.eqb_eq, H.
  - apply Z.compare_eq_iff, Z.eqb_eq, H.
  - apply Z.compare_eq_iff, Z.eqb_eq, H.
  - apply String.eqb_eq in H. subst t.
    destruct (String.compare s s) eqn:E; [reflexivity| |];
      pose proof (String.compare_antisym s s) as A; rewrite E in A; discriminate.
Qed.

Lemma feq_null_l : forall a b, feq a b = true -> isnull b = false -> isnull a = false.
Proof. intros a b H Hn. destruct a; try reflexivity. destruct b; cbn in *; congruence. Qed.

Lemma fcmp_zcmp : forall a b c, fcmp a b = Some c -> zcmp a b = Some c.
Proof. intros a b c H. destruct a, b; cbn [zcmp fcmp] in *; congruence. Qed.

Lemma zcmp_null_l : forall b, zcmp VNull b = None.
Proof. reflexivity. Qed.

Lemma zcmp_some_nonnull : forall a b c, zcmp a b = Some c -> isnull a = false.
Proof. intros a b c H. destruct a; try reflexivity. discriminate. Qed.

Lemma feq_sym : forall a b, feq a b = feq b a.
Proof.
  intros a b.
  destruct a as [|x|x|n d|s|l], b as [|y|y|m e|t|l']; cbn [feq]; try reflexivity.
  - destruct x, y; reflexivity.
  - apply Z.eqb_sym.
  - apply Z.eqb_sym.
  - apply Z.eqb_sym.
  - apply Z.eqb_sym.
  - apply String.eqb_sym.
Qed.

Lemma fcmp_antisym : forall a b, fcmp a b = option_map CompOpp (fcmp b a).
Proof.
  intros a b.
  destruct a as [|x|x|n d|s|l], b as [|y|y|m e|t|l']; cbn [fcmp option_map]; try reflexivity;
    f_equal; try apply Z.compare_antisym.
  apply String.compare_antisym.
Qed.

Lemma cmp_result_flip : forall op a b, cmp_result op a b = cmp_result (flip_op op) b a.
Proof.
  intros op a b. destruct op; cbn [cmp_result flip_op]; rewrite ?(feq_sym a b); try reflexivity;
    rewrite (fcmp_antisym a b); destruct (fcmp b a) as [[]|]; reflexivity.
Qed.

(** ** the invariant of [zone_of] *)
Record zinv (z : zentry) (h : list val) : Prop := mkZinv {
  zi_rows : zrows z = List.length h;
  zi_null : znull z = List.length (filter isnull h);
  zi_min_some : forall v, List.In v h -> isnull v = false -> zmin z <> None;
  zi_max_some : forall v, List.In v h -> isnull v = false -> zmax z <> None;
  zi_min : forall mn, zmin z = Some mn -> List.In mn h /\ forall v, List.In v h -> zcmp v mn <> Some Lt;
  zi_max : forall mx, zmax z = Some mx -> List.In mx h /\ forall v, List.In v h -> zcmp v mx <> Some Gt }.

Lemma zone_insert_nonnull : forall z v, isnull v = false ->
  zone_insert z v =
  mkZ (match zmin z with None => Some v | Some c => match zcmp v c with Some Lt => Some v | _ => Some c end end)
      (match zmax z with None => Some v | Some c => match zcmp v c with Some Gt => Some v | _ => Some c end end)
      (znull z) (S (zrows z)).
Proof. intros z v H. destruct v; try reflexivity. discriminate. Qed.

Lemma isnull_true : forall v, isnull v = true -> v = VNull.
Proof. intros v H. destruct v; try discriminate. reflexivity. Qed.

Lemma zinv_insert : forall z h v,
  Forall (fun v => val_ok v = true) (h ++ [v]) -> zinv z h -> zinv (zone_insert z v) (h ++ [v]).
Proof.
  intros z h v Hok [Hr Hn Hmns Hmxs Hmn Hmx].
  rewrite Forall_forall in Hok.
  assert (Hokh : forall u, List.In u h -> val_ok u = true) by (intros u Hu; apply Hok, in_or_app; auto).
  assert (Hokv : val_ok v = true) by (apply Hok, in_or_app; right; left; reflexivity).
  destruct (isnull v) eqn:Nv.
  - apply isnull_true in Nv. subst v. cbn [zone_insert].
    constructor; cbn [zrows znull zmin zmax].
    + rewrite app_length. cbn [List.length]. lia.
    + rewrite filter_app, app_length. cbn [filter isnull List.length]. lia.
    + intros u Hu Hnu. apply in_app_or in Hu. destruct Hu as [Hu|[<-|[]]]; [eauto|discriminate].
    + intros u Hu Hnu. apply in_app_or in Hu. destruct Hu as [Hu|[<-|[]]]; [eauto|discriminate].
    + intros mn Em. destruct (Hmn mn Em) as [Hi Hall]. split; [apply in_or_app; auto|].
      intros u Hu. apply in_app_or in Hu. destruct Hu as [Hu|[<-|[]]]; [auto|discriminate].
    + intros mx Em. destruct (Hmx mx Em) as [Hi Hall]. split; [apply in_or_app; auto|].
      intros u Hu. apply in_app_or in Hu. destruct Hu as [Hu|[<-|[]]]; [auto|discriminate].
  - rewrite (zone_insert_nonnull z v Nv).
    constructor; cbn [zrows znull zmin zmax].
    + rewrite app_length. cbn [List.length]. lia.
    + rewrite filter_app, app_length. cbn [filter]. rewrite Nv. cbn [List.length]. lia.
    + intros u Hu Hnu. destruct (zmin z) as [c|]; [destruct (zcmp v c) as [[]|]|]; discriminate.
    + intros u Hu Hnu. destruct (zmax z) as [c|]; [destruct (zcmp v c) as [[]|]|]; discriminate.
    + intros mn Em.
      destruct (zmin z) as [c|] eqn:Ez.
      * destruct (Hmn c eq_refl) as [Hi Hall].
        assert (Hcase : (zcmp v c = Some Lt /\ mn = v) \/ (zcmp v c <> Some Lt /\ mn = c)).
        { destruct (zcmp v c) as [[]|]; injection Em as <-; auto; right; split; auto; discriminate. }
        destruct Hcase as [[Hlt ->]|[Hnlt ->]].
        -- split; [apply in_or_app; right; left; reflexivity|].
           intros u Hu. apply in_app_or in Hu. destruct Hu as [Hu|[<-|[]]]; [|apply zcmp_irrefl].
           intros Hc. apply (Hall u Hu). eapply zcmp_trans_lt; eauto.
        -- split; [apply in_or_app; auto|].
           intros u Hu. apply in_app_or in Hu. destruct Hu as [Hu|[<-|[]]]; auto.
      * injection Em as <-. split; [apply in_or_app; right; left; reflexivity|].
        intros u Hu. apply in_app_or in Hu. destruct Hu as [Hu|[<-|[]]]; [|apply zcmp_irrefl].
        destruct (isnull u) eqn:Nu; [apply isnull_true in Nu; subst u; discriminate|].
        exfalso. exact (Hmns u Hu Nu eq_refl).
    + intros mx Em.
      destruct (zmax z) as [c|] eqn:Ez.
      * destruct (Hmx c eq_refl) as [Hi Hall].
        assert (Hcase : (zcmp v c = Some Gt /\ mx = v) \/ (zcmp v c <> Some Gt /\ mx = c)).
        { destruct (zcmp v c) as [[]|]; injection Em as <-; auto; right; split; auto; discriminate. }
        destruct Hcase as [[Hgt ->]|[Hngt ->]].
        -- split; [apply in_or_app; right; left; reflexivity|].
           intros u Hu. apply in_app_or in Hu. destruct Hu as [Hu|[<-|[]]]; [|apply zcmp_irrefl_gt].
           intros Hc. apply (Hall u Hu). eapply zcmp_trans_gt; eauto.
        -- split; [apply in_or_app; auto|].
           intros u Hu. apply in_app_or in Hu. destruct Hu as [Hu|[<-|[]]]; auto.
      * injection Em as <-. split; [apply in_or_app; right; left; reflexivity|].
        intros u Hu. apply in_app_or in Hu. destruct Hu as [Hu|[<-|[]]]; [|apply zcmp_irrefl_gt].
        destruct (isnull u) eqn:Nu; [apply isnull_true in Nu; subst u; discriminate|].
        exfalso. exact (Hmxs u Hu Nu eq_refl).
Qed.

Lemma zinv_fold : forall h2 h1 z, zinv z h1 -> Forall (fun v => val_ok v = true) (h1 ++ h2) ->
  zinv (fold_left zone_insert h2 z) (h1 ++ h2).
Proof.
  induction h2 as [|v h2 IH]; intros h1 z Hz Hok.
  - rewrite app_nil_r. exact Hz.
  - cbn [fold_left].
    replace (h1 ++ v :: h2) with ((h1 ++ [v]) ++ h2) in * by (rewrite <- app_assoc; reflexivity).
    apply IH; [|exact Hok].
    apply zinv_insert; [|exact Hz].
    rewrite Forall_forall in *. intros u Hu. apply Hok. apply in_or_app. auto.
Qed.

Lemma zinv_zone_of : forall h, Forall (fun v => val_ok v = true) h -> zinv (zone_of h) h.
Proof.
  intros h Hok. unfold zone_of. apply (zinv_fold h [] zempty); [|exact Hok].
  constructor; cbn; try reflexivity; try contradiction; discriminate.
Qed.

Lemma filter_length_le' : forall {A} (f : A -> bool) l, (List.length (filter f l) <= List.length l)%nat.
Proof.
  intros A f l. induction l as [|a l IH]; cbn [filter List.length]; [lia|].
  destruct (f a); cbn [List.length]; lia.
Qed.

Lemma filter_length_all : forall {A} (f : A -> bool) l,
  List.length (filter f l) = List.length l -> forall x, List.In x l -> f x = true.
Proof.
  intros A f l. induction l as [|a l IH]; intros H x Hx; [contradiction|].
  cbn [filter] in H. pose proof (filter_length_le' f l) as Hle.
  destruct (f a) eqn:Fa; cbn [List.length] in H.
  - destruct Hx as [<-|Hx]; [exact Fa|]. apply IH; [lia|exact Hx].
  - lia.
Qed.

(** ** pruning on one column *)
Lemma col_prune_sound : forall c op v v',
  Forall (fun v => val_ok v = true) (zhist c) -> val_ok v = true -> List.In v' (zhist c) ->
  col_might_match c op v = false ->
  cmp_result op v' v <> Some (VBool true).
Proof.
  intros c op v v' Hok Hv Hin Hm.
  unfold col_might_match in Hm. destruct (zdirty c); [discriminate|].
  pose proof (zinv_zone_of _ Hok) as [Hr Hn Hmns Hmxs Hmn Hmx].
  rewrite Forall_forall in Hok. pose proof (Hok v' Hin) as Hv'.
  set (z := zone_of (zhist c)) in *.
  destruct op; cbn [cmp_result]; intros E.
  - (* = *)
    injection E as E. unfold z_eq in Hm.
    destruct (isnull v) eqn:Nv.
    + apply isnull_true in Nv. subst v.
      assert (v' = VNull) by (destruct v'; cbn in E; try discriminate; reflexivity). subst v'.
      apply Nat.ltb_ge in Hm.
      assert (Hf : List.In VNull (filter isnull (zhist c))) by (apply filter_In; auto).
      destruct (filter isnull (zhist c)); [contradiction|]. cbn [List.length] in Hn. lia.
    + pose proof (feq_null_l _ _ E Nv) as Nv'.
      assert (Hm' : (if z_all_null z then false else
                     match zmin z, zmax z with
                     | Some mn, Some mx => match zcmp v mn, zcmp v mx with
                                           | Some Lt, _ => false | _, Some Gt => false | _, _ => true end
                     | _, _ => z_non_null z end) = false).
      { destruct v; try exact Hm. discriminate. }
      clear Hm.
      destruct (z_all_null z) eqn:Ean.
      * unfold z_all_null in Ean. apply andb_true_iff in Ean. destruct Ean as [_ Ean].
        apply Nat.eqb_eq in Ean.
        assert (isnull v' = true) by (apply (filter_length_all isnull (zhist c)); [lia|exact Hin]).
        congruence.
      * pose proof (Hmns v' Hin Nv') as Hs1. pose proof (Hmxs v' Hin Nv') as Hs2.
        destruct (zmin z) as [mn|] eqn:Emn; [|congruence].
        destruct (zmax z) as [mx|] eqn:Emx; [|congruence].
        destruct (Hmn mn eq_refl) as [Hi1 Ha1]. destruct (Hmx mx eq_refl) as [Hi2 Ha2].
        pose proof (feq_zcmp_eq _ _ E Nv') as Heq.
        pose proof (Ha1 v' Hin) as N1. pose proof (Ha2 v' Hin) as N2.
        rewrite (zcmp_eq_l v' v mn Hv' Hv (Hok mn Hi1) Heq) in N1.
        rewrite (zcmp_eq_l v' v mx Hv' Hv (Hok mx Hi2) Heq) in N2.
        destruct (zcmp v mn) as [[]|]; destruct (zcmp v mx) as [[]|]; congruence.
  - (* <> : never pruned since 1879631 *)
    discriminate Hm.
  - (* < *)
    assert (C : fcmp v' v = Some Lt) by (destruct (fcmp v' v) as [[]|]; cbn in E; congruence).
    apply fcmp_zcmp in C. pose proof (zcmp_some_nonnull _ _ _ C) as Nv'.
    pose proof (Hmns v' Hin Nv') as Hs1. unfold z_lt in Hm.
    destruct (zmin z) as [mn|] eqn:Emn; [|congruence].
    destruct (Hmn mn eq_refl) as [Hi1 Ha1]. apply (Ha1 v' Hin).
    destruct (zcmp mn v) as [[]|] eqn:C1; try discriminate.
    + rewrite (zcmp_eq_r v' mn v Hv' (Hok mn Hi1) Hv C1). exact C.
    + apply zcmp_flip in C1. cbn [CompOpp] in C1.
      exact (zcmp_trans_lt _ _ _ Hv' Hv (Hok mn Hi1) C C1).
  - (* <= *)
    assert (C : fcmp v' v = Some Lt \/ fcmp v' v = Some Eq) by (destruct (fcmp v' v) as [[]|]; cbn in E; auto; congruence).
    assert (C' : zcmp v' v = Some Lt \/ zcmp v' v = Some Eq) by (destruct C as [C|C]; apply fcmp_zcmp in C; auto).
    clear C.
    assert (Nv' : isnull v' = false) by (destruct C' as [C|C]; exact (zcmp_some_nonnull _ _ _ C)).
    pose proof (Hmns v' Hin Nv') as Hs1. unfold z_lt in Hm.
    destruct (zmin z) as [mn|] eqn:Emn; [|congruence].
    destruct (Hmn mn eq_refl) as [Hi1 Ha1]. apply (Ha1 v' Hin).
    destruct (zcmp mn v) as [[]|] eqn:C1; try discriminate.
    apply zcmp_flip in C1. cbn [CompOpp] in C1.
    destruct C' as [C|C].
    + exact (zcmp_trans_lt _ _ _ Hv' Hv (Hok mn Hi1) C C1).
    + rewrite (zcmp_eq_l v' v mn Hv' Hv (Hok mn Hi1) C). exact C1.
  - (* > *)
    assert (C : fcmp v' v = Some Gt) by (destruct (fcmp v' v) as [[]|]; cbn in E; congruence).
    apply fcmp_zcmp in C. pose proof (zcmp_some_nonnull _ _ _ C) as Nv'.
    pose proof (Hmxs v' Hin Nv') as Hs1. unfold z_gt in Hm.
    destruct (zmax z) as [mx|] eqn:Emx; [|congruence].
    destruct (Hmx mx eq_refl) as [Hi1 Ha1]. apply (Ha1 v' Hin).
    destruct (zcmp mx v) as [[]|] eqn:C1; try discriminate.
    + rewrite (zcmp_eq_r v' mx v Hv' (Hok mx Hi1) Hv C1). exact C.
    + apply zcmp_flip in C1. cbn [CompOpp] in C1.
      exact (zcmp_trans_gt _ _ _ Hv' Hv (Hok mx Hi1) C C1).
  - (* >= *)
    assert (C : fcmp v' v = Some Gt \/ fcmp v' v = Some Eq) by (destruct (fcmp v' v) as [[]|]; cbn in E; auto; congruence).
    assert (C' : zcmp v' v = Some Gt \/ zcmp v' v = Some Eq) by (destruct C as [C|C]; apply fcmp_zcmp in C; auto).
    clear C.
    assert (Nv' : isnull v' = false) by (destruct C' as [C|C]; exact (zcmp_some_nonnull _ _ _ C)).
    pose proof (Hmxs v' Hin Nv') as Hs1. unfold z_gt in Hm.
    destruct (zmax z) as [mx|] eqn:Emx; [|congruence].
    destruct (Hmx mx eq_refl) as [Hi1 Ha1]. apply (Ha1 v' Hin).
    destruct (zcmp mx v) as [[]|] eqn:C1; try discriminate.
    apply zcmp_flip in C1. cbn [CompOpp] in C1.
    destruct C' as [C|C].
    + exact (zcmp_trans_gt _ _ _ Hv' Hv (Hok mx Hi1) C C1).
    + rewrite (zcmp_eq_l v' v mx Hv' Hv (Hok mx Hi1) C). exact C1.
Qed.

(** ** the theorem *)
Definition reads_node (st : store) (c : cell) : Prop :=
  forall k v, fprop st c k = Some v -> exists n, List.In n (nodes st) /\ lookup k (nprops n) = Some v.

Lemma zone_ne_odd_app : forall st a b,
  existsb (fun kv => match lookup (fst kv) (zcols st) with
                     | Some c => existsb (fun v' => match zcmp v' (snd kv) with None => true | Some _ => false end) (zhist c)
                     | None => false end) (ne_leaves a ++ ne_leaves b) = false ->
  zone_ne_odd st a = false /\ zone_ne_odd st b = false.
Proof. intros st a b H. rewrite existsb_app in H. apply orb_false_iff in H. exact H. Qed.

Lemma leaf_prune : forall st op k v v' (x : string) c,
  zone_ok st -> val_ok v = true ->
  node_might_match st k op v = false ->
  reads_node st c -> fprop st c k = Some v' ->
  cmp_result op v' v <> Some (VBool true).
Proof.
  intros st op k v v' x c Hz Hv Hm Hrd Hf.
  unfold node_might_match in Hm.
  destruct (lookup k (zcols st)) as [zc|] eqn:El; [|discriminate].
  destruct (Hz k zc El) as [Hok Hcov].
  destruct (Hrd k v' Hf) as (n & Hn & Hl).
  apply (col_prune_sound zc op v v' Hok Hv (Hcov n v' Hn Hl) Hm).
Qed.

Lemma zone_prune_eval : forall st cs r e,
  zone_ok st ->
  (forall x c, List.In x (expr_props e) -> row_look cs r x = Some c -> reads_node st c) ->
  lits_ok e = true -> zone_check st e = Some false ->
  eval (row_look cs r) cell_val (fprop st) (cell_labels st) e <> Some (VBool true).
Proof.
  intros st cs r e Hz. induction e as [v|y|y k|op a IHa b IHb|a IHa b IHb|a IHa b IHb|a IHa|a IHa|a IHa|y l|l y];
    intros Hrd Hl Hc; cbn [zone_check] in Hc; try discriminate.
  - (* ECmp *)
    destruct a as [va|ya|xa ka|? ? ?|? ?|? ?|?|?|?|? ?|? ?]; try discriminate;
    destruct b as [vb|yb|xb kb|? ? ?|? ?|? ?|?|?|?|? ?|? ?]; try discriminate.
    + (* lit op prop *)
      injection Hc as Hc. cbn [lits_ok] in Hl. apply andb_true_iff in Hl. destruct Hl as [Hl _].
      cbn [eval obind].
      destruct (row_look cs r xb) as [c|] eqn:Ec; cbn [obind]; [|discriminate].
      destruct (fprop st c kb) as [v'|] eqn:Ef; cbn [obind]; [|discriminate].
      rewrite cmp_result_flip.
      apply (leaf_prune st (flip_op op) kb va v' xb c Hz Hl Hc); [|exact Ef].
      apply (Hrd xb c); [cbn; auto|exact Ec].
    + (* prop op lit *)
      injection Hc as Hc. cbn [lits_ok] in Hl. apply andb_true_iff in Hl. destruct Hl as [_ Hl].
      cbn [eval obind].
      destruct (row_look cs r xa) as [c|] eqn:Ec; cbn [obind]; [|discriminate].
      destruct (fprop st c ka) as [v'|] eqn:Ef; cbn [obind]; [|discriminate].
      apply (leaf_prune st op ka vb v' xa c Hz Hl Hc); [|exact Ef].
      apply (Hrd xa c); [cbn; auto|exact Ec].
  - (* EAnd *)
    cbn [lits_ok] in Hl. apply andb_true_iff in Hl. destruct Hl as [Hla Hlb].
    cbn [expr_props] in Hrd.
    assert (Hra : forall x c, List.In x (expr_props a) -> row_look cs r x = Some c -> reads_node st c)
      by (intros x c Hx; apply Hrd, in_or_app; auto).
    assert (Hrb : forall x c, List.In x (expr_props b) -> row_look cs r x = Some c -> reads_node st c)
      by (intros x c Hx; apply Hrd, in_or_app; auto).
    specialize (IHa Hra Hla). specialize (IHb Hrb Hlb).
    cbn [eval]. intros Hev.
    destruct (eval (row_look cs r) cell_val (fprop st) (cell_labels st) a) as [va|]; cbn [obind] in Hev; [|discriminate].
    destruct (eval (row_look cs r) cell_val (fprop st) (cell_labels st) b) as [vb|]; cbn [obind] in Hev; [|discriminate].
    destruct va as [|xa| | | |]; cbn [as_bool obind] in Hev; try discriminate.
    destruct vb as [|xb| | | |]; cbn [as_bool obind] in Hev; try discriminate.
    injection Hev as Hev. apply andb_true_iff in Hev. destruct Hev as [-> ->].
    destruct (zone_check st a) as [[]|]; destruct (zone_check st b) as [[]|]; try discriminate;
      try (apply IHa; auto; fail); try (apply IHb; auto; fail).
  - (* EOr *)
    cbn [lits_ok] in Hl. apply andb_true_iff in Hl. destruct Hl as [Hla Hlb].
    cbn [expr_props] in Hrd.
    assert (Hra : forall x c, List.In x (expr_props a) -> row_look cs r x = Some c -> reads_node st c)
      by (intros x c Hx; apply Hrd, in_or_app; auto).
    assert (Hrb : forall x c, List.In x (expr_props b) -> row_look cs r x = Some c -> reads_node st c)
      by (intros x c Hx; apply Hrd, in_or_app; auto).
    specialize (IHa Hra Hla). specialize (IHb Hrb Hlb).
    cbn [eval]. intros Hev.
    destruct (eval (row_look cs r) cell_val (fprop st) (cell_labels st) a) as [va|]; cbn [obind] in Hev; [|discriminate].
    destruct (eval (row_look cs r) cell_val (fprop st) (cell_labels st) b) as [vb|]; cbn [obind] in Hev; [|discriminate].
    destruct va as [|xa| | | |]; cbn [as_bool obind] in Hev; try discriminate.
    destruct vb as [|xb| | | |]; cbn [as_bool obind] in Hev; try discriminate.
    injection Hev as Hev.
    destruct (zone_check st a) as [[]|]; destruct (zone_check st b) as [[]|]; try discriminate.
    apply orb_true_iff in Hev. destruct Hev as [->| ->]; [apply IHa|apply IHb]; auto.
Qed.

Lemma zone_prune_sound : forall st e cs r,
  zone_ok st -> lits_ok e = true -> zone_check st e = Some false ->
  (forall x c, List.In x (expr_props e) -> row_look cs r x = Some c -> reads_node st c) ->
  passes_row st cs r e = false.
Proof.
  intros st e cs r Hz Hl Hc Hrd.
  pose proof (zone_prune_eval st cs r e Hz Hrd Hl Hc) as H.
  unfold passes_row, passes.
  destruct (eval (row_look cs r) cell_val (fprop st) (cell_labels st) e) as [[|[|]| | | |]|]; try reflexivity.
  exfalso. apply H. reflexivity.
Qed.


(** * (5) The index path *)

Lemma find_nid : forall (l : list node) n, NoDup (map nid l) -> List.In n l ->
  find (fun m => nid m =? nid n) l = Some n.
Proof.
  induction l as [|a l IH]; intros n Hnd Hin; [contradiction|].
  cbn [map] in Hnd. inversion Hnd as [|? ? Hna Hnd']; subst.
  cbn [find]. destruct (nid a =? nid n) eqn:E.
  - apply Z.eqb_eq in E. destruct Hin as [->|Hin]; [reflexivity|].
    exfalso. apply Hna. rewrite E. apply in_map. exact Hin.
  - destruct Hin as [->|Hin]; [rewrite Z.eqb_refl in E; discriminate|]. apply IH; assumption.
Qed.

Lemma get_node_nid : forall st n, store_ok st -> List.In n (nodes st) -> get_node st (nid n) = Some n.
Proof. intros st n [Hnd _] Hin. unfold get_node. apply find_nid; assumption. Qed.

Lemma lookup_In : forall {A} k (l : list (string * A)) v, lookup k l = Some v -> List.In (k, v) l.
Proof.
  intros A k l v. induction l as [|[k' v'] l IH]; cbn [lookup]; [discriminate|].
  destruct (String.eqb k k') eqn:E.
  - intros H. injection H as ->. apply String.eqb_eq in E. subst k'. left. reflexivity.
  - intros H. right. apply IH. exact H.
Qed.

Definition cond_match (kv : string * val) (n : node) : bool :=
  match lookup (fst kv) (nprops n) with Some v' => val_eqb v' (snd kv) | None => false end.
Definition conds_sat (conds : list (string * val)) (n : node) : bool := forallb (fun c => cond_match c n) conds.
Definition lblb (label : option string) (n : node) : bool :=
  match label with None => true | Some l => has_label n l end.

Lemma filter_map_nid : forall (g : Z -> bool) (g' P : node -> bool) (l : list node),
  (forall n, List.In n l -> g (nid n) = g' n) ->
  filter g (map nid (filter P l)) = map nid (filter (fun n => P n && g' n) l).
Proof.
  intros g g' P l. induction l as [|a l IH]; intros H; [reflexivity|].
  cbn [filter]. assert (Ha : g (nid a) = g' a) by (apply H; left; reflexivity).
  assert (IH' := IH (fun n Hn => H n (or_intror Hn))).
  destruct (P a); cbn [andb map filter].
  - rewrite Ha. destruct (g' a); cbn [map]; rewrite IH'; reflexivity.
  - exact IH'.
Qed.

Lemma filter_map_rows : forall (pr : row -> bool) (f : node -> row) (s L : node -> bool) (l : list node),
  (forall n, List.In n l -> pr (f n) = s n) ->
  filter pr (map f (filter L l)) = map f (filter (fun n => L n && s n) l).
Proof.
  intros pr f s L l. induction l as [|a l IH]; intros H; [reflexivity|].
  cbn [filter]. assert (Ha : pr (f a) = s a) by (apply H; left; reflexivity).
  assert (IH' := IH (fun n Hn => H n (or_intror Hn))).
  destruct (L a); cbn [andb map filter].
  - rewrite Ha. destruct (s a); cbn [map]; rewrite IH'; reflexivity.
  - exact IH'.
Qed.

Lemma filter_nil : forall {A} (f : A -> bool) l, (forall x, List.In x l -> f x = false) -> filter f l = [].
Proof.
  intros A f l. induction l as [|a l IH]; intros H; [reflexivity|].
  cbn [filter]. rewrite (H a (or_introl eq_refl)). apply IH. intros x Hx. apply H. right. exact Hx.
Qed.

Lemma number_from_nth : forall {A} (l : list A) s i a,
  List.In (i, a) (number_from s l) -> (s <= i)%nat /\ nth_error l (i - s) = Some a.
Proof.
  intros A l. induction l as [|a0 l IH]; intros s i a H; [contradiction|].
  cbn [number_from] in H. destruct H as [H|H].
  - injection H as <- <-. rewrite Nat.sub_diag. split; [lia|reflexivity].
  - destruct (IH _ _ _ H) as [Hle Hn]. split; [lia|].
    replace (i - s)%nat with (S (i - S s)) by lia. exact Hn.
Qed.

Lemma number_from_fun : forall {A} (l : list A) s i a b,
  List.In (i, a) (number_from s l) -> List.In (i, b) (number_from s l) -> a = b.
Proof.
  intros A l s i a b Ha Hb.
  apply number_from_nth in Ha, Hb. destruct Ha as [_ Ha]. destruct Hb as [_ Hb]. congruence.
Qed.

Lemma number_from_snd : forall {A} (l : list A) s i a, List.In (i, a) (number_from s l) -> List.In a l.
Proof. intros A l s i a H. apply number_from_nth in H. destruct H as [_ H]. eapply nth_error_In; eassumption. Qed.

Lemma number_from_In : forall {A} (l : list A) s a, List.In a l -> exists i, List.In (i, a) (number_from s l).
Proof.
  intros A l. induction l as [|a0 l IH]; intros s a H; [contradiction|].
  destruct H as [->|H].
  - exists s. left. reflexivity.
  - destruct (IH (S s) a H) as [i Hi]. exists i. right. exact Hi.
Qed.

Lemma pick_best_In : forall cands s, pick_best cands = Some s -> List.In s cands.
Proof.
  unfold pick_best.
  assert (G : forall (l : list (nat * list Z)) best s,
    fold_left (fun best c => match best with
                             | None => Some c
                             | Some b => if Nat.ltb (List.length (snd c)) (List.length (snd b)) then Some c else Some b
                             end) l best = Some s -> List.In s l \/ best = Some s).
  { induction l as [|c l IH]; intros best s H; cbn [fold_left] in H; [right; exact H|].
    destruct (IH _ _ H) as [Hi|Hb]; [left; right; exact Hi|].
    destruct best as [b|].
    - destruct (Nat.ltb (List.length (snd c)) (List.length (snd b))).
      + injection Hb as <-. left; left; reflexivity.
      + right. exact Hb.
    - injection Hb as <-. left; left; reflexivity. }
  intros cands s H. destruct (G _ _ _ H) as [Hi|Hb]; [exact Hi|discriminate].
Qed.

Lemma node_prop_nid : forall st n k, store_ok st -> List.In n (nodes st) ->
  node_prop st (nid n) k = lookup k (nprops n).
Proof. intros st n k Hs Hn. unfold node_prop. rewrite (get_node_nid st n Hs Hn). reflexivity. Qed.

Lemma fold_filter_spec : forall st i0, store_ok st -> forall (numbered : list (nat * (string * val))) Q,
  fold_left (fun cand ic =>
               if Nat.eqb (fst ic) i0 then cand
               else filter (fun i => match node_prop st i (fst (snd ic)) with
                                     | Some v' => val_eqb v' (snd (snd ic)) | None => false end) cand)
            numbered (map nid (filter Q (nodes st)))
  = map nid (filter (fun n => Q n && forallb (fun ic => Nat.eqb (fst ic) i0 || cond_match (snd ic) n) numbered) (nodes st)).
Proof.
  intros st i0 Hs. induction numbered as [|ic r IH]; intros Q.
  - cbn [fold_left forallb]. f_equal. apply filter_ext. intros n. rewrite andb_true_r. reflexivity.
  - cbn [fold_left forallb]. destruct (Nat.eqb (fst ic) i0) eqn:E.
    + rewrite IH. reflexivity.
    + rewrite (filter_map_nid _ (cond_match (snd ic)) Q (nodes st)).
      * rewrite IH. f_equal. apply filter_ext. intros n. cbn [orb]. rewrite andb_assoc. reflexivity.
      * intros n Hn. rewrite (node_prop_nid st n _ Hs Hn). reflexivity.
Qed.

Lemma fbp_tail : forall st conds i0 kv0, store_ok st -> List.In (i0, kv0) (number_from O conds) ->
  fold_left (fun cand ic =>
               if Nat.eqb (fst ic) i0 then cand
               else filter (fun i => match node_prop st i (fst (snd ic)) with
                                     | Some v' => val_eqb v' (snd (snd ic)) | None => false end) cand)
            (number_from O conds) (map nid (filter (cond_match kv0) (nodes st)))
  = map nid (filter (conds_sat conds) (nodes st)).
Proof.
  intros st conds i0 kv0 Hs Hin. rewrite (fold_filter_spec st i0 Hs). f_equal. apply filter_ext. intros n.
  apply eq_true_iff_eq. split.
  - intros H. apply andb_true_iff in H. destruct H as [H1 H2]. rewrite forallb_forall in H2.
    unfold conds_sat. apply forallb_forall. intros c Hc.
    destruct (number_from_In conds O c Hc) as [i Hi].
    specialize (H2 (i, c) Hi). cbn [fst snd] in H2. apply orb_true_iff in H2. destruct H2 as [H2|H2]; [|exact H2].
    apply Nat.eqb_eq in H2. subst i. rewrite (number_from_fun _ _ _ _ _ Hi Hin). exact H1.
  - intros H. unfold conds_sat in H. rewrite forallb_forall in H. apply andb_true_iff. split.
    + apply H. eapply number_from_snd. exact Hin.
    + apply forallb_forall. intros [i c] Hic. cbn [fst snd]. apply orb_true_iff. right.
      apply H. eapply number_from_snd. exact Hic.
Qed.

Lemma find_by_props_spec : forall st conds, store_ok st -> conds <> [] ->
  find_by_props st (idx_of st) conds = map nid (filter (conds_sat conds) (nodes st)).
Proof.
  intros st conds Hs Hne. destruct conds as [|c0 rest]; [congruence|]. clear Hne.
  unfold find_by_props.
  set (conds := c0 :: rest).
  set (numbered := number_from O conds).
  set (hits := flat_map _ numbered).
  destruct (existsb _ hits) eqn:Eex.
  - symmetry. apply existsb_exists in Eex. destruct Eex as (h & Hh & Hem).
    unfold hits in Hh. apply in_flat_map in Hh. destruct Hh as (ic & Hic & Hh).
    destruct (existsb (String.eqb (fst (snd ic))) (indexed st)); [|contradiction].
    destruct Hh as [<-|[]]. cbn [snd] in Hem. unfold idx_of in Hem.
    destruct (map nid _) eqn:Em in Hem; [|discriminate]. apply map_eq_nil in Em.
    rewrite filter_nil; [reflexivity|]. intros n Hn.
    destruct (conds_sat conds n) eqn:Es; [|reflexivity]. exfalso.
    unfold conds_sat in Es. rewrite forallb_forall in Es.
    assert (Hm : cond_match (snd ic) n = true).
    { apply Es. destruct ic as [i c]. eapply number_from_snd. exact Hic. }
    assert (Hf : List.In n (filter (fun n0 => match lookup (fst (snd ic)) (nprops n0) with
                                             | Some v' => val_eqb v' (snd (snd ic)) | None => false end) (nodes st))).
    { apply filter_In. split; [exact Hn|exact Hm]. }
    rewrite Em in Hf. contradiction.
  - destruct (pick_best hits) as [s|] eqn:Epb.
    + apply pick_best_In in Epb. unfold hits in Epb. apply in_flat_map in Epb.
      destruct Epb as (ic & Hic & Hh).
      destruct (existsb (String.eqb (fst (snd ic))) (indexed st)); [|contradiction].
      destruct Hh as [<-|[]]. cbn [fst snd]. destruct ic as [i0 kv0]. cbn [fst snd].
      apply (fbp_tail st conds i0 kv0 Hs Hic).
    + cbn [fst snd]. apply (fbp_tail st conds O c0 Hs). left. reflexivity.
Qed.

Lemma retain_label_spec : forall st label P, store_ok st ->
  retain_label st label (map nid (filter P (nodes st))) =
  map nid (filter (fun n => P n && lblb label n) (nodes st)).
Proof.
  intros st label P Hs. destruct label as [l|]; cbn [retain_label lblb].
  - apply filter_map_nid. intros n Hn. rewrite (get_node_nid st n Hs Hn). reflexivity.
  - f_equal. apply filter_ext. intros n. rewrite andb_true_r. reflexivity.
Qed.

(** ** [feq] and [val_eqb] agree on normal-form values of one kind *)
Lemma frac_eq_lowest : forall n d m e, 0 < d -> 0 < e -> Z.gcd n d = 1 -> Z.gcd m e = 1 ->
  n * e = m * d -> n = m /\ d = e.
Proof.
  intros n d m e Hd He Gn Gm H.
  assert (D1 : (d | e)).
  { apply (Z.gauss d n e); [|rewrite Z.gcd_comm; exact Gn]. exists m. rewrite H. ring. }
  assert (D2 : (e | d)).
  { apply (Z.gauss e m d); [|rewrite Z.gcd_comm; exact Gm]. exists n. rewrite <- H. ring. }
  assert (d = e) by (apply Z.divide_antisym_nonneg; try lia; assumption).
  subst e. split; [|reflexivity]. apply (Z.mul_reg_r _ _ d); [lia|exact H].
Qed.

Lemma feq_val_eqb : forall a b, val_ok a = true -> val_ok b = true -> same_kind a b = true ->
  feq a b = val_eqb a b.
Proof.
  intros a b Ha Hb Hk.
  destruct a as [|x|x|n d|s|l], b as [|y|y|m e|t|l']; cbn [val_ok] in Ha, Hb; try discriminate;
    cbn [same_kind is_num andb negb] in Hk; try discriminate; cbn [feq val_eqb]; try reflexivity.
  apply andb_true_iff in Ha, Hb. destruct Ha as [Ha1 Ha2]. destruct Hb as [Hb1 Hb2].
  apply Z.ltb_lt in Ha1, Hb1. apply Z.eqb_eq in Ha2, Hb2.
  apply eq_true_iff_eq. rewrite andb_true_iff, !Z.eqb_eq. split.
  - apply frac_eq_lowest; assumption.
  - intros [-> ->]. reflexivity.
Qed.

Lemma passes_and : forall st cs r a b,
  passes_row st cs r (EAnd a b) = passes_row st cs r a && passes_row st cs r b.
Proof.
  intros st cs r a b. unfold passes_row, passes. cbn [eval].
  destruct (eval (row_look cs r) cell_val (fprop st) (cell_labels st) a) as [va|]; cbn [obind]; [|reflexivity].
  destruct (eval (row_look cs r) cell_val (fprop st) (cell_labels st) b) as [vb|]; cbn [obind].
  - destruct va as [|[|]| | | |]; cbn [as_bool obind andb]; try reflexivity;
      destruct vb as [|[|]| | | |]; reflexivity.
  - destruct va as [|[|]| | | |]; reflexivity.
Qed.

Lemma row_look_single : forall x c, row_look [x] [c] x = Some c.
Proof. intros x c. unfold row_look. cbn [pos_last]. rewrite String.eqb_refl. reflexivity. Qed.

Lemma num_mix_same_kind : forall st k v n v', num_mix st k v = false -> List.In n (nodes st) ->
  lookup k (nprops n) = Some v' -> same_kind v' v = true.
Proof.
  intros st k v n v' H Hn Hl. unfold num_mix in H.
  destruct (same_kind v' v) eqn:E; [reflexivity|]. exfalso.
  assert (existsb (fun n0 => match lookup k (nprops n0) with Some v'0 => negb (same_kind v'0 v) | None => false end) (nodes st) = true).
  { apply existsb_exists. exists n. split; [exact Hn|]. rewrite Hl, E. reflexivity. }
  congruence.
Qed.

Lemma eq_leaf_passes : forall st x n k v, store_ok st -> vals_ok st -> List.In n (nodes st) ->
  val_ok v = true -> num_mix st k v = false ->
  (match (let? c := row_look [x] [CNode (nid n)] x in fprop st c k) with
   | Some v' => feq v' v | None => false end) = cond_match (k, v) n.
Proof.
  intros st x n k v Hs Hv Hn Hl Hm.
  rewrite row_look_single. cbn [obind]. unfold fprop. cbn [cell_node_id].
  rewrite (get_node_nid st n Hs Hn). unfold cond_match. cbn [fst snd].
  destruct (lookup k (nprops n)) as [v'|] eqn:El; [|reflexivity].
  apply feq_val_eqb; [|exact Hl|].
  - apply (Hv n k v' Hn). apply lookup_In. exact El.
  - eapply num_mix_same_kind; eassumption.
Qed.

Lemma eq_conds_passes : forall st x n e, store_ok st -> vals_ok st -> List.In n (nodes st) ->
  lits_ok e = true -> only_eq_conds x e = true ->
  (forall c, List.In c (collect_eq x e) -> num_mix st (fst c) (snd c) = false) ->
  passes_row st [x] [CNode (nid n)] e = conds_sat (collect_eq x e) n.
Proof.
  intros st x n e Hs Hv Hn.
  induction e as [v|y|y k|op a IHa b IHb|a IHa b IHb|a IHa b IHb|a IHa|a IHa|a IHa|y l|l y];
    intros Hl Ho Hm; cbn [only_eq_conds] in Ho; try discriminate.
  - destruct op; try discriminate.
    destruct a as [va|ya|xa ka|? ? ?|? ?|? ?|?|?|?|? ?|? ?]; try discriminate;
    destruct b as [vb|yb|xb kb|? ? ?|? ?|? ?|?|?|?|? ?|? ?]; try discriminate.
    + cbn [lits_ok] in Hl. apply andb_true_iff in Hl. destruct Hl as [Hl _].
      cbn [collect_eq] in Hm |- *. rewrite Ho in Hm |- *. apply String.eqb_eq in Ho. subst xb.
      unfold conds_sat. cbn [forallb]. rewrite andb_true_r.
      rewrite <- (eq_leaf_passes st x n kb va Hs Hv Hn Hl (Hm (kb, va) (or_introl eq_refl))).
      unfold passes_row, passes. cbn [eval obind].
      destruct (let? c := row_look [x] [CNode (nid n)] x in fprop st c kb) as [v'|]; cbn [obind cmp_result]; [|reflexivity].
      rewrite (feq_sym va v'). destruct (feq v' va); reflexivity.
    + cbn [lits_ok] in Hl. apply andb_true_iff in Hl. destruct Hl as [_ Hl].
      cbn [collect_eq] in Hm |- *. rewrite Ho in Hm |- *. apply String.eqb_eq in Ho. subst xa.
      unfold conds_sat. cbn [forallb]. rewrite andb_true_r.
      rewrite <- (eq_leaf_passes st x n ka vb Hs Hv Hn Hl (Hm (ka, vb) (or_introl eq_refl))).
      unfold passes_row, passes. cbn [eval obind].
      destruct (let? c := row_look [x] [CNode (nid n)] x in fprop st c ka) as [v'|]; cbn [obind cmp_result]; [|reflexivity].
      destruct (feq v' vb); reflexivity.
  - cbn [lits_ok] in Hl. apply andb_true_iff in Hl. destruct Hl as [Hla Hlb].
    apply andb_true_iff in Ho. destruct Ho as [Hoa Hob].
    cbn [collect_eq] in Hm |- *.
    rewrite passes_and. unfold conds_sat. rewrite forallb_app. fold (conds_sat (collect_eq x a) n) (conds_sat (collect_eq x b) n).
    rewrite IHa, IHb; auto; intros c Hc; apply Hm, in_or_app; auto.
Qed.

Lemma Some_inj : forall {A} (a b : A), Some a = Some b -> a = b.
Proof. intros A a b H. injection H as H. exact H. Qed.

(** the pre-08d6ceb path (no re-application of the predicate) was right only for conjunctions of equalities *)
Lemma index_path_pre_eq : forall st x label e t,
  store_ok st -> vals_ok st -> lits_ok e = true -> only_eq_conds x e = true ->
  (forall c, List.In c (collect_eq x e) -> num_mix st (fst c) (snd c) = false) ->
  try_index_pre st (idx_of st) e (LScan x label) = Some t ->
  t = filter_tbl (fun r => passes_row st [x] r e) (mkT [x] (scan_rows st label)).
Proof.
  intros st x label e t Hs Hv Hl Ho Hm Ht.
  unfold try_index_pre in Ht.
  destruct (collect_eq x e) as [|c0 rest] eqn:Ec; [discriminate|].
  destruct (existsb _ (c0 :: rest)); [|discriminate].
  apply Some_inj in Ht. subst t.
  rewrite (find_by_props_spec st (c0 :: rest) Hs) by discriminate.
  rewrite (retain_label_spec st label _ Hs).
  change (scan_rows st label) with (map (fun n => [CNode (nid n)]) (filter (lblb label) (nodes st))).
  unfold filter_tbl, mkT. cbn [cols rows]. f_equal.
  rewrite map_map. symmetry.
  etransitivity;
    [apply (filter_map_rows (fun r => passes_row st [x] r e) (fun n => [CNode (nid n)])
              (conds_sat (c0 :: rest)) (lblb label) (nodes st))|].
  - intros n Hn. rewrite <- Ec. apply eq_conds_passes; try assumption. rewrite Ec. exact Hm.
  - f_equal. apply filter_ext. intros n. apply andb_comm.
Qed.

(** a row that passes the whole predicate satisfies every equality conjunct the index was asked for *)
Lemma passes_conds : forall st x n e, store_ok st -> vals_ok st -> List.In n (nodes st) ->
  lits_ok e = true ->
  (forall c, List.In c (collect_eq x e) -> num_mix st (fst c) (snd c) = false) ->
  passes_row st [x] [CNode (nid n)] e = true -> conds_sat (collect_eq x e) n = true.
Proof.
  intros st x n e Hs Hv Hn.
  induction e as [v|y|y k|op a IHa b IHb|a IHa b IHb|a IHa b IHb|a IHa|a IHa|a IHa|y l|l y];
    intros Hl Hm Hp; try reflexivity.
  - destruct op; try reflexivity.
    destruct a as [va|ya|xa ka|? ? ?|? ?|? ?|?|?|?|? ?|? ?]; try reflexivity;
    destruct b as [vb|yb|xb kb|? ? ?|? ?|? ?|?|?|?|? ?|? ?]; try reflexivity.
    + cbn [lits_ok] in Hl. apply andb_true_iff in Hl. destruct Hl as [Hl _].
      cbn [collect_eq] in Hm |- *. destruct (String.eqb xb x) eqn:Ex; [|reflexivity]. apply String.eqb_eq in Ex. subst xb.
      unfold conds_sat. cbn [forallb]. rewrite andb_true_r.
      rewrite <- (eq_leaf_passes st x n kb va Hs Hv Hn Hl (Hm (kb, va) (or_introl eq_refl))).
      unfold passes_row, passes in Hp. cbn [eval obind] in Hp.
      destruct (let? c := row_look [x] [CNode (nid n)] x in fprop st c kb) as [v'|]; cbn [obind cmp_result] in Hp; [|discriminate Hp].
      rewrite (feq_sym va v') in Hp. destruct (feq v' va); [reflexivity|discriminate Hp].
    + cbn [lits_ok] in Hl. apply andb_true_iff in Hl. destruct Hl as [_ Hl].
      cbn [collect_eq] in Hm |- *. destruct (String.eqb xa x) eqn:Ex; [|reflexivity]. apply String.eqb_eq in Ex. subst xa.
      unfold conds_sat. cbn [forallb]. rewrite andb_true_r.
      rewrite <- (eq_leaf_passes st x n ka vb Hs Hv Hn Hl (Hm (ka, vb) (or_introl eq_refl))).
      unfold passes_row, passes in Hp. cbn [eval obind] in Hp.
      destruct (let? c := row_look [x] [CNode (nid n)] x in fprop st c ka) as [v'|]; cbn [obind cmp_result] in Hp; [|discriminate Hp].
      destruct (feq v' vb); [reflexivity|discriminate Hp].
  - cbn [lits_ok] in Hl. apply andb_true_iff in Hl. destruct Hl as [Hla Hlb].
    cbn [collect_eq] in Hm |- *. rewrite passes_and in Hp. apply andb_true_iff in Hp. destruct Hp as [Hpa Hpb].
    unfold conds_sat. rewrite forallb_app. fold (conds_sat (collect_eq x a) n) (conds_sat (collect_eq x b) n).
    rewrite IHa, IHb; auto; intros c Hc; apply Hm, in_or_app; auto.
Qed.

(** the index path (with the predicate re-applied, 08d6ceb) for ANY predicate *)
Lemma index_path_eq : forall st x label e t,
  store_ok st -> vals_ok st -> lits_ok e = true ->
  (forall c, List.In c (collect_eq x e) -> num_mix st (fst c) (snd c) = false) ->
  try_index st (idx_of st) e (LScan x label) = Some t ->
  t = filter_tbl (fun r => passes_row st [x] r e) (mkT [x] (scan_rows st label)).
Proof.
  intros st x label e t Hs Hv Hl Hm Ht.
  unfold try_index in Ht. destruct (try_index_pre st (idx_of st) e (LScan x label)) as [t0|] eqn:E0; [|discriminate].
  apply Some_inj in Ht. subst t.
  unfold try_index_pre in E0.
  destruct (collect_eq x e) as [|c0 rest] eqn:Ec; [discriminate|].
  destruct (existsb _ (c0 :: rest)); [|discriminate].
  apply Some_inj in E0. subst t0.
  rewrite (find_by_props_spec st (c0 :: rest) Hs) by discriminate.
  rewrite (retain_label_spec st label _ Hs).
  change (scan_rows st label) with (map (fun n => [CNode (nid n)]) (filter (lblb label) (nodes st))).
  unfold filter_tbl, mkT. cbn [cols rows]. f_equal.
  rewrite map_map.
  assert (HF : forall L : node -> bool,
             filter (fun r => passes_row st [x] r e) (map (fun n => [CNode (nid n)]) (filter L (nodes st)))
             = map (fun n => [CNode (nid n)]) (filter (fun n => L n && passes_row st [x] [CNode (nid n)] e) (nodes st))).
  { intros L. apply filter_map_rows. intros; reflexivity. }
  rewrite !HF.
  f_equal. apply filter_ext_in. intros n Hn.
  destruct (passes_row st [x] [CNode (nid n)] e) eqn:Ep; [|rewrite !andb_false_r; reflexivity].
  rewrite !andb_true_r. rewrite <- Ec.
  rewrite (passes_conds st x n e Hs Hv Hn Hl ltac:(rewrite Ec; exact Hm) Ep). reflexivity.
Qed.


(** * (6) The range path *)

Definition rng_test (op : cmpop) (v' v : val) : bool :=
  match cmp_result op v' v with Some (VBool true) => true | _ => false end.

Lemma fcmp_rcmp : forall a b, same_kind a b = true -> is_bool b = false -> fcmp a b = rcmp a b.
Proof.
  intros a b Hk Hb.
  destruct a as [|x|x|n d|s|l], b as [|y|y|m e|t|l']; cbn [is_bool] in Hb; try discriminate;
    cbn [same_kind is_num andb negb] in Hk; try discriminate; reflexivity.
Qed.

Lemma lower_test : forall li v' m, fcmp v' m = rcmp v' m ->
  match rcmp v' m with Some Lt => false | Some Eq => li | Some Gt => true | None => false end
  = rng_test (if li then OGe else OGt) v' m.
Proof.
  intros li v' m H. destruct li; unfold rng_test; cbn [cmp_result]; rewrite H;
    destruct (rcmp v' m) as [[]|]; reflexivity.
Qed.

Lemma upper_test : forall hi_i v' m, fcmp v' m = rcmp v' m ->
  match rcmp v' m with Some Gt => false | Some Eq => hi_i | Some Lt => true | None => false end
  = rng_test (if hi_i then OLe else OLt) v' m.
Proof.
  intros hi_i v' m H. destruct hi_i; unfold rng_test; cbn [cmp_result]; rewrite H;
    destruct (rcmp v' m) as [[]|]; reflexivity.
Qed.

Definition bound_ok (st : store) (k : string) (b : option val) : Prop :=
  match b with Some m => val_ok m = true /\ num_mix st k m = false /\ is_bool m = false | None => True end.

Lemma in_range_tests : forall st k lo hi li hi_i n v',
  bound_ok st k lo -> bound_ok st k hi -> List.In n (nodes st) -> lookup k (nprops n) = Some v' ->
  value_in_range v' lo hi li hi_i =
  (match lo with Some m => rng_test (if li then OGe else OGt) v' m | None => true end)
  && (match hi with Some m => rng_test (if hi_i then OLe else OLt) v' m | None => true end).
Proof.
  intros st k lo hi li hi_i n v' Hlo Hhi Hn Hl. unfold value_in_range. f_equal.
  - destruct lo as [m|]; [|reflexivity]. destruct Hlo as (_ & Hm & Hb).
    apply lower_test. apply fcmp_rcmp; [|exact Hb]. eapply num_mix_same_kind; eassumption.
  - destruct hi as [m|]; [|reflexivity]. destruct Hhi as (_ & Hm & Hb).
    apply upper_test. apply fcmp_rcmp; [|exact Hb]. eapply num_mix_same_kind; eassumption.
Qed.

Lemma z_gt_test : forall h m incl v',
  Forall (fun v => val_ok v = true) h -> val_ok m = true -> List.In v' h ->
  z_gt (zone_of h) m incl = false -> rng_test (if incl then OGe else OGt) v' m = false.
Proof.
  intros h m incl v' Hok Hm Hin Hz. unfold rng_test.
  assert (N : cmp_result (if incl then OGe else OGt) v' m <> Some (VBool true)).
  { apply (col_prune_sound (mkZcol h false) (if incl then OGe else OGt) m v' Hok Hm Hin).
    unfold col_might_match. cbn [zdirty zhist]. destruct incl; exact Hz. }
  destruct (cmp_result (if incl then OGe else OGt) v' m) as [[|[|]| | | |]|]; try reflexivity.
  exfalso. apply N. reflexivity.
Qed.

Lemma z_lt_test : forall h m incl v',
  Forall (fun v => val_ok v = true) h -> val_ok m = true -> List.In v' h ->
  z_lt (zone_of h) m incl = false -> rng_test (if incl then OLe else OLt) v' m = false.
Proof.
  intros h m incl v' Hok Hm Hin Hz. unfold rng_test.
  assert (N : cmp_result (if incl then OLe else OLt) v' m <> Some (VBool true)).
  { apply (col_prune_sound (mkZcol h false) (if incl then OLe else OLt) m v' Hok Hm Hin).
    unfold col_might_match. cbn [zdirty zhist]. destruct incl; exact Hz. }
  destruct (cmp_result (if incl then OLe else OLt) v' m) as [[|[|]| | | |]|]; try reflexivity.
  exfalso. apply N. reflexivity.
Qed.

Lemma range_zone_sound : forall st k lo hi li hi_i n v',
  zone_ok st -> bound_ok st k lo -> bound_ok st k hi -> List.In n (nodes st) ->
  lookup k (nprops n) = Some v' ->
  node_might_match_range st k lo hi li hi_i = false ->
  value_in_range v' lo hi li hi_i = false.
Proof.
  intros st k lo hi li hi_i n v' Hz Hlo Hhi Hn Hl Hm.
  rewrite (in_range_tests st k lo hi li hi_i n v' Hlo Hhi Hn Hl).
  unfold node_might_match_range in Hm.
  destruct (lookup k (zcols st)) as [c|] eqn:Ec; [|discriminate].
  destruct (Hz k c Ec) as [Hok Hcov]. pose proof (Hcov n v' Hn Hl) as Hin.
  unfold z_range in Hm. apply andb_false_iff in Hm. destruct Hm as [Hm|Hm].
  - destruct lo as [m|]; [|discriminate]. destruct Hlo as (Hvm & _ & _).
    rewrite (z_gt_test _ m li v' Hok Hvm Hin Hm). reflexivity.
  - destruct hi as [m|]; [|discriminate]. destruct Hhi as (Hvm & _ & _).
    rewrite (z_lt_test _ m hi_i v' Hok Hvm Hin Hm). apply andb_false_r.
Qed.

Lemma find_in_range_spec : forall st z k lo hi li hi_i,
  zone_ok st -> bound_ok st k lo -> bound_ok st k hi ->
  find_in_range st z k lo hi li hi_i =
  map nid (filter (fun n => match lookup k (nprops n) with
                            | Some v => value_in_range v lo hi li hi_i | None => false end) (nodes st)).
Proof.
  intros st z k lo hi li hi_i Hz Hlo Hhi. unfold find_in_range.
  destruct (z && negb (node_might_match_range st k lo hi li hi_i)) eqn:E; [|reflexivity].
  apply andb_true_iff in E. destruct E as [_ E]. apply negb_true_iff in E.
  rewrite filter_nil; [reflexivity|]. intros n Hn.
  destruct (lookup k (nprops n)) as [v'|] eqn:El; [|reflexivity].
  eapply range_zone_sound; eassumption.
Qed.

(** ** the shape of range predicates *)
Lemma extract_range_shape : forall p x k op' v, extract_range p = Some (x, k, op', v) ->
  (p = ECmp op' (EProp x k) (ELit v)) \/
  (exists op, p = ECmp op (ELit v) (EProp x k) /\ op' = flip_op op).
Proof.
  intros p x k op' v H. unfold extract_range in H.
  destruct p as [|?|? ?|op a b|? ?|? ?|?|?|?|? ?|? ?]; try discriminate.
  destruct a as [va|ya|xa ka|? ? ?|? ?|? ?|?|?|?|? ?|? ?]; try discriminate;
  destruct b as [vb|yb|xb kb|? ? ?|? ?|? ?|?|?|?|? ?|? ?]; try discriminate;
  destruct (is_range_op op); try discriminate; injection H as <- <- <- <-.
  - right. exists op. auto.
  - left. reflexivity.
Qed.

Lemma extract_range_lit : forall p x k op' v, extract_range p = Some (x, k, op', v) ->
  lits_ok p = true -> val_ok v = true.
Proof.
  intros p x k op' v H Hl. destruct (extract_range_shape _ _ _ _ _ H) as [->|(op & -> & _)];
    cbn [lits_ok] in Hl; apply andb_true_iff in Hl; tauto.
Qed.

Lemma range_leaf_passes : forall st p x k op' v n, store_ok st -> List.In n (nodes st) ->
  extract_range p = Some (x, k, op', v) ->
  passes_row st [x] [CNode (nid n)] p =
  match lookup k (nprops n) with Some v' => rng_test op' v' v | None => false end.
Proof.
  intros st p x k op' v n Hs Hn H.
  destruct (extract_range_shape _ _ _ _ _ H) as [->|(op & -> & ->)];
    unfold passes_row, passes; cbn [eval obind]; rewrite row_look_single; cbn [obind];
    unfold fprop; cbn [cell_node_id]; rewrite (get_node_nid st n Hs Hn);
    destruct (lookup k (nprops n)) as [v'|]; cbn [obind]; try reflexivity.
  unfold rng_test. rewrite <- cmp_result_flip. reflexivity.
Qed.

Lemma extract_between_and : forall e r, extract_between e = Some r -> extract_range e = None.
Proof. intros e r H. destruct e; try discriminate. reflexivity. Qed.

Lemma rows_of_ids : forall st x label e (test : node -> bool), store_ok st ->
  (forall n, List.In n (nodes st) -> passes_row st [x] [CNode (nid n)] e = test n) ->
  mkT [x] (map (fun i => [CNode i]) (retain_label st label (map nid (filter test (nodes st)))))
  = filter_tbl (fun r => passes_row st [x] r e) (mkT [x] (scan_rows st label)).
Proof.
  intros st x label e test Hs Ht.
  rewrite (retain_label_spec st label _ Hs).
  change (scan_rows st label) with (map (fun n => [CNode (nid n)]) (filter (lblb label) (nodes st))).
  unfold filter_tbl, mkT. cbn [cols rows]. f_equal.
  rewrite map_map. symmetry.
  etransitivity;
    [apply (filter_map_rows (fun r => passes_row st [x] r e) (fun n => [CNode (nid n)])
              test (lblb label) (nodes st)); exact Ht|].
  f_equal. apply filter_ext. intros n. apply andb_comm.
Qed.

Lemma range_path_eq : forall st z x label e t,
  store_ok st -> vals_ok st -> zone_ok st -> lits_ok e = true ->
  (forall k vs, range_applies (LFilter e (LScan x label)) = Some (k, vs) ->
     forall v, List.In v vs -> num_mix st k v = false /\ is_bool v = false) ->
  try_range st z e (LScan x label) = Some t ->
  t = filter_tbl (fun r => passes_row st [x] r e) (mkT [x] (scan_rows st label)).
Proof.
  intros st z x label e t Hs Hv Hz Hl Hk Ht.
  unfold try_range in Ht. cbn [range_applies] in Hk.
  destruct (extract_between e) as [[[[[[y k] lo] hi] li] hi_i]|] eqn:Eb.
  - destruct (String.eqb y x) eqn:Eyx.
    + apply String.eqb_eq in Eyx. subst y. apply Some_inj in Ht. subst t.
      (* the two leaves *)
      destruct e as [|?|? ?|? ? ?|a b|? ?|?|?|?|? ?|? ?]; try discriminate.
      cbn [extract_between] in Eb.
      destruct (extract_range a) as [[[[x1 k1] o1] v1]|] eqn:Ea; [|discriminate].
      destruct (extract_range b) as [[[[x2 k2] o2] v2]|] eqn:Eb2; [|discriminate].
      destruct (String.eqb x1 x2 && String.eqb k1 k2) eqn:Exk; cbn [negb] in Eb; [|discriminate].
      apply andb_true_iff in Exk. destruct Exk as [E1 E2].
      apply String.eqb_eq in E1, E2. subst x2 k2.
      cbn [lits_ok] in Hl. apply andb_true_iff in Hl. destruct Hl as [Hla Hlb].
      pose proof (extract_range_lit _ _ _ _ _ Ea Hla) as Hv1.
      pose proof (extract_range_lit _ _ _ _ _ Eb2 Hlb) as Hv2.
      assert (Hxk : x1 = x /\ k1 = k /\ ((lo = v1 /\ hi = v2) \/ (lo = v2 /\ hi = v1))).
      { destruct o1, o2; try discriminate; injection Eb as <- <- <- <- <- <-; auto 8. }
      destruct Hxk as (-> & -> & Hlh).
      assert (Hlo : lo = v1 \/ lo = v2) by tauto.
      assert (Hhi : hi = v1 \/ hi = v2) by tauto.
      assert (Hb : forall m, m = v1 \/ m = v2 -> bound_ok st k (Some m)).
      { intros m Hm. assert (Hin : List.In m [lo; hi]).
        { destruct Hlh as [[-> ->]|[-> ->]], Hm as [->| ->]; cbn; auto. }
        destruct (Hk k [lo; hi] eq_refl m Hin) as [H1 H2].
        cbn [bound_ok]. destruct Hm as [->| ->]; auto. }
      rewrite (find_in_range_spec st z k (Some lo) (Some hi) li hi_i Hz (Hb lo Hlo) (Hb hi Hhi)).
      apply rows_of_ids; [exact Hs|]. intros n Hn.
      rewrite passes_and.
      rewrite (range_leaf_passes st a x k o1 v1 n Hs Hn Ea), (range_leaf_passes st b x k o2 v2 n Hs Hn Eb2).
      destruct (lookup k (nprops n)) as [v'|] eqn:El; [|reflexivity].
      rewrite (in_range_tests st k (Some lo) (Some hi) li hi_i n v' (Hb lo Hlo) (Hb hi Hhi) Hn El).
      destruct o1, o2; try discriminate; injection Eb as <- <- <- <-; try reflexivity; apply andb_comm.
    + rewrite (extract_between_and _ _ Eb) in Ht. discriminate.
  - destruct (extract_range e) as [[[[y k] op] v]|] eqn:Er; [|discriminate].
    destruct (String.eqb y x) eqn:Eyx; [|discriminate].
    apply String.eqb_eq in Eyx. subst y.
    destruct (range_bounds op v) as [[[[lo hi] li] hi_i]|] eqn:Erb; [|discriminate].
    apply Some_inj in Ht. subst t.
    pose proof (extract_range_lit _ _ _ _ _ Er Hl) as Hvv.
    destruct (Hk k [v] eq_refl v (or_introl eq_refl)) as [H1 H2].
    assert (Hb : bound_ok st k (Some v)) by (cbn [bound_ok]; auto).
    assert (Hlo : bound_ok st k lo) by (destruct op; try discriminate; injection Erb as <- <- <- <-; cbn [bound_ok]; auto).
    assert (Hhi : bound_ok st k hi) by (destruct op; try discriminate; injection Erb as <- <- <- <-; cbn [bound_ok]; auto).
    rewrite (find_in_range_spec st z k lo hi li hi_i Hz Hlo Hhi).
    apply rows_of_ids; [exact Hs|]. intros n Hn.
    rewrite (range_leaf_passes st e x k op v n Hs Hn Er).
    destruct (lookup k (nprops n)) as [v'|] eqn:El; [|reflexivity].
    rewrite (in_range_tests st k lo hi li hi_i n v' Hlo Hhi Hn El).
    destruct op; try discriminate; injection Erb as <- <- <- <-; cbn [andb]; rewrite ?andb_true_r; reflexivity.
Qed.


(** * (7) Factorized chains *)

Section FtreeInd.
  Variable P : ftree -> Prop.
  Hypothesis Hleaf : forall c, P (FNode c None).
  Hypothesis Hnode : forall c kids, Forall P kids -> P (FNode c (Some kids)).
  Fixpoint ftree_ind' (t : ftree) : P t :=
    match t with
    | FNode c None => Hleaf c
    | FNode c (Some kids) =>
        Hnode c kids ((fix go (l : list ftree) : Forall P l :=
                         match l with
                         | [] => Forall_nil P
                         | k :: r => Forall_cons k (ftree_ind' k) (go r)
                         end) kids)
    end.
End FtreeInd.

(** a path as (cells above the deepest entry, cells of the deepest entry) *)
Definition pl_pre (c : row) (pl : row * row) : row * row := (c ++ fst pl, snd pl).
Fixpoint lpaths (t : ftree) : list (row * row) :=
  match t with
  | FNode c None => [([], c)]
  | FNode c (Some kids) => flat_map (fun k => map (pl_pre c) (lpaths k)) kids
  end.
Definition pl_join (pl : row * row) : row := fst pl ++ snd pl.
Definition lpathsF (f : list ftree) : list (row * row) := lpaths (FNode [] (Some f)).

Lemma join_pre : forall c pl, pl_join (pl_pre c pl) = c ++ pl_join pl.
Proof. intros c pl. unfold pl_join, pl_pre. cbn [fst snd]. rewrite app_assoc. reflexivity. Qed.

Lemma paths_lpaths : forall t, paths t = map pl_join (lpaths t).
Proof.
  apply ftree_ind'.
  - intros c. reflexivity.
  - intros c kids H. cbn [paths lpaths].
    induction H as [|k r Hk Hr IH]; [reflexivity|].
    cbn [flat_map]. rewrite map_app, IH, Hk, !map_map. f_equal.
    apply map_ext. intros pl. rewrite join_pre. reflexivity.
Qed.

Lemma map_app_nil : forall (l : list row), map (app []) l = l.
Proof. induction l as [|a l IH]; cbn [map]; [reflexivity|]. rewrite IH. reflexivity. Qed.

Lemma paths_forest : forall f, flat_map paths f = map pl_join (lpathsF f).
Proof.
  intros f. unfold lpathsF. rewrite <- paths_lpaths. cbn [paths].
  induction f as [|k r IH]; [reflexivity|]. cbn [flat_map]. rewrite map_app_nil, IH. reflexivity.
Qed.

Lemma leaves_lpaths : forall {A} (g : row * row -> row * row) (h : A -> row) (nb : list A),
  flat_map (fun k => map g (lpaths k)) (map (fun te => FNode (h te) None) nb) = map (fun te => g ([], h te)) nb.
Proof.
  intros A g h nb. induction nb as [|a nb IH]; [reflexivity|].
  cbn [map flat_map lpaths app]. rewrite IH. reflexivity.
Qed.

Section Grow.
  Variables (st : store) (ci : bool) (idx : nat) (d : dir) (ty : option string).
  Definition grow_exp (pl : row * row) : list (row * row) :=
    match leaf_src idx (snd pl) with
    | Ok (Some n) => map (fun te => (pl_join pl, [CEdge (snd te); CNode (fst te)])) (neighbors st ci n d ty)
    | _ => []
    end.
  Definition srcs_ok (L : list (row * row)) : Prop :=
    forall pl, List.In pl L -> exists n, leaf_src idx (snd pl) = Ok (Some n).

  Lemma E_pre : forall c pl, grow_exp (pl_pre c pl) = map (pl_pre c) (grow_exp pl).
  Proof.
    intros c pl. unfold grow_exp. cbn [pl_pre snd].
    destruct (leaf_src idx (snd pl)) as [[n|]|]; try reflexivity.
    rewrite map_map. apply map_ext. intros te. rewrite join_pre. reflexivity.
  Qed.

  Lemma flat_map_E_pre : forall c L, flat_map grow_exp (map (pl_pre c) L) = map (pl_pre c) (flat_map grow_exp L).
  Proof.
    intros c L. induction L as [|a L IH]; [reflexivity|].
    cbn [map flat_map]. rewrite map_app, E_pre, IH. reflexivity.
  Qed.

  Lemma grow_kids : forall c kids,
    grow st ci idx d ty (FNode c (Some kids)) =
    do r <- grow_forest st ci idx d ty kids; Ok (FNode c (Some (fst r)), snd r).
  Proof.
    intros c kids. cbn [grow]. f_equal.
    induction kids as [|k r IH]; [reflexivity|].
    cbn [grow_forest]. rewrite IH. reflexivity.
  Qed.

  Definition grow_ok (t : ftree) : Prop :=
    srcs_ok (lpaths t) ->
    exists t', grow st ci idx d ty t = Ok (t', List.length (lpaths t')) /\ lpaths t' = flat_map grow_exp (lpaths t).

  Lemma grow_forest_spec : forall c kids, Forall grow_ok kids ->
    srcs_ok (flat_map (fun k => map (pl_pre c) (lpaths k)) kids) ->
    exists f', grow_forest st ci idx d ty kids
               = Ok (f', List.length (flat_map (fun k => map (pl_pre c) (lpaths k)) f')) /\
               flat_map (fun k => map (pl_pre c) (lpaths k)) f'
               = flat_map grow_exp (flat_map (fun k => map (pl_pre c) (lpaths k)) kids).
  Proof.
    intros c kids H. induction H as [|k r Hk Hr IH]; intros Hs.
    - exists []. split; reflexivity.
    - cbn [flat_map] in Hs.
      assert (Hs1 : srcs_ok (lpaths k)).
      { intros pl Hpl. destruct (Hs (pl_pre c pl)) as [n Hn]; [apply in_or_app; left; apply in_map; exact Hpl|].
        exists n. exact Hn. }
      assert (Hs2 : srcs_ok (flat_map (fun k => map (pl_pre c) (lpaths k)) r)).
      { intros pl Hpl. apply Hs. apply in_or_app. right. exact Hpl. }
      destruct (Hk Hs1) as (k' & Hk1 & Hk2). destruct (IH Hs2) as (f'' & Hf1 & Hf2).
      exists (k' :: f''). cbn [grow_forest]. rewrite Hk1, Hf1. cbn [rbind fst snd]. split.
      + f_equal. f_equal. cbn [flat_map]. rewrite app_length, map_length. reflexivity.
      + cbn [flat_map]. rewrite flat_map_app, Hk2, flat_map_E_pre, Hf2. reflexivity.
  Qed.

  Lemma grow_spec : forall t, grow_ok t.
  Proof.
    apply ftree_ind'.
    - intros c Hs. destruct (Hs ([], c) (or_introl eq_refl)) as [n Hn]. cbn [snd] in Hn.
      cbn [grow]. rewrite Hn. cbn [rbind].
      eexists. split.
      + f_equal. f_equal. cbn [lpaths]. rewrite (leaves_lpaths (pl_pre c)). rewrite !map_length. reflexivity.
      + cbn [lpaths]. rewrite (leaves_lpaths (pl_pre c)). cbn [flat_map]. rewrite app_nil_r.
        unfold grow_exp. cbn [snd]. rewrite Hn. apply map_ext. intros te.
        unfold pl_pre, pl_join. cbn [fst snd app]. rewrite app_nil_r. reflexivity.
    - intros c kids H Hs. cbn [lpaths] in Hs.
      destruct (grow_forest_spec c kids H Hs) as (f' & Hf1 & Hf2).
      rewrite grow_kids, Hf1. cbn [rbind fst snd].
      exists (FNode c (Some f')). split; [reflexivity|]. cbn [lpaths]. exact Hf2.
  Qed.

  Lemma grow_forest_top : forall f, srcs_ok (lpathsF f) ->
    exists f', grow_forest st ci idx d ty f = Ok (f', List.length (lpathsF f')) /\
               lpathsF f' = flat_map grow_exp (lpathsF f).
  Proof.
    intros f Hs. unfold lpathsF in *. cbn [lpaths] in *.
    apply grow_forest_spec; [|exact Hs].
    apply Forall_forall. intros t _. apply grow_spec.
  Qed.

  Lemma expand_match : forall cs from L,
    (forall x, neighbors st true x d ty = neighbors st ci x d ty) ->
    (forall pl n, List.In pl L -> src_of cs from (pl_join pl) = Ok n -> leaf_src idx (snd pl) = Ok (Some n)) ->
    forall rs1, expand_rows st true cs from d ty (map pl_join L) = Ok rs1 ->
    srcs_ok L /\ rs1 = map pl_join (flat_map grow_exp L).
  Proof.
    intros cs from L Hci. unfold expand_rows.
    induction L as [|a L IH]; intros Hag rs1 Hex.
    - cbn in Hex. injection Hex as <-. split; [intros pl []|reflexivity].
    - cbn [map rmapM] in Hex.
      destruct (src_of cs from (pl_join a)) as [n|] eqn:Es; cbn [rbind] in Hex; [|discriminate].
      destruct (rmapM _ (map pl_join L)) as [y|] eqn:Er; cbn [rbind] in Hex; [|discriminate].
      injection Hex as <-.
      destruct (IH (fun pl n Hpl => Hag pl n (or_intror Hpl)) y eq_refl) as [Hs ->].
      pose proof (Hag a n (or_introl eq_refl) Es) as Hl.
      split.
      + intros pl [<-|Hpl]; [exists n; exact Hl|apply Hs; exact Hpl].
      + cbn [flat_map]. rewrite map_app. f_equal.
        unfold grow_exp. rewrite Hl, map_map, Hci. reflexivity.
  Qed.

  Lemma one_step : forall cs from f rs1,
    (forall x, neighbors st true x d ty = neighbors st ci x d ty) ->
    (forall pl n, List.In pl (lpathsF f) -> src_of cs from (pl_join pl) = Ok n -> leaf_src idx (snd pl) = Ok (Some n)) ->
    expand_rows st true cs from d ty (map pl_join (lpathsF f)) = Ok rs1 ->
    exists f1, grow_forest st ci idx d ty f = Ok (f1, List.length (lpathsF f1)) /\
               lpathsF f1 = flat_map grow_exp (lpathsF f) /\ rs1 = map pl_join (lpathsF f1).
  Proof.
    intros cs from f rs1 Hci Hag Hex.
    destruct (expand_match cs from (lpathsF f) Hci Hag rs1 Hex) as [Hs ->].
    destruct (grow_forest_top f Hs) as (f1 & H1 & H2).
    exists f1. split; [exact H1|]. split; [exact H2|]. rewrite H2. reflexivity.
  Qed.

  Lemma E_shape : forall L pl', List.In pl' (flat_map grow_exp L) ->
    exists pl e n, List.In pl L /\ pl' = (pl_join pl, [CEdge e; CNode n]).
  Proof.
    intros L pl' H. apply in_flat_map in H. destruct H as (pl & Hpl & H).
    unfold grow_exp in H. destruct (leaf_src idx (snd pl)) as [[n|]|]; try contradiction.
    apply in_map_iff in H. destruct H as (te & <- & _).
    exists pl, (snd te), (fst te). auto.
  Qed.
End Grow.


Lemma flat_steps_cols : forall st steps b t, flat_steps st b steps = Ok t ->
  cols t = cols b ++ flat_map s_cols steps.
Proof.
  intros st steps. induction steps as [|s r IH]; intros b t H.
  - cbn in H. injection H as <-. cbn [flat_map]. rewrite app_nil_r. reflexivity.
  - cbn [flat_steps] in H.
    destruct (of_opt (pos_first (s_from s) (cols b))); cbn [rbind] in H; [|discriminate].
    destruct (expand_rows st true (cols b) (s_from s) (s_dir s) (s_type s) (rows b)) as [rs|]; cbn [rbind] in H; [|discriminate].
    apply IH in H. cbn [cols mkT] in H. rewrite H. cbn [flat_map]. rewrite app_assoc. reflexivity.
Qed.

Lemma flat_steps_nil_rows : forall st steps b t, rows b = [] -> flat_steps st b steps = Ok t -> rows t = [].
Proof.
  intros st steps. induction steps as [|s r IH]; intros b t Hb H.
  - cbn in H. injection H as <-. exact Hb.
  - cbn [flat_steps] in H.
    destruct (of_opt (pos_first (s_from s) (cols b))); cbn [rbind] in H; [|discriminate].
    rewrite Hb in H. cbn [expand_rows rmapM rbind] in H.
    apply IH in H; [exact H|reflexivity].
Qed.

Lemma fact_steps_le : forall st i0 steps is_first f added f' a,
  fact_steps st i0 steps is_first f added = Ok (f', a) -> (added <= a <= added + List.length steps)%nat.
Proof.
  intros st i0 steps. induction steps as [|s r IH]; intros is_first f added f' a H.
  - cbn in H. injection H as <- <-. cbn. lia.
  - cbn [fact_steps] in H.
    destruct (grow_forest st true (if is_first then i0 else 1%nat) (s_dir s) (s_type s) f) as [g|]; cbn [rbind] in H; [|discriminate].
    destruct (snd g); apply IH in H; cbn [List.length]; lia.
Qed.

Lemma pos_first_last : forall seen e to, ~ List.In to seen -> to <> e ->
  pos_first to (seen ++ [e; to]) = Some (List.length seen + 1)%nat.
Proof.
  intros seen e to Hn Hne. induction seen as [|y seen IH].
  - cbn [app pos_first List.length]. 
    destruct (String.eqb to e) eqn:E1; [apply String.eqb_eq in E1; contradiction|].
    rewrite String.eqb_refl. reflexivity.
  - cbn [app pos_first List.length].
    destruct (String.eqb to y) eqn:E1.
    + apply String.eqb_eq in E1. exfalso. apply Hn. left. symmetry. exact E1.
    + rewrite IH; [reflexivity|]. intros H. apply Hn. right. exact H.
Qed.

Definition type_cond (st : store) (s : step) : bool :=
  match s_type s with
  | Some t => forallb (fun e => implb (eq_ci (etype e) t) (String.eqb (etype e) t)) (edges st)
  | None => true end.

Lemma neighbors_ci : forall st s x, type_cond st s = true ->
  neighbors st true x (s_dir s) (s_type s) = neighbors st false x (s_dir s) (s_type s).
Proof.
  intros st s x H. unfold neighbors. apply filter_ext. intros te. f_equal.
  unfold type_cond in H. unfold type_ok. destruct (s_type s) as [t|]; [|reflexivity].
  destruct (get_edge st (snd te)) as [ed|] eqn:Eg; [|reflexivity].
  unfold get_edge in Eg. apply find_some in Eg. destruct Eg as [Hin _].
  rewrite forallb_forall in H. specialize (H ed Hin).
  destruct (String.eqb (etype ed) t) eqn:E1.
  - apply String.eqb_eq in E1. unfold eq_ci. rewrite E1. apply String.eqb_refl.
  - destruct (eq_ci (etype ed) t); [discriminate|reflexivity].
Qed.

(** the steps after the first *)
Lemma fact_steps_flat_later : forall st i0 steps f cs rs added f' a t,
  rs = map pl_join (lpathsF f) ->
  (forall pl, List.In pl (lpathsF f) -> exists e n, snd pl = [CEdge e; CNode n]) ->
  (forall pl, List.In pl (lpathsF f) -> List.length (pl_join pl) = List.length cs) ->
  (exists seen e to, cs = seen ++ [e; to] /\ ~ List.In to seen /\ to <> e /\ steps_path cs (Some to) steps) ->
  flat_steps st (mkT cs rs) steps = Ok t ->
  fact_steps st i0 steps false f added = Ok (f', a) -> a = (added + List.length steps)%nat ->
  flat_map paths f' = rows t.
Proof.
  intros st i0 steps. induction steps as [|s r IH];
    intros f cs rs added f' a t Hrs Hleaf Hlen Hcs Hflat Hfact Ha.
  - cbn in Hflat, Hfact. injection Hflat as <-. injection Hfact as <- <-.
    cbn [rows mkT]. rewrite Hrs. apply paths_forest.
  - destruct Hcs as (seen & e & to & Ecs & Hnin & Hne & Hsp).
    cbn [steps_path] in Hsp. destruct Hsp as [Hfrom Hsp].
    destruct (s_cols s) as [|e2 [|to2 [|? ?]]] eqn:Esc; try contradiction.
    destruct Hsp as (Hnin2 & Hne2 & Hsp).
    cbn [flat_steps cols rows mkT] in Hflat. rewrite Hfrom in Hflat.
    assert (Hpos : pos_first to cs = Some (List.length seen + 1)%nat)
      by (rewrite Ecs; apply pos_first_last; assumption).
    rewrite Hpos in Hflat. cbn [of_opt rbind] in Hflat.
    destruct (expand_rows st true cs to (s_dir s) (s_type s) rs) as [rs1|] eqn:Eex; cbn [rbind] in Hflat; [|discriminate].
    rewrite Hrs in Eex.
    destruct (one_step st true 1%nat (s_dir s) (s_type s) cs to f rs1) as (f1 & Hg & Hl1 & Hrs1).
    + intros x. reflexivity.
    + intros pl n Hpl Hsrc. destruct (Hleaf pl Hpl) as (e' & n' & Hsn).
      pose proof (Hlen pl Hpl) as Hl. unfold pl_join in Hl, Hsrc. rewrite Hsn in Hl, Hsrc.
      rewrite Ecs, !app_length in Hl. cbn [List.length] in Hl.
      unfold src_of in Hsrc. rewrite Hpos in Hsrc. cbn [of_opt rbind] in Hsrc.
      rewrite nth_error_app2 in Hsrc by lia.
      replace (List.length seen + 1 - List.length (fst pl))%nat with 1%nat in Hsrc by lia.
      cbn [nth_error of_opt rbind cell_node_id] in Hsrc. injection Hsrc as <-.
      rewrite Hsn. reflexivity.
    + exact Eex.
    + cbn [fact_steps] in Hfact. rewrite Hg in Hfact. cbn [rbind fst snd] in Hfact.
      destruct (List.length (lpathsF f1)) eqn:Ecnt.
      * apply fact_steps_le in Hfact. cbn [List.length] in Ha. lia.
      * rewrite Esc in Hflat.
        apply (IH f1 (cs ++ [e2; to2]) rs1 (S added) f' a t Hrs1); try assumption.
        -- intros pl' Hpl'. rewrite Hl1 in Hpl'. apply E_shape in Hpl'.
           destruct Hpl' as (pl & e' & n' & _ & ->). exists e', n'. reflexivity.
        -- intros pl' Hpl'. rewrite Hl1 in Hpl'. apply E_shape in Hpl'.
           destruct Hpl' as (pl & e' & n' & Hpl & ->). unfold pl_join at 1. cbn [fst snd].
           rewrite !app_length, (Hlen pl Hpl). reflexivity.
        -- exists cs, e2, to2. auto.
        -- cbn [List.length] in Ha. lia.
Qed.

Definition rows_wf (b : tbl) : Prop := Forall (fun r => List.length r = List.length (cols b)) (rows b).

(** the statement as given is false for a base table with a row longer than its column list: the
    flat second step reads the column of the previous target by NAME (position in the column list),
    the factorized one reads the last cell *)
Example fact_chain_flat_needs_wf :
  let st := mkStore [mkNode 1 [] []; mkNode 2 [] []; mkNode 3 [] []; mkNode 4 [] []; mkNode 5 [] []]
                    [mkEdge 10 1 2 "T" []; mkEdge 11 5 3 "T" []; mkEdge 12 2 4 "T" []] [] [] in
  let b := mkT ["x"%string] [[CNode 1; CNode 7; CNode 5]] in
  let steps := [mkStep "x" Out None ["e1"; "y"]%string; mkStep "y" Out None ["e2"; "z"]%string] in
  steps <> [] /\ steps_path (cols b) None steps /\ steps_no_type_case st steps = true /\
  match flat_steps st b steps, fact_chain st b steps with
  | Ok t, Ok (a, rs) => a = List.length steps /\ rs <> rows t
  | _, _ => False
  end.
Proof.
  cbv zeta. split; [discriminate|]. split.
  - cbn. repeat split; try reflexivity; try discriminate; try (intros [H|[]]; discriminate); try (intros [H|[H|[H|[]]]]; discriminate).
  - split; [reflexivity|]. vm_compute. split; [reflexivity|discriminate].
Qed.

Lemma fact_chain_flat : forall st b steps t a rs,
  rows_wf b ->
  steps <> [] -> steps_path (cols b) None steps ->
  flat_steps st b steps = Ok t -> fact_chain st b steps = Ok (a, rs) ->
  (a = List.length steps \/ rows b = []) ->
  rs = rows t /\ chain_cols b steps = cols t.
Proof.
  intros st b steps t a rs Hwf Hne Hsp Hflat Hfact Ha.
  split; [|unfold chain_cols; symmetry; eapply flat_steps_cols; exact Hflat].
  destruct steps as [|s0 r]; [congruence|]. clear Hne.
  unfold fact_chain in Hfact.
  destruct (pos_first (s_from s0) (cols b)) as [i0|] eqn:Epos; cbn [of_opt rbind] in Hfact; [|discriminate].
  destruct (rows b) as [|r0 rest] eqn:Erows.
  - injection Hfact as <- <-. symmetry. eapply flat_steps_nil_rows; eassumption.
  - destruct Ha as [Ha|Ha]; [|discriminate]. rewrite <- Erows in *. clear Erows r0 rest.
    destruct (fact_steps st i0 (s0 :: r) true (map (fun r1 => FNode r1 None) (rows b)) 0) as [[f' a']|] eqn:Efs;
      cbn [rbind fst snd] in Hfact; [|discriminate].
    injection Hfact as <- <-.
    set (f0 := map (fun r1 => FNode r1 None) (rows b)) in *.
    assert (HL0 : lpathsF f0 = map (fun r1 => ([], r1)) (rows b)).
    { unfold lpathsF, f0. cbn [lpaths]. rewrite (leaves_lpaths (pl_pre []) (fun r1 : row => r1)). reflexivity. }
    assert (Hrows : rows b = map pl_join (lpathsF f0)).
    { rewrite HL0, map_map. symmetry. apply map_id. }
    cbn [steps_path] in Hsp. destruct Hsp as [_ Hsp].
    destruct (s_cols s0) as [|e [|to [|? ?]]] eqn:Esc; try contradiction.
    destruct Hsp as (Hnin & Hne & Hsp).
    cbn [flat_steps] in Hflat. rewrite Epos in Hflat. cbn [of_opt rbind] in Hflat.
    destruct (expand_rows st true (cols b) (s_from s0) (s_dir s0) (s_type s0) (rows b)) as [rs1|] eqn:Eex;
      cbn [rbind] in Hflat; [|discriminate].
    rewrite Hrows in Eex.
    destruct (one_step st true i0 (s_dir s0) (s_type s0) (cols b) (s_from s0) f0 rs1) as (f1 & Hg & Hl1 & Hrs1).
    + reflexivity.
    + intros pl n Hpl Hsrc. rewrite HL0 in Hpl. apply in_map_iff in Hpl. destruct Hpl as (r1 & <- & _).
      unfold pl_join in Hsrc. cbn [fst snd app] in Hsrc |- *.
      unfold src_of in Hsrc. rewrite Epos in Hsrc. cbn [of_opt rbind] in Hsrc. unfold leaf_src.
      destruct (nth_error r1 i0) as [c|]; cbn [of_opt rbind] in Hsrc; [|discriminate].
      destruct (cell_node_id c); cbn [of_opt] in Hsrc; [|discriminate]. injection Hsrc as <-. reflexivity.
    + exact Eex.
    + cbn [fact_steps] in Efs. rewrite Hg in Efs. cbn [rbind fst snd] in Efs.
      destruct (List.length (lpathsF f1)) eqn:Ecnt.
      * apply fact_steps_le in Efs. cbn [List.length] in Ha. lia.
      * rewrite Esc in Hflat.
        apply (fact_steps_flat_later st i0 r f1 (cols b ++ [e; to]) rs1 1%nat f' a' t Hrs1); try assumption.
        -- intros pl' Hpl'. rewrite Hl1 in Hpl'. apply E_shape in Hpl'.
           destruct Hpl' as (pl & e' & n' & _ & ->). exists e', n'. reflexivity.
        -- intros pl' Hpl'. rewrite Hl1 in Hpl'. apply E_shape in Hpl'.
           destruct Hpl' as (pl & e' & n' & Hpl & ->). unfold pl_join at 1. cbn [fst snd].
           rewrite !app_length. cbn [List.length]. f_equal.
           rewrite HL0 in Hpl. apply in_map_iff in Hpl. destruct Hpl as (r1 & <- & Hr1).
           unfold pl_join. cbn [fst snd app]. unfold rows_wf in Hwf. rewrite Forall_forall in Hwf. apply Hwf. exact Hr1.
        -- exists (cols b), e, to. auto.
Qed.


(** * (8) The composite *)

Fixpoint plan_chain (p : lop) : lop :=
  match p with
  | LReturn _ _ i | LProject _ i | LSort _ i | LSkip _ i | LLimit _ i | LDistinct i | LAggregate _ _ i => plan_chain i
  | _ => p
  end.
Definition plan_hygiene (p : lop) : Prop :=
  chain_hygiene (plan_chain p) /\
  forall e i, List.In (LFilter e i) (subplans p) -> ~ List.In anon (expr_props e).

(** ** subplans *)
Lemma subplans_refl : forall p, List.In p (subplans p).
Proof. intros p. destruct p; left; reflexivity. Qed.

Lemma subplans_trans : forall p s s', List.In s (subplans p) -> List.In s' (subplans s) -> List.In s' (subplans p).
Proof.
  induction p; intros s s' H Hs'; cbn [subplans] in H |- *;
    (destruct H as [<-|H]; [exact Hs'|]); try contradiction; right; eauto.
Qed.

Lemma sub_filter_input : forall p e i, List.In (LFilter e i) (subplans p) -> List.In i (subplans p).
Proof. intros p e i H. eapply subplans_trans; [exact H|]. right. apply subplans_refl. Qed.
Lemma sub_expand_input : forall p f t ev d ty mn mx i,
  List.In (LExpand f t ev d ty mn mx i) (subplans p) -> List.In i (subplans p).
Proof. intros. eapply subplans_trans; [eassumption|]. right. apply subplans_refl. Qed.

Lemma chain_only_sub : forall q s, chain_only q = true -> List.In s (subplans q) -> chain_only s = true.
Proof.
  induction q; intros s Hq H; cbn [chain_only] in Hq; try discriminate; cbn [subplans] in H;
    (destruct H as [<-|H]; [exact Hq|]); try contradiction; eauto.
Qed.

Lemma chain_steps_sub : forall q, List.In (snd (chain_steps q)) (subplans q).
Proof.
  induction q; try (left; reflexivity).
  cbn [chain_steps]. destruct (is_single_hop minh maxh); [|left; reflexivity].
  destruct (chain_steps q) as [ss b]. cbn [snd] in *. right. exact IHq.
Qed.

(** ** (i) the chain that [runc] tracks *)
Definition chain_of (o : opts) (st : store) (q : lop) : option chain :=
  match q with
  | LExpand _ _ _ _ _ minh maxh _ =>
      if is_single_hop minh maxh
      then Some (mkChain (fst (runc o st (snd (chain_steps q)))) (fst (chain_steps q)))
      else None
  | _ => None
  end.

Lemma chain_of_none : forall o st q, chain_of o st q = None -> chain_steps q = ([], q).
Proof.
  intros o st q H. destruct q; try reflexivity. cbn [chain_of] in H. cbn [chain_steps].
  destruct (is_single_hop minh maxh); [discriminate|reflexivity].
Qed.

Lemma chain_of_some : forall o st q c, chain_of o st q = Some c ->
  c = mkChain (fst (runc o st (snd (chain_steps q)))) (fst (chain_steps q)).
Proof.
  intros o st q c H. destruct q; try discriminate. unfold chain_of in H.
  destruct (is_single_hop minh maxh); [|discriminate]. injection H as <-. reflexivity.
Qed.

Lemma runc_chain : forall o st q, snd (runc o st q) = chain_of o st q.
Proof.
  intros o st q. induction q; try reflexivity.
  - cbn [runc]. destruct (runc o st q) as [rin cin] eqn:E. cbn [snd] in IHq.
    assert (Hr : rin = fst (runc o st q)) by (rewrite E; reflexivity).
    cbn [chain_of]. destruct (is_single_hop minh maxh) eqn:Hs; [|reflexivity]. cbn [snd]. f_equal.
    cbn [chain_steps]. rewrite Hs. subst cin rin.
    destruct (chain_of o st q) as [c|] eqn:Ec.
    + rewrite (chain_of_some _ _ _ _ Ec). cbn [ch_base ch_steps].
      destruct (chain_steps q) as [ss b]. reflexivity.
    + rewrite (chain_of_none _ _ _ Ec). reflexivity.
  - cbn [runc]. destruct (runc o st q); reflexivity.
  - cbn [runc]. destruct (runc o st q); reflexivity.
Qed.

(** ** (ii) [sem_ops] of a chain of single-hop expands *)
Lemma rbind_ok : forall {A} (r : res A), (do x <- r; Ok x) = r.
Proof. intros A r. destruct r; reflexivity. Qed.

Lemma flat_steps_app : forall st ss s t,
  flat_steps st t (ss ++ [s]) = do t' <- flat_steps st t ss; flat_steps st t' [s].
Proof.
  intros st ss s. induction ss as [|s1 r IH]; intros t; [reflexivity|].
  cbn [app flat_steps].
  destruct (of_opt (pos_first (s_from s1) (cols t))); cbn [rbind]; [|reflexivity].
  destruct (expand_rows st true (cols t) (s_from s1) (s_dir s1) (s_type s1) (rows t)); cbn [rbind]; [|reflexivity].
  apply IH.
Qed.

Lemma sem_ops_chain : forall st q,
  sem_ops st q = do tb <- sem_ops st (snd (chain_steps q)); flat_steps st tb (fst (chain_steps q)).
Proof.
  intros st q. induction q;
    try (cbn [chain_steps fst snd flat_steps]; symmetry; apply rbind_ok).
  cbn [chain_steps]. destruct (is_single_hop minh maxh) eqn:Hs;
    [|cbn [fst snd flat_steps]; symmetry; apply rbind_ok].
  destruct (chain_steps q) as [ss b]. cbn [fst snd] in *.
  cbn [sem_ops]. rewrite IHq, Hs.
  destruct (sem_ops st b) as [tb|]; cbn [rbind]; [|reflexivity].
  rewrite flat_steps_app.
  destruct (flat_steps st tb ss) as [t'|]; cbn [rbind]; [|reflexivity].
  cbn [flat_steps s_from s_dir s_type s_cols].
  destruct (of_opt (pos_first from (cols t'))); cbn [rbind]; [|reflexivity].
  destruct (expand_rows st true (cols t') from d ty (rows t')); reflexivity.
Qed.

Lemma chain_cols_steps : forall q, chain_only q = true ->
  chain_cols_of q = chain_cols_of (snd (chain_steps q)) ++ flat_map s_cols (fst (chain_steps q)).
Proof.
  induction q; intros Hq; cbn [chain_only] in Hq; try discriminate;
    try (cbn [chain_steps fst snd flat_map]; rewrite app_nil_r; reflexivity).
  cbn [chain_steps]. destruct (is_single_hop minh maxh);
    [|cbn [fst snd flat_map]; rewrite app_nil_r; reflexivity].
  specialize (IHq Hq). destruct (chain_steps q) as [ss b]. cbn [fst snd] in *.
  cbn [chain_cols_of]. rewrite IHq, flat_map_app. cbn [flat_map s_cols]. rewrite app_nil_r, app_assoc. reflexivity.
Qed.

(** ** (iii) typing of chain tables *)
Definition cell_typed (ecs : list string) (name : string) (c : cell) : Prop :=
  (exists i, c = CNode i) \/ ((exists i, c = CEdge i) /\ List.In name ecs).
Definition tbl_typed (ecs : list string) (t : tbl) : Prop :=
  Forall (fun r => Forall2 (cell_typed ecs) (cols t) r) (rows t).

Lemma cell_typed_mono : forall ecs ecs' n c, incl ecs ecs' -> cell_typed ecs n c -> cell_typed ecs' n c.
Proof. intros ecs ecs' n c Hi [H|[H1 H2]]; [left; exact H|right; split; auto]. Qed.

Lemma rmapM_in : forall {A B} (f : A -> res (list B)) l out y, rmapM f l = Ok out -> List.In y out ->
  exists a x, List.In a l /\ f a = Ok x /\ List.In y x.
Proof.
  intros A B f l. induction l as [|a l IH]; intros out y H Hy.
  - cbn in H. injection H as <-. contradiction.
  - cbn [rmapM] in H. destruct (f a) as [x|] eqn:Ef; cbn [rbind] in H; [|discriminate].
    destruct (rmapM f l) as [z|] eqn:Er; cbn [rbind] in H; [|discriminate]. injection H as <-.
    apply in_app_or in Hy. destruct Hy as [Hy|Hy].
    + exists a, x. split; [left; reflexivity|auto].
    + destruct (IH z y eq_refl Hy) as (a' & x' & Ha' & Hf' & Hy'). exists a', x'. split; [right; exact Ha'|auto].
Qed.

Lemma Forall2_map_r : forall {A B C} (P : A -> B -> Prop) (Q : A -> C -> Prop) (g : B -> C) l r,
  Forall2 P l r -> (forall a b, P a b -> Q a (g b)) -> Forall2 Q l (map g r).
Proof. intros A B C P Q g l r H Hg. induction H; cbn [map]; constructor; auto. Qed.

Lemma Forall2_impl' : forall {A B} (P Q : A -> B -> Prop) l r,
  (forall a b, P a b -> Q a b) -> Forall2 P l r -> Forall2 Q l r.
Proof. intros A B P Q l r Hi H. induction H; constructor; auto. Qed.

Lemma chain_typed : forall st q t, chain_only q = true -> sem_ops st q = Ok t ->
  cols t = chain_cols_of q /\ tbl_typed (chain_edge_cols q) t.
Proof.
  intros st q. induction q; intros t Hq H; cbn [chain_only] in Hq; try discriminate.
  - cbn in H. injection H as <-. split; [reflexivity|].
    unfold tbl_typed. cbn [rows cols mkT]. unfold scan_rows. apply Forall_forall. intros r Hr.
    apply in_map_iff in Hr. destruct Hr as (n & <- & _). constructor; [|constructor]. left. eexists. reflexivity.
  - cbn [sem_ops] in H. destruct (sem_ops st q) as [ti|] eqn:Ei; cbn [rbind] in H; [|discriminate].
    destruct (IHq ti Hq eq_refl) as [Hc Ht].
    destruct (of_opt (pos_first from (cols ti))); cbn [rbind] in H; [|discriminate].
    match type of H with (do rs <- ?X; _) = _ => destruct X as [rs|] eqn:Ers end; cbn [rbind] in H; [|discriminate].
    injection H as <-. cbn [cols rows mkT chain_cols_of chain_edge_cols]. split; [rewrite Hc; reflexivity|].
    unfold tbl_typed in *. cbn [cols rows mkT]. apply Forall_forall. intros r' Hr'.
    rewrite Forall_forall in Ht.
    assert (Hnew : forall ea nb, Forall2 (cell_typed (edge_col ev :: chain_edge_cols q)) [edge_col ev; to] [CEdge ea; CNode nb]).
    { intros ea nb. constructor; [right; split; [eexists; reflexivity|left; reflexivity]|].
      constructor; [left; eexists; reflexivity|constructor]. }
    destruct (is_single_hop minh maxh).
    + unfold expand_rows in Ers. destruct (rmapM_in _ _ _ _ Ers Hr') as (r & x & Hr & Hf & Hx).
      destruct (src_of (cols ti) from r); cbn [rbind] in Hf; [|discriminate]. injection Hf as <-.
      apply in_map_iff in Hx. destruct Hx as (te & <- & _).
      apply Forall2_app; [|apply Hnew].
      eapply Forall2_impl'; [|apply Ht; exact Hr]. intros n c. apply cell_typed_mono. apply incl_tl, incl_refl.
    + unfold vle_rows in Ers. destruct (rmapM_in _ _ _ _ Ers Hr') as (r & x & Hr & Hf & Hx).
      destruct (src_of (cols ti) from r); cbn [rbind] in Hf; [|discriminate]. injection Hf as <-.
      apply in_map_iff in Hx. destruct Hx as (te & <- & _).
      apply Forall2_app; [|apply Hnew].
      eapply (Forall2_map_r (cell_typed (chain_edge_cols q))); [apply Ht; exact Hr|].
      intros n c [[i ->]|[[i ->] Hin]].
      * left. exists i. reflexivity.
      * right. split; [exists i; reflexivity|right; exact Hin].
  - cbn [sem_ops] in H. destruct (sem_ops st q) as [ti|] eqn:Ei; cbn [rbind] in H; [|discriminate].
    destruct (IHq ti Hq eq_refl) as [Hc Ht]. injection H as <-.
    cbn [chain_cols_of chain_edge_cols]. split; [exact Hc|].
    unfold tbl_typed, filter_tbl in *. cbn [cols rows mkT]. rewrite Forall_forall in *.
    intros r Hr. apply filter_In in Hr. apply Ht. tauto.
Qed.

Lemma plan_cols_chain : forall st q t, chain_only q = true -> sem_ops st q = Ok t -> plan_cols q = Ok (cols t).
Proof.
  intros st q. induction q; intros t Hq H; cbn [chain_only] in Hq; try discriminate.
  - cbn in H. injection H as <-. reflexivity.
  - cbn [sem_ops] in H. destruct (sem_ops st q) as [ti|] eqn:Ei; cbn [rbind] in H; [|discriminate].
    cbn [plan_cols]. rewrite (IHq ti Hq eq_refl). cbn [rbind].
    destruct (of_opt (pos_first from (cols ti))); cbn [rbind] in H |- *; [|discriminate].
    match type of H with (do rs <- ?X; _) = _ => destruct X as [rs|] end; cbn [rbind] in H; [|discriminate].
    injection H as <-. reflexivity.
  - cbn [sem_ops] in H. destruct (sem_ops st q) as [ti|] eqn:Ei; cbn [rbind] in H; [|discriminate].
    injection H as <-. cbn [plan_cols]. apply (IHq ti Hq eq_refl).
Qed.

Lemma Forall2_nth : forall {A B} (P : A -> B -> Prop) l1 l2 j a b,
  Forall2 P l1 l2 -> nth_error l1 j = Some a -> nth_error l2 j = Some b -> P a b.
Proof.
  intros A B P l1 l2 j a b H. revert j. induction H; intros j Ha Hb; destruct j; cbn in Ha, Hb; try discriminate.
  - injection Ha as <-. injection Hb as <-. assumption.
  - eauto.
Qed.

Lemma pos_last_nth : forall x cs j, pos_last x cs = Some j -> nth_error cs j = Some x.
Proof.
  intros x cs. induction cs as [|y cs IH]; intros j H; cbn [pos_last] in H; [discriminate|].
  destruct (pos_last x cs) as [i|].
  - injection H as <-. cbn. apply IH. reflexivity.
  - destruct (String.eqb x y) eqn:E; [|discriminate]. injection H as <-. apply String.eqb_eq in E. subst. reflexivity.
Qed.

Lemma typed_row_look : forall ecs cs r x c, Forall2 (cell_typed ecs) cs r -> row_look cs r x = Some c ->
  ~ List.In x ecs -> exists i, c = CNode i.
Proof.
  intros ecs cs r x c H Hl Hn. unfold row_look in Hl.
  destruct (pos_last x cs) as [j|] eqn:Ej; cbn [obind] in Hl; [|discriminate].
  apply pos_last_nth in Ej. destruct (Forall2_nth _ _ _ _ _ _ H Ej Hl) as [Hc|[_ Hc]]; [exact Hc|contradiction].
Qed.

Lemma reads_node_cnode : forall st i, reads_node st (CNode i).
Proof.
  intros st i k v H. unfold fprop in H. cbn [cell_node_id cell_edge_id] in H.
  destruct (get_node st i) as [n|] eqn:Eg; [|discriminate].
  exists n. split; [|exact H]. unfold get_node in Eg. apply find_some in Eg. tauto.
Qed.


(** ** extra hygiene needed by the composite *)
(** every expand target is a named variable (not the planner's name of anonymous edge columns) *)
Fixpoint chain_tos_ok (p : lop) : bool :=
  match p with
  | LExpand _ to _ _ _ _ _ i => negb (String.eqb to anon) && chain_tos_ok i
  | LFilter _ i => chain_tos_ok i
  | _ => true
  end.
(** no "count of non-null" without an argument *)
Definition agg_arg_ok (a : aggx) : bool :=
  match ag_fn a, ag_arg a with ACountNN, None => false | _, _ => true end.
Definition aggs_args_ok (p : lop) : Prop :=
  forall gb aggs i, List.In (LAggregate gb aggs i) (subplans p) -> forallb agg_arg_ok aggs = true.

(** ** (v) the finding classes restricted to a subplan *)
Lemma existsb_false_In : forall {A} (f : A -> bool) l x, existsb f l = false -> List.In x l -> f x = false.
Proof.
  intros A f l x H Hx. destruct (f x) eqn:E; [|reflexivity].
  assert (existsb f l = true) by (apply existsb_exists; exists x; auto). congruence.
Qed.

Lemma existsb_forallb : forall {A} (F G : A -> bool) l,
  (forall x, List.In x l -> F x = false -> G x = true) -> existsb F l = false -> forallb G l = true.
Proof.
  intros A F G l H He. apply forallb_forall. intros x Hx. apply H; [exact Hx|].
  eapply existsb_false_In; eassumption.
Qed.

Section Classes.
  Variables (st : store) (p0 : lop).
  Hypothesis Hk : k_c10_any st p0 = false.

  Lemma k_split :
    k_index_num st p0 = false /\ k_range_num st p0 = false /\ k_fact_missing_level st p0 = false /\
    k_fact_not_path p0 = false.
  Proof.
    pose proof Hk as H. unfold k_c10_any in H. rewrite !orb_false_iff in H. tauto.
  Qed.

  Lemma K_index : forall s x l e, List.In s (subplans p0) -> index_applies st s = Some (x, l, e) ->
    forall c, List.In c (collect_eq x e) -> num_mix st (fst c) (snd c) = false.
  Proof.
    intros s x l e Hs Hi. destruct k_split as (H2 & _).
    pose proof (existsb_false_In _ _ _ H2 Hs) as Hf2. cbn beta in Hf2. rewrite Hi in Hf2.
    intros c Hc. exact (existsb_false_In _ _ _ Hf2 Hc).
  Qed.

  Lemma K_range : forall s k vs, List.In s (subplans p0) -> range_applies s = Some (k, vs) ->
    index_applies st s = None ->
    forall v, List.In v vs -> num_mix st k v = false /\ is_bool v = false.
  Proof.
    intros s k vs Hs Hr Hi v Hv. destruct k_split as (_ & H & _).
    pose proof (existsb_false_In _ _ _ H Hs) as Hf. cbn beta in Hf. rewrite Hr, Hi in Hf.
    cbn [negb andb] in Hf. pose proof (existsb_false_In _ _ _ Hf Hv) as Hf2. cbn beta in Hf2.
    apply orb_false_iff in Hf2. exact Hf2.
  Qed.

  Lemma in_fact_chains : forall s, List.In s (subplans p0) -> (2 <= List.length (fst (chain_steps s)))%nat ->
    List.In (chain_steps s) (fact_chains p0).
  Proof.
    intros s Hs Hl. unfold fact_chains. apply in_flat_map. exists s. split; [exact Hs|].
    cbv zeta. apply Nat.leb_le in Hl. rewrite Hl. left. reflexivity.
  Qed.

  Lemma K_missing : forall s b, List.In s (subplans p0) -> (2 <= List.length (fst (chain_steps s)))%nat ->
    run (opts_engine false) st (snd (chain_steps s)) = Ok b ->
    exists a rs, fact_chain st b (fst (chain_steps s)) = Ok (a, rs) /\
                 (a = List.length (fst (chain_steps s)) \/ rows b = []).
  Proof.
    intros s b Hs Hl Hr. destruct k_split as (_ & _ & H & _).
    pose proof (existsb_false_In _ _ _ H (in_fact_chains s Hs Hl)) as Hf. cbn beta in Hf.
    rewrite Hr in Hf. destruct (fact_chain st b (fst (chain_steps s))) as [[a rs]|]; [|discriminate].
    exists a, rs. split; [reflexivity|].
    apply andb_false_iff in Hf. destruct Hf as [Hf|Hf]; apply negb_false_iff in Hf.
    - left. apply Nat.eqb_eq in Hf. exact Hf.
    - right. destruct (rows b); [reflexivity|discriminate].
  Qed.

  Lemma K_not_path : forall s, List.In s (subplans p0) -> (2 <= List.length (fst (chain_steps s)))%nat ->
    not_a_path None (fst (chain_steps s)) = false.
  Proof.
    intros s Hs Hl. destruct k_split as (_ & _ & _ & H).
    exact (existsb_false_In _ _ _ H (in_fact_chains s Hs Hl)).
  Qed.

  Lemma K_agg_distinct : forall (aggs : list aggx),
    forallb (fun a => match simple_count a with Some _ => true | None => false end) aggs = true ->
    existsb ag_distinct aggs = false.
  Proof.
    intros aggs Hsc. induction aggs as [|a aggs IH]; [reflexivity|]. cbn [forallb existsb] in *.
    apply andb_true_iff in Hsc. destruct Hsc as [Ha Hr]. rewrite (IH Hr), orb_false_r.
    unfold simple_count in Ha. destruct (ag_distinct a); [discriminate Ha|reflexivity].
  Qed.
End Classes.

Lemma lits_sub : forall p e i, plan_lits_ok p = true -> List.In (LFilter e i) (subplans p) -> lits_ok e = true.
Proof.
  induction p; intros e0 i0 Hl H; cbn [subplans] in H; cbn [plan_lits_ok] in Hl;
    (destruct H as [H|H]; [try discriminate|]); try contradiction; eauto.
  - injection H as <- <-. apply andb_true_iff in Hl. tauto.
  - apply andb_true_iff in Hl. destruct Hl as [_ Hl]. eauto.
Qed.

Lemma edge_cols_sub : forall p0 s y, List.In s (subplans p0) -> List.In y (chain_edge_cols s) ->
  y = anon \/ List.In y (plan_edge_vars p0).
Proof.
  intros p0 s. induction s; intros y Hs Hx; cbn [chain_edge_cols] in Hx; try contradiction.
  - destruct Hx as [<-|Hx].
    + destruct ev as [r|]; [|left; reflexivity]. right. unfold plan_edge_vars. apply in_flat_map.
      eexists. split; [exact Hs|]. left. reflexivity.
    + apply IHs; [|exact Hx]. eapply sub_expand_input; exact Hs.
  - apply IHs; [|exact Hx]. eapply sub_filter_input; exact Hs.
Qed.

(** ** [steps_path] from column hygiene *)
Definition nonanon (c : string) : bool := negb (String.eqb c anon).
Definition steps_named (ss : list step) : Prop :=
  Forall (fun s => exists e to, s_cols s = [e; to] /\ to <> anon) ss.

Lemma nodup_filter_mid : forall (A B : list string) x, nonanon x = true ->
  NoDup (filter nonanon (A ++ x :: B)) -> ~ List.In x A /\ ~ List.In x B.
Proof.
  intros A B x Hx H. rewrite filter_app in H. cbn [filter] in H. rewrite Hx in H.
  apply NoDup_remove_2 in H. split; intros Hi; apply H; apply in_or_app; [left|right]; apply filter_In; auto.
Qed.

Lemma steps_path_of_hygiene : forall ss seen prev,
  steps_named ss -> NoDup (filter nonanon (seen ++ flat_map s_cols ss)) ->
  not_a_path prev ss = false -> steps_path seen prev ss.
Proof.
  induction ss as [|s r IH]; intros seen prev Hn Hnd Hp; [exact I|].
  inversion Hn as [|? ? (e & to & Esc & Hto) Hn']; subst.
  cbn [not_a_path] in Hp. apply orb_false_iff in Hp. destruct Hp as [Hp1 Hp2].
  cbn [steps_path]. split.
  - destruct prev as [t|]; [|exact I]. apply negb_false_iff, String.eqb_eq in Hp1. symmetry. exact Hp1.
  - rewrite Esc. cbn [flat_map] in Hnd. rewrite Esc in Hnd.
    assert (Hx : nonanon to = true) by (unfold nonanon; apply negb_true_iff, String.eqb_neq; exact Hto).
    change (seen ++ [e; to] ++ flat_map s_cols r) with (seen ++ e :: to :: flat_map s_cols r) in Hnd.
    assert (Hnd' : NoDup (filter nonanon ((seen ++ [e]) ++ to :: flat_map s_cols r)))
      by (rewrite <- app_assoc; exact Hnd).
    destruct (nodup_filter_mid _ _ _ Hx Hnd') as [H1 _].
    split; [intros Hi; apply H1, in_or_app; left; exact Hi|].
    split; [intros ->; apply H1, in_or_app; right; left; reflexivity|].
    apply IH; [exact Hn'| |].
    + rewrite <- app_assoc. exact Hnd.
    + rewrite Esc in Hp2. exact Hp2.
Qed.

Lemma steps_named_chain : forall q, chain_only q = true -> chain_tos_ok q = true ->
  steps_named (fst (chain_steps q)).
Proof.
  induction q; intros Hq Ht; cbn [chain_only] in Hq; try discriminate; try (constructor).
  cbn [chain_steps]. destruct (is_single_hop minh maxh); [|constructor].
  cbn [chain_tos_ok] in Ht. apply andb_true_iff in Ht. destruct Ht as [Ht1 Ht2].
  specialize (IHq Hq Ht2). destruct (chain_steps q) as [ss b]. cbn [fst] in *.
  apply Forall_app. split; [exact IHq|]. constructor; [|constructor].
  exists (edge_col ev), to. split; [reflexivity|]. apply negb_true_iff, String.eqb_neq in Ht1. exact Ht1.
Qed.

Lemma NoDup_app_l : forall {A} (l1 l2 : list A), NoDup (l1 ++ l2) -> NoDup l1.
Proof.
  intros A l1 l2. induction l1 as [|a l1 IH]; intros H; [constructor|].
  cbn [app] in H. inversion H as [|? ? Hn Hd]; subst. constructor.
  - intros Hi. apply Hn. apply in_or_app. left. exact Hi.
  - apply IH. exact Hd.
Qed.

Lemma chain_hygiene_input_e : forall f t ev d ty mn mx i, chain_hygiene (LExpand f t ev d ty mn mx i) -> chain_hygiene i.
Proof.
  intros f t ev d ty mn mx i H. unfold chain_hygiene in *. cbn [chain_cols_of] in H.
  rewrite filter_app in H. eapply NoDup_app_l. exact H.
Qed.

Lemma chain_steps_path : forall q, chain_only q = true -> chain_hygiene q -> chain_tos_ok q = true ->
  not_a_path None (fst (chain_steps q)) = false ->
  steps_path (chain_cols_of (snd (chain_steps q))) None (fst (chain_steps q)).
Proof.
  intros q Hq Hh Ht Hp. apply steps_path_of_hygiene; [apply steps_named_chain; assumption| |exact Hp].
  rewrite <- chain_cols_steps by exact Hq. exact Hh.
Qed.


Lemma try_index_applies : forall st x label e t',
  try_index st (idx_of st) e (LScan x label) = Some t' ->
  index_applies st (LFilter e (LScan x label)) = Some (x, label, e).
Proof.
  intros st x label e t' H. unfold try_index in H.
  destruct (try_index_pre st (idx_of st) e (LScan x label)) as [t0|] eqn:E0; [|discriminate]. clear H.
  unfold try_index_pre in E0. unfold index_applies.
  destruct (collect_eq x e); [discriminate|]. destruct (existsb _ _); [reflexivity|discriminate].
Qed.

Lemma extract_range_no_eq : forall e r x, extract_range e = Some r -> collect_eq x e = [].
Proof.
  intros e r x H. destruct e as [|?|? ?|op a b|? ?|? ?|?|?|?|? ?|? ?]; try discriminate.
  destruct a as [va|ya|xa ka|? ? ?|? ?|? ?|?|?|?|? ?|? ?]; try discriminate;
  destruct b as [vb|yb|xb kb|? ? ?|? ?|? ?|?|?|?|? ?|? ?]; try discriminate;
  destruct op; try discriminate; reflexivity.
Qed.

Lemma extract_between_no_eq : forall e r x, extract_between e = Some r -> collect_eq x e = [].
Proof.
  intros e r x H. destruct e as [|?|? ?|? ? ?|a b|? ?|?|?|?|? ?|? ?]; try discriminate.
  cbn [extract_between] in H.
  destruct (extract_range a) as [ra|] eqn:Ea; [|discriminate].
  destruct (extract_range b) as [rb|] eqn:Eb; [|destruct ra as [[[? ?] ?] ?]; discriminate].
  cbn [collect_eq]. rewrite (extract_range_no_eq _ _ x Ea), (extract_range_no_eq _ _ x Eb). reflexivity.
Qed.

Lemma try_range_applies : forall st z x label e t',
  try_range st z e (LScan x label) = Some t' -> index_applies st (LFilter e (LScan x label)) = None.
Proof.
  intros st z x label e t' H.
  assert (Hc : collect_eq x e = []).
  { destruct (extract_between e) as [r|] eqn:Eb; [eapply extract_between_no_eq; eauto|].
    unfold try_range in H. rewrite Eb in H.
    destruct (extract_range e) as [r|] eqn:Er; [eapply extract_range_no_eq; eauto|discriminate]. }
  unfold index_applies. rewrite Hc. reflexivity.
Qed.

Lemma chain_steps_snd_single : forall f t ev d ty mn mx q, is_single_hop mn mx = true ->
  snd (chain_steps (LExpand f t ev d ty mn mx q)) = snd (chain_steps q).
Proof. intros. cbn [chain_steps]. rewrite H. destruct (chain_steps q). reflexivity. Qed.

Lemma Forall2_length' : forall {A B} (P : A -> B -> Prop) l r, Forall2 P l r -> List.length r = List.length l.
Proof. intros A B P l r H. induction H; cbn [List.length]; congruence. Qed.

Section ChainCorrect.
  Variables (st : store) (p0 : lop).
  Hypothesis Hso : store_ok st.
  Hypothesis Hvo : vals_ok st.
  Hypothesis Hzo : zone_ok st.
  Hypothesis Hk : k_c10_any st p0 = false.
  Hypothesis Hanon : forall e i, List.In (LFilter e i) (subplans p0) -> ~ List.In anon (expr_props e).
  Hypothesis Hlits : plan_lits_ok p0 = true.

  Definition plan_correct (s : lop) : Prop := forall o t, sem_ops st s = Ok t -> fst (runc o st s) = Ok t.

  Lemma fact_ready : forall q t, List.In q (subplans p0) -> chain_only q = true -> chain_hygiene q ->
    chain_tos_ok q = true -> (2 <= List.length (fst (chain_steps q)))%nat ->
    plan_correct (snd (chain_steps q)) -> sem_ops st q = Ok t ->
    exists tb a, sem_ops st (snd (chain_steps q)) = Ok tb /\
                 fact_chain st tb (fst (chain_steps q)) = Ok (a, rows t) /\
                 chain_cols tb (fst (chain_steps q)) = cols t /\
                 (a = List.length (fst (chain_steps q)) \/ rows tb = []).
  Proof.
    intros q t Hin Hco Hhy Hto Hl Hcorr H.
    rewrite sem_ops_chain in H.
    destruct (sem_ops st (snd (chain_steps q))) as [tb|] eqn:Etb; cbn [rbind] in H; [|discriminate].
    pose proof (Hcorr (opts_engine false) tb Etb) as Hrun.
    destruct (K_missing st p0 Hk q tb Hin Hl Hrun) as (a & rs & Hfc & Ha).
    assert (Hcopb : chain_only (snd (chain_steps q)) = true)
      by (eapply chain_only_sub; [exact Hco|apply chain_steps_sub]).
    destruct (chain_typed st _ tb Hcopb Etb) as [Hcols Htyped].
    assert (Hwf : rows_wf tb).
    { unfold rows_wf. unfold tbl_typed in Htyped. rewrite Forall_forall in *. intros r Hr.
      eapply Forall2_length'. apply Htyped. exact Hr. }
    assert (Hsp : steps_path (cols tb) None (fst (chain_steps q))).
    { rewrite Hcols. apply chain_steps_path; try assumption. apply (K_not_path st p0 Hk q Hin Hl). }
    assert (Hne : fst (chain_steps q) <> []).
    { intros E. rewrite E in Hl. cbn in Hl. lia. }
    destruct (fact_chain_flat st tb _ t a rs Hwf Hne Hsp H Hfc Ha) as [-> Hcc].
    exists tb, a. auto.
  Qed.

  Lemma chain_correct : forall q, List.In q (subplans p0) -> chain_only q = true -> chain_hygiene q ->
    chain_tos_ok q = true -> forall s, List.In s (subplans q) -> plan_correct s.
  Proof.
    induction q; intros Hin Hco Hhy Hto s Hs; cbn [chain_only] in Hco; try discriminate; cbn [subplans] in Hs.
    - destruct Hs as [<-|[]]. intros o t H. exact H.
    - (* LExpand *)
      cbn [chain_tos_ok] in Hto. pose proof Hto as Hto0. apply andb_true_iff in Hto. destruct Hto as [_ Hto].
      assert (IHall : forall s, List.In s (subplans q) -> plan_correct s).
      { apply IHq; [eapply sub_expand_input; exact Hin|exact Hco|eapply chain_hygiene_input_e; exact Hhy|exact Hto]. }
      destruct Hs as [<-|Hs]; [|apply IHall; exact Hs].
      intros o t H. pose proof H as Hsem. cbn [sem_ops] in H.
      destruct (sem_ops st q) as [ti|] eqn:Ei; cbn [rbind] in H; [|discriminate].
      pose proof (IHall q (subplans_refl q) o ti Ei) as Hrin.
      pose proof (runc_chain o st (LExpand from to ev d ty minh maxh q)) as Hc.
      cbn [runc] in Hc |- *.
      destruct (runc o st q) as [rin cin] eqn:E. cbn [fst] in Hrin. subst rin.
      destruct (is_single_hop minh maxh) eqn:Hsh.
      + cbn [snd] in Hc. unfold chain_of in Hc. rewrite Hsh in Hc. apply Some_inj in Hc.
        cbn [fst]. rewrite Hc. cbn [ch_steps ch_base].
        match goal with |- context [Nat.leb 2 ?n] => destruct (o_fact o && Nat.leb 2 n) eqn:Ef end.
        * apply andb_true_iff in Ef. destruct Ef as [_ Hl]. apply Nat.leb_le in Hl.
          assert (Hcorr : plan_correct (snd (chain_steps (LExpand from to ev d ty minh maxh q)))).
          { rewrite (chain_steps_snd_single _ _ _ _ _ _ _ _ Hsh). apply IHall. apply chain_steps_sub. }
          destruct (fact_ready _ t Hin Hco Hhy Hto0 Hl Hcorr Hsem) as (tb & a & Htb & Hfc & Hcc & _).
          rewrite (Hcorr o tb Htb). cbn [rbind]. rewrite Hfc. cbn [rbind snd]. rewrite Hcc.
          destruct t; reflexivity.
        * cbn [rbind]. exact H.
      + cbn [fst rbind]. exact H.
    - (* LFilter *)
      assert (IHall : forall s, List.In s (subplans q) -> plan_correct s).
      { apply IHq; [eapply sub_filter_input; exact Hin|exact Hco|exact Hhy|exact Hto]. }
      destruct Hs as [<-|Hs]; [|apply IHall; exact Hs].
      intros o t H. cbn [sem_ops] in H.
      destruct (sem_ops st q) as [ti|] eqn:Ei; cbn [rbind] in H; [|discriminate].
      injection H as <-.
      pose proof (IHall q (subplans_refl q) o ti Ei) as Hrin.
      pose proof (lits_sub p0 p q Hlits Hin) as Hle.
      cbn [runc]. destruct (runc o st q) as [rin cin] eqn:E. cbn [fst] in Hrin. subst rin. cbn [fst].
      destruct (chain_typed st q ti Hco Ei) as [Hcols Htyped].
      destruct (o_zone o && is_scan q && match zone_check st p with Some false => true | _ => false end) eqn:Ez.
      + apply andb_true_iff in Ez. destruct Ez as [Ez1 Ez]. apply andb_true_iff in Ez1. destruct Ez1 as [_ Hsc].
        assert (Hzc : zone_check st p = Some false) by (destruct (zone_check st p) as [[|]|]; congruence).
        rewrite (plan_cols_chain st q ti Hco Ei). cbn [rbind]. unfold filter_tbl, mkT. f_equal. f_equal.
        symmetry. apply filter_nil. intros r Hr.
        apply zone_prune_sound; [exact Hzo|exact Hle|exact Hzc|].
        intros x c Hx Hl. unfold tbl_typed in Htyped. rewrite Forall_forall in Htyped. specialize (Htyped r Hr).
        destruct (typed_row_look _ _ _ _ _ Htyped Hl) as [i ->]; [|apply reads_node_cnode].
        intros Hie. clear -Hsc Hie. destruct q; try discriminate Hsc. cbn [chain_edge_cols] in Hie. exact Hie.
      + destruct (if o_index o then try_index st (idx_of st) p q else None) as [t'|] eqn:Ei2.
        * destruct (o_index o); [|discriminate].
          destruct q; try (cbn in Ei2; discriminate).
          cbn in Ei. injection Ei as <-. f_equal. cbn [cols mkT].
          pose proof (try_index_applies _ _ _ _ _ Ei2) as Hia.
          pose proof (K_index st p0 Hk _ _ _ _ Hin Hia) as Hm.
          exact (index_path_eq st x label p t' Hso Hvo Hle Hm Ei2).
        * destruct (if o_range o then try_range st (o_zone o) p q else None) as [t'|] eqn:Er.
          -- destruct (o_range o); [|discriminate].
             destruct q; try (cbn in Er; discriminate).
             cbn in Ei. injection Ei as <-. f_equal. cbn [cols mkT].
             pose proof (try_range_applies _ _ _ _ _ _ Er) as Hia.
             apply (range_path_eq st (o_zone o) x label p t' Hso Hvo Hzo Hle); [|exact Er].
             intros k vs Hr. exact (K_range st p0 Hk _ k vs Hin Hr Hia).
          -- cbn [rbind]. reflexivity.
  Qed.
End ChainCorrect.


(** ** the factorized COUNT against the generic aggregate *)
Definition is_simple (a : aggx) : bool := match simple_count a with Some _ => true | None => false end.

Lemma simple_arg : forall a, is_simple a = true -> ag_arg a = None \/ exists x, ag_arg a = Some (EVar x).
Proof.
  intros a H. unfold is_simple, simple_count, simple_count_pre in H. destruct (ag_distinct a); [discriminate H|].
  destruct (ag_fn a); destruct (ag_arg a) as [[]|]; try discriminate; eauto.
Qed.

Lemma prop_cols_vars : forall es cs, (forall e, List.In e es -> exists x, e = EVar x) -> prop_cols cs es = [].
Proof.
  induction es as [|e es IH]; intros cs H; [reflexivity|].
  destruct (H e (or_introl eq_refl)) as [x ->]. cbn [prop_cols]. apply IH. intros e' He'. apply H. right. exact He'.
Qed.

Lemma agg_args_vars : forall aggs, forallb is_simple aggs = true ->
  forall e, List.In e (flat_map (fun a => match ag_arg a with Some e => [e] | None => [] end) aggs) -> exists x, e = EVar x.
Proof.
  intros aggs H e He. apply in_flat_map in He. destruct He as (a & Ha & He).
  rewrite forallb_forall in H. destruct (simple_arg a (H a Ha)) as [E|[x E]]; rewrite E in He.
  - contradiction.
  - destruct He as [<-|[]]. exists x. reflexivity.
Qed.

Lemma forallb_const_true : forall {A} (l : list A), forallb (fun _ => true) l = true.
Proof. induction l; cbn; auto. Qed.
Lemma filter_const_true : forall {A} (l : list A), filter (fun _ => true) l = l.
Proof. induction l as [|a l IH]; cbn; [reflexivity|]. rewrite IH. reflexivity. Qed.

Lemma Forall2_nth_l : forall {A B} (P : A -> B -> Prop) l r j a,
  Forall2 P l r -> nth_error l j = Some a -> exists b, nth_error r j = Some b /\ P a b.
Proof.
  intros A B P l r j a H. revert j. induction H; intros j Hj; destruct j; cbn in Hj; try discriminate.
  - injection Hj as <-. eexists. split; [reflexivity|assumption].
  - cbn. eauto.
Qed.

Lemma nonnull_ints_length : forall {A} (f : A -> val) l,
  Forall (fun r => exists z, f r = VInt z) l -> List.length (nonnull (map f l)) = List.length l.
Proof.
  intros A f l H. induction H as [|r l [z Hz] Hl IH]; [reflexivity|].
  cbn [map nonnull filter]. rewrite Hz. cbn [List.length]. unfold nonnull in IH. rewrite IH. reflexivity.
Qed.

Lemma agg_vals : forall ecs cs rs aggs acols,
  Forall (fun r => Forall2 (cell_typed ecs) cs r) rs ->
  forallb is_simple aggs = true -> existsb ag_distinct aggs = false -> forallb agg_arg_ok aggs = true ->
  mapM (fun a => match ag_arg a with Some e => do c <- key_col cs e; Ok (Some c) | None => Ok None end) aggs = Ok acols ->
  mapM (fun ac => agg_value (fst ac)
                    (match snd ac with Some c => map (fun r => cell_val (nth c r (CVal VNull))) rs | None => [] end)
                    (List.length rs)) (combine aggs acols)
  = Ok (map (fun _ => VInt (Z.of_nat (List.length rs))) aggs).
Proof.
  intros ecs cs rs aggs. induction aggs as [|a aggs IH]; intros acols Ht Hs Hd Ho H.
  - cbn in H. injection H as <-. reflexivity.
  - cbn [forallb] in Hs, Ho. cbn [existsb] in Hd.
    apply andb_true_iff in Hs, Ho. apply orb_false_iff in Hd.
    destruct Hs as [Hs1 Hs2]. destruct Ho as [Ho1 Ho2]. destruct Hd as [Hd1 Hd2].
    cbn [mapM] in H.
    destruct (match ag_arg a with Some e => do c <- key_col cs e; Ok (Some c) | None => Ok None end) as [x|] eqn:Ex;
      cbn [rbind] in H; [|discriminate].
    destruct (mapM _ aggs) as [y|] eqn:Ey; cbn [rbind] in H; [|discriminate]. injection H as <-.
    cbn [combine mapM fst snd map]. rewrite (IH y Ht Hs2 Hd2 Ho2 eq_refl).
    assert (Hv : agg_value a (match x with Some c => map (fun r => cell_val (nth c r (CVal VNull))) rs | None => [] end)
                           (List.length rs) = Ok (VInt (Z.of_nat (List.length rs)))).
    { unfold is_simple, simple_count, simple_count_pre in Hs1. rewrite Hd1 in Hs1. unfold agg_arg_ok in Ho1. unfold agg_value. rewrite Hd1.
      destruct (ag_fn a) eqn:Efn; destruct (ag_arg a) as [[]|] eqn:Earg; try discriminate; try reflexivity.
      cbn [key_col] in Ex. destruct (pos_last x0 cs) as [c|] eqn:Ep; cbn [of_opt rbind] in Ex; [|discriminate].
      injection Ex as <-. do 2 f_equal. f_equal. apply nonnull_ints_length.
      apply pos_last_nth in Ep. rewrite Forall_forall in *. intros r Hr.
      destruct (Forall2_nth_l _ _ _ _ _ (Ht r Hr) Ep) as (cl & Hcl & Hty).
      rewrite (nth_error_nth _ _ _ Hcl). destruct Hty as [[i ->]|[[i ->] _]]; eexists; reflexivity. }
    rewrite Hv. reflexivity.
Qed.

Lemma simple_coltype : forall a, is_simple a = true -> agg_coltype a = TInt.
Proof.
  intros a H. unfold is_simple, simple_count, simple_count_pre in H. destruct (ag_distinct a); [discriminate H|]. unfold agg_coltype.
  destruct (ag_fn a); try reflexivity; destruct (ag_arg a) as [[]|]; discriminate.
Qed.

Lemma push_row_ints : forall N aggs seen, forallb is_simple aggs = true -> List.length seen = List.length aggs ->
  fst (push_row (map agg_coltype aggs) seen (map (fun _ => CVal (VInt N)) aggs)) = map (fun _ => CVal (VInt N)) aggs.
Proof.
  intros N aggs. induction aggs as [|a aggs IH]; intros seen Hs Hl; [reflexivity|].
  destruct seen as [|sn seen]; [discriminate|]. cbn [forallb] in Hs. apply andb_true_iff in Hs. destruct Hs as [Hs1 Hs2].
  cbn [map push_row]. rewrite (simple_coltype a Hs1). cbn [push_typed cell_val].
  specialize (IH seen Hs2 ltac:(cbn in Hl; lia)).
  destruct (push_row (map agg_coltype aggs) seen (map (fun _ => CVal (VInt N)) aggs)) as [r'' s'']. cbn [fst] in *.
  rewrite IH. reflexivity.
Qed.

Lemma typed_rows_single : forall tys r, typed_rows tys [r] = [fst (push_row tys (map (fun _ => false) tys) r)].
Proof. intros tys r. unfold typed_rows. cbn [push_rows]. destruct (push_row _ _ r). reflexivity. Qed.

Lemma add_prop_cols_none : forall st t es, prop_cols (cols t) es = [] -> add_prop_cols st t es = Ok t.
Proof. intros st t es H. unfold add_prop_cols. rewrite H. reflexivity. Qed.

Lemma agg_count_generic : forall st ecs aggs t tout,
  Forall (fun r => Forall2 (cell_typed ecs) (cols t) r) (rows t) ->
  forallb is_simple aggs = true -> existsb ag_distinct aggs = false -> forallb agg_arg_ok aggs = true ->
  aggregate_tbl st [] aggs t = Ok tout ->
  tout = mkT (map agg_name aggs) [map (fun _ => CVal (VInt (Z.of_nat (List.length (rows t))))) aggs].
Proof.
  intros st ecs aggs t tout Ht Hs Hd Ho H.
  unfold aggregate_tbl in H. cbn [app] in H.
  rewrite (add_prop_cols_none st t _ (prop_cols_vars _ _ (agg_args_vars aggs Hs))) in H.
  cbn [rbind mapM] in H.
  destruct (mapM _ aggs) as [acols|] eqn:Eac; cbn [rbind] in H; [|discriminate].
  cbv zeta in H. cbn [map forallb row_vals_eqb] in H.
  rewrite forallb_const_true, filter_const_true in H. cbn [negb app] in H.
  match type of H with context [mapM ?f (combine aggs acols)] =>
    assert (Hav : mapM f (combine aggs acols) = Ok (map (fun _ => VInt (Z.of_nat (List.length (rows t)))) aggs))
      by (exact (agg_vals ecs (cols t) (rows t) aggs acols Ht Hs Hd Ho Eac));
    rewrite Hav in H end.
  cbn [rbind] in H.
  rewrite typed_rows_single, !map_map in H. cbn beta in H.
  rewrite push_row_ints in H; [|exact Hs|rewrite !map_length; reflexivity].
  injection H as <-. reflexivity.
Qed.

Lemma fact_count_len : forall st tb steps a rs star,
  fact_chain st tb steps = Ok (a, rs) -> (2 <= List.length steps)%nat ->
  (a = List.length steps \/ rows tb = []) -> fact_count tb a rs star = Z.of_nat (List.length rs).
Proof.
  intros st tb steps a rs star Hf Hl Ha. unfold fact_count. unfold fact_chain in Hf.
  destruct steps as [|s0 r]; [discriminate|].
  destruct (of_opt (pos_first (s_from s0) (cols tb))); cbn [rbind] in Hf; [|discriminate].
  destruct (rows tb) as [|r0 rest].
  - injection Hf as <- <-. reflexivity.
  - destruct Ha as [Ha|Ha]; [|discriminate]. destruct star; [reflexivity|].
    destruct a; [cbn in Ha, Hl; lia|reflexivity].
Qed.

Lemma chain_of_expand : forall o st i c, chain_of o st i = Some c -> plan_chain i = i.
Proof. intros o st i c H. destruct i; try discriminate; reflexivity. Qed.

Section TopCorrect.
  Variables (st : store) (p0 : lop).
  Hypothesis Hso : store_ok st.
  Hypothesis Hvo : vals_ok st.
  Hypothesis Hzo : zone_ok st.
  Hypothesis Hk : k_c10_any st p0 = false.
  Hypothesis Hanon : forall e i, List.In (LFilter e i) (subplans p0) -> ~ List.In anon (expr_props e).
  Hypothesis Hlits : plan_lits_ok p0 = true.
  Hypothesis Haggs : aggs_args_ok p0.

  Lemma top_correct : forall p, List.In p (subplans p0) -> chain_only (plan_chain p) = true ->
    chain_hygiene (plan_chain p) -> chain_tos_ok (plan_chain p) = true -> plan_correct st p.
  Proof.
    induction p; intros Hin Hco Hhy Hto; cbn [plan_chain] in Hco, Hhy, Hto;
      try (apply (chain_correct st p0 Hso Hvo Hzo Hk Hlits _ Hin Hco Hhy Hto); apply subplans_refl);
      try (assert (Hi : List.In p (subplans p0)) by (eapply subplans_trans; [exact Hin|right; apply subplans_refl]);
           specialize (IHp Hi Hco Hhy Hto)).
    1-6: intros o t H; cbn [sem_ops] in H;
         (destruct (sem_ops st p) as [ti|] eqn:Ei; cbn [rbind] in H; [|discriminate]);
         cbn [runc fst]; rewrite (IHp o ti Ei); exact H.
    (* LAggregate *)
    intros o t H. cbn [sem_ops] in H.
    destruct (sem_ops st p) as [ti|] eqn:Ei; cbn [rbind] in H; [|discriminate].
    pose proof (IHp o ti Ei) as Hrin. pose proof (runc_chain o st p) as Hc.
    cbn [runc]. destruct (runc o st p) as [rin cin] eqn:E. cbn [fst snd] in Hrin, Hc |- *. subst rin.
    destruct cin as [ch|]; [|exact H]. destruct group_by; [|exact H].
    match goal with |- (if ?c then _ else _) = _ => destruct c eqn:Ef end; [|exact H].
    symmetry in Hc. pose proof (chain_of_expand _ _ _ _ Hc) as Hpc. rewrite Hpc in Hco, Hhy, Hto.
    apply chain_of_some in Hc. subst ch. cbn [ch_steps ch_base] in *.
    apply andb_true_iff in Ef. destruct Ef as [Ef Hsc]. apply andb_true_iff in Ef. destruct Ef as [_ Hl].
    apply Nat.leb_le in Hl.
    assert (Hcorr : plan_correct st (snd (chain_steps p))).
    { apply (chain_correct st p0 Hso Hvo Hzo Hk Hlits p Hi Hco Hhy Hto). apply chain_steps_sub. }
    destruct (fact_ready st p0 Hk p ti Hi Hco Hhy Hto Hl Hcorr Ei) as (tb & a & Htb & Hfc & Hcc & Ha).
    rewrite (Hcorr o tb Htb). cbn [rbind]. rewrite Hfc. cbn [rbind fst snd].
    destruct (chain_typed st p ti Hco Ei) as [_ Hty].
    rewrite (agg_count_generic st _ aggs ti t Hty Hsc (K_agg_distinct aggs Hsc) (Haggs _ _ _ Hin) H).
    f_equal. unfold mkT. f_equal. f_equal. apply map_ext. intros a0.
    rewrite (fact_count_len st tb _ a (rows ti) _ Hfc Hl Ha). reflexivity.
  Qed.
End TopCorrect.

(** The theorem as stated is false in three ways (examples below); the proved statement adds three
    hypotheses: the plan is a stack of Return/Project/Sort/Skip/Limit/Distinct/Aggregate over one
    scan-expand-filter chain ([chain_only (plan_chain p)]), every expand target is a named variable
    ([chain_tos_ok]), and no count-non-null aggregate lacks its argument ([aggs_args_ok]). *)
Theorem run_eq_sem_ops_l : forall o st p t,
  store_ok st -> vals_ok st -> zone_ok st -> filters_in_chain p = true -> plan_hygiene p ->
  plan_lits_ok p = true -> k_c10_any st p = false ->
  chain_only (plan_chain p) = true -> chain_tos_ok (plan_chain p) = true -> aggs_args_ok p ->
  sem_ops st p = Ok t -> run o st p = Ok t.
Proof.
  intros o st p t Hso Hvo Hzo _ [Hhy Hanon] Hlits Hk Hco Hto Haggs H.
  unfold run. apply (top_correct st p Hso Hvo Hzo Hk Hlits Haggs p (subplans_refl p) Hco Hhy Hto o t H).
Qed.


(** ** why the three extra hypotheses: the statement without them fails *)
Definition cex_store : store :=
  mkStore [mkNode 1 [] []; mkNode 2 [] []; mkNode 3 [] []; mkNode 4 [] []; mkNode 5 [] []]
          [mkEdge 10 1 2 "T" []; mkEdge 11 2 3 "T" []; mkEdge 12 3 4 "T" []; mkEdge 13 1 5 "T" []] [] [].

Lemma cex_store_ok : store_ok cex_store /\ vals_ok cex_store /\ zone_ok cex_store.
Proof.
  split; [|split].
  - split; cbn; repeat (constructor; [cbn; intuition lia|]); constructor.
  - intros n k v Hn Hkv. cbn in Hn.
    repeat (destruct Hn as [<-|Hn]; [contradiction|]). contradiction.
  - intros k c H. cbn in H. discriminate.
Qed.

Definition cex_hop (f t e : string) (i : lop) : lop := LExpand f t (Some e) Out None 1 (Some 1%nat) i.

Definition unproved_statement : Prop :=
  forall o st p t, store_ok st -> vals_ok st -> zone_ok st -> filters_in_chain p = true -> plan_hygiene p ->
    plan_lits_ok p = true -> k_c10_any st p = false -> sem_ops st p = Ok t -> run o st p = Ok t.

Ltac cex p :=
  intros Hall; destruct cex_store_ok as (H1 & H2 & H3);
  assert (Hs : exists t, sem_ops cex_store p = Ok t /\ run (opts_engine true) cex_store p <> Ok t)
    by (eexists; split; [vm_compute; reflexivity|vm_compute; discriminate]);
  destruct Hs as (t & Hs & Hr); apply Hr;
  apply (Hall (opts_engine true) cex_store p t H1 H2 H3); try (vm_compute; reflexivity); try exact Hs;
  (split; [unfold chain_hygiene; cbn; repeat (constructor; [cbn; intuition discriminate|]); constructor
          |intros e i Hin; cbn in Hin; repeat (destruct Hin as [Hin|Hin]; [discriminate|]); contradiction]).

(** an expand chain with a repeated column name below a Project: [plan_hygiene] only sees the
    topmost chain *)
Example run_eq_sem_ops_l_needs_shape : ~ unproved_statement.
Proof.
  cex (cex_hop "w" "q" "e4" (LProject [(EVar "w", None)]
         (cex_hop "x" "w" "e3" (cex_hop "y" "x" "e2" (cex_hop "x" "y" "e1" (LScan "x" None)))))).
Qed.

(** expand targets named like the anonymous edge column escape [chain_hygiene] *)
Example run_eq_sem_ops_l_needs_named_targets : ~ unproved_statement.
Proof.
  cex (cex_hop anon "w" "e3" (cex_hop anon anon "e2" (cex_hop "x" anon "e1" (LScan "x" None)))).
Qed.

(** count-non-null without an argument: 0 in the generic aggregate, the row count in the factorized one *)
Example run_eq_sem_ops_l_needs_count_arg : ~ unproved_statement.
Proof.
  cex (LAggregate [] [mkAgg ACountNN None false None] (cex_hop "y" "z" "e2" (cex_hop "x" "y" "e1" (LScan "x" None)))).
Qed.
