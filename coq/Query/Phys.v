(** C10 — the physical planner: what [Planner::plan_operator] really builds for a logical plan.
    [run o st p] adds to [sem_ops] (Pattern.v) the four physical alternatives of planner.rs

      plan_filter l.912            zone-map pruning, then the property-index path, then the range
                                   path, then the generic FilterOperator
      check_zone_map_for_predicate l.962   (property.rs might_match l.1042, zone_map.rs)
      try_plan_filter_with_property_index l.1054   (store.rs find_nodes_by_properties l.1130)
      try_plan_filter_with_range_index l.1185      (store.rs find_nodes_in_range l.1076, value_in_range l.45)
      plan_expand_chain l.569 / plan_factorized_aggregate l.1754
                                   (factorized_expand.rs FactorizedExpandChain, LazyFactorizedChainOperator,
                                    factorized_aggregate.rs)

    and the plan cache of session.rs l.160-205 / cache.rs.  Every alternative can be switched off
    in [opts]; [run opts_off] is [sem_ops] (ProofsPhys.v).  No proofs in this file. *)
From Coq Require Import ZArith List Bool String Ascii Lia.
From GV Require Export Query.Pattern.
Import ListNotations.
Open Scope Z_scope.

Record opts := mkOpts { o_zone : bool; o_index : bool; o_range : bool; o_fact : bool }.
Definition opts_off : opts := mkOpts false false false false.
(** the engine: everything on; factorized execution is Config.factorized_execution *)
Definition opts_engine (factorized : bool) : opts := mkOpts true true true factorized.

(** * Zone maps (property.rs PropertyColumn::update_zone_map_on_insert, zone_map.rs ZoneMapEntry) *)
Record zentry := mkZ { zmin : option val; zmax : option val; znull : nat; zrows : nat }.
Definition zempty : zentry := mkZ None None 0 0.
Definition zone_insert (z : zentry) (v : val) : zentry :=
  match v with
  | VNull => mkZ (zmin z) (zmax z) (S (znull z)) (S (zrows z))
  | _ =>
      let mn := match zmin z with
                | None => Some v
                | Some c => match zcmp v c with Some Lt => Some v | _ => Some c end
                end in
      let mx := match zmax z with
                | None => Some v
                | Some c => match zcmp v c with Some Gt => Some v | _ => Some c end
                end in
      mkZ mn mx (znull z) (S (zrows z))
  end.
Definition zone_of (h : list val) : zentry := fold_left zone_insert h zempty.

Definition z_all_null (z : zentry) : bool := Nat.ltb 0 (zrows z) && Nat.eqb (znull z) (zrows z).
Definition z_non_null (z : zentry) : bool := Nat.ltb (znull z) (zrows z).
Definition z_eq (z : zentry) (v : val) : bool :=
  match v with
  | VNull => Nat.ltb 0 (znull z)
  | _ =>
      if z_all_null z then false else
      match zmin z, zmax z with
      | Some mn, Some mx =>
          match zcmp v mn, zcmp v mx with
          | Some Lt, _ => false
          | _, Some Gt => false
          | _, _ => true
          end
      | _, _ => z_non_null z
      end
  end.
Definition z_lt (z : zentry) (v : val) (incl : bool) : bool :=
  match zmin z with
  | Some mn => match zcmp mn v with Some Lt => true | Some Eq => incl | Some Gt => false | None => true end
  | None => Nat.ltb 0 (znull z)
  end.
Definition z_gt (z : zentry) (v : val) (incl : bool) : bool :=
  match zmax z with
  | Some mx => match zcmp mx v with Some Gt => true | Some Eq => incl | Some Lt => false | None => true end
  | None => Nat.ltb 0 (znull z)
  end.
Definition z_range (z : zentry) (lo hi : option val) (lo_incl hi_incl : bool) : bool :=
  (match lo with Some v => z_gt z v lo_incl | None => true end)
  && (match hi with Some v => z_lt z v hi_incl | None => true end).
(** PropertyColumn::might_match *)
Definition col_might_match (c : zcol) (op : cmpop) (v : val) : bool :=
  if zdirty c then true else
  let z := zone_of (zhist c) in
  match op with
  | OEq => z_eq z v
  | ONe => true        (* since 1879631; before: min = max = v pruned, see [col_might_match_pre] *)
  | OLt => z_lt z v false
  | OLe => z_lt z v true
  | OGt => z_gt z v false
  | OGe => z_gt z v true
  end.
Definition col_might_match_pre (c : zcol) (op : cmpop) (v : val) : bool :=
  match op with
  | ONe => if zdirty c then true else
           let z := zone_of (zhist c) in
           match zmin z, zmax z with
           | Some mn, Some mx =>
               negb (match zcmp mn v, zcmp mx v with Some Eq, Some Eq => true | _, _ => false end)
           | _, _ => true
           end
  | _ => col_might_match c op v
  end.
(** LpgStore::node_property_might_match: no column = might match *)
Definition node_might_match (st : store) (k : string) (op : cmpop) (v : val) : bool :=
  match lookup k (zcols st) with Some c => col_might_match c op v | None => true end.
Definition node_might_match_range (st : store) (k : string) (lo hi : option val) (li hi_i : bool) : bool :=
  match lookup k (zcols st) with
  | Some c => z_range (zone_of (zhist c)) lo hi li hi_i     (* might_match_range ignores the dirty flag *)
  | None => true
  end.

Definition flip_op (op : cmpop) : cmpop :=
  match op with OEq => OEq | ONe => ONe | OLt => OGt | OLe => OGe | OGt => OLt | OGe => OLe end.
(** check_zone_map_for_predicate: the VARIABLE of [x.k] is never looked at *)
Fixpoint zone_check (st : store) (p : lexpr) : option bool :=
  match p with
  | EAnd a b =>
      match zone_check st a, zone_check st b with
      | Some false, _ | _, Some false => Some false
      | Some true, Some true => Some true
      | _, _ => None
      end
  | EOr a b =>
      match zone_check st a, zone_check st b with
      | Some false, Some false => Some false
      | Some true, _ | _, Some true => Some true
      | _, _ => None
      end
  | ECmp op (EProp _ k) (ELit v) => Some (node_might_match st k op v)
  | ECmp op (ELit v) (EProp _ k) => Some (node_might_match st k (flip_op op) v)
  | _ => None
  end.

(** * The property-index path *)
(** collect_equality_conditions: equality conjuncts [x.k = lit] (either side) reachable through ANDs *)
Fixpoint collect_eq (x : string) (p : lexpr) : list (string * val) :=
  match p with
  | EAnd a b => collect_eq x a ++ collect_eq x b
  | ECmp OEq (EProp y k) (ELit v) => if String.eqb y x then [(k, v)] else []
  | ECmp OEq (ELit v) (EProp y k) => if String.eqb y x then [(k, v)] else []
  | _ => []
  end.
(** a property index: value -> node ids (HashableValue equality is structural on the modelled values) *)
Definition index := string -> val -> list Z.
Definition node_prop (st : store) (i : Z) (k : string) : option val :=
  match get_node st i with Some n => lookup k (nprops n) | None => None end.
(** the index the store maintains when [index_ok] holds (C14): exactly the live nodes whose value is
    structurally equal *)
Definition idx_of (st : store) : index :=
  fun k v => map nid (filter (fun n => match lookup k (nprops n) with Some v' => val_eqb v' v | None => false end) (nodes st)).
(** store.rs find_nodes_by_properties *)
Definition pick_best (cands : list (nat * list Z)) : option (nat * list Z) :=
  fold_left (fun best c => match best with
                           | None => Some c
                           | Some b => if Nat.ltb (List.length (snd c)) (List.length (snd b)) then Some c else Some b
                           end) cands None.
Fixpoint number_from {A} (i : nat) (l : list A) : list (nat * A) :=
  match l with [] => [] | a :: r => (i, a) :: number_from (S i) r end.
Definition find_by_props (st : store) (ix : index) (conds : list (string * val)) : list Z :=
  match conds with
  | [] => map nid (nodes st)
  | c0 :: _ =>
      let numbered := number_from O conds in
      let indexed_hits :=
          flat_map (fun ic => if existsb (String.eqb (fst (snd ic))) (indexed st)
                              then [(fst ic, ix (fst (snd ic)) (snd (snd ic)))] else []) numbered in
      if existsb (fun h => match snd h with [] => true | _ => false end) indexed_hits then [] else
      let start := match pick_best indexed_hits with
                   | Some s => s
                   | None => (O, (* find_nodes_by_property without index: full scan, Value == *)
                              map nid (filter (fun n => match lookup (fst c0) (nprops n) with
                                                        | Some v' => val_eqb v' (snd c0) | None => false end) (nodes st)))
                   end in
      fold_left (fun cand ic =>
                   if Nat.eqb (fst ic) (fst start) then cand
                   else filter (fun i => match node_prop st i (fst (snd ic)) with
                                         | Some v' => val_eqb v' (snd (snd ic)) | None => false end) cand)
                numbered (snd start)
  end.
Definition retain_label (st : store) (label : option string) (ids : list Z) : list Z :=
  match label with
  | None => ids
  | Some l => filter (fun i => match get_node st i with Some n => has_label n l | None => false end) ids
  end.
(** try_plan_filter_with_property_index before 08d6ceb: the NodeListOperator's rows; the predicate
    itself was NOT applied again (conjuncts that are not equalities on the scan variable were lost) *)
Definition try_index_pre (st : store) (ix : index) (p : lexpr) (input : lop) : option tbl :=
  match input with
  | LScan x label =>
      let conds := collect_eq x p in
      match conds with
      | [] => None
      | _ => if existsb (fun c => existsb (String.eqb (fst c)) (indexed st)) conds
             then Some (mkT [x] (map (fun i => [CNode i]) (retain_label st label (find_by_props st ix conds))))
             else None
      end
  | _ => None
  end.

(** since 08d6ceb a FilterOperator with the whole predicate sits on the NodeListOperator *)
Definition try_index (st : store) (ix : index) (p : lexpr) (input : lop) : option tbl :=
  match try_index_pre st ix p input with
  | Some t => Some (filter_tbl (fun r => passes_row st (cols t) r p) t)
  | None => None
  end.

(** * The range path *)
Definition is_range_op (op : cmpop) : bool := match op with OLt | OLe | OGt | OGe => true | _ => false end.
(** extract_range_predicate: (variable, property, operator with the property on the left, literal) *)
Definition extract_range (p : lexpr) : option (string * string * cmpop * val) :=
  match p with
  | ECmp op (EProp x k) (ELit v) => if is_range_op op then Some (x, k, op, v) else None
  | ECmp op (ELit v) (EProp x k) => if is_range_op op then Some (x, k, flip_op op, v) else None
  | _ => None
  end.
(** extract_between_predicate: (variable, property, min, max, min_inclusive, max_inclusive) *)
Definition extract_between (p : lexpr) : option (string * string * val * val * bool * bool) :=
  match p with
  | EAnd a b =>
      match extract_range a, extract_range b with
      | Some (x1, k1, o1, v1), Some (x2, k2, o2, v2) =>
          if negb (String.eqb x1 x2 && String.eqb k1 k2) then None else
          match o1, o2 with
          | OGe, OLe => Some (x1, k1, v1, v2, true, true)
          | OGe, OLt => Some (x1, k1, v1, v2, true, false)
          | OGt, OLe => Some (x1, k1, v1, v2, false, true)
          | OGt, OLt => Some (x1, k1, v1, v2, false, false)
          | OLe, OGe => Some (x1, k1, v2, v1, true, true)
          | OLt, OGe => Some (x1, k1, v2, v1, true, false)
          | OLe, OGt => Some (x1, k1, v2, v1, false, true)
          | OLt, OGt => Some (x1, k1, v2, v1, false, false)
          | _, _ => None
          end
      | _, _ => None
      end
  | _ => None
  end.
(** store.rs value_in_range *)
Definition value_in_range (v : val) (lo hi : option val) (li hi_i : bool) : bool :=
  (match lo with
   | Some m => match rcmp v m with Some Lt => false | Some Eq => li | Some Gt => true | None => false end
   | None => true end)
  && (match hi with
      | Some m => match rcmp v m with Some Gt => false | Some Eq => hi_i | Some Lt => true | None => false end
      | None => true end).
(** store.rs find_nodes_in_range: zone-map pre-check, then a scan of node_ids *)
Definition find_in_range (st : store) (use_zone : bool) (k : string) (lo hi : option val) (li hi_i : bool) : list Z :=
  if use_zone && negb (node_might_match_range st k lo hi li hi_i) then [] else
  map nid (filter (fun n => match lookup k (nprops n) with
                            | Some v => value_in_range v lo hi li hi_i | None => false end) (nodes st)).
Definition range_bounds (op : cmpop) (v : val) : option (option val * option val * bool * bool) :=
  match op with
  | OLt => Some (None, Some v, false, false)
  | OLe => Some (None, Some v, false, true)
  | OGt => Some (Some v, None, false, false)
  | OGe => Some (Some v, None, true, false)
  | _ => None
  end.
Definition try_range (st : store) (use_zone : bool) (p : lexpr) (input : lop) : option tbl :=
  match input with
  | LScan x label =>
      let mk ids := Some (mkT [x] (map (fun i => [CNode i]) (retain_label st label ids))) in
      match match extract_between p with
            | Some (y, k, lo, hi, li, hi_i) => if String.eqb y x then Some (k, Some lo, Some hi, li, hi_i) else None
            | None => None end with
      | Some (k, lo, hi, li, hi_i) => mk (find_in_range st use_zone k lo hi li hi_i)
      | None =>
          match extract_range p with
          | Some (y, k, op, v) =>
              if String.eqb y x then
                match range_bounds op v with
                | Some (lo, hi, li, hi_i) => mk (find_in_range st use_zone k lo hi li hi_i)
                | None => None
                end
              else None
          | None => None
          end
      end
  | _ => None
  end.

(** * Factorized expand chains *)
Record step := mkStep { s_from : string; s_dir : dir; s_type : option string; s_cols : list string }.
(** A factorized chunk as a forest: an entry carries the cells it contributes (a base row, or the
    [edge; target] pair of an expansion) and, when a deeper level EXISTS, its entries there.
    [kids = None] marks an entry of the deepest level; [Some []] is an entry without children in
    an existing level (it yields no row).  (factorized_chunk.rs keeps the same thing as flat
    per-level vectors with offsets.) *)
Inductive ftree := FNode (cells : list cell) (kids : option (list ftree)).
(** the node a deepest-level entry is expanded from: the first step reads the base row's column of
    the step's from-variable; every later step reads "column 1 of the deepest level" — the target of
    an expansion entry, or the base row's second column when no level was added so far.  [Ok None]:
    that column does not exist (nothing to expand); [Err]: it does not hold node ids. *)
Definition leaf_src (idx : nat) (cells : list cell) : res (option Z) :=
  match nth_error cells idx with
  | None => Ok None
  | Some c => match cell_node_id c with Some z => Ok (Some z) | None => Err end
  end.
(** one expansion step applied to every entry of the deepest level; also counts the new entries.
    [ci]: every level compares the edge type ignoring ASCII case, like the flat ExpandOperator
    (before c5b2b84 the deeper levels, FactorizedExpandChain::expand_deepest_level, compared exactly:
    [ci = false]) *)
Fixpoint grow (st : store) (ci : bool) (idx : nat) (d : dir) (ty : option string) (t : ftree) : res (ftree * nat) :=
  match t with
  | FNode c None =>
      do s <- leaf_src idx c;
      match s with
      | None => Ok (t, O)
      | Some n => let ks := map (fun te => FNode [CEdge (snd te); CNode (fst te)] None) (neighbors st ci n d ty) in
                  Ok (FNode c (Some ks), List.length ks)
      end
  | FNode c (Some kids) =>
      do r <- (fix go (l : list ftree) : res (list ftree * nat) :=
                 match l with
                 | [] => Ok ([], O)
                 | k :: rest => do k' <- grow st ci idx d ty k; do r' <- go rest;
                                Ok (fst k' :: fst r', (snd k' + snd r')%nat)
                 end) kids;
      Ok (FNode c (Some (fst r)), snd r)
  end.
Fixpoint grow_forest (st : store) (ci : bool) (idx : nat) (d : dir) (ty : option string) (f : list ftree) : res (list ftree * nat) :=
  match f with
  | [] => Ok ([], O)
  | t :: rest => do t' <- grow st ci idx d ty t; do r' <- grow_forest st ci idx d ty rest;
                 Ok (fst t' :: fst r', (snd t' + snd r')%nat)
  end.
(** FactorizedExpandChain::expand: a level is only ADDED when the step produced at least one edge;
    otherwise the chunk stays as it was and the next step works on the same deepest level again *)
Fixpoint fact_steps (st : store) (i0 : nat) (steps : list step) (is_first : bool) (f : list ftree) (added : nat)
  : res (list ftree * nat) :=
  match steps with
  | [] => Ok (f, added)
  | s :: rest =>
      do g <- grow_forest st true (if is_first then i0 else 1%nat) (s_dir s) (s_type s) f;
      match snd g with
      | O => fact_steps st i0 rest false f added
      | _ => fact_steps st i0 rest false (fst g) (S added)
      end
  end.
(** FactorizedChunk::flatten: one row per path from a base row down to the deepest level *)
Fixpoint paths (t : ftree) : list row :=
  match t with
  | FNode c None => [c]
  | FNode c (Some kids) => flat_map (fun k => map (app c) (paths k)) kids
  end.
(** LazyFactorizedChainOperator: collect the base, run the steps, flatten.  An empty base gives no
    chunk at all.  Result: number of levels added, rows. *)
Definition fact_chain (st : store) (base : tbl) (steps : list step) : res (nat * list row) :=
  match steps with
  | [] => Err
  | s0 :: _ =>
      do i0 <- of_opt (pos_first (s_from s0) (cols base));
      match rows base with
      | [] => Ok (O, [])
      | _ =>
          do fa <- fact_steps st i0 steps true (map (fun r => FNode r None) (rows base)) O;
          Ok (snd fa, flat_map paths (fst fa))
      end
  end.
Definition chain_cols (base : tbl) (steps : list step) : list string := cols base ++ flat_map s_cols steps.

(** plan_factorized_aggregate / FactorizedAggregate::{Count, CountColumn(1)}: only COUNT over a
    variable or count-star is modelled; both count logical rows — CountColumn only when the deepest
    level has a column 1 *)
Definition fact_count (base : tbl) (added : nat) (flat : list row) (star : bool) : Z :=
  match rows base with
  | [] => 0
  | r0 :: _ =>
      if star then Z.of_nat (List.length flat)
      else match added with
           | O => match nth_error r0 1 with Some _ => Z.of_nat (List.length flat) | None => 0 end
           | _ => Z.of_nat (List.length flat)
           end
  end.
Definition simple_count_pre (a : aggx) : option bool :=      (* Some star? *)
  match ag_fn a, ag_arg a with
  | (ACount | ACountNN), None => Some true
  | (ACount | ACountNN), Some (EVar _) => Some false
  | _, _ => None
  end.
(** since 6a43305 is_simple_aggregate refuses COUNT(DISTINCT ..) *)
Definition simple_count (a : aggx) : option bool :=
  if ag_distinct a then None else simple_count_pre a.

(** * The planner *)
(** the columns of a plan as the planner computes them WITHOUT executing anything (planning errors
    only): what plan_filter needs when the zone map lets it answer with an EmptyOperator *)
Fixpoint plan_cols (p : lop) : res (list string) :=
  match p with
  | LScan x _ => Ok [x]
  | LExpand from to ev _ _ _ _ input =>
      do cs <- plan_cols input; do _ <- of_opt (pos_first from cs); Ok (cs ++ [edge_col ev; to])
  | LFilter _ input => plan_cols input
  | LReturn items _ input =>
      do cs <- plan_cols input;
      do _ <- mapM (fun it => match fst it with
                              | EVar x | EProp x _ => of_opt (pos_last x cs)
                              | ELit _ => Ok O
                              | _ => if forallb (fun it => is_var (fst it)) items then Ok O else Err end) items;
      Ok (map item_name items)
  | LProject items input =>
      do cs <- plan_cols input;
      do _ <- mapM (fun it => match fst it with EVar x | EProp x _ => of_opt (pos_last x cs) | _ => Ok O end) items;
      Ok (map item_name items)
  | LSort keys input =>
      do cs <- plan_cols input;
      let pcs := prop_cols cs (map fst keys) in
      do _ <- mapM (fun pc => of_opt (pos_last (fst (fst pc)) cs)) pcs;
      let cs1 := cs ++ map snd pcs in
      do _ <- mapM (fun k => key_col cs1 (fst k)) keys;
      Ok cs1
  | LSkip _ input | LLimit _ input | LDistinct input => plan_cols input
  | LAggregate gb aggs input =>
      do cs <- plan_cols input;
      let es := gb ++ flat_map (fun a => match ag_arg a with Some e => [e] | None => [] end) aggs in
      let pcs := prop_cols cs es in
      do _ <- mapM (fun pc => of_opt (pos_last (fst (fst pc)) cs)) pcs;
      let cs1 := cs ++ map snd pcs in
      do _ <- mapM (key_col cs1) es;
      Ok (map expr_name gb ++ map agg_name aggs)
  end.
(** since bad2e33 plan_filter consults the (node) zone maps only directly above a node scan *)
Definition is_scan (p : lop) : bool := match p with LScan _ _ => true | _ => false end.
Record chain := mkChain { ch_base : res tbl; ch_steps : list step }.
Fixpoint runc (o : opts) (st : store) (p : lop) : res tbl * option chain :=
  match p with
  | LScan x label => (Ok (mkT [x] (scan_rows st label)), None)
  | LExpand from to ev d ty minh maxh input =>
      let '(rin, cin) := runc o st input in
      if is_single_hop minh maxh then
        let stp := mkStep from d ty [edge_col ev; to] in
        let ch := match cin with
                  | Some c => mkChain (ch_base c) (ch_steps c ++ [stp])
                  | None => mkChain rin [stp]
                  end in
        let flat := do t <- rin;
                    do _ <- of_opt (pos_first from (cols t));
                    do rs <- expand_rows st true (cols t) from d ty (rows t);
                    Ok (mkT (cols t ++ [edge_col ev; to]) rs) in
        let r := if o_fact o && Nat.leb 2 (List.length (ch_steps ch))
                 then do b <- ch_base ch;
                      do lr <- fact_chain st b (ch_steps ch);
                      Ok (mkT (chain_cols b (ch_steps ch)) (snd lr))
                 else flat in
        (r, Some ch)
      else
        (do t <- rin;
         do _ <- of_opt (pos_first from (cols t));
         do rs <- vle_rows st true (cols t) from d ty minh maxh (rows t);
         Ok (mkT (cols t ++ [edge_col ev; to]) rs), None)
  | LFilter e input =>
      let '(rin, _) := runc o st input in
      let generic := do t <- rin; Ok (filter_tbl (fun r => passes_row st (cols t) r e) t) in
      (if o_zone o && is_scan input && match zone_check st e with Some false => true | _ => false end
       then do cs <- plan_cols input; Ok (mkT cs [])
       else match (if o_index o then try_index st (idx_of st) e input else None) with
            | Some t => Ok t
            | None => match (if o_range o then try_range st (o_zone o) e input else None) with
                      | Some t => Ok t
                      | None => generic
                      end
            end, None)
  | LReturn items distinct input =>
      (do t <- fst (runc o st input); do r <- return_tbl st items t;
       if distinct then Ok (mkT (cols r) (distinct_rows (rows r))) else Ok r, None)
  | LProject items input => (do t <- fst (runc o st input); project_tbl st items t, None)
  | LSort keys input =>
      (do t <- fst (runc o st input);
       do t1 <- add_prop_cols st t (map fst keys);
       do ks <- mapM (fun k => do c <- key_col (cols t1) (fst k); Ok (c, snd k)) keys;
       Ok (mkT (cols t1) (map (map to_gen) (sort_rows ks (rows t1)))), None)
  | LSkip n input => (do t <- fst (runc o st input); Ok (skip_tbl n t), None)
  | LLimit n input => (do t <- fst (runc o st input); Ok (limit_tbl n t), None)
  | LDistinct input => (do t <- fst (runc o st input); Ok (mkT (cols t) (distinct_rows (rows t))), None)
  | LAggregate gb aggs input =>
      let '(rin, cin) := runc o st input in
      let generic := do t <- rin; aggregate_tbl st gb aggs t in
      (match cin, gb with
       | Some ch, [] =>
           if o_fact o && Nat.leb 2 (List.length (ch_steps ch)) && forallb (fun a => match simple_count a with Some _ => true | None => false end) aggs
           then do b <- ch_base ch;
                do lr <- fact_chain st b (ch_steps ch);
                Ok (mkT (map agg_name aggs)
                          [map (fun a => CVal (VInt (fact_count b (fst lr) (snd lr)
                                                       (match simple_count a with Some s => s | None => true end)))) aggs])
           else generic
       | _, _ => generic
       end, None)
  end.
Definition run (o : opts) (st : store) (p : lop) : res tbl := fst (runc o st p).

(** * The plan cache (cache.rs QueryCache, session.rs execute l.160-205): the cached object is the
    OPTIMIZED LOGICAL plan, keyed by (query text, language); physical planning — where zone maps,
    indexes and the factorized switch are consulted — is redone for every execution against the
    store as it is then. *)
Section Cache.
  Variable text : Type.
  Variable text_eqb : text -> text -> bool.
  Variable stats : Type.
  (** translate + bind + optimize: a function of the text and of the statistics read when it runs *)
  Variable compile : text -> stats -> option lop.
  Variable stats_of : store -> stats.
  Definition cache := list (text * lop).
  Fixpoint cache_get (c : cache) (t : text) : option lop :=
    match c with [] => None | (t', p) :: r => if text_eqb t t' then Some p else cache_get r t end.
  (** one [Session::execute]: the result and the cache afterwards (an Err of the front end caches nothing) *)
  Definition exec (o : opts) (c : cache) (st : store) (t : text) : res tbl * cache :=
    match cache_get c t with
    | Some p => (run o st p, c)
    | None => match compile t (stats_of st) with
              | Some p => (run o st p, (t, p) :: c)
              | None => (Err, c)
              end
    end.
  (** a history: data changes (any function on stores: inserts, deletes, index creation/removal)
      interleaved with executions *)
  Inductive event := Change (f : store -> store) | Exec (t : text).
  Fixpoint replay (o : opts) (c : cache) (st : store) (h : list event) : list (res tbl) * cache * store :=
    match h with
    | [] => ([], c, st)
    | Change f :: r => replay o c (f st) r
    | Exec t :: r => let '(out, c') := exec o c st t in
                     let '(outs, c'', st') := replay o c' st r in
                     (out :: outs, c'', st')
    end.
End Cache.
