(** C08 — graph-pattern queries: the DECLARATIVE semantics ([bindings], clause specs, [answer])
    and the OPERATIONAL model of the logical plan as the planner and the pull operators compute it
    without any physical optimisation ([sem_ops]).  The physical alternatives (zone maps, index
    path, range path, factorized chains, plan cache) are in Phys.v (C10).

    Transcribed from (grafeo HEAD):
      crates/grafeo-core/src/graph/lpg/store.rs        edges_from, nodes_by_label, node_ids
      crates/grafeo-core/src/execution/operators/      scan.rs expand.rs variable_length_expand.rs
                                                        filter.rs project.rs sort.rs limit.rs
                                                        distinct.rs aggregate.rs
      crates/grafeo-core/src/execution/vector.rs       get_node_id / get_edge_id / get_value / push_value
      crates/grafeo-engine/src/query/planner.rs        plan_node_scan plan_expand plan_filter(generic part)
                                                        plan_return plan_project plan_sort plan_aggregate
    No proofs in this file. *)
From Coq Require Import ZArith List Bool String Ascii Lia.
Import ListNotations.
Open Scope Z_scope.

(** * Values.  A float is an exact rational n/d with d > 0 (the harness prints an f64 exactly as
    n / 2^k in lowest terms); float arithmetic is not modelled. *)
Inductive val :=
| VNull | VBool (b : bool) | VInt (z : Z) | VFlt (n d : Z) | VStr (s : string) | VList (l : list val).

Fixpoint val_eqb (a b : val) : bool :=
  match a, b with
  | VNull, VNull => true
  | VBool x, VBool y => Bool.eqb x y
  | VInt x, VInt y => x =? y
  | VFlt n d, VFlt m e => (n =? m) && (d =? e)
  | VStr s, VStr t => String.eqb s t
  | VList l1, VList l2 =>
      (fix go (l1 l2 : list val) : bool :=
         match l1, l2 with
         | [], [] => true
         | x :: xs, y :: ys => val_eqb x y && go xs ys
         | _, _ => false
         end) l1 l2
  | _, _ => false
  end.

Inductive res (A : Type) := Ok (a : A) | Err.
Arguments Ok {A} a.
Arguments Err {A}.
Definition rbind {A B} (r : res A) (f : A -> res B) : res B := match r with Ok a => f a | Err => Err end.
Notation "'do' x <- r ; k" := (rbind r (fun x => k)) (at level 200, x pattern, r at level 100, k at level 200).
Definition obind {A B} (o : option A) (f : A -> option B) : option B := match o with Some a => f a | None => None end.
Notation "'let?' x := o 'in' k" := (obind o (fun x => k)) (at level 200, x pattern, o at level 100, k at level 200).
Definition of_opt {A} (o : option A) : res A := match o with Some a => Ok a | None => Err end.

Definition bool_cmp (a b : bool) : comparison :=
  match a, b with false, true => Lt | true, false => Gt | _, _ => Eq end.

(** filter.rs [compare_values] (l.1137): Int/Int, Float/Float, String/String, Int/Float, Float/Int *)
Definition fcmp (a b : val) : option comparison :=
  match a, b with
  | VInt x, VInt y => Some (x ?= y)
  | VFlt n d, VFlt m e => Some (n * e ?= m * d)
  | VStr s, VStr t => Some (String.compare s t)
  | VInt x, VFlt m e => Some (x * e ?= m)
  | VFlt n d, VInt y => Some (n ?= y * d)
  | _, _ => None
  end.
(** filter.rs [values_equal] (l.1123); |a-b| < EPSILON is equality on the modelled floats *)
Definition feq (a b : val) : bool :=
  match a, b with
  | VNull, VNull => true
  | VBool x, VBool y => Bool.eqb x y
  | VInt x, VInt y => x =? y
  | VFlt n d, VFlt m e => n * e =? m * d
  | VStr s, VStr t => String.eqb s t
  | VInt x, VFlt m e => x * e =? m
  | VFlt n d, VInt y => n =? y * d
  | _, _ => false
  end.
(** store.rs [compare_values_for_range] (l.34): same-type only *)
Definition rcmp (a b : val) : option comparison :=
  match a, b with
  | VInt x, VInt y => Some (x ?= y)
  | VFlt n d, VFlt m e => Some (n * e ?= m * d)
  | VStr s, VStr t => Some (String.compare s t)
  | VBool x, VBool y => Some (bool_cmp x y)
  | _, _ => None
  end.
(** property.rs / zone_map.rs / aggregate.rs [compare_values]: fcmp + Bool/Bool
    (aggregate.rs additionally parses numeric-looking strings; generated strings are alphabetic) *)
Definition zcmp (a b : val) : option comparison :=
  match a, b with
  | VBool x, VBool y => Some (bool_cmp x y)
  | _, _ => fcmp a b
  end.
(** sort.rs [compare_values]: total, incomparable pairs are Equal *)
Definition scmp (a b : val) : comparison :=
  match zcmp a b with Some c => c | None => Eq end.

(** * The graph and the store state that the planner consults *)
Inductive dir := Out | In | Both.
Record node := mkNode { nid : Z; nlabels : list string; nprops : list (string * val) }.
Record edge := mkEdge { eid : Z; esrc : Z; edst : Z; etype : string; eprops : list (string * val) }.
(** one node property column's zone-map inputs: the values ever [set] on it, in order, and whether
    a value was removed (the zone map is then "dirty" and never prunes) *)
Record zcol := mkZcol { zhist : list val; zdirty : bool }.
Record store := mkStore {
  nodes : list node;            (* live nodes, ascending id (node_ids / nodes_by_label sort) *)
  edges : list edge;            (* live edges, ascending id = insertion order of every adjacency list *)
  indexed : list string;        (* property keys with a property index *)
  zcols : list (string * zcol)  (* node property columns *)
}.

Fixpoint lookup {A} (k : string) (l : list (string * A)) : option A :=
  match l with
  | [] => None
  | (k', v) :: r => if String.eqb k k' then Some v else lookup k r
  end.
Definition get_node (st : store) (i : Z) : option node := find (fun n => nid n =? i) (nodes st).
Definition get_edge (st : store) (i : Z) : option edge := find (fun e => eid e =? i) (edges st).
Definition has_label (n : node) (l : string) : bool := existsb (String.eqb l) (nlabels n).
Definition node_exists (st : store) (i : Z) : bool := match get_node st i with Some _ => true | None => false end.

(** ASCII case folding: [str::eq_ignore_ascii_case] *)
Definition lower_ascii (c : ascii) : ascii :=
  let n := nat_of_ascii c in
  if (Nat.leb 65 n && Nat.leb n 90)%bool then ascii_of_nat (n + 32) else c.
Fixpoint lower (s : string) : string :=
  match s with EmptyString => EmptyString | String c r => String (lower_ascii c) (lower r) end.
Definition eq_ci (a b : string) : bool := String.eqb (lower a) (lower b).

(** store.rs [edges_from]: forward list, backward list, Both = forward ++ backward *)
Definition fwd (st : store) (n : Z) : list (Z * Z) :=
  map (fun e => (edst e, eid e)) (filter (fun e => esrc e =? n) (edges st)).
Definition bwd (st : store) (n : Z) : list (Z * Z) :=
  map (fun e => (esrc e, eid e)) (filter (fun e => edst e =? n) (edges st)).
Definition edges_from (st : store) (n : Z) (d : dir) : list (Z * Z) :=
  match d with Out => fwd st n | In => bwd st n | Both => fwd st n ++ bwd st n end.
(** the per-edge test of expand.rs l.131-160: type (ASCII-case-insensitive when [ci]) and
    visibility of edge and target *)
Definition type_ok (st : store) (ci : bool) (ty : option string) (e : Z) : bool :=
  match ty with
  | None => true
  | Some t => match get_edge st e with
              | Some ed => if ci then eq_ci (etype ed) t else String.eqb (etype ed) t
              | None => false
              end
  end.
Definition neighbors (st : store) (ci : bool) (n : Z) (d : dir) (ty : option string) : list (Z * Z) :=
  filter (fun te => type_ok st ci ty (snd te) && node_exists st (fst te)) (edges_from st n d).

(** * Rows.  A cell remembers the vector kind it lives in (vector.rs): NodeId, EdgeId or Generic. *)
Inductive cell := CNode (i : Z) | CEdge (i : Z) | CVal (v : val).
Definition row := list cell.
(** A chunk is modelled by its LOGICAL rows.  A FilterOperator leaves a selection vector on the
    chunk it hands on; since df57ccb a FilterOperator stacked on top narrows that selection
    (filter.rs l.1214-1224: [existing.filter(..)]), every other operator reads through the selection
    (flatten / selected rows), so the selected rows are all that can be observed.  The behaviour
    before that repair — the outer filter evaluated its predicate over all PHYSICAL rows and
    replaced the selection — is kept as [filter_chunk_pre] below. *)
Record tbl := mkTbl { cols : list string; rows : list row }.
Definition mkT (cs : list string) (rs : list row) : tbl := mkTbl cs rs.
Definition filter_tbl (keep : row -> bool) (t : tbl) : tbl := mkT (cols t) (filter keep (rows t)).

(** the pre-df57ccb FilterOperator on one chunk: physical rows + optional selection (indices are
    modelled by the selected rows themselves); a chunk in which nothing passes is dropped *)
Record chunk_pre := mkChunkPre { ph_rows : list row; ph_sel : option (list row) }.
Definition chunk_pre_rows (c : chunk_pre) : list row := match ph_sel c with Some s => s | None => ph_rows c end.
Definition filter_chunk_pre (keep : row -> bool) (c : chunk_pre) : chunk_pre :=
  match filter keep (ph_rows c) with
  | [] => mkChunkPre [] None
  | rs => mkChunkPre (ph_rows c) (Some rs)
  end.

(** [get_value] *)
Definition cell_val (c : cell) : val := match c with CNode i => VInt i | CEdge i => VInt i | CVal v => v end.
(** [get_node_id] / [get_edge_id]: typed vectors answer only for their own kind, a Generic vector
    answers both for an Int64 *)
Definition cell_node_id (c : cell) : option Z :=
  match c with CNode i => Some i | CVal (VInt i) => Some i | _ => None end.
Definition cell_edge_id (c : cell) : option Z :=
  match c with CEdge i => Some i | CVal (VInt i) => Some i | _ => None end.
(** copying a cell through [get_value] + [push_value] into a Generic (LogicalType::Any) vector *)
Definition to_gen (c : cell) : cell := CVal (cell_val c).
(** ... into a NodeId vector (ProjectExpr::Column uses LogicalType::Node): an Int64 becomes a node
    id, Null stays null, anything else is a type mismatch and pushes NodeId(0) *)
Definition to_nodecol (c : cell) : cell :=
  match cell_val c with VInt i => CNode i | VNull => CVal VNull | _ => CNode 0 end.

(** A typed vector (vector.rs ValueVector).  Since dfd360c [set_null] records every null; a value of
    another type than the vector's is a "type mismatch" and pushes the default (0, 0.0, NodeId(0))
    (push_value l.206-217).  Generic vectors store the value itself.  The [seen_null] flag is what
    the pre-dfd360c code depended on ([push_typed_pre]: the validity bitmap was allocated at the
    FIRST null with the length the vector had then, so every later null read back as the default). *)
Inductive coltype := TGen | TNode | TInt | TFlt.
Definition push_typed (ty : coltype) (seen_null : bool) (c : cell) : cell * bool :=
  match ty with
  | TGen => (c, seen_null)
  | TNode => match c with
             | CVal VNull => (c, true)
             | _ => (c, seen_null)
             end
  | TInt => match cell_val c with
            | VNull => (CVal VNull, true)
            | VInt z => (CVal (VInt z), seen_null)
            | _ => (CVal (VInt 0), seen_null)
            end
  | TFlt => match cell_val c with
            | VNull => (CVal VNull, true)
            | VFlt n d => (CVal (VFlt n d), seen_null)
            | _ => (CVal (VFlt 0 1), seen_null)
            end
  end.
Definition push_typed_pre (ty : coltype) (seen_null : bool) (c : cell) : cell * bool :=
  match ty with
  | TGen => (c, seen_null)
  | TNode => match c with
             | CVal VNull => (if seen_null then CNode 0 else c, true)
             | _ => (c, seen_null)
             end
  | TInt => match cell_val c with
            | VNull => (if seen_null then CVal (VInt 0) else CVal VNull, true)
            | VInt z => (CVal (VInt z), seen_null)
            | _ => (CVal (VInt 0), seen_null)
            end
  | TFlt => match cell_val c with
            | VNull => (if seen_null then CVal (VFlt 0 1) else CVal VNull, true)
            | VFlt n d => (CVal (VFlt n d), seen_null)
            | _ => (CVal (VFlt 0 1), seen_null)
            end
  end.
Fixpoint push_row (tys : list coltype) (seen : list bool) (r : row) : row * list bool :=
  match r, tys, seen with
  | c :: r', ty :: tys', sn :: seen' =>
      let '(c', sn') := push_typed ty sn c in
      let '(r'', seen'') := push_row tys' seen' r' in
      (c' :: r'', sn' :: seen'')
  | _, _, _ => (r, seen)
  end.
Fixpoint push_rows (tys : list coltype) (seen : list bool) (rs : list row) : list row :=
  match rs with
  | [] => []
  | r :: rest => let '(r', seen') := push_row tys seen r in r' :: push_rows tys seen' rest
  end.
Definition typed_rows (tys : list coltype) (rs : list row) : list row :=
  push_rows tys (map (fun _ => false) tys) rs.

Fixpoint pos_first (x : string) (l : list string) : option nat :=
  match l with
  | [] => None
  | y :: r => if String.eqb x y then Some O else option_map S (pos_first x r)
  end.
(** a HashMap collected from (name, index) pairs keeps the last index of a repeated name *)
Fixpoint pos_last (x : string) (l : list string) : option nat :=
  match l with
  | [] => None
  | y :: r => match pos_last x r with
              | Some i => Some (S i)
              | None => if String.eqb x y then Some O else None
              end
  end.

(** property of the entity in a cell — filter.rs l.333-350: node first, an edge only if the node
    lookup failed *)
Definition fprop (st : store) (c : cell) (k : string) : option val :=
  match match cell_node_id c with Some i => get_node st i | None => None end with
  | Some n => lookup k (nprops n)
  | None => match cell_edge_id c with
            | Some i => match get_edge st i with Some e => lookup k (eprops e) | None => None end
            | None => None
            end
  end.
(** project.rs PropertyAccess l.121-137: a node id (even of a missing node) never falls back to the edge *)
Definition pprop (st : store) (c : cell) (k : string) : val :=
  match cell_node_id c with
  | Some i => match get_node st i with
              | Some n => match lookup k (nprops n) with Some v => v | None => VNull end
              | None => VNull
              end
  | None => match cell_edge_id c with
            | Some i => match get_edge st i with
                        | Some e => match lookup k (eprops e) with Some v => v | None => VNull end
                        | None => VNull
                        end
            | None => VNull
            end
  end.

(** * Expressions (the core of LogicalExpression / FilterExpression) *)
Inductive cmpop := OEq | ONe | OLt | OLe | OGt | OGe.
Inductive lexpr :=
| ELit (v : val)
| EVar (x : string)
| EProp (x k : string)
| ECmp (op : cmpop) (a b : lexpr)
| EAnd (a b : lexpr) | EOr (a b : lexpr) | ENot (a : lexpr)
| EIsNull (a : lexpr) | EIsNotNull (a : lexpr)
| EHasLabel (x l : string)      (* FunctionCall hasLabel(Variable x, Literal l) *)
| ELabelIn (l x : string).      (* Literal l IN Labels(x)  (Gremlin hasLabel) *)

Definition as_bool (v : val) : option bool := match v with VBool b => Some b | _ => None end.
Definition cmp_result (op : cmpop) (a b : val) : option val :=
  match op with
  | OEq => Some (VBool (feq a b))
  | ONe => Some (VBool (negb (feq a b)))
  | OLt => option_map (fun c => VBool (match c with Lt => true | _ => false end)) (fcmp a b)
  | OLe => option_map (fun c => VBool (match c with Gt => false | _ => true end)) (fcmp a b)
  | OGt => option_map (fun c => VBool (match c with Gt => true | _ => false end)) (fcmp a b)
  | OGe => option_map (fun c => VBool (match c with Lt => false | _ => true end)) (fcmp a b)
  end.
Definition is_nullish (o : option val) : bool := match o with None => true | Some VNull => true | _ => false end.

(** the entity-level accessors an evaluation needs; instantiated by cells (operational) and by
    bound entities (declarative) *)
Section Eval.
  Context {E : Type}.
  Variable look : string -> option E.            (* variable -> what it is bound to *)
  Variable e_val : E -> val.                      (* the value of a bare variable *)
  Variable e_prop : E -> string -> option val.    (* x.k *)
  Variable e_labels : E -> option (list string).  (* labels if it is (read as) a node *)
  Fixpoint eval (e : lexpr) : option val :=
    match e with
    | ELit v => Some v
    | EVar x => let? c := look x in Some (e_val c)
    | EProp x k => let? c := look x in e_prop c k
    | ECmp op a b => let? va := eval a in let? vb := eval b in cmp_result op va vb
    | EAnd a b => let? va := eval a in let? vb := eval b in
                  let? x := as_bool va in let? y := as_bool vb in Some (VBool (x && y))
    | EOr a b => let? va := eval a in let? vb := eval b in
                 let? x := as_bool va in let? y := as_bool vb in Some (VBool (x || y))
    | ENot a => let? va := eval a in let? x := as_bool va in Some (VBool (negb x))
    | EIsNull a => Some (VBool (is_nullish (eval a)))
    | EIsNotNull a => Some (VBool (negb (is_nullish (eval a))))
    | EHasLabel x l => let? c := look x in let? ls := e_labels c in Some (VBool (existsb (String.eqb l) ls))
    | ELabelIn l x => let? c := look x in let? ls := e_labels c in
                      Some (VBool (existsb (fun l' => feq (VStr l) (VStr l')) ls))
    end.
  Definition passes (e : lexpr) : bool := match eval e with Some (VBool true) => true | _ => false end.
End Eval.

Definition cell_labels (st : store) (c : cell) : option (list string) :=
  let? i := cell_node_id c in let? n := get_node st i in Some (nlabels n).
Definition row_look (cs : list string) (r : row) (x : string) : option cell :=
  let? i := pos_last x cs in nth_error r i.
Definition eval_row (st : store) (cs : list string) (r : row) (e : lexpr) : option val :=
  eval (row_look cs r) cell_val (fprop st) (cell_labels st) e.
Definition passes_row (st : store) (cs : list string) (r : row) (e : lexpr) : bool :=
  passes (row_look cs r) cell_val (fprop st) (cell_labels st) e.

(** * The logical plan (core of LogicalOperator) *)
Inductive aggfn := ACount | ACountNN | ASum | AAvg | AMin | AMax | ACollect.
Record aggx := mkAgg { ag_fn : aggfn; ag_arg : option lexpr; ag_distinct : bool; ag_alias : option string }.
Inductive lop :=
| LScan (x : string) (label : option string)
| LExpand (from to : string) (ev : option string) (d : dir) (ty : option string)
          (minh : nat) (maxh : option nat) (input : lop)
| LFilter (p : lexpr) (input : lop)
| LReturn (items : list (lexpr * option string)) (distinct : bool) (input : lop)
| LProject (items : list (lexpr * option string)) (input : lop)
| LSort (keys : list (lexpr * bool)) (input : lop)         (* bool: descending *)
| LSkip (n : nat) (input : lop)
| LLimit (n : nat) (input : lop)
| LDistinct (input : lop)
| LAggregate (group_by : list lexpr) (aggs : list aggx) (input : lop).

(** ** Scan *)
Definition scan_rows (st : store) (label : option string) : list row :=
  map (fun n => [CNode (nid n)])
      (filter (fun n => match label with None => true | Some l => has_label n l end) (nodes st)).

(** ** Single-hop expand (expand.rs): per input row, the filtered adjacency list; output = input
    columns ++ [edge; target] *)
Definition src_of (cs : list string) (from : string) (r : row) : res Z :=
  do i <- of_opt (pos_first from cs);
  do c <- of_opt (nth_error r i);
  of_opt (cell_node_id c).
Fixpoint rmapM {A B} (f : A -> res (list B)) (l : list A) : res (list B) :=
  match l with
  | [] => Ok []
  | a :: r => do x <- f a; do y <- rmapM f r; Ok (x ++ y)
  end.
Definition expand_rows (st : store) (ci : bool) (cs : list string) (from : string) (d : dir)
           (ty : option string) (rs : list row) : res (list row) :=
  rmapM (fun r => do s <- src_of cs from r;
                  Ok (map (fun te => r ++ [CEdge (snd te); CNode (fst te)]) (neighbors st ci s d ty))) rs.
Definition edge_col (ev : option string) : string := match ev with Some e => e | None => "_anon_edge"%string end.

(** ** Variable-length expand (variable_length_expand.rs): breadth-first over WALKS (no visited
    set; an edge may repeat), a row per frontier item whose depth is in [minh, maxh]; the edge
    column holds the LAST edge of the walk.  The frontier starts at depth 1, so depth 0 is never
    produced. *)
Fixpoint bfs (st : store) (ci : bool) (d : dir) (ty : option string) (minh maxh : nat)
         (fuel : nat) (q : list (Z * nat * Z)) : list (Z * Z) :=
  match fuel with
  | O => []
  | S f =>
      match q with
      | [] => []
      | (n, dep, e) :: rest =>
          let out := if (Nat.leb minh dep && Nat.leb dep maxh)%bool then [(n, e)] else [] in
          let more := if Nat.ltb dep maxh
                      then map (fun te => (fst te, S dep, snd te)) (neighbors st ci n d ty) else [] in
          out ++ bfs st ci d ty minh maxh f (rest ++ more)
      end
  end.
(** number of frontier items ever enqueued below an item (the fuel that suffices) *)
Fixpoint walk_count (st : store) (ci : bool) (d : dir) (ty : option string) (k : nat) (n : Z) : nat :=
  match k with
  | O => 1
  | S k' => S (fold_right (fun te acc => (walk_count st ci d ty k' (fst te) + acc)%nat) O (neighbors st ci n d ty))
  end.
Definition vle_fuel (st : store) (ci : bool) (d : dir) (ty : option string) (maxh : nat) (s : Z) : nat :=
  S (fold_right (fun te acc => (walk_count st ci d ty (pred maxh) (fst te) + acc)%nat) O (neighbors st ci s d ty)).
Definition vle_from (st : store) (ci : bool) (d : dir) (ty : option string) (minh maxh : nat) (s : Z) : list (Z * Z) :=
  bfs st ci d ty minh maxh (vle_fuel st ci d ty maxh s)
      (map (fun te => (fst te, 1%nat, snd te)) (neighbors st ci s d ty)).
(** ColumnValue materialisation: node id first, then edge id, then the value *)
Definition vle_cell (c : cell) : cell :=
  match cell_node_id c with
  | Some i => CNode i
  | None => match cell_edge_id c with Some i => CEdge i | None => CVal (cell_val c) end
  end.
(** planner.rs plan_expand l.509: "no maximum" becomes min+10; the operator clamps max to >= min *)
Definition vle_max (minh : nat) (maxh : option nat) : nat :=
  Nat.max (match maxh with Some m => m | None => (minh + 10)%nat end) minh.
Definition vle_rows (st : store) (ci : bool) (cs : list string) (from : string) (d : dir)
           (ty : option string) (minh : nat) (maxh : option nat) (rs : list row) : res (list row) :=
  rmapM (fun r => do s <- src_of cs from r;
                  Ok (map (fun te => map vle_cell r ++ [CEdge (snd te); CNode (fst te)])
                          (vle_from st ci d ty minh (vle_max minh maxh) s))) rs.
Definition is_single_hop (minh : nat) (maxh : option nat) : bool :=
  match minh, maxh with 1%nat, Some 1%nat => true | _, _ => false end.

(** ** Return / WITH (plan_return, plan_project, project.rs) *)
Definition expr_name (e : lexpr) : string :=
  match e with
  | EVar x => x
  | EProp x k => (x ++ "." ++ k)%string
  | _ => "expr"%string
  end.
Definition item_name (it : lexpr * option string) : string :=
  match snd it with Some a => a | None => expr_name (fst it) end.
(** one projection of the ProjectOperator built by plan_return (needs_project branch) / plan_project *)
Definition proj_cell (st : store) (cs : list string) (r : row) (generic_exprs : bool) (e : lexpr) : res cell :=
  match e with
  | EVar x => do i <- of_opt (pos_last x cs); do c <- of_opt (nth_error r i); Ok (to_nodecol c)
  | EProp x k => do i <- of_opt (pos_last x cs); do c <- of_opt (nth_error r i); Ok (CVal (pprop st c k))
  | ELit v => Ok (CVal v)
  | _ => if generic_exprs
         then Ok (CVal (match eval_row st cs r e with Some v => v | None => VNull end))
         else Err
  end.
Fixpoint mapM {A B} (f : A -> res B) (l : list A) : res (list B) :=
  match l with
  | [] => Ok []
  | a :: r => do x <- f a; do y <- mapM f r; Ok (x :: y)
  end.
Definition is_var (e : lexpr) : bool := match e with EVar _ => true | _ => false end.
Fixpoint is_identity (from : nat) (ps : list nat) : bool :=
  match ps with [] => true | p :: r => Nat.eqb p from && is_identity (S from) r end.
Definition return_tbl (st : store) (items : list (lexpr * option string)) (t : tbl) : res tbl :=
  let names := map item_name items in
  if forallb (fun it => is_var (fst it)) items then
    (* simple case: only variables; a ProjectOperator only when columns are dropped or reordered *)
    do ps <- mapM (fun it => match fst it with EVar x => of_opt (pos_last x (cols t)) | _ => Err end) items;
    if Nat.eqb (List.length ps) (List.length (cols t)) && is_identity O ps
    then Ok (mkTbl names (rows t))
    else do rs <- mapM (fun r => mapM (fun p => do c <- of_opt (nth_error r p); Ok (to_nodecol c)) ps) (rows t);
         Ok (mkT names (typed_rows (map (fun _ => TNode) ps) rs))
  else
    do _ <- mapM (fun it => match fst it with
                            | EVar x | EProp x _ => of_opt (pos_last x (cols t))
                            | ELit _ => Ok O
                            | _ => Err end) items;
    do rs <- mapM (fun r => mapM (fun it => proj_cell st (cols t) r false (fst it)) items) (rows t);
    Ok (mkT names (typed_rows (map (fun it => if is_var (fst it) then TNode else TGen) items) rs)).
Definition project_tbl (st : store) (items : list (lexpr * option string)) (t : tbl) : res tbl :=
  do _ <- mapM (fun it => match fst it with
                          | EVar x | EProp x _ => of_opt (pos_last x (cols t))
                          | _ => Ok O end) items;
  do rs <- mapM (fun r => mapM (fun it => proj_cell st (cols t) r true (fst it)) items) (rows t);
  Ok (mkT (map item_name items) (typed_rows (map (fun it => if is_var (fst it) then TNode else TGen) items) rs)).

(** ** Property columns materialised in front of Sort and Aggregate (plan_sort l.1407-1463,
    plan_aggregate l.1549-1618): a column "x_k" per distinct property expression that is not a
    column yet; all existing columns are re-pushed into NodeId vectors *)
Fixpoint prop_cols (cs : list string) (es : list lexpr) : list (string * string * string) :=
  match es with
  | [] => []
  | EProp x k :: r =>
      let nm := (x ++ "_" ++ k)%string in
      match pos_last nm cs with
      | Some _ => prop_cols cs r
      | None => (x, k, nm) :: prop_cols (cs ++ [nm]) r
      end
  | _ :: r => prop_cols cs r
  end.
Definition add_prop_cols (st : store) (t : tbl) (es : list lexpr) : res tbl :=
  let pcs := prop_cols (cols t) es in
  match pcs with
  | [] => Ok t
  | _ =>
      do srcs <- mapM (fun p => of_opt (pos_last (fst (fst p)) (cols t))) pcs;
      do rs <- mapM (fun r =>
                 do extra <- mapM (fun ps => do c <- of_opt (nth_error r (snd ps));
                                             Ok (CVal (pprop st c (snd (fst (fst ps))))))
                                  (combine pcs srcs);
                 Ok (map to_nodecol r ++ extra)) (rows t);
      Ok (mkT (cols t ++ map snd pcs) (typed_rows (map (fun _ => TNode) (cols t) ++ map (fun _ => TGen) pcs) rs))
  end.
(** resolve_sort_expression_with_properties / resolve_expression_to_column_with_properties *)
Definition key_col (cs : list string) (e : lexpr) : res nat :=
  match e with
  | EVar x => of_opt (pos_last x cs)
  | EProp x k => of_opt (pos_last (x ++ "_" ++ k)%string cs)
  | _ => Err
  end.

(** ** Sort (sort.rs): stable, NULLs last, Descending reverses the whole comparison *)
Definition cmp_nulls_last (a b : val) : comparison :=
  match a, b with
  | VNull, VNull => Eq
  | VNull, _ => Gt
  | _, VNull => Lt
  | _, _ => scmp a b
  end.
Fixpoint cmp_keys (ks : list (nat * bool)) (a b : list val) : comparison :=
  match ks with
  | [] => Eq
  | (i, desc) :: r =>
      let c := cmp_nulls_last (nth i a VNull) (nth i b VNull) in
      let c := if desc then CompOpp c else c in
      match c with Eq => cmp_keys r a b | _ => c end
  end.
Section Sorting.
  Context {A : Type}.
  Variable le : A -> A -> bool.
  Fixpoint insert_sorted (x : A) (l : list A) : list A :=
    match l with
    | [] => [x]
    | y :: r => if le x y then x :: y :: r else y :: insert_sorted x r
    end.
  (** stable: equal elements keep their input order (insertion from the right, strict "before") *)
  Definition stable_sort (l : list A) : list A := fold_right insert_sorted [] l.
End Sorting.
Definition sort_rows (ks : list (nat * bool)) (rs : list row) : list row :=
  stable_sort (fun a b => match cmp_keys ks (map cell_val a) (map cell_val b) with Gt => false | _ => true end) rs.

(** ** Limit / Skip (limit.rs) on a single input chunk: a chunk that fits is passed through
    untouched; a partial copy goes through [get_value]/[push_value] into Generic vectors *)
Definition limit_rows (n : nat) (rs : list row) : list row :=
  match rs with
  | [] => []
  | _ => if Nat.leb n O then [] else if Nat.leb (List.length rs) n then rs else map (map to_gen) (firstn n rs)
  end.
Definition skip_rows (n : nat) (rs : list row) : list row :=
  if Nat.eqb n O then rs else map (map to_gen) (skipn n rs).

Definition limit_tbl (n : nat) (t : tbl) : tbl := mkT (cols t) (limit_rows n (rows t)).
Definition skip_tbl (n : nat) (t : tbl) : tbl := mkT (cols t) (skip_rows n (rows t)).

(** ** Distinct (distinct.rs): first occurrence of every row (compared by value), Generic output *)
Definition row_vals_eqb (a b : list val) : bool :=
  (fix go (a b : list val) : bool :=
     match a, b with
     | [], [] => true
     | x :: xs, y :: ys => val_eqb x y && go xs ys
     | _, _ => false
     end) a b.
Fixpoint dedup_by {A} (eqb : A -> A -> bool) (seen : list A) (l : list A) : list A :=
  match l with
  | [] => []
  | x :: r => if existsb (eqb x) seen then dedup_by eqb seen r else x :: dedup_by eqb (x :: seen) r
  end.
Definition distinct_rows (rs : list row) : list row :=
  map (map to_gen) (dedup_by (fun a b => row_vals_eqb (map cell_val a) (map cell_val b)) [] rs).

(** ** Aggregation (aggregate.rs): NULL inputs are skipped by every function except count-star;
    sums over Int64 only (a float or string input is outside the modelled fragment); avg is the
    exact quotient (compared with a tolerance by the runner); groups in first-occurrence order *)
Definition nonnull (vs : list val) : list val := filter (fun v => match v with VNull => false | _ => true end) vs.
Definition dedup_vals (vs : list val) : list val := dedup_by val_eqb [] vs.
Definition sum_ints (vs : list val) : option Z :=
  fold_left (fun acc v => match acc, v with Some s, VInt z => Some (s + z) | _, _ => None end) vs (Some 0).
Definition extremum (want : comparison) (vs : list val) : val :=
  match vs with
  | [] => VNull
  | v :: r => fold_left (fun cur x => match zcmp x cur with Some c => if match c, want with Lt, Lt => true | Gt, Gt => true | _, _ => false end then x else cur | None => cur end) r v
  end.
Definition agg_value (a : aggx) (inputs : list val) (nrows : nat) : res val :=
  let vs := nonnull inputs in
  let vs := if ag_distinct a then dedup_vals vs else vs in
  match ag_fn a with
  | ACount => if ag_distinct a then Ok (VInt (Z.of_nat (List.length vs))) else Ok (VInt (Z.of_nat nrows))
  | ACountNN => Ok (VInt (Z.of_nat (List.length vs)))
  | ASum => match sum_ints vs with Some s => Ok (VInt s) | None => Err end
  | AAvg => match vs with
            | [] => Ok VNull
            | _ => match sum_ints vs with Some s => Ok (VFlt s (Z.of_nat (List.length vs))) | None => Err end
            end
  | AMin => Ok (extremum Lt vs)
  | AMax => Ok (extremum Gt vs)
  | ACollect => Ok (VList vs)
  end.
(** GroupKeyPart: Null / Bool / Int64 / String; a float key is re-read as its bit pattern and any
    other value as its Debug string — both outside the modelled fragment *)
Definition group_key_ok (v : val) : bool := match v with VFlt _ _ | VList _ => false | _ => true end.
Definition agg_name (a : aggx) : string :=
  match ag_alias a with
  | Some s => s
  | None => match ag_fn a with
            | ACount => "count(...)"%string | ACountNN => "countnonnull(...)"%string | ASum => "sum(...)"%string
            | AAvg => "avg(...)"%string | AMin => "min(...)"%string | AMax => "max(...)"%string
            | ACollect => "collect(...)"%string
            end
  end.
(** plan_aggregate l.1661-1680: the result vectors of count are Int64, of avg Float64; since 41c4655
    sum/min/max results travel in vectors of type Any ([agg_coltype_pre]: Int64, so that a string or
    float minimum came out as 0) *)
Definition agg_coltype (a : aggx) : coltype :=
  match ag_fn a with AAvg => TFlt | ACount | ACountNN => TInt | _ => TGen end.
Definition agg_coltype_pre (a : aggx) : coltype :=
  match ag_fn a with AAvg => TFlt | ACollect => TGen | _ => TInt end.
Definition aggregate_tbl (st : store) (gb : list lexpr) (aggs : list aggx) (t : tbl) : res tbl :=
  do t1 <- add_prop_cols st t (gb ++ flat_map (fun a => match ag_arg a with Some e => [e] | None => [] end) aggs);
  do gcols <- mapM (key_col (cols t1)) gb;
  do acols <- mapM (fun a => match ag_arg a with Some e => do c <- key_col (cols t1) e; Ok (Some c) | None => Ok None end) aggs;
  let keyof (r : row) := map (fun i => cell_val (nth i r (CVal VNull))) gcols in
  let names := map expr_name gb ++ map agg_name aggs in
  let group_rows (k : list val) := filter (fun r => row_vals_eqb (keyof r) k) (rows t1) in
  let one (k : list val) : res row :=
      let rs := group_rows k in
      do avs <- mapM (fun ac => agg_value (fst ac)
                                  (match snd ac with Some c => map (fun r => cell_val (nth c r (CVal VNull))) rs | None => [] end)
                                  (List.length rs)) (combine aggs acols);
      Ok (map CVal (k ++ avs)) in
  if negb (forallb (fun r => forallb group_key_ok (keyof r)) (rows t1)) then Err else
  match gb with
  | [] => do r <- one []; Ok (mkT names (typed_rows (map agg_coltype aggs) [r]))  (* SimpleAggregateOperator: always one row *)
  | _ => do rs <- mapM one (dedup_by row_vals_eqb [] (map keyof (rows t1)));
         Ok (mkT names (typed_rows (map (fun _ => TGen) gb ++ map agg_coltype aggs) rs))
  end.

(** * sem_ops: the plan as the planner builds it with every physical optimisation switched off *)
Fixpoint sem_ops (st : store) (p : lop) : res tbl :=
  match p with
  | LScan x label => Ok (mkT [x] (scan_rows st label))
  | LExpand from to ev d ty minh maxh input =>
      do t <- sem_ops st input;
      do _ <- of_opt (pos_first from (cols t));
      do rs <- (if is_single_hop minh maxh
                then expand_rows st true (cols t) from d ty (rows t)
                else vle_rows st true (cols t) from d ty minh maxh (rows t));
      Ok (mkT (cols t ++ [edge_col ev; to]) rs)
  | LFilter e input =>
      do t <- sem_ops st input;
      Ok (filter_tbl (fun r => passes_row st (cols t) r e) t)
  | LReturn items distinct input =>       (* since 36a1196 plan_return puts a DistinctOperator on the projected rows *)
      do t <- sem_ops st input; do r <- return_tbl st items t;
      if distinct then Ok (mkT (cols r) (distinct_rows (rows r))) else Ok r
  | LProject items input =>
      do t <- sem_ops st input; project_tbl st items t
  | LSort keys input =>
      do t <- sem_ops st input;
      do t1 <- add_prop_cols st t (map fst keys);
      do ks <- mapM (fun k => do c <- key_col (cols t1) (fst k); Ok (c, snd k)) keys;
      Ok (mkT (cols t1) (map (map to_gen) (sort_rows ks (rows t1))))
  | LSkip n input => do t <- sem_ops st input; Ok (skip_tbl n t)
  | LLimit n input => do t <- sem_ops st input; Ok (limit_tbl n t)
  | LDistinct input => do t <- sem_ops st input; Ok (mkT (cols t) (distinct_rows (rows t)))
  | LAggregate gb aggs input => do t <- sem_ops st input; aggregate_tbl st gb aggs t
  end.
(** what the Executor hands out: every cell through [get_value] *)
Definition out_rows (t : tbl) : list (list val) := map (map cell_val) (rows t).

(** * The declarative semantics: all bindings of the path pattern, then the clauses in order.
    It never looks at adjacency lists, column kinds or plans: it enumerates [edges st]. *)
Inductive ent := ENode (i : Z) | EEdge (i : Z).
Definition env := list (string * ent).

Record npat := mkNP { np_var : string; np_labels : list string }.   (* every listed label is required *)
(** hop length: one edge, or a WALK of mn..mx edges (edges may repeat — the implementation's
    reading; "no maximum" is only given a meaning on graphs whose walks are bounded, see [hop_max]) *)
Inductive hlen := HOne | HVar (mn : nat) (mx : option nat).
Record hop := mkHop { h_dir : dir; h_type : option string; h_evar : option string; h_len : hlen; h_to : npat }.
Record pattern := mkPat { p_start : npat; p_hops : list hop }.

Definition type_eq (ty : option string) (t : string) : bool :=
  match ty with None => true | Some x => String.eqb x t end.
(** the assignments (edge, far end) of one edge pattern at [cur]: every edge of the right type that
    connects [cur] to the far end in the demanded direction; an undirected pattern matches an edge
    once, whichever way it points (a self-loop included) *)
Definition dstep (st : store) (d : dir) (ty : option string) (cur : Z) : list (Z * Z) :=
  flat_map (fun e =>
    if type_eq ty (etype e) then
      match d with
      | Out => if esrc e =? cur then [(eid e, edst e)] else []
      | In => if edst e =? cur then [(eid e, esrc e)] else []
      | Both => if esrc e =? cur then [(eid e, edst e)]
                else if edst e =? cur then [(eid e, esrc e)] else []
      end
    else []) (edges st).
(** walks of exactly k >= 1 edges from [cur]: (last edge, end node), one entry per walk *)
Fixpoint dwalks (st : store) (d : dir) (ty : option string) (k : nat) (cur : Z) : list (Z * Z) :=
  match k with
  | O => []
  | S k' => match k' with
            | O => dstep st d ty cur
            | S _ => flat_map (fun ef => dwalks st d ty k' (snd ef)) (dstep st d ty cur)
            end
  end.
(** an unbounded hop ranges over all walks; in a graph without directed cycles no walk is longer
    than the number of edges, which is the bound used (the harness generates unbounded hops only on
    such graphs) *)
Definition hop_max (st : store) (mx : option nat) : nat :=
  match mx with Some m => m | None => List.length (edges st) end.
Definition hop_ends (st : store) (h : hop) (cur : Z) : list (option Z * Z) :=
  match h_len h with
  | HOne => map (fun ef => (Some (fst ef), snd ef)) (dstep st (h_dir h) (h_type h) cur)
  | HVar mn mx =>
      flat_map (fun k => match k with
                         | O => [(None, cur)]
                         | S _ => map (fun ef => (Some (fst ef), snd ef)) (dwalks st (h_dir h) (h_type h) k cur)
                         end)
               (seq mn (S (hop_max st mx) - mn))
  end.
Definition node_ok (st : store) (np : npat) (i : Z) : bool :=
  match get_node st i with
  | Some n => forallb (has_label n) (np_labels np)
  | None => false
  end.
(** the variable of a variable-length edge pattern is not bound (the engine puts the last edge there) *)
Definition bind_hop (st : store) (h : hop) (en : env) (cur : Z) : list (env * Z) :=
  map (fun ef => (en ++ (match h_len h, h_evar h, fst ef with
                         | HOne, Some r, Some e => [(r, EEdge e)]
                         | _, _, _ => []
                         end) ++ [(np_var (h_to h), ENode (snd ef))], snd ef))
      (filter (fun ef => node_ok st (h_to h) (snd ef)) (hop_ends st h cur)).
Fixpoint bind_hops (st : store) (hs : list hop) (acc : list (env * Z)) : list (env * Z) :=
  match hs with
  | [] => acc
  | h :: r => bind_hops st r (flat_map (fun ec => bind_hop st h (fst ec) (snd ec)) acc)
  end.
Definition bindings (st : store) (p : pattern) : list env :=
  map fst (bind_hops st (p_hops p)
             (map (fun n => ([(np_var (p_start p), ENode (nid n))], nid n))
                  (filter (fun n => forallb (has_label n) (np_labels (p_start p))) (nodes st)))).

Definition ent_val (e : ent) : val := match e with ENode i => VInt i | EEdge i => VInt i end.
Definition ent_prop (st : store) (e : ent) (k : string) : option val :=
  match e with
  | ENode i => let? n := get_node st i in lookup k (nprops n)
  | EEdge i => let? x := get_edge st i in lookup k (eprops x)
  end.
Definition ent_labels (st : store) (e : ent) : option (list string) :=
  match e with ENode i => let? n := get_node st i in Some (nlabels n) | EEdge _ => None end.
Definition eval_env (st : store) (en : env) (e : lexpr) : option val :=
  eval (fun x => lookup x en) ent_val (ent_prop st) (ent_labels st) e.
Definition passes_env (st : store) (en : env) (e : lexpr) : bool :=
  passes (fun x => lookup x en) ent_val (ent_prop st) (ent_labels st) e.
(** a returned item: a missing value is NULL *)
Definition item_val (st : store) (en : env) (e : lexpr) : val :=
  match eval_env st en e with Some v => v | None => VNull end.

Inductive retspec :=
| RPlain (items : list lexpr) (distinct : bool)
| RAgg (keys : list lexpr) (aggs : list aggx).       (* output row = keys ++ aggregates *)
(** ORDER BY key: an expression over the pattern variables (plain, non-DISTINCT returns) or the
    i-th output column *)
Inductive okey := OEnv (e : lexpr) (desc : bool) | OCol (i : nat) (desc : bool).
Record query := mkQ {
  q_pat : pattern; q_where : option lexpr; q_ret : retspec;
  q_order : list okey; q_skip : option nat; q_limit : option nat }.

(** clause specs *)
Definition spec_where (st : store) (w : option lexpr) (es : list env) : list env :=
  match w with None => es | Some p => filter (fun en => passes_env st en p) es end.
Definition spec_project (st : store) (items : list lexpr) (es : list env) : list (env * list val) :=
  map (fun en => (en, map (item_val st en) items)) es.
Definition spec_distinct (rs : list (env * list val)) : list (env * list val) :=
  dedup_by (fun a b => row_vals_eqb (snd a) (snd b)) [] rs.
Definition okey_cmp (st : store) (k : okey) (a b : env * list val) : comparison :=
  match k with
  | OEnv e desc => let c := cmp_nulls_last (item_val st (fst a) e) (item_val st (fst b) e) in
                   if desc then CompOpp c else c
  | OCol i desc => let c := cmp_nulls_last (nth i (snd a) VNull) (nth i (snd b) VNull) in
                   if desc then CompOpp c else c
  end.
Fixpoint okeys_cmp (st : store) (ks : list okey) (a b : env * list val) : comparison :=
  match ks with
  | [] => Eq
  | k :: r => match okey_cmp st k a b with Eq => okeys_cmp st r a b | c => c end
  end.
Definition spec_order (st : store) (ks : list okey) (rs : list (env * list val)) : list (env * list val) :=
  match ks with
  | [] => rs
  | _ => stable_sort (fun a b => match okeys_cmp st ks a b with Gt => false | _ => true end) rs
  end.
Definition spec_skip {A} (s : option nat) (l : list A) : list A := match s with Some n => skipn n l | None => l end.
Definition spec_limit {A} (s : option nat) (l : list A) : list A := match s with Some n => firstn n l | None => l end.
(** grouping: one row per distinct key (first-occurrence order), aggregates over the group's bag *)
Definition spec_group (st : store) (keys : list lexpr) (aggs : list aggx) (es : list env) : res (list (env * list val)) :=
  let keyof en := map (item_val st en) keys in
  let one (k : list val) : res (env * list val) :=
      let g := filter (fun en => row_vals_eqb (keyof en) k) es in
      do avs <- mapM (fun a => agg_value a (match ag_arg a with Some e => map (fun en => item_val st en e) g | None => [] end)
                                         (List.length g)) aggs;
      Ok ([], k ++ avs) in
  match keys with
  | [] => do r <- one []; Ok [r]
  | _ => mapM one (dedup_by row_vals_eqb [] (map keyof es))
  end.

Definition answer (st : store) (q : query) : res (list (list val)) :=
  let es := spec_where st (q_where q) (bindings st (q_pat q)) in
  do rs <- match q_ret q with
           | RPlain items false => Ok (spec_project st items es)
           | RPlain items true => Ok (spec_distinct (spec_project st items es))
           | RAgg keys aggs => spec_group st keys aggs es
           end;
  Ok (map snd (spec_limit (q_limit q) (spec_skip (q_skip q) (spec_order st (q_order q) rs)))).

(** * The plan shapes the translators emit for the core (gql_translator.rs
    translate_path_pattern_with_alias / cypher_translator.rs translate_relationship_pattern):
    NodeScan on the first label, one Expand per edge pattern, a hasLabel filter per labelled target *)
Definition hop_plan (from : string) (h : hop) (input : lop) : lop :=
  let ex := match h_len h with
            | HOne => LExpand from (np_var (h_to h)) (h_evar h) (h_dir h) (h_type h) 1 (Some 1%nat) input
            | HVar mn mx => LExpand from (np_var (h_to h)) (h_evar h) (h_dir h) (h_type h) mn mx input
            end in
  match np_labels (h_to h) with
  | [] => ex
  | l :: _ => LFilter (EHasLabel (np_var (h_to h)) l) ex
  end.
Fixpoint hops_plan (from : string) (hs : list hop) (input : lop) : lop :=
  match hs with
  | [] => input
  | h :: r => hops_plan (np_var (h_to h)) r (hop_plan from h input)
  end.
Definition chain_plan (p : pattern) : lop :=
  hops_plan (np_var (p_start p)) (p_hops p)
            (LScan (np_var (p_start p)) (match np_labels (p_start p) with [] => None | l :: _ => Some l end)).
(** a row of the chain as an assignment of the pattern's variables *)
Definition cell_ent (c : cell) : option ent :=
  match c with CNode i => Some (ENode i) | CEdge i => Some (EEdge i) | CVal _ => None end.
