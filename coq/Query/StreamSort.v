(** C11 — Layer 2, continued: the Sort operator (sort.rs).  Definitions only.

    [SortOperator] materialises its input, sorts row references with [slice::sort_by] (a STABLE
    sort) under the comparator below and emits the rows in batches of 2048.

    The comparator ([compare_values_with_nulls] / [compare_values] of sort.rs) answers [Equal] for
    every pair it cannot order (values of different types, a NaN on either side), so on a column
    of mixed types it is not a total preorder and the result of [sort_by] is then whatever the
    library's merge strategy makes of it (it may even panic since Rust 1.81).  The model is the
    stable insertion sort, which IS the result of every stable sort whenever the comparator is a
    total preorder on the rows at hand ([cmp_consistent] — decidable, evaluated by the run on
    every compared case; theorem [sort_sorted] takes it as hypothesis). *)
From GV Require Export Query.Stream.
Open Scope Z_scope.

Inductive sdir := Asc | Desc.
Inductive nord := NullsFirst | NullsLast.
Record skey := mkSKey { sk_col : nat; sk_dir : sdir; sk_nulls : nord }.

(** [compare_values] of sort.rs, as -1 / 0 / 1 *)
Definition f_cmp_eq (a b : Z) : Z :=
  match f_key a, f_key b with
  | Some x, Some y => cmp_z x y
  | _, _ => 0       (** [partial_cmp(..).unwrap_or(Equal)] *)
  end.
Definition sort_cmp_values (a b : value) : Z :=
  match a, b with
  | VBool x, VBool y => cmp_z (if x then 1 else 0) (if y then 1 else 0)
  | VInt x, VInt y => cmp_z x y
  | VFloat x, VFloat y => f_cmp_eq x y
  | VStr x, VStr y => bytes_cmp x y
  | VInt x, VFloat y => f_cmp_eq (f_of_int x) y
  | VFloat x, VInt y => f_cmp_eq x (f_of_int y)
  | _, _ => 0
  end.
Definition is_nullish (o : option value) : bool :=
  match o with None | Some VNull => true | _ => false end.
(** [compare_values_with_nulls] *)
Definition cmp_with_nulls (a b : option value) (no : nord) : Z :=
  match is_nullish a, is_nullish b with
  | true, true => 0
  | true, false => match no with NullsFirst => -1 | NullsLast => 1 end
  | false, true => match no with NullsFirst => 1 | NullsLast => -1 end
  | false, false =>
      match a, b with
      | Some x, Some y => sort_cmp_values x y
      | _, _ => 0
      end
  end.
Definition key_cmp (k : skey) (r1 r2 : row) : Z :=
  let c := cmp_with_nulls (nth_error r1 (sk_col k)) (nth_error r2 (sk_col k)) (sk_nulls k) in
  match sk_dir k with Asc => c | Desc => - c end.
(** the closure passed to [sort_by]: the first key that does not answer [Equal] decides *)
Fixpoint rows_cmp (keys : list skey) (r1 r2 : row) : Z :=
  match keys with
  | [] => 0
  | k :: t => let c := key_cmp k r1 r2 in if c =? 0 then rows_cmp t r1 r2 else c
  end.

(** stable insertion sort (processing from the right: the inserted row precedes in the input
    every row already placed, so it goes in front of the rows it ties with) *)
Section SortBy.
  Variable cmp : row -> row -> Z.
  Fixpoint insert_by (r : row) (l : list row) : list row :=
    match l with
    | [] => [r]
    | x :: t => if cmp r x <=? 0 then r :: x :: t else x :: insert_by r t
    end.
  Definition sort_by (l : list row) : list row := fold_right insert_by [] l.
End SortBy.

(** rows that tie with [x] under the comparator (for the statement of stability) *)
Definition ties (cmp : row -> row -> Z) (x r : row) : bool := cmp x r =? 0.

(** the operator: state [None] = input not yet sorted, [Some rows] = sorted rows still to emit *)
Definition sort_next (keys : list skey) (st : option (list row)) (cs : list chunk)
  : option (chunk * option (list row) * list chunk) :=
  let rows := match st with None => sort_by (rows_cmp keys) (rows_of cs) | Some r => r end in
  match firstn 2048 rows with
  | [] => None
  | out => Some (mkChunk out None, Some (skipn 2048 rows), [])
  end.
Definition drain_sort (keys : list skey) (cs : list chunk) : list chunk :=
  drain_st (sort_next keys) (fuel_of cs) None cs.

(** the comparator is a total preorder on [rows]: antisymmetric in sign and transitive
    (decidable; cubic — evaluated on small inputs, see [col_class] for the cheap sufficient test) *)
Definition sgn_le (c : Z) : bool := c <=? 0.
Definition cmp_consistent (cmp : row -> row -> Z) (rows : list row) : bool :=
  forallb (fun a => forallb (fun b =>
    (cmp b a =? - cmp a b)
    && forallb (fun c => negb (sgn_le (cmp a b) && sgn_le (cmp b c)) || sgn_le (cmp a c)) rows) rows) rows.

(** cheap sufficient condition used for big inputs: every key column holds, besides NULLs and
    missing values, values of ONE orderable class *)
Inductive vclass := CInt | CStr | CBool | CNone.
Definition class_of (v : value) : option vclass :=
  match v with VInt _ => Some CInt | VStr _ => Some CStr | VBool _ => Some CBool | VNull => Some CNone | _ => None end.
Definition vclass_eqb (a b : vclass) : bool :=
  match a, b with CInt, CInt | CStr, CStr | CBool, CBool | CNone, CNone => true | _, _ => false end.
Definition col_one_class (c : nat) (rows : list row) : bool :=
  let cls := flat_map (fun r => match nth_error r c with
                                | None => []
                                | Some v => match class_of v with Some CNone => [] | Some k => [Some k] | None => [None] end
                                end) rows in
  match cls with
  | [] => true
  | None :: _ => false
  | Some k :: t => forallb (fun o => match o with Some k' => vclass_eqb k k' | None => false end) t
  end.
Definition keys_one_class (keys : list skey) (rows : list row) : bool :=
  forallb (fun k => col_one_class (sk_col k) rows) keys.

(** key columns that hold only Int64 values, NULLs and missing values: there the comparator IS a
    total preorder (theorem [sort_spec_int_keys], no hypothesis left) *)
Definition int_key_col (c : nat) (r : row) : bool :=
  match nth_error r c with None | Some VNull | Some (VInt _) => true | _ => false end.
Definition int_keyed (keys : list skey) (rows : list row) : bool :=
  forallb (fun r => forallb (fun k => int_key_col (sk_col k) r) keys) rows.
