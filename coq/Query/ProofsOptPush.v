(** C09 — filter push-down ([pfd]/[try_push]) and projection push-down ([ppd]) preserve [sem]
    as a *list* (hence as a bag, and in order) wherever [pfd_ok] holds; the witnesses of the
    places where the code pushes although it must not. *)
From Coq Require Import ZArith List Bool String Permutation Lia.
Import ListNotations.
From GV Require Import Query.Plan Query.Opt Query.ProofsOptBase.
Open Scope Z_scope.

(** ** list commutation lemmas *)
Lemma filter_map_comm : forall {A B} (f : A -> B) (p : B -> bool) (q : A -> bool) l,
  (forall x, In x l -> p (f x) = q x) -> filter p (map f l) = map f (filter q l).
Proof.
  intros A B f p q l; induction l as [|x l IH]; cbn [map filter]; intros H; [reflexivity|].
  rewrite (H x) by (left; reflexivity). rewrite IH by (intros; apply H; right; assumption).
  destruct (q x); reflexivity.
Qed.

Lemma filter_flat_map : forall {A B} (F : A -> list B) (p : B -> bool) l,
  filter p (flat_map F l) = flat_map (fun a => filter p (F a)) l.
Proof.
  intros A B F p l; induction l as [|x l IH]; cbn [flat_map filter]; [reflexivity|].
  rewrite filter_app, IH. reflexivity.
Qed.

Lemma flat_map_ext_in : forall {A B} (F H : A -> list B) l,
  (forall a, In a l -> F a = H a) -> flat_map F l = flat_map H l.
Proof.
  intros A B F H l; induction l as [|x l IH]; cbn [flat_map]; intros E; [reflexivity|].
  rewrite (E x) by (left; reflexivity). rewrite IH by (intros; apply E; right; assumption). reflexivity.
Qed.

Lemma filter_all_same : forall {A} (p : A -> bool) (b : bool) l,
  (forall x, In x l -> p x = b) -> filter p l = if b then l else [].
Proof.
  intros A p b l; induction l as [|x l IH]; cbn [filter]; intros H; [destruct b; reflexivity|].
  rewrite (H x) by (left; reflexivity). rewrite IH by (intros; apply H; right; assumption).
  destruct b; reflexivity.
Qed.

Lemma filter_flat_map_comm : forall {A B} (F : A -> list B) (p : B -> bool) (q : A -> bool) l,
  (forall a, In a l -> forall b, In b (F a) -> p b = q a) ->
  filter p (flat_map F l) = flat_map F (filter q l).
Proof.
  intros A B F p q l; induction l as [|x l IH]; cbn [flat_map filter]; intros H; [reflexivity|].
  rewrite filter_app, IH by (intros; eapply H; [right|]; eassumption).
  rewrite (filter_all_same p (q x)) by (intros; eapply H; [left; reflexivity|assumption]).
  destruct (q x); reflexivity.
Qed.

Lemma filter_filter_comm : forall {A} (p q : A -> bool) l, filter p (filter q l) = filter q (filter p l).
Proof.
  intros A p q l; induction l as [|x l IH]; cbn [filter]; [reflexivity|].
  destruct (q x) eqn:Q, (p x) eqn:P; cbn [filter]; rewrite ?Q, ?P, IH; reflexivity.
Qed.

(** ** the pass keeps the columns *)
Lemma schema_try_push : forall e op, schema (try_push e op) = schema op.
Proof.
  intros e op; induction op; cbn [try_push schema]; try reflexivity.
  - destruct (uses_any _ _); cbn [schema]; [reflexivity|]. rewrite IHop. reflexivity.
  - destruct (disjointb _ _); reflexivity.
  - destruct (_ && _); cbn [schema]; [rewrite IHop1; reflexivity|].
    destruct (_ && _); cbn [schema]; [rewrite IHop2; reflexivity|reflexivity].
Qed.

Lemma schema_pfd : forall p, schema (pfd p) = schema p.
Proof.
  induction p; cbn [pfd schema]; try reflexivity; try congruence.
  rewrite schema_try_push. exact IHp.
Qed.

Lemma uniform_try_push : forall e op, uniform op = true -> uniform (try_push e op) = true.
Proof.
  intros e op; induction op; cbn [try_push uniform]; intros U; try exact U.
  - destruct (uses_any _ _); cbn [uniform]; auto.
  - destruct (disjointb _ _); cbn [uniform]; auto.
  - auto.
  - apply andb_true_iff in U as [U1 U2].
    destruct (_ && _); cbn [uniform]; [rewrite IHop1, U2 by assumption; reflexivity|].
    destruct (_ && _); cbn [uniform]; [rewrite IHop2, U1 by assumption; reflexivity|].
    rewrite U1, U2; reflexivity.
Qed.

Lemma uniform_pfd : forall p, uniform p = true -> uniform (pfd p) = true.
Proof.
  induction p; cbn [pfd uniform]; intros U; auto.
  - apply uniform_try_push; auto.
  - apply andb_true_iff in U as [U1 U2]. rewrite IHp1, IHp2 by assumption. reflexivity.
Qed.

(** ** pass-through columns of a projection *)
Lemma lookup_project_through : forall G items r v,
  passes_through v items = true ->
  lookup v (project_row G items r) = Some (match lookup v r with Some x => x | None => VNull end).
Proof.
  intros G items r v; induction items as [|it items IH]; cbn [passes_through project_row map lookup];
    [discriminate|].
  fold (project_row G items r).
  destruct (String.eqb (item_name it) v) eqn:E.
  - destruct it as [[ | x | | | | ] al]; cbn [fst]; try discriminate.
    rewrite String.eqb_eq. intros ->. reflexivity.
  - exact IH.
Qed.

Lemma passes_project_through : forall G e items inp r,
  uniform inp = true -> In r (sem G inp) -> through_ok (expr_vars e) items inp = true ->
  passes G e (project_row G items r) = passes G e r.
Proof.
  intros G e items inp r U Hr T. apply passes_ext. intros v Hv.
  unfold through_ok in T. rewrite forallb_forall in T. specialize (T v Hv).
  apply andb_true_iff in T as [T1 T2].
  rewrite (lookup_project_through _ _ _ _ T1).
  destruct (lookup_in_schema G inp r v U Hr T2) as [x ->]. reflexivity.
Qed.

(** ** the commutation lemmas behind every push *)
Lemma try_push_sound : forall G e op,
  uniform op = true -> try_push_ok e op = true ->
  sem G (try_push e op) = filter (passes G e) (sem G op).
Proof.
  intros G e op; induction op as
    [|x l|x l inp IH|f t ev d ty inp IH|e0 inp IH|items inp IH|items dd inp IH|k cs pl IHl pr IHr
     |pl IHl pr IHr|gs ags inp IH|ks inp IH|n inp IH|n inp IH|inp IH|a IHa b IHb];
    cbn [try_push try_push_ok uniform]; intros U OK; try reflexivity.
  - (* Expand *)
    destruct (uses_any (expr_vars e) (t :: match ev with Some e1 => [e1] | None => [] end)) eqn:UA;
      [reflexivity|].
    cbn [sem]. rewrite (IH U OK). symmetry. apply filter_flat_map_comm.
    intros r Hr r' Hr'. unfold expand_row in Hr'.
    destruct (lookup f r) as [[| | | |s|]|]; try destruct Hr'.
    apply in_map_iff in Hr' as (et & <- & _). apply passes_ext. intros v Hv.
    pose proof (uses_any_false _ _ UA v Hv) as Hm.
    rewrite lookup_app. destruct (lookup v r) as [x|]; [reflexivity|].
    apply lookup_not_key. rewrite keys_app. cbn [mem] in Hm. apply orb_false_iff in Hm as [Ht Hev].
    rewrite mem_app. destruct ev as [e1|]; cbn [keys map fst mem app] in *; rewrite ?Ht, ?Hev; reflexivity.
  - (* Project *)
    destruct (disjointb (expr_vars e) (aliases items)); [|reflexivity].
    apply andb_true_iff in OK as [T OK]. cbn [sem]. rewrite (IH U OK). symmetry.
    apply filter_map_comm. intros r Hr. eapply passes_project_through; eauto.
  - (* Return *)
    apply andb_true_iff in OK as [T OK]. cbn [sem]. rewrite (IH U OK). symmetry.
    apply filter_map_comm. intros r Hr. eapply passes_project_through; eauto.
  - (* Join *)
    apply andb_true_iff in U as [Ul Ur].
    destruct (uses_any (expr_vars e) (out_vars pl) && negb (uses_any (expr_vars e) (out_vars pr))).
    + (* into the left input *)
      apply andb_true_iff in OK as [D OK]. cbn [sem]. rewrite schema_try_push, (IHl Ul OK).
      unfold join_rows. symmetry. apply filter_flat_map_comm.
      intros a Ha r' Hr'.
      set (ms := filter (fun b => forallb (cond_holds (schema pl) (schema pr) a b) cs) (sem G pr)) in *.
      assert (forall x, keys x = schema pr -> passes G e (a ++ x) = passes G e a) as Hx.
      { intros x Kx. apply passes_ext. intros v Hv. rewrite lookup_app.
        destruct (lookup v a); [reflexivity|]. apply lookup_not_key. rewrite Kx.
        eapply disjointb_true; eauto. }
      assert (In r' (map (fun b => a ++ b) ms) -> passes G e r' = passes G e a) as Hgen.
      { intros H. apply in_map_iff in H as (b & <- & Hb). apply Hx.
        apply filter_In in Hb as [Hb _]. apply (keys_sem G pr Ur _ Hb). }
      destruct k; try (apply Hgen; exact Hr').
      destruct ms as [|m ms']; [|apply Hgen; exact Hr'].
      destruct Hr' as [<-|[]]. apply Hx, keys_null_row.
    + destruct (uses_any (expr_vars e) (out_vars pr) && negb (uses_any (expr_vars e) (out_vars pl)));
        [|reflexivity].
      (* into the right input *)
      apply andb_true_iff in OK as [OK OKr]. apply andb_true_iff in OK as [D NL].
      cbn [sem]. rewrite schema_try_push, (IHr Ur OKr).
      assert (forall a, In a (sem G pl) -> forall b, passes G e (a ++ b) = passes G e b) as Hx.
      { intros a Ha b. apply passes_ext. intros v Hv. rewrite lookup_app.
        rewrite (lookup_not_in_schema G pl a v Ul Ha); [reflexivity|]. eapply disjointb_true; eauto. }
      unfold join_rows. rewrite filter_flat_map. apply flat_map_ext_in. intros a Ha.
      assert (map (fun b => a ++ b)
                  (filter (fun b => forallb (cond_holds (schema pl) (schema pr) a b) cs)
                          (filter (passes G e) (sem G pr)))
              = filter (passes G e)
                       (map (fun b => a ++ b)
                            (filter (fun b => forallb (cond_holds (schema pl) (schema pr) a b) cs) (sem G pr))))
        as E.
      { rewrite filter_filter_comm. symmetry. apply filter_map_comm. intros b _. apply Hx, Ha. }
      destruct k; try exact E. discriminate NL.
Qed.

Theorem pfd_sound : forall G p, uniform p = true -> pfd_ok p = true -> sem G (pfd p) = sem G p.
Proof.
  intros G p; induction p as
    [|x l|x l inp IH|f t ev d ty inp IH|e0 inp IH|items inp IH|items dd inp IH|k cs pl IHl pr IHr
     |pl IHl pr IHr|gs ags inp IH|ks inp IH|n inp IH|n inp IH|inp IH|a IHa b IHb];
    cbn [pfd pfd_ok uniform]; intros U OK; try reflexivity;
    try (cbn [sem]; rewrite (IH U OK); reflexivity).
  - apply andb_true_iff in OK as [OK1 OK2].
    rewrite try_push_sound by (auto using uniform_pfd). cbn [sem]. rewrite (IH U OK1). reflexivity.
  - apply andb_true_iff in U as [Ul Ur]. apply andb_true_iff in OK as [OKl OKr].
    cbn [sem]. rewrite !schema_pfd, (IHl Ul OKl), (IHr Ur OKr). reflexivity.
Qed.

(** ** the proposed repair of C09-K1 ([try_push_fix]/[pfd_fix], Opt.v) *)
Lemma schema_try_push_fix : forall e op, schema (try_push_fix e op) = schema op.
Proof.
  intros e op; induction op; cbn [try_push_fix schema]; try reflexivity.
  - destruct (uses_any _ _); cbn [schema]; [reflexivity|]. rewrite IHop. reflexivity.
  - destruct (all_passed _ _); reflexivity.
  - destruct (all_passed _ _); reflexivity.
  - destruct (_ && _); cbn [schema]; [rewrite IHop1; reflexivity|].
    destruct (_ && _); cbn [schema]; [rewrite IHop2; reflexivity|reflexivity].
Qed.

Lemma schema_pfd_fix : forall p, schema (pfd_fix p) = schema p.
Proof.
  induction p; cbn [pfd_fix schema]; try reflexivity; try congruence.
  rewrite schema_try_push_fix. exact IHp.
Qed.

Lemma uniform_try_push_fix : forall e op, uniform op = true -> uniform (try_push_fix e op) = true.
Proof.
  intros e op; induction op; cbn [try_push_fix uniform]; intros U; try exact U.
  - destruct (uses_any _ _); cbn [uniform]; auto.
  - destruct (all_passed _ _); cbn [uniform]; auto.
  - destruct (all_passed _ _); cbn [uniform]; auto.
  - apply andb_true_iff in U as [U1 U2].
    destruct (_ && _); cbn [uniform]; [rewrite IHop1, U2 by assumption; reflexivity|].
    destruct (_ && _); cbn [uniform]; [rewrite IHop2, U1 by assumption; reflexivity|].
    rewrite U1, U2; reflexivity.
Qed.

Lemma uniform_pfd_fix : forall p, uniform p = true -> uniform (pfd_fix p) = true.
Proof.
  induction p; cbn [pfd_fix uniform]; intros U; auto.
  - apply uniform_try_push_fix; auto.
  - apply andb_true_iff in U as [U1 U2]. rewrite IHp1, IHp2 by assumption. reflexivity.
Qed.

Lemma try_push_fix_sound : forall G e op,
  uniform op = true -> try_push_fix_ok e op = true ->
  sem G (try_push_fix e op) = filter (passes G e) (sem G op).
Proof.
  intros G e op; induction op as
    [|x l|x l inp IH|f t ev d ty inp IH|e0 inp IH|items inp IH|items dd inp IH|k cs pl IHl pr IHr
     |pl IHl pr IHr|gs ags inp IH|ks inp IH|n inp IH|n inp IH|inp IH|a IHa b IHb];
    cbn [try_push_fix try_push_fix_ok uniform]; intros U OK; try reflexivity.
  - (* Expand *)
    destruct (uses_any (expr_vars e) (t :: match ev with Some e1 => [e1] | None => [] end)) eqn:UA;
      [reflexivity|].
    cbn [sem]. rewrite (IH U OK). symmetry. apply filter_flat_map_comm.
    intros r Hr r' Hr'. unfold expand_row in Hr'.
    destruct (lookup f r) as [[| | | |s|]|]; try destruct Hr'.
    apply in_map_iff in Hr' as (et & <- & _). apply passes_ext. intros v Hv.
    pose proof (uses_any_false _ _ UA v Hv) as Hm.
    rewrite lookup_app. destruct (lookup v r) as [x|]; [reflexivity|].
    apply lookup_not_key. rewrite keys_app. cbn [mem] in Hm. apply orb_false_iff in Hm as [Ht Hev].
    rewrite mem_app. destruct ev as [e1|]; cbn [keys map fst mem app] in *; rewrite ?Ht, ?Hev; reflexivity.
  - (* Project *)
    destruct (all_passed (expr_vars e) items); [|reflexivity].
    apply andb_true_iff in OK as [T OK]. cbn [sem]. rewrite (IH U OK). symmetry.
    apply filter_map_comm. intros r Hr. eapply passes_project_through; eauto.
  - (* Return *)
    destruct (all_passed (expr_vars e) items); [|reflexivity].
    apply andb_true_iff in OK as [T OK]. cbn [sem]. rewrite (IH U OK). symmetry.
    apply filter_map_comm. intros r Hr. eapply passes_project_through; eauto.
  - (* Join *)
    apply andb_true_iff in U as [Ul Ur].
    destruct (uses_any (expr_vars e) (out_vars_fix pl) && negb (uses_any (expr_vars e) (out_vars_fix pr))).
    + (* into the left input *)
      apply andb_true_iff in OK as [D OK]. cbn [sem]. rewrite schema_try_push_fix, (IHl Ul OK).
      unfold join_rows. symmetry. apply filter_flat_map_comm.
      intros a Ha r' Hr'.
      set (ms := filter (fun b => forallb (cond_holds (schema pl) (schema pr) a b) cs) (sem G pr)) in *.
      assert (forall x, keys x = schema pr -> passes G e (a ++ x) = passes G e a) as Hx.
      { intros x Kx. apply passes_ext. intros v Hv. rewrite lookup_app.
        destruct (lookup v a); [reflexivity|]. apply lookup_not_key. rewrite Kx.
        eapply disjointb_true; eauto. }
      assert (In r' (map (fun b => a ++ b) ms) -> passes G e r' = passes G e a) as Hgen.
      { intros H. apply in_map_iff in H as (b & <- & Hb). apply Hx.
        apply filter_In in Hb as [Hb _]. apply (keys_sem G pr Ur _ Hb). }
      destruct k; try (apply Hgen; exact Hr').
      destruct ms as [|m ms']; [|apply Hgen; exact Hr'].
      destruct Hr' as [<-|[]]. apply Hx, keys_null_row.
    + destruct (uses_any (expr_vars e) (out_vars_fix pr) && negb (uses_any (expr_vars e) (out_vars_fix pl))
                && match k with JLeft => false | _ => true end) eqn:RP; [|reflexivity].
      (* into the right input *)
      apply andb_true_iff in RP as [_ NL].
      apply andb_true_iff in OK as [D OKr].
      cbn [sem]. rewrite schema_try_push_fix, (IHr Ur OKr).
      assert (forall a, In a (sem G pl) -> forall b, passes G e (a ++ b) = passes G e b) as Hx.
      { intros a Ha b. apply passes_ext. intros v Hv. rewrite lookup_app.
        rewrite (lookup_not_in_schema G pl a v Ul Ha); [reflexivity|]. eapply disjointb_true; eauto. }
      unfold join_rows. rewrite filter_flat_map. apply flat_map_ext_in. intros a Ha.
      assert (map (fun b => a ++ b)
                  (filter (fun b => forallb (cond_holds (schema pl) (schema pr) a b) cs)
                          (filter (passes G e) (sem G pr)))
              = filter (passes G e)
                       (map (fun b => a ++ b)
                            (filter (fun b => forallb (cond_holds (schema pl) (schema pr) a b) cs) (sem G pr))))
        as E.
      { rewrite filter_filter_comm. symmetry. apply filter_map_comm. intros b _. apply Hx, Ha. }
      destruct k; try exact E. discriminate NL.
Qed.

Theorem pfd_fix_sound : forall G p, uniform p = true -> pfd_fix_ok p = true -> sem G (pfd_fix p) = sem G p.
Proof.
  intros G p; induction p as
    [|x l|x l inp IH|f t ev d ty inp IH|e0 inp IH|items inp IH|items dd inp IH|k cs pl IHl pr IHr
     |pl IHl pr IHr|gs ags inp IH|ks inp IH|n inp IH|n inp IH|inp IH|a IHa b IHb];
    cbn [pfd_fix pfd_fix_ok uniform]; intros U OK; try reflexivity;
    try (cbn [sem]; rewrite (IH U OK); reflexivity).
  - apply andb_true_iff in OK as [OK1 OK2].
    rewrite try_push_fix_sound by (auto using uniform_pfd_fix). cbn [sem]. rewrite (IH U OK1). reflexivity.
  - apply andb_true_iff in U as [Ul Ur]. apply andb_true_iff in OK as [OKl OKr].
    cbn [sem]. rewrite !schema_pfd_fix, (IHl Ul OKl), (IHr Ur OKr). reflexivity.
Qed.

(** ** projection push-down rebuilds the tree it is given *)
Lemma ppd_rec_id : forall p req, ppd_rec p req = p.
Proof.
  induction p; intros req; cbn [ppd_rec]; try reflexivity; try (rewrite IHp; reflexivity).
  rewrite IHp1, IHp2. reflexivity.
Qed.

Theorem ppd_id : forall p, ppd p = p.
Proof. intros; apply ppd_rec_id. Qed.
