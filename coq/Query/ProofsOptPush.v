(** C09 — filter push-down ([pfd_pre]/[try_push_pre]) and projection push-down ([ppd]) preserve [sem]
    as a *list* (hence as a bag, and in order) wherever [pfd_ok_pre] holds; the witnesses of the
    places where the code pushes although it must not. *)
From Coq Require Import ZArith List Bool String Permutation Lia.
Import ListNotations.
From GV Require Import Query.Plan Query.Opt Query.ProofsOptBase.
Open Scope Z_scope.

(** ** list commutation lemmas *)
Lemma filter_map_comm : forall {A B} (f : A -> B) (p : B -> bool) (q : A -> bool) l,
  (forall x, In x l -> p (f x) = q x) -> filter p (map f l) = map f (filter q l).
Proof.
  intros A B f p q l; induction l as [|x l IH]; cbn [map filter]; intros H; [reflexivity|].
  rewrite (H x) by (left; reflexivity). rewrite IH by (intros; apply H; right; assumption).
  destruct (q x); reflexivity.
Qed.

Lemma filter_flat_map : forall {A B} (F : A -> list B) (p : B -> bool) l,
  filter p (flat_map F l) = flat_map (fun a => filter p (F a)) l.
Proof.
  intros A B F p l; induction l as [|x l IH]; cbn [flat_map filter]; [reflexivity|].
  rewrite filter_app, IH. reflexivity.
Qed.

Lemma flat_map_ext_in : forall {A B} (F H : A -> list B) l,
  (forall a, In a l -> F a = H a) -> flat_map F l = flat_map H l.
Proof.
  intros A B F H l; induction l as [|x l IH]; cbn [flat_map]; intros E; [reflexivity|].
  rewrite (E x) by (left; reflexivity). rewrite IH by (intros; apply E; right; assumption). reflexivity.
Qed.

Lemma filter_all_same : forall {A} (p : A -> bool) (b : bool) l,
  (forall x, In x l -> p x = b) -> filter p l = if b then l else [].
Proof.
  intros A p b l; induction l as [|x l IH]; cbn [filter]; intros H; [destruct b; reflexivity|].
  rewrite (H x) by (left; reflexivity). rewrite IH by (intros; apply H; right; assumption).
  destruct b; reflexivity.
Qed.

Lemma filter_flat_map_comm : forall {A B} (F : A -> list B) (p : B -> bool) (q : A -> bool) l,
  (forall a, In a l -> forall b, In b (F a) -> p b = q a) ->
  filter p (flat_map F l) = flat_map F (filter q l).
Proof.
  intros A B F p q l; induction l as [|x l IH]; cbn [flat_map filter]; intros H; [reflexivity|].
  rewrite filter_app, IH by (intros; eapply H; [right|]; eassumption).
  rewrite (filter_all_same p (q x)) by (intros; eapply H; [left; reflexivity|assumption]).
  destruct (q x); reflexivity.
Qed.

Lemma filter_filter_comm : forall {A} (p q : A -> bool) l, filter p (filter q l) = filter q (filter p l).
Proof.
  intros A p q l; induction l as [|x l IH]; cbn [filter]; [reflexivity|].
  destruct (q x) eqn:Q, (p x) eqn:P; cbn [filter]; rewrite ?Q, ?P, IH; reflexivity.
Qed.

(** the columns an Expand appends are among what the code calls introduced, plus the hidden
    path-length column *)
Lemma mem_xnames : forall v t ev h,
  mem v (xintro t ev h) = false -> mem v (xhidden h) = false -> mem v (xnames t ev h) = false.
Proof.
  intros v t ev h. unfold xintro, xhidden, xnames. cbn [mem]. rewrite !mem_app. cbn [mem].
  intros H1 H2. apply orb_false_iff in H1 as [Ht H1]. apply orb_false_iff in H1 as [He _].
  rewrite He, Ht. cbn [orb]. destruct (h_path h); [exact H2|reflexivity].
Qed.

(** ** the pass keeps the columns *)
Lemma schema_try_push_pre : forall e op, schema (try_push_pre e op) = schema op.
Proof.
  intros e op; induction op; cbn [try_push_pre schema]; try reflexivity.
  - destruct (uses_any _ _); cbn [schema]; [reflexivity|]. rewrite IHop. reflexivity.
  - destruct (disjointb _ _); reflexivity.
  - destruct (_ && _); cbn [schema]; [rewrite IHop1; reflexivity|].
    destruct (_ && _); cbn [schema]; [rewrite IHop2; reflexivity|reflexivity].
Qed.

Lemma schema_pfd_pre : forall p, schema (pfd_pre p) = schema p.
Proof.
  induction p; cbn [pfd_pre schema]; try reflexivity; try congruence.
  rewrite schema_try_push_pre. exact IHp.
Qed.

Lemma uniform_try_push_pre : forall e op, uniform op = true -> uniform (try_push_pre e op) = true.
Proof.
  intros e op; induction op; cbn [try_push_pre uniform]; intros U; try exact U.
  - destruct (uses_any _ _); cbn [uniform]; auto.
  - destruct (disjointb _ _); cbn [uniform]; auto.
  - auto.
  - apply andb_true_iff in U as [U1 U2].
    destruct (_ && _); cbn [uniform]; [rewrite IHop1, U2 by assumption; reflexivity|].
    destruct (_ && _); cbn [uniform]; [rewrite IHop2, U1 by assumption; reflexivity|].
    rewrite U1, U2; reflexivity.
Qed.

Lemma uniform_pfd_pre : forall p, uniform p = true -> uniform (pfd_pre p) = true.
Proof.
  induction p; cbn [pfd_pre uniform]; intros U; auto.
  - apply uniform_try_push_pre; auto.
  - apply andb_true_iff in U as [U1 U2]. rewrite IHp1, IHp2 by assumption. reflexivity.
Qed.

(** ** pass-through columns of a projection *)
Lemma lookup_project_through : forall G items r v,
  passes_through v items = true ->
  lookup v (project_row G items r) = Some (match lookup v r with Some x => x | None => VNull end).
Proof.
  intros G items r v; induction items as [|it items IH]; cbn [passes_through project_row map lookup];
    [discriminate|].
  fold (project_row G items r).
  destruct (String.eqb (item_name it) v) eqn:E.
  - destruct it as [[ | x | | | | | ] al]; cbn [fst]; try discriminate.
    rewrite String.eqb_eq. intros ->. reflexivity.
  - exact IH.
Qed.

Lemma passes_project_through : forall G e items inp r,
  uniform inp = true -> In r (sem G inp) -> through_ok (expr_vars e) items inp = true ->
  passes G e (project_row G items r) = passes G e r.
Proof.
  intros G e items inp r U Hr T. apply passes_ext. intros v Hv.
  unfold through_ok in T. rewrite forallb_forall in T. specialize (T v Hv).
  apply andb_true_iff in T as [T1 T2].
  rewrite (lookup_project_through _ _ _ _ T1).
  destruct (lookup_in_schema G inp r v U Hr T2) as [x ->]. reflexivity.
Qed.

(** ** the commutation lemmas behind every push *)
Lemma try_push_pre_sound : forall G e op,
  uniform op = true -> try_push_ok_pre e op = true ->
  sem G (try_push_pre e op) = filter (passes G e) (sem G op).
Proof.
  intros G e op; induction op as
    [|x l|x l inp IH|f t ev d ty h inp IH|e0 inp IH|items inp IH|items dd inp IH|k cs pl IHl pr IHr
     |pl IHl pr IHr|gs ags inp IH|ks inp IH|n inp IH|n inp IH|inp IH|a IHa b IHb];
    cbn [try_push_pre try_push_ok_pre uniform]; intros U OK; try reflexivity.
  - (* Expand *)
    destruct (uses_any (expr_vars e) (xintro t ev h)) eqn:UA; [reflexivity|].
    apply andb_true_iff in OK as [HD OK].
    cbn [sem]. rewrite (IH U OK). symmetry. apply filter_flat_map_comm.
    intros r Hr r' Hr'. unfold expand_row in Hr'.
    destruct (lookup f r) as [[| | | |s|]|]; try destruct Hr'.
    apply in_map_iff in Hr' as (et & <- & _). apply passes_ext. intros v Hv.
    rewrite lookup_app. destruct (lookup v r) as [x|]; [reflexivity|].
    apply lookup_not_key. rewrite keys_xcols. apply mem_xnames.
    + exact (uses_any_false _ _ UA v Hv).
    + exact (disjointb_true _ _ HD v Hv).
  - (* Project *)
    destruct (disjointb (expr_vars e) (aliases items)); [|reflexivity].
    apply andb_true_iff in OK as [T OK]. cbn [sem]. rewrite (IH U OK). symmetry.
    apply filter_map_comm. intros r Hr. eapply passes_project_through; eauto.
  - (* Return *)
    apply andb_true_iff in OK as [T OK]. cbn [sem]. rewrite (IH U OK).
    assert (map (project_row G items) (filter (passes G e) (sem G inp))
            = filter (passes G e) (map (project_row G items) (sem G inp))) as E
      by (symmetry; apply filter_map_comm; intros r Hr; eapply passes_project_through; eauto).
    rewrite E. unfold return_rows. destruct dd; [symmetry; apply filter_dedup|reflexivity].
  - (* Join *)
    apply andb_true_iff in U as [Ul Ur].
    destruct (uses_any (expr_vars e) (out_vars_pre pl) && negb (uses_any (expr_vars e) (out_vars_pre pr))).
    + (* into the left input *)
      apply andb_true_iff in OK as [D OK]. cbn [sem]. rewrite schema_try_push_pre, (IHl Ul OK).
      unfold join_rows. symmetry. apply filter_flat_map_comm.
      intros a Ha r' Hr'.
      set (ms := filter (fun b => forallb (cond_holds (schema pl) (schema pr) a b) cs) (sem G pr)) in *.
      assert (forall x, keys x = schema pr -> passes G e (a ++ x) = passes G e a) as Hx.
      { intros x Kx. apply passes_ext. intros v Hv. rewrite lookup_app.
        destruct (lookup v a); [reflexivity|]. apply lookup_not_key. rewrite Kx.
        eapply disjointb_true; eauto. }
      assert (In r' (map (fun b => a ++ b) ms) -> passes G e r' = passes G e a) as Hgen.
      { intros H. apply in_map_iff in H as (b & <- & Hb). apply Hx.
        apply filter_In in Hb as [Hb _]. apply (keys_sem G pr Ur _ Hb). }
      destruct k; try (apply Hgen; exact Hr').
      destruct ms as [|m ms']; [|apply Hgen; exact Hr'].
      destruct Hr' as [<-|[]]. apply Hx, keys_null_row.
    + destruct (uses_any (expr_vars e) (out_vars_pre pr) && negb (uses_any (expr_vars e) (out_vars_pre pl)));
        [|reflexivity].
      (* into the right input *)
      apply andb_true_iff in OK as [OK OKr]. apply andb_true_iff in OK as [D NL].
      cbn [sem]. rewrite schema_try_push_pre, (IHr Ur OKr).
      assert (forall a, In a (sem G pl) -> forall b, passes G e (a ++ b) = passes G e b) as Hx.
      { intros a Ha b. apply passes_ext. intros v Hv. rewrite lookup_app.
        rewrite (lookup_not_in_schema G pl a v Ul Ha); [reflexivity|]. eapply disjointb_true; eauto. }
      unfold join_rows. rewrite filter_flat_map. apply flat_map_ext_in. intros a Ha.
      assert (map (fun b => a ++ b)
                  (filter (fun b => forallb (cond_holds (schema pl) (schema pr) a b) cs)
                          (filter (passes G e) (sem G pr)))
              = filter (passes G e)
                       (map (fun b => a ++ b)
                            (filter (fun b => forallb (cond_holds (schema pl) (schema pr) a b) cs) (sem G pr))))
        as E.
      { rewrite filter_filter_comm. symmetry. apply filter_map_comm. intros b _. apply Hx, Ha. }
      destruct k; try exact E. discriminate NL.
Qed.

Theorem pfd_pre_sound : forall G p, uniform p = true -> pfd_ok_pre p = true -> sem G (pfd_pre p) = sem G p.
Proof.
  intros G p; induction p as
    [|x l|x l inp IH|f t ev d ty h inp IH|e0 inp IH|items inp IH|items dd inp IH|k cs pl IHl pr IHr
     |pl IHl pr IHr|gs ags inp IH|ks inp IH|n inp IH|n inp IH|inp IH|a IHa b IHb];
    cbn [pfd_pre pfd_ok_pre uniform]; intros U OK; try reflexivity;
    try (cbn [sem]; rewrite (IH U OK); reflexivity).
  - apply andb_true_iff in OK as [OK1 OK2].
    rewrite try_push_pre_sound by (auto using uniform_pfd_pre). cbn [sem]. rewrite (IH U OK1). reflexivity.
  - apply andb_true_iff in U as [Ul Ur]. apply andb_true_iff in OK as [OKl OKr].
    cbn [sem]. rewrite !schema_pfd_pre, (IHl Ul OKl), (IHr Ur OKr). reflexivity.
Qed.

(** ** the proposed repair of C09-K1 ([try_push]/[pfd], Opt.v) *)
Lemma schema_try_push : forall e op, schema (try_push e op) = schema op.
Proof.
  intros e op; induction op; cbn [try_push schema]; try reflexivity.
  - destruct (uses_any _ _); cbn [schema]; [reflexivity|]. rewrite IHop. reflexivity.
  - destruct (all_passed _ _); reflexivity.
  - destruct (all_passed _ _); reflexivity.
  - destruct (_ && _); cbn [schema]; [rewrite IHop1; reflexivity|].
    destruct (_ && _); cbn [schema]; [rewrite IHop2; reflexivity|reflexivity].
Qed.

Lemma schema_pfd : forall p, schema (pfd p) = schema p.
Proof.
  induction p; cbn [pfd schema]; try reflexivity; try congruence.
  rewrite schema_try_push. exact IHp.
Qed.

Lemma uniform_try_push : forall e op, uniform op = true -> uniform (try_push e op) = true.
Proof.
  intros e op; induction op; cbn [try_push uniform]; intros U; try exact U.
  - destruct (uses_any _ _); cbn [uniform]; auto.
  - destruct (all_passed _ _); cbn [uniform]; auto.
  - destruct (all_passed _ _); cbn [uniform]; auto.
  - apply andb_true_iff in U as [U1 U2].
    destruct (_ && _); cbn [uniform]; [rewrite IHop1, U2 by assumption; reflexivity|].
    destruct (_ && _); cbn [uniform]; [rewrite IHop2, U1 by assumption; reflexivity|].
    rewrite U1, U2; reflexivity.
Qed.

Lemma uniform_pfd : forall p, uniform p = true -> uniform (pfd p) = true.
Proof.
  induction p; cbn [pfd uniform]; intros U; auto.
  - apply uniform_try_push; auto.
  - apply andb_true_iff in U as [U1 U2]. rewrite IHp1, IHp2 by assumption. reflexivity.
Qed.

Lemma try_push_sound : forall G e op,
  uniform op = true -> try_push_ok e op = true ->
  sem G (try_push e op) = filter (passes G e) (sem G op).
Proof.
  intros G e op; induction op as
    [|x l|x l inp IH|f t ev d ty h inp IH|e0 inp IH|items inp IH|items dd inp IH|k cs pl IHl pr IHr
     |pl IHl pr IHr|gs ags inp IH|ks inp IH|n inp IH|n inp IH|inp IH|a IHa b IHb];
    cbn [try_push try_push_ok uniform]; intros U OK; try reflexivity.
  - (* Expand *)
    destruct (uses_any (expr_vars e) (xintro t ev h)) eqn:UA; [reflexivity|].
    apply andb_true_iff in OK as [HD OK].
    cbn [sem]. rewrite (IH U OK). symmetry. apply filter_flat_map_comm.
    intros r Hr r' Hr'. unfold expand_row in Hr'.
    destruct (lookup f r) as [[| | | |s|]|]; try destruct Hr'.
    apply in_map_iff in Hr' as (et & <- & _). apply passes_ext. intros v Hv.
    rewrite lookup_app. destruct (lookup v r) as [x|]; [reflexivity|].
    apply lookup_not_key. rewrite keys_xcols. apply mem_xnames.
    + exact (uses_any_false _ _ UA v Hv).
    + exact (disjointb_true _ _ HD v Hv).
  - (* Project *)
    destruct (all_passed (expr_vars e) items); [|reflexivity].
    apply andb_true_iff in OK as [T OK]. cbn [sem]. rewrite (IH U OK). symmetry.
    apply filter_map_comm. intros r Hr. eapply passes_project_through; eauto.
  - (* Return *)
    destruct (all_passed (expr_vars e) items); [|reflexivity].
    apply andb_true_iff in OK as [T OK]. cbn [sem]. rewrite (IH U OK).
    assert (map (project_row G items) (filter (passes G e) (sem G inp))
            = filter (passes G e) (map (project_row G items) (sem G inp))) as E
      by (symmetry; apply filter_map_comm; intros r Hr; eapply passes_project_through; eauto).
    rewrite E. unfold return_rows. destruct dd; [symmetry; apply filter_dedup|reflexivity].
  - (* Join *)
    apply andb_true_iff in U as [Ul Ur].
    destruct (uses_any (expr_vars e) (out_vars pl) && negb (uses_any (expr_vars e) (out_vars pr))).
    + (* into the left input *)
      apply andb_true_iff in OK as [D OK]. cbn [sem]. rewrite schema_try_push, (IHl Ul OK).
      unfold join_rows. symmetry. apply filter_flat_map_comm.
      intros a Ha r' Hr'.
      set (ms := filter (fun b => forallb (cond_holds (schema pl) (schema pr) a b) cs) (sem G pr)) in *.
      assert (forall x, keys x = schema pr -> passes G e (a ++ x) = passes G e a) as Hx.
      { intros x Kx. apply passes_ext. intros v Hv. rewrite lookup_app.
        destruct (lookup v a); [reflexivity|]. apply lookup_not_key. rewrite Kx.
        eapply disjointb_true; eauto. }
      assert (In r' (map (fun b => a ++ b) ms) -> passes G e r' = passes G e a) as Hgen.
      { intros H. apply in_map_iff in H as (b & <- & Hb). apply Hx.
        apply filter_In in Hb as [Hb _]. apply (keys_sem G pr Ur _ Hb). }
      destruct k; try (apply Hgen; exact Hr').
      destruct ms as [|m ms']; [|apply Hgen; exact Hr'].
      destruct Hr' as [<-|[]]. apply Hx, keys_null_row.
    + destruct (uses_any (expr_vars e) (out_vars pr) && negb (uses_any (expr_vars e) (out_vars pl))
                && match k with JLeft => false | _ => true end) eqn:RP; [|reflexivity].
      (* into the right input *)
      apply andb_true_iff in RP as [_ NL].
      apply andb_true_iff in OK as [D OKr].
      cbn [sem]. rewrite schema_try_push, (IHr Ur OKr).
      assert (forall a, In a (sem G pl) -> forall b, passes G e (a ++ b) = passes G e b) as Hx.
      { intros a Ha b. apply passes_ext. intros v Hv. rewrite lookup_app.
        rewrite (lookup_not_in_schema G pl a v Ul Ha); [reflexivity|]. eapply disjointb_true; eauto. }
      unfold join_rows. rewrite filter_flat_map. apply flat_map_ext_in. intros a Ha.
      assert (map (fun b => a ++ b)
                  (filter (fun b => forallb (cond_holds (schema pl) (schema pr) a b) cs)
                          (filter (passes G e) (sem G pr)))
              = filter (passes G e)
                       (map (fun b => a ++ b)
                            (filter (fun b => forallb (cond_holds (schema pl) (schema pr) a b) cs) (sem G pr))))
        as E.
      { rewrite filter_filter_comm. symmetry. apply filter_map_comm. intros b _. apply Hx, Ha. }
      destruct k; try exact E. discriminate NL.
Qed.

Theorem pfd_sound : forall G p, uniform p = true -> pfd_ok p = true -> sem G (pfd p) = sem G p.
Proof.
  intros G p; induction p as
    [|x l|x l inp IH|f t ev d ty h inp IH|e0 inp IH|items inp IH|items dd inp IH|k cs pl IHl pr IHr
     |pl IHl pr IHr|gs ags inp IH|ks inp IH|n inp IH|n inp IH|inp IH|a IHa b IHb];
    cbn [pfd pfd_ok uniform]; intros U OK; try reflexivity;
    try (cbn [sem]; rewrite (IH U OK); reflexivity).
  - apply andb_true_iff in OK as [OK1 OK2].
    rewrite try_push_sound by (auto using uniform_pfd). cbn [sem]. rewrite (IH U OK1). reflexivity.
  - apply andb_true_iff in U as [Ul Ur]. apply andb_true_iff in OK as [OKl OKr].
    cbn [sem]. rewrite !schema_pfd, (IHl Ul OKl), (IHr Ur OKr). reflexivity.
Qed.

(** *** the patched push-down keeps every well-scoped plan whose predicates do not mention the
    planner's invented column names *)
Lemma subsetb_mem : forall a b, subsetb a b = true -> forall x, In x a -> mem x b = true.
Proof. intros a b H x Hx. unfold subsetb in H. rewrite forallb_forall in H. auto. Qed.

Lemma subsetb_intro : forall a b, (forall x, In x a -> mem x b = true) -> subsetb a b = true.
Proof. intros a b H. unfold subsetb. apply forallb_forall. exact H. Qed.

Lemma disjointb_intro : forall a b, (forall x, In x a -> mem x b = false) -> disjointb a b = true.
Proof.
  intros a b H. unfold disjointb, uses_any. apply negb_true_iff.
  destruct (existsb (fun v => mem v b) a) eqn:E; [|reflexivity].
  apply existsb_exists in E as (x & Hx & M). rewrite (H x Hx) in M. discriminate.
Qed.

Lemma mem_map_In : forall {A} (f : A -> var) l x, mem x (map f l) = true <-> exists a, In a l /\ f a = x.
Proof.
  intros A f l x. rewrite mem_In, in_map_iff. split; intros (a & H1 & H2); exists a; tauto.
Qed.

Lemma passes_through_var : forall v items, passes_through v items = true ->
  exists it, In it items /\ fst it = EVar v.
Proof.
  intros v items; induction items as [|it items IH]; cbn [passes_through]; [discriminate|].
  destruct (String.eqb (item_name it) v).
  - destruct it as [[ | x | | | | | ] al]; cbn [fst]; try discriminate.
    intros E. apply String.eqb_eq in E. subst. exists (EVar v, al). split; [left; reflexivity|reflexivity].
  - intros H. destruct (IH H) as (it' & H1 & H2). exists it'. split; [right; exact H1|exact H2].
Qed.

Lemma passed_passes : forall v items found,
  (forall it, In it items -> computed_item it = true -> item_name it <> v) ->
  passed_through v items found = true ->
  passes_through v items = true \/ (found = true /\ forall it, In it items -> item_name it <> v).
Proof.
  intros v items; induction items as [|it items IH]; intros found NC; cbn [passed_through passes_through].
  - intros ->. right. split; [reflexivity|]. intros it [].
  - assert (forall it', In it' items -> computed_item it' = true -> item_name it' <> v) as NC'
      by (intros; apply NC; [right|]; assumption).
    destruct it as [e al].
    cbn [fst snd].
    destruct ((match e with EVar x => String.eqb x v | _ => false end)
              && (match al with None => true | Some a => String.eqb a v end)) eqn:ID.
    + (* the identity item *)
      intros _. left. apply andb_true_iff in ID as [I1 I2].
      destruct e as [ | x | | | | | ]; try discriminate I1. apply String.eqb_eq in I1. subst x.
      assert (item_name (EVar v, al) = v) as Nm.
      { unfold item_name. cbn [snd fst]. destruct al as [a|]; [apply String.eqb_eq in I2; exact I2|reflexivity]. }
      rewrite Nm, String.eqb_refl. cbn [fst]. rewrite ?String.eqb_refl. reflexivity.
    + destruct (match al with Some a => String.eqb a v | None => false end) eqn:AL; [discriminate|].
      intros H.
      assert (item_name (e, al) <> v) as Nn.
      { destruct al as [a|].
        - unfold item_name. cbn [snd]. intros ->. rewrite String.eqb_refl in AL. discriminate.
        - destruct e as [ | x | | | | | ]; try (apply NC; [left; reflexivity|reflexivity]).
          unfold item_name. cbn [snd fst expr_name]. intros ->. rewrite String.eqb_refl in ID. discriminate. }
      apply String.eqb_neq in Nn. rewrite Nn.
      destruct (IH found NC' H) as [P|[F N]]; [left; exact P|right].
      split; [exact F|]. intros it' [<-|H']; [apply String.eqb_neq; exact Nn|apply N, H'].
Qed.

Lemma hidden_try_push : forall e op v,
  mem v (hidden_names (try_push e op)) = mem v (hidden_names op).
Proof.
  intros e op v; induction op; cbn [try_push hidden_names]; try reflexivity.
  - destruct (uses_any _ _); cbn [hidden_names]; [reflexivity|]. rewrite !mem_app, IHop. reflexivity.
  - destruct (all_passed _ _); cbn [hidden_names]; [|reflexivity]. rewrite !mem_app, IHop. reflexivity.
  - destruct (all_passed _ _); cbn [hidden_names]; [|reflexivity]. rewrite !mem_app, IHop. reflexivity.
  - destruct (_ && _); cbn [hidden_names]; [rewrite !mem_app, IHop1; reflexivity|].
    destruct (_ && _); cbn [hidden_names]; [rewrite !mem_app, IHop2; reflexivity|reflexivity].
Qed.

Lemma hidden_pfd : forall p v, mem v (hidden_names (pfd p)) = mem v (hidden_names p).
Proof.
  induction p; intros v; cbn [pfd hidden_names]; try reflexivity;
    rewrite ?mem_app, ?IHp, ?IHp1, ?IHp2; try reflexivity.
  rewrite hidden_try_push. apply IHp.
Qed.

(** the patched collector over-approximates the columns, up to the invented names *)
Lemma schema_sub_out_vars : forall p v,
  wscoped p = true -> mem v (schema p) = true -> mem v (hidden_names p) = false ->
  mem v (out_vars p) = true.
Proof.
  induction p as
    [|x l|x l inp IH|f t ev d ty h inp IH|e0 inp IH|items inp IH|items dd inp IH|k cs pl IHl pr IHr
     |pl IHl pr IHr|gs ags inp IH|ks inp IH|n inp IH|n inp IH|inp IH|a IHa b IHb];
    intros v W S Hd; cbn [wscoped schema hidden_names out_vars] in *; try (apply IH; assumption).
  - discriminate.
  - exact S.
  - rewrite mem_app in S. cbn [mem] in *. apply orb_true_iff in S as [S|S].
    + rewrite (IH v W S Hd). apply orb_true_r.
    + rewrite orb_false_r in S. rewrite S. reflexivity.
  - (* Expand *)
    rewrite mem_app in S, Hd. apply orb_false_iff in Hd as [Hh Hi]. rewrite mem_app.
    apply orb_true_iff in S as [S|S]; [rewrite (IH v W S Hi); apply orb_true_r|].
    destruct (mem v (xintro t ev h)) eqn:X; [reflexivity|].
    rewrite (mem_xnames v t ev h X Hh) in S. discriminate.
  - (* Filter *)
    apply andb_true_iff in W as [_ W]. apply IH; assumption.
  - (* Project *)
    apply andb_true_iff in W as [Wi W]. rewrite mem_app in Hd. apply orb_false_iff in Hd as [Hc Hi].
    rewrite mem_app. apply mem_map_In in S as (it & Hit & Nm).
    destruct it as [e al]. unfold item_name in Nm. cbn [snd fst] in Nm.
    destruct al as [a|].
    + subst a. assert (mem v (aliases items) = true) as ->; [|reflexivity].
      apply mem_In. unfold aliases. apply in_flat_map. exists (e, Some v). split; [exact Hit|left; reflexivity].
    + assert ((exists x, e = EVar x) \/ computed_item (e, None) = true) as [[x ->]|C0]
        by (destruct e; [right|left; eauto|right|right|right|right|right]; reflexivity).
      * cbn [expr_name] in Nm. subst x.
        rewrite forallb_forall in Wi. specialize (Wi _ Hit). cbn [fst expr_vars] in Wi.
        rewrite (IH v W (subsetb_mem _ _ Wi v (or_introl eq_refl)) Hi). apply orb_true_r.
      * exfalso. assert (mem v (map item_name (filter computed_item items)) = true) as C.
        { apply mem_map_In. exists (e, None). split; [apply filter_In; split; assumption|exact Nm]. }
        rewrite C in Hc. discriminate.
  - (* Return *)
    apply andb_true_iff in W as [Wi W]. rewrite mem_app in Hd. apply orb_false_iff in Hd as [Hc Hi].
    apply mem_map_In in S as (it & Hit & Nm).
    destruct (plain_item it) eqn:PI.
    + destruct it as [[ | x | | | | | ] [a|]]; try discriminate PI.
      unfold item_name in Nm. cbn [snd fst expr_name] in Nm. subst x.
      rewrite forallb_forall in Wi. specialize (Wi _ Hit). cbn [fst expr_vars] in Wi.
      apply IH; [exact W| |exact Hi]. apply (subsetb_mem _ _ Wi v (or_introl eq_refl)).
    + exfalso. assert (mem v (odd_items items) = true) as C.
      { unfold odd_items. apply mem_map_In. exists it. split; [|exact Nm].
        apply filter_In. split; [exact Hit|rewrite PI; reflexivity]. }
      rewrite C in Hc. discriminate.
  - (* Join *)
    apply andb_true_iff in W as [Wl Wr]. rewrite mem_app in S, Hd. apply orb_false_iff in Hd as [Hl Hr].
    rewrite mem_app. apply orb_true_iff in S as [S|S];
      [rewrite (IHl v Wl S Hl); reflexivity|rewrite (IHr v Wr S Hr); apply orb_true_r].
  - (* LeftJoin *)
    apply andb_true_iff in W as [Wl Wr]. rewrite mem_app in S, Hd. apply orb_false_iff in Hd as [Hl Hr].
    rewrite mem_app. apply orb_true_iff in S as [S|S];
      [rewrite (IHl v Wl S Hl); reflexivity|rewrite (IHr v Wr S Hr); apply orb_true_r].
  - (* Aggregate *)
    rewrite !mem_app in Hd. apply orb_false_iff in Hd as [Hg Hd]. apply orb_false_iff in Hd as [Ha _].
    rewrite mem_app in S. rewrite mem_app. apply orb_true_iff in S as [S|S].
    + apply mem_map_In in S as (g & Hg' & Nm).
      assert ((exists x, g = EVar x) \/ (match g with EVar _ => false | _ => true end) = true) as [[x ->]|C0]
        by (destruct g; [right|left; eauto|right|right|right|right|right]; reflexivity).
      * cbn [expr_name] in Nm. subst x.
        assert (mem v (flat_map expr_vars gs) = true) as ->; [|reflexivity].
        apply mem_In, in_flat_map. exists (EVar v). split; [exact Hg'|left; reflexivity].
      * exfalso.
        assert (mem v (map expr_name (filter (fun g => match g with EVar _ => false | _ => true end) gs)) = true) as C.
        { apply mem_map_In. exists g. split; [apply filter_In; split; assumption|exact Nm]. }
        rewrite C in Hg. discriminate.
    + apply mem_map_In in S as (a & Ha' & Nm). destruct a as [fn [al|]].
      * unfold agg_name in Nm. cbn [snd] in Nm. subst al.
        assert (mem v (agg_aliases ags) = true) as ->; [|apply orb_true_r].
        apply mem_In. unfold agg_aliases. apply in_flat_map. exists (fn, Some v). split; [exact Ha'|left; reflexivity].
      * exfalso.
        assert (mem v (map agg_name (filter (fun a => match snd a with None => true | Some _ => false end) ags)) = true) as C.
        { apply mem_map_In. exists (fn, None). split; [apply filter_In; split; [exact Ha'|reflexivity]|exact Nm]. }
        rewrite C in Ha. discriminate.
  - (* Union *)
    apply andb_true_iff in W as [Wl Wr]. rewrite mem_app in Hd. apply orb_false_iff in Hd as [Hl Hr].
    rewrite mem_app, (IHa v Wl S Hl). reflexivity.
Qed.

(** one push: justified, and the result is again well scoped *)
Lemma try_push_scoped : forall H e op,
  wscoped op = true ->
  (forall v, mem v (hidden_names op) = true -> mem v H = true) ->
  subsetb (expr_vars e) (schema op) = true -> disjointb (expr_vars e) H = true ->
  try_push_ok e op = true /\ wscoped (try_push e op) = true.
Proof.
  intros H e op; induction op as
    [|x l|x l inp IH|f t ev d ty h inp IH|e0 inp IH|items inp IH|items dd inp IH|k cs pl IHl pr IHr
     |pl IHl pr IHr|gs ags inp IH|ks inp IH|n inp IH|n inp IH|inp IH|a IHa b IHb];
    intros W HH S D; cbn [try_push try_push_ok];
    try (split; [reflexivity|]; cbn [wscoped]; rewrite S; exact W).
  - (* Expand *)
    cbn [wscoped hidden_names schema] in *.
    destruct (uses_any (expr_vars e) (xintro t ev h)) eqn:UA;
      [split; [reflexivity|]; cbn [wscoped schema]; rewrite S; exact W|].
    assert (disjointb (expr_vars e) (xhidden h) = true) as DH.
    { apply disjointb_intro. intros v Hv. destruct (mem v (xhidden h)) eqn:M; [|reflexivity].
      pose proof (HH v) as HV. rewrite mem_app, M, (disjointb_true _ _ D v Hv) in HV.
      discriminate (HV eq_refl). }
    assert (subsetb (expr_vars e) (schema inp) = true) as S'.
    { apply subsetb_intro. intros v Hv. pose proof (subsetb_mem _ _ S v Hv) as M. rewrite mem_app in M.
      apply orb_true_iff in M as [M|M]; [exact M|].
      rewrite (mem_xnames v t ev h (uses_any_false _ _ UA v Hv) (disjointb_true _ _ DH v Hv)) in M. discriminate. }
    destruct (IH W (fun v Hv => HH v ltac:(rewrite mem_app, Hv; apply orb_true_r)) S' D) as [OK W'].
    rewrite DH, OK. split; [reflexivity|]. cbn [wscoped]. exact W'.
  - (* Project *)
    cbn [wscoped hidden_names schema] in *. apply andb_true_iff in W as [Wi W].
    destruct (all_passed (expr_vars e) items) eqn:AP;
      [|split; [reflexivity|]; cbn [wscoped schema]; rewrite S, Wi; exact W].
    assert (forall v, In v (expr_vars e) -> passes_through v items = true /\ mem v (schema inp) = true) as PT.
    { intros v Hv. unfold all_passed in AP. rewrite forallb_forall in AP. specialize (AP v Hv).
      assert (passes_through v items = true) as P.
      { destruct (passed_passes v items false) as [P|[F _]]; [|exact AP|exact P|discriminate F].
        intros it Hit C E. assert (mem v H = true) as MH.
        { apply HH. rewrite mem_app. apply orb_true_iff. left. apply mem_map_In. exists it.
          split; [apply filter_In; split; assumption|exact E]. }
        rewrite (disjointb_true _ _ D v Hv) in MH. discriminate. }
      split; [exact P|]. destruct (passes_through_var v items P) as (it & Hit & Ev).
      rewrite forallb_forall in Wi. specialize (Wi it Hit). rewrite Ev in Wi. cbn [expr_vars] in Wi.
      apply (subsetb_mem _ _ Wi v (or_introl eq_refl)). }
    assert (through_ok (expr_vars e) items inp = true) as TO.
    { unfold through_ok. apply forallb_forall. intros v Hv. destruct (PT v Hv) as [-> ->]. reflexivity. }
    assert (subsetb (expr_vars e) (schema inp) = true) as S' by (apply subsetb_intro; intros v Hv; apply PT, Hv).
    destruct (IH W (fun v Hv => HH v ltac:(rewrite mem_app, Hv; apply orb_true_r)) S' D) as [OK W'].
    rewrite TO, OK. split; [reflexivity|]. cbn [wscoped]. rewrite schema_try_push, Wi. exact W'.
  - (* Return *)
    cbn [wscoped hidden_names schema] in *. apply andb_true_iff in W as [Wi W].
    destruct (all_passed (expr_vars e) items) eqn:AP;
      [|split; [reflexivity|]; cbn [wscoped schema]; rewrite S, Wi; exact W].
    assert (forall v, In v (expr_vars e) -> passes_through v items = true /\ mem v (schema inp) = true) as PT.
    { intros v Hv. unfold all_passed in AP. rewrite forallb_forall in AP. specialize (AP v Hv).
      assert (passes_through v items = true) as P.
      { destruct (passed_passes v items false) as [P|[F _]]; [|exact AP|exact P|discriminate F].
        intros it Hit C E. assert (mem v H = true) as MH.
        { apply HH. rewrite mem_app. apply orb_true_iff. left. unfold odd_items. apply mem_map_In. exists it.
          split; [apply filter_In; split; [exact Hit|]|exact E].
          destruct it as [[ | x | | | | | ] [a|]]; cbn in C |- *; congruence. }
        rewrite (disjointb_true _ _ D v Hv) in MH. discriminate. }
      split; [exact P|]. destruct (passes_through_var v items P) as (it & Hit & Ev).
      rewrite forallb_forall in Wi. specialize (Wi it Hit). rewrite Ev in Wi. cbn [expr_vars] in Wi.
      apply (subsetb_mem _ _ Wi v (or_introl eq_refl)). }
    assert (through_ok (expr_vars e) items inp = true) as TO.
    { unfold through_ok. apply forallb_forall. intros v Hv. destruct (PT v Hv) as [-> ->]. reflexivity. }
    assert (subsetb (expr_vars e) (schema inp) = true) as S' by (apply subsetb_intro; intros v Hv; apply PT, Hv).
    destruct (IH W (fun v Hv => HH v ltac:(rewrite mem_app, Hv; apply orb_true_r)) S' D) as [OK W'].
    rewrite TO, OK. split; [reflexivity|]. cbn [wscoped]. rewrite schema_try_push, Wi. exact W'.
  - (* Join *)
    cbn [wscoped hidden_names schema] in *. apply andb_true_iff in W as [Wl Wr].
    assert (forall v, mem v (hidden_names pl) = true -> mem v H = true) as HHl
      by (intros v Hv; apply HH; rewrite mem_app, Hv; reflexivity).
    assert (forall v, mem v (hidden_names pr) = true -> mem v H = true) as HHr
      by (intros v Hv; apply HH; rewrite mem_app, Hv; apply orb_true_r).
    assert (forall q, wscoped q = true -> (forall v, mem v (hidden_names q) = true -> mem v H = true) ->
            uses_any (expr_vars e) (out_vars q) = false -> disjointb (expr_vars e) (schema q) = true) as NotIn.
    { intros q Wq HHq U. apply disjointb_intro. intros v Hv.
      destruct (mem v (schema q)) eqn:M; [|reflexivity].
      assert (mem v (hidden_names q) = false) as Hq.
      { destruct (mem v (hidden_names q)) eqn:M2; [|reflexivity].
        pose proof (HHq v M2) as HV. rewrite (disjointb_true _ _ D v Hv) in HV. discriminate HV. }
      pose proof (schema_sub_out_vars q v Wq M Hq) as X. rewrite (uses_any_false _ _ U v Hv) in X. discriminate. }
    destruct (uses_any (expr_vars e) (out_vars pl)) eqn:UL, (uses_any (expr_vars e) (out_vars pr)) eqn:UR;
      cbn [andb negb];
      try (split; [reflexivity|]; cbn [wscoped schema]; rewrite S, Wl, Wr; reflexivity).
    + (* left only *)
      pose proof (NotIn pr Wr HHr UR) as Dr.
      assert (subsetb (expr_vars e) (schema pl) = true) as S'.
      { apply subsetb_intro. intros v Hv. pose proof (subsetb_mem _ _ S v Hv) as M. rewrite mem_app in M.
        rewrite (disjointb_true _ _ Dr v Hv), orb_false_r in M. exact M. }
      destruct (IHl Wl HHl S' D) as [OK W']. rewrite Dr, OK. split; [reflexivity|].
      cbn [wscoped]. rewrite W', Wr. reflexivity.
    + (* right only *)
      destruct (match k with JLeft => false | _ => true end) eqn:RP;
        [|split; [reflexivity|]; cbn [wscoped schema]; rewrite S, Wl, Wr; reflexivity].
      pose proof (NotIn pl Wl HHl UL) as Dl.
      assert (subsetb (expr_vars e) (schema pr) = true) as S'.
      { apply subsetb_intro. intros v Hv. pose proof (subsetb_mem _ _ S v Hv) as M. rewrite mem_app in M.
        rewrite (disjointb_true _ _ Dl v Hv) in M. exact M. }
      destruct (IHr Wr HHr S' D) as [OK W']. rewrite Dl, OK. split; [reflexivity|].
      cbn [wscoped]. rewrite Wl, W'. reflexivity.
Qed.

Lemma disjointb_app_l : forall a b c, disjointb (a ++ b) c = true -> disjointb a c = true /\ disjointb b c = true.
Proof.
  intros a b c H. split; apply disjointb_intro; intros x Hx; apply (disjointb_true _ _ H); apply in_or_app; tauto.
Qed.

Theorem pfd_scoped_gen : forall H p,
  wscoped p = true -> (forall v, mem v (hidden_names p) = true -> mem v H = true) ->
  disjointb (filter_vars p) H = true ->
  pfd_ok p = true /\ wscoped (pfd p) = true.
Proof.
  intros H p; induction p as
    [|x l|x l inp IH|f t ev d ty h inp IH|e0 inp IH|items inp IH|items dd inp IH|k cs pl IHl pr IHr
     |pl IHl pr IHr|gs ags inp IH|ks inp IH|n inp IH|n inp IH|inp IH|a IHa b IHb];
    intros W HH D; cbn [pfd pfd_ok wscoped hidden_names filter_vars] in *;
    try (split; [reflexivity|exact W]);
    try (apply IH; [exact W|intros v Hv; apply HH; rewrite ?mem_app, Hv, ?orb_true_r; reflexivity|exact D]).
  - (* Filter *)
    apply andb_true_iff in W as [S W]. apply disjointb_app_l in D as [De Di].
    destruct (IH W HH Di) as [OK W'].
    destruct (try_push_scoped H e0 (pfd inp) W') as [OK2 W2].
    + intros v Hv. rewrite hidden_pfd in Hv. apply HH, Hv.
    + rewrite schema_pfd. exact S.
    + exact De.
    + rewrite OK, OK2. split; [reflexivity|exact W2].
  - (* Project *)
    apply andb_true_iff in W as [Wi W].
    destruct (IH W (fun v Hv => HH v ltac:(rewrite mem_app, Hv; apply orb_true_r)) D) as [OK W'].
    split; [exact OK|]. rewrite schema_pfd, Wi. exact W'.
  - (* Return *)
    apply andb_true_iff in W as [Wi W].
    destruct (IH W (fun v Hv => HH v ltac:(rewrite mem_app, Hv; apply orb_true_r)) D) as [OK W'].
    split; [exact OK|]. rewrite schema_pfd, Wi. exact W'.
  - (* Join *)
    apply andb_true_iff in W as [Wl Wr]. apply disjointb_app_l in D as [Dl Dr].
    destruct (IHl Wl (fun v Hv => HH v ltac:(rewrite mem_app, Hv; reflexivity)) Dl) as [OKl Wl'].
    destruct (IHr Wr (fun v Hv => HH v ltac:(rewrite mem_app, Hv; apply orb_true_r)) Dr) as [OKr Wr'].
    rewrite OKl, OKr, Wl', Wr'. split; reflexivity.
Qed.

Theorem pfd_scoped : forall G p,
  uniform p = true -> wscoped p = true -> names_ok p = true -> sem G (pfd p) = sem G p.
Proof.
  intros G p U W N. apply pfd_sound; [exact U|].
  apply (pfd_scoped_gen (hidden_names p) p W); [auto|exact N].
Qed.

(** ** projection push-down rebuilds the tree it is given *)
Lemma ppd_rec_id : forall p req, ppd_rec p req = p.
Proof.
  induction p; intros req; cbn [ppd_rec]; try reflexivity; try (rewrite IHp; reflexivity).
  rewrite IHp1, IHp2. reflexivity.
Qed.

Theorem ppd_id : forall p, ppd p = p.
Proof. intros; apply ppd_rec_id. Qed.
