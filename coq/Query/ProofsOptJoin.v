(** C09 — join reordering: two well-formed trees of Inner/Cross joins and filters with the same
    normal form (leaves, effective conditions, residual filters) have the same bag of rows. *)
From Coq Require Import ZArith List Bool String Permutation Lia.
Import ListNotations.
From GV Require Import Query.Plan Query.Opt Query.ProofsOptBase Query.ProofsOptPush Query.ProofsOptBag.
Open Scope Z_scope.

(** ** the boolean equalities decide equality *)
Lemma val_eqb_sym : forall a b, val_eqb a b = val_eqb b a.
Proof.
  intros a b; destruct a as [|x|x|x|x|x], b as [|y|y|y|y|y]; cbn [val_eqb]; try reflexivity.
  - destruct x, y; reflexivity.
  - apply Z.eqb_sym.
  - apply String.eqb_sym.
  - apply Z.eqb_sym.
  - apply Z.eqb_sym.
Qed.

Lemma binop_eqb_eq : forall a b, binop_eqb a b = true -> a = b.
Proof. destruct a, b; cbn; try discriminate; reflexivity. Qed.
Lemma unop_eqb_eq : forall a b, unop_eqb a b = true -> a = b.
Proof. destruct a, b; cbn; try discriminate; reflexivity. Qed.

Lemma strs_eqb_eq : forall a b, strs_eqb a b = true -> a = b.
Proof.
  induction a as [|x a IH]; destruct b as [|y b]; cbn [strs_eqb]; try discriminate; [reflexivity|].
  rewrite andb_true_iff, String.eqb_eq. intros [-> H]. f_equal. apply IH, H.
Qed.

Lemma expr_eqb_eq : forall a b, expr_eqb a b = true -> a = b.
Proof.
  induction a as [v|x|x p|o a1 IH1 a2 IH2|o a1 IH1|x l|tg vs]; destruct b; cbn [expr_eqb]; try discriminate;
    rewrite ?andb_true_iff, ?String.eqb_eq.
  - intros H. f_equal. apply val_eqb_eq, H.
  - congruence.
  - intros [-> ->]. reflexivity.
  - intros [[H0 H1] H2]. f_equal; auto using binop_eqb_eq.
  - intros [H0 H1]. f_equal; auto using unop_eqb_eq.
  - intros [-> ->]. reflexivity.
  - intros [-> H]. f_equal. apply strs_eqb_eq, H.
Qed.

Lemma list_eqb_eq : forall {A} (eqb : A -> A -> bool),
  (forall x y, eqb x y = true -> x = y) -> forall a b, list_eqb eqb a b = true -> a = b.
Proof.
  intros A eqb H; induction a as [|x a IH]; destruct b as [|y b]; cbn [list_eqb]; try discriminate; auto.
  rewrite andb_true_iff. intros [H1 H2]. f_equal; auto.
Qed.

Lemma ostr_eqb_eq : forall a b, ostr_eqb a b = true -> a = b.
Proof.
  destruct a, b; cbn [ostr_eqb]; try discriminate; auto. rewrite String.eqb_eq. congruence.
Qed.

Lemma item_eqb_eq : forall a b : item, item_eqb a b = true -> a = b.
Proof.
  intros [e a] [e' a']; unfold item_eqb; cbn [fst snd]. rewrite andb_true_iff. intros [H1 H2].
  f_equal; auto using expr_eqb_eq, ostr_eqb_eq.
Qed.
Lemma cond_eqb_eq : forall a b, cond_eqb a b = true -> a = b.
Proof.
  intros [e a] [e' a']; unfold cond_eqb; cbn [fst snd]. rewrite andb_true_iff. intros [H1 H2].
  f_equal; auto using expr_eqb_eq.
Qed.
Lemma skey_eqb_eq : forall a b, skey_eqb a b = true -> a = b.
Proof.
  intros [e a] [e' a']; unfold skey_eqb; cbn [fst snd]. rewrite andb_true_iff. intros [H1 H2].
  f_equal; auto using expr_eqb_eq, Bool.eqb_prop.
Qed.
Lemma agg_eqb_eq : forall a b, agg_eqb a b = true -> a = b.
Proof.
  intros [f a] [f' a']; unfold agg_eqb; cbn [fst snd]. rewrite andb_true_iff. intros [H1 H2].
  f_equal; auto using ostr_eqb_eq.
  destruct f, f'; cbn [aggfn_eqb] in H1; try discriminate; auto. f_equal. apply expr_eqb_eq, H1.
Qed.
Lemma dir_eqb_eq : forall a b, dir_eqb a b = true -> a = b.
Proof. destruct a, b; cbn; try discriminate; reflexivity. Qed.
Lemma jkind_eqb_eq : forall a b, jkind_eqb a b = true -> a = b.
Proof. destruct a, b; cbn; try discriminate; reflexivity. Qed.

Lemma hops_eqb_eq : forall a b, hops_eqb a b = true -> a = b.
Proof.
  intros [m1 x1 p1] [m2 x2 p2]. unfold hops_eqb. cbn [h_min h_max h_path].
  rewrite !andb_true_iff. intros [[H1 H2] H3].
  apply Nat.eqb_eq in H1. apply ostr_eqb_eq in H3. subst.
  destruct x1 as [a|], x2 as [b|]; cbn [onat_eqb] in H2; try discriminate; [|reflexivity].
  apply Nat.eqb_eq in H2. subst. reflexivity.
Qed.

Lemma plan_eqb_eq : forall a b, plan_eqb a b = true -> a = b.
Proof.
  induction a; destruct b; cbn [plan_eqb]; try discriminate; rewrite ?andb_true_iff; intros H;
    repeat match goal with H : _ /\ _ |- _ => destruct H end;
    repeat match goal with
      | H : String.eqb _ _ = true |- _ => apply String.eqb_eq in H
      | H : ostr_eqb _ _ = true |- _ => apply ostr_eqb_eq in H
      | H : dir_eqb _ _ = true |- _ => apply dir_eqb_eq in H
      | H : jkind_eqb _ _ = true |- _ => apply jkind_eqb_eq in H
      | H : hops_eqb _ _ = true |- _ => apply hops_eqb_eq in H
      | H : expr_eqb _ _ = true |- _ => apply expr_eqb_eq in H
      | H : Bool.eqb _ _ = true |- _ => apply Bool.eqb_prop in H
      | H : Nat.eqb _ _ = true |- _ => apply Nat.eqb_eq in H
      | H : list_eqb item_eqb _ _ = true |- _ => apply (list_eqb_eq _ item_eqb_eq) in H
      | H : list_eqb cond_eqb _ _ = true |- _ => apply (list_eqb_eq _ cond_eqb_eq) in H
      | H : list_eqb expr_eqb _ _ = true |- _ => apply (list_eqb_eq _ expr_eqb_eq) in H
      | H : list_eqb agg_eqb _ _ = true |- _ => apply (list_eqb_eq _ agg_eqb_eq) in H
      | H : list_eqb skey_eqb _ _ = true |- _ => apply (list_eqb_eq _ skey_eqb_eq) in H
      end;
    subst; try reflexivity;
    repeat match goal with
      | IH : forall b, plan_eqb ?a b = true -> ?a = b, H : plan_eqb ?a _ = true |- _ => apply IH in H
      end; subst; reflexivity.
Qed.

Lemma remove_plan_perm : forall q l l', remove_plan q l = Some l' -> Permutation l (q :: l').
Proof.
  intros q l; induction l as [|d l IH]; cbn [remove_plan]; intros l' H; [discriminate|].
  destruct (plan_eqb q d) eqn:E.
  - apply plan_eqb_eq in E. inversion H; subst. apply Permutation_refl.
  - destruct (remove_plan q l) as [l0|]; [|discriminate]. inversion H; subst.
    eapply Permutation_trans; [apply perm_skip, IH; reflexivity|apply perm_swap].
Qed.

Lemma plans_perm_perm : forall a b, plans_perm a b = true -> Permutation a b.
Proof.
  induction a as [|c a IH]; cbn [plans_perm]; intros b H.
  - destruct b; [constructor|discriminate].
  - destruct (remove_plan c b) as [b'|] eqn:E; [|discriminate].
    apply Permutation_sym. eapply Permutation_trans; [apply remove_plan_perm, E|].
    apply perm_skip, Permutation_sym, IH, H.
Qed.

(** ** the three components of the normal form *)
Lemma jnf_join : forall k cs l r,
  jnf (PJoin k cs l r) = (jl l ++ jl r, jc l ++ jc r ++ used_pairs (schema l) (schema r) cs, jf l ++ jf r).
Proof.
  intros. unfold jl, jc, jf. cbn [jnf]. destruct (jnf l) as [[? ?] ?], (jnf r) as [[? ?] ?]. reflexivity.
Qed.
Lemma jnf_filter : forall e inp, jnf (PFilter e inp) = (jl inp, jc inp, e :: jf inp).
Proof. intros. unfold jl, jc, jf. cbn [jnf]. destruct (jnf inp) as [[? ?] ?]. reflexivity. Qed.

Definition is_jt_node (p : plan) : bool := match p with PJoin _ _ _ _ | PFilter _ _ => true | _ => false end.

Lemma jnf_leaf : forall p, is_jt_node p = false -> jnf p = ([p], [], []).
Proof. destruct p; cbn; try discriminate; reflexivity. Qed.

(** *** columns of a join tree *)
Lemma schema_jl : forall p, schema p = flat_map schema (jl p).
Proof.
  induction p; try (unfold jl; cbn [jnf fst flat_map]; rewrite app_nil_r; reflexivity).
  - unfold jl. rewrite jnf_filter. cbn [fst schema]. exact IHp.
  - unfold jl. rewrite jnf_join. cbn [fst schema]. rewrite flat_map_app. fold (jl p1) (jl p2). congruence.
Qed.

Lemma uniform_jl : forall p, uniform p = true -> forall q, In q (jl p) -> uniform q = true.
Proof.
  induction p; intros U q Hq;
    try (unfold jl in Hq; cbn [jnf fst] in Hq; destruct Hq as [<-|[]]; exact U).
  - unfold jl in Hq. rewrite jnf_filter in Hq. cbn [fst] in Hq. cbn [uniform] in U. auto.
  - unfold jl in Hq. rewrite jnf_join in Hq. cbn [fst] in Hq. cbn [uniform] in U.
    apply andb_true_iff in U as [U1 U2]. apply in_app_or in Hq as [H|H]; auto.
Qed.

Lemma keys_cross_all : forall G ps m,
  (forall q, In q ps -> uniform q = true) -> In m (cross_all (map (sem G) ps)) ->
  keys m = flat_map schema ps.
Proof.
  intros G ps; induction ps as [|p ps IH]; cbn [map cross_all flat_map]; intros m U Hm.
  - destruct Hm as [<-|[]]. reflexivity.
  - apply in_cross in Hm as (a & b & Ha & Hb & ->). rewrite keys_app.
    rewrite (keys_sem G p (U p (or_introl eq_refl)) a Ha), (IH b); auto.
    intros q Hq; apply U; right; assumption.
Qed.

Lemma nodupb_NoDup : forall l, nodupb l = true -> NoDup l.
Proof.
  induction l as [|x l IH]; cbn [nodupb]; intros H; [constructor|].
  apply andb_true_iff in H as [H1 H2]. constructor; [|auto].
  apply mem_false_In. now apply negb_true_iff.
Qed.

Lemma NoDup_app_disjoint : forall (a b : list var), NoDup (a ++ b) -> forall x, In x a -> ~ In x b.
Proof.
  induction a as [|y a IH]; cbn [app]; intros b H x Hx; [destruct Hx|].
  inversion H; subst. destruct Hx as [->|Hx].
  - intros Hb. apply H2, in_or_app. right; assumption.
  - apply IH; assumption.
Qed.

Lemma NoDup_app_l : forall (a b : list var), NoDup (a ++ b) -> NoDup a.
Proof.
  induction a as [|y a IH]; cbn [app]; intros b H; [constructor|].
  inversion H; subst. constructor; [|eapply IH; eauto]. intros Hy. apply H2, in_or_app. left; assumption.
Qed.
Lemma NoDup_app_r : forall (a b : list var), NoDup (a ++ b) -> NoDup b.
Proof. induction a as [|y a IH]; cbn [app]; intros b H; [exact H|]. inversion H; subst. auto. Qed.

(** *** scoping of conditions and filters *)
Lemma used_pairs_scoped : forall ls rs cs c, In c (used_pairs ls rs cs) -> mem (fst c) ls = true /\ mem (snd c) rs = true.
Proof.
  intros ls rs cs c; induction cs as [|[e1 e2] cs IH]; cbn [used_pairs flat_map]; intros H; [destruct H|].
  apply in_app_or in H as [H|H]; [|apply IH, H].
  destruct e1; try destruct H. destruct e2; try destruct H.
  destruct (mem x ls && mem x0 rs) eqn:E; [|destruct H].
  destruct H as [<-|[]]. cbn [fst snd]. now apply andb_true_iff.
Qed.

Lemma jc_scoped : forall p c, In c (jc p) -> mem (fst c) (schema p) = true /\ mem (snd c) (schema p) = true.
Proof.
  induction p; intros c Hc; try (unfold jc in Hc; cbn [jnf fst snd] in Hc; destruct Hc).
  - unfold jc in Hc. rewrite jnf_filter in Hc. cbn [fst snd schema] in *. auto.
  - unfold jc in Hc. rewrite jnf_join in Hc. cbn [fst snd schema] in *. rewrite !mem_app.
    apply in_app_or in Hc as [H|H]; [destruct (IHp1 _ H) as [-> ->]; auto|].
    apply in_app_or in H as [H|H]; [destruct (IHp2 _ H) as [-> ->]; rewrite !orb_true_r; auto|].
    destruct (used_pairs_scoped _ _ _ _ H) as [-> ->]. rewrite !orb_true_r; auto.
Qed.

Lemma subsetb_In : forall a b, subsetb a b = true -> forall x, In x a -> mem x b = true.
Proof. unfold subsetb; intros a b H x Hx. rewrite forallb_forall in H. auto. Qed.

Lemma jf_scoped : forall p, filters_scoped p = true ->
  forall e, In e (jf p) -> forall v, In v (expr_vars e) -> mem v (schema p) = true.
Proof.
  induction p; intros S e He v Hv; try (unfold jf in He; cbn [jnf snd] in He; destruct He).
  - unfold jf in He. rewrite jnf_filter in He. cbn [snd schema filters_scoped] in *.
    apply andb_true_iff in S as [S1 S2]. destruct He as [<-|He]; [eapply subsetb_In; eauto|eauto].
  - unfold jf in He. rewrite jnf_join in He. cbn [snd schema filters_scoped] in *.
    apply andb_true_iff in S as [S1 S2]. rewrite mem_app.
    apply in_app_or in He as [H|H]; [rewrite (IHp1 S1 _ H _ Hv)|rewrite (IHp2 S2 _ H _ Hv), orb_true_r]; reflexivity.
Qed.

(** ** a well-formed join tree is the filtered product of its leaves *)
Lemma cond_holds_pairs : forall ls rs a b cs,
  (forall x, mem x ls = true -> lookup x (a ++ b) = lookup x a) ->
  (forall y, mem y rs = true -> lookup y (a ++ b) = lookup y b) ->
  forallb (pair_holds (a ++ b)) (used_pairs ls rs cs) = forallb (cond_holds ls rs a b) cs.
Proof.
  intros ls rs a b cs HL HR; induction cs as [|[e1 e2] cs IH]; cbn [used_pairs flat_map forallb]; [reflexivity|].
  rewrite forallb_app. fold (used_pairs ls rs cs). rewrite IH. f_equal.
  destruct e1; try reflexivity. destruct e2; try reflexivity. cbn [cond_holds].
  destruct (mem x ls) eqn:Ex; cbn [andb]; [|reflexivity].
  destruct (mem x0 rs) eqn:Ey; cbn [forallb]; [|reflexivity].
  unfold pair_holds. cbn [fst snd]. rewrite (HL _ Ex), (HR _ Ey), andb_true_r. reflexivity.
Qed.

Lemma forallb_ext_in : forall {A} (f g : A -> bool) l,
  (forall x, In x l -> f x = g x) -> forallb f l = forallb g l.
Proof.
  intros A f g l; induction l as [|x l IH]; cbn [forallb]; intros H; [reflexivity|].
  rewrite (H x) by (left; reflexivity). rewrite IH by (intros; apply H; right; assumption). reflexivity.
Qed.

Theorem jt_canonical : forall G p,
  inner_only p = true -> NoDup (schema p) -> filters_scoped p = true -> uniform p = true ->
  sem G p = filter (jt_pred G p) (jt_base G p).
Proof.
  intros G p.
  assert (forall q, is_jt_node q = false -> sem G q = filter (jt_pred G q) (jt_base G q)) as Leaf.
  { intros q Hq. unfold jt_pred, jt_base, jl, jc, jf. rewrite (jnf_leaf q Hq). cbn [fst snd map cross_all forallb andb].
    rewrite cross_unit_r, filter_true. reflexivity. }
  induction p; intros IO ND FS U; try (apply Leaf; reflexivity).
  - (* Filter *)
    cbn [inner_only schema filters_scoped uniform sem] in *.
    apply andb_true_iff in FS as [_ FS].
    rewrite (IHp IO ND FS U), filter_filter.
    unfold jt_pred, jt_base, jl, jc, jf. rewrite jnf_filter. cbn [fst snd forallb].
    unfold jl, jc, jf. apply filter_ext. intros m.
    destruct (passes G pred m);
      repeat match goal with |- context [forallb ?f ?l] => destruct (forallb f l) end; reflexivity.
  - (* Join *)
    cbn [inner_only schema filters_scoped uniform] in *.
    apply andb_true_iff in IO as [IO IO2]. apply andb_true_iff in IO as [Kk IO1].
    apply andb_true_iff in FS as [FS1 FS2]. apply andb_true_iff in U as [U1 U2].
    pose proof (NoDup_app_l _ _ ND) as ND1. pose proof (NoDup_app_r _ _ ND) as ND2.
    pose proof (NoDup_app_disjoint _ _ ND) as DJ.
    specialize (IHp1 IO1 ND1 FS1 U1). specialize (IHp2 IO2 ND2 FS2 U2).
    assert (sem G (PJoin k conds p1 p2)
            = flat_map (fun a => map (fun b => a ++ b)
                         (filter (fun b => forallb (cond_holds (schema p1) (schema p2) a b) conds) (sem G p2)))
                       (sem G p1)) as E.
    { cbn [sem]. unfold join_rows. destruct k; try reflexivity. discriminate Kk. }
    rewrite E, IHp1, IHp2. clear E.
    unfold jt_base at 3. unfold jl. rewrite jnf_join. cbn [fst]. rewrite map_app, cross_all_app.
    fold (jt_base G p1) (jt_base G p2).
    symmetry. apply filter_cross.
    intros a b Ha Hb.
    assert (keys a = schema p1) as Ka.
    { unfold jt_base in Ha. rewrite (keys_cross_all G _ a (uniform_jl p1 U1) Ha). symmetry. apply schema_jl. }
    assert (keys b = schema p2) as Kb.
    { unfold jt_base in Hb. rewrite (keys_cross_all G _ b (uniform_jl p2 U2) Hb). symmetry. apply schema_jl. }
    assert (forall x, mem x (schema p1) = true -> lookup x (a ++ b) = lookup x a) as HL.
    { intros x Hx. rewrite lookup_app. rewrite <- Ka in Hx. destruct (lookup_key _ _ Hx) as [v ->]. reflexivity. }
    assert (forall y, mem y (schema p2) = true -> lookup y (a ++ b) = lookup y b) as HR.
    { intros y Hy. rewrite lookup_app. rewrite (lookup_not_key y a); [reflexivity|].
      rewrite Ka. apply mem_false_In. intros Hin. apply (DJ y Hin). now apply mem_In. }
    unfold jt_pred at 1. unfold jc, jf. rewrite jnf_join. cbn [fst snd].
    fold (jc p1) (jc p2) (jf p1) (jf p2).
    rewrite !forallb_app, (cond_holds_pairs _ _ a b conds HL HR).
    assert (forallb (pair_holds (a ++ b)) (jc p1) = forallb (pair_holds a) (jc p1)) as C1.
    { apply forallb_ext_in. intros c Hc. destruct (jc_scoped p1 c Hc) as [S1 S2].
      unfold pair_holds. rewrite (HL _ S1), (HL _ S2). reflexivity. }
    assert (forallb (pair_holds (a ++ b)) (jc p2) = forallb (pair_holds b) (jc p2)) as C2.
    { apply forallb_ext_in. intros c Hc. destruct (jc_scoped p2 c Hc) as [S1 S2].
      unfold pair_holds. rewrite (HR _ S1), (HR _ S2). reflexivity. }
    assert (forallb (fun e => passes G e (a ++ b)) (jf p1) = forallb (fun e => passes G e a) (jf p1)) as F1.
    { apply forallb_ext_in. intros e He. apply passes_ext. intros v Hv. apply HL. eapply jf_scoped; eauto. }
    assert (forallb (fun e => passes G e (a ++ b)) (jf p2) = forallb (fun e => passes G e b) (jf p2)) as F2.
    { apply forallb_ext_in. intros e He. apply passes_ext. intros v Hv. apply HR. eapply jf_scoped; eauto. }
    rewrite C1, C2, F1, F2. unfold jt_pred.
    destruct (forallb (pair_holds a) (jc p1)), (forallb (pair_holds b) (jc p2)),
      (forallb (fun e => passes G e a) (jf p1)), (forallb (fun e => passes G e b) (jf p2)),
      (forallb (cond_holds (schema p1) (schema p2) a b) conds); reflexivity.
Qed.

(** ** permuting the leaves *)
Lemma mem_keys_In : forall x r, mem x (keys r) = true <-> In x (keys r).
Proof. intros; apply mem_In. Qed.

Lemma cross_all_perm : forall G ps qs,
  Permutation ps qs -> (forall q, In q ps -> uniform q = true) -> NoDup (flat_map schema ps) ->
  bag_eqv (cross_all (map (sem G) ps)) (cross_all (map (sem G) qs)).
Proof.
  intros G ps qs H; induction H as [|x l l' H IH|x y l|l l' l'' H1 IH1 H2 IH2]; intros U ND.
  - apply bag_eqv_refl.
  - cbn [map cross_all]. apply cross_congr_r, IH.
    + intros q Hq; apply U; right; assumption.
    + cbn [flat_map] in ND. eapply NoDup_app_r; eauto.
  - cbn [map cross_all]. apply cross_swap.
    intros a b Ha Hb z Hz.
    rewrite (keys_sem G x (U x (or_intror (or_introl eq_refl))) a Ha) in Hz.
    rewrite (keys_sem G y (U y (or_introl eq_refl)) b Hb).
    cbn [flat_map] in ND. apply mem_false_In. intros Hy.
    apply (NoDup_app_disjoint _ _ ND z Hy). apply in_or_app. left. now apply mem_In.
  - eapply bag_eqv_trans; [apply IH1; assumption|apply IH2].
    + intros q Hq. apply U. eapply Permutation_in; [apply Permutation_sym|]; eassumption.
    + eapply Permutation_NoDup; [|exact ND]. apply Permutation_flat_map', H1.
Qed.

(** ** the predicates of two trees with the same conditions and filters agree *)
Lemma key_eq_sym : forall a b, key_eq a b = key_eq b a.
Proof.
  destruct a as [x|], b as [y|]; cbn [key_eq]; try reflexivity.
  rewrite (val_eqb_sym x y). destruct (val_eqb y x) eqn:E; [|reflexivity].
  apply val_eqb_eq in E. subst. reflexivity.
Qed.

Lemma forallb_incl : forall {A} (f : A -> bool) l1 l2,
  (forall x, In x l1 -> exists y, In y l2 /\ f y = f x) -> forallb f l2 = true -> forallb f l1 = true.
Proof.
  intros A f l1 l2 H H2. apply forallb_forall. intros x Hx. destruct (H x Hx) as (y & Hy & <-).
  rewrite forallb_forall in H2. auto.
Qed.

Lemma forallb_same : forall {A} (f : A -> bool) l1 l2,
  (forall x, In x l1 -> exists y, In y l2 /\ f y = f x) ->
  (forall x, In x l2 -> exists y, In y l1 /\ f y = f x) -> forallb f l1 = forallb f l2.
Proof.
  intros A f l1 l2 H1 H2.
  destruct (forallb f l2) eqn:E2.
  - eapply forallb_incl; eauto.
  - destruct (forallb f l1) eqn:E1; [|reflexivity].
    rewrite (forallb_incl f l2 l1 H2 E1) in E2. discriminate.
Qed.

Lemma pairs_same_pred : forall m a b, pairs_same a b = true -> forallb (pair_holds m) a = forallb (pair_holds m) b.
Proof.
  intros m a b H. unfold pairs_same in H. apply andb_true_iff in H as [H1 H2].
  rewrite forallb_forall in H1, H2.
  assert (forall c l, pair_in c l = true -> exists d, In d l /\ pair_holds m d = pair_holds m c) as P.
  { intros c l Hc. unfold pair_in in Hc. apply existsb_exists in Hc as (d & Hd & E). exists d. split; [assumption|].
    unfold pair_holds. apply orb_true_iff in E as [E|E]; apply andb_true_iff in E as [E1 E2];
      apply String.eqb_eq in E1, E2; rewrite E1, E2; [reflexivity|apply key_eq_sym]. }
  apply forallb_same; intros c Hc; apply P; auto.
Qed.

Lemma exprs_same_pred : forall G m a b, exprs_same a b = true ->
  forallb (fun e => passes G e m) a = forallb (fun e => passes G e m) b.
Proof.
  intros G m a b H. unfold exprs_same in H. apply andb_true_iff in H as [H1 H2].
  rewrite forallb_forall in H1, H2.
  assert (forall e l, existsb (expr_eqb e) l = true -> exists d, In d l /\ passes G d m = passes G e m) as P.
  { intros e l He. apply existsb_exists in He as (d & Hd & E). apply expr_eqb_eq in E. subst. eauto. }
  apply forallb_same; intros c Hc; apply P; auto.
Qed.

Lemma jt_pred_respects : forall G p, respects (jt_pred G p).
Proof.
  intros G p a b E. unfold jt_pred. f_equal.
  - apply forallb_ext_in. intros c _. unfold pair_holds. rewrite !E. reflexivity.
  - apply forallb_ext_in. intros e _. apply passes_ext. intros v _. apply E.
Qed.

(** ** the theorem *)
Theorem join_normal_form_wf : forall G p q,
  jt_wf p = true -> jt_wf q = true -> jnf_eqb p q = true -> bag_eqv (sem G p) (sem G q).
Proof.
  intros G p q Wp Wq E. unfold jt_wf in Wp, Wq.
  repeat match goal with H : _ && _ = true |- _ => apply andb_true_iff in H as [? ?] end.
  rewrite (jt_canonical G p), (jt_canonical G q); auto using nodupb_NoDup.
  unfold jnf_eqb in E.
  assert (plans_perm (jl p) (jl q) = true /\ pairs_same (jc p) (jc q) = true /\ exprs_same (jf p) (jf q) = true)
    as (EL & EC & EF).
  { unfold jl, jc, jf. destruct (jnf p) as [[? ?] ?], (jnf q) as [[? ?] ?]. cbn [fst snd].
    apply andb_true_iff in E as [E E3]. apply andb_true_iff in E as [E1 E2]. auto. }
  assert (forall m, jt_pred G q m = jt_pred G p m) as EP.
  { intros m. unfold jt_pred. rewrite (pairs_same_pred m _ _ EC), (exprs_same_pred G m _ _ EF). reflexivity. }
  rewrite (filter_ext _ _ EP).
  apply bag_eqv_filter; [apply jt_pred_respects|].
  unfold jt_base. apply cross_all_perm.
  - apply plans_perm_perm, EL.
  - apply uniform_jl. assumption.
  - rewrite <- schema_jl. apply nodupb_NoDup. assumption.
Qed.

(** ** bag equality through Distinct and Aggregate (above a reordered join tree) *)
Lemma val_eqb_refl : forall a, val_eqb a a = true.
Proof.
  destruct a; cbn [val_eqb]; try reflexivity;
    try apply Z.eqb_refl; try apply String.eqb_refl. destruct b; reflexivity.
Qed.

Lemma row_eqb_refl : forall a, row_eqb a a = true.
Proof.
  induction a as [|[k v] a IH]; cbn [row_eqb]; [reflexivity|].
  rewrite String.eqb_refl, val_eqb_refl, IH. reflexivity.
Qed.

Lemma existsb_row_eqb : forall r seen, existsb (row_eqb r) seen = true <-> In r seen.
Proof.
  intros r seen. rewrite existsb_exists. split.
  - intros (x & Hx & E). apply row_eqb_eq in E. subst. exact Hx.
  - intros H. exists r. split; [exact H|apply row_eqb_refl].
Qed.

Lemma dedup_In_iff : forall rs seen r, In r (dedup seen rs) <-> In r rs /\ ~ In r seen.
Proof.
  induction rs as [|x rs IH]; intros seen r; cbn [dedup In]; [tauto|].
  destruct (existsb (row_eqb x) seen) eqn:E.
  - apply existsb_row_eqb in E. rewrite IH. split.
    + intros [H1 H2]. tauto.
    + intros [[->|H1] H2]; [contradiction|tauto].
  - assert (~ In x seen) as Nx by (rewrite <- existsb_row_eqb, E; discriminate).
    cbn [In]. rewrite IH. cbn [In]. split.
    + intros [<-|[H1 H2]]; [tauto|]. split; [tauto|]. intros H. apply H2. right. exact H.
    + intros [[<-|H1] H2]; [left; reflexivity|].
      destruct (row_eqb x r) eqn:Ex; [apply row_eqb_eq in Ex; left; exact Ex|].
      right. split; [exact H1|]. intros [<-|H]; [rewrite row_eqb_refl in Ex; discriminate|contradiction].
Qed.

Lemma dedup_NoDup : forall rs seen, NoDup (dedup seen rs).
Proof.
  induction rs as [|x rs IH]; intros seen; cbn [dedup]; [constructor|].
  destruct (existsb (row_eqb x) seen); [apply IH|].
  constructor; [|apply IH]. rewrite dedup_In_iff. cbn [In]. tauto.
Qed.

Lemma dedup_perm : forall a b, Permutation a b -> Permutation (dedup [] a) (dedup [] b).
Proof.
  intros a b P. apply NoDup_Permutation; try apply dedup_NoDup.
  intros r. rewrite !dedup_In_iff. cbn [In]. split; intros [H N]; split; try exact N.
  - eapply Permutation_in; eauto.
  - eapply Permutation_in; [apply Permutation_sym|]; eauto.
Qed.

Lemma NoDup_map_inj_in : forall {A B} (f : A -> B) l,
  (forall a b, In a l -> In b l -> f a = f b -> a = b) -> NoDup l -> NoDup (map f l).
Proof.
  intros A B f l; induction l as [|x l IH]; cbn [map]; intros Inj N; [constructor|].
  inversion N as [|? ? Nx Nl]; subst. constructor.
  - intros H. apply in_map_iff in H as (y & E & Hy). apply Nx.
    rewrite (Inj x y); [exact Hy|left; reflexivity|right; exact Hy|symmetry; exact E].
  - apply IH; [|exact Nl]. intros a b Ha Hb. apply Inj; right; assumption.
Qed.

(** DISTINCT through a key under which the rows of either list are told apart *)
Lemma dedup_perm_key : forall {K} (c : row -> K) l1 l2,
  (forall a b, In a l1 -> In b l1 -> c a = c b -> a = b) ->
  (forall a b, In a l2 -> In b l2 -> c a = c b -> a = b) ->
  Permutation (map c l1) (map c l2) ->
  Permutation (map c (dedup [] l1)) (map c (dedup [] l2)).
Proof.
  intros K c l1 l2 I1 I2 P.
  assert (forall l r, In r (dedup [] l) -> In r l) as Sub.
  { intros l r H. apply dedup_In_iff in H. tauto. }
  assert (forall l k, In k (map c (dedup [] l)) <-> In k (map c l)) as M.
  { intros l k. rewrite !in_map_iff. split; intros (r & E & H); exists r; split; try exact E.
    - apply Sub, H.
    - apply dedup_In_iff. cbn [In]. tauto. }
  apply NoDup_Permutation.
  - apply NoDup_map_inj_in; [|apply dedup_NoDup]. intros a b Ha Hb. apply I1; apply Sub; assumption.
  - apply NoDup_map_inj_in; [|apply dedup_NoDup]. intros a b Ha Hb. apply I2; apply Sub; assumption.
  - intros k. rewrite !M. split; intros H.
    + eapply Permutation_in; eauto.
    + eapply Permutation_in; [apply Permutation_sym|]; eauto.
Qed.

(** the key: what a fixed list of columns reads *)
Definition ckey (ks : list var) (r : row) : list (var * option val) := map (fun k => (k, lookup k r)) ks.
Definition row_of (k : list (var * option val)) : row :=
  flat_map (fun kv => match snd kv with Some v => [(fst kv, v)] | None => [] end) k.

Lemma ckey_respects : forall ks, respects (ckey ks).
Proof. intros ks a b E. unfold ckey. apply map_ext. intros k. rewrite E. reflexivity. Qed.

Lemma lookup_row_of : forall ks r x,
  lookup x (row_of (ckey ks r)) = if mem x ks then lookup x r else None.
Proof.
  induction ks as [|k ks IH]; intros r x; [reflexivity|].
  unfold ckey, row_of in *. cbn [map flat_map snd fst mem]. rewrite lookup_app.
  destruct (lookup k r) as [v|] eqn:L; cbn [lookup].
  - destruct (String.eqb k x) eqn:E; cbn [orb].
    + apply String.eqb_eq in E. subst. rewrite L. reflexivity.
    + apply IH.
  - rewrite IH. destruct (String.eqb k x) eqn:E; cbn [orb]; [|reflexivity].
    apply String.eqb_eq in E. subst. rewrite L. destruct (mem x ks); reflexivity.
Qed.

Lemma row_of_ckey_equiv : forall ks r, incl (keys r) ks -> row_equiv (row_of (ckey ks r)) r.
Proof.
  intros ks r I x. rewrite lookup_row_of. destruct (mem x ks) eqn:M; [reflexivity|].
  symmetry. apply lookup_not_key. apply mem_false_In. intros H. apply mem_false_In in M. apply M, I, H.
Qed.

Lemma rows_eq_lookup : forall r r',
  keys r = keys r' -> NoDup (keys r) -> (forall k, In k (keys r) -> lookup k r = lookup k r') -> r = r'.
Proof.
  induction r as [|[k v] r IH]; destruct r' as [|[k' v'] r']; cbn [keys map fst]; try discriminate; [reflexivity|].
  intros E N L. injection E as E1 E2. subst k'. inversion N as [|? ? Nk Nr]; subst.
  assert (v = v') as ->.
  { specialize (L k (or_introl eq_refl)). cbn [lookup] in L. rewrite String.eqb_refl in L. congruence. }
  f_equal. apply IH; [exact E2|exact Nr|].
  intros x Hx. specialize (L x (or_intror Hx)). cbn [lookup] in L.
  destruct (String.eqb k x) eqn:Ex; [|exact L].
  apply String.eqb_eq in Ex. subst. contradiction.
Qed.

Lemma ckey_inj : forall ks r r',
  keys r = keys r' -> NoDup (keys r) -> incl (keys r) ks -> ckey ks r = ckey ks r' -> r = r'.
Proof.
  intros ks r r' E N I C. apply rows_eq_lookup; [exact E|exact N|].
  intros k Hk. apply I in Hk. unfold ckey in C.
  assert (forall l, map (fun k => (k, lookup k r)) l = map (fun k => (k, lookup k r')) l ->
                    forall k, In k l -> lookup k r = lookup k r') as P.
  { induction l as [|y l IHl]; cbn [map In]; intros H z Hz; [destruct Hz|].
    injection H as H1 H2. destruct Hz as [<-|Hz]; [exact H1|apply IHl; assumption]. }
  apply (P ks C k Hk).
Qed.

Theorem bag_eqv_dedup : forall l1 l2 ks1 ks2,
  NoDup ks1 -> NoDup ks2 ->
  (forall r, In r l1 -> keys r = ks1) -> (forall r, In r l2 -> keys r = ks2) ->
  bag_eqv l1 l2 -> bag_eqv (dedup [] l1) (dedup [] l2).
Proof.
  intros l1 l2 ks1 ks2 N1 N2 K1 K2 H T f Rf.
  set (c := ckey (ks1 ++ ks2)).
  assert (Permutation (map c (dedup [] l1)) (map c (dedup [] l2))) as P.
  { apply dedup_perm_key.
    - intros a b Ha Hb. apply ckey_inj; rewrite ?(K1 a Ha), ?(K1 b Hb); auto using incl_appl, incl_refl.
    - intros a b Ha Hb. apply ckey_inj; rewrite ?(K2 a Ha), ?(K2 b Hb); auto using incl_appr, incl_refl.
    - apply H, ckey_respects. }
  assert (forall l ks, (forall r, In r l -> keys r = ks) -> incl ks (ks1 ++ ks2) ->
                       map f (dedup [] l) = map (fun k => f (row_of k)) (map c (dedup [] l))) as E.
  { intros l ks Kl I. rewrite map_map. apply map_ext_in. intros r Hr. apply Rf.
    intros x. symmetry. apply row_of_ckey_equiv. rewrite (Kl r); [exact I|].
    apply dedup_In_iff in Hr. tauto. }
  rewrite (E l1 ks1 K1), (E l2 ks2 K2); auto using incl_appl, incl_appr, incl_refl.
  apply Permutation_map, P.
Qed.

(** aggregation only looks at the bag *)
Lemma bag_eqv_length : forall l1 l2, bag_eqv l1 l2 -> List.length l1 = List.length l2.
Proof.
  intros l1 l2 H. specialize (H unit (fun _ => tt) (fun _ _ _ => eq_refl)).
  apply Permutation_length in H. rewrite !map_length in H. exact H.
Qed.

Lemma proj_cell_respects : forall G e, respects (proj_cell G e).
Proof.
  intros G e a b E. unfold proj_cell.
  assert (eval G e a = eval G e b) as Ev by (apply eval_ext; intros v _; apply E).
  destruct e; rewrite ?Ev; try reflexivity. rewrite (E x). reflexivity.
Qed.

Lemma group_key_respects : forall G groups, respects (group_key G groups).
Proof.
  intros G groups a b E. unfold group_key. apply map_ext. intros e.
  rewrite (proj_cell_respects G e a b E). reflexivity.
Qed.

Lemma agg_value_bag : forall G a l1 l2, bag_eqv l1 l2 -> agg_value G a l1 = agg_value G a l2.
Proof.
  intros G a l1 l2 H. destruct a as [|e]; cbn [agg_value]; f_equal; f_equal.
  - apply bag_eqv_length, H.
  - apply bag_eqv_length, bag_eqv_filter; [|exact H].
    intros x y E. rewrite (proj_cell_respects G e x y E). reflexivity.
Qed.

Theorem agg_rows_bag : forall G groups aggs l1 l2,
  bag_eqv l1 l2 -> Permutation (agg_rows G groups aggs l1) (agg_rows G groups aggs l2).
Proof.
  intros G groups aggs l1 l2 H. unfold agg_rows. destruct groups as [|g gs].
  - assert (map (fun a => (agg_name a, agg_value G (fst a) l1)) aggs
            = map (fun a => (agg_name a, agg_value G (fst a) l2)) aggs) as ->; [|apply Permutation_refl].
    apply map_ext. intros a. rewrite (agg_value_bag G (fst a) l1 l2 H). reflexivity.
  - set (K := group_key G (g :: gs)).
    set (h := fun (l : list row) (k : row) =>
                k ++ map (fun a => (agg_name a, agg_value G (fst a) (filter (fun r => row_eqb (K r) k) l))) aggs).
    change (Permutation (map (h l1) (dedup [] (map K l1))) (map (h l2) (dedup [] (map K l2)))).
    assert (forall k, h l1 k = h l2 k) as Eh.
    { intros k. unfold h. f_equal. apply map_ext. intros a. f_equal. apply agg_value_bag.
      apply bag_eqv_filter; [|exact H]. intros x y E. unfold K. rewrite (group_key_respects G _ x y E). reflexivity. }
    rewrite (map_ext _ _ Eh). apply Permutation_map, dedup_perm. apply H. apply group_key_respects.
Qed.
