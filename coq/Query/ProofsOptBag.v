(** C09 — bags of rows up to the order of columns, and the algebra of the cross product
    (associativity as lists, commutativity as bags) that join reordering relies on. *)
From Coq Require Import ZArith List Bool String Permutation Lia.
Import ListNotations.
From GV Require Import Query.Plan Query.Opt Query.ProofsOptBase Query.ProofsOptPush.
Open Scope Z_scope.

Lemma row_equiv_refl : forall a, row_equiv a a.
Proof. intros a x; reflexivity. Qed.

Lemma row_equiv_app_r : forall a b b', row_equiv b b' -> row_equiv (a ++ b) (a ++ b').
Proof. intros a b b' H x. rewrite !lookup_app, H. reflexivity. Qed.

Lemma row_equiv_app_l : forall a a' b, row_equiv a a' -> row_equiv (a ++ b) (a' ++ b).
Proof. intros a a' b H x. rewrite !lookup_app, H. reflexivity. Qed.

Lemma row_equiv_swap : forall a b m,
  (forall x, mem x (keys a) = true -> mem x (keys b) = false) ->
  row_equiv (b ++ a ++ m) (a ++ b ++ m).
Proof.
  intros a b m D x. rewrite !lookup_app.
  destruct (mem x (keys a)) eqn:Ka.
  - rewrite (lookup_not_key x b (D x Ka)). destruct (lookup x a); reflexivity.
  - rewrite (lookup_not_key x a Ka). reflexivity.
Qed.

Lemma bag_eqv_refl : forall l, bag_eqv l l.
Proof. intros l T f _. apply Permutation_refl. Qed.

Lemma bag_eqv_sym : forall l1 l2, bag_eqv l1 l2 -> bag_eqv l2 l1.
Proof. intros l1 l2 H T f R. apply Permutation_sym, H, R. Qed.

Lemma bag_eqv_trans : forall l1 l2 l3, bag_eqv l1 l2 -> bag_eqv l2 l3 -> bag_eqv l1 l3.
Proof. intros l1 l2 l3 H1 H2 T f R. eapply Permutation_trans; [apply H1|apply H2]; exact R. Qed.

Lemma perm_bag_eqv : forall l1 l2, Permutation l1 l2 -> bag_eqv l1 l2.
Proof. intros l1 l2 H T f _. apply Permutation_map, H. Qed.

(** ** permutation lemmas on lists *)
Lemma Permutation_filter' : forall {A} (p : A -> bool) l l',
  Permutation l l' -> Permutation (filter p l) (filter p l').
Proof.
  intros A p l l' H; induction H; cbn [filter].
  - constructor.
  - destruct (p x); [constructor|]; assumption.
  - destruct (p x), (p y); try constructor; try apply Permutation_refl.
  - eapply Permutation_trans; eassumption.
Qed.

Lemma Permutation_concat' : forall {A} (l l' : list (list A)),
  Permutation l l' -> Permutation (List.concat l) (List.concat l').
Proof.
  intros A l l' H; induction H; cbn [List.concat].
  - constructor.
  - apply Permutation_app_head; assumption.
  - rewrite !app_assoc. apply Permutation_app_tail, Permutation_app_comm.
  - eapply Permutation_trans; eassumption.
Qed.

Lemma Permutation_flat_map' : forall {A B} (f : A -> list B) l l',
  Permutation l l' -> Permutation (flat_map f l) (flat_map f l').
Proof.
  intros A B f l l' H. rewrite !flat_map_concat_map.
  apply Permutation_concat', Permutation_map, H.
Qed.

Lemma flat_map_perm_pointwise : forall {A B} (F H : A -> list B) l,
  (forall a, In a l -> Permutation (F a) (H a)) -> Permutation (flat_map F l) (flat_map H l).
Proof.
  intros A B F H l; induction l as [|x l IH]; cbn [flat_map]; intros E; [constructor|].
  apply Permutation_app; [apply E; left; reflexivity|apply IH; intros; apply E; right; assumption].
Qed.

Lemma flat_map_app_perm : forall {A B} (k m : A -> list B) l,
  Permutation (flat_map (fun b => k b ++ m b) l) (flat_map k l ++ flat_map m l).
Proof.
  intros A B k m l; induction l as [|x l IH]; cbn [flat_map]; [constructor|].
  rewrite <- !app_assoc. apply Permutation_app_head.
  eapply Permutation_trans; [apply Permutation_app_head, IH|].
  rewrite !app_assoc. apply Permutation_app_tail, Permutation_app_comm.
Qed.

Lemma flat_map_swap : forall {A B C} (h : A -> B -> list C) la lb,
  Permutation (flat_map (fun a => flat_map (fun b => h a b) lb) la)
              (flat_map (fun b => flat_map (fun a => h a b) la) lb).
Proof.
  intros A B C h la lb; induction la as [|x la IH]; cbn [flat_map].
  - induction lb as [|y lb IHb]; cbn [flat_map]; [constructor|exact IHb].
  - eapply Permutation_trans; [apply Permutation_app_head, IH|].
    apply Permutation_sym, (flat_map_app_perm (fun b => h x b) (fun b => flat_map (fun a => h a b) la)).
Qed.

Lemma flat_map_flat_map : forall {A B C} (f : A -> list B) (g : B -> list C) l,
  flat_map g (flat_map f l) = flat_map (fun x => flat_map g (f x)) l.
Proof.
  intros A B C f g l; induction l as [|x l IH]; cbn [flat_map]; [reflexivity|].
  rewrite flat_map_app, IH. reflexivity.
Qed.

Lemma flat_map_map : forall {A B C} (f : A -> B) (g : B -> list C) l,
  flat_map g (map f l) = flat_map (fun x => g (f x)) l.
Proof.
  intros A B C f g l; induction l as [|x l IH]; cbn [flat_map map]; [reflexivity|].
  rewrite IH. reflexivity.
Qed.

Lemma map_flat_map : forall {A B C} (f : B -> C) (g : A -> list B) l,
  map f (flat_map g l) = flat_map (fun x => map f (g x)) l.
Proof.
  intros A B C f g l; induction l as [|x l IH]; cbn [flat_map map]; [reflexivity|].
  rewrite map_app, IH. reflexivity.
Qed.

Lemma filter_filter : forall {A} (p q : A -> bool) l,
  filter q (filter p l) = filter (fun x => p x && q x) l.
Proof.
  intros A p q l; induction l as [|x l IH]; cbn [filter]; [reflexivity|].
  destruct (p x); cbn [filter andb]; [destruct (q x)|]; rewrite IH; reflexivity.
Qed.

Lemma filter_true : forall {A} (l : list A), filter (fun _ => true) l = l.
Proof. intros A l; induction l as [|x l IH]; cbn [filter]; [reflexivity|rewrite IH; reflexivity]. Qed.

(** ** bag equality is preserved by the order-insensitive operators *)
Lemma bag_eqv_filter : forall g l1 l2,
  respects g -> bag_eqv l1 l2 -> bag_eqv (filter g l1) (filter g l2).
Proof.
  intros g l1 l2 Rg H T f Rf.
  assert (forall l, map f (filter g l) = map snd (filter fst (map (fun r => (g r, f r)) l))) as E.
  { induction l as [|x l IH]; cbn [map filter fst]; [reflexivity|].
    destruct (g x); cbn [map snd]; rewrite IH; reflexivity. }
  rewrite !E. apply Permutation_map, Permutation_filter'.
  apply (H _ (fun r => (g r, f r))). intros a b E'. rewrite (Rg a b E'), (Rf a b E'). reflexivity.
Qed.

Lemma bag_eqv_map : forall (F : row -> row) l1 l2,
  respects F -> bag_eqv l1 l2 -> Permutation (map F l1) (map F l2).
Proof. intros F l1 l2 R H. apply H, R. Qed.

Lemma bag_eqv_flat_map : forall (F : row -> list row) l1 l2,
  (forall T (f : row -> T), respects f -> respects (fun r => map f (F r))) ->
  bag_eqv l1 l2 -> bag_eqv (flat_map F l1) (flat_map F l2).
Proof.
  intros F l1 l2 R H T f Rf. rewrite !map_flat_map, !flat_map_concat_map.
  apply Permutation_concat'. apply (H _ (fun r => map f (F r))). apply R, Rf.
Qed.

(** sorting permutes *)
Lemma insert_sorted_perm : forall le r l, Permutation (insert_sorted le r l) (r :: l).
Proof.
  intros le r l; induction l as [|x l IH]; cbn [insert_sorted]; [apply Permutation_refl|].
  destruct (le x r); [|apply Permutation_refl].
  eapply Permutation_trans; [apply perm_skip, IH|apply perm_swap].
Qed.

Lemma sort_rows_perm : forall le l, Permutation (sort_rows le l) l.
Proof.
  intros le l. unfold sort_rows.
  assert (forall acc, Permutation (fold_left (fun acc r => insert_sorted le r acc) l acc) (acc ++ l)) as H.
  { induction l as [|x l IH]; cbn [fold_left]; intros acc; [rewrite app_nil_r; apply Permutation_refl|].
    eapply Permutation_trans; [apply IH|].
    eapply Permutation_trans; [apply Permutation_app_tail, insert_sorted_perm|].
    cbn [app]. apply Permutation_middle. }
  apply (H []).
Qed.

(** ** the cross product *)
Lemma cross_unit_r : forall A, cross A [[]] = A.
Proof.
  intros A; unfold cross; induction A as [|a A IH]; [reflexivity|].
  simpl in *. rewrite app_nil_r. f_equal. exact IH.
Qed.

Lemma cross_unit_l : forall B, cross [[]] B = B.
Proof.
  intros B; unfold cross; cbn [flat_map]. rewrite app_nil_r. cbn [app]. apply map_id.
Qed.

Lemma cross_assoc : forall A B C, cross (cross A B) C = cross A (cross B C).
Proof.
  intros A B C. unfold cross. rewrite flat_map_flat_map. apply flat_map_ext. intros a.
  rewrite flat_map_map, map_flat_map. apply flat_map_ext. intros b.
  rewrite map_map. apply map_ext. intros c. symmetry. apply app_assoc.
Qed.

Lemma cross_all_app : forall X Y, cross_all (X ++ Y) = cross (cross_all X) (cross_all Y).
Proof.
  intros X Y; induction X as [|A X IH]; cbn [cross_all app].
  - symmetry. apply cross_unit_l.
  - rewrite IH. symmetry. apply cross_assoc.
Qed.

Lemma map_cross : forall {T} (f : row -> T) A B,
  map f (cross A B) = flat_map (fun a => map (fun b => f (a ++ b)) B) A.
Proof.
  intros T f A B. unfold cross. rewrite map_flat_map. apply flat_map_ext. intros a. apply map_map.
Qed.

Lemma in_cross : forall A B m, In m (cross A B) <-> exists a b, In a A /\ In b B /\ m = a ++ b.
Proof.
  intros A B m. unfold cross. rewrite in_flat_map. split.
  - intros (a & Ha & H). apply in_map_iff in H as (b & <- & Hb). eauto.
  - intros (a & b & Ha & Hb & ->). exists a. split; [assumption|]. apply in_map_iff. eauto.
Qed.

Lemma cross_congr_r : forall A B B', bag_eqv B B' -> bag_eqv (cross A B) (cross A B').
Proof.
  intros A B B' H T f Rf. rewrite !map_cross. apply flat_map_perm_pointwise. intros a _.
  apply (H _ (fun b => f (a ++ b))). intros x y E. apply Rf, row_equiv_app_r, E.
Qed.

(** exchanging two factors whose columns are disjoint *)
Lemma cross_swap : forall A B M,
  (forall a b, In a A -> In b B -> forall x, mem x (keys a) = true -> mem x (keys b) = false) ->
  bag_eqv (cross B (cross A M)) (cross A (cross B M)).
Proof.
  intros A B M D T f Rf.
  assert (map f (cross B (cross A M))
          = flat_map (fun b => flat_map (fun a => map (fun m => f (b ++ a ++ m)) M) A) B) as E1.
  { rewrite map_cross. apply flat_map_ext. intros b. apply (map_cross (fun z => f (b ++ z))). }
  assert (map f (cross A (cross B M))
          = flat_map (fun a => flat_map (fun b => map (fun m => f (a ++ b ++ m)) M) B) A) as E2.
  { rewrite map_cross. apply flat_map_ext. intros a. apply (map_cross (fun z => f (a ++ z))). }
  rewrite E1, E2.
  eapply Permutation_trans; [|apply flat_map_swap].
  apply flat_map_perm_pointwise. intros b Hb.
  apply flat_map_perm_pointwise. intros a Ha.
  erewrite map_ext; [apply Permutation_refl|]. intros m. cbn beta.
  apply Rf, row_equiv_swap. intros x. apply (D a b Ha Hb).
Qed.

(** a filter over a product whose predicate splits into a left part, a right part and a part on
    the pair is the nested-loop join of the filtered factors *)
Lemma filter_cross : forall A B (P pa pb : row -> bool) (Q : row -> row -> bool),
  (forall a b, In a A -> In b B -> P (a ++ b) = pa a && pb b && Q a b) ->
  filter P (cross A B)
  = flat_map (fun a => map (fun b => a ++ b) (filter (Q a) (filter pb B))) (filter pa A).
Proof.
  intros A B P pa pb Q; unfold cross, row in *; induction A as [|a A IH]; cbn [flat_map filter]; intros H;
    [reflexivity|].
  rewrite filter_app, IH by (intros; apply H; [right|]; assumption).
  rewrite (filter_map_comm (fun b => a ++ b) P (fun b => P (a ++ b))) by reflexivity.
  destruct (pa a) eqn:Pa; cbn [flat_map].
  - f_equal. f_equal. rewrite filter_filter. apply filter_ext_in. intros b Hb.
    rewrite (H a b (or_introl eq_refl) Hb), Pa. reflexivity.
  - rewrite (filter_all_same (fun b => P (a ++ b)) false); [reflexivity|].
    intros b Hb. rewrite (H a b (or_introl eq_refl) Hb), Pa. reflexivity.
Qed.
