(** C08 — proofs: the chain of Scan/Expand/hasLabel-Filter operators enumerates the bindings of the
    path pattern, and the clause operators implement the clause specs. *)
From Coq Require Import ZArith List Bool String Ascii Lia Permutation.
From GV Require Export Query.ChainSpec Query.RunPat.
Import ListNotations.
Open Scope Z_scope.

(** * Lists *)
Lemma find_unique {A} (f : A -> Z) (l : list A) (x : A) :
  NoDup (map f l) -> List.In x l -> find (fun y => f y =? f x) l = Some x.
Proof.
  induction l as [|a l IH]; intros Hnd Hin; [destruct Hin|].
  cbn [find]. inversion Hnd as [|? ? Hna Hnd']; subst.
  destruct Hin as [->|Hin]; [rewrite Z.eqb_refl; reflexivity|].
  destruct (f a =? f x) eqn:E.
  - exfalso. apply Hna. apply Z.eqb_eq in E. rewrite E. apply in_map. exact Hin.
  - apply IH; assumption.
Qed.
Lemma get_node_in st n : store_ok st -> List.In n (nodes st) -> get_node st (nid n) = Some n.
Proof. intros [H _] Hin. unfold get_node. apply (find_unique nid); assumption. Qed.
Lemma get_edge_in st e : store_ok st -> List.In e (edges st) -> get_edge st (eid e) = Some e.
Proof. intros [_ H] Hin. unfold get_edge. apply (find_unique eid); assumption. Qed.
Lemma get_node_some st i n : get_node st i = Some n -> List.In n (nodes st) /\ nid n = i.
Proof.
  unfold get_node. intros H. apply find_some in H. destruct H as [H1 H2]. apply Z.eqb_eq in H2. auto.
Qed.

Lemma filter_map_comm {A B} (f : A -> B) (p : B -> bool) (l : list A) :
  filter p (map f l) = map f (filter (fun a => p (f a)) l).
Proof. induction l as [|a l IH]; cbn; [reflexivity|]. destruct (p (f a)); cbn; rewrite IH; reflexivity. Qed.
Lemma filter_filter {A} (p q : A -> bool) (l : list A) :
  filter p (filter q l) = filter (fun a => q a && p a) l.
Proof. induction l as [|a l IH]; cbn; [reflexivity|]. destruct (q a); cbn; [destruct (p a)|]; rewrite ?IH; reflexivity. Qed.
Lemma filter_flat_map {A B} (f : A -> list B) (p : B -> bool) (l : list A) :
  filter p (flat_map f l) = flat_map (fun a => filter p (f a)) l.
Proof. induction l as [|a l IH]; cbn; [reflexivity|]. rewrite filter_app, IH. reflexivity. Qed.
Lemma map_flat_map {A B C} (f : A -> list B) (g : B -> C) (l : list A) :
  map g (flat_map f l) = flat_map (fun a => map g (f a)) l.
Proof. induction l as [|a l IH]; cbn; [reflexivity|]. rewrite map_app, IH. reflexivity. Qed.
Lemma flat_map_map {A B C} (f : A -> B) (g : B -> list C) (l : list A) :
  flat_map g (map f l) = flat_map (fun a => g (f a)) l.
Proof. induction l as [|a l IH]; cbn; [reflexivity|]. rewrite IH. reflexivity. Qed.
Lemma flat_map_flat_map {A B C} (f : A -> list B) (g : B -> list C) (l : list A) :
  flat_map g (flat_map f l) = flat_map (fun a => flat_map g (f a)) l.
Proof. induction l as [|a l IH]; cbn; [reflexivity|]. rewrite flat_map_app, IH. reflexivity. Qed.
Lemma flat_map_ext_in {A B} (f g : A -> list B) (l : list A) :
  (forall a, List.In a l -> f a = g a) -> flat_map f l = flat_map g l.
Proof.
  induction l as [|a l IH]; intros H; cbn; [reflexivity|].
  rewrite (H a (or_introl eq_refl)), IH; [reflexivity|]. intros b Hb. apply H. right. exact Hb.
Qed.
Lemma filter_ext_in' {A} (p q : A -> bool) (l : list A) :
  (forall a, List.In a l -> p a = q a) -> filter p l = filter q l.
Proof.
  induction l as [|a l IH]; intros H; cbn; [reflexivity|].
  rewrite (H a (or_introl eq_refl)), IH; [reflexivity|]. intros b Hb. apply H. right. exact Hb.
Qed.
Lemma Permutation_filter' {A} (p : A -> bool) (l l' : list A) :
  Permutation l l' -> Permutation (filter p l) (filter p l').
Proof.
  induction 1 as [|x l l' _ IH|x y l|l l' l'' _ IH1 _ IH2]; cbn.
  - constructor.
  - destruct (p x); [constructor|]; exact IH.
  - destruct (p x), (p y); try apply Permutation_refl. apply perm_swap.
  - eapply Permutation_trans; eassumption.
Qed.
Lemma Permutation_flat_map_pw {A B} (f g : A -> list B) (l : list A) :
  (forall a, List.In a l -> Permutation (f a) (g a)) -> Permutation (flat_map f l) (flat_map g l).
Proof.
  induction l as [|a l IH]; intros H; cbn; [constructor|].
  apply Permutation_app; [apply H; left; reflexivity|apply IH; intros b Hb; apply H; right; exact Hb].
Qed.
Lemma flat_map_app_perm {A B} (f g : A -> list B) (l : list A) :
  Permutation (flat_map (fun a => f a ++ g a) l) (flat_map f l ++ flat_map g l).
Proof.
  induction l as [|a l IH]; cbn; [constructor|].
  rewrite <- !app_assoc. apply Permutation_app_head.
  eapply Permutation_trans; [apply Permutation_app_head; exact IH|].
  rewrite !app_assoc. apply Permutation_app_tail. apply Permutation_app_comm.
Qed.

(** * One edge pattern: adjacency lists versus the declarative step *)
Definition type_agree (st : store) (ty : option string) : Prop :=
  forall e, List.In e (edges st) -> type_ok st true ty (eid e) = type_eq ty (etype e).

Lemma eq_ci_refl s : eq_ci s s = true.
Proof. unfold eq_ci. apply String.eqb_refl. Qed.
Lemma type_agree_of st ty :
  store_ok st ->
  (match ty with
   | Some t => forallb (fun e => implb (eq_ci (etype e) t) (String.eqb (etype e) t)) (edges st)
   | None => true end) = true ->
  type_agree st ty.
Proof.
  intros Hok H e Hin. unfold type_ok, type_eq. destruct ty as [t|]; [|reflexivity].
  rewrite (get_edge_in st e Hok Hin).
  rewrite forallb_forall in H. specialize (H e Hin).
  rewrite (String.eqb_sym t (etype e)).
  destruct (String.eqb (etype e) t) eqn:E.
  - apply String.eqb_eq in E. rewrite E. apply eq_ci_refl.
  - destruct (eq_ci (etype e) t); [discriminate H|reflexivity].
Qed.

Definition hstep (ty : option string) (d : dir) (cur : Z) (e : edge) : list (Z * Z) :=
  if type_eq ty (etype e) then
    match d with
    | Out => if esrc e =? cur then [(eid e, edst e)] else []
    | In => if edst e =? cur then [(eid e, esrc e)] else []
    | Both => if esrc e =? cur then [(eid e, edst e)] else if edst e =? cur then [(eid e, esrc e)] else []
    end
  else [].
Lemma dstep_hstep st d ty cur : dstep st d ty cur = flat_map (hstep ty d cur) (edges st).
Proof. reflexivity. Qed.

Lemma ostep_out_gen st ty cur (es : list edge) :
  (forall e, List.In e es -> type_ok st true ty (eid e) = type_eq ty (etype e)) ->
  map (fun te : Z * Z => (snd te, fst te))
      (filter (fun te => type_ok st true ty (snd te) && node_exists st (fst te))
              (map (fun e => (edst e, eid e)) (filter (fun e => esrc e =? cur) es)))
  = filter (fun ef => node_exists st (snd ef)) (flat_map (hstep ty Out cur) es).
Proof.
  induction es as [|e es IH]; intros H; [reflexivity|].
  cbn [filter flat_map]. rewrite filter_app.
  rewrite <- IH by (intros e' He'; apply H; right; exact He').
  unfold hstep at 1. rewrite <- (H e (or_introl eq_refl)).
  destruct (esrc e =? cur); cbn [map filter fst snd].
  - destruct (type_ok st true ty (eid e)); cbn [andb filter snd app]; [|reflexivity].
    destruct (node_exists st (edst e)); reflexivity.
  - destruct (type_ok st true ty (eid e)); reflexivity.
Qed.
Lemma ostep_in_gen st ty cur (es : list edge) :
  (forall e, List.In e es -> type_ok st true ty (eid e) = type_eq ty (etype e)) ->
  map (fun te : Z * Z => (snd te, fst te))
      (filter (fun te => type_ok st true ty (snd te) && node_exists st (fst te))
              (map (fun e => (esrc e, eid e)) (filter (fun e => edst e =? cur) es)))
  = filter (fun ef => node_exists st (snd ef)) (flat_map (hstep ty In cur) es).
Proof.
  induction es as [|e es IH]; intros H; [reflexivity|].
  cbn [filter flat_map]. rewrite filter_app.
  rewrite <- IH by (intros e' He'; apply H; right; exact He').
  unfold hstep at 1. rewrite <- (H e (or_introl eq_refl)).
  destruct (edst e =? cur); cbn [map filter fst snd].
  - destruct (type_ok st true ty (eid e)); cbn [andb filter snd app]; [|reflexivity].
    destruct (node_exists st (esrc e)); reflexivity.
  - destruct (type_ok st true ty (eid e)); reflexivity.
Qed.

Lemma ostep_out st ty cur : type_agree st ty -> ostep st Out ty cur = dstep_live st Out ty cur.
Proof. intros H. unfold ostep, neighbors, edges_from, fwd, dstep_live. rewrite dstep_hstep. apply ostep_out_gen. exact H. Qed.
Lemma ostep_in st ty cur : type_agree st ty -> ostep st In ty cur = dstep_live st In ty cur.
Proof. intros H. unfold ostep, neighbors, edges_from, bwd, dstep_live. rewrite dstep_hstep. apply ostep_in_gen. exact H. Qed.
Lemma ostep_both_app st ty cur : ostep st Both ty cur = ostep st Out ty cur ++ ostep st In ty cur.
Proof. unfold ostep, neighbors, edges_from. rewrite filter_app, map_app. reflexivity. Qed.

Lemma ostep_both st ty cur :
  type_agree st ty ->
  forallb (fun e => negb ((esrc e =? edst e) && type_eq ty (etype e))) (edges st) = true ->
  Permutation (ostep st Both ty cur) (dstep_live st Both ty cur).
Proof.
  intros Hty Hsl. rewrite ostep_both_app, (ostep_out st ty cur Hty), (ostep_in st ty cur Hty).
  unfold dstep_live. rewrite <- filter_app. apply Permutation_filter'.
  rewrite !dstep_hstep. apply Permutation_sym.
  eapply Permutation_trans; [|apply flat_map_app_perm].
  apply Permutation_flat_map_pw. intros e He.
  rewrite forallb_forall in Hsl. specialize (Hsl e He).
  unfold hstep. destruct (type_eq ty (etype e)); [|constructor].
  rewrite andb_true_r in Hsl.
  destruct (esrc e =? cur) eqn:E1; destruct (edst e =? cur) eqn:E2; cbn [app]; try apply Permutation_refl.
  exfalso. apply Z.eqb_eq in E1, E2. rewrite <- E2 in E1. apply Z.eqb_eq in E1. rewrite E1 in Hsl. discriminate Hsl.
Qed.
