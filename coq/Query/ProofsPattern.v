(** C08 — proofs: the chain of Scan/Expand/hasLabel-Filter operators enumerates the bindings of the
    path pattern, and the clause operators implement the clause specs. *)
From Coq Require Import ZArith List Bool String Ascii Lia Permutation.
From GV Require Export Query.ChainSpec Query.RunPat.
Import ListNotations.
Open Scope Z_scope.

(** * Lists *)
Lemma find_unique {A} (f : A -> Z) (l : list A) (x : A) :
  NoDup (map f l) -> List.In x l -> find (fun y => f y =? f x) l = Some x.
Proof.
  induction l as [|a l IH]; intros Hnd Hin; [destruct Hin|].
  cbn [find]. inversion Hnd as [|? ? Hna Hnd']; subst.
  destruct Hin as [->|Hin]; [rewrite Z.eqb_refl; reflexivity|].
  destruct (f a =? f x) eqn:E.
  - exfalso. apply Hna. apply Z.eqb_eq in E. rewrite E. apply in_map. exact Hin.
  - apply IH; assumption.
Qed.
Lemma get_node_in st n : store_ok st -> List.In n (nodes st) -> get_node st (nid n) = Some n.
Proof. intros [H _] Hin. unfold get_node. apply (find_unique nid); assumption. Qed.
Lemma get_edge_in st e : store_ok st -> List.In e (edges st) -> get_edge st (eid e) = Some e.
Proof. intros [_ H] Hin. unfold get_edge. apply (find_unique eid); assumption. Qed.
Lemma get_node_some st i n : get_node st i = Some n -> List.In n (nodes st) /\ nid n = i.
Proof.
  unfold get_node. intros H. apply find_some in H. destruct H as [H1 H2]. apply Z.eqb_eq in H2. auto.
Qed.

Lemma filter_map_comm {A B} (f : A -> B) (p : B -> bool) (l : list A) :
  filter p (map f l) = map f (filter (fun a => p (f a)) l).
Proof. induction l as [|a l IH]; cbn; [reflexivity|]. destruct (p (f a)); cbn; rewrite IH; reflexivity. Qed.
Lemma filter_filter {A} (p q : A -> bool) (l : list A) :
  filter p (filter q l) = filter (fun a => q a && p a) l.
Proof. induction l as [|a l IH]; cbn; [reflexivity|]. destruct (q a); cbn; [destruct (p a)|]; rewrite ?IH; reflexivity. Qed.
Lemma filter_flat_map {A B} (f : A -> list B) (p : B -> bool) (l : list A) :
  filter p (flat_map f l) = flat_map (fun a => filter p (f a)) l.
Proof. induction l as [|a l IH]; cbn; [reflexivity|]. rewrite filter_app, IH. reflexivity. Qed.
Lemma map_flat_map {A B C} (f : A -> list B) (g : B -> C) (l : list A) :
  map g (flat_map f l) = flat_map (fun a => map g (f a)) l.
Proof. induction l as [|a l IH]; cbn; [reflexivity|]. rewrite map_app, IH. reflexivity. Qed.
Lemma flat_map_map {A B C} (f : A -> B) (g : B -> list C) (l : list A) :
  flat_map g (map f l) = flat_map (fun a => g (f a)) l.
Proof. induction l as [|a l IH]; cbn; [reflexivity|]. rewrite IH. reflexivity. Qed.
Lemma flat_map_flat_map {A B C} (f : A -> list B) (g : B -> list C) (l : list A) :
  flat_map g (flat_map f l) = flat_map (fun a => flat_map g (f a)) l.
Proof. induction l as [|a l IH]; cbn; [reflexivity|]. rewrite flat_map_app, IH. reflexivity. Qed.
Lemma flat_map_ext_in {A B} (f g : A -> list B) (l : list A) :
  (forall a, List.In a l -> f a = g a) -> flat_map f l = flat_map g l.
Proof.
  induction l as [|a l IH]; intros H; cbn; [reflexivity|].
  rewrite (H a (or_introl eq_refl)), IH; [reflexivity|]. intros b Hb. apply H. right. exact Hb.
Qed.
Lemma filter_ext_in' {A} (p q : A -> bool) (l : list A) :
  (forall a, List.In a l -> p a = q a) -> filter p l = filter q l.
Proof.
  induction l as [|a l IH]; intros H; cbn; [reflexivity|].
  rewrite (H a (or_introl eq_refl)), IH; [reflexivity|]. intros b Hb. apply H. right. exact Hb.
Qed.
Lemma Permutation_filter' {A} (p : A -> bool) (l l' : list A) :
  Permutation l l' -> Permutation (filter p l) (filter p l').
Proof.
  induction 1 as [|x l l' _ IH|x y l|l l' l'' _ IH1 _ IH2]; cbn.
  - constructor.
  - destruct (p x); [constructor|]; exact IH.
  - destruct (p x), (p y); try apply Permutation_refl. apply perm_swap.
  - eapply Permutation_trans; eassumption.
Qed.
Lemma Permutation_flat_map_pw {A B} (f g : A -> list B) (l : list A) :
  (forall a, List.In a l -> Permutation (f a) (g a)) -> Permutation (flat_map f l) (flat_map g l).
Proof.
  induction l as [|a l IH]; intros H; cbn; [constructor|].
  apply Permutation_app; [apply H; left; reflexivity|apply IH; intros b Hb; apply H; right; exact Hb].
Qed.
Lemma flat_map_app_perm {A B} (f g : A -> list B) (l : list A) :
  Permutation (flat_map (fun a => f a ++ g a) l) (flat_map f l ++ flat_map g l).
Proof.
  induction l as [|a l IH]; cbn; [constructor|].
  rewrite <- !app_assoc. apply Permutation_app_head.
  eapply Permutation_trans; [apply Permutation_app_head; exact IH|].
  rewrite !app_assoc. apply Permutation_app_tail. apply Permutation_app_comm.
Qed.

(** * One edge pattern: adjacency lists versus the declarative step *)
Definition type_agree (st : store) (ty : option string) : Prop :=
  forall e, List.In e (edges st) -> type_ok st true ty (eid e) = type_eq ty (etype e).

Lemma eq_ci_refl s : eq_ci s s = true.
Proof. unfold eq_ci. apply String.eqb_refl. Qed.
Lemma type_agree_of st ty :
  store_ok st ->
  (match ty with
   | Some t => forallb (fun e => implb (eq_ci (etype e) t) (String.eqb (etype e) t)) (edges st)
   | None => true end) = true ->
  type_agree st ty.
Proof.
  intros Hok H e Hin. unfold type_ok, type_eq. destruct ty as [t|]; [|reflexivity].
  rewrite (get_edge_in st e Hok Hin).
  rewrite forallb_forall in H. specialize (H e Hin).
  rewrite (String.eqb_sym t (etype e)).
  destruct (String.eqb (etype e) t) eqn:E.
  - apply String.eqb_eq in E. rewrite E. apply eq_ci_refl.
  - destruct (eq_ci (etype e) t); [discriminate H|reflexivity].
Qed.

Definition hstep (ty : option string) (d : dir) (cur : Z) (e : edge) : list (Z * Z) :=
  if type_eq ty (etype e) then
    match d with
    | Out => if esrc e =? cur then [(eid e, edst e)] else []
    | In => if edst e =? cur then [(eid e, esrc e)] else []
    | Both => if esrc e =? cur then [(eid e, edst e)] else if edst e =? cur then [(eid e, esrc e)] else []
    end
  else [].
Lemma dstep_hstep st d ty cur : dstep st d ty cur = flat_map (hstep ty d cur) (edges st).
Proof. reflexivity. Qed.

Lemma ostep_out_gen st ty cur (es : list edge) :
  (forall e, List.In e es -> type_ok st true ty (eid e) = type_eq ty (etype e)) ->
  map (fun te : Z * Z => (snd te, fst te))
      (filter (fun te => type_ok st true ty (snd te) && node_exists st (fst te))
              (map (fun e => (edst e, eid e)) (filter (fun e => esrc e =? cur) es)))
  = filter (fun ef => node_exists st (snd ef)) (flat_map (hstep ty Out cur) es).
Proof.
  induction es as [|e es IH]; intros H; [reflexivity|].
  cbn [filter flat_map]. rewrite filter_app.
  rewrite <- IH by (intros e' He'; apply H; right; exact He').
  unfold hstep at 1. rewrite <- (H e (or_introl eq_refl)).
  destruct (esrc e =? cur); cbn [map filter fst snd].
  - destruct (type_ok st true ty (eid e)); cbn [andb filter snd app]; [|reflexivity].
    destruct (node_exists st (edst e)); reflexivity.
  - destruct (type_ok st true ty (eid e)); reflexivity.
Qed.
Lemma ostep_in_gen st ty cur (es : list edge) :
  (forall e, List.In e es -> type_ok st true ty (eid e) = type_eq ty (etype e)) ->
  map (fun te : Z * Z => (snd te, fst te))
      (filter (fun te => type_ok st true ty (snd te) && node_exists st (fst te))
              (map (fun e => (esrc e, eid e)) (filter (fun e => edst e =? cur) es)))
  = filter (fun ef => node_exists st (snd ef)) (flat_map (hstep ty In cur) es).
Proof.
  induction es as [|e es IH]; intros H; [reflexivity|].
  cbn [filter flat_map]. rewrite filter_app.
  rewrite <- IH by (intros e' He'; apply H; right; exact He').
  unfold hstep at 1. rewrite <- (H e (or_introl eq_refl)).
  destruct (edst e =? cur); cbn [map filter fst snd].
  - destruct (type_ok st true ty (eid e)); cbn [andb filter snd app]; [|reflexivity].
    destruct (node_exists st (esrc e)); reflexivity.
  - destruct (type_ok st true ty (eid e)); reflexivity.
Qed.

Lemma ostep_out st ty cur : type_agree st ty -> ostep st Out ty cur = dstep_live st Out ty cur.
Proof. intros H. unfold ostep, neighbors, edges_from, fwd, dstep_live. rewrite dstep_hstep. apply ostep_out_gen. exact H. Qed.
Lemma ostep_in st ty cur : type_agree st ty -> ostep st In ty cur = dstep_live st In ty cur.
Proof. intros H. unfold ostep, neighbors, edges_from, bwd, dstep_live. rewrite dstep_hstep. apply ostep_in_gen. exact H. Qed.
Lemma ostep_both_app st ty cur : ostep st Both ty cur = ostep st Out ty cur ++ ostep st In ty cur.
Proof. unfold ostep, neighbors, edges_from. rewrite filter_app, map_app. reflexivity. Qed.

Lemma ostep_both st ty cur :
  type_agree st ty ->
  forallb (fun e => negb ((esrc e =? edst e) && type_eq ty (etype e))) (edges st) = true ->
  Permutation (ostep st Both ty cur) (dstep_live st Both ty cur).
Proof.
  intros Hty Hsl. rewrite ostep_both_app, (ostep_out st ty cur Hty), (ostep_in st ty cur Hty).
  unfold dstep_live. rewrite <- filter_app. apply Permutation_filter'.
  rewrite !dstep_hstep. apply Permutation_sym.
  eapply Permutation_trans; [|apply flat_map_app_perm].
  apply Permutation_flat_map_pw. intros e He.
  rewrite forallb_forall in Hsl. specialize (Hsl e He).
  unfold hstep. destruct (type_eq ty (etype e)); [|constructor].
  rewrite andb_true_r in Hsl.
  destruct (esrc e =? cur) eqn:E1; destruct (edst e =? cur) eqn:E2; cbn [app]; try apply Permutation_refl.
  exfalso. apply Z.eqb_eq in E1, E2. rewrite <- E2 in E1. apply Z.eqb_eq in E1. rewrite E1 in Hsl. discriminate Hsl.
Qed.

(** * Bindings of a whole single-hop pattern: operational reading versus declarative *)
Definition gbind (h : hop) (step : list (Z * Z)) (st : store) (ec : env * Z) : list (env * Z) :=
  map (fun ef => (fst ec ++ (match h_evar h with Some r => [(r, EEdge (fst ef))] | None => [] end)
                         ++ [(np_var (h_to h), ENode (snd ef))], snd ef))
      (filter (fun ef => first_label_ok st (h_to h) (snd ef)) step).
Lemma obind_hop_gbind st h ec : obind_hop st h ec = gbind h (ostep st (h_dir h) (h_type h) (snd ec)) st ec.
Proof. reflexivity. Qed.
Lemma node_ok_split st np i :
  (List.length (np_labels np) <= 1)%nat -> node_ok st np i = node_exists st i && first_label_ok st np i.
Proof.
  intros H. unfold node_ok, node_exists, first_label_ok.
  destruct (np_labels np) as [|l [|l' r]]; cbn [forallb List.length] in *.
  - destruct (get_node st i); reflexivity.
  - destruct (get_node st i); [rewrite andb_true_r; reflexivity|reflexivity].
  - lia.
Qed.
Lemma bind_hop_gbind st h en cur :
  h_len h = HOne -> (List.length (np_labels (h_to h)) <= 1)%nat ->
  bind_hop st h en cur = gbind h (dstep_live st (h_dir h) (h_type h) cur) st (en, cur).
Proof.
  intros Hl Hlab. unfold bind_hop, gbind, hop_ends, dstep_live. rewrite Hl.
  rewrite filter_map_comm, map_map. cbn [fst snd].
  rewrite filter_filter.
  rewrite (filter_ext_in' (fun a => node_ok st (h_to h) (snd a))
                          (fun a => node_exists st (snd a) && first_label_ok st (h_to h) (snd a)))
    by (intros a _; apply node_ok_split; exact Hlab).
  apply map_ext. intros [e f]. cbn [fst snd]. destruct (h_evar h); reflexivity.
Qed.
Lemma gbind_perm h s1 s2 st ec : Permutation s1 s2 -> Permutation (gbind h s1 st ec) (gbind h s2 st ec).
Proof. intros H. unfold gbind. apply Permutation_map. apply Permutation_filter'. exact H. Qed.

(** per-hop conditions *)
Definition hop_core (st : store) (h : hop) : Prop :=
  h_len h = HOne /\ (List.length (np_labels (h_to h)) <= 1)%nat /\ type_agree st (h_type h).
Definition hop_noloop (st : store) (h : hop) : Prop :=
  match h_dir h with
  | Both => forallb (fun e => negb ((esrc e =? edst e) && type_eq (h_type h) (etype e))) (edges st) = true
  | _ => True
  end.

Lemma hop_step_eq st h ec :
  hop_core st h -> h_dir h <> Both -> obind_hop st h ec = bind_hop st h (fst ec) (snd ec).
Proof.
  intros (Hl & Hlab & Hty) Hd. rewrite obind_hop_gbind, (bind_hop_gbind st h _ _ Hl Hlab).
  destruct ec as [en cur]. cbn [fst snd].
  destruct (h_dir h) eqn:E; [rewrite (ostep_out st _ cur Hty)|rewrite (ostep_in st _ cur Hty)|congruence]; reflexivity.
Qed.
Lemma hop_step_perm st h ec :
  hop_core st h -> hop_noloop st h -> Permutation (obind_hop st h ec) (bind_hop st h (fst ec) (snd ec)).
Proof.
  intros (Hl & Hlab & Hty) Hn. rewrite obind_hop_gbind, (bind_hop_gbind st h _ _ Hl Hlab).
  destruct ec as [en cur]. cbn [fst snd]. unfold hop_noloop in Hn.
  destruct (h_dir h) eqn:E.
  - rewrite (ostep_out st _ cur Hty). apply Permutation_refl.
  - rewrite (ostep_in st _ cur Hty). apply Permutation_refl.
  - apply gbind_perm. apply ostep_both; assumption.
Qed.

Lemma obind_hops_eq st hs : forall acc,
  Forall (fun h => hop_core st h /\ h_dir h <> Both) hs -> obind_hops st hs acc = bind_hops st hs acc.
Proof.
  induction hs as [|h hs IH]; intros acc H; [reflexivity|].
  inversion H as [|? ? [Hc Hd] Hr]; subst. cbn [obind_hops bind_hops]. rewrite IH by exact Hr.
  f_equal. apply flat_map_ext_in. intros ec _. apply hop_step_eq; assumption.
Qed.
Lemma obind_hops_perm st hs : forall acc acc',
  Forall (fun h => hop_core st h /\ hop_noloop st h) hs -> Permutation acc acc' ->
  Permutation (obind_hops st hs acc) (bind_hops st hs acc').
Proof.
  induction hs as [|h hs IH]; intros acc acc' H Hp; [exact Hp|].
  inversion H as [|? ? [Hc Hn] Hr]; subst. cbn [obind_hops bind_hops]. apply IH; [exact Hr|].
  eapply Permutation_trans; [apply Permutation_flat_map; exact Hp|].
  apply Permutation_flat_map_pw. intros ec _. apply hop_step_perm; assumption.
Qed.

(** the boolean conditions of PatSpec give the per-hop conditions *)
Lemma hops_core_of st p :
  store_ok st -> single_hops p = true -> single_labels p = true -> no_type_case st p = true ->
  Forall (hop_core st) (p_hops p).
Proof.
  unfold single_hops, single_labels, no_type_case, pat_npats. cbn [forallb].
  intros Hok H1 H2 H3. apply andb_true_iff in H2. destruct H2 as [_ H2].
  rewrite forallb_forall in H1, H3. rewrite forallb_forall in H2.
  apply Forall_forall. intros h Hh. repeat split.
  - specialize (H1 h Hh). destruct (h_len h); [reflexivity|discriminate].
  - specialize (H2 (h_to h) (in_map h_to _ _ Hh)). apply Nat.leb_le. exact H2.
  - apply type_agree_of; [exact Hok|]. exact (H3 h Hh).
Qed.
Lemma start_filter_eq p n :
  single_labels p = true ->
  forallb (has_label n) (np_labels (p_start p)) = match np_labels (p_start p) with [] => true | l :: _ => has_label n l end.
Proof.
  unfold single_labels, pat_npats. cbn [forallb]. intros H. apply andb_true_iff in H. destruct H as [H _].
  destruct (np_labels (p_start p)) as [|l [|l' r]]; cbn [forallb List.length] in *; [reflexivity|apply andb_true_r|discriminate].
Qed.

Theorem obindings_directed st p :
  store_ok st -> single_hops p = true -> single_labels p = true -> no_type_case st p = true ->
  directed p = true -> obindings st p = bindings st p.
Proof.
  intros Hok H1 H2 H3 H4. unfold obindings, bindings. f_equal.
  rewrite (filter_ext_in' _ (fun n => forallb (has_label n) (np_labels (p_start p))))
    by (intros n _; symmetry; apply start_filter_eq; exact H2).
  apply obind_hops_eq.
  pose proof (hops_core_of st p Hok H1 H2 H3) as Hc.
  unfold directed in H4. rewrite forallb_forall in H4. rewrite Forall_forall in Hc |- *.
  intros h Hh. split; [apply Hc; exact Hh|]. specialize (H4 h Hh). destruct (h_dir h); congruence.
Qed.
Theorem obindings_perm st p :
  store_ok st -> single_hops p = true -> single_labels p = true -> no_type_case st p = true ->
  no_both_selfloop st p = true -> Permutation (obindings st p) (bindings st p).
Proof.
  intros Hok H1 H2 H3 H4. unfold obindings, bindings. apply Permutation_map.
  rewrite (filter_ext_in' _ (fun n => forallb (has_label n) (np_labels (p_start p))))
    by (intros n _; symmetry; apply start_filter_eq; exact H2).
  apply obind_hops_perm; [|apply Permutation_refl].
  pose proof (hops_core_of st p Hok H1 H2 H3) as Hc.
  unfold no_both_selfloop in H4. rewrite forallb_forall in H4. rewrite Forall_forall in Hc |- *.
  intros h Hh. split; [apply Hc; exact Hh|]. specialize (H4 h Hh). unfold hop_noloop.
  destruct (h_dir h); [exact I|exact I|exact H4].
Qed.

(** * The operators: Scan / Expand / hasLabel-Filter enumerate [obindings] *)
Lemma rmapM_flat {A B} (f : A -> res (list B)) (g : A -> list B) (l : list A) :
  (forall a, List.In a l -> f a = Ok (g a)) -> rmapM f l = Ok (flat_map g l).
Proof.
  induction l as [|a l IH]; intros H; [reflexivity|].
  cbn [rmapM flat_map]. rewrite (H a (or_introl eq_refl)). cbn [rbind].
  rewrite IH by (intros b Hb; apply H; right; exact Hb). reflexivity.
Qed.
Lemma pos_first_app_fresh x cs ec :
  existsb (String.eqb x) cs = false -> String.eqb x ec = false ->
  pos_first x (cs ++ [ec; x]) = Some (S (List.length cs)).
Proof.
  induction cs as [|c cs IH]; intros H1 H2.
  - cbn. rewrite H2, String.eqb_refl. reflexivity.
  - cbn [existsb] in H1. apply orb_false_iff in H1. destruct H1 as [H1 H1'].
    cbn [app pos_first List.length]. rewrite H1, (IH H1' H2). reflexivity.
Qed.
Lemma pos_first_app_l x cs ds i : pos_first x cs = Some i -> pos_first x (cs ++ ds) = Some i.
Proof.
  revert i. induction cs as [|c cs IH]; intros i H; [discriminate H|].
  cbn [app pos_first] in *. destruct (String.eqb x c); [exact H|].
  destruct (pos_first x cs) as [j|]; [|discriminate H]. rewrite (IH j eq_refl). exact H.
Qed.
Lemma pos_last_app_last x cs ec : pos_last x (cs ++ [ec; x]) = Some (S (List.length cs)).
Proof.
  induction cs as [|c cs IH].
  - cbn. rewrite String.eqb_refl. reflexivity.
  - cbn [app pos_last List.length]. rewrite IH. reflexivity.
Qed.
Lemma nth_error_app_len {A} (r : list A) a b : nth_error (r ++ [a; b]) (S (List.length r)) = Some b.
Proof. induction r as [|c r IH]; [reflexivity|exact IH]. Qed.
Lemma combine_app_eq {A B} (a1 a2 : list A) (b1 b2 : list B) :
  List.length a1 = List.length b1 -> combine (a1 ++ a2) (b1 ++ b2) = combine a1 b1 ++ combine a2 b2.
Proof.
  revert b1. induction a1 as [|x a1 IH]; intros [|y b1] H; try discriminate H; [reflexivity|].
  cbn. rewrite IH by (cbn in H; lia). reflexivity.
Qed.
Lemma row_env_app cs r ec to e n :
  List.length cs = List.length r ->
  row_env (cs ++ [ec; to]) (r ++ [CEdge e; CNode n])
  = row_env cs r ++ (if String.eqb ec anon then [] else [(ec, EEdge e)]) ++ (if String.eqb to anon then [] else [(to, ENode n)]).
Proof.
  intros H. unfold row_env. rewrite (combine_app_eq cs [ec; to] r [CEdge e; CNode n] H), flat_map_app.
  f_equal. cbn. destruct (String.eqb ec anon), (String.eqb to anon); reflexivity.
Qed.

Lemma filter_true {A} (l : list A) : filter (fun _ => true) l = l.
Proof. induction l as [|a l IH]; cbn; [reflexivity|rewrite IH; reflexivity]. Qed.

(** a table whose column [x] (found by [pos_first]) holds node ids in every row *)
Definition is_ent (c : cell) : Prop := match c with CVal _ => False | _ => True end.
Definition nonanon (c : string) : bool := negb (String.eqb c anon).
(** the shape of a chain table: full rows of entity cells, distinct column names (anonymous edge
    columns aside) *)
Definition wfc (t : tbl) : Prop :=
  NoDup (filter nonanon (cols t)) /\
  forall r, List.In r (rows t) -> List.length (cols t) = List.length r /\ Forall is_ent r.
Definition good (t : tbl) (x : string) (i : nat) : Prop :=
  pos_first x (cols t) = Some i /\
  forall r, List.In r (rows t) -> List.length (cols t) = List.length r /\ exists z, nth_error r i = Some (CNode z).
Definition cur_of (i : nat) (r : row) : Z := match nth_error r i with Some (CNode z) => z | _ => 0 end.
Definition abs (t : tbl) (i : nat) (r : row) : env * Z := (row_env (cols t) r, cur_of i r).

Lemma src_of_good t x i r : good t x i -> List.In r (rows t) -> src_of (cols t) x r = Ok (cur_of i r).
Proof.
  intros [Hp Hr] Hin. destruct (Hr r Hin) as [_ [z Hz]]. unfold src_of, cur_of. rewrite Hp. cbn [of_opt rbind].
  rewrite Hz. reflexivity.
Qed.

Definition hop_fresh (cs : list string) (h : hop) : Prop :=
  existsb (String.eqb (np_var (h_to h))) cs = false /\
  String.eqb (np_var (h_to h)) (edge_col (h_evar h)) = false /\
  String.eqb (np_var (h_to h)) anon = false /\
  match h_evar h with Some e => String.eqb e anon = false /\ existsb (String.eqb e) cs = false | None => True end.

Lemma expand_sem st t x i h :
  good t x i -> hop_fresh (cols t) h ->
  let t' := mkT (cols t ++ [edge_col (h_evar h); np_var (h_to h)])
                (flat_map (fun r => map (fun te => r ++ [CEdge (snd te); CNode (fst te)])
                                        (neighbors st true (cur_of i r) (h_dir h) (h_type h))) (rows t)) in
  expand_rows st true (cols t) x (h_dir h) (h_type h) (rows t) = Ok (rows t') /\
  good t' (np_var (h_to h)) (S (List.length (cols t))) /\
  map (abs t' (S (List.length (cols t)))) (rows t')
  = flat_map (fun ec => map (fun ef => (fst ec ++ (match h_evar h with Some r => [(r, EEdge (fst ef))] | None => [] end)
                                                ++ [(np_var (h_to h), ENode (snd ef))], snd ef))
                            (ostep st (h_dir h) (h_type h) (snd ec)))
             (map (abs t i) (rows t)).
Proof.
  intros Hg (Hf1 & Hf2 & Hf3 & Hf4) t'. split; [|split].
  - unfold expand_rows. apply rmapM_flat. intros r Hr. rewrite (src_of_good t x i r Hg Hr). reflexivity.
  - split.
    + cbn [cols t' mkT]. apply pos_first_app_fresh; assumption.
    + intros r' Hr'. cbn [rows t' mkT] in Hr'. apply in_flat_map in Hr'. destruct Hr' as (r & Hr & Hr').
      apply in_map_iff in Hr'. destruct Hr' as (te & <- & _).
      destruct Hg as [_ Hg]. destruct (Hg r Hr) as [Hlen _]. split.
      * cbn [cols t' mkT]. rewrite !app_length. cbn. lia.
      * exists (fst te). rewrite Hlen. apply nth_error_app_len.
  - cbn [rows t' mkT]. rewrite map_flat_map, flat_map_map. apply flat_map_ext_in. intros r Hr.
    unfold ostep. rewrite !map_map. apply map_ext. intros te. cbn [fst snd].
    destruct Hg as [_ Hg]. destruct (Hg r Hr) as [Hlen _].
    unfold abs at 1. cbn [cols t' mkT]. rewrite (row_env_app _ _ _ _ _ _ Hlen), Hf3. f_equal.
    + unfold abs. cbn [fst]. f_equal. f_equal.
      unfold edge_col. destruct (h_evar h) as [e|]; [destruct Hf4 as [Hf4 _]; rewrite Hf4; reflexivity|]. unfold anon. rewrite String.eqb_refl. reflexivity.
    + unfold cur_of. rewrite Hlen, nth_error_app_len. reflexivity.
Qed.

Lemma haslabel_passes st cs r ec to e n l :
  List.length cs = List.length r ->
  passes_row st (cs ++ [ec; to]) (r ++ [CEdge e; CNode n]) (EHasLabel to l)
  = match get_node st n with Some nd => has_label nd l | None => false end.
Proof.
  intros H. unfold passes_row, passes. cbn [eval]. unfold row_look. rewrite pos_last_app_last. cbn [obind].
  rewrite H, nth_error_app_len. cbn [obind cell_labels cell_node_id].
  destruct (get_node st n) as [nd|]; cbn [obind]; [|reflexivity].
  unfold has_label. destruct (existsb (String.eqb l) (nlabels nd)); reflexivity.
Qed.

Lemma NoDup_snoc {A} (l : list A) a : NoDup l -> ~ List.In a l -> NoDup (l ++ [a]).
Proof.
  induction l as [|b l IH]; intros Hn Hi; cbn; [constructor; [intros []|constructor]|].
  inversion Hn as [|? ? Hb Hl]; subst. constructor.
  - intro Hin. apply in_app_or in Hin. destruct Hin as [Hin|[->|[]]]; [exact (Hb Hin)|apply Hi; left; reflexivity].
  - apply IH; [exact Hl|]. intro Hin. apply Hi. right. exact Hin.
Qed.
Lemma existsb_eqb_false x cs : existsb (String.eqb x) cs = false -> ~ List.In x cs.
Proof.
  intros H Hin. assert (existsb (String.eqb x) cs = true); [|congruence].
  apply existsb_exists. exists x. split; [exact Hin|apply String.eqb_refl].
Qed.
Lemma expand_wfc st t i h :
  wfc t -> hop_fresh (cols t) h ->
  wfc (mkT (cols t ++ [edge_col (h_evar h); np_var (h_to h)])
           (flat_map (fun r => map (fun te => r ++ [CEdge (snd te); CNode (fst te)])
                                   (neighbors st true (cur_of i r) (h_dir h) (h_type h))) (rows t))).
Proof.
  intros [Hnd Hr] (Hf1 & Hf2 & Hf3 & Hf4). split.
  - cbn [cols mkT]. rewrite filter_app.
    assert (Hto : ~ List.In (np_var (h_to h)) (filter nonanon (cols t))).
    { intro Hin. apply filter_In in Hin. exact (existsb_eqb_false _ _ Hf1 (proj1 Hin)). }
    unfold edge_col in *. destruct (h_evar h) as [e|].
    + destruct Hf4 as [Hf4 Hf5].
      assert (Hfe : filter nonanon [e; np_var (h_to h)] = [e] ++ [np_var (h_to h)])
        by (cbn [filter]; unfold nonanon; rewrite Hf4, Hf3; reflexivity).
      rewrite Hfe.
      rewrite app_assoc. apply NoDup_snoc.
      * apply NoDup_snoc; [exact Hnd|]. intro Hin. apply filter_In in Hin. exact (existsb_eqb_false _ _ Hf5 (proj1 Hin)).
      * intro Hin. apply in_app_or in Hin. destruct Hin as [Hin|[Heq|[]]]; [exact (Hto Hin)|].
        rewrite Heq, String.eqb_refl in Hf2. discriminate Hf2.
    + assert (Hfe : filter nonanon ["_anon_edge"%string; np_var (h_to h)] = [np_var (h_to h)])
        by (cbn [filter]; unfold nonanon; rewrite Hf3; reflexivity).
      rewrite Hfe. apply NoDup_snoc; assumption.
  - intros r' Hr'. cbn [rows mkT] in Hr'. apply in_flat_map in Hr'. destruct Hr' as (r & Hin & Hr').
    apply in_map_iff in Hr'. destruct Hr' as (te & <- & _). destruct (Hr r Hin) as [Hl He]. split.
    + cbn [cols mkT]. rewrite !app_length. cbn. lia.
    + apply Forall_app. split; [exact He|]. repeat constructor.
Qed.
Lemma filter_wfc keep t : wfc t -> wfc (filter_tbl keep t).
Proof.
  intros [Hnd Hr]. split; [exact Hnd|]. intros r Hin. cbn [filter_tbl rows mkT] in Hin. apply filter_In in Hin.
  apply Hr. apply Hin.
Qed.

Lemma sem_ops_filter st e i :
  sem_ops st (LFilter e i) = (do t <- sem_ops st i; Ok (filter_tbl (fun r => passes_row st (cols t) r e) t)).
Proof. reflexivity. Qed.

Lemma hop_sem st h x i input t :
  sem_ops st input = Ok t -> good t x i -> wfc t -> h_len h = HOne -> hop_fresh (cols t) h ->
  exists t', sem_ops st (hop_plan x h input) = Ok t' /\
             cols t' = cols t ++ [edge_col (h_evar h); np_var (h_to h)] /\
             good t' (np_var (h_to h)) (S (List.length (cols t))) /\ wfc t' /\
             map (abs t' (S (List.length (cols t)))) (rows t') = flat_map (obind_hop st h) (map (abs t i) (rows t)).
Proof.
  intros Hs Hg Hw Hl Hf.
  pose proof (expand_wfc st t i h Hw Hf) as Hw'.
  destruct (expand_sem st t x i h Hg Hf) as (He & Hg' & Habs).
  set (t1 := mkT (cols t ++ [edge_col (h_evar h); np_var (h_to h)])
                 (flat_map (fun r => map (fun te => r ++ [CEdge (snd te); CNode (fst te)])
                                         (neighbors st true (cur_of i r) (h_dir h) (h_type h))) (rows t))) in *.
  assert (Hex : sem_ops st (LExpand x (np_var (h_to h)) (h_evar h) (h_dir h) (h_type h) 1 (Some 1%nat) input) = Ok t1).
  { cbn [sem_ops]. rewrite Hs. cbn [rbind]. destruct Hg as [Hp _]. rewrite Hp. cbn [of_opt rbind is_single_hop].
    rewrite He. reflexivity. }
  unfold hop_plan. rewrite Hl.
  destruct (np_labels (h_to h)) as [|l ls] eqn:Elab.
  - exists t1. split; [exact Hex|]. split; [reflexivity|]. split; [exact Hg'|]. split; [exact Hw'|].
    rewrite Habs. apply flat_map_ext_in. intros ec _. unfold obind_hop.
    rewrite (filter_ext_in' _ (fun _ => true)); [|intros a _; unfold first_label_ok; rewrite Elab; reflexivity].
    rewrite filter_true. reflexivity.
  - set (keep := fun r => passes_row st (cols t1) r (EHasLabel (np_var (h_to h)) l)).
    exists (filter_tbl keep t1). split; [rewrite sem_ops_filter, Hex; reflexivity|].
    split; [reflexivity|]. split; [|split; [apply filter_wfc; exact Hw'|]].
    + destruct Hg' as [Hp Hr]. split; [exact Hp|]. intros r Hr'. cbn [filter_tbl rows mkT] in Hr'.
      apply filter_In in Hr'. apply Hr. apply Hr'.
    + cbn [filter_tbl rows mkT cols]. 
      (* filter commutes with the abstraction *)
      assert (Hk : forall r, List.In r (rows t1) ->
                   keep r = first_label_ok st (h_to h) (snd (abs t1 (S (List.length (cols t))) r))).
      { intros r' Hr'. cbn [rows t1 mkT] in Hr'. apply in_flat_map in Hr'. destruct Hr' as (r & Hr & Hr').
        apply in_map_iff in Hr'. destruct Hr' as (te & <- & _).
        destruct Hg as [_ Hg]. destruct (Hg r Hr) as [Hlen _].
        unfold keep. cbn [cols t1 mkT]. rewrite (haslabel_passes st _ _ _ _ _ _ l Hlen).
        unfold abs, cur_of. cbn [snd]. rewrite Hlen, nth_error_app_len.
        unfold first_label_ok. rewrite Elab. reflexivity. }
      transitivity (filter (fun ec => first_label_ok st (h_to h) (snd ec)) (map (abs t1 (S (List.length (cols t)))) (rows t1))).
      * rewrite filter_map_comm. f_equal. apply filter_ext_in'. exact Hk.
      * rewrite Habs, filter_flat_map. apply flat_map_ext_in. intros ec _. unfold obind_hop.
        rewrite filter_map_comm. reflexivity.
Qed.

Lemma hops_fresh_cons cs h r :
  hops_fresh cs (h :: r) = true ->
  hop_fresh cs h /\ hops_fresh (cs ++ [edge_col (h_evar h); np_var (h_to h)]) r = true.
Proof.
  cbn [hops_fresh]. intros H.
  repeat (apply andb_true_iff in H; destruct H as [H ?]).
  repeat match goal with Hn : negb _ = true |- _ => apply negb_true_iff in Hn end.
  split; [|assumption]. unfold hop_fresh. repeat split; try assumption.
  destruct (h_evar h); [|exact I].
  match goal with Hx : (_ && _)%bool = true |- _ => apply andb_true_iff in Hx; destruct Hx as [Hx Hy]; apply negb_true_iff in Hx, Hy; split; assumption end.
Qed.

Lemma hops_sem st hs : forall x i input t,
  sem_ops st input = Ok t -> good t x i -> wfc t ->
  Forall (fun h => h_len h = HOne) hs -> hops_fresh (cols t) hs = true ->
  exists t' x' i', sem_ops st (hops_plan x hs input) = Ok t' /\ good t' x' i' /\ wfc t' /\
                   cols t' = cols t ++ flat_map (fun h => [edge_col (h_evar h); np_var (h_to h)]) hs /\
                   map (abs t' i') (rows t') = obind_hops st hs (map (abs t i) (rows t)).
Proof.
  induction hs as [|h hs IH]; intros x i input t Hs Hg Hw Hl Hf.
  - exists t, x, i. split; [exact Hs|split; [exact Hg|split; [exact Hw|split; [cbn; rewrite app_nil_r; reflexivity|reflexivity]]]].
  - inversion Hl as [|? ? Hl1 Hl2]; subst.
    destruct (hops_fresh_cons _ _ _ Hf) as [Hf1 Hf2].
    destruct (hop_sem st h x i input t Hs Hg Hw Hl1 Hf1) as (t1 & Hs1 & Hc1 & Hg1 & Hw1 & Ha1).
    rewrite <- Hc1 in Hf2.
    destruct (IH (np_var (h_to h)) (S (List.length (cols t))) (hop_plan x h input) t1 Hs1 Hg1 Hw1 Hl2 Hf2)
      as (t' & x' & i' & Hs' & Hg' & Hw' & Hc' & Ha').
    exists t', x', i'. split; [exact Hs'|]. split; [exact Hg'|]. split; [exact Hw'|].
    split; [rewrite Hc', Hc1; cbn [flat_map]; rewrite <- app_assoc; reflexivity|].
    cbn [obind_hops]. rewrite <- Ha1. exact Ha'.
Qed.

Lemma single_hops_forall p : single_hops p = true -> Forall (fun h => h_len h = HOne) (p_hops p).
Proof.
  unfold single_hops. intros H. rewrite forallb_forall in H. apply Forall_forall. intros h Hh.
  specialize (H h Hh). destruct (h_len h); [reflexivity|discriminate].
Qed.

(** the operators enumerate the operational bindings, in order — no exclusion of any defect class *)
Lemma chain_obindings_wfc st p :
  single_hops p = true -> pat_fresh p = true ->
  exists t, sem_ops st (chain_plan p) = Ok t /\ wfc t /\
            cols t = np_var (p_start p) :: flat_map (fun h => [edge_col (h_evar h); np_var (h_to h)]) (p_hops p) /\
            tbl_envs t = obindings st p.
Proof.
  intros H1 Hf. unfold pat_fresh in Hf. apply andb_true_iff in Hf. destruct Hf as [Hx Hf].
  apply negb_true_iff in Hx.
  set (x := np_var (p_start p)) in *.
  set (label := match np_labels (p_start p) with [] => None | l :: _ => Some l end).
  set (t0 := mkT [x] (scan_rows st label)).
  assert (Hg0 : good t0 x 0).
  { split; [cbn; rewrite String.eqb_refl; reflexivity|].
    intros r Hr. cbn [rows t0 mkT] in Hr. unfold scan_rows in Hr. apply in_map_iff in Hr.
    destruct Hr as (n & <- & _). split; [reflexivity|]. exists (nid n). reflexivity. }
  assert (Hw0 : wfc t0).
  { split.
    - cbn. unfold nonanon. rewrite Hx. cbn. constructor; [intros []|constructor].
    - intros r Hr. cbn [rows t0 mkT] in Hr. unfold scan_rows in Hr. apply in_map_iff in Hr.
      destruct Hr as (n & <- & _). split; [reflexivity|]. repeat constructor. }
  destruct (hops_sem st (p_hops p) x 0%nat (LScan x label) t0 eq_refl Hg0 Hw0 (single_hops_forall p H1) Hf)
    as (t' & x' & i' & Hs' & Hg' & Hw' & Hc' & Ha').
  exists t'. split; [exact Hs'|]. split; [exact Hw'|]. split; [exact Hc'|].
  unfold tbl_envs, obindings.
  transitivity (map fst (map (abs t' i') (rows t'))); [rewrite map_map; reflexivity|].
  rewrite Ha'. f_equal. f_equal.
  cbn [rows t0 mkT]. unfold scan_rows. rewrite map_map.
  rewrite (filter_ext_in' (fun n => match np_labels (p_start p) with [] => true | l :: _ => has_label n l end)
                          (fun n => match label with None => true | Some l => has_label n l end)).
  2:{ intros n _. unfold label. destruct (np_labels (p_start p)); reflexivity. }
  apply map_ext. intros n. unfold abs, row_env, cur_of. cbn. fold x. rewrite Hx. reflexivity.
Qed.

Theorem chain_obindings st p :
  single_hops p = true -> pat_fresh p = true ->
  exists t, sem_ops st (chain_plan p) = Ok t /\ tbl_envs t = obindings st p.
Proof.
  intros H1 Hf. destruct (chain_obindings_wfc st p H1 Hf) as (t & Hs & _ & _ & He). exists t. split; assumption.
Qed.

Theorem chain_bindings_directed_l st p :
  store_ok st -> single_hops p = true -> single_labels p = true -> pat_fresh p = true ->
  no_type_case st p = true -> directed p = true ->
  exists t, sem_ops st (chain_plan p) = Ok t /\ tbl_envs t = bindings st p.
Proof.
  intros Hok H1 H2 Hf H3 H4. destruct (chain_obindings st p H1 Hf) as (t & Hs & He).
  exists t. split; [exact Hs|]. rewrite He. apply obindings_directed; assumption.
Qed.
Theorem chain_bindings_l st p :
  store_ok st -> single_hops p = true -> single_labels p = true -> pat_fresh p = true ->
  no_type_case st p = true -> no_both_selfloop st p = true ->
  exists t, sem_ops st (chain_plan p) = Ok t /\ Permutation (tbl_envs t) (bindings st p).
Proof.
  intros Hok H1 H2 Hf H3 H4. destruct (chain_obindings st p H1 Hf) as (t & Hs & He).
  exists t. split; [exact Hs|]. rewrite He. apply obindings_perm; assumption.
Qed.

(** * Refutations: the defect classes are real (witnesses are also in the harness corpus) *)
Local Open Scope string_scope.
Definition nd (i : Z) (ls : list string) (ps : list (string * val)) : node := mkNode i ls ps.
Definition ed (i s d : Z) (t : string) (ps : list (string * val)) : edge := mkEdge i s d t ps.
Definition st_of (ns : list node) (es : list edge) : store := mkStore ns es [] [].
Definition hop1 (d : dir) (ty : option string) (ev : option string) (to : string) : hop := mkHop d ty ev HOne (mkNP to []).
Definition q_plain (p : pattern) (items : list lexpr) : query := mkQ p None (RPlain items false) [] None None.

Definition w_k2_st := st_of [nd 0 ["A"] [("u", VInt 100)]; nd 1 ["A"] [("u", VInt 101)]] [ed 0 0 1 "KNOWS" [("eu", VInt 500)]].
Definition w_k2_q := q_plain (mkPat (mkNP "a" []) [hop1 Out (Some "knows") (Some "r") "b"]) [EVar "a"; EVar "r"; EVar "b"].
Lemma type_case_refuted_l : exists st q,
  k2_type_case st q = true /\ plan_rows st (gql_plan_of q) <> answer st q /\ plan_rows st (cypher_plan_of q) <> answer st q.
Proof. exists w_k2_st, w_k2_q. split; [reflexivity|]. split; intro H; vm_compute in H; discriminate H. Qed.

Definition w_k3_st := st_of [nd 0 ["A"] [("u", VInt 100)]] [ed 0 0 0 "R" [("eu", VInt 500)]].
Definition w_k3_q := q_plain (mkPat (mkNP "a" []) [hop1 Both None (Some "r") "b"]) [EVar "a"; EVar "r"; EVar "b"].
Lemma both_selfloop_refuted_l : exists st q,
  k3_both_selfloop st q = true /\ plan_rows st (gql_plan_of q) <> answer st q /\ plan_rows st (cypher_plan_of q) <> answer st q.
Proof. exists w_k3_st, w_k3_q. split; [reflexivity|]. split; intro H; vm_compute in H; discriminate H. Qed.

Definition w_chain_st (n : nat) : store :=
  st_of (map (fun i => nd (Z.of_nat i) ["N"] [("u", VInt (100 + Z.of_nat i))]) (seq 0 n))
        (map (fun i => ed (Z.of_nat i) (Z.of_nat i) (Z.of_nat i + 1) "NEXT" [("eu", VInt (500 + Z.of_nat i))]) (seq 0 (n - 1))).
Definition w_k1_q := q_plain (mkPat (mkNP "a" []) [mkHop Out (Some "NEXT") None (HVar 1 None) (mkNP "b" [])]) [EVar "a"; EVar "b"].
(** Cypher keeps "no maximum" and the planner turns it into min+10; the GQL translator drops the
    star altogether (its plan is the single-hop one) *)
Definition w_k1_gql_plan : lop :=
  LReturn (ret_items [EVar "a"; EVar "b"]) false (LExpand "a" "b" None Out (Some "NEXT") 1 (Some 1%nat) (LScan "a" None)).
Lemma unbounded_refuted_l : exists st q,
  k1_unbounded q = true /\ plan_rows st (cypher_plan_of q) <> answer st q /\ plan_rows st w_k1_gql_plan <> answer st q.
Proof. exists (w_chain_st 14), w_k1_q. split; [reflexivity|]. split; intro H; vm_compute in H; discriminate H. Qed.

Definition w_k4_q := q_plain (mkPat (mkNP "a" []) [mkHop Out (Some "NEXT") None (HVar 0 (Some 1%nat)) (mkNP "b" [])]) [EVar "a"; EVar "b"].
Lemma zero_hops_refuted_l : exists st q,
  k4_zero_hops q = true /\ plan_rows st (gql_plan_of q) <> answer st q /\ plan_rows st (cypher_plan_of q) <> answer st q.
Proof. exists (w_chain_st 3), w_k4_q. split; [reflexivity|]. split; intro H; vm_compute in H; discriminate H. Qed.

Definition w_small_st := st_of
  [nd 0 ["A"] [("u", VInt 100); ("w", VInt 70)]; nd 1 ["A"; "B"] [("u", VInt 101); ("w", VInt 71)]; nd 2 ["B"] [("u", VInt 102)]]
  [ed 0 0 1 "R" [("eu", VInt 500); ("w", VInt 1)]; ed 1 0 2 "R" [("eu", VInt 501); ("w", VInt 2)]; ed 2 1 2 "R" [("eu", VInt 502); ("w", VInt 3)]].
Definition w_base_pat := mkPat (mkNP "a" []) [hop1 Out (Some "R") (Some "r") "b"].
Definition w_k5_q := mkQ w_base_pat None (RPlain [EVar "a"] true) [] None None.
(** repaired by 36a1196: before it the plan behaved as with the DISTINCT flag cleared *)
Lemma return_distinct_pre_refuted_l : exists st q,
  k5_return_distinct q = true /\ plan_rows st (clear_distinct (gql_plan_of q)) <> answer st q /\
  plan_rows st (gql_plan_of q) = answer st q /\ plan_rows st (cypher_plan_of q) = answer st q.
Proof. exists w_small_st, w_k5_q. split; [reflexivity|]. split; [intro H; vm_compute in H; discriminate H|]. split; reflexivity. Qed.

Definition w_k6_q := mkQ w_base_pat None (RPlain [EProp "a" "u"; EVar "b"] false)
                         [OEnv (EProp "a" "u") true; OEnv (EProp "r" "eu") true] None (Some 1%nat).
(** repaired by ce12a2a: SKIP/LIMIT used to be applied before ORDER BY *)
Lemma gql_limit_before_order_pre_refuted_l : exists st q,
  k6_gql_limit_first_pre LGql q = true /\ plan_rows st (gql_plan_pre_of q) <> answer st q /\ plan_rows st (gql_plan_of q) = answer st q.
Proof. exists w_small_st, w_k6_q. split; [reflexivity|]. split; [intro H; vm_compute in H; discriminate H|reflexivity]. Qed.
(** repaired by cc624f1: GQL applied SKIP/LIMIT below RETURN, i.e. before DISTINCT *)
Definition w_k6d_q := mkQ w_base_pat None (RPlain [EVar "a"] true) [] None (Some 2%nat).
Lemma gql_limit_before_distinct_pre_refuted_l : exists st q,
  k6_gql_limit_first LGql q = true /\ plan_rows st (gql_plan_pre_distinct_of q) <> answer st q /\
  plan_rows st (gql_plan_of q) = answer st q /\ plan_rows st (cypher_plan_of q) = answer st q.
Proof. exists w_small_st, w_k6d_q. split; [reflexivity|]. split; [intro H; vm_compute in H; discriminate H|]. split; reflexivity. Qed.

Definition w_k7_q := q_plain (mkPat (mkNP "a" ["A"; "B"]) []) [EVar "a"].
Lemma multi_label_refuted_l : exists st q,
  k7_multi_label q = true /\ plan_rows st (gql_plan_of q) <> answer st q /\ plan_rows st (cypher_plan_of q) <> answer st q.
Proof. exists w_small_st, w_k7_q. split; [reflexivity|]. split; intro H; vm_compute in H; discriminate H. Qed.

Definition w_k9_q := mkQ (mkPat (mkNP "a" ["A"]) []) None (RPlain [EVar "a"] false) [OEnv (EProp "a" "u") false] None None.
Lemma cypher_order_above_return_refuted_l : exists st q,
  k9_cypher_order_cols LCypher q = true /\ plan_rows st (cypher_plan_of q) <> answer st q /\ plan_rows st (gql_plan_of q) = answer st q.
Proof. exists w_small_st, w_k9_q. split; [reflexivity|]. split; [intro H; vm_compute in H; discriminate H|reflexivity]. Qed.

Definition w_k10_q := mkQ w_base_pat None (RPlain [EProp "r" "w"] false)
                          [OEnv (EProp "a" "u") false; OEnv (EProp "r" "eu") false] None None.
Lemma edge_prop_after_sort_refuted_l : exists st q,
  k10_edge_prop_materialised q = true /\ plan_rows st (gql_plan_of q) <> answer st q.
Proof. exists w_small_st, w_k10_q. split; [reflexivity|]. intro H; vm_compute in H; discriminate H. Qed.

Definition w_agg_st := st_of
  [nd 0 ["A"] [("u", VInt 100); ("x", VStr "b"); ("y", VInt 5)]; nd 1 ["A"] [("u", VInt 101); ("x", VStr "a")];
   nd 2 ["B"] [("u", VInt 102); ("x", VFlt 1 1); ("y", VInt 9)]]
  [ed 0 0 1 "R" [("eu", VInt 500); ("w", VInt 1)]; ed 1 1 2 "R" [("eu", VInt 501); ("w", VInt 2)]].
Definition w_single := mkPat (mkNP "a" ["A"]) [].
Definition w_k12_q := mkQ w_single None (RAgg [] [mkAgg ACountNN (Some (EProp "a" "y")) false None]) [] None None.
(** repaired by a5bb467: the Cypher translator emitted Count (count-star semantics) where GQL emits CountNonNull *)
Lemma cypher_count_pre_refuted_l : exists st q,
  k12_cypher_count LCypher q = true /\ plan_rows st (cypher_plan_pre_of q) <> answer st q /\
  plan_rows st (cypher_plan_of q) = answer st q /\ plan_rows st (gql_plan_of q) = answer st q.
Proof. exists w_agg_st, w_k12_q. split; [reflexivity|]. split; [intro H; vm_compute in H; discriminate H|]. split; reflexivity. Qed.

Definition w_k13_q := mkQ w_single None (RAgg [] [mkAgg AMin (Some (EProp "a" "x")) false None]) [] None None.
(** repaired by 41c4655 + dfd360c: the typed result vectors turned a string minimum into 0 *)
Lemma typed_result_pre_refuted_l : exists st q rs,
  k13_typed_result st q = true /\ answer st q = Ok rs /\
  map (map cell_val) (typed_rows_pre [agg_coltype_pre (mkAgg AMin (Some (EProp "a" "x")) false None)] (map (map CVal) rs)) <> rs /\
  plan_rows st (gql_plan_of q) = answer st q /\ plan_rows st (cypher_plan_of q) = answer st q.
Proof.
  exists w_agg_st, w_k13_q, [[VStr "a"]]. split; [reflexivity|]. split; [reflexivity|].
  split; [intro H; vm_compute in H; discriminate H|]. split; reflexivity.
Qed.

(** Gremlin g.V().out('R').dedup(): Distinct over the whole path, then the projection *)
Definition w_k14_q := mkQ (mkPat (mkNP "_v0" []) [hop1 Out (Some "R") None "_v1"]) None (RPlain [EVar "_v1"] true) [] None None.
Definition w_k14_gremlin_plan : lop :=
  LReturn [(EVar "_v1", None)] false (LDistinct (LExpand "_v0" "_v1" None Out (Some "R") 1 (Some 1%nat) (LScan "_v0" None))).
Lemma gremlin_dedup_refuted_l : exists st q,
  k14_gremlin_dedup LGremlin q = true /\ plan_rows st w_k14_gremlin_plan <> answer st q /\ plan_rows st (gql_plan_of q) = answer st q.
Proof. exists w_small_st, w_k14_q. split; [reflexivity|]. split; [intro H; vm_compute in H; discriminate H|reflexivity]. Qed.

(** the pre-df57ccb FilterOperator: a filter stacked on a filter resurrects rows the inner one removed *)
Lemma filter_stack_pre_refuted_l : exists (rows : list row) (p1 p2 : row -> bool),
  chunk_pre_rows (filter_chunk_pre p2 (filter_chunk_pre p1 (mkChunkPre rows None)))
  <> filter (fun r => p1 r && p2 r) rows.
Proof.
  exists [[CNode 0]; [CNode 1]],
         (fun r => match r with [CNode 1] => true | _ => false end),
         (fun r => match r with [CNode 0] => true | _ => false end).
  intro H. vm_compute in H. discriminate H.
Qed.
(** the repaired operator composes *)
Lemma filter_stack_l : forall t p1 p2,
  rows (filter_tbl p2 (filter_tbl p1 t)) = filter (fun r => p1 r && p2 r) (rows t).
Proof. intros t p1 p2. cbn [filter_tbl rows mkT cols]. apply filter_filter. Qed.
Local Close Scope string_scope.

(** * Expressions over a chain row read what the declarative semantics reads *)
Definition ent_of (c : cell) : ent := match c with CNode i => ENode i | CEdge i => EEdge i | CVal _ => ENode 0 end.
Lemma cell_ent_of c : is_ent c -> cell_ent c = Some (ent_of c).
Proof. destruct c; cbn; intros H; [reflexivity|reflexivity|destruct H]. Qed.

Section EvalAgree.
  Context {E1 E2 : Type}.
  Variables (look1 : string -> option E1) (val1 : E1 -> val) (prop1 : E1 -> string -> option val) (lab1 : E1 -> option (list string)).
  Variables (look2 : string -> option E2) (val2 : E2 -> val) (prop2 : E2 -> string -> option val) (lab2 : E2 -> option (list string)).
  Definition ent_rel (o1 : option E1) (o2 : option E2) : Prop :=
    match o1, o2 with
    | Some a, Some b => val1 a = val2 b /\ (forall k, prop1 a k = prop2 b k) /\ lab1 a = lab2 b
    | None, None => True
    | _, _ => False
    end.
  Lemma eval_agree e :
    (forall x, List.In x (expr_vars e) -> ent_rel (look1 x) (look2 x)) ->
    eval look1 val1 prop1 lab1 e = eval look2 val2 prop2 lab2 e.
  Proof.
    induction e as [v|x|x k|op a IHa b IHb|a IHa b IHb|a IHa b IHb|a IHa|a IHa|a IHa|x l|l x]; intros H; cbn [eval expr_vars] in *.
    - reflexivity.
    - specialize (H x (or_introl eq_refl)). unfold ent_rel in H.
      destruct (look1 x), (look2 x); cbn [obind]; try contradiction; [destruct H as (-> & _); reflexivity|reflexivity].
    - specialize (H x (or_introl eq_refl)). unfold ent_rel in H.
      destruct (look1 x), (look2 x); cbn [obind]; try contradiction; [destruct H as (_ & H & _); apply H|reflexivity].
    - rewrite IHa, IHb; [reflexivity| |]; intros y Hy; apply H; apply in_or_app; auto.
    - rewrite IHa, IHb; [reflexivity| |]; intros y Hy; apply H; apply in_or_app; auto.
    - rewrite IHa, IHb; [reflexivity| |]; intros y Hy; apply H; apply in_or_app; auto.
    - rewrite IHa; [reflexivity|exact H].
    - rewrite IHa; [reflexivity|exact H].
    - rewrite IHa; [reflexivity|exact H].
    - specialize (H x (or_introl eq_refl)). unfold ent_rel in H.
      destruct (look1 x), (look2 x); cbn [obind]; try contradiction; [destruct H as (_ & _ & ->); reflexivity|reflexivity].
    - specialize (H x (or_introl eq_refl)). unfold ent_rel in H.
      destruct (look1 x), (look2 x); cbn [obind]; try contradiction; [destruct H as (_ & _ & ->); reflexivity|reflexivity].
  Qed.
End EvalAgree.

Lemma pos_last_none x cs : ~ List.In x cs -> pos_last x cs = None.
Proof.
  induction cs as [|c cs IH]; intros H; [reflexivity|]. cbn [pos_last].
  rewrite IH by (intro Hi; apply H; right; exact Hi).
  destruct (String.eqb x c) eqn:E; [|reflexivity]. apply String.eqb_eq in E. exfalso. apply H. left. symmetry. exact E.
Qed.
Lemma nonanon_true x : String.eqb x anon = false -> nonanon x = true.
Proof. intros H. unfold nonanon. rewrite H. reflexivity. Qed.

(** the cell a variable names in a chain row, and the entity the row's binding gives it *)
Lemma look_agree x : String.eqb x anon = false -> forall cs r,
  List.length cs = List.length r -> Forall is_ent r -> NoDup (filter nonanon cs) ->
  option_map ent_of (row_look cs r x) = lookup x (row_env cs r).
Proof.
  intros Hx. induction cs as [|c cs IH]; intros [|cl r] Hl He Hn; try discriminate Hl; [reflexivity|].
  inversion He as [|? ? He1 He2]; subst. cbn in Hl.
  assert (Hn' : NoDup (filter nonanon cs)).
  { cbn [filter] in Hn. destruct (nonanon c); [inversion Hn; assumption|exact Hn]. }
  specialize (IH r (eq_add_S _ _ Hl) He2 Hn').
  unfold row_look in *. cbn [pos_last]. unfold row_env in *. cbn [combine flat_map fst snd].
  destruct (pos_last x cs) as [i|] eqn:Ep.
  - (* x occurs later: then c <> x *)
    cbn [obind nth_error]. cbn [obind] in IH.
    assert (Hcx : String.eqb x c = false).
    { destruct (String.eqb x c) eqn:E; [|reflexivity]. apply String.eqb_eq in E. subst c.
      cbn [filter] in Hn. rewrite (nonanon_true x Hx) in Hn. inversion Hn as [|? ? Hni _]; subst.
      exfalso. apply Hni. apply filter_In. split; [|apply nonanon_true; exact Hx].
      clear -Ep. revert i Ep. induction cs as [|d cs IHc]; intros i Ep; [discriminate Ep|].
      cbn [pos_last] in Ep. destruct (pos_last x cs) as [j|] eqn:Ej; [right; eapply IHc; reflexivity|].
      destruct (String.eqb x d) eqn:Ed; [|discriminate Ep]. left. apply String.eqb_eq in Ed. symmetry. exact Ed. }
    destruct (String.eqb c anon); cbn [app].
    + exact IH.
    + rewrite (cell_ent_of cl He1). cbn [app lookup]. rewrite Hcx. exact IH.
  - cbn [obind] in IH. destruct (String.eqb x c) eqn:E.
    + apply String.eqb_eq in E. subst c. cbn [obind nth_error option_map]. rewrite Hx.
      rewrite (cell_ent_of cl He1). cbn [app lookup]. rewrite String.eqb_refl. reflexivity.
    + cbn [obind option_map]. destruct (String.eqb c anon); cbn [app]; [exact IH|].
      rewrite (cell_ent_of cl He1). cbn [app lookup]. rewrite E. exact IH.
Qed.

Lemma fprop_ent st c k : is_ent c -> fprop st c k = ent_prop st (ent_of c) k.
Proof.
  destruct c as [i|i|v]; intros H; [| |destruct H]; unfold fprop; cbn [cell_node_id cell_edge_id ent_of ent_prop obind].
  - destruct (get_node st i); reflexivity.
  - destruct (get_edge st i); reflexivity.
Qed.
Lemma cell_labels_ent st c : is_ent c -> cell_labels st c = ent_labels st (ent_of c).
Proof. destruct c as [i|i|v]; intros H; [| |destruct H]; reflexivity. Qed.
Lemma cell_val_ent c : is_ent c -> cell_val c = ent_val (ent_of c).
Proof. destruct c as [i|i|v]; intros H; [| |destruct H]; reflexivity. Qed.

Lemma row_look_ent cs r x c : Forall is_ent r -> row_look cs r x = Some c -> is_ent c.
Proof.
  intros He H. unfold row_look in H. destruct (pos_last x cs) as [i|]; [|discriminate H]. cbn [obind] in H.
  apply nth_error_In in H. rewrite Forall_forall in He. apply He. exact H.
Qed.
Lemma eval_row_env st cs r e :
  List.length cs = List.length r -> Forall is_ent r -> NoDup (filter nonanon cs) ->
  (forall x, List.In x (expr_vars e) -> String.eqb x anon = false) ->
  eval_row st cs r e = eval_env st (row_env cs r) e.
Proof.
  intros Hl He Hn Hv. unfold eval_row, eval_env. apply eval_agree. intros x Hx.
  pose proof (look_agree x (Hv x Hx) cs r Hl He Hn) as Hla. unfold ent_rel.
  destruct (row_look cs r x) as [c|] eqn:Er; cbn [option_map] in Hla; rewrite <- Hla; [|exact I].
  pose proof (row_look_ent cs r x c He Er) as Hc.
  split; [apply cell_val_ent; exact Hc|]. split; [intros k; apply fprop_ent; exact Hc|apply cell_labels_ent; exact Hc].
Qed.

(** WHERE *)
Lemma where_sem st w t :
  wfc t -> (forall x, List.In x (expr_vars w) -> String.eqb x anon = false) ->
  let t' := filter_tbl (fun r => passes_row st (cols t) r w) t in
  wfc t' /\ tbl_envs t' = spec_where st (Some w) (tbl_envs t).
Proof.
  intros Hw Hv t'. split; [apply filter_wfc; exact Hw|].
  unfold tbl_envs, spec_where. cbn [t' filter_tbl rows cols mkT]. rewrite filter_map_comm. f_equal.
  apply filter_ext_in'. intros r Hr. destruct Hw as [Hn Hrows]. destruct (Hrows r Hr) as [Hl He].
  unfold passes_row, passes_env, passes.
  change (eval (row_look (cols t) r) cell_val (fprop st) (cell_labels st) w) with (eval_row st (cols t) r w).
  change (eval (fun x => lookup x (row_env (cols t) r)) ent_val (ent_prop st) (ent_labels st) w) with (eval_env st (row_env (cols t) r) w).
  rewrite (eval_row_env st (cols t) r w Hl He Hn Hv). reflexivity.
Qed.

(** * RETURN of core items *)
Lemma mapM_map {A B} (f : A -> res B) (g : A -> B) (l : list A) :
  (forall a, List.In a l -> f a = Ok (g a)) -> mapM f l = Ok (map g l).
Proof.
  induction l as [|a l IH]; intros H; [reflexivity|]. cbn [mapM map].
  rewrite (H a (or_introl eq_refl)). cbn [rbind]. rewrite IH by (intros b Hb; apply H; right; exact Hb). reflexivity.
Qed.
Lemma pos_last_some x cs : List.In x cs -> exists i, pos_last x cs = Some i /\ (i < List.length cs)%nat.
Proof.
  induction cs as [|c cs IH]; intros H; [destruct H|]. cbn [pos_last List.length].
  destruct (in_dec string_dec x cs) as [Hi|Hn].
  - destruct (IH Hi) as (i & Hi1 & Hi2). rewrite Hi1. exists (S i). split; [reflexivity|lia].
  - rewrite (pos_last_none x cs Hn). destruct H as [->|H]; [|contradiction].
    rewrite String.eqb_refl. exists 0%nat. split; [reflexivity|lia].
Qed.
Lemma nth_error_lt {A} (l : list A) i : (i < List.length l)%nat -> exists a, nth_error l i = Some a.
Proof. intros H. destruct (nth_error l i) eqn:E; [eauto|]. apply nth_error_None in E. lia. Qed.

(** the cell of a column, total *)
Definition col_cell (cs : list string) (r : row) (x : string) : cell :=
  match row_look cs r x with Some c => c | None => CVal VNull end.
Definition ival (st : store) (cs : list string) (r : row) (e : lexpr) : val :=
  match e with
  | EVar x => cell_val (col_cell cs r x)
  | EProp x k => pprop st (col_cell cs r x) k
  | ELit v => v
  | _ => VNull
  end.
Lemma row_look_in cs r x : List.In x cs -> List.length cs = List.length r -> exists c, row_look cs r x = Some c.
Proof.
  intros Hi Hl. destruct (pos_last_some x cs Hi) as (i & Hp & Hlt). unfold row_look. rewrite Hp. cbn [obind].
  apply nth_error_lt. lia.
Qed.
Lemma pprop_ent st c k : is_ent c ->
  pprop st c k = match ent_prop st (ent_of c) k with Some v => v | None => VNull end.
Proof.
  destruct c as [i|i|v]; intros H; [| |destruct H]; unfold pprop; cbn [cell_node_id cell_edge_id ent_of ent_prop obind].
  - destruct (get_node st i); reflexivity.
  - destruct (get_edge st i); reflexivity.
Qed.
Lemma ival_item_val st cs r e :
  List.length cs = List.length r -> Forall is_ent r -> NoDup (filter nonanon cs) ->
  core_item (filter nonanon cs) e = true ->
  ival st cs r e = item_val st (row_env cs r) e.
Proof.
  intros Hl He Hn Hc. unfold item_val, eval_env.
  destruct e as [v|x|x k| | | | | | | |]; cbn [core_item] in Hc; try discriminate Hc; cbn [ival eval]; [reflexivity| |].
  all: apply existsb_exists in Hc; destruct Hc as (y & Hy & Hxy); apply String.eqb_eq in Hxy; subst y;
       apply filter_In in Hy; destruct Hy as [Hin Hna]; unfold nonanon in Hna; apply negb_true_iff in Hna;
       destruct (row_look_in cs r x Hin Hl) as (c & Hc);
       pose proof (look_agree x Hna cs r Hl He Hn) as Hla; rewrite Hc in Hla; cbn [option_map] in Hla; rewrite <- Hla; cbn [obind];
       unfold col_cell; rewrite Hc; pose proof (row_look_ent cs r x c He Hc) as Hce.
  - apply cell_val_ent. exact Hce.
  - apply pprop_ent. exact Hce.
Qed.

Definition stable (ty : coltype) (c : cell) : Prop :=
  match ty with
  | TGen => True
  | TNode => match c with CVal VNull => False | _ => True end
  | _ => False
  end.
Lemma push_row_stable tys : forall seen r, Forall2 stable tys r -> push_row tys seen r = (r, seen).
Proof.
  induction tys as [|ty tys IH]; intros seen r H; inversion H as [|? c ? r' Hs Hr]; subst; [destruct seen; reflexivity|].
  destruct seen as [|sn seen]; [reflexivity|]. cbn [push_row].
  assert (Hp : push_typed ty sn c = (c, sn)).
  { destruct ty; cbn in Hs; try contradiction; [reflexivity|]. destruct c as [i|i|v]; try reflexivity. destruct v; try reflexivity. contradiction. }
  rewrite Hp, (IH seen r' Hr). reflexivity.
Qed.
Lemma push_rows_stable tys rs : forall seen, Forall (Forall2 stable tys) rs -> push_rows tys seen rs = rs.
Proof.
  induction rs as [|r rs IH]; intros seen H; [reflexivity|]. inversion H as [|? ? H1 H2]; subst.
  cbn [push_rows]. rewrite (push_row_stable tys seen r H1), (IH seen H2). reflexivity.
Qed.
Lemma typed_rows_stable tys rs : Forall (Forall2 stable tys) rs -> typed_rows tys rs = rs.
Proof. apply push_rows_stable. Qed.

Lemma to_nodecol_ent c : is_ent c -> to_nodecol c = CNode (match c with CNode i | CEdge i => i | _ => 0 end) /\ cell_val (to_nodecol c) = cell_val c.
Proof. destruct c as [i|i|v]; intros H; [| |destruct H]; split; reflexivity. Qed.

Lemma is_identity_seq ps : forall k, is_identity k ps = true -> ps = seq k (List.length ps).
Proof.
  induction ps as [|p ps IH]; intros k H; [reflexivity|]. cbn [is_identity] in H. apply andb_true_iff in H. destruct H as [H1 H2].
  apply Nat.eqb_eq in H1. subst p. cbn [List.length seq]. f_equal. apply IH. exact H2.
Qed.
Lemma map_nth_seq {A} (r : list A) (d : A) : map (fun p => nth p r d) (seq 0 (List.length r)) = r.
Proof.
  induction r as [|a r IH]; [reflexivity|]. cbn [List.length seq map nth]. f_equal.
  rewrite <- seq_shift, map_map. exact IH.
Qed.

Lemma forallb_map' {A B} (f : B -> bool) (g : A -> B) (l : list A) : forallb f (map g l) = forallb (fun a => f (g a)) l.
Proof. induction l as [|a l IH]; cbn; [reflexivity|rewrite IH; reflexivity]. Qed.

Lemma Forall2_same {A} (R : A -> A -> Prop) (l : list A) : (forall a, List.In a l -> R a a) -> Forall2 R l l.
Proof. induction l as [|a l IH]; intros H; constructor; [apply H; left; reflexivity|apply IH; intros b Hb; apply H; right; exact Hb]. Qed.
Lemma Forall2_map_r {A B} (R : A -> B -> Prop) (f : A -> B) (l : list A) : (forall a, List.In a l -> R a (f a)) -> Forall2 R l (map f l).
Proof. induction l as [|a l IH]; intros H; cbn [map]; constructor; [apply H; left; reflexivity|apply IH; intros b Hb; apply H; right; exact Hb]. Qed.
Lemma Forall2_map_both {A B C} (R : B -> C -> Prop) (f : A -> B) (g : A -> C) (l : list A) :
  (forall a, List.In a l -> R (f a) (g a)) -> Forall2 R (map f l) (map g l).
Proof. induction l as [|a l IH]; intros H; cbn [map]; constructor; [apply H; left; reflexivity|apply IH; intros b Hb; apply H; right; exact Hb]. Qed.

Lemma return_sem st items t :
  wfc t -> forallb (core_item (filter nonanon (cols t))) items = true ->
  exists t', return_tbl st (ret_items items) t = Ok t' /\ out_rows t' = project_envs st items (tbl_envs t).
Proof.
  intros [Hn Hrows] Hc. rewrite forallb_forall in Hc.
  assert (Hval : forall r, List.In r (rows t) -> map (ival st (cols t) r) items = map (item_val st (row_env (cols t) r)) items).
  { intros r Hr. destruct (Hrows r Hr) as [Hl He]. apply map_ext_in. intros e Hein. apply ival_item_val; auto. }
  assert (Hgoal : forall rs', Forall2 (fun r r' => map cell_val r' = map (ival st (cols t) r) items) (rows t) rs' ->
                  map (map cell_val) rs' = project_envs st items (tbl_envs t)).
  { intros rs' HF. unfold project_envs, tbl_envs. rewrite map_map.
    induction HF as [|r r' rs rs' H1 _ IH]; [reflexivity|]. cbn [map]. f_equal.
    - rewrite H1. apply Hval. left. reflexivity.
    - apply IH; intros; [apply Hrows|apply Hval]; right; assumption. }
  (* cells of variables *)
  assert (Hvar : forall x r, List.In (EVar x) items \/ (exists k, List.In (EProp x k) items) -> List.In r (rows t) ->
                 exists i c, pos_last x (cols t) = Some i /\ nth_error r i = Some c /\ col_cell (cols t) r x = c /\ is_ent c).
  { intros x r Hx Hr. destruct (Hrows r Hr) as [Hl He].
    assert (Hin : List.In x (cols t)).
    { destruct Hx as [Hx|[k Hx]]; specialize (Hc _ Hx); cbn [core_item] in Hc; apply existsb_exists in Hc;
      destruct Hc as (y & Hy & Hxy); apply String.eqb_eq in Hxy; subst y; apply filter_In in Hy; apply Hy. }
    destruct (pos_last_some x (cols t) Hin) as (i & Hp & Hlt).
    destruct (nth_error_lt r i ltac:(lia)) as (c & Hnth). exists i, c. split; [exact Hp|]. split; [exact Hnth|].
    unfold col_cell, row_look. rewrite Hp. cbn [obind]. rewrite Hnth. split; [reflexivity|].
    rewrite Forall_forall in He. apply He. eapply nth_error_In. exact Hnth. }
  unfold return_tbl.
  replace (forallb (fun it => is_var (fst it)) (ret_items items)) with (forallb is_var items)
    by (unfold ret_items; rewrite forallb_map'; reflexivity).
  destruct (forallb is_var items) eqn:Eall.
  - (* variables only *)
    rewrite forallb_forall in Eall.
    set (posf := fun e => match e with EVar x => match pos_last x (cols t) with Some i => i | None => 0%nat end | _ => 0%nat end).
    assert (Hps : mapM (fun it : lexpr * option string => match fst it with EVar x => of_opt (pos_last x (cols t)) | _ => Err end) (ret_items items)
                  = Ok (map posf items)).
    { unfold ret_items. rewrite <- (map_map (fun e => (e, @None string)) (fun it => posf (fst it))).
      apply mapM_map. intros it Hit. apply in_map_iff in Hit. destruct Hit as (e & <- & He). cbn [fst].
      specialize (Eall e He). destruct e; try discriminate Eall. specialize (Hc _ He). cbn [core_item] in Hc.
      apply existsb_exists in Hc. destruct Hc as (y & Hy & Hxy). apply String.eqb_eq in Hxy. subst y.
      apply filter_In in Hy. destruct (pos_last_some x (cols t) (proj1 Hy)) as (i & Hp & _). cbn [posf]. rewrite Hp. reflexivity. }
    rewrite Hps. cbn [rbind].
    assert (Hcell : forall r e, List.In r (rows t) -> List.In e items ->
                    exists c, nth_error r (posf e) = Some c /\ is_ent c /\ cell_val c = ival st (cols t) r e).
    { intros r e Hr He. specialize (Eall e He). destruct e; try discriminate Eall.
      destruct (Hvar x r (or_introl He) Hr) as (i & c & Hp & Hnth & Hcc & Hce). exists c. cbn [posf ival]. rewrite Hp, Hcc. auto. }
    destruct (Nat.eqb (List.length (map posf items)) (List.length (cols t)) && is_identity 0 (map posf items)) eqn:Eid.
    + apply andb_true_iff in Eid. destruct Eid as [El Ei]. apply Nat.eqb_eq in El. apply is_identity_seq in Ei.
      eexists. split; [reflexivity|]. cbn [out_rows rows]. apply Hgoal.
      clear Hgoal. assert (Hall : forall r, List.In r (rows t) -> map cell_val r = map (ival st (cols t) r) items).
      { intros r Hr. destruct (Hrows r Hr) as [Hl _].
        rewrite <- (map_nth_seq r (CVal VNull)) at 1. rewrite map_map. rewrite <- Hl, <- El, <- Ei, map_map.
        apply map_ext_in. intros e He. destruct (Hcell r e Hr He) as (c & Hnth & _ & Hv).
        rewrite (nth_error_nth r (posf e) (CVal VNull) Hnth). exact Hv. }
      apply Forall2_same. exact Hall.
    + set (g := fun r : row => map (fun p => to_nodecol (nth p r (CVal VNull))) (map posf items)).
      match goal with |- context [mapM ?f (rows t)] => assert (Hrs : mapM f (rows t) = Ok (map g (rows t))) end.
      { apply mapM_map. intros r Hr. apply mapM_map. intros p Hp. apply in_map_iff in Hp. destruct Hp as (e & <- & He).
        destruct (Hcell r e Hr He) as (c & Hnth & _ & _). rewrite Hnth. cbn [of_opt rbind]. rewrite (nth_error_nth r (posf e) (CVal VNull) Hnth). reflexivity. }
      rewrite Hrs. cbn [rbind]. eexists. split; [reflexivity|]. cbn [out_rows rows mkT].
      rewrite typed_rows_stable.
      * apply Hgoal. clear Hgoal Hrs.
        assert (Hall : forall r, List.In r (rows t) -> map cell_val (g r) = map (ival st (cols t) r) items).
        { intros r Hr. unfold g. rewrite !map_map. apply map_ext_in. intros e He.
          destruct (Hcell r e Hr He) as (c & Hnth & Hce & Hv). rewrite (nth_error_nth r (posf e) (CVal VNull) Hnth).
          rewrite (proj2 (to_nodecol_ent c Hce)). exact Hv. }
        apply Forall2_map_r. exact Hall.
      * apply Forall_forall. intros r' Hr'. apply in_map_iff in Hr'. destruct Hr' as (r & <- & Hr). unfold g.
        rewrite !map_map. apply Forall2_map_both.
        intros e He. destruct (Hcell r e Hr He) as (c & Hnth & Hce & _). rewrite (nth_error_nth r (posf e) (CVal VNull) Hnth).
        rewrite (proj1 (to_nodecol_ent c Hce)). exact I.
  - (* mixed items *)
    set (chk := fun it : lexpr * option string => match fst it with
                            | EVar x | EProp x _ => of_opt (pos_last x (cols t))
                            | ELit _ => Ok O
                            | _ => Err end).
    assert (Hchk : exists l, mapM chk (ret_items items) = Ok l).
    { clear -Hc. induction items as [|e items IH]; [exists []; reflexivity|].
      destruct IH as (l & Hl); [intros x Hx; apply Hc; right; exact Hx|].
      pose proof (Hc e (or_introl eq_refl)) as He. cbn [ret_items map mapM]. fold (ret_items items). rewrite Hl.
      unfold chk at 1. cbn [fst].
      destruct e; cbn [core_item] in He; try discriminate He; cbn [rbind]; try (eexists; reflexivity).
      all: apply existsb_exists in He; destruct He as (y & Hy & Hxy); apply String.eqb_eq in Hxy; subst y;
           apply filter_In in Hy; destruct (pos_last_some x (cols t) (proj1 Hy)) as (i & Hp & _); rewrite Hp; cbn [of_opt rbind]; eexists; reflexivity. }
    destruct Hchk as (l & Hl). fold chk. rewrite Hl. cbn [rbind].
    set (cellf := fun (r : row) (e : lexpr) => match e with
                     | EVar x => to_nodecol (col_cell (cols t) r x)
                     | EProp x k => CVal (pprop st (col_cell (cols t) r x) k)
                     | ELit v => CVal v
                     | _ => CVal VNull end).
    match goal with |- context [mapM ?f (rows t)] => assert (Hrs : mapM f (rows t) = Ok (map (fun r => map (cellf r) items) (rows t))) end.
    { apply mapM_map. intros r Hr. unfold ret_items. rewrite <- (map_map (fun e => (e, @None string)) (fun it => cellf r (fst it))).
      apply mapM_map. intros it Hit. apply in_map_iff in Hit. destruct Hit as (e & <- & He). cbn [fst].
      pose proof (Hc e He) as Hce. destruct e; cbn [core_item] in Hce; try discriminate Hce; cbn [proj_cell cellf]; [reflexivity| |].
      - destruct (Hvar x r (or_introl He) Hr) as (i & c & Hp & Hnth & Hcc & _). rewrite Hp. cbn [of_opt rbind]. rewrite Hnth. cbn [rbind]. rewrite Hcc. reflexivity.
      - destruct (Hvar x r (or_intror (ex_intro _ k He)) Hr) as (i & c & Hp & Hnth & Hcc & _). rewrite Hp. cbn [of_opt rbind]. rewrite Hnth. cbn [rbind]. rewrite Hcc. reflexivity. }
    rewrite Hrs. cbn [rbind]. eexists. split; [reflexivity|]. cbn [out_rows rows mkT].
    rewrite typed_rows_stable.
    + apply Hgoal. clear Hgoal Hrs.
      assert (Hall : forall r, List.In r (rows t) -> map cell_val (map (cellf r) items) = map (ival st (cols t) r) items).
      { intros r Hr. rewrite map_map. apply map_ext_in. intros e He. pose proof (Hc e He) as Hce.
        destruct e; cbn [core_item] in Hce; try discriminate Hce; cbn [cellf ival cell_val]; try reflexivity.
        destruct (Hvar x r (or_introl He) Hr) as (i & c & _ & _ & Hcc & Hent). rewrite Hcc. apply (proj2 (to_nodecol_ent c Hent)). }
      apply Forall2_map_r. exact Hall.
    + apply Forall_forall. intros r' Hr'. apply in_map_iff in Hr'. destruct Hr' as (r & <- & Hr).
      unfold ret_items. rewrite map_map. cbn [fst]. apply Forall2_map_both.
      intros e He. pose proof (Hc e He) as Hce. destruct e; cbn [core_item] in Hce; try discriminate Hce; cbn [is_var cellf]; try exact I.
      destruct (Hvar x r (or_introl He) Hr) as (i & c & _ & _ & Hcc & Hent). rewrite Hcc, (proj1 (to_nodecol_ent c Hent)). exact I.
Qed.

(** * SKIP / LIMIT on values *)
Lemma cell_val_to_gen r : map cell_val (map to_gen r) = map cell_val r.
Proof. rewrite map_map. apply map_ext. intros c. reflexivity. Qed.
Lemma skipn_map' {A B} (f : A -> B) n (l : list A) : skipn n (map f l) = map f (skipn n l).
Proof. revert l. induction n as [|n IH]; intros [|a l]; cbn; auto. Qed.
Lemma firstn_map' {A B} (f : A -> B) n (l : list A) : firstn n (map f l) = map f (firstn n l).
Proof. revert l. induction n as [|n IH]; intros [|a l]; cbn; [reflexivity|reflexivity|reflexivity|rewrite IH; reflexivity]. Qed.
Lemma skip_out n t : out_rows (skip_tbl n t) = skipn n (out_rows t).
Proof.
  unfold out_rows, skip_tbl, skip_rows. cbn [rows mkT]. destruct (Nat.eqb n 0) eqn:E.
  - apply Nat.eqb_eq in E. subst n. reflexivity.
  - rewrite skipn_map', map_map. apply map_ext. intros r. apply cell_val_to_gen.
Qed.
Lemma limit_out n t : out_rows (limit_tbl n t) = firstn n (out_rows t).
Proof.
  unfold out_rows, limit_tbl, limit_rows. cbn [rows mkT]. destruct (rows t) as [|r rs] eqn:Er; [destruct n; reflexivity|].
  rewrite <- Er. destruct (Nat.leb n 0) eqn:E0.
  - apply Nat.leb_le in E0. assert (n = 0%nat) by lia. subst n. reflexivity.
  - destruct (Nat.leb (List.length (rows t)) n) eqn:E1.
    + apply Nat.leb_le in E1. rewrite firstn_all2; [reflexivity|rewrite map_length; exact E1].
    + rewrite firstn_map', map_map. apply map_ext. intros r'. apply cell_val_to_gen.
Qed.

(** * The plain core query: MATCH chain [WHERE w] RETURN items [SKIP s] [LIMIT n] *)
Definition hop_cols (h : hop) : list string := [edge_col (h_evar h); np_var (h_to h)].
Lemma hops_fresh_vars hs : forall cs, hops_fresh cs hs = true ->
  forall x, List.In x (map (fun h => np_var (h_to h)) hs ++ flat_map (fun h => match h_evar h with Some r => [r] | None => [] end) hs) ->
  List.In x (flat_map hop_cols hs) /\ String.eqb x anon = false.
Proof.
  induction hs as [|h hs IH]; intros cs Hf x Hx; [destruct Hx|].
  destruct (hops_fresh_cons _ _ _ Hf) as [(Hf1 & Hf2 & Hf3 & Hf4) Hf'].
  cbn [map flat_map app] in Hx. cbn [flat_map]. unfold hop_cols at 1.
  destruct Hx as [<-|Hx].
  - split; [right; left; reflexivity|exact Hf3].
  - apply in_app_or in Hx. destruct Hx as [Hx|Hx].
    + destruct (IH _ Hf' x (in_or_app _ _ _ (or_introl Hx))) as [H1 H2]. split; [|exact H2]. right. right. exact H1.
    + apply in_app_or in Hx. destruct Hx as [Hx|Hx].
      * destruct (h_evar h) as [e|]; [|destruct Hx]. destruct Hx as [<-|[]]. split; [left; reflexivity|apply Hf4].
      * destruct (IH _ Hf' x (in_or_app _ _ _ (or_intror Hx))) as [H1 H2]. split; [|exact H2]. right. right. exact H1.
Qed.
Lemma pat_vars_cols p x : pat_fresh p = true -> List.In x (pat_vars p) ->
  List.In x (filter nonanon (np_var (p_start p) :: flat_map hop_cols (p_hops p))).
Proof.
  intros Hf Hx. unfold pat_fresh in Hf. apply andb_true_iff in Hf. destruct Hf as [Hs Hf]. apply negb_true_iff in Hs.
  unfold pat_vars, pat_nvars, pat_evars in Hx. cbn [app] in Hx. apply filter_In.
  destruct Hx as [<-|Hx]; [split; [left; reflexivity|apply nonanon_true; exact Hs]|].
  destruct (hops_fresh_vars _ _ Hf x Hx) as [H1 H2]. split; [right; exact H1|apply nonanon_true; exact H2].
Qed.
Lemma core_item_mono vs vs' e : (forall x, List.In x vs -> List.In x vs') -> core_item vs e = true -> core_item vs' e = true.
Proof.
  intros H Hc. destruct e; cbn [core_item] in *; try exact Hc.
  all: apply existsb_exists in Hc; destruct Hc as (y & Hy & Hxy); apply existsb_exists; exists y; split; [apply H; exact Hy|exact Hxy].
Qed.
Lemma expr_vars_in_spec vs e : expr_vars_in vs e = true -> forall x, List.In x (expr_vars e) -> List.In x vs.
Proof.
  induction e; cbn [expr_vars_in expr_vars]; intros H y Hy; try (destruct Hy; fail).
  all: try (destruct Hy as [<-|[]]; apply existsb_exists in H; destruct H as (z & Hz & Hxz); apply String.eqb_eq in Hxz; subst z; exact Hz).
  all: try (apply andb_true_iff in H; destruct H as [H1 H2]; apply in_app_or in Hy; destruct Hy; auto).
  all: auto.
Qed.

Definition body_envs (st : store) (q : query) : list env := spec_where st (q_where q) (bindings st (q_pat q)).

Lemma body_sem st q :
  single_hops (q_pat q) = true -> pat_fresh (q_pat q) = true ->
  match q_where q with Some w => expr_vars_in (pat_vars (q_pat q)) w | None => true end = true ->
  exists t, sem_ops st (where_plan (q_where q) (chain_plan (q_pat q))) = Ok t /\ wfc t /\
            (forall x, List.In x (pat_vars (q_pat q)) -> List.In x (filter nonanon (cols t))) /\
            tbl_envs t = spec_where st (q_where q) (obindings st (q_pat q)).
Proof.
  intros H1 Hf Hw. destruct (chain_obindings_wfc st (q_pat q) H1 Hf) as (t & Hs & Hwf & Hc & He).
  assert (Hv : forall x, List.In x (pat_vars (q_pat q)) -> List.In x (filter nonanon (cols t))).
  { intros x Hx. rewrite Hc. apply pat_vars_cols; assumption. }
  unfold where_plan. destruct (q_where q) as [w|].
  - assert (Hna : forall x, List.In x (expr_vars w) -> String.eqb x anon = false).
    { intros x Hx. pose proof (Hv x (expr_vars_in_spec _ _ Hw x Hx)) as Hi. apply filter_In in Hi. destruct Hi as [_ Hi].
      unfold nonanon in Hi. apply negb_true_iff in Hi. exact Hi. }
    destruct (where_sem st w t Hwf Hna) as [Hwf' He'].
    eexists. split; [rewrite sem_ops_filter, Hs; reflexivity|]. split; [exact Hwf'|]. split; [exact Hv|]. rewrite He', He. reflexivity.
  - exists t. split; [exact Hs|]. split; [exact Hwf|]. split; [exact Hv|]. rewrite He. reflexivity.
Qed.

Lemma answer_plain st q items :
  q_ret q = RPlain items false -> q_order q = [] ->
  answer st q = Ok (spec_limit (q_limit q) (spec_skip (q_skip q) (project_envs st items (body_envs st q)))).
Proof.
  intros Hr Ho. unfold answer. rewrite Hr, Ho. cbn [rbind spec_order]. f_equal.
  unfold spec_project, project_envs, body_envs.
  destruct (q_limit q), (q_skip q); cbn [spec_limit spec_skip];
    rewrite <- ?firstn_map', <- ?skipn_map', map_map; reflexivity.
Qed.

Lemma sem_ops_skip st n i : sem_ops st (LSkip n i) = (do t <- sem_ops st i; Ok (skip_tbl n t)).
Proof. reflexivity. Qed.
Lemma sem_ops_limit st n i : sem_ops st (LLimit n i) = (do t <- sem_ops st i; Ok (limit_tbl n t)).
Proof. reflexivity. Qed.

Lemma cypher_plan_sem st q items t :
  q_ret q = RPlain items false -> q_order q = [] ->
  sem_ops st (where_plan (q_where q) (chain_plan (q_pat q))) = Ok t -> wfc t ->
  forallb (core_item (filter nonanon (cols t))) items = true ->
  plan_rows st (cypher_plan_of q) = Ok (spec_limit (q_limit q) (spec_skip (q_skip q) (project_envs st items (tbl_envs t)))).
Proof.
  intros Hr Ho Hs Hw Hc. destruct (return_sem st items t Hw Hc) as (t2 & Hret & Hout).
  unfold plan_rows, cypher_plan_of. rewrite Hr, Ho. cbn [opt_sort].
  assert (H2 : sem_ops st (LReturn (ret_items items) false (where_plan (q_where q) (chain_plan (q_pat q)))) = Ok t2)
    by (cbn [sem_ops]; rewrite Hs; cbn [rbind]; rewrite Hret; reflexivity).
  destruct (q_skip q) as [s|], (q_limit q) as [n|]; cbn [opt_skip opt_limit spec_skip spec_limit];
    rewrite ?sem_ops_limit, ?sem_ops_skip, H2; cbn [rbind]; rewrite ?limit_out, ?skip_out, Hout; reflexivity.
Qed.

Theorem plain_answer_directed_l st q :
  store_ok st -> single_hops (q_pat q) = true -> single_labels (q_pat q) = true -> pat_fresh (q_pat q) = true ->
  no_type_case st (q_pat q) = true -> directed (q_pat q) = true ->
  plain_core q = true -> q_order q = [] ->
  plan_rows st (cypher_plan_of q) = answer st q.
Proof.
  intros Hok H1 H2 Hf H3 H4 Hp Ho. unfold plain_core in Hp. apply andb_true_iff in Hp. destruct Hp as [Hp Hw].
  destruct (q_ret q) as [items d|] eqn:Hr; [|discriminate Hp]. destruct d; [discriminate Hp|].
  destruct (body_sem st q H1 Hf Hw) as (t & Hs & Hwf & Hv & He).
  rewrite (answer_plain st q items Hr Ho).
  rewrite (cypher_plan_sem st q items t Hr Ho Hs Hwf).
  - rewrite He, (obindings_directed st (q_pat q) Hok H1 H2 H3 H4). reflexivity.
  - rewrite forallb_forall in Hp |- *. intros e He'. eapply core_item_mono; [exact Hv|apply Hp; exact He'].
Qed.

(** undirected patterns: the same rows as a multiset (no SKIP/LIMIT, whose result depends on the order) *)
Theorem plain_answer_bag_l st q :
  store_ok st -> single_hops (q_pat q) = true -> single_labels (q_pat q) = true -> pat_fresh (q_pat q) = true ->
  no_type_case st (q_pat q) = true -> no_both_selfloop st (q_pat q) = true ->
  plain_core q = true -> q_order q = [] -> q_skip q = None -> q_limit q = None ->
  exists rs rs', plan_rows st (cypher_plan_of q) = Ok rs /\ answer st q = Ok rs' /\ Permutation rs rs'.
Proof.
  intros Hok H1 H2 Hf H3 H4 Hp Ho Hsk Hli. unfold plain_core in Hp. apply andb_true_iff in Hp. destruct Hp as [Hp Hw].
  destruct (q_ret q) as [items d|] eqn:Hr; [|discriminate Hp]. destruct d; [discriminate Hp|].
  destruct (body_sem st q H1 Hf Hw) as (t & Hs & Hwf & Hv & He).
  eexists. eexists. split; [|split; [apply (answer_plain st q items Hr Ho)|]].
  - apply (cypher_plan_sem st q items t Hr Ho Hs Hwf).
    rewrite forallb_forall in Hp |- *. intros e He'. eapply core_item_mono; [exact Hv|apply Hp; exact He'].
  - rewrite Hsk, Hli. cbn [spec_skip spec_limit]. unfold project_envs, body_envs. apply Permutation_map. rewrite He.
    pose proof (obindings_perm st (q_pat q) Hok H1 H2 H3 H4) as Hperm.
    unfold spec_where. destruct (q_where q); [apply Permutation_filter'; exact Hperm|exact Hperm].
Qed.

(** GQL builds the same plan when there is nothing to misplace *)
Lemma gql_plan_plain q items d : q_ret q = RPlain items d -> q_order q = [] -> q_skip q = None -> q_limit q = None -> gql_plan_of q = cypher_plan_of q.
Proof. intros Hr Ho Hs Hl. unfold gql_plan_of, cypher_plan_of. rewrite Hr, Ho, Hs, Hl. destruct d; reflexivity. Qed.

(** * RETURN over rows whose cells hold ids in any vector kind (entity cells, or the generic Int64
    cells that SKIP / LIMIT / ORDER BY leave behind) *)
Definition idlike (c : cell) : Prop := match c with CNode _ | CEdge _ | CVal (VInt _) => True | _ => False end.
Lemma to_nodecol_id c : idlike c ->
  to_nodecol c = CNode (match c with CNode i | CEdge i | CVal (VInt i) => i | _ => 0 end) /\ cell_val (to_nodecol c) = cell_val c.
Proof. destruct c as [i|i|v]; cbn; intros H; try (split; reflexivity). destruct v; try contradiction. split; reflexivity. Qed.
Lemma is_ent_idlike c : is_ent c -> idlike c.
Proof. destruct c as [i|i|v]; cbn; intros H; [exact I|exact I|destruct H]. Qed.

Lemma col_cell_in cs r x : List.In x cs -> List.length cs = List.length r -> exists c, row_look cs r x = Some c /\ col_cell cs r x = c /\ List.In c r.
Proof.
  intros Hi Hl. destruct (row_look_in cs r x Hi Hl) as (c & Hc). exists c. split; [exact Hc|]. split; [unfold col_cell; rewrite Hc; reflexivity|].
  unfold row_look in Hc. destruct (pos_last x cs); [|discriminate Hc]. cbn [obind] in Hc. eapply nth_error_In. exact Hc.
Qed.

Lemma return_sem_gen st items t envs vs :
  (forall r, List.In r (rows t) -> List.length (cols t) = List.length r /\
                                   forall x, List.In x vs -> idlike (col_cell (cols t) r x)) ->
  (forall x, List.In x vs -> List.In x (cols t)) ->
  forallb (core_item vs) items = true ->
  Forall2 (fun r en => map (ival st (cols t) r) items = map (item_val st en) items) (rows t) envs ->
  exists t', return_tbl st (ret_items items) t = Ok t' /\ out_rows t' = project_envs st items envs.
Proof.
  intros Hrows Hvs Hc Henv. rewrite forallb_forall in Hc.
  assert (Hgoal : forall rs', Forall2 (fun r r' => map cell_val r' = map (ival st (cols t) r) items) (rows t) rs' ->
                  map (map cell_val) rs' = project_envs st items envs).
  { intros rs' HF. unfold project_envs. clear -HF Henv. revert rs' HF.
    induction Henv as [|r en rs ens H1 _ IH]; intros rs' HF; inversion HF as [|? r' ? rs'' H2 H3]; subst; [reflexivity|].
    cbn [map]. f_equal; [rewrite H2; exact H1|apply IH; exact H3]. }
  (* cells of variables *)
  assert (Hvar : forall x r, List.In (EVar x) items \/ (exists k, List.In (EProp x k) items) -> List.In r (rows t) ->
                 exists i c, pos_last x (cols t) = Some i /\ nth_error r i = Some c /\ col_cell (cols t) r x = c /\ idlike c).
  { intros x r Hx Hr. destruct (Hrows r Hr) as [Hl He].
    assert (Hinv : List.In x vs).
    { destruct Hx as [Hx|[k Hx]]; specialize (Hc _ Hx); cbn [core_item] in Hc; apply existsb_exists in Hc;
      destruct Hc as (y & Hy & Hxy); apply String.eqb_eq in Hxy; subst y; exact Hy. }
    pose proof (Hvs x Hinv) as Hin.
    destruct (pos_last_some x (cols t) Hin) as (i & Hp & Hlt).
    destruct (nth_error_lt r i ltac:(lia)) as (c & Hnth). exists i, c. split; [exact Hp|]. split; [exact Hnth|].
    assert (Hcc : col_cell (cols t) r x = c) by (unfold col_cell, row_look; rewrite Hp; cbn [obind]; rewrite Hnth; reflexivity).
    split; [exact Hcc|]. rewrite <- Hcc. apply He. exact Hinv. }
  unfold return_tbl.
  replace (forallb (fun it => is_var (fst it)) (ret_items items)) with (forallb is_var items)
    by (unfold ret_items; rewrite forallb_map'; reflexivity).
  destruct (forallb is_var items) eqn:Eall.
  - (* variables only *)
    rewrite forallb_forall in Eall.
    set (posf := fun e => match e with EVar x => match pos_last x (cols t) with Some i => i | None => 0%nat end | _ => 0%nat end).
    assert (Hps : mapM (fun it : lexpr * option string => match fst it with EVar x => of_opt (pos_last x (cols t)) | _ => Err end) (ret_items items)
                  = Ok (map posf items)).
    { unfold ret_items. rewrite <- (map_map (fun e => (e, @None string)) (fun it => posf (fst it))).
      apply mapM_map. intros it Hit. apply in_map_iff in Hit. destruct Hit as (e & <- & He). cbn [fst].
      specialize (Eall e He). destruct e; try discriminate Eall. specialize (Hc _ He). cbn [core_item] in Hc.
      apply existsb_exists in Hc. destruct Hc as (y & Hy & Hxy). apply String.eqb_eq in Hxy. subst y.
      destruct (pos_last_some x (cols t) (Hvs _ Hy)) as (i & Hp & _). cbn [posf]. rewrite Hp. reflexivity. }
    rewrite Hps. cbn [rbind].
    assert (Hcell : forall r e, List.In r (rows t) -> List.In e items ->
                    exists c, nth_error r (posf e) = Some c /\ idlike c /\ cell_val c = ival st (cols t) r e).
    { intros r e Hr He. specialize (Eall e He). destruct e; try discriminate Eall.
      destruct (Hvar x r (or_introl He) Hr) as (i & c & Hp & Hnth & Hcc & Hce). exists c. cbn [posf ival]. rewrite Hp, Hcc. auto. }
    destruct (Nat.eqb (List.length (map posf items)) (List.length (cols t)) && is_identity 0 (map posf items)) eqn:Eid.
    + apply andb_true_iff in Eid. destruct Eid as [El Ei]. apply Nat.eqb_eq in El. apply is_identity_seq in Ei.
      eexists. split; [reflexivity|]. cbn [out_rows rows]. apply Hgoal.
      clear Hgoal. assert (Hall : forall r, List.In r (rows t) -> map cell_val r = map (ival st (cols t) r) items).
      { intros r Hr. destruct (Hrows r Hr) as [Hl _].
        rewrite <- (map_nth_seq r (CVal VNull)) at 1. rewrite map_map. rewrite <- Hl, <- El, <- Ei, map_map.
        apply map_ext_in. intros e He. destruct (Hcell r e Hr He) as (c & Hnth & _ & Hv).
        rewrite (nth_error_nth r (posf e) (CVal VNull) Hnth). exact Hv. }
      apply Forall2_same. exact Hall.
    + set (g := fun r : row => map (fun p => to_nodecol (nth p r (CVal VNull))) (map posf items)).
      match goal with |- context [mapM ?f (rows t)] => assert (Hrs : mapM f (rows t) = Ok (map g (rows t))) end.
      { apply mapM_map. intros r Hr. apply mapM_map. intros p Hp. apply in_map_iff in Hp. destruct Hp as (e & <- & He).
        destruct (Hcell r e Hr He) as (c & Hnth & _ & _). rewrite Hnth. cbn [of_opt rbind]. rewrite (nth_error_nth r (posf e) (CVal VNull) Hnth). reflexivity. }
      rewrite Hrs. cbn [rbind]. eexists. split; [reflexivity|]. cbn [out_rows rows mkT].
      rewrite typed_rows_stable.
      * apply Hgoal. clear Hgoal Hrs.
        assert (Hall : forall r, List.In r (rows t) -> map cell_val (g r) = map (ival st (cols t) r) items).
        { intros r Hr. unfold g. rewrite !map_map. apply map_ext_in. intros e He.
          destruct (Hcell r e Hr He) as (c & Hnth & Hce & Hv). rewrite (nth_error_nth r (posf e) (CVal VNull) Hnth).
          rewrite (proj2 (to_nodecol_id c Hce)). exact Hv. }
        apply Forall2_map_r. exact Hall.
      * apply Forall_forall. intros r' Hr'. apply in_map_iff in Hr'. destruct Hr' as (r & <- & Hr). unfold g.
        rewrite !map_map. apply Forall2_map_both.
        intros e He. destruct (Hcell r e Hr He) as (c & Hnth & Hce & _). rewrite (nth_error_nth r (posf e) (CVal VNull) Hnth).
        rewrite (proj1 (to_nodecol_id c Hce)). exact I.
  - (* mixed items *)
    set (chk := fun it : lexpr * option string => match fst it with
                            | EVar x | EProp x _ => of_opt (pos_last x (cols t))
                            | ELit _ => Ok O
                            | _ => Err end).
    assert (Hchk : exists l, mapM chk (ret_items items) = Ok l).
    { clear -Hc Hvs. induction items as [|e items IH]; [exists []; reflexivity|].
      destruct IH as (l & Hl); [intros x Hx; apply Hc; right; exact Hx|].
      pose proof (Hc e (or_introl eq_refl)) as He. cbn [ret_items map mapM]. fold (ret_items items). rewrite Hl.
      unfold chk at 1. cbn [fst].
      destruct e; cbn [core_item] in He; try discriminate He; cbn [rbind]; try (eexists; reflexivity).
      all: apply existsb_exists in He; destruct He as (y & Hy & Hxy); apply String.eqb_eq in Hxy; subst y;
           destruct (pos_last_some x (cols t) (Hvs _ Hy)) as (i & Hp & _); rewrite Hp; cbn [of_opt rbind]; eexists; reflexivity. }
    destruct Hchk as (l & Hl). fold chk. rewrite Hl. cbn [rbind].
    set (cellf := fun (r : row) (e : lexpr) => match e with
                     | EVar x => to_nodecol (col_cell (cols t) r x)
                     | EProp x k => CVal (pprop st (col_cell (cols t) r x) k)
                     | ELit v => CVal v
                     | _ => CVal VNull end).
    match goal with |- context [mapM ?f (rows t)] => assert (Hrs : mapM f (rows t) = Ok (map (fun r => map (cellf r) items) (rows t))) end.
    { apply mapM_map. intros r Hr. unfold ret_items. rewrite <- (map_map (fun e => (e, @None string)) (fun it => cellf r (fst it))).
      apply mapM_map. intros it Hit. apply in_map_iff in Hit. destruct Hit as (e & <- & He). cbn [fst].
      pose proof (Hc e He) as Hce. destruct e; cbn [core_item] in Hce; try discriminate Hce; cbn [proj_cell cellf]; [reflexivity| |].
      - destruct (Hvar x r (or_introl He) Hr) as (i & c & Hp & Hnth & Hcc & _). rewrite Hp. cbn [of_opt rbind]. rewrite Hnth. cbn [rbind]. rewrite Hcc. reflexivity.
      - destruct (Hvar x r (or_intror (ex_intro _ k He)) Hr) as (i & c & Hp & Hnth & Hcc & _). rewrite Hp. cbn [of_opt rbind]. rewrite Hnth. cbn [rbind]. rewrite Hcc. reflexivity. }
    rewrite Hrs. cbn [rbind]. eexists. split; [reflexivity|]. cbn [out_rows rows mkT].
    rewrite typed_rows_stable.
    + apply Hgoal. clear Hgoal Hrs.
      assert (Hall : forall r, List.In r (rows t) -> map cell_val (map (cellf r) items) = map (ival st (cols t) r) items).
      { intros r Hr. rewrite map_map. apply map_ext_in. intros e He. pose proof (Hc e He) as Hce.
        destruct e; cbn [core_item] in Hce; try discriminate Hce; cbn [cellf ival cell_val]; try reflexivity.
        destruct (Hvar x r (or_introl He) Hr) as (i & c & _ & _ & Hcc & Hent). rewrite Hcc. apply (proj2 (to_nodecol_id c Hent)). }
      apply Forall2_map_r. exact Hall.
    + apply Forall_forall. intros r' Hr'. apply in_map_iff in Hr'. destruct Hr' as (r & <- & Hr).
      unfold ret_items. rewrite map_map. cbn [fst]. apply Forall2_map_both.
      intros e He. pose proof (Hc e He) as Hce. destruct e; cbn [core_item] in Hce; try discriminate Hce; cbn [is_var cellf]; try exact I.
      destruct (Hvar x r (or_introl He) Hr) as (i & c & _ & _ & Hcc & Hent). rewrite Hcc, (proj1 (to_nodecol_id c Hent)). exact I.
Qed.
