(** C08 — chains with bounded variable-length hops: the operators enumerate the operational
    reading [obindings_g] (list equality), which is a permutation of the declarative bindings
    outside the defect classes (and for minimum >= 1, maximum given, anonymous variable-length
    edges, every edge having live end points). *)
From Coq Require Import ZArith List Bool String Ascii Lia Permutation.
From GV Require Export Query.ProofsPattern Query.ProofsVle.
Import ListNotations.
Open Scope Z_scope.

(** * Vocabulary *)
(** the (edge, far end) pairs one hop produces at a node: an ExpandOperator for a single hop, the
    breadth-first VariableLengthExpandOperator otherwise (planner.rs plan_expand) *)
Definition ostep_h (st : store) (h : hop) (cur : Z) : list (Z * Z) :=
  match h_len h with
  | HOne => ostep st (h_dir h) (h_type h) cur
  | HVar mn mx =>
      if is_single_hop mn mx then ostep st (h_dir h) (h_type h) cur
      else map (fun te => (snd te, fst te)) (vle_from st true (h_dir h) (h_type h) mn (vle_max mn mx) cur)
  end.
Definition obind_hop_g (st : store) (h : hop) (ec : env * Z) : list (env * Z) :=
  map (fun ef => (fst ec ++ (match h_evar h with Some r => [(r, EEdge (fst ef))] | None => [] end)
                         ++ [(np_var (h_to h), ENode (snd ef))], snd ef))
      (filter (fun ef => first_label_ok st (h_to h) (snd ef)) (ostep_h st h (snd ec))).
Fixpoint obind_hops_g (st : store) (hs : list hop) (acc : list (env * Z)) : list (env * Z) :=
  match hs with
  | [] => acc
  | h :: r => obind_hops_g st r (flat_map (obind_hop_g st h) acc)
  end.
Definition obindings_g (st : store) (p : pattern) : list env :=
  map fst (obind_hops_g st (p_hops p)
             (map (fun n => ([(np_var (p_start p), ENode (nid n))], nid n))
                  (filter (fun n => match np_labels (p_start p) with [] => true | l :: _ => has_label n l end) (nodes st)))).
(** bounded variable-length hops with minimum >= 1 (not C08-K1, not C08-K4) *)
Definition bounded_hops (p : pattern) : bool :=
  forallb (fun h => match h_len h with
                    | HOne => true
                    | HVar mn (Some mx) => Nat.leb 1 mn && Nat.leb mn mx
                    | HVar _ None => false end) (p_hops p).
(** every edge has live end points (LpgStore deletes a node's edges with it) *)
Definition edges_live (st : store) : Prop :=
  forall e, List.In e (edges st) -> node_exists st (esrc e) = true /\ node_exists st (edst e) = true.

(** * The operators *)
Lemma vle_cell_ent c : is_ent c -> vle_cell c = c.
Proof. destruct c; cbn; intros H; [reflexivity|reflexivity|destruct H]. Qed.
Lemma map_vle_cell r : Forall is_ent r -> map vle_cell r = r.
Proof. induction 1 as [|c r Hc _ IH]; cbn; [reflexivity|rewrite (vle_cell_ent c Hc), IH; reflexivity]. Qed.

Section GenExpand.
  Variable nb : Z -> list (Z * Z).     (* (far end, edge) pairs, as the operators produce them *)
  Variables (t : tbl) (x : string) (i : nat) (h : hop).
  Let t' := mkT (cols t ++ [edge_col (h_evar h); np_var (h_to h)])
                (flat_map (fun r => map (fun te => r ++ [CEdge (snd te); CNode (fst te)]) (nb (cur_of i r))) (rows t)).
  Lemma gen_expand_good : good t x i -> hop_fresh (cols t) h -> good t' (np_var (h_to h)) (S (List.length (cols t))).
  Proof.
    intros Hg (Hf1 & Hf2 & Hf3 & Hf4). split.
    - cbn [cols t' mkT]. apply pos_first_app_fresh; assumption.
    - intros r' Hr'. cbn [rows t' mkT] in Hr'. apply in_flat_map in Hr'. destruct Hr' as (r & Hr & Hr').
      apply in_map_iff in Hr'. destruct Hr' as (te & <- & _).
      destruct Hg as [_ Hg]. destruct (Hg r Hr) as [Hlen _]. split.
      + cbn [cols t' mkT]. rewrite !app_length. cbn. lia.
      + exists (fst te). rewrite Hlen. apply nth_error_app_len.
  Qed.
  Lemma gen_expand_abs : good t x i -> hop_fresh (cols t) h ->
    map (abs t' (S (List.length (cols t)))) (rows t')
    = flat_map (fun ec => map (fun ef => (fst ec ++ (match h_evar h with Some r => [(r, EEdge (fst ef))] | None => [] end)
                                                  ++ [(np_var (h_to h), ENode (snd ef))], snd ef))
                              (map (fun te => (snd te, fst te)) (nb (snd ec))))
               (map (abs t i) (rows t)).
  Proof.
    intros Hg (Hf1 & Hf2 & Hf3 & Hf4).
    cbn [rows t' mkT]. rewrite map_flat_map, flat_map_map. apply flat_map_ext_in. intros r Hr.
    rewrite !map_map. apply map_ext. intros te. cbn [fst snd].
    destruct Hg as [_ Hg]. destruct (Hg r Hr) as [Hlen _].
    unfold abs at 1. cbn [cols t' mkT]. rewrite (row_env_app _ _ _ _ _ _ Hlen), Hf3. f_equal.
    - unfold abs. cbn [fst]. f_equal. f_equal.
      unfold edge_col. destruct (h_evar h) as [e|]; [destruct Hf4 as [Hf4 _]; rewrite Hf4; reflexivity|]. unfold anon. rewrite String.eqb_refl. reflexivity.
    - unfold cur_of. rewrite Hlen, nth_error_app_len. reflexivity.
  Qed.
  Lemma gen_expand_wfc : wfc t -> hop_fresh (cols t) h -> wfc t'.
  Proof.
    intros [Hnd Hr] (Hf1 & Hf2 & Hf3 & Hf4). split.
    - cbn [cols t' mkT]. rewrite filter_app.
      assert (Hto : ~ List.In (np_var (h_to h)) (filter nonanon (cols t))).
      { intro Hin. apply filter_In in Hin. exact (existsb_eqb_false _ _ Hf1 (proj1 Hin)). }
      unfold edge_col in *. destruct (h_evar h) as [e|].
      + destruct Hf4 as [Hf4 Hf5].
        assert (Hfe : filter nonanon [e; np_var (h_to h)] = [e] ++ [np_var (h_to h)])
          by (cbn [filter]; unfold nonanon; rewrite Hf4, Hf3; reflexivity).
        rewrite Hfe. rewrite app_assoc. apply NoDup_snoc.
        * apply NoDup_snoc; [exact Hnd|]. intro Hin. apply filter_In in Hin. exact (existsb_eqb_false _ _ Hf5 (proj1 Hin)).
        * intro Hin. apply in_app_or in Hin. destruct Hin as [Hin|[Heq|[]]]; [exact (Hto Hin)|].
          rewrite Heq, String.eqb_refl in Hf2. discriminate Hf2.
      + assert (Hfe : filter nonanon ["_anon_edge"%string; np_var (h_to h)] = [np_var (h_to h)])
          by (cbn [filter]; unfold nonanon; rewrite Hf3; reflexivity).
        rewrite Hfe. apply NoDup_snoc; assumption.
    - intros r' Hr'. cbn [rows t' mkT] in Hr'. apply in_flat_map in Hr'. destruct Hr' as (r & Hin & Hr').
      apply in_map_iff in Hr'. destruct Hr' as (te & <- & _). destruct (Hr r Hin) as [Hl He]. split.
      + cbn [cols t' mkT]. rewrite !app_length. cbn. lia.
      + apply Forall_app. split; [exact He|]. repeat constructor.
  Qed.
End GenExpand.

Lemma vle_rows_ok st t x i d ty mn mx :
  good t x i -> wfc t ->
  vle_rows st true (cols t) x d ty mn mx (rows t)
  = Ok (flat_map (fun r => map (fun te => r ++ [CEdge (snd te); CNode (fst te)])
                               (vle_from st true d ty mn (vle_max mn mx) (cur_of i r))) (rows t)).
Proof.
  intros Hg [_ Hw]. unfold vle_rows. apply rmapM_flat. intros r Hr.
  rewrite (src_of_good t x i r Hg Hr). cbn [rbind]. destruct (Hw r Hr) as [_ He]. rewrite (map_vle_cell r He). reflexivity.
Qed.
Lemma expand_rows_ok st t x i d ty :
  good t x i ->
  expand_rows st true (cols t) x d ty (rows t)
  = Ok (flat_map (fun r => map (fun te => r ++ [CEdge (snd te); CNode (fst te)]) (neighbors st true (cur_of i r) d ty)) (rows t)).
Proof.
  intros Hg. unfold expand_rows. apply rmapM_flat. intros r Hr. rewrite (src_of_good t x i r Hg Hr). reflexivity.
Qed.

(** the neighbour function of a hop, in the operators' (far end, edge) orientation *)
Definition nb_h (st : store) (h : hop) (cur : Z) : list (Z * Z) :=
  match h_len h with
  | HOne => neighbors st true cur (h_dir h) (h_type h)
  | HVar mn mx => if is_single_hop mn mx then neighbors st true cur (h_dir h) (h_type h)
                  else vle_from st true (h_dir h) (h_type h) mn (vle_max mn mx) cur
  end.
Lemma ostep_h_nb st h cur : ostep_h st h cur = map (fun te => (snd te, fst te)) (nb_h st h cur).
Proof. unfold ostep_h, nb_h, ostep. destruct (h_len h) as [|mn mx]; [reflexivity|]. destruct (is_single_hop mn mx); reflexivity. Qed.

(** node variables sit in NodeId vectors *)
Definition nodecells (t : tbl) (xs : list string) : Prop :=
  forall r x, List.In r (rows t) -> List.In x xs -> exists i, col_cell (cols t) r x = CNode i.
Lemma pos_last_app_notin x cs ds : ~ List.In x ds -> pos_last x (cs ++ ds) = pos_last x cs.
Proof.
  intros H. induction cs as [|c cs IH]; cbn [app pos_last]; [apply pos_last_none; exact H|]. rewrite IH. reflexivity.
Qed.
Lemma nth_error_app_lt {A} (l l' : list A) i : (i < List.length l)%nat -> nth_error (l ++ l') i = nth_error l i.
Proof. intros H. apply nth_error_app1. exact H. Qed.
Lemma gen_expand_nodecells (nb : Z -> list (Z * Z)) t i h xs :
  wfc t -> hop_fresh (cols t) h -> nodecells t xs -> (forall x, List.In x xs -> List.In x (cols t)) -> ~ List.In anon xs ->
  nodecells (mkT (cols t ++ [edge_col (h_evar h); np_var (h_to h)])
                 (flat_map (fun r => map (fun te => r ++ [CEdge (snd te); CNode (fst te)]) (nb (cur_of i r))) (rows t)))
            (np_var (h_to h) :: xs).
Proof.
  intros [_ Hw] (Hf1 & Hf2 & Hf3 & Hf4) Hn Hin Hna r' x Hr' Hx. cbn [rows mkT] in Hr'. apply in_flat_map in Hr'.
  destruct Hr' as (r & Hr & Hr'). apply in_map_iff in Hr'. destruct Hr' as (te & <- & _).
  destruct (Hw r Hr) as [Hl _]. cbn [cols mkT]. destruct Hx as [<-|Hx].
  - exists (fst te). unfold col_cell, row_look. rewrite pos_last_app_last. cbn [obind]. rewrite Hl, nth_error_app_len. reflexivity.
  - destruct (Hn r x Hr Hx) as (j & Hj). exists j. rewrite <- Hj. unfold col_cell, row_look.
    assert (Hnot : ~ List.In x [edge_col (h_evar h); np_var (h_to h)]).
    { pose proof (Hin x Hx) as Hxc. intros [He|[He|[]]].
      - unfold edge_col in He. destruct (h_evar h) as [e|].
        + destruct Hf4 as [_ Hf5]. subst x. exact (existsb_eqb_false _ _ Hf5 Hxc).
        + subst x. exact (Hna Hx).
      - subst x. exact (existsb_eqb_false _ _ Hf1 Hxc). }
    rewrite (pos_last_app_notin x (cols t) _ Hnot).
    destruct (pos_last_some x (cols t) (Hin x Hx)) as (p0 & Hp & Hlt). rewrite Hp. cbn [obind].
    rewrite nth_error_app_lt by lia. reflexivity.
Qed.

Lemma nodecells_incl t xs ys : (forall x, List.In x ys -> List.In x xs) -> nodecells t xs -> nodecells t ys.
Proof. intros H Hn r x Hr Hx. apply Hn; [exact Hr|apply H; exact Hx]. Qed.
Lemma nodecells_filter keep t xs : nodecells t xs -> nodecells (filter_tbl keep t) xs.
Proof. intros Hn r x Hr Hx. cbn [filter_tbl rows mkT cols] in *. apply filter_In in Hr. apply Hn; [apply Hr|exact Hx]. Qed.

Lemma hop_sem_g st h x i input t xs :
  sem_ops st input = Ok t -> good t x i -> wfc t -> hop_fresh (cols t) h ->
  nodecells t xs -> (forall y, List.In y xs -> List.In y (cols t)) -> ~ List.In anon xs ->
  exists t', sem_ops st (hop_plan x h input) = Ok t' /\
             cols t' = cols t ++ [edge_col (h_evar h); np_var (h_to h)] /\
             good t' (np_var (h_to h)) (S (List.length (cols t))) /\ wfc t' /\ nodecells t' (np_var (h_to h) :: xs) /\
             map (abs t' (S (List.length (cols t)))) (rows t') = flat_map (obind_hop_g st h) (map (abs t i) (rows t)).
Proof.
  intros Hs Hg Hw Hf Hnc Hxs Hna.
  set (t1 := mkT (cols t ++ [edge_col (h_evar h); np_var (h_to h)])
                 (flat_map (fun r => map (fun te => r ++ [CEdge (snd te); CNode (fst te)]) (nb_h st h (cur_of i r))) (rows t))).
  pose proof (gen_expand_nodecells (nb_h st h) t i h xs Hw Hf Hnc Hxs Hna) as Hnc'. fold t1 in Hnc'.
  pose proof (gen_expand_good (nb_h st h) t x i h Hg Hf) as Hg'.
  pose proof (gen_expand_abs (nb_h st h) t x i h Hg Hf) as Habs.
  pose proof (gen_expand_wfc (nb_h st h) t i h Hw Hf) as Hw'.
  fold t1 in Hg', Habs, Hw'.
  assert (Hex : exists ex, hop_plan x h input
                           = match np_labels (h_to h) with [] => ex | l :: _ => LFilter (EHasLabel (np_var (h_to h)) l) ex end
                           /\ sem_ops st ex = Ok t1).
  { unfold hop_plan. destruct (h_len h) as [|mn mx] eqn:El.
    - eexists. split; [reflexivity|]. cbn [sem_ops]. rewrite Hs. cbn [rbind]. pose proof Hg as [Hp _]. rewrite Hp. cbn [of_opt rbind is_single_hop].
      rewrite (expand_rows_ok st t x i _ _ Hg). unfold t1, nb_h. rewrite El. reflexivity.
    - eexists. split; [reflexivity|]. cbn [sem_ops]. rewrite Hs. cbn [rbind]. pose proof Hg as [Hp _]. rewrite Hp. cbn [of_opt rbind].
      unfold t1, nb_h. rewrite El. destruct (is_single_hop mn mx).
      + rewrite (expand_rows_ok st t x i _ _ Hg). reflexivity.
      + rewrite (vle_rows_ok st t x i _ _ _ _ Hg Hw). reflexivity. }
  destruct Hex as (ex & Hpl & Hex). rewrite Hpl.
  assert (Habs' : map (abs t1 (S (List.length (cols t)))) (rows t1)
                  = flat_map (fun ec => map (fun ef => (fst ec ++ (match h_evar h with Some r => [(r, EEdge (fst ef))] | None => [] end)
                                                                ++ [(np_var (h_to h), ENode (snd ef))], snd ef))
                                            (ostep_h st h (snd ec))) (map (abs t i) (rows t))).
  { rewrite Habs. apply flat_map_ext_in. intros ec _. rewrite ostep_h_nb. reflexivity. }
  clear Habs.
  destruct (np_labels (h_to h)) as [|l ls] eqn:Elab.
  - exists t1. split; [exact Hex|]. split; [reflexivity|]. split; [exact Hg'|]. split; [exact Hw'|]. split; [exact Hnc'|].
    rewrite Habs'. apply flat_map_ext_in. intros ec _. unfold obind_hop_g.
    rewrite (filter_ext_in' _ (fun _ => true)); [|intros a _; unfold first_label_ok; rewrite Elab; reflexivity].
    rewrite filter_true. reflexivity.
  - set (keep := fun r => passes_row st (cols t1) r (EHasLabel (np_var (h_to h)) l)).
    exists (filter_tbl keep t1). split; [rewrite sem_ops_filter, Hex; reflexivity|].
    split; [reflexivity|]. split; [|split; [apply filter_wfc; exact Hw'|split; [apply nodecells_filter; exact Hnc'|]]].
    + destruct Hg' as [Hp Hr]. split; [exact Hp|]. intros r Hr'. cbn [filter_tbl rows mkT] in Hr'.
      apply filter_In in Hr'. apply Hr. apply Hr'.
    + cbn [filter_tbl rows mkT cols].
      assert (Hk : forall r, List.In r (rows t1) ->
                   keep r = first_label_ok st (h_to h) (snd (abs t1 (S (List.length (cols t))) r))).
      { intros r' Hr'. cbn [rows t1 mkT] in Hr'. apply in_flat_map in Hr'. destruct Hr' as (r & Hr & Hr').
        apply in_map_iff in Hr'. destruct Hr' as (te & <- & _).
        destruct Hg as [_ Hg]. destruct (Hg r Hr) as [Hlen _].
        unfold keep. cbn [cols t1 mkT]. rewrite (haslabel_passes st _ _ _ _ _ _ l Hlen).
        unfold abs, cur_of. cbn [snd]. rewrite Hlen, nth_error_app_len.
        unfold first_label_ok. rewrite Elab. reflexivity. }
      transitivity (filter (fun ec => first_label_ok st (h_to h) (snd ec)) (map (abs t1 (S (List.length (cols t)))) (rows t1))).
      * rewrite filter_map_comm. f_equal. apply filter_ext_in'. exact Hk.
      * rewrite Habs', filter_flat_map. apply flat_map_ext_in. intros ec _. unfold obind_hop_g.
        rewrite filter_map_comm. reflexivity.
Qed.

Lemma hops_sem_g st hs : forall x i input t xs,
  sem_ops st input = Ok t -> good t x i -> wfc t -> hops_fresh (cols t) hs = true ->
  nodecells t xs -> (forall y, List.In y xs -> List.In y (cols t)) -> ~ List.In anon xs ->
  exists t' x' i', sem_ops st (hops_plan x hs input) = Ok t' /\ good t' x' i' /\ wfc t' /\
                   nodecells t' (xs ++ map (fun h => np_var (h_to h)) hs) /\
                   cols t' = cols t ++ flat_map (fun h => [edge_col (h_evar h); np_var (h_to h)]) hs /\
                   map (abs t' i') (rows t') = obind_hops_g st hs (map (abs t i) (rows t)).
Proof.
  induction hs as [|h hs IH]; intros x i input t xs Hs Hg Hw Hf Hnc Hxs Hna.
  - exists t, x, i. split; [exact Hs|split; [exact Hg|split; [exact Hw|split; [cbn [map]; rewrite app_nil_r; exact Hnc|split; [cbn; rewrite app_nil_r; reflexivity|reflexivity]]]]].
  - destruct (hops_fresh_cons _ _ _ Hf) as [Hf1 Hf2].
    destruct (hop_sem_g st h x i input t xs Hs Hg Hw Hf1 Hnc Hxs Hna) as (t1 & Hs1 & Hc1 & Hg1 & Hw1 & Hnc1 & Ha1).
    rewrite <- Hc1 in Hf2.
    assert (Hxs1 : forall y, List.In y (np_var (h_to h) :: xs) -> List.In y (cols t1)).
    { intros y [<-|Hy]; rewrite Hc1; apply in_or_app; [right; right; left; reflexivity|left; apply Hxs; exact Hy]. }
    assert (Hna1 : ~ List.In anon (np_var (h_to h) :: xs)).
    { intros [He|Hy]; [|exact (Hna Hy)]. destruct Hf1 as (_ & _ & Hf3 & _). rewrite He, String.eqb_refl in Hf3. discriminate Hf3. }
    destruct (IH (np_var (h_to h)) (S (List.length (cols t))) (hop_plan x h input) t1 _ Hs1 Hg1 Hw1 Hf2 Hnc1 Hxs1 Hna1)
      as (t' & x' & i' & Hs' & Hg' & Hw' & Hnc' & Hc' & Ha').
    exists t', x', i'. split; [exact Hs'|]. split; [exact Hg'|]. split; [exact Hw'|].
    split; [eapply nodecells_incl; [|exact Hnc']; intros y Hy; cbn [map] in Hy; apply in_app_or in Hy;
            destruct Hy as [Hy|[<-|Hy]]; [apply in_or_app; left; right; exact Hy|apply in_or_app; left; left; reflexivity|apply in_or_app; right; exact Hy]|].
    split; [rewrite Hc', Hc1; cbn [flat_map]; rewrite <- app_assoc; reflexivity|].
    cbn [obind_hops_g]. rewrite <- Ha1. exact Ha'.
Qed.

(** the operators enumerate the operational bindings of ANY pattern with fresh variables — single
    hops, bounded and unbounded variable-length hops alike, no defect class excluded *)
Lemma chain_obindings_nc st p :
  pat_fresh p = true ->
  exists t, sem_ops st (chain_plan p) = Ok t /\ wfc t /\ nodecells t (pat_nvars p) /\
            cols t = np_var (p_start p) :: flat_map (fun h => [edge_col (h_evar h); np_var (h_to h)]) (p_hops p) /\
            tbl_envs t = obindings_g st p.
Proof.
  intros Hf. unfold pat_fresh in Hf. apply andb_true_iff in Hf. destruct Hf as [Hx Hf].
  apply negb_true_iff in Hx.
  set (x := np_var (p_start p)) in *.
  set (label := match np_labels (p_start p) with [] => None | l :: _ => Some l end).
  set (t0 := mkT [x] (scan_rows st label)).
  assert (Hg0 : good t0 x 0).
  { split; [cbn; rewrite String.eqb_refl; reflexivity|].
    intros r Hr. cbn [rows t0 mkT] in Hr. unfold scan_rows in Hr. apply in_map_iff in Hr.
    destruct Hr as (n & <- & _). split; [reflexivity|]. exists (nid n). reflexivity. }
  assert (Hw0 : wfc t0).
  { split.
    - cbn. unfold nonanon. rewrite Hx. cbn. constructor; [intros []|constructor].
    - intros r Hr. cbn [rows t0 mkT] in Hr. unfold scan_rows in Hr. apply in_map_iff in Hr.
      destruct Hr as (n & <- & _). split; [reflexivity|]. repeat constructor. }
  assert (Hn0 : nodecells t0 [x]).
  { intros r y Hr [<-|[]]. cbn [rows t0 mkT] in Hr. unfold scan_rows in Hr. apply in_map_iff in Hr.
    destruct Hr as (n & <- & _). exists (nid n). unfold col_cell, row_look. cbn. rewrite String.eqb_refl. reflexivity. }
  assert (Hx0 : forall y, List.In y [x] -> List.In y (cols t0)) by (intros y Hy; exact Hy).
  assert (Hna0 : ~ List.In anon [x]).
  { intros [He|[]]. rewrite He, String.eqb_refl in Hx. discriminate Hx. }
  destruct (hops_sem_g st (p_hops p) x 0%nat (LScan x label) t0 [x] eq_refl Hg0 Hw0 Hf Hn0 Hx0 Hna0)
    as (t' & x' & i' & Hs' & Hg' & Hw' & Hnc' & Hc' & Ha').
  exists t'. split; [exact Hs'|]. split; [exact Hw'|]. split; [exact Hnc'|]. split; [exact Hc'|].
  unfold tbl_envs, obindings_g.
  transitivity (map fst (map (abs t' i') (rows t'))); [rewrite map_map; reflexivity|].
  rewrite Ha'. f_equal. f_equal.
  cbn [rows t0 mkT]. unfold scan_rows. rewrite map_map.
  rewrite (filter_ext_in' (fun n => match np_labels (p_start p) with [] => true | l :: _ => has_label n l end)
                          (fun n => match label with None => true | Some l => has_label n l end)).
  2:{ intros n _. unfold label. destruct (np_labels (p_start p)); reflexivity. }
  apply map_ext. intros n. unfold abs, row_env, cur_of. cbn. fold x. rewrite Hx. reflexivity.
Qed.

Theorem chain_obindings_g st p :
  pat_fresh p = true ->
  exists t, sem_ops st (chain_plan p) = Ok t /\ wfc t /\
            cols t = np_var (p_start p) :: flat_map (fun h => [edge_col (h_evar h); np_var (h_to h)]) (p_hops p) /\
            tbl_envs t = obindings_g st p.
Proof.
  intros Hf. destruct (chain_obindings_nc st p Hf) as (t & H1 & H2 & _ & H3 & H4). exists t. auto.
Qed.


(** * Walks over adjacency lists versus declarative walks *)
Definition swap (te : Z * Z) : Z * Z := (snd te, fst te).
Lemma ostep_swap st d ty cur : ostep st d ty cur = map swap (neighbors st true cur d ty).
Proof. reflexivity. Qed.

Section Walks.
  Variables (st : store) (d : dir) (ty : option string).
  Hypothesis Hok : store_ok st.
  Hypothesis Hty : type_agree st ty.
  Hypothesis Hloop : match d with
                     | Both => forallb (fun e => negb ((esrc e =? edst e) && type_eq ty (etype e))) (edges st) = true
                     | _ => True end.
  Hypothesis Hlive : edges_live st.

  Lemma dstep_far_live cur ef : List.In ef (dstep st d ty cur) -> node_exists st (snd ef) = true.
  Proof.
    rewrite dstep_hstep. intros H. apply in_flat_map in H. destruct H as (e & He & H).
    destruct (Hlive e He) as [Hs Hd]. unfold hstep in H. destruct (type_eq ty (etype e)); [|destruct H].
    destruct d; repeat (match type of H with context [if ?c then _ else _] => destruct c end);
      cbn in H; try contradiction; destruct H as [<-|[]]; assumption.
  Qed.
  Lemma dstep_live_all cur : dstep_live st d ty cur = dstep st d ty cur.
  Proof.
    unfold dstep_live. rewrite (filter_ext_in' _ (fun _ => true)); [apply filter_true|].
    intros ef Hef. apply dstep_far_live with (cur := cur). exact Hef.
  Qed.
  Lemma ostep_dstep cur : Permutation (ostep st d ty cur) (dstep st d ty cur).
  Proof.
    rewrite <- dstep_live_all. destruct d.
    - rewrite (ostep_out st ty cur Hty). apply Permutation_refl.
    - rewrite (ostep_in st ty cur Hty). apply Permutation_refl.
    - apply ostep_both; assumption.
  Qed.
  Lemma nwalks_dwalks k : forall cur, Permutation (map swap (nwalks st true d ty k cur)) (dwalks st d ty k cur).
  Proof.
    induction k as [|k IH]; intros cur; [constructor|].
    destruct k as [|k].
    - cbn [nwalks dwalks]. rewrite <- ostep_swap. apply ostep_dstep.
    - change (nwalks st true d ty (S (S k)) cur)
        with (flat_map (fun te => nwalks st true d ty (S k) (fst te)) (neighbors st true cur d ty)).
      change (dwalks st d ty (S (S k)) cur)
        with (flat_map (fun ef => dwalks st d ty (S k) (snd ef)) (dstep st d ty cur)).
      rewrite map_flat_map.
      transitivity (flat_map (fun ef => map swap (nwalks st true d ty (S k) (snd ef))) (ostep st d ty cur)).
      + rewrite ostep_swap, flat_map_map. apply Permutation_refl.
      + eapply Permutation_trans; [apply Permutation_flat_map; apply ostep_dstep|].
        apply Permutation_flat_map_pw. intros ef _. apply IH.
  Qed.
  Lemma dwalks_far_live k : forall cur ef, List.In ef (dwalks st d ty k cur) -> node_exists st (snd ef) = true.
  Proof.
    induction k as [|k IH]; intros cur ef H; [destruct H|]. destruct k as [|k].
    - cbn [dwalks] in H. apply dstep_far_live with (cur := cur). exact H.
    - change (dwalks st d ty (S (S k)) cur)
        with (flat_map (fun ef => dwalks st d ty (S k) (snd ef)) (dstep st d ty cur)) in H.
      apply in_flat_map in H. destruct H as (ef' & _ & H). apply IH with (cur := snd ef'). exact H.
  Qed.
End Walks.

(** * One hop of either kind against the declarative semantics *)
Definition hop_ok_g (st : store) (h : hop) : Prop :=
  (List.length (np_labels (h_to h)) <= 1)%nat /\ type_agree st (h_type h) /\ hop_noloop st h /\
  match h_len h with
  | HOne => True
  | HVar mn (Some mx) => (1 <= mn)%nat /\ (mn <= mx)%nat /\ h_evar h = None
  | HVar _ None => False
  end.

Lemma seq_ge a len k : List.In k (seq a len) -> (a <= k)%nat.
Proof. intros H. apply in_seq in H. lia. Qed.

Lemma hop_step_perm_g st h ec :
  store_ok st -> edges_live st -> hop_ok_g st h ->
  Permutation (obind_hop_g st h ec) (bind_hop st h (fst ec) (snd ec)).
Proof.
  intros Hok Hlive (Hlab & Hty & Hn & Hlen).
  destruct (h_len h) as [|mn [mx|]] eqn:El; [| |destruct Hlen].
  - (* single hop: the earlier lemma *)
    assert (Heq : obind_hop_g st h ec = obind_hop st h ec).
    { unfold obind_hop_g, obind_hop, ostep_h. rewrite El. reflexivity. }
    rewrite Heq. apply hop_step_perm; [split; [exact El|split; assumption]|exact Hn].
  - destruct Hlen as (H1 & H2 & Hev). destruct ec as [en cur]. cbn [fst snd].
    assert (Hloop : match h_dir h with
                    | Both => forallb (fun e => negb ((esrc e =? edst e) && type_eq (h_type h) (etype e))) (edges st) = true
                    | _ => True end) by (unfold hop_noloop in Hn; exact Hn).
    set (W := flat_map (fun k => dwalks st (h_dir h) (h_type h) k cur) (seq mn (S mx - mn))).
    (* the operational step is a permutation of the walks *)
    assert (HW : Permutation (ostep_h st h cur) W).
    { unfold ostep_h. rewrite El. destruct (is_single_hop mn (Some mx)) eqn:Es.
      - unfold is_single_hop in Es. destruct mn as [|[|mn]]; try discriminate Es. destruct mx as [|[|mx]]; try discriminate Es.
        unfold W. cbn [seq Nat.sub flat_map dwalks]. rewrite app_nil_r. apply ostep_dstep; assumption.
      - unfold vle_max. rewrite (Nat.max_l mx mn H2).
        eapply Permutation_trans; [apply Permutation_map; apply vle_from_walks|].
        unfold W. rewrite map_flat_map. apply Permutation_flat_map_pw. intros k _.
        apply nwalks_dwalks; assumption. }
    (* the declarative side, rewritten over W *)
    assert (HB : bind_hop st h en cur
                 = map (fun ef => (en ++ [] ++ [(np_var (h_to h), ENode (snd ef))], snd ef))
                       (filter (fun ef => first_label_ok st (h_to h) (snd ef)) W)).
    { unfold bind_hop, hop_ends. rewrite El. cbn [hop_max].
      rewrite (flat_map_ext_in
                 (fun k => match k with O => [(None, cur)] | S _ => map (fun ef => (Some (fst ef), snd ef)) (dwalks st (h_dir h) (h_type h) k cur) end)
                 (fun k => map (fun ef : Z * Z => (Some (fst ef), snd ef)) (dwalks st (h_dir h) (h_type h) k cur))).
      2:{ intros k Hk. apply seq_ge in Hk. destruct k; [lia|reflexivity]. }
      rewrite <- map_flat_map. fold W. rewrite filter_map_comm, map_map. cbn [fst snd].
      rewrite (filter_ext_in' (fun a => node_ok st (h_to h) (snd a)) (fun a => first_label_ok st (h_to h) (snd a))).
      2:{ intros ef Hef. rewrite (node_ok_split st (h_to h) (snd ef) Hlab).
          unfold W in Hef. apply in_flat_map in Hef. destruct Hef as (k & _ & Hef).
          rewrite (dwalks_far_live st (h_dir h) (h_type h) Hloop Hlive k cur ef Hef). reflexivity. }
      apply map_ext. intros ef. reflexivity. }
    rewrite HB. unfold obind_hop_g. rewrite Hev. cbn [fst snd].
    apply Permutation_map. apply Permutation_filter'. exact HW.
Qed.

Lemma obind_hops_g_perm st hs : forall acc acc',
  store_ok st -> edges_live st -> Forall (hop_ok_g st) hs -> Permutation acc acc' ->
  Permutation (obind_hops_g st hs acc) (bind_hops st hs acc').
Proof.
  induction hs as [|h hs IH]; intros acc acc' Hok Hlive H Hp; [exact Hp|].
  inversion H as [|? ? Hh Hr]; subst. cbn [obind_hops_g bind_hops]. apply IH; try assumption.
  eapply Permutation_trans; [apply Permutation_flat_map; exact Hp|].
  apply Permutation_flat_map_pw. intros ec _. apply hop_step_perm_g; assumption.
Qed.

Lemma hops_ok_g_of st p :
  store_ok st -> single_labels p = true -> no_type_case st p = true -> no_both_selfloop st p = true ->
  bounded_hops p = true -> var_hops_anonymous p = true -> Forall (hop_ok_g st) (p_hops p).
Proof.
  unfold single_labels, no_type_case, no_both_selfloop, bounded_hops, var_hops_anonymous, pat_npats. cbn [forallb].
  intros Hok H2 H3 H4 H5 H6. apply andb_true_iff in H2. destruct H2 as [_ H2].
  rewrite forallb_forall in H2, H3, H4, H5, H6.
  apply Forall_forall. intros h Hh. unfold hop_ok_g. repeat split.
  - specialize (H2 (h_to h) (in_map h_to _ _ Hh)). apply Nat.leb_le. exact H2.
  - apply type_agree_of; [exact Hok|]. exact (H3 h Hh).
  - specialize (H4 h Hh). unfold hop_noloop. destruct (h_dir h); [exact I|exact I|exact H4].
  - specialize (H5 h Hh). specialize (H6 h Hh). destruct (h_len h) as [|mn [mx|]]; [exact I| |discriminate H5].
    apply andb_true_iff in H5. destruct H5 as [Ha Hb]. apply Nat.leb_le in Ha, Hb.
    destruct (h_evar h); [discriminate H6|]. auto.
Qed.

Theorem obindings_g_perm st p :
  store_ok st -> edges_live st -> single_labels p = true -> no_type_case st p = true -> no_both_selfloop st p = true ->
  bounded_hops p = true -> var_hops_anonymous p = true ->
  Permutation (obindings_g st p) (bindings st p).
Proof.
  intros Hok Hlive H2 H3 H4 H5 H6. unfold obindings_g, bindings. apply Permutation_map.
  rewrite (filter_ext_in' _ (fun n => forallb (has_label n) (np_labels (p_start p))))
    by (intros n _; symmetry; apply start_filter_eq; exact H2).
  apply obind_hops_g_perm; try assumption; [apply hops_ok_g_of; assumption|apply Permutation_refl].
Qed.

Theorem chain_bindings_var_l st p :
  store_ok st -> edges_live st -> single_labels p = true -> pat_fresh p = true ->
  no_type_case st p = true -> no_both_selfloop st p = true ->
  bounded_hops p = true -> var_hops_anonymous p = true ->
  exists t, sem_ops st (chain_plan p) = Ok t /\ Permutation (tbl_envs t) (bindings st p).
Proof.
  intros Hok Hlive H2 Hf H3 H4 H5 H6. destruct (chain_obindings_g st p Hf) as (t & Hs & _ & _ & He).
  exists t. split; [exact Hs|]. rewrite He. apply obindings_g_perm; assumption.
Qed.

(** the plain core query over such a pattern *)
Theorem plain_answer_var_l st q :
  store_ok st -> edges_live st -> single_labels (q_pat q) = true -> pat_fresh (q_pat q) = true ->
  no_type_case st (q_pat q) = true -> no_both_selfloop st (q_pat q) = true ->
  bounded_hops (q_pat q) = true -> var_hops_anonymous (q_pat q) = true ->
  plain_core q = true -> q_order q = [] -> q_skip q = None -> q_limit q = None ->
  exists rs rs', plan_rows st (cypher_plan_of q) = Ok rs /\ answer st q = Ok rs' /\ Permutation rs rs'.
Proof.
  intros Hok Hlive H2 Hf H3 H4 H5 H6 Hp Ho Hsk Hli. unfold plain_core in Hp. apply andb_true_iff in Hp. destruct Hp as [Hp Hw].
  destruct (q_ret q) as [items dd|] eqn:Hr; [|discriminate Hp]. destruct dd; [discriminate Hp|].
  destruct (chain_obindings_g st (q_pat q) Hf) as (t0 & Hs0 & Hwf0 & Hc0 & He0).
  assert (Hv : forall x, List.In x (pat_vars (q_pat q)) -> List.In x (filter nonanon (cols t0))).
  { intros x Hx. rewrite Hc0. apply pat_vars_cols; assumption. }
  (* WHERE *)
  assert (Hbody : exists t, sem_ops st (where_plan (q_where q) (chain_plan (q_pat q))) = Ok t /\ wfc t /\ cols t = cols t0 /\
                            tbl_envs t = spec_where st (q_where q) (obindings_g st (q_pat q))).
  { unfold where_plan. destruct (q_where q) as [w|].
    - assert (Hna : forall x, List.In x (expr_vars w) -> String.eqb x anon = false).
      { intros x Hx. pose proof (Hv x (expr_vars_in_spec _ _ Hw x Hx)) as Hi. apply filter_In in Hi. destruct Hi as [_ Hi].
        unfold nonanon in Hi. apply negb_true_iff in Hi. exact Hi. }
      destruct (where_sem st w t0 Hwf0 Hna) as [Hwf' He'].
      eexists. split; [rewrite sem_ops_filter, Hs0; reflexivity|]. split; [exact Hwf'|]. split; [reflexivity|]. rewrite He', He0. reflexivity.
    - exists t0. split; [exact Hs0|]. split; [exact Hwf0|]. split; [reflexivity|]. rewrite He0. reflexivity. }
  destruct Hbody as (t & Hs & Hwf & Hc & He).
  eexists. eexists. split; [|split; [apply (answer_plain st q items Hr Ho)|]].
  - apply (cypher_plan_sem st q items t Hr Ho Hs Hwf).
    rewrite forallb_forall in Hp |- *. intros e He'. rewrite Hc. eapply core_item_mono; [exact Hv|apply Hp; exact He'].
  - rewrite Hsk, Hli. cbn [spec_skip spec_limit]. unfold project_envs, body_envs. apply Permutation_map. rewrite He.
    pose proof (obindings_g_perm st (q_pat q) Hok Hlive H2 H3 H4 H5 H6) as Hperm.
    unfold spec_where. destruct (q_where q); [apply Permutation_filter'; exact Hperm|exact Hperm].
Qed.

(** * GQL's placement of SKIP / LIMIT below RETURN (no ORDER BY): Return(Limit(Skip(body))).
    A cutting SKIP / LIMIT copies the rows into Generic vectors; RETURN then reads a property through
    the node id — right for node variables (edge variables: C08-K10). *)
Definition props_on_nodes (p : pattern) (items : list lexpr) : bool :=
  forallb (fun e => match e with EProp x _ => existsb (String.eqb x) (pat_nvars p) | _ => true end) items.

Lemma col_cell_to_gen cs r x : col_cell cs (map to_gen r) x = to_gen (col_cell cs r x).
Proof.
  unfold col_cell, row_look. destruct (pos_last x cs) as [i|]; cbn [obind]; [|reflexivity].
  rewrite nth_error_map. destruct (nth_error r i); reflexivity.
Qed.
Lemma ival_to_gen st cs r e :
  (forall x k, e = EProp x k -> exists i, col_cell cs r x = CNode i) ->
  ival st cs (map to_gen r) e = ival st cs r e.
Proof.
  intros H. destruct e; cbn [ival]; try reflexivity.
  - rewrite col_cell_to_gen. reflexivity.
  - rewrite col_cell_to_gen. destruct (H x k eq_refl) as [i Hi]. rewrite Hi. reflexivity.
Qed.

(** a row as the body produced it, or its copy into Generic vectors *)
Definition gen_rel (r0 r : row) : Prop := r = r0 \/ r = map to_gen r0.
Lemma to_gen_idem r : map to_gen (map to_gen r) = map to_gen r.
Proof. rewrite map_map. apply map_ext. intros c. reflexivity. Qed.
Lemma Forall2_refl_rel {A} (R : A -> A -> Prop) (l : list A) : (forall a, R a a) -> Forall2 R l l.
Proof. intros H. induction l; constructor; auto. Qed.
Lemma Forall2_map_gen (l : list row) : Forall2 gen_rel l (map (map to_gen) l).
Proof. induction l; cbn; constructor; [right; reflexivity|assumption]. Qed.
Lemma F2_len {A B} (R : A -> B -> Prop) l l' : Forall2 R l l' -> List.length l = List.length l'.
Proof. induction 1; cbn; auto. Qed.
Lemma skip_rel n rs rs0 : Forall2 gen_rel rs0 rs -> Forall2 gen_rel (skipn n rs0) (skip_rows n rs).
Proof.
  intros H. unfold skip_rows. destruct (Nat.eqb n 0) eqn:E; [apply Nat.eqb_eq in E; subst n; exact H|].
  clear E. revert rs0 rs H. induction n as [|n IH]; intros rs0 rs H.
  - cbn [skipn]. induction H as [|r0 r l0 l Hr _ IHl]; cbn; constructor; [|exact IHl].
    destruct Hr as [-> | ->]; [right; reflexivity|right; apply to_gen_idem].
  - destruct H as [|r0 r l0 l Hr Hl]; cbn [skipn map]; [constructor|]. apply IH. exact Hl.
Qed.
Lemma limit_rel n rs rs0 : Forall2 gen_rel rs0 rs -> Forall2 gen_rel (firstn n rs0) (limit_rows n rs).
Proof.
  intros H. unfold limit_rows. destruct rs as [|r rs'] eqn:Er.
  - inversion H; subst. destruct n; constructor.
  - rewrite <- Er in *. clear Er r rs'. destruct (Nat.leb n 0) eqn:E0.
    + apply Nat.leb_le in E0. assert (n = 0%nat) by lia. subst n. constructor.
    + destruct (Nat.leb (List.length rs) n) eqn:E1.
      * apply Nat.leb_le in E1. rewrite firstn_all2; [exact H|]. rewrite (F2_len _ _ _ H). exact E1.
      * clear E0 E1. revert rs0 rs H. induction n as [|n IH]; intros rs0 rs H; [constructor|].
        destruct H as [|r0 r l0 l Hr Hl]; cbn [firstn map]; constructor; [|apply IH; exact Hl].
        destruct Hr as [-> | ->]; [right; reflexivity|right; apply to_gen_idem].
Qed.

Lemma gen_rel_idlike r0 r : Forall is_ent r0 -> gen_rel r0 r -> Forall idlike r /\ List.length r = List.length r0.
Proof.
  intros He [-> | ->].
  - split; [|reflexivity]. eapply Forall_impl; [|exact He]. apply is_ent_idlike.
  - split; [|apply map_length]. apply Forall_forall. intros c Hc. apply in_map_iff in Hc. destruct Hc as (c0 & <- & Hc0).
    rewrite Forall_forall in He. specialize (He c0 Hc0). destruct c0; cbn in *; auto; contradiction.
Qed.

Lemma Forall2_in_r {A B} (R : A -> B -> Prop) l l' b : Forall2 R l l' -> List.In b l' -> exists a, List.In a l /\ R a b.
Proof.
  induction 1 as [|a b' l l' Hr _ IH]; intros Hin; [destruct Hin|]. destruct Hin as [<-|Hin].
  - exists a. split; [left; reflexivity|exact Hr].
  - destruct (IH Hin) as (a' & Ha & Hr'). exists a'. split; [right; exact Ha|exact Hr'].
Qed.
Lemma in_firstn' {A} n : forall (l : list A) x, List.In x (firstn n l) -> List.In x l.
Proof. induction n as [|n IH]; intros [|a l] x H; cbn in *; try contradiction. destruct H as [->|H]; [left; reflexivity|right; apply IH; exact H]. Qed.
Lemma in_skipn' {A} n : forall (l : list A) x, List.In x (skipn n l) -> List.In x l.
Proof. induction n as [|n IH]; intros [|a l] x H; cbn in *; try contradiction; [exact H|right; apply IH; exact H]. Qed.

Theorem gql_limit_answer_l st q :
  store_ok st -> single_hops (q_pat q) = true -> single_labels (q_pat q) = true -> pat_fresh (q_pat q) = true ->
  no_type_case st (q_pat q) = true -> directed (q_pat q) = true ->
  plain_core q = true -> q_order q = [] ->
  match q_ret q with RPlain items _ => props_on_nodes (q_pat q) items | _ => true end = true ->
  plan_rows st (gql_plan_of q) = answer st q.
Proof.
  intros Hok H1 H2 Hf H3 H4 Hp Ho Hpn. unfold plain_core in Hp. apply andb_true_iff in Hp. destruct Hp as [Hp Hw].
  destruct (q_ret q) as [items dd|] eqn:Hr; [|discriminate Hp]. destruct dd; [discriminate Hp|].
  destruct (chain_obindings_nc st (q_pat q) Hf) as (t0 & Hs0 & Hwf0 & Hnc0 & Hc0 & He0).
  assert (Hv : forall x, List.In x (pat_vars (q_pat q)) -> List.In x (filter nonanon (cols t0))).
  { intros x Hx. rewrite Hc0. apply pat_vars_cols; assumption. }
  (* the body: WHERE over the chain *)
  assert (Hbody : exists t, sem_ops st (where_plan (q_where q) (chain_plan (q_pat q))) = Ok t /\ wfc t /\ cols t = cols t0 /\
                            nodecells t (pat_nvars (q_pat q)) /\
                            tbl_envs t = spec_where st (q_where q) (obindings_g st (q_pat q))).
  { unfold where_plan. destruct (q_where q) as [w|].
    - assert (Hna : forall x, List.In x (expr_vars w) -> String.eqb x anon = false).
      { intros x Hx. pose proof (Hv x (expr_vars_in_spec _ _ Hw x Hx)) as Hi. apply filter_In in Hi. destruct Hi as [_ Hi].
        unfold nonanon in Hi. apply negb_true_iff in Hi. exact Hi. }
      destruct (where_sem st w t0 Hwf0 Hna) as [Hwf' He'].
      eexists. split; [rewrite sem_ops_filter, Hs0; reflexivity|]. split; [exact Hwf'|]. split; [reflexivity|].
      split; [apply nodecells_filter; exact Hnc0|]. rewrite He', He0. reflexivity.
    - exists t0. split; [exact Hs0|]. split; [exact Hwf0|]. split; [reflexivity|]. split; [exact Hnc0|]. rewrite He0. reflexivity. }
  destruct Hbody as (t & Hs & Hwf & Hc & Hnc & He).
  (* obindings_g = obindings = bindings for single-hop directed patterns *)
  assert (Hob : obindings_g st (q_pat q) = bindings st (q_pat q)).
  { rewrite <- (obindings_directed st (q_pat q) Hok H1 H2 H3 H4). unfold obindings_g, obindings. f_equal.
    clear -H1. unfold single_hops in H1. rewrite forallb_forall in H1.
    assert (Hh : forall hs acc, (forall h, List.In h hs -> h_len h = HOne) -> obind_hops_g st hs acc = obind_hops st hs acc).
    { induction hs as [|h hs IH]; intros acc Hl; [reflexivity|]. cbn [obind_hops_g obind_hops].
      rewrite IH by (intros h' Hh'; apply Hl; right; exact Hh'). f_equal. apply flat_map_ext_in. intros ec _.
      unfold obind_hop_g, obind_hop, ostep_h. rewrite (Hl h (or_introl eq_refl)). reflexivity. }
    apply Hh. intros h Hh'. specialize (H1 h Hh'). destruct (h_len h); [reflexivity|discriminate]. }
  rewrite (answer_plain st q items Hr Ho). unfold body_envs. rewrite <- Hob, <- He.
  (* the plan: Return over Limit over Skip over the body *)
  unfold plan_rows, gql_plan_of. rewrite Hr, Ho. cbn [opt_sort].
  set (cut := fun rs : list row => match q_limit q with Some n => limit_rows n (match q_skip q with Some s => skip_rows s rs | None => rs end)
                                                    | None => match q_skip q with Some s => skip_rows s rs | None => rs end end).
  set (tc := mkT (cols t) (cut (rows t))).
  assert (Hcut : sem_ops st (opt_limit (q_limit q) (opt_skip (q_skip q) (where_plan (q_where q) (chain_plan (q_pat q))))) = Ok tc).
  { unfold tc, cut. destruct (q_limit q) as [n|], (q_skip q) as [s|]; cbn [opt_limit opt_skip];
      rewrite ?sem_ops_limit, ?sem_ops_skip, Hs; cbn [rbind]; try reflexivity; destruct t; reflexivity. }
  set (envs := spec_limit (q_limit q) (spec_skip (q_skip q) (tbl_envs t))).
  set (rows0 := spec_limit (q_limit q) (spec_skip (q_skip q) (rows t))).
  assert (Hrel : Forall2 gen_rel rows0 (rows tc)).
  { unfold rows0, tc, cut. cbn [rows mkT].
    destruct (q_limit q) as [n|], (q_skip q) as [s|]; cbn [spec_limit spec_skip].
    - apply limit_rel. apply skip_rel. apply Forall2_refl_rel. intros a. left. reflexivity.
    - apply limit_rel. apply Forall2_refl_rel. intros a. left. reflexivity.
    - apply skip_rel. apply Forall2_refl_rel. intros a. left. reflexivity.
    - apply Forall2_refl_rel. intros a. left. reflexivity. }
  assert (Hsub : forall r0, List.In r0 rows0 -> List.In r0 (rows t)).
  { intros r0 Hr0. unfold rows0 in Hr0. destruct (q_limit q) as [n|], (q_skip q) as [s|]; cbn [spec_limit spec_skip] in Hr0;
      try (apply in_firstn' in Hr0); try (apply in_skipn' in Hr0); exact Hr0. }
  assert (Hitems : forallb (core_item (cols tc)) items = true).
  { rewrite forallb_forall in Hp |- *. intros e He'. cbn [tc cols mkT].
    eapply core_item_mono; [|apply Hp; exact He']. intros x Hx. rewrite Hc. pose proof (Hv x Hx) as Hi. apply filter_In in Hi. apply Hi. }
  assert (Henvs : envs = map (row_env (cols t)) rows0).
  { unfold envs, rows0, tbl_envs. destruct (q_limit q), (q_skip q); cbn [spec_limit spec_skip];
      rewrite <- ?firstn_map', <- ?skipn_map'; reflexivity. }
  destruct (return_sem_gen st items tc envs (cols tc)) as (t' & Hret & Hout); [|intros x Hx; exact Hx| | |].
  - intros r Hr'. cbn [tc cols mkT]. destruct (Forall2_in_r _ _ _ _ Hrel Hr') as (r0 & Hr0 & Hg).
    destruct Hwf as [_ Hwr]. destruct (Hwr r0 (Hsub r0 Hr0)) as [Hl He0'].
    destruct (gen_rel_idlike r0 r He0' Hg) as [Hid Hlen]. split; [rewrite Hlen; exact Hl|].
    intros x Hx. destruct (col_cell_in (cols t) r x Hx ltac:(rewrite Hlen; exact Hl)) as (c & _ & Hcc & Hcin).
    rewrite Hcc. rewrite Forall_forall in Hid. apply Hid. exact Hcin.
  - exact Hitems.
  - rewrite Henvs. cbn [tc cols mkT].
    assert (Hpair : forall r0 r, List.In r0 rows0 -> gen_rel r0 r ->
                    map (ival st (cols t) r) items = map (item_val st (row_env (cols t) r0)) items).
    { intros r0 r Hr0 Hg. pose proof (Hsub r0 Hr0) as Hin. destruct Hwf as [Hnd Hwr]. destruct (Hwr r0 Hin) as [Hl Hent].
      transitivity (map (ival st (cols t) r0) items).
      - destruct Hg as [-> | ->]; [reflexivity|]. apply map_ext_in. intros e He'. apply ival_to_gen. intros x k ->.
        unfold props_on_nodes in Hpn. rewrite forallb_forall in Hpn. specialize (Hpn _ He'). change (existsb (String.eqb x) (pat_nvars (q_pat q)) = true) in Hpn. apply existsb_exists in Hpn.
        destruct Hpn as (y & Hy & Hxy). apply String.eqb_eq in Hxy. subst y. apply (Hnc r0 x Hin Hy).
      - apply map_ext_in. intros e He'. apply ival_item_val; try assumption.
        rewrite forallb_forall in Hp. eapply core_item_mono; [|apply Hp; exact He']. intros x Hx. rewrite Hc. apply Hv. exact Hx. }
    clear -Hrel Hpair. induction Hrel as [|r0 r l0 l Hg _ IH]; cbn [map]; constructor.
    + apply Hpair; [left; reflexivity|exact Hg].
    + apply IH. intros r0' r' Hin Hg'. apply Hpair; [right; exact Hin|exact Hg'].
  - assert (Hfull : sem_ops st (LReturn (ret_items items) false (opt_limit (q_limit q) (opt_skip (q_skip q) (where_plan (q_where q) (chain_plan (q_pat q)))))) = Ok t')
      by (cbn [sem_ops]; cbn [sem_ops] in Hcut; rewrite Hcut; cbn [rbind]; rewrite Hret; reflexivity).
    rewrite Hfull, Hout. unfold envs, project_envs. f_equal.
    destruct (q_limit q), (q_skip q); cbn [spec_limit spec_skip]; rewrite <- ?firstn_map', <- ?skipn_map'; reflexivity.
Qed.
