(** C08 — chains with bounded variable-length hops: the operators enumerate the operational
    reading [obindings_g] (list equality), which is a permutation of the declarative bindings
    outside the defect classes (and for minimum >= 1, maximum given, anonymous variable-length
    edges, every edge having live end points). *)
From Coq Require Import ZArith List Bool String Ascii Lia Permutation.
From GV Require Export Query.ProofsPattern Query.ProofsVle.
Import ListNotations.
Open Scope Z_scope.

(** * Vocabulary *)
(** the (edge, far end) pairs one hop produces at a node: an ExpandOperator for a single hop, the
    breadth-first VariableLengthExpandOperator otherwise (planner.rs plan_expand) *)
Definition ostep_h (st : store) (h : hop) (cur : Z) : list (Z * Z) :=
  match h_len h with
  | HOne => ostep st (h_dir h) (h_type h) cur
  | HVar mn mx =>
      if is_single_hop mn mx then ostep st (h_dir h) (h_type h) cur
      else map (fun te => (snd te, fst te)) (vle_from st true (h_dir h) (h_type h) mn (vle_max mn mx) cur)
  end.
Definition obind_hop_g (st : store) (h : hop) (ec : env * Z) : list (env * Z) :=
  map (fun ef => (fst ec ++ (match h_evar h with Some r => [(r, EEdge (fst ef))] | None => [] end)
                         ++ [(np_var (h_to h), ENode (snd ef))], snd ef))
      (filter (fun ef => first_label_ok st (h_to h) (snd ef)) (ostep_h st h (snd ec))).
Fixpoint obind_hops_g (st : store) (hs : list hop) (acc : list (env * Z)) : list (env * Z) :=
  match hs with
  | [] => acc
  | h :: r => obind_hops_g st r (flat_map (obind_hop_g st h) acc)
  end.
Definition obindings_g (st : store) (p : pattern) : list env :=
  map fst (obind_hops_g st (p_hops p)
             (map (fun n => ([(np_var (p_start p), ENode (nid n))], nid n))
                  (filter (fun n => match np_labels (p_start p) with [] => true | l :: _ => has_label n l end) (nodes st)))).
(** bounded variable-length hops with minimum >= 1 (not C08-K1, not C08-K4) *)
Definition bounded_hops (p : pattern) : bool :=
  forallb (fun h => match h_len h with
                    | HOne => true
                    | HVar mn (Some mx) => Nat.leb 1 mn && Nat.leb mn mx
                    | HVar _ None => false end) (p_hops p).
(** every edge has live end points (LpgStore deletes a node's edges with it) *)
Definition edges_live (st : store) : Prop :=
  forall e, List.In e (edges st) -> node_exists st (esrc e) = true /\ node_exists st (edst e) = true.

(** * The operators *)
Lemma vle_cell_ent c : is_ent c -> vle_cell c = c.
Proof. destruct c; cbn; intros H; [reflexivity|reflexivity|destruct H]. Qed.
Lemma map_vle_cell r : Forall is_ent r -> map vle_cell r = r.
Proof. induction 1 as [|c r Hc _ IH]; cbn; [reflexivity|rewrite (vle_cell_ent c Hc), IH; reflexivity]. Qed.

Section GenExpand.
  Variable nb : Z -> list (Z * Z).     (* (far end, edge) pairs, as the operators produce them *)
  Variables (t : tbl) (x : string) (i : nat) (h : hop).
  Let t' := mkT (cols t ++ [edge_col (h_evar h); np_var (h_to h)])
                (flat_map (fun r => map (fun te => r ++ [CEdge (snd te); CNode (fst te)]) (nb (cur_of i r))) (rows t)).
  Lemma gen_expand_good : good t x i -> hop_fresh (cols t) h -> good t' (np_var (h_to h)) (S (List.length (cols t))).
  Proof.
    intros Hg (Hf1 & Hf2 & Hf3 & Hf4). split.
    - cbn [cols t' mkT]. apply pos_first_app_fresh; assumption.
    - intros r' Hr'. cbn [rows t' mkT] in Hr'. apply in_flat_map in Hr'. destruct Hr' as (r & Hr & Hr').
      apply in_map_iff in Hr'. destruct Hr' as (te & <- & _).
      destruct Hg as [_ Hg]. destruct (Hg r Hr) as [Hlen _]. split.
      + cbn [cols t' mkT]. rewrite !app_length. cbn. lia.
      + exists (fst te). rewrite Hlen. apply nth_error_app_len.
  Qed.
  Lemma gen_expand_abs : good t x i -> hop_fresh (cols t) h ->
    map (abs t' (S (List.length (cols t)))) (rows t')
    = flat_map (fun ec => map (fun ef => (fst ec ++ (match h_evar h with Some r => [(r, EEdge (fst ef))] | None => [] end)
                                                  ++ [(np_var (h_to h), ENode (snd ef))], snd ef))
                              (map (fun te => (snd te, fst te)) (nb (snd ec))))
               (map (abs t i) (rows t)).
  Proof.
    intros Hg (Hf1 & Hf2 & Hf3 & Hf4).
    cbn [rows t' mkT]. rewrite map_flat_map, flat_map_map. apply flat_map_ext_in. intros r Hr.
    rewrite !map_map. apply map_ext. intros te. cbn [fst snd].
    destruct Hg as [_ Hg]. destruct (Hg r Hr) as [Hlen _].
    unfold abs at 1. cbn [cols t' mkT]. rewrite (row_env_app _ _ _ _ _ _ Hlen), Hf3. f_equal.
    - unfold abs. cbn [fst]. f_equal. f_equal.
      unfold edge_col. destruct (h_evar h) as [e|]; [destruct Hf4 as [Hf4 _]; rewrite Hf4; reflexivity|]. unfold anon. rewrite String.eqb_refl. reflexivity.
    - unfold cur_of. rewrite Hlen, nth_error_app_len. reflexivity.
  Qed.
  Lemma gen_expand_wfc : wfc t -> hop_fresh (cols t) h -> wfc t'.
  Proof.
    intros [Hnd Hr] (Hf1 & Hf2 & Hf3 & Hf4). split.
    - cbn [cols t' mkT]. rewrite filter_app.
      assert (Hto : ~ List.In (np_var (h_to h)) (filter nonanon (cols t))).
      { intro Hin. apply filter_In in Hin. exact (existsb_eqb_false _ _ Hf1 (proj1 Hin)). }
      unfold edge_col in *. destruct (h_evar h) as [e|].
      + destruct Hf4 as [Hf4 Hf5].
        assert (Hfe : filter nonanon [e; np_var (h_to h)] = [e] ++ [np_var (h_to h)])
          by (cbn [filter]; unfold nonanon; rewrite Hf4, Hf3; reflexivity).
        rewrite Hfe. rewrite app_assoc. apply NoDup_snoc.
        * apply NoDup_snoc; [exact Hnd|]. intro Hin. apply filter_In in Hin. exact (existsb_eqb_false _ _ Hf5 (proj1 Hin)).
        * intro Hin. apply in_app_or in Hin. destruct Hin as [Hin|[Heq|[]]]; [exact (Hto Hin)|].
          rewrite Heq, String.eqb_refl in Hf2. discriminate Hf2.
      + assert (Hfe : filter nonanon ["_anon_edge"%string; np_var (h_to h)] = [np_var (h_to h)])
          by (cbn [filter]; unfold nonanon; rewrite Hf3; reflexivity).
        rewrite Hfe. apply NoDup_snoc; assumption.
    - intros r' Hr'. cbn [rows t' mkT] in Hr'. apply in_flat_map in Hr'. destruct Hr' as (r & Hin & Hr').
      apply in_map_iff in Hr'. destruct Hr' as (te & <- & _). destruct (Hr r Hin) as [Hl He]. split.
      + cbn [cols t' mkT]. rewrite !app_length. cbn. lia.
      + apply Forall_app. split; [exact He|]. repeat constructor.
  Qed.
End GenExpand.

Lemma vle_rows_ok st t x i d ty mn mx :
  good t x i -> wfc t ->
  vle_rows st true (cols t) x d ty mn mx (rows t)
  = Ok (flat_map (fun r => map (fun te => r ++ [CEdge (snd te); CNode (fst te)])
                               (vle_from st true d ty mn (vle_max mn mx) (cur_of i r))) (rows t)).
Proof.
  intros Hg [_ Hw]. unfold vle_rows. apply rmapM_flat. intros r Hr.
  rewrite (src_of_good t x i r Hg Hr). cbn [rbind]. destruct (Hw r Hr) as [_ He]. rewrite (map_vle_cell r He). reflexivity.
Qed.
Lemma expand_rows_ok st t x i d ty :
  good t x i ->
  expand_rows st true (cols t) x d ty (rows t)
  = Ok (flat_map (fun r => map (fun te => r ++ [CEdge (snd te); CNode (fst te)]) (neighbors st true (cur_of i r) d ty)) (rows t)).
Proof.
  intros Hg. unfold expand_rows. apply rmapM_flat. intros r Hr. rewrite (src_of_good t x i r Hg Hr). reflexivity.
Qed.

(** the neighbour function of a hop, in the operators' (far end, edge) orientation *)
Definition nb_h (st : store) (h : hop) (cur : Z) : list (Z * Z) :=
  match h_len h with
  | HOne => neighbors st true cur (h_dir h) (h_type h)
  | HVar mn mx => if is_single_hop mn mx then neighbors st true cur (h_dir h) (h_type h)
                  else vle_from st true (h_dir h) (h_type h) mn (vle_max mn mx) cur
  end.
Lemma ostep_h_nb st h cur : ostep_h st h cur = map (fun te => (snd te, fst te)) (nb_h st h cur).
Proof. unfold ostep_h, nb_h, ostep. destruct (h_len h) as [|mn mx]; [reflexivity|]. destruct (is_single_hop mn mx); reflexivity. Qed.

Lemma hop_sem_g st h x i input t :
  sem_ops st input = Ok t -> good t x i -> wfc t -> hop_fresh (cols t) h ->
  exists t', sem_ops st (hop_plan x h input) = Ok t' /\
             cols t' = cols t ++ [edge_col (h_evar h); np_var (h_to h)] /\
             good t' (np_var (h_to h)) (S (List.length (cols t))) /\ wfc t' /\
             map (abs t' (S (List.length (cols t)))) (rows t') = flat_map (obind_hop_g st h) (map (abs t i) (rows t)).
Proof.
  intros Hs Hg Hw Hf.
  set (t1 := mkT (cols t ++ [edge_col (h_evar h); np_var (h_to h)])
                 (flat_map (fun r => map (fun te => r ++ [CEdge (snd te); CNode (fst te)]) (nb_h st h (cur_of i r))) (rows t))).
  pose proof (gen_expand_good (nb_h st h) t x i h Hg Hf) as Hg'.
  pose proof (gen_expand_abs (nb_h st h) t x i h Hg Hf) as Habs.
  pose proof (gen_expand_wfc (nb_h st h) t i h Hw Hf) as Hw'.
  fold t1 in Hg', Habs, Hw'.
  assert (Hex : exists ex, hop_plan x h input
                           = match np_labels (h_to h) with [] => ex | l :: _ => LFilter (EHasLabel (np_var (h_to h)) l) ex end
                           /\ sem_ops st ex = Ok t1).
  { unfold hop_plan. destruct (h_len h) as [|mn mx] eqn:El.
    - eexists. split; [reflexivity|]. cbn [sem_ops]. rewrite Hs. cbn [rbind]. pose proof Hg as [Hp _]. rewrite Hp. cbn [of_opt rbind is_single_hop].
      rewrite (expand_rows_ok st t x i _ _ Hg). unfold t1, nb_h. rewrite El. reflexivity.
    - eexists. split; [reflexivity|]. cbn [sem_ops]. rewrite Hs. cbn [rbind]. pose proof Hg as [Hp _]. rewrite Hp. cbn [of_opt rbind].
      unfold t1, nb_h. rewrite El. destruct (is_single_hop mn mx).
      + rewrite (expand_rows_ok st t x i _ _ Hg). reflexivity.
      + rewrite (vle_rows_ok st t x i _ _ _ _ Hg Hw). reflexivity. }
  destruct Hex as (ex & Hpl & Hex). rewrite Hpl.
  assert (Habs' : map (abs t1 (S (List.length (cols t)))) (rows t1)
                  = flat_map (fun ec => map (fun ef => (fst ec ++ (match h_evar h with Some r => [(r, EEdge (fst ef))] | None => [] end)
                                                                ++ [(np_var (h_to h), ENode (snd ef))], snd ef))
                                            (ostep_h st h (snd ec))) (map (abs t i) (rows t))).
  { rewrite Habs. apply flat_map_ext_in. intros ec _. rewrite ostep_h_nb. reflexivity. }
  clear Habs.
  destruct (np_labels (h_to h)) as [|l ls] eqn:Elab.
  - exists t1. split; [exact Hex|]. split; [reflexivity|]. split; [exact Hg'|]. split; [exact Hw'|].
    rewrite Habs'. apply flat_map_ext_in. intros ec _. unfold obind_hop_g.
    rewrite (filter_ext_in' _ (fun _ => true)); [|intros a _; unfold first_label_ok; rewrite Elab; reflexivity].
    rewrite filter_true. reflexivity.
  - set (keep := fun r => passes_row st (cols t1) r (EHasLabel (np_var (h_to h)) l)).
    exists (filter_tbl keep t1). split; [rewrite sem_ops_filter, Hex; reflexivity|].
    split; [reflexivity|]. split; [|split; [apply filter_wfc; exact Hw'|]].
    + destruct Hg' as [Hp Hr]. split; [exact Hp|]. intros r Hr'. cbn [filter_tbl rows mkT] in Hr'.
      apply filter_In in Hr'. apply Hr. apply Hr'.
    + cbn [filter_tbl rows mkT cols].
      assert (Hk : forall r, List.In r (rows t1) ->
                   keep r = first_label_ok st (h_to h) (snd (abs t1 (S (List.length (cols t))) r))).
      { intros r' Hr'. cbn [rows t1 mkT] in Hr'. apply in_flat_map in Hr'. destruct Hr' as (r & Hr & Hr').
        apply in_map_iff in Hr'. destruct Hr' as (te & <- & _).
        destruct Hg as [_ Hg]. destruct (Hg r Hr) as [Hlen _].
        unfold keep. cbn [cols t1 mkT]. rewrite (haslabel_passes st _ _ _ _ _ _ l Hlen).
        unfold abs, cur_of. cbn [snd]. rewrite Hlen, nth_error_app_len.
        unfold first_label_ok. rewrite Elab. reflexivity. }
      transitivity (filter (fun ec => first_label_ok st (h_to h) (snd ec)) (map (abs t1 (S (List.length (cols t)))) (rows t1))).
      * rewrite filter_map_comm. f_equal. apply filter_ext_in'. exact Hk.
      * rewrite Habs', filter_flat_map. apply flat_map_ext_in. intros ec _. unfold obind_hop_g.
        rewrite filter_map_comm. reflexivity.
Qed.

Lemma hops_sem_g st hs : forall x i input t,
  sem_ops st input = Ok t -> good t x i -> wfc t -> hops_fresh (cols t) hs = true ->
  exists t' x' i', sem_ops st (hops_plan x hs input) = Ok t' /\ good t' x' i' /\ wfc t' /\
                   cols t' = cols t ++ flat_map (fun h => [edge_col (h_evar h); np_var (h_to h)]) hs /\
                   map (abs t' i') (rows t') = obind_hops_g st hs (map (abs t i) (rows t)).
Proof.
  induction hs as [|h hs IH]; intros x i input t Hs Hg Hw Hf.
  - exists t, x, i. split; [exact Hs|split; [exact Hg|split; [exact Hw|split; [cbn; rewrite app_nil_r; reflexivity|reflexivity]]]].
  - destruct (hops_fresh_cons _ _ _ Hf) as [Hf1 Hf2].
    destruct (hop_sem_g st h x i input t Hs Hg Hw Hf1) as (t1 & Hs1 & Hc1 & Hg1 & Hw1 & Ha1).
    rewrite <- Hc1 in Hf2.
    destruct (IH (np_var (h_to h)) (S (List.length (cols t))) (hop_plan x h input) t1 Hs1 Hg1 Hw1 Hf2)
      as (t' & x' & i' & Hs' & Hg' & Hw' & Hc' & Ha').
    exists t', x', i'. split; [exact Hs'|]. split; [exact Hg'|]. split; [exact Hw'|].
    split; [rewrite Hc', Hc1; cbn [flat_map]; rewrite <- app_assoc; reflexivity|].
    cbn [obind_hops_g]. rewrite <- Ha1. exact Ha'.
Qed.

(** the operators enumerate the operational bindings of ANY pattern with fresh variables — single
    hops, bounded and unbounded variable-length hops alike, no defect class excluded *)
Theorem chain_obindings_g st p :
  pat_fresh p = true ->
  exists t, sem_ops st (chain_plan p) = Ok t /\ wfc t /\
            cols t = np_var (p_start p) :: flat_map (fun h => [edge_col (h_evar h); np_var (h_to h)]) (p_hops p) /\
            tbl_envs t = obindings_g st p.
Proof.
  intros Hf. unfold pat_fresh in Hf. apply andb_true_iff in Hf. destruct Hf as [Hx Hf].
  apply negb_true_iff in Hx.
  set (x := np_var (p_start p)) in *.
  set (label := match np_labels (p_start p) with [] => None | l :: _ => Some l end).
  set (t0 := mkT [x] (scan_rows st label)).
  assert (Hg0 : good t0 x 0).
  { split; [cbn; rewrite String.eqb_refl; reflexivity|].
    intros r Hr. cbn [rows t0 mkT] in Hr. unfold scan_rows in Hr. apply in_map_iff in Hr.
    destruct Hr as (n & <- & _). split; [reflexivity|]. exists (nid n). reflexivity. }
  assert (Hw0 : wfc t0).
  { split.
    - cbn. unfold nonanon. rewrite Hx. cbn. constructor; [intros []|constructor].
    - intros r Hr. cbn [rows t0 mkT] in Hr. unfold scan_rows in Hr. apply in_map_iff in Hr.
      destruct Hr as (n & <- & _). split; [reflexivity|]. repeat constructor. }
  destruct (hops_sem_g st (p_hops p) x 0%nat (LScan x label) t0 eq_refl Hg0 Hw0 Hf)
    as (t' & x' & i' & Hs' & Hg' & Hw' & Hc' & Ha').
  exists t'. split; [exact Hs'|]. split; [exact Hw'|]. split; [exact Hc'|].
  unfold tbl_envs, obindings_g.
  transitivity (map fst (map (abs t' i') (rows t'))); [rewrite map_map; reflexivity|].
  rewrite Ha'. f_equal. f_equal.
  cbn [rows t0 mkT]. unfold scan_rows. rewrite map_map.
  rewrite (filter_ext_in' (fun n => match np_labels (p_start p) with [] => true | l :: _ => has_label n l end)
                          (fun n => match label with None => true | Some l => has_label n l end)).
  2:{ intros n _. unfold label. destruct (np_labels (p_start p)); reflexivity. }
  apply map_ext. intros n. unfold abs, row_env, cur_of. cbn. fold x. rewrite Hx. reflexivity.
Qed.

(** * Walks over adjacency lists versus declarative walks *)
Definition swap (te : Z * Z) : Z * Z := (snd te, fst te).
Lemma ostep_swap st d ty cur : ostep st d ty cur = map swap (neighbors st true cur d ty).
Proof. reflexivity. Qed.

Section Walks.
  Variables (st : store) (d : dir) (ty : option string).
  Hypothesis Hok : store_ok st.
  Hypothesis Hty : type_agree st ty.
  Hypothesis Hloop : match d with
                     | Both => forallb (fun e => negb ((esrc e =? edst e) && type_eq ty (etype e))) (edges st) = true
                     | _ => True end.
  Hypothesis Hlive : edges_live st.

  Lemma dstep_far_live cur ef : List.In ef (dstep st d ty cur) -> node_exists st (snd ef) = true.
  Proof.
    rewrite dstep_hstep. intros H. apply in_flat_map in H. destruct H as (e & He & H).
    destruct (Hlive e He) as [Hs Hd]. unfold hstep in H. destruct (type_eq ty (etype e)); [|destruct H].
    destruct d; repeat (match type of H with context [if ?c then _ else _] => destruct c end);
      cbn in H; try contradiction; destruct H as [<-|[]]; assumption.
  Qed.
  Lemma dstep_live_all cur : dstep_live st d ty cur = dstep st d ty cur.
  Proof.
    unfold dstep_live. rewrite (filter_ext_in' _ (fun _ => true)); [apply filter_true|].
    intros ef Hef. apply dstep_far_live with (cur := cur). exact Hef.
  Qed.
  Lemma ostep_dstep cur : Permutation (ostep st d ty cur) (dstep st d ty cur).
  Proof.
    rewrite <- dstep_live_all. destruct d.
    - rewrite (ostep_out st ty cur Hty). apply Permutation_refl.
    - rewrite (ostep_in st ty cur Hty). apply Permutation_refl.
    - apply ostep_both; assumption.
  Qed.
  Lemma nwalks_dwalks k : forall cur, Permutation (map swap (nwalks st true d ty k cur)) (dwalks st d ty k cur).
  Proof.
    induction k as [|k IH]; intros cur; [constructor|].
    destruct k as [|k].
    - cbn [nwalks dwalks]. rewrite <- ostep_swap. apply ostep_dstep.
    - change (nwalks st true d ty (S (S k)) cur)
        with (flat_map (fun te => nwalks st true d ty (S k) (fst te)) (neighbors st true cur d ty)).
      change (dwalks st d ty (S (S k)) cur)
        with (flat_map (fun ef => dwalks st d ty (S k) (snd ef)) (dstep st d ty cur)).
      rewrite map_flat_map.
      transitivity (flat_map (fun ef => map swap (nwalks st true d ty (S k) (snd ef))) (ostep st d ty cur)).
      + rewrite ostep_swap, flat_map_map. apply Permutation_refl.
      + eapply Permutation_trans; [apply Permutation_flat_map; apply ostep_dstep|].
        apply Permutation_flat_map_pw. intros ef _. apply IH.
  Qed.
  Lemma dwalks_far_live k : forall cur ef, List.In ef (dwalks st d ty k cur) -> node_exists st (snd ef) = true.
  Proof.
    induction k as [|k IH]; intros cur ef H; [destruct H|]. destruct k as [|k].
    - cbn [dwalks] in H. apply dstep_far_live with (cur := cur). exact H.
    - change (dwalks st d ty (S (S k)) cur)
        with (flat_map (fun ef => dwalks st d ty (S k) (snd ef)) (dstep st d ty cur)) in H.
      apply in_flat_map in H. destruct H as (ef' & _ & H). apply IH with (cur := snd ef'). exact H.
  Qed.
End Walks.

(** * One hop of either kind against the declarative semantics *)
Definition hop_ok_g (st : store) (h : hop) : Prop :=
  (List.length (np_labels (h_to h)) <= 1)%nat /\ type_agree st (h_type h) /\ hop_noloop st h /\
  match h_len h with
  | HOne => True
  | HVar mn (Some mx) => (1 <= mn)%nat /\ (mn <= mx)%nat /\ h_evar h = None
  | HVar _ None => False
  end.

Lemma seq_ge a len k : List.In k (seq a len) -> (a <= k)%nat.
Proof. intros H. apply in_seq in H. lia. Qed.

Lemma hop_step_perm_g st h ec :
  store_ok st -> edges_live st -> hop_ok_g st h ->
  Permutation (obind_hop_g st h ec) (bind_hop st h (fst ec) (snd ec)).
Proof.
  intros Hok Hlive (Hlab & Hty & Hn & Hlen).
  destruct (h_len h) as [|mn [mx|]] eqn:El; [| |destruct Hlen].
  - (* single hop: the earlier lemma *)
    assert (Heq : obind_hop_g st h ec = obind_hop st h ec).
    { unfold obind_hop_g, obind_hop, ostep_h. rewrite El. reflexivity. }
    rewrite Heq. apply hop_step_perm; [split; [exact El|split; assumption]|exact Hn].
  - destruct Hlen as (H1 & H2 & Hev). destruct ec as [en cur]. cbn [fst snd].
    assert (Hloop : match h_dir h with
                    | Both => forallb (fun e => negb ((esrc e =? edst e) && type_eq (h_type h) (etype e))) (edges st) = true
                    | _ => True end) by (unfold hop_noloop in Hn; exact Hn).
    set (W := flat_map (fun k => dwalks st (h_dir h) (h_type h) k cur) (seq mn (S mx - mn))).
    (* the operational step is a permutation of the walks *)
    assert (HW : Permutation (ostep_h st h cur) W).
    { unfold ostep_h. rewrite El. destruct (is_single_hop mn (Some mx)) eqn:Es.
      - unfold is_single_hop in Es. destruct mn as [|[|mn]]; try discriminate Es. destruct mx as [|[|mx]]; try discriminate Es.
        unfold W. cbn [seq Nat.sub flat_map dwalks]. rewrite app_nil_r. apply ostep_dstep; assumption.
      - unfold vle_max. rewrite (Nat.max_l mx mn H2).
        eapply Permutation_trans; [apply Permutation_map; apply vle_from_walks|].
        unfold W. rewrite map_flat_map. apply Permutation_flat_map_pw. intros k _.
        apply nwalks_dwalks; assumption. }
    (* the declarative side, rewritten over W *)
    assert (HB : bind_hop st h en cur
                 = map (fun ef => (en ++ [] ++ [(np_var (h_to h), ENode (snd ef))], snd ef))
                       (filter (fun ef => first_label_ok st (h_to h) (snd ef)) W)).
    { unfold bind_hop, hop_ends. rewrite El. cbn [hop_max].
      rewrite (flat_map_ext_in
                 (fun k => match k with O => [(None, cur)] | S _ => map (fun ef => (Some (fst ef), snd ef)) (dwalks st (h_dir h) (h_type h) k cur) end)
                 (fun k => map (fun ef : Z * Z => (Some (fst ef), snd ef)) (dwalks st (h_dir h) (h_type h) k cur))).
      2:{ intros k Hk. apply seq_ge in Hk. destruct k; [lia|reflexivity]. }
      rewrite <- map_flat_map. fold W. rewrite filter_map_comm, map_map. cbn [fst snd].
      rewrite (filter_ext_in' (fun a => node_ok st (h_to h) (snd a)) (fun a => first_label_ok st (h_to h) (snd a))).
      2:{ intros ef Hef. rewrite (node_ok_split st (h_to h) (snd ef) Hlab).
          unfold W in Hef. apply in_flat_map in Hef. destruct Hef as (k & _ & Hef).
          rewrite (dwalks_far_live st (h_dir h) (h_type h) Hloop Hlive k cur ef Hef). reflexivity. }
      apply map_ext. intros ef. reflexivity. }
    rewrite HB. unfold obind_hop_g. rewrite Hev. cbn [fst snd].
    apply Permutation_map. apply Permutation_filter'. exact HW.
Qed.

Lemma obind_hops_g_perm st hs : forall acc acc',
  store_ok st -> edges_live st -> Forall (hop_ok_g st) hs -> Permutation acc acc' ->
  Permutation (obind_hops_g st hs acc) (bind_hops st hs acc').
Proof.
  induction hs as [|h hs IH]; intros acc acc' Hok Hlive H Hp; [exact Hp|].
  inversion H as [|? ? Hh Hr]; subst. cbn [obind_hops_g bind_hops]. apply IH; try assumption.
  eapply Permutation_trans; [apply Permutation_flat_map; exact Hp|].
  apply Permutation_flat_map_pw. intros ec _. apply hop_step_perm_g; assumption.
Qed.

Lemma hops_ok_g_of st p :
  store_ok st -> single_labels p = true -> no_type_case st p = true -> no_both_selfloop st p = true ->
  bounded_hops p = true -> var_hops_anonymous p = true -> Forall (hop_ok_g st) (p_hops p).
Proof.
  unfold single_labels, no_type_case, no_both_selfloop, bounded_hops, var_hops_anonymous, pat_npats. cbn [forallb].
  intros Hok H2 H3 H4 H5 H6. apply andb_true_iff in H2. destruct H2 as [_ H2].
  rewrite forallb_forall in H2, H3, H4, H5, H6.
  apply Forall_forall. intros h Hh. unfold hop_ok_g. repeat split.
  - specialize (H2 (h_to h) (in_map h_to _ _ Hh)). apply Nat.leb_le. exact H2.
  - apply type_agree_of; [exact Hok|]. exact (H3 h Hh).
  - specialize (H4 h Hh). unfold hop_noloop. destruct (h_dir h); [exact I|exact I|exact H4].
  - specialize (H5 h Hh). specialize (H6 h Hh). destruct (h_len h) as [|mn [mx|]]; [exact I| |discriminate H5].
    apply andb_true_iff in H5. destruct H5 as [Ha Hb]. apply Nat.leb_le in Ha, Hb.
    destruct (h_evar h); [discriminate H6|]. auto.
Qed.

Theorem obindings_g_perm st p :
  store_ok st -> edges_live st -> single_labels p = true -> no_type_case st p = true -> no_both_selfloop st p = true ->
  bounded_hops p = true -> var_hops_anonymous p = true ->
  Permutation (obindings_g st p) (bindings st p).
Proof.
  intros Hok Hlive H2 H3 H4 H5 H6. unfold obindings_g, bindings. apply Permutation_map.
  rewrite (filter_ext_in' _ (fun n => forallb (has_label n) (np_labels (p_start p))))
    by (intros n _; symmetry; apply start_filter_eq; exact H2).
  apply obind_hops_g_perm; try assumption; [apply hops_ok_g_of; assumption|apply Permutation_refl].
Qed.

Theorem chain_bindings_var_l st p :
  store_ok st -> edges_live st -> single_labels p = true -> pat_fresh p = true ->
  no_type_case st p = true -> no_both_selfloop st p = true ->
  bounded_hops p = true -> var_hops_anonymous p = true ->
  exists t, sem_ops st (chain_plan p) = Ok t /\ Permutation (tbl_envs t) (bindings st p).
Proof.
  intros Hok Hlive H2 Hf H3 H4 H5 H6. destruct (chain_obindings_g st p Hf) as (t & Hs & _ & _ & He).
  exists t. split; [exact Hs|]. rewrite He. apply obindings_g_perm; assumption.
Qed.

(** the plain core query over such a pattern *)
Theorem plain_answer_var_l st q :
  store_ok st -> edges_live st -> single_labels (q_pat q) = true -> pat_fresh (q_pat q) = true ->
  no_type_case st (q_pat q) = true -> no_both_selfloop st (q_pat q) = true ->
  bounded_hops (q_pat q) = true -> var_hops_anonymous (q_pat q) = true ->
  plain_core q = true -> q_order q = [] -> q_skip q = None -> q_limit q = None ->
  exists rs rs', plan_rows st (cypher_plan_of q) = Ok rs /\ answer st q = Ok rs' /\ Permutation rs rs'.
Proof.
  intros Hok Hlive H2 Hf H3 H4 H5 H6 Hp Ho Hsk Hli. unfold plain_core in Hp. apply andb_true_iff in Hp. destruct Hp as [Hp Hw].
  destruct (q_ret q) as [items dd|] eqn:Hr; [|discriminate Hp]. destruct dd; [discriminate Hp|].
  destruct (chain_obindings_g st (q_pat q) Hf) as (t0 & Hs0 & Hwf0 & Hc0 & He0).
  assert (Hv : forall x, List.In x (pat_vars (q_pat q)) -> List.In x (filter nonanon (cols t0))).
  { intros x Hx. rewrite Hc0. apply pat_vars_cols; assumption. }
  (* WHERE *)
  assert (Hbody : exists t, sem_ops st (where_plan (q_where q) (chain_plan (q_pat q))) = Ok t /\ wfc t /\ cols t = cols t0 /\
                            tbl_envs t = spec_where st (q_where q) (obindings_g st (q_pat q))).
  { unfold where_plan. destruct (q_where q) as [w|].
    - assert (Hna : forall x, List.In x (expr_vars w) -> String.eqb x anon = false).
      { intros x Hx. pose proof (Hv x (expr_vars_in_spec _ _ Hw x Hx)) as Hi. apply filter_In in Hi. destruct Hi as [_ Hi].
        unfold nonanon in Hi. apply negb_true_iff in Hi. exact Hi. }
      destruct (where_sem st w t0 Hwf0 Hna) as [Hwf' He'].
      eexists. split; [rewrite sem_ops_filter, Hs0; reflexivity|]. split; [exact Hwf'|]. split; [reflexivity|]. rewrite He', He0. reflexivity.
    - exists t0. split; [exact Hs0|]. split; [exact Hwf0|]. split; [reflexivity|]. rewrite He0. reflexivity. }
  destruct Hbody as (t & Hs & Hwf & Hc & He).
  eexists. eexists. split; [|split; [apply (answer_plain st q items Hr Ho)|]].
  - apply (cypher_plan_sem st q items t Hr Ho Hs Hwf).
    rewrite forallb_forall in Hp |- *. intros e He'. rewrite Hc. eapply core_item_mono; [exact Hv|apply Hp; exact He'].
  - rewrite Hsk, Hli. cbn [spec_skip spec_limit]. unfold project_envs, body_envs. apply Permutation_map. rewrite He.
    pose proof (obindings_g_perm st (q_pat q) Hok Hlive H2 H3 H4 H5 H6) as Hperm.
    unfold spec_where. destruct (q_where q); [apply Permutation_filter'; exact Hperm|exact Hperm].
Qed.
