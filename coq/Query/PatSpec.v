(** C08 / C10 — the vocabulary of the theorems: store invariants, hygiene conditions on patterns
    and plans, the row-to-binding abstraction, the canonical plan shapes of the front ends, and the
    decidable finding classes that the theorems exclude.  Definitions only; no proofs. *)
From Coq Require Import ZArith List Bool String Ascii Lia Permutation.
From GV Require Export Query.Phys.
Import ListNotations.
Open Scope Z_scope.

(** * Store invariants *)
(** ids are unique (LpgStore allocates them from counters) *)
Definition store_ok (st : store) : Prop :=
  NoDup (map nid (nodes st)) /\ NoDup (map eid (edges st)).
(** a scalar in normal form: a float n/d has d > 0 and is in lowest terms (what the harness prints) *)
Definition val_ok (v : val) : bool :=
  match v with
  | VFlt n d => (0 <? d) && (Z.gcd n d =? 1)
  | VList _ => false
  | _ => true
  end.
Definition vals_ok (st : store) : Prop :=
  forall n k v, List.In n (nodes st) -> List.In (k, v) (nprops n) -> val_ok v = true.
(** the zone-map input of a column covers every live value of that property (C14's [zone_ok]):
    values enter [zhist] on every set and are never taken out *)
Definition zone_ok (st : store) : Prop :=
  forall k c, lookup k (zcols st) = Some c ->
    Forall (fun v => val_ok v = true) (zhist c) /\
    forall n v, List.In n (nodes st) -> lookup k (nprops n) = Some v -> List.In v (zhist c).
(** every literal of an expression is a normal-form scalar *)
Fixpoint lits_ok (e : lexpr) : bool :=
  match e with
  | ELit v => val_ok v
  | ECmp _ a b | EAnd a b | EOr a b => lits_ok a && lits_ok b
  | ENot a | EIsNull a | EIsNotNull a => lits_ok a
  | _ => true
  end.

(** * Patterns of the core *)
Definition anon : string := "_anon_edge"%string.
Definition pat_nvars (p : pattern) : list string := np_var (p_start p) :: map (fun h => np_var (h_to h)) (p_hops p).
Definition pat_evars (p : pattern) : list string :=
  flat_map (fun h => match h_evar h with Some r => [r] | None => [] end) (p_hops p).
(** variable hygiene: all variables of the pattern are different and none is the planner's name
    for an anonymous edge column *)
Definition pat_hygiene (p : pattern) : Prop :=
  NoDup (pat_nvars p ++ pat_evars p) /\ ~ List.In anon (pat_nvars p ++ pat_evars p).
Definition single_hops (p : pattern) : bool :=
  forallb (fun h => match h_len h with HOne => true | _ => false end) (p_hops p).
Definition directed (p : pattern) : bool :=
  forallb (fun h => match h_dir h with Both => false | _ => true end) (p_hops p).
Definition pat_npats (p : pattern) : list npat := p_start p :: map h_to (p_hops p).
(** not C08-K7 *)
Definition single_labels (p : pattern) : bool :=
  forallb (fun np => Nat.leb (List.length (np_labels np)) 1) (pat_npats p).
(** not C08-K2: no pattern type differs from a stored type only in ASCII case *)
Definition no_type_case (st : store) (p : pattern) : bool :=
  forallb (fun h => match h_type h with
                    | Some t => forallb (fun e => implb (eq_ci (etype e) t) (String.eqb (etype e) t)) (edges st)
                    | None => true end) (p_hops p).
(** not C08-K3: no undirected edge pattern meets a self-loop of a type it accepts *)
Definition no_both_selfloop (st : store) (p : pattern) : bool :=
  forallb (fun h => match h_dir h with
                    | Both => forallb (fun e => negb ((esrc e =? edst e) && type_eq (h_type h) (etype e))) (edges st)
                    | _ => true end) (p_hops p).

(** * Rows as bindings.  A row of a chain plan assigns node and edge ids to the plan's columns; the
    columns of anonymous edges are not variables of the pattern. *)
Definition row_env (cs : list string) (r : row) : env :=
  flat_map (fun cc => if String.eqb (fst cc) anon then []
                      else match cell_ent (snd cc) with Some e => [(fst cc, e)] | None => [] end)
           (combine cs r).
Definition tbl_envs (t : tbl) : list env := map (row_env (cols t)) (rows t).

(** * Walks: the declarative reading of a bounded variable-length edge pattern, as a multiset of
    (last edge, end node) over all walk lengths mn..mx *)
Definition walks_between (st : store) (d : dir) (ty : option string) (mn mx : nat) (s : Z) : list (Z * Z) :=
  flat_map (fun k => dwalks st d ty k s) (seq mn (S mx - mn)).

(** * Queries of the core and the plans the front ends build for them *)
Definition is_entity_expr (e : lexpr) : bool := match e with EVar _ | EProp _ _ => true | _ => false end.
Definition expr_var (e : lexpr) : list string := match e with EVar x | EProp x _ => [x] | _ => [] end.
(** the plan below RETURN: the chain, then the WHERE filter *)
Definition where_plan (w : option lexpr) (input : lop) : lop :=
  match w with Some e => LFilter e input | None => input end.
(** GQL (gql_translator.rs translate_match_query) for a plain RETURN without SKIP/LIMIT:
    Return(Sort(Filter(chain))); SKIP/LIMIT would go BELOW the sort (C08-K6) *)
Definition gql_plan (q : query) : lop :=
  let body := where_plan (q_where q) (chain_plan (q_pat q)) in
  match q_ret q with
  | RPlain items d =>
      let items' := map (fun e => (e, @None string)) items in
      LReturn items' d
        (match q_order q with
         | [] => body
         | ks => LSort (flat_map (fun k => match k with OEnv e desc => [(e, desc)] | OCol _ _ => [] end) ks) body
         end)
  | RAgg keys aggs => LAggregate keys aggs body
  end.
(** Cypher (cypher_translator.rs) for a plain RETURN without ORDER BY: Limit(Skip(Return(Filter(chain)))) *)
Definition cypher_plan (q : query) : lop :=
  let body := where_plan (q_where q) (chain_plan (q_pat q)) in
  match q_ret q with
  | RPlain items d =>
      let r := LReturn (map (fun e => (e, @None string)) items) d body in
      let r := match q_skip q with Some n => LSkip n r | None => r end in
      match q_limit q with Some n => LLimit n r | None => r end
  | RAgg keys aggs => LAggregate keys aggs body
  end.

(** expressions whose variables are variables of the pattern *)
Fixpoint expr_vars_in (vs : list string) (e : lexpr) : bool :=
  match e with
  | ELit _ => true
  | EVar x | EProp x _ | EHasLabel x _ | ELabelIn _ x => existsb (String.eqb x) vs
  | ECmp _ a b | EAnd a b | EOr a b => expr_vars_in vs a && expr_vars_in vs b
  | ENot a | EIsNull a | EIsNotNull a => expr_vars_in vs a
  end.
(** the "x_k" column names that Sort / Aggregate materialise do not collide with variables *)
Definition prop_col_names (es : list lexpr) : list string :=
  flat_map (fun e => match e with EProp x k => [(x ++ "_" ++ k)%string] | _ => [] end) es.

(** * Plans on which the physical alternatives are compared (C10) *)
(** the chain part of a plan: scans, expands and filters only *)
Fixpoint chain_only (p : lop) : bool :=
  match p with
  | LScan _ _ => true
  | LExpand _ _ _ _ _ _ _ i => chain_only i
  | LFilter _ i => chain_only i
  | _ => false
  end.
(** every Filter sits in the chain part (true of every plan the four front ends emit for the core) *)
Fixpoint filters_in_chain (p : lop) : bool :=
  match p with
  | LScan _ _ => true
  | LExpand _ _ _ _ _ _ _ i => filters_in_chain i
  | LFilter _ i => chain_only i && filters_in_chain i
  | LReturn _ _ i | LProject _ i | LSort _ i | LSkip _ i | LLimit _ i | LDistinct i | LAggregate _ _ i => filters_in_chain i
  end.
(** the columns a chain plan produces, and which of them hold edges *)
Fixpoint chain_cols_of (p : lop) : list string :=
  match p with
  | LScan x _ => [x]
  | LExpand _ to ev _ _ _ _ i => chain_cols_of i ++ [edge_col ev; to]
  | LFilter _ i => chain_cols_of i
  | _ => []
  end.
Fixpoint chain_edge_cols (p : lop) : list string :=
  match p with
  | LExpand _ _ ev _ _ _ _ i => edge_col ev :: chain_edge_cols i
  | LFilter _ i => chain_edge_cols i
  | _ => []
  end.
(** column hygiene of a chain plan: all column names different (so that "the column of x" is
    unambiguous) — anonymous edges excepted, which no expression can name *)
Definition chain_hygiene (p : lop) : Prop :=
  NoDup (filter (fun c => negb (String.eqb c anon)) (chain_cols_of p)).
(** all literals in the plan's filters are normal-form scalars *)
Fixpoint plan_lits_ok (p : lop) : bool :=
  match p with
  | LScan _ _ => true
  | LFilter e i => lits_ok e && plan_lits_ok i
  | LExpand _ _ _ _ _ _ _ i | LReturn _ _ i | LProject _ i | LSort _ i | LSkip _ i | LLimit _ i | LDistinct i
  | LAggregate _ _ i => plan_lits_ok i
  end.

(** C10-K4 (complete form): the range path decides with compare_values_for_range (same type only,
    Bool included) what the filter decides with compare_values (Int/Float mixed, no Bool) *)
Definition range_lit_odd (st : store) (k : string) (v : val) : bool :=
  match v with
  | VBool _ => true
  | _ => existsb (fun n => match lookup k (nprops n) with
                           | Some v' => match v', v with
                                        | VInt _, VFlt _ _ | VFlt _ _, VInt _ => true
                                        | _, _ => false end
                           | None => false end) (nodes st)
  end.

(** * The plan cache: the reference behaviour (every execution compiles afresh against the
    statistics of the store as it is then) and the invariant of a cache (every entry was compiled
    from its text under SOME statistics) *)
Section CacheSpec.
  Variable text : Type.
  Variable text_eqb : text -> text -> bool.
  Variable stats : Type.
  Variable compile : text -> stats -> option lop.
  Variable stats_of : store -> stats.
  Fixpoint replay_fresh (o : opts) (st : store) (h : list (event text)) : list (res tbl) :=
    match h with
    | [] => []
    | Change _ f :: r => replay_fresh o (f st) r
    | Exec _ t :: r => (match compile t (stats_of st) with Some p => run o st p | None => Err end) :: replay_fresh o st r
    end.
  Definition cache_sound (c : cache text) : Prop :=
    forall t p, cache_get text text_eqb c t = Some p -> exists s, compile t s = Some p.
  (** what C09 establishes for the optimizer: whatever statistics the plan of a text was optimized
      under, it computes the same result on every store; acceptance does not depend on statistics *)
  Definition compile_stable (o : opts) : Prop :=
    forall t s1 s2, match compile t s1, compile t s2 with
                    | Some p1, Some p2 => forall st, run o st p1 = run o st p2
                    | None, None => True
                    | _, _ => False
                    end.
End CacheSpec.

(** * Flat execution of a chain of single-hop expands (what nested ExpandOperators compute) *)
Fixpoint flat_steps (st : store) (t : tbl) (steps : list step) : res tbl :=
  match steps with
  | [] => Ok t
  | s :: r =>
      do _ <- of_opt (pos_first (s_from s) (cols t));
      do rs <- expand_rows st true (cols t) (s_from s) (s_dir s) (s_type s) (rows t);
      flat_steps st (mkT (cols t ++ s_cols s) rs) r
  end.
(** the steps form a path whose columns are new: each step adds [edge; target], a later step starts
    at the previous target, and no target name occurs earlier *)
Fixpoint steps_path (seen : list string) (prev_to : option string) (ss : list step) : Prop :=
  match ss with
  | [] => True
  | s :: r =>
      (match prev_to with Some t => s_from s = t | None => True end) /\
      match s_cols s with
      | [e; to] => ~ List.In to seen /\ to <> e /\ steps_path (seen ++ [e; to]) (Some to) r
      | _ => False
      end
  end.
(** not C10-K6 on the steps after the first *)
Definition steps_no_type_case (st : store) (ss : list step) : bool :=
  forallb (fun s => match s_type s with
                    | Some t => forallb (fun e => implb (eq_ci (etype e) t) (String.eqb (etype e) t)) (edges st)
                    | None => true end) (tl ss).
