(** C08 / C10 — comparison of implementation observations with the model (run by the checks),
    the property oracles evaluated on implementation output, and the finding classes K. *)
From Coq Require Import ZArith List Bool String Ascii.
From GV Require Export Query.Phys.
Import ListNotations.
Open Scope Z_scope.

(** what [Session::execute*] returned: an error, or column names and rows *)
Inductive obs := ObsErr | ObsRows (cs : list string) (rs : list (list val)).
Inductive cmode := Seq | Bag.
Inductive lang := LGql | LCypher | LGremlin | LGraphql.

(** values equal up to the rounding of a float quotient (avg): relative error below 2^-40 *)
Fixpoint val_approx (a b : val) : bool :=
  match a, b with
  | VFlt n d, VFlt m e =>
      let x := n * e in let y := m * d in
      (Z.abs (x - y) * 1099511627776 <=? Z.abs y) || (x =? y)
  | VFlt n d, VInt y | VInt y, VFlt n d => n =? y * d
  | VList l1, VList l2 =>
      (fix go (l1 l2 : list val) : bool :=
         match l1, l2 with
         | [], [] => true
         | x :: xs, y :: ys => val_approx x y && go xs ys
         | _, _ => false
         end) l1 l2
  | _, _ => val_eqb a b
  end.
Fixpoint row_approx (a b : list val) : bool :=
  match a, b with
  | [], [] => true
  | x :: xs, y :: ys => val_approx x y && row_approx xs ys
  | _, _ => false
  end.
Fixpoint seq_eqb (a b : list (list val)) : bool :=
  match a, b with
  | [], [] => true
  | x :: xs, y :: ys => row_approx x y && seq_eqb xs ys
  | _, _ => false
  end.
Fixpoint remove_first (x : list val) (l : list (list val)) : option (list (list val)) :=
  match l with
  | [] => None
  | y :: r => if row_approx x y then Some r else option_map (cons y) (remove_first x r)
  end.
Fixpoint bag_eqb (a b : list (list val)) : bool :=
  match a with
  | [] => match b with [] => true | _ => false end
  | x :: xs => match remove_first x b with Some b' => bag_eqb xs b' | None => false end
  end.
Definition rows_match (m : cmode) (a b : list (list val)) : bool :=
  match m with Seq => seq_eqb a b | Bag => bag_eqb a b end.
Definition strs_eqb (a b : list string) : bool :=
  (fix go (a b : list string) : bool :=
     match a, b with
     | [], [] => true
     | x :: xs, y :: ys => String.eqb x y && go xs ys
     | _, _ => false
     end) a b.

(** ** correspondence: the physical model of the dumped (optimized) logical plan == the engine *)
Definition chk_run (o : opts) (st : store) (p : lop) (m : cmode) (ob : obs) : bool :=
  match run o st p, ob with
  | Err, ObsErr => true
  | Ok t, ObsRows cs rs => strs_eqb (cols t) cs && rows_match m (out_rows t) rs
  | _, _ => false
  end.
(** the model's own output, for diagnostics *)
Definition show_run (o : opts) (st : store) (p : lop) : option (list string * list (list val)) :=
  match run o st p with Ok t => Some (cols t, out_rows t) | Err => None end.

(** ** C08 oracle: the engine's rows == the declarative answer of the abstract query *)
Definition orc_answer (st : store) (q : query) (m : cmode) (ob : obs) : bool :=
  match answer st q, ob with
  | Ok rs, ObsRows _ rs' => rows_match m rs rs'
  | _, _ => false
  end.
(** SKIP / LIMIT without a total ORDER BY: WHICH rows are cut is not defined by the query (the order
    of groups, of DISTINCT rows, of bindings is not), so the engine's rows must be SOME rows of the
    full answer — a sub-multiset — and as many as the clauses leave *)
Fixpoint sub_bag (a b : list (list val)) : bool :=
  match a with
  | [] => true
  | x :: xs => match remove_first x b with Some b' => sub_bag xs b' | None => false end
  end.
Definition orc_answer_cut (st : store) (q : query) (ob : obs) : bool :=
  match answer st (mkQ (q_pat q) (q_where q) (q_ret q) (q_order q) None None), ob with
  | Ok full, ObsRows _ rs =>
      Nat.eqb (List.length rs) (List.length (spec_limit (q_limit q) (spec_skip (q_skip q) full))) && sub_bag rs full
  | _, _ => false
  end.
Definition show_answer (st : store) (q : query) : option (list (list val)) :=
  match answer st q with Ok rs => Some rs | Err => None end.
(** the dumped plan agrees with the declarative answer when no physical optimisation interferes
    (separates translator/planner-logic deviations from physical-path deviations) *)
Definition orc_plan (st : store) (p : lop) (q : query) (m : cmode) : bool :=
  match sem_ops st p, answer st q with
  | Ok t, Ok rs => rows_match m (out_rows t) rs
  | _, _ => false
  end.
(** ** C10 oracle: two executions of one text must agree (errors included) *)
Definition orc_same (m : cmode) (a b : obs) : bool :=
  match a, b with
  | ObsErr, ObsErr => true
  | ObsRows c1 r1, ObsRows c2 r2 => strs_eqb c1 c2 && rows_match m r1 r2
  | _, _ => false
  end.

(** * Finding classes of C08 (decidable; evaluated on the failing input) *)
Definition hops (q : query) : list hop := p_hops (q_pat q).
Definition npats (q : query) : list npat := p_start (q_pat q) :: map h_to (hops q).
(** K1: a variable-length edge pattern without a maximum *)
Definition k1_unbounded (q : query) : bool :=
  existsb (fun h => match h_len h with HVar _ None => true | _ => false end) (hops q).
(** K2: a pattern edge type and a stored edge type that differ only in ASCII case *)
Definition k2_type_case (st : store) (q : query) : bool :=
  existsb (fun h => match h_type h with
                    | Some t => existsb (fun e => eq_ci (etype e) t && negb (String.eqb (etype e) t)) (edges st)
                    | None => false end) (hops q).
(** K3: an undirected edge pattern on a graph with a self-loop (of a type the pattern accepts) *)
Definition k3_both_selfloop (st : store) (q : query) : bool :=
  existsb (fun h => match h_dir h with
                    | Both => existsb (fun e => (esrc e =? edst e) && match h_type h with Some t => eq_ci (etype e) t | None => true end) (edges st)
                    | _ => false end) (hops q).
(** K4: a variable-length edge pattern whose minimum is 0 *)
Definition k4_zero_hops (q : query) : bool :=
  existsb (fun h => match h_len h with HVar O _ => true | _ => false end) (hops q).
(** K5 (repaired by 36a1196): RETURN DISTINCT (ReturnOp.distinct was never planned) *)
Definition k5_return_distinct (q : query) : bool :=
  match q_ret q with RPlain _ true => true | _ => false end.
(** K6: GQL applies SKIP/LIMIT below RETURN, hence before DISTINCT.  ([k6_gql_limit_first_pre]:
    before ce12a2a also before ORDER BY and before aggregation) *)
Definition k6_gql_limit_first (l : lang) (q : query) : bool :=
  match l with
  | LGql => (match q_skip q, q_limit q with None, None => false | _, _ => true end)
            && (match q_ret q with RPlain _ true => true | _ => false end)
  | _ => false
  end.
Definition k6_gql_limit_first_pre (l : lang) (q : query) : bool :=
  match l with
  | LGql => (match q_skip q, q_limit q with None, None => false | _, _ => true end)
            && (match q_order q, q_ret q with
                | _ :: _, _ => true
                | _, RAgg _ _ => true
                | _, RPlain _ true => true
                | _, _ => false end)
  | _ => false
  end.
(** K7: a node pattern with more than one label (only the first is used) *)
Definition k7_multi_label (q : query) : bool :=
  existsb (fun np => Nat.ltb 1 (List.length (np_labels np))) (npats q).
(** K10: a property of an EDGE variable is read above a materialising operator (ORDER BY, a cutting
    SKIP/LIMIT, WITH): the re-pushed column is read as node ids *)
Fixpoint expr_vars (e : lexpr) : list string :=
  match e with
  | ELit _ => []
  | EVar x => [x]
  | EProp x _ => [x]
  | ECmp _ a b | EAnd a b | EOr a b => expr_vars a ++ expr_vars b
  | ENot a | EIsNull a | EIsNotNull a => expr_vars a
  | EHasLabel x _ => [x]
  | ELabelIn _ x => [x]
  end.
Fixpoint expr_props (e : lexpr) : list string :=      (* variables whose property is read *)
  match e with
  | EProp x _ => [x]
  | ECmp _ a b | EAnd a b | EOr a b => expr_props a ++ expr_props b
  | ENot a | EIsNull a | EIsNotNull a => expr_props a
  | _ => []
  end.
Definition edge_vars (q : query) : list string :=
  flat_map (fun h => match h_evar h with Some r => [r] | None => [] end) (hops q).
Definition out_exprs (q : query) : list lexpr :=
  match q_ret q with
  | RPlain items _ => items
  | RAgg keys aggs => keys ++ flat_map (fun a => match ag_arg a with Some e => [e] | None => [] end) aggs
  end.
Definition reads_edge_prop (q : query) : bool :=
  existsb (fun e => existsb (fun x => existsb (String.eqb x) (edge_vars q)) (expr_props e)) (out_exprs q).
Definition k10_edge_prop_materialised (q : query) : bool :=
  reads_edge_prop q
  && (match q_order q, q_skip q, q_limit q with [], None, None => false | _, _, _ => true end).

(** * Finding classes of C10, on the plan that is executed *)
Fixpoint subplans (p : lop) : list lop :=
  p :: match p with
       | LScan _ _ => []
       | LExpand _ _ _ _ _ _ _ i | LFilter _ i | LReturn _ _ i | LProject _ i | LSort _ i
       | LSkip _ i | LLimit _ i | LDistinct i | LAggregate _ _ i => subplans i
       end.
(** variables bound by an Expand as its EDGE variable *)
Definition plan_edge_vars (p : lop) : list string :=
  flat_map (fun s => match s with LExpand _ _ (Some r) _ _ _ _ _ => [r] | _ => [] end) (subplans p).
(** C10-K1: the zone-map check prunes a filter whose predicate reads a property of an edge variable *)
Definition k_zone_edge (st : store) (p : lop) : bool :=
  existsb (fun s => match s with
                    | LFilter e _ => match zone_check st e with
                                     | Some false => existsb (fun x => existsb (String.eqb x) (plan_edge_vars p)) (expr_props e)
                                     | _ => false end
                    | _ => false end) (subplans p).
(** C10-K9: the zone-map check prunes on a [<>] leaf because min = max = literal, while the column
    also holds NULLs or values that are not comparable with the literal (they never move min/max,
    but [<>] is true of them) *)
Fixpoint ne_leaves (e : lexpr) : list (string * val) :=
  match e with
  | EAnd a b | EOr a b => ne_leaves a ++ ne_leaves b
  | ECmp ONe (EProp _ k) (ELit v) | ECmp ONe (ELit v) (EProp _ k) => [(k, v)]
  | _ => []
  end.
Definition zone_ne_odd (st : store) (e : lexpr) : bool :=
  existsb (fun kv => match lookup (fst kv) (zcols st) with
                     | Some c => existsb (fun v' => match zcmp v' (snd kv) with None => true | Some _ => false end) (zhist c)
                     | None => false end) (ne_leaves e).
Definition k_zone_ne (st : store) (p : lop) : bool :=
  existsb (fun s => match s with
                    | LFilter e _ => match zone_check st e with Some false => zone_ne_odd st e | _ => false end
                    | _ => false end) (subplans p).
(** predicate is exactly a conjunction of equalities [x.k = literal] on the scan variable *)
Fixpoint only_eq_conds (x : string) (p : lexpr) : bool :=
  match p with
  | EAnd a b => only_eq_conds x a && only_eq_conds x b
  | ECmp OEq (EProp y _) (ELit _) | ECmp OEq (ELit _) (EProp y _) => String.eqb y x
  | _ => false
  end.
Definition index_applies (st : store) (s : lop) : option (string * option string * lexpr) :=
  match s with
  | LFilter e (LScan x label) =>
      match collect_eq x e with
      | [] => None
      | conds => if existsb (fun c => existsb (String.eqb (fst c)) (indexed st)) conds then Some (x, label, e) else None
      end
  | _ => None
  end.
(** C10-K2: the index path is taken for a predicate with further conjuncts (they are dropped) *)
Definition k_index_residual (st : store) (p : lop) : bool :=
  existsb (fun s => match index_applies st s with Some (x, _, e) => negb (only_eq_conds x e) | None => false end) (subplans p).
Definition is_num (v : val) : bool := match v with VInt _ | VFlt _ _ => true | _ => false end.
Definition same_kind (a b : val) : bool :=
  match a, b with VInt _, VInt _ | VFlt _ _, VFlt _ _ => true | _, _ => negb (is_num a && is_num b) end.
(** some node stores under [k] a number of the other numeric kind than the literal *)
Definition num_mix (st : store) (k : string) (v : val) : bool :=
  existsb (fun n => match lookup k (nprops n) with Some v' => negb (same_kind v' v) | None => false end) (nodes st).
(** C10-K3: index path with an Int literal against stored Floats or vice versa (the index compares
    structurally, the filter numerically) *)
Definition k_index_num (st : store) (p : lop) : bool :=
  existsb (fun s => match index_applies st s with
                    | Some (x, _, e) => existsb (fun c => num_mix st (fst c) (snd c)) (collect_eq x e)
                    | None => false end) (subplans p).
Definition range_applies (s : lop) : option (string * list val) :=
  match s with
  | LFilter e (LScan x _) =>
      match extract_between e with
      | Some (y, k, lo, hi, _, _) => if String.eqb y x then Some (k, [lo; hi]) else None
      | None => match extract_range e with
                | Some (y, k, _, v) => if String.eqb y x then Some (k, [v]) else None
                | None => None end
      end
  | _ => None
  end.
(** C10-K4: the range path decides with compare_values_for_range (same type only, Bool included)
    what the filter decides with compare_values (Int/Float mixed, no Bool): a literal of the other
    numeric kind than a stored value, or a Bool literal *)
Definition is_bool (v : val) : bool := match v with VBool _ => true | _ => false end.
Definition k_range_num (st : store) (p : lop) : bool :=
  existsb (fun s => match range_applies s with
                    | Some (k, vs) => negb (match index_applies st s with Some _ => true | None => false end)
                                      && existsb (fun v => num_mix st k v || is_bool v) vs
                    | None => false end) (subplans p).
(** the expand chains a factorized planner treats as one operator: (base, steps) *)
Fixpoint chain_steps (p : lop) : list step * lop :=
  match p with
  | LExpand from to ev d ty minh maxh input =>
      if is_single_hop minh maxh
      then let '(ss, b) := chain_steps input in (ss ++ [mkStep from d ty [edge_col ev; to]], b)
      else ([], p)
  | _ => ([], p)
  end.
Definition fact_chains (p : lop) : list (list step * lop) :=
  flat_map (fun s => let c := chain_steps s in if Nat.leb 2 (List.length (fst c)) then [c] else []) (subplans p).
(** C10-K5: in a factorized chain some expansion step yields no edge at all, so its level (and
    the columns of every later step) is missing *)
Definition k_fact_missing_level (st : store) (p : lop) : bool :=
  existsb (fun c => match run (opts_engine false) st (snd c) with
                    | Ok b => match fact_chain st b (fst c) with
                              | Ok (added, _) => negb (Nat.eqb added (List.length (fst c)))
                                                && negb (match rows b with [] => true | _ => false end)
                              | Err => true
                              end
                    | Err => false end) (fact_chains p).
(** C10-K6: a deeper step of a factorized chain names an edge type that differs from a stored type
    only in ASCII case (deeper levels compare exactly, the flat operator ignores case) *)
Definition k_fact_type_case (st : store) (p : lop) : bool :=
  existsb (fun c => existsb (fun s => match s_type s with
                                      | Some t => existsb (fun e => eq_ci (etype e) t && negb (String.eqb (etype e) t)) (edges st)
                                      | None => false end) (tl (fst c))) (fact_chains p).
(** C10-K7: a later step of a factorized chain does not start at the previous step's target (two
    sibling expansions of one node): the factorized operator expands the previous target anyway *)
Fixpoint not_a_path (prev_to : option string) (ss : list step) : bool :=
  match ss with
  | [] => false
  | s :: r => (match prev_to with Some t => negb (String.eqb t (s_from s)) | None => false end)
              || not_a_path (nth_error (s_cols s) 1) r
  end.
Definition k_fact_not_path (p : lop) : bool :=
  existsb (fun c => not_a_path None (fst c)) (fact_chains p).
(** C10-K8: the factorized aggregate (COUNT over a chain of >= 2 expands, no grouping) ignores
    DISTINCT *)
Definition k_fact_agg_distinct (p : lop) : bool :=
  existsb (fun s => match s with
                    | LAggregate [] aggs i =>
                        Nat.leb 2 (List.length (fst (chain_steps i)))
                        && forallb (fun a => match simple_count_pre a with Some _ => true | None => false end) aggs
                        && existsb ag_distinct aggs
                    | _ => false end) (subplans p).
(** the classes still open at HEAD (K1 zone/edge, K2 index residual, K6 deeper type case, K8
    count distinct and K9 zone <> were repaired in /repo and are kept as [_pre] models) *)
Definition k_c10_any (st : store) (p : lop) : bool :=
  k_index_num st p || k_range_num st p || k_fact_missing_level st p || k_fact_not_path p.
Definition k_c10_any_pre (st : store) (p : lop) : bool :=
  k_zone_edge st p || k_index_residual st p || k_index_num st p || k_range_num st p
  || k_fact_missing_level st p || k_fact_type_case st p || k_fact_not_path p || k_fact_agg_distinct p
  || k_zone_ne st p.

(** C08-K11: a FilterOperator directly on top of another one (a labelled target or inline property
    filter under the WHERE filter): the outer predicate is evaluated over all physical rows and its
    selection replaces the inner one *)
Definition k11_stacked_filters (p : lop) : bool :=
  existsb (fun s => match s with LFilter _ (LFilter _ _) => true | _ => false end) (subplans p).

(** C08-K9: Cypher puts ORDER BY above RETURN; a property sort key is materialised as an extra
    output column "x_k" *)
Definition k9_cypher_order_cols (l : lang) (q : query) : bool :=
  match l, q_order q with LCypher, _ :: _ => true | _, _ => false end.
(** C08-K12: Cypher's count(expr) is planned as count-star (NULLs are counted) *)
Definition k12_cypher_count (l : lang) (q : query) : bool :=
  match l, q_ret q with
  | LCypher, RAgg _ aggs => existsb (fun a => match ag_fn a, ag_arg a with
                                             | (ACount | ACountNN), Some (EProp _ _) => true | _, _ => false end) aggs
  | _, _ => false
  end.

(** C08-K13 (repaired by 41c4655 + dfd360c): count/sum/min/max results travelled in Int64 vectors and
    avg results in Float64 vectors whose validity bitmap recorded only the first null: a string or
    float minimum and every NULL after the first became 0.  The class is exact on the declarative
    answer: pushing the answer's own rows through the pre-repair vectors changes them. *)
Definition rows_eqb (a b : list (list val)) : bool :=
  (fix go (a b : list (list val)) : bool :=
     match a, b with
     | [], [] => true
     | x :: xs, y :: ys => row_vals_eqb x y && go xs ys
     | _, _ => false
     end) a b.
Fixpoint push_row_pre (tys : list coltype) (seen : list bool) (r : row) : row * list bool :=
  match r, tys, seen with
  | c :: r', ty :: tys', sn :: seen' =>
      let '(c', sn') := push_typed_pre ty sn c in
      let '(r'', seen'') := push_row_pre tys' seen' r' in
      (c' :: r'', sn' :: seen'')
  | _, _, _ => (r, seen)
  end.
Fixpoint push_rows_pre (tys : list coltype) (seen : list bool) (rs : list row) : list row :=
  match rs with
  | [] => []
  | r :: rest => let '(r', seen') := push_row_pre tys seen r in r' :: push_rows_pre tys seen' rest
  end.
Definition typed_rows_pre (tys : list coltype) (rs : list row) : list row :=
  push_rows_pre tys (map (fun _ => false) tys) rs.
Definition k13_typed_result (st : store) (q : query) : bool :=
  match q_ret q with
  | RAgg keys aggs =>
      match answer st (mkQ (q_pat q) (q_where q) (q_ret q) [] None None) with
      | Ok rs => negb (rows_eqb (map (map cell_val)
                                     (typed_rows_pre (map (fun _ => TGen) keys ++ map agg_coltype_pre aggs) (map (map CVal) rs))) rs)
      | Err => false
      end
  | _ => false
  end.

(** C08-K14: Gremlin's dedup() is planned as a Distinct over ALL columns of the traversal (the
    whole path so far) below the final projection, so the same element reached along two paths is
    returned twice *)
Definition k14_gremlin_dedup (l : lang) (q : query) : bool :=
  match l, q_ret q with
  | LGremlin, RPlain _ true => negb (match hops q with [] => true | _ => false end)
  | _, _ => false
  end.

(** the same question in several languages: the row multisets (sequences) must agree *)
Definition xlang_same (m : cmode) (obs : list obs) : bool :=
  match obs with
  | [] => true
  | o :: r => forallb (fun o' => match o, o' with
                                 | ObsRows _ a, ObsRows _ b => rows_match m a b
                                 | _, _ => false end) r
  end.

(** the correspondence that the checks evaluate.  Where a factorized chain has a dry hop (C10-K5)
    the engine's chunk lacks the columns of the missing levels and what the operators above make of
    it (an error, short rows, NULL columns) is an artefact that the model follows only for the
    common shapes: there the comparison is not insisted on. *)
Definition chk_run_k5 (o : opts) (st : store) (p : lop) (m : cmode) (ob : obs) : bool :=
  chk_run o st p m ob || (o_fact o && k_fact_missing_level st p).
