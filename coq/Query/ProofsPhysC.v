(** C10 — corollaries of ProofsPhys.v in the words of the property: neither the execution options
    nor the presence of indexes / the state of the zone maps change the rows of a plan. *)
From Coq Require Import ZArith List Bool String.
From GV Require Export Query.ProofsPhys Query.ProofsPhysR.
Import ListNotations.
Open Scope Z_scope.

(** everything the main theorem asks of a store and a plan *)
Definition phys_ok (st : store) (p : lop) : Prop :=
  store_ok st /\ vals_ok st /\ zone_ok st /\ filters_in_chain p = true /\ plan_hygiene p /\
  plan_lits_ok p = true /\ k_c10_any st p = false /\
  chain_only (plan_chain p) = true /\ chain_tos_ok (plan_chain p) = true /\ aggs_args_ok p.

Lemma run_ok st p o t : phys_ok st p -> sem_ops st p = Ok t -> run o st p = Ok t.
Proof.
  intros (H1 & H2 & H3 & H4 & H5 & H6 & H7 & H8 & H9 & H10) Hs.
  apply run_eq_sem_ops_l; assumption.
Qed.

(** two stores holding the same graph (differing in which properties are indexed and in what the
    zone maps have seen), any two settings of the execution options: the same rows *)
Lemma paths_irrelevant_l : forall o o' st st' p t,
  nodes st = nodes st' -> edges st = edges st' -> phys_ok st p -> phys_ok st' p ->
  sem_ops st p = Ok t -> run o st p = Ok t /\ run o' st' p = Ok t.
Proof.
  intros o o' st st' p t Hn He H1 H2 Hs. split; [apply run_ok; assumption|].
  apply run_ok; [assumption|]. rewrite <- (sem_ops_graph_only st st' p Hn He). exact Hs.
Qed.
