(** C10 — refutations: each physical alternative changes the answer of some plan (the witnesses are
    the corpus cases of harness/src/bin/c08.rs, as dumped by the harness: store, optimized plan). *)
From Coq Require Import ZArith List Bool String Ascii.
From GV Require Export Query.PatSpec Query.RunPat.
Import ListNotations.
Open Scope Z_scope.

(** gql | MATCH (x)-[r:R]->(y) WHERE r.w > 5 RETURN x, r, y *)
Definition w_zone_edge_st : store := (mkStore [mkNode (0) ["A"%string] [("u"%string, (VInt (100))); ("w"%string, (VInt (1)))]; mkNode (1) ["A"%string] [("u"%string, (VInt (101)))]] [mkEdge (0) (0) (1) "R"%string [("eu"%string, (VInt (500))); ("w"%string, (VInt (9)))]] [] [("u"%string, mkZcol [(VInt (100)); (VInt (101))] false); ("w"%string, mkZcol [(VInt (1))] false)]).
Definition w_zone_edge_p : lop := (LReturn [((EVar "x"%string), None); ((EVar "r"%string), None); ((EVar "y"%string), None)] false (LFilter (ECmp OGt (EProp "r"%string "w"%string) (ELit (VInt (5)))) (LExpand "x"%string "y"%string (Some "r"%string) Out (Some "R"%string) 1%nat (Some 1%nat) (LScan "x"%string None)))).
(** repaired by bad2e33: the zone-map check was applied to any filter, also over an Expand; the
    verdict "no match" for [r.w > 5] came from the NODE column w although the row's edge passes *)
Lemma zone_edge_pre_refuted_l : exists st e cs r,
  zone_check st e = Some false /\ passes_row st cs r e = true /\
  k_zone_edge w_zone_edge_st w_zone_edge_p = true /\
  run (opts_engine true) w_zone_edge_st w_zone_edge_p = sem_ops w_zone_edge_st w_zone_edge_p.
Proof.
  exists w_zone_edge_st, (ECmp OGt (EProp "r" "w") (ELit (VInt 5))), ["x"; "r"; "y"]%string, [CNode 0; CEdge 0; CNode 1].
  split; [reflexivity|]. split; [reflexivity|]. split; reflexivity.
Qed.

(** gql | MATCH (n:A) WHERE (n.x = 1 AND n.y > 6) RETURN n *)
Definition w_index_residual_st : store := (mkStore [mkNode (0) ["A"%string] [("u"%string, (VInt (100))); ("x"%string, (VInt (1))); ("y"%string, (VInt (5)))]; mkNode (1) ["A"%string] [("u"%string, (VInt (101))); ("x"%string, (VInt (1))); ("y"%string, (VInt (7)))]; mkNode (2) ["A"%string] [("u"%string, (VInt (102))); ("x"%string, (VFlt (1) (1))); ("y"%string, (VInt (9)))]] [] ["x"%string] [("u"%string, mkZcol [(VInt (100)); (VInt (101)); (VInt (102))] false); ("x"%string, mkZcol [(VInt (1)); (VInt (1)); (VFlt (1) (1))] false); ("y"%string, mkZcol [(VInt (5)); (VInt (7)); (VInt (9))] false)]).
Definition w_index_residual_p : lop := (LReturn [((EVar "n"%string), None)] false (LFilter (EAnd (ECmp OEq (EProp "n"%string "x"%string) (ELit (VInt (1)))) (ECmp OGt (EProp "n"%string "y"%string) (ELit (VInt (6))))) (LScan "n"%string (Some "A"%string)))).
(** repaired by 08d6ceb: the index path returned the NodeList without re-applying the predicate *)
Lemma index_residual_pre_refuted_l : exists st x label e t,
  try_index_pre st (idx_of st) e (LScan x label) = Some t /\
  t <> filter_tbl (fun r => passes_row st [x] r e) (mkT [x] (scan_rows st label)) /\
  k_index_residual w_index_residual_st w_index_residual_p = true.
Proof.
  exists w_index_residual_st, "n"%string, (Some "A"%string),
         (EAnd (ECmp OEq (EProp "n" "x") (ELit (VInt 1))) (ECmp OGt (EProp "n" "y") (ELit (VInt 6)))).
  eexists. split; [reflexivity|]. split; [intro H; vm_compute in H; discriminate H|reflexivity].
Qed.

(** gql | MATCH (n:A) WHERE n.x = 1 RETURN n *)
Definition w_index_num_st : store := (mkStore [mkNode (0) ["A"%string] [("u"%string, (VInt (100))); ("x"%string, (VInt (1))); ("y"%string, (VInt (5)))]; mkNode (1) ["A"%string] [("u"%string, (VInt (101))); ("x"%string, (VInt (1))); ("y"%string, (VInt (7)))]; mkNode (2) ["A"%string] [("u"%string, (VInt (102))); ("x"%string, (VFlt (1) (1))); ("y"%string, (VInt (9)))]] [] ["x"%string] [("u"%string, mkZcol [(VInt (100)); (VInt (101)); (VInt (102))] false); ("x"%string, mkZcol [(VInt (1)); (VInt (1)); (VFlt (1) (1))] false); ("y"%string, mkZcol [(VInt (5)); (VInt (7)); (VInt (9))] false)]).
Definition w_index_num_p : lop := (LReturn [((EVar "n"%string), None)] false (LFilter (ECmp OEq (EProp "n"%string "x"%string) (ELit (VInt (1)))) (LScan "n"%string (Some "A"%string)))).
Lemma index_num_refuted_l : exists st p, k_index_num st p = true /\ run (opts_engine true) st p <> sem_ops st p.
Proof. exists w_index_num_st, w_index_num_p. split; [reflexivity|]. intro H. vm_compute in H. discriminate H. Qed.

(** gql | MATCH (n:A) WHERE n.x > 0 RETURN n *)
Definition w_range_num_st : store := (mkStore [mkNode (0) ["A"%string] [("u"%string, (VInt (100))); ("x"%string, (VInt (1))); ("y"%string, (VInt (5)))]; mkNode (1) ["A"%string] [("u"%string, (VInt (101))); ("x"%string, (VInt (1))); ("y"%string, (VInt (7)))]; mkNode (2) ["A"%string] [("u"%string, (VInt (102))); ("x"%string, (VFlt (1) (1))); ("y"%string, (VInt (9)))]] [] [] [("u"%string, mkZcol [(VInt (100)); (VInt (101)); (VInt (102))] false); ("x"%string, mkZcol [(VInt (1)); (VInt (1)); (VFlt (1) (1))] false); ("y"%string, mkZcol [(VInt (5)); (VInt (7)); (VInt (9))] false)]).
Definition w_range_num_p : lop := (LReturn [((EVar "n"%string), None)] false (LFilter (ECmp OGt (EProp "n"%string "x"%string) (ELit (VInt (0)))) (LScan "n"%string (Some "A"%string)))).
Lemma range_num_refuted_l : exists st p, k_range_num st p = true /\ run (opts_engine true) st p <> sem_ops st p.
Proof. exists w_range_num_st, w_range_num_p. split; [reflexivity|]. intro H. vm_compute in H. discriminate H. Qed.

(** gql | MATCH (n:A) WHERE n.b >= false RETURN n *)
Definition w_range_bool_st : store := (mkStore [mkNode (0) ["A"%string] [("b"%string, (VBool true)); ("u"%string, (VInt (100)))]; mkNode (1) ["A"%string] [("b"%string, (VBool false)); ("u"%string, (VInt (101)))]; mkNode (2) ["A"%string] [("u"%string, (VInt (102)))]] [] [] [("b"%string, mkZcol [(VBool true); (VBool false)] false); ("u"%string, mkZcol [(VInt (100)); (VInt (101)); (VInt (102))] false)]).
Definition w_range_bool_p : lop := (LReturn [((EVar "n"%string), None)] false (LFilter (ECmp OGe (EProp "n"%string "b"%string) (ELit (VBool false))) (LScan "n"%string (Some "A"%string)))).
Lemma range_bool_refuted_l : exists st p, k_range_num st p = true /\ run (opts_engine true) st p <> sem_ops st p.
Proof. exists w_range_bool_st, w_range_bool_p. split; [reflexivity|]. intro H. vm_compute in H. discriminate H. Qed.

(** gql | MATCH (n:A) WHERE n.w <> 5 RETURN n *)
Definition w_zone_ne_st : store := (mkStore [mkNode (0) ["A"%string] [("u"%string, (VInt (100))); ("w"%string, (VInt (5)))]; mkNode (1) ["A"%string] [("u"%string, (VInt (101))); ("w"%string, (VStr "a"%string))]; mkNode (2) ["A"%string] [("u"%string, (VInt (102))); ("w"%string, VNull)]; mkNode (3) ["A"%string] [("u"%string, (VInt (103)))]] [] [] [("u"%string, mkZcol [(VInt (100)); (VInt (101)); (VInt (102)); (VInt (103))] false); ("w"%string, mkZcol [(VInt (5)); (VStr "a"%string); VNull] false)]).
Definition w_zone_ne_p : lop := (LReturn [((EVar "n"%string), None)] false (LFilter (ECmp ONe (EProp "n"%string "w"%string) (ELit (VInt (5)))) (LScan "n"%string (Some "A"%string)))).
(** repaired by 1879631: the pre-repair column check claimed "no match" for [<> 5] on this column
    although its string and NULL values satisfy the predicate; the current check does not prune, and
    the physical plan agrees with the logical one *)
Lemma zone_ne_pre_refuted_l : exists c v v',
  col_might_match_pre c ONe v = false /\ List.In v' (zhist c) /\ cmp_result ONe v' v = Some (VBool true) /\
  col_might_match c ONe v = true /\ run (opts_engine true) w_zone_ne_st w_zone_ne_p = sem_ops w_zone_ne_st w_zone_ne_p.
Proof.
  exists (mkZcol [VInt 5; VStr "a"%string; VNull] false), (VInt 5), (VStr "a"%string).
  split; [reflexivity|]. split; [right; left; reflexivity|]. split; [reflexivity|]. split; reflexivity.
Qed.

(** gql | MATCH (a)-[r]->(b)-[s]->(c) RETURN count(DISTINCT a) *)
Definition w_fact_agg_distinct_st : store := (mkStore [mkNode (0) ["A"%string] [("u"%string, (VInt (100)))]; mkNode (1) ["A"%string] [("u"%string, (VInt (101)))]; mkNode (2) ["B"%string] [("u"%string, (VInt (102)))]; mkNode (3) ["B"%string] [("u"%string, (VInt (103)))]] [mkEdge (0) (0) (1) "R"%string []; mkEdge (1) (1) (2) "R"%string []; mkEdge (2) (1) (3) "R"%string []] [] [("u"%string, mkZcol [(VInt (100)); (VInt (101)); (VInt (102)); (VInt (103))] false)]).
Definition w_fact_agg_distinct_p : lop := (LAggregate [] [(mkAgg ACountNN (Some (EVar "a"%string)) true None)] (LExpand "b"%string "c"%string (Some "s"%string) Out None 1%nat (Some 1%nat) (LExpand "a"%string "b"%string (Some "r"%string) Out None 1%nat (Some 1%nat) (LScan "a"%string None)))).
(** repaired by 6a43305: COUNT(DISTINCT x) was accepted by the factorized aggregate, which counts rows *)
Lemma fact_agg_distinct_pre_refuted_l : exists a inputs n,
  simple_count_pre a <> None /\ simple_count a = None /\ agg_value a inputs n <> Ok (VInt (Z.of_nat n)) /\
  k_fact_agg_distinct w_fact_agg_distinct_p = true /\
  run (opts_engine true) w_fact_agg_distinct_st w_fact_agg_distinct_p = sem_ops w_fact_agg_distinct_st w_fact_agg_distinct_p.
Proof.
  exists (mkAgg ACountNN (Some (EVar "a"%string)) true None), [VInt 0; VInt 0], 2%nat.
  split; [discriminate|]. split; [reflexivity|]. split; [intro H; vm_compute in H; discriminate H|]. split; reflexivity.
Qed.

(** gql | MATCH (a)-[r:KNOWS]->(b)-[s:OTHER]->(c) RETURN count(a) *)
Definition w_fact_missing_level_st : store := (mkStore [mkNode (0) ["A"%string] [("u"%string, (VInt (100)))]; mkNode (1) ["A"%string] [("u"%string, (VInt (101)))]; mkNode (2) ["B"%string] [("u"%string, (VInt (102)))]] [mkEdge (0) (0) (1) "KNOWS"%string [("eu"%string, (VInt (500)))]; mkEdge (1) (1) (2) "KNOWS"%string [("eu"%string, (VInt (501)))]] [] [("u"%string, mkZcol [(VInt (100)); (VInt (101)); (VInt (102))] false)]).
Definition w_fact_missing_level_p : lop := (LAggregate [] [(mkAgg ACountNN (Some (EVar "a"%string)) false None)] (LExpand "b"%string "c"%string (Some "s"%string) Out (Some "OTHER"%string) 1%nat (Some 1%nat) (LExpand "a"%string "b"%string (Some "r"%string) Out (Some "KNOWS"%string) 1%nat (Some 1%nat) (LScan "a"%string None)))).
Lemma fact_missing_level_refuted_l : exists st p, k_fact_missing_level st p = true /\ run (opts_engine true) st p <> sem_ops st p.
Proof. exists w_fact_missing_level_st, w_fact_missing_level_p. split; [reflexivity|]. intro H. vm_compute in H. discriminate H. Qed.

(** gql | MATCH (a)-[r:KNOWS]->(b)-[s:knows]->(c) RETURN a, c *)
Definition w_fact_type_case_st : store := (mkStore [mkNode (0) ["A"%string] [("u"%string, (VInt (100)))]; mkNode (1) ["A"%string] [("u"%string, (VInt (101)))]; mkNode (2) ["B"%string] [("u"%string, (VInt (102)))]] [mkEdge (0) (0) (1) "KNOWS"%string [("eu"%string, (VInt (500)))]; mkEdge (1) (1) (2) "KNOWS"%string [("eu"%string, (VInt (501)))]] [] [("u"%string, mkZcol [(VInt (100)); (VInt (101)); (VInt (102))] false)]).
Definition w_fact_type_case_p : lop := (LReturn [((EVar "a"%string), None); ((EVar "c"%string), None)] false (LExpand "b"%string "c"%string (Some "s"%string) Out (Some "knows"%string) 1%nat (Some 1%nat) (LExpand "a"%string "b"%string (Some "r"%string) Out (Some "KNOWS"%string) 1%nat (Some 1%nat) (LScan "a"%string None)))).
(** repaired by c5b2b84: the deeper levels of a factorized chain compared the edge type exactly *)
Lemma fact_type_case_pre_refuted_l : exists st n d ty,
  neighbors st false n d ty <> neighbors st true n d ty /\
  k_fact_type_case w_fact_type_case_st w_fact_type_case_p = true /\
  run (opts_engine true) w_fact_type_case_st w_fact_type_case_p = sem_ops w_fact_type_case_st w_fact_type_case_p.
Proof.
  exists w_fact_type_case_st, 1, Out, (Some "knows"%string).
  split; [intro H; vm_compute in H; discriminate H|]. split; reflexivity.
Qed.

(** graphql | { a { u S { u } R { u } } } *)
Definition w_fact_not_path_st : store := (mkStore [mkNode (0) ["A"%string] [("u"%string, (VInt (100)))]; mkNode (1) ["A"%string] [("u"%string, (VInt (101)))]; mkNode (2) ["B"%string] [("u"%string, (VInt (102)))]; mkNode (3) ["B"%string] [("u"%string, (VInt (103)))]] [mkEdge (0) (0) (1) "R"%string []; mkEdge (1) (0) (2) "R"%string []; mkEdge (2) (1) (2) "S"%string []; mkEdge (3) (2) (3) "R"%string []] [] [("u"%string, mkZcol [(VInt (100)); (VInt (101)); (VInt (102)); (VInt (103))] false)]).
Definition w_fact_not_path_p : lop := (LReturn [((EProp "_v0"%string "u"%string), (Some "u"%string)); ((EProp "_v1"%string "u"%string), (Some "S_u"%string)); ((EProp "_v2"%string "u"%string), (Some "R_u"%string))] false (LExpand "_v0"%string "_v2"%string None Out (Some "R"%string) 1%nat (Some 1%nat) (LExpand "_v0"%string "_v1"%string None Out (Some "S"%string) 1%nat (Some 1%nat) (LScan "_v0"%string (Some "A"%string))))).
Lemma fact_not_path_refuted_l : exists st p, k_fact_not_path p = true /\ run (opts_engine true) st p <> sem_ops st p.
Proof. exists w_fact_not_path_st, w_fact_not_path_p. split; [reflexivity|]. intro H. vm_compute in H. discriminate H. Qed.
