(** C08 — ORDER BY: the Sort operator with the property columns the planner materialises in front
    of it orders the rows as the declarative ORDER BY orders the bindings; GQL's
    Return(Sort(body)) returns the declarative answer. *)
From Coq Require Import ZArith List Bool String Ascii Lia Permutation.
From GV Require Export Query.ProofsChainVar.
Import ListNotations.
Open Scope Z_scope.

(** * stable_sort commutes with maps that preserve the comparison *)
Lemma insert_sorted_map {A B} (f : A -> B) (le1 : B -> B -> bool) (le2 : A -> A -> bool) x l :
  (forall a b, le1 (f a) (f b) = le2 a b) ->
  insert_sorted le1 (f x) (map f l) = map f (insert_sorted le2 x l).
Proof.
  intros H. induction l as [|y l IH]; [reflexivity|]. cbn [map insert_sorted]. rewrite H.
  destruct (le2 x y); [reflexivity|]. cbn [map]. rewrite IH. reflexivity.
Qed.
Lemma stable_sort_map {A B} (f : A -> B) (le1 : B -> B -> bool) (le2 : A -> A -> bool) l :
  (forall a b, le1 (f a) (f b) = le2 a b) ->
  stable_sort le1 (map f l) = map f (stable_sort le2 l).
Proof.
  intros H. unfold stable_sort. induction l as [|x l IH]; [reflexivity|]. cbn [map fold_right].
  rewrite IH. apply insert_sorted_map. exact H.
Qed.
Lemma insert_sorted_in {A} (le : A -> A -> bool) x l y : List.In y (insert_sorted le x l) -> y = x \/ List.In y l.
Proof.
  induction l as [|a l IH]; cbn [insert_sorted]; [intros [<-|[]]; left; reflexivity|].
  destruct (le x a); intros H.
  - destruct H as [<-|H]; [left; reflexivity|right; exact H].
  - destruct H as [<-|H]; [right; left; reflexivity|]. destruct (IH H) as [->|H']; [left; reflexivity|right; right; exact H'].
Qed.
Lemma stable_sort_in {A} (le : A -> A -> bool) l y : List.In y (stable_sort le l) -> List.In y l.
Proof.
  unfold stable_sort. induction l as [|x l IH]; cbn [fold_right]; [auto|]. intros H.
  destruct (insert_sorted_in le x _ y H) as [->|H']; [left; reflexivity|right; apply IH; exact H'].
Qed.
(** the comparison may be replaced by one that agrees on the elements of the list *)
Lemma insert_sorted_ext {A} (le1 le2 : A -> A -> bool) x l :
  (forall b, List.In b l -> le1 x b = le2 x b) -> insert_sorted le1 x l = insert_sorted le2 x l.
Proof.
  induction l as [|y l IH]; intros H; [reflexivity|]. cbn [insert_sorted]. rewrite (H y (or_introl eq_refl)).
  destruct (le2 x y); [reflexivity|]. rewrite IH; [reflexivity|]. intros b Hb. apply H. right. exact Hb.
Qed.
Lemma stable_sort_ext {A} (le1 le2 : A -> A -> bool) l :
  (forall a b, List.In a l -> List.In b l -> le1 a b = le2 a b) -> stable_sort le1 l = stable_sort le2 l.
Proof.
  unfold stable_sort. induction l as [|x l IH]; intros H; [reflexivity|]. cbn [fold_right].
  rewrite IH by (intros a b Ha Hb; apply H; right; assumption).
  apply insert_sorted_ext. intros b Hb. apply H; [left; reflexivity|right].
  apply (stable_sort_in le2 l b Hb).
Qed.

(** * Names of materialised property columns *)
Definition pname (x k : string) : string := (x ++ "_" ++ k)%string.
(** the property keys of a clause: distinct (variable, property) pairs have distinct column names,
    and no such name is a column already *)
Definition keys_fresh (cs : list string) (es : list lexpr) : Prop :=
  (forall x k, List.In (EProp x k) es -> ~ List.In (pname x k) cs) /\
  (forall x k x' k', List.In (EProp x k) es -> List.In (EProp x' k') es -> pname x k = pname x' k' -> x = x' /\ k = k').

Lemma prop_cols_names es : forall cs p, List.In p (prop_cols cs es) ->
  List.In (EProp (fst (fst p)) (snd (fst p))) es /\ snd p = pname (fst (fst p)) (snd (fst p)) /\ ~ List.In (snd p) cs.
Proof.
  induction es as [|e es IH]; intros cs p Hp; [destruct Hp|].
  destruct e; cbn [prop_cols] in Hp; try (destruct (IH cs p Hp) as (H1 & H2 & H3); split; [right; exact H1|split; assumption]).
  fold (pname x k) in Hp. destruct (pos_last (pname x k) cs) eqn:E.
  - destruct (IH cs p Hp) as (H1 & H2 & H3). split; [right; exact H1|split; assumption].
  - destruct Hp as [<-|Hp].
    + cbn [fst snd]. split; [left; reflexivity|]. split; [reflexivity|].
      intro Hin. destruct (pos_last_some _ _ Hin) as (i & Hi & _). rewrite Hi in E. discriminate E.
    + destruct (IH _ p Hp) as (H1 & H2 & H3). split; [right; exact H1|]. split; [exact H2|].
      intro Hin. apply H3. apply in_or_app. left. exact Hin.
Qed.
Lemma prop_cols_nodup es : forall cs, NoDup (map snd (prop_cols cs es)).
Proof.
  induction es as [|e es IH]; intros cs; [constructor|].
  destruct e; cbn [prop_cols]; try apply IH. fold (pname x k). destruct (pos_last (pname x k) cs); [apply IH|].
  cbn [map snd]. constructor; [|apply IH]. intro Hin. apply in_map_iff in Hin. destruct Hin as (p & Hp1 & Hp2).
  destruct (prop_cols_names es _ p Hp2) as (_ & _ & H3). apply H3. apply in_or_app. right. left. symmetry. exact Hp1.
Qed.
Lemma prop_cols_complete es : forall cs x k, List.In (EProp x k) es -> ~ List.In (pname x k) cs ->
  List.In (pname x k) (map snd (prop_cols cs es)).
Proof.
  induction es as [|e es IH]; intros cs x k Hin Hn; [destruct Hin|].
  destruct Hin as [->|Hin].
  - cbn [prop_cols]. fold (pname x k). rewrite (pos_last_none _ _ Hn). left. reflexivity.
  - destruct e; cbn [prop_cols]; try (apply IH; assumption).
    fold (pname x0 k0). destruct (pos_last (pname x0 k0) cs) eqn:E; [apply IH; assumption|].
    destruct (string_dec (pname x0 k0) (pname x k)) as [Heq|Hne]; [left; exact Heq|].
    right. apply IH; [exact Hin|]. intro H. apply in_app_or in H. destruct H as [H|[H|[]]]; [exact (Hn H)|exact (Hne H)].
Qed.

(** * The table with materialised property columns *)
Definition ext_row (st : store) (cs : list string) (pcs : list (string * string * string)) (r : row) : row :=
  map to_nodecol r ++ map (fun p => CVal (pprop st (col_cell cs r (fst (fst p))) (snd (fst p)))) pcs.

Lemma pos_last_app_in x cs ds j : pos_last x ds = Some j -> pos_last x (cs ++ ds) = Some (List.length cs + j)%nat.
Proof. intros H. induction cs as [|c cs IH]; cbn [app pos_last List.length]; [exact H|]. rewrite IH. reflexivity. Qed.
Lemma pos_last_nth x ds j : pos_last x ds = Some j -> nth_error ds j = Some x.
Proof.
  revert j. induction ds as [|d ds IH]; intros j H; [discriminate H|]. cbn [pos_last] in H.
  destruct (pos_last x ds) as [i|] eqn:E.
  - inversion H; subst. cbn [nth_error]. apply IH. reflexivity.
  - destruct (String.eqb x d) eqn:Ed; [|discriminate H]. inversion H; subst. apply String.eqb_eq in Ed. subst d. reflexivity.
Qed.
Lemma nth_error_app_ge {A} (l l' : list A) j : nth_error (l ++ l') (List.length l + j) = nth_error l' j.
Proof. rewrite nth_error_app2 by lia. f_equal. lia. Qed.

Lemma ext_row_old st cs pcs r x :
  List.In x cs -> ~ List.In x (map snd pcs) -> List.length cs = List.length r ->
  col_cell (cs ++ map snd pcs) (ext_row st cs pcs r) x = to_nodecol (col_cell cs r x).
Proof.
  intros Hi Hn Hl. unfold col_cell, row_look, ext_row. rewrite (pos_last_app_notin x cs _ Hn).
  destruct (pos_last_some x cs Hi) as (i & Hp & Hlt). rewrite Hp. cbn [obind].
  rewrite nth_error_app_lt by (rewrite map_length; lia). rewrite nth_error_map.
  destruct (nth_error_lt r i ltac:(lia)) as (c & Hc). rewrite Hc. reflexivity.
Qed.
Lemma ext_row_new st cs pcs r p :
  List.In p pcs -> NoDup (map snd pcs) -> List.length cs = List.length r ->
  col_cell (cs ++ map snd pcs) (ext_row st cs pcs r) (snd p) = CVal (pprop st (col_cell cs r (fst (fst p))) (snd (fst p))).
Proof.
  intros Hp Hnd Hl.
  destruct (pos_last_some (snd p) (map snd pcs) (in_map snd _ _ Hp)) as (j & Hj & Hlt).
  unfold col_cell at 1, row_look, ext_row. rewrite (pos_last_app_in _ cs _ j Hj). cbn [obind].
  replace (List.length cs) with (List.length (map to_nodecol r)) by (rewrite map_length; lia).
  rewrite nth_error_app_ge, nth_error_map.
  (* the j-th entry of pcs is p, because names are unique *)
  pose proof (pos_last_nth _ _ _ Hj) as Hnth. rewrite nth_error_map in Hnth.
  destruct (nth_error pcs j) as [p'|] eqn:Ep; [|discriminate Hnth]. cbn [option_map] in Hnth. inversion Hnth as [Hs].
  assert (p' = p).
  { apply nth_error_In in Ep. clear -Hp Ep Hnd Hs. induction pcs as [|q pcs IH]; [destruct Hp|].
    cbn [map] in Hnd. inversion Hnd as [|? ? Hq Hnd']; subst.
    destruct Hp as [->|Hp], Ep as [->|Ep]; try reflexivity.
    - exfalso. apply Hq. rewrite <- Hs. apply in_map. exact Ep.
    - exfalso. apply Hq. rewrite Hs. apply in_map. exact Hp.
    - apply IH; assumption. }
  subst p'. reflexivity.
Qed.

Lemma add_prop_cols_spec st t es :
  wfc t -> keys_fresh (cols t) es ->
  (forall x k, List.In (EProp x k) es -> List.In x (cols t)) ->
  exists t1, add_prop_cols st t es = Ok t1 /\ cols t1 = cols t ++ map snd (prop_cols (cols t) es) /\
             exists f, rows t1 = map f (rows t) /\
               forall r, List.In r (rows t) ->
                 List.length (cols t1) = List.length (f r) /\
                 (forall x, List.In x (cols t) -> ~ List.In x (map snd (prop_cols (cols t) es)) -> to_gen (col_cell (cols t1) (f r) x) = to_gen (col_cell (cols t) r x)) /\
                 (forall x k, List.In (EProp x k) es -> col_cell (cols t1) (f r) (pname x k) = CVal (pprop st (col_cell (cols t) r x) k)).
Proof.
  intros [Hnd Hrows] [Hfr1 Hfr2] Hvars. unfold add_prop_cols.
  assert (HP0 : forall p, List.In p (prop_cols (cols t) es) -> List.In (EProp (fst (fst p)) (snd (fst p))) es /\ snd p = pname (fst (fst p)) (snd (fst p)) /\ ~ List.In (snd p) (cols t))
    by (intros p Hp; apply (prop_cols_names es (cols t) p Hp)).
  assert (HPn0 : NoDup (map snd (prop_cols (cols t) es))) by (apply prop_cols_nodup).
  assert (HPc0 : forall x k, List.In (EProp x k) es -> List.In (pname x k) (map snd (prop_cols (cols t) es)))
    by (intros x k Hin; apply prop_cols_complete; [exact Hin|apply Hfr1; exact Hin]).
  destruct (prop_cols (cols t) es) as [|p0 P'] eqn:EP.
  - (* nothing to materialise: then es has no property key *)
    exists t. split; [reflexivity|]. split; [cbn [map]; rewrite app_nil_r; reflexivity|]. exists (fun r => r). split; [rewrite map_id; reflexivity|].
    intros r Hr. destruct (Hrows r Hr) as [Hl He]. split; [exact Hl|].
    split; [reflexivity|]. intros x k Hin. exfalso. exact (HPc0 x k Hin).
  - cbv zeta. cbv iota. set (P := p0 :: P') in *. assert (HP := HP0). assert (HPn := HPn0). clear HP0 HPn0.
    set (srcf := fun p : string * string * string => match pos_last (fst (fst p)) (cols t) with Some i => i | None => 0%nat end).
    assert (Hsrcs : mapM (fun p : string * string * string => of_opt (pos_last (fst (fst p)) (cols t))) P = Ok (map srcf P)).
    { apply mapM_map. intros p Hp. destruct (HP p Hp) as (Hin & _ & _).
      destruct (pos_last_some _ _ (Hvars _ _ Hin)) as (i & Hi & _). unfold srcf. rewrite Hi. reflexivity. }
    rewrite Hsrcs. cbn [rbind].
    match goal with |- context [mapM ?g (rows t)] => assert (Hrs : mapM g (rows t) = Ok (map (ext_row st (cols t) P) (rows t))) end.
    { apply mapM_map. intros r Hr. destruct (Hrows r Hr) as [Hl He].
      assert (Hex : mapM (fun ps : string * string * string * nat => do c <- of_opt (nth_error r (snd ps)); Ok (CVal (pprop st c (snd (fst (fst ps))))))
                         (combine P (map srcf P))
                    = Ok (map (fun p => CVal (pprop st (col_cell (cols t) r (fst (fst p))) (snd (fst p)))) P)).
      { clear -HP Hvars Hl. induction P as [|p P IH]; [reflexivity|]. cbn [map combine mapM].
        destruct (HP p (or_introl eq_refl)) as (Hin & _ & _).
        destruct (pos_last_some _ _ (Hvars _ _ Hin)) as (i & Hi & Hlt). cbn [snd fst]. unfold srcf at 1. rewrite Hi.
        destruct (nth_error_lt r i ltac:(lia)) as (c & Hc). rewrite Hc. cbn [of_opt rbind].
        rewrite IH by (intros q Hq; apply HP; right; exact Hq). cbn [rbind].
        unfold col_cell, row_look. rewrite Hi. cbn [obind]. rewrite Hc. reflexivity. }
      rewrite Hex. reflexivity. }
    rewrite Hrs. cbn [rbind]. eexists. split; [reflexivity|]. cbn [cols rows mkT]. split; [reflexivity|].
    exists (ext_row st (cols t) P).
    assert (Hstab : Forall (Forall2 stable (map (fun _ : string => TNode) (cols t) ++ map (fun _ : string * string * string => TGen) P))
                           (map (ext_row st (cols t) P) (rows t))).
    { apply Forall_forall. intros r' Hr'. apply in_map_iff in Hr'. destruct Hr' as (r & <- & Hr). destruct (Hrows r Hr) as [Hl He].
      unfold ext_row. apply Forall2_app.
      - clear -Hl He. revert r Hl He. induction (cols t) as [|c cs IH]; intros [|cl r] Hl He; try discriminate Hl; cbn [map]; constructor.
        + inversion He; subst. rewrite (proj1 (to_nodecol_ent cl H1)). exact I.
        + apply IH; [cbn in Hl; lia|inversion He; assumption].
      - clear. induction P; cbn [map]; constructor; [exact I|assumption]. }
    rewrite (typed_rows_stable _ _ Hstab). split; [reflexivity|].
    intros r Hr. destruct (Hrows r Hr) as [Hl He]. split; [|split].
    + unfold ext_row. rewrite !app_length, !map_length. lia.
    + intros x Hx Hnx. rewrite (ext_row_old st (cols t) P r x Hx Hnx Hl).
      destruct (col_cell_in (cols t) r x Hx Hl) as (c & _ & Hc & Hcin). rewrite Hc. rewrite Forall_forall in He.
      pose proof (He c Hcin) as Hce. destruct c; cbn in Hce |- *; try reflexivity; contradiction.
    + intros x k Hin.
      assert (Hp : exists p, List.In p P /\ fst (fst p) = x /\ snd (fst p) = k /\ snd p = pname x k).
      { pose proof (HPc0 x k Hin) as Hc. apply in_map_iff in Hc. destruct Hc as (p & Hp1 & Hp2).
        destruct (HP p Hp2) as (Hpin & Hpn & _). rewrite Hpn in Hp1. destruct (Hfr2 _ _ _ _ Hpin Hin Hp1) as [Hx Hk].
        exists p. repeat split; try assumption. rewrite Hpn, Hx, Hk. reflexivity. }
      destruct Hp as (p & Hp & Hpx & Hpk & Hpn). rewrite <- Hpn, (ext_row_new st (cols t) P r p Hp HPn Hl), Hpx, Hpk. reflexivity.
Qed.

(** * The Sort operator orders rows as ORDER BY orders bindings *)
Definition sort_key (e : lexpr) : bool := match e with EVar _ | EProp _ _ => true | _ => false end.
Definition okeys_of (keys : list (lexpr * bool)) : list okey := map (fun k => OEnv (fst k) (snd k)) keys.
Definition le_env (st : store) (keys : list (lexpr * bool)) (a b : env) : bool :=
  match okeys_cmp st (okeys_of keys) (a, []) (b, []) with Gt => false | _ => true end.

Lemma okeys_cmp_env st ks a b va vb : okeys_cmp st (okeys_of ks) (a, va) (b, vb) = okeys_cmp st (okeys_of ks) (a, []) (b, []).
Proof. induction ks as [|k ks IH]; [reflexivity|]. cbn [okeys_of map okeys_cmp okey_cmp fst]. fold (okeys_of ks). rewrite IH. reflexivity. Qed.

Lemma nth_col_cell cs r x i : pos_last x cs = Some i -> nth i (map cell_val r) VNull = cell_val (col_cell cs r x).
Proof.
  intros Hp. unfold col_cell, row_look. rewrite Hp. cbn [obind].
  destruct (nth_error r i) as [c|] eqn:E.
  - rewrite (nth_error_nth (map cell_val r) i VNull (map_nth_error cell_val i r E)). reflexivity.
  - apply nth_error_None in E. rewrite nth_overflow; [reflexivity|rewrite map_length; exact E].
Qed.

Lemma cmp_keys_okeys st cs1 (keyvals : list (lexpr * bool)) ks (ra rb : row) (ea eb : env) :
  mapM (fun k : lexpr * bool => do c <- key_col cs1 (fst k); Ok (c, snd k)) keyvals = Ok ks ->
  (forall e c, List.In e (map fst keyvals) -> key_col cs1 e = Ok c ->
     nth c (map cell_val ra) VNull = item_val st ea e /\ nth c (map cell_val rb) VNull = item_val st eb e) ->
  cmp_keys ks (map cell_val ra) (map cell_val rb) = okeys_cmp st (okeys_of keyvals) (ea, []) (eb, []).
Proof.
  revert ks. induction keyvals as [|k kv IH]; intros ks Hm Hv.
  - cbn in Hm. inversion Hm. reflexivity.
  - cbn [mapM] in Hm. destruct (key_col cs1 (fst k)) as [c|] eqn:Ec; [|discriminate Hm]. cbn [rbind] in Hm.
    destruct (mapM (fun k0 : lexpr * bool => do c0 <- key_col cs1 (fst k0); Ok (c0, snd k0)) kv) as [ks'|] eqn:Em; [|discriminate Hm].
    cbn [rbind] in Hm. inversion Hm; subst ks. cbn [cmp_keys okeys_of map okeys_cmp okey_cmp fst].
    destruct (Hv (fst k) c (or_introl eq_refl) Ec) as [Ha Hb]. rewrite Ha, Hb. fold (okeys_of kv).
    rewrite (IH ks' eq_refl) by (intros e c' He Hc'; apply Hv; [right; exact He|exact Hc']).
    match goal with |- match ?c with _ => _ end = _ => destruct c; reflexivity end.
Qed.

(** the value a sort key has in a row of the extended table *)
Lemma key_value st t t1 f (keys : list (lexpr * bool)) r e c :
  wfc t -> keys_fresh (cols t) (map fst keys) ->
  cols t1 = cols t ++ map snd (prop_cols (cols t) (map fst keys)) ->
  List.In r (rows t) ->
  (forall x, List.In x (cols t) -> ~ List.In x (map snd (prop_cols (cols t) (map fst keys))) ->
             to_gen (col_cell (cols t1) (f r) x) = to_gen (col_cell (cols t) r x)) ->
  (forall x k, List.In (EProp x k) (map fst keys) -> col_cell (cols t1) (f r) (pname x k) = CVal (pprop st (col_cell (cols t) r x) k)) ->
  List.In e (map fst keys) -> core_item (filter nonanon (cols t)) e = true -> sort_key e = true ->
  key_col (cols t1) e = Ok c ->
  nth c (map cell_val (f r)) VNull = item_val st (row_env (cols t) r) e.
Proof.
  intros [Hnd Hrows] [Hfr1 Hfr2] Hc1 Hr Hold Hnew He Hcore Hsk Hkc.
  destruct (Hrows r Hr) as [Hl Hent].
  rewrite <- (ival_item_val st (cols t) r e Hl Hent Hnd Hcore).
  destruct e; try discriminate Hsk; cbn [key_col] in Hkc; cbn [ival].
  - (* a variable *)
    destruct (pos_last x (cols t1)) as [i|] eqn:Ep; [|discriminate Hkc]. cbn [of_opt] in Hkc. inversion Hkc; subst c.
    rewrite (nth_col_cell _ _ _ _ Ep).
    assert (Hx : List.In x (cols t)).
    { cbn [core_item] in Hcore. apply existsb_exists in Hcore. destruct Hcore as (y & Hy & Hxy). apply String.eqb_eq in Hxy. subst y.
      apply filter_In in Hy. apply Hy. }
    assert (Hnx : ~ List.In x (map snd (prop_cols (cols t) (map fst keys)))).
    { intro Hin. apply in_map_iff in Hin. destruct Hin as (p & Hp1 & Hp2). destruct (prop_cols_names _ _ p Hp2) as (_ & _ & H3).
      apply H3. rewrite Hp1. exact Hx. }
    pose proof (Hold x Hx Hnx) as Hg. unfold to_gen in Hg. injection Hg as Hv. exact Hv.
  - (* a property: the materialised column *)
    fold (pname x k) in Hkc. destruct (pos_last (pname x k) (cols t1)) as [i|] eqn:Ep; [|discriminate Hkc]. cbn [of_opt] in Hkc. inversion Hkc; subst c.
    rewrite (nth_col_cell _ _ _ _ Ep), (Hnew x k He). reflexivity.
Qed.

Lemma key_col_ok t1 cs names e :
  cols t1 = cs ++ names -> sort_key e = true ->
  (forall x, e = EVar x -> List.In x cs) -> (forall x k, e = EProp x k -> List.In (pname x k) names) ->
  exists c, key_col (cols t1) e = Ok c.
Proof.
  intros Hc Hs Hv Hp. destruct e; try discriminate Hs; cbn [key_col].
  - destruct (pos_last_some x (cols t1)) as (i & Hi & _); [rewrite Hc; apply in_or_app; left; apply Hv; reflexivity|].
    rewrite Hi. eexists. reflexivity.
  - fold (pname x k). destruct (pos_last_some (pname x k) (cols t1)) as (i & Hi & _); [rewrite Hc; apply in_or_app; right; apply (Hp x k); reflexivity|].
    rewrite Hi. eexists. reflexivity.
Qed.

Lemma mapM_exists {A B} (g : A -> res B) (l : list A) : (forall a, List.In a l -> exists b, g a = Ok b) -> exists bs, mapM g l = Ok bs.
Proof.
  induction l as [|a l IH]; intros H; [exists []; reflexivity|].
  destruct (H a (or_introl eq_refl)) as (b & Hb). destruct IH as (bs & Hbs); [intros a' Ha'; apply H; right; exact Ha'|].
  cbn [mapM]. rewrite Hb. cbn [rbind]. rewrite Hbs. eexists. reflexivity.
Qed.

Theorem sort_sem st keys t :
  wfc t -> keys_fresh (cols t) (map fst keys) ->
  forallb (fun k => core_item (filter nonanon (cols t)) (fst k) && sort_key (fst k)) keys = true ->
  exists t1 f,
    (do t1 <- add_prop_cols st t (map fst keys);
     do ks <- mapM (fun k : lexpr * bool => do c <- key_col (cols t1) (fst k); Ok (c, snd k)) keys;
     Ok (mkT (cols t1) (map (map to_gen) (sort_rows ks (rows t1)))))
    = Ok (mkT (cols t1) (map (fun r => map to_gen (f r)) (stable_sort (fun a b => le_env st keys (row_env (cols t) a) (row_env (cols t) b)) (rows t)))) /\
    cols t1 = cols t ++ map snd (prop_cols (cols t) (map fst keys)) /\
    forall r, List.In r (rows t) ->
      List.length (cols t1) = List.length (f r) /\
      (forall x, List.In x (cols t) -> to_gen (col_cell (cols t1) (f r) x) = to_gen (col_cell (cols t) r x)).
Proof.
  intros Hw Hfr Hk. rewrite forallb_forall in Hk.
  assert (Hvars : forall x k, List.In (EProp x k) (map fst keys) -> List.In x (cols t)).
  { intros x k Hin. apply in_map_iff in Hin. destruct Hin as (kk & Hk1 & Hk2). specialize (Hk kk Hk2). apply andb_true_iff in Hk.
    destruct Hk as [Hk _]. rewrite Hk1 in Hk. cbn [core_item] in Hk. apply existsb_exists in Hk. destruct Hk as (y & Hy & Hxy).
    apply String.eqb_eq in Hxy. subst y. apply filter_In in Hy. apply Hy. }
  destruct (add_prop_cols_spec st t (map fst keys) Hw Hfr Hvars) as (t1 & Ha & Hc1 & f & Hrows1 & Hf).
  assert (Hnotnew : forall x, List.In x (cols t) -> ~ List.In x (map snd (prop_cols (cols t) (map fst keys)))).
  { intros x Hx Hin. apply in_map_iff in Hin. destruct Hin as (p & Hp1 & Hp2). destruct (prop_cols_names _ _ p Hp2) as (_ & _ & H3).
    apply H3. rewrite Hp1. exact Hx. }
  (* the key columns exist *)
  assert (Hks : exists ks, mapM (fun k : lexpr * bool => do c <- key_col (cols t1) (fst k); Ok (c, snd k)) keys = Ok ks).
  { clear -Hk Hc1 Hfr Hvars. assert (Hall : forall kk, List.In kk keys -> exists c, key_col (cols t1) (fst kk) = Ok c).
    { intros kk Hkk. specialize (Hk kk Hkk). apply andb_true_iff in Hk. destruct Hk as [Hci Hsk].
      apply (key_col_ok t1 (cols t) _ (fst kk) Hc1 Hsk).
      - intros x Hx. rewrite Hx in Hci. cbn [core_item] in Hci. apply existsb_exists in Hci. destruct Hci as (y & Hy & Hxy).
        apply String.eqb_eq in Hxy. subst y. apply filter_In in Hy. apply Hy.
      - intros x k Hx. apply prop_cols_complete; [rewrite <- Hx; apply in_map; exact Hkk|].
        destruct Hfr as [Hfr1 _]. apply Hfr1. rewrite <- Hx. apply in_map. exact Hkk. }
    apply mapM_exists. intros kk Hkk. destruct (Hall kk Hkk) as (c & Hc). rewrite Hc. eexists. reflexivity. }
  destruct Hks as (ks & Hks).
  exists t1, f. split; [|split; [exact Hc1|]].
  - rewrite Ha. cbn [rbind]. rewrite Hks. cbn [rbind]. f_equal. f_equal.
    unfold sort_rows. rewrite Hrows1.
    rewrite (stable_sort_map f _ (fun a b => match cmp_keys ks (map cell_val (f a)) (map cell_val (f b)) with Gt => false | _ => true end))
      by (intros a b; reflexivity).
    rewrite map_map.
    rewrite (stable_sort_ext _ (fun a b => le_env st keys (row_env (cols t) a) (row_env (cols t) b))); [reflexivity|].
    intros a b Hina Hinb. unfold le_env.
    rewrite (cmp_keys_okeys st (cols t1) keys ks (f a) (f b) (row_env (cols t) a) (row_env (cols t) b) Hks); [reflexivity|].
    intros e c He Hkc.
    assert (Hcore : core_item (filter nonanon (cols t)) e = true /\ sort_key e = true).
    { apply in_map_iff in He. destruct He as (kk & <- & Hkk). specialize (Hk kk Hkk). apply andb_true_iff in Hk. exact Hk. }
    destruct Hcore as [Hcore Hsk].
    destruct (Hf a Hina) as (_ & Holda & Hnewa). destruct (Hf b Hinb) as (_ & Holdb & Hnewb).
    split; eapply key_value; eauto.
  - intros r Hr. destruct (Hf r Hr) as (Hl & Hold & _). split; [exact Hl|]. intros x Hx. apply Hold; [exact Hx|apply Hnotnew; exact Hx].
Qed.

(** * GQL: MATCH chain [WHERE] RETURN items ORDER BY keys — Return(Sort(body)) *)
Definition order_core (q : query) : bool :=
  forallb (fun k => match k with
                    | OEnv e _ => core_item (pat_vars (q_pat q)) e && sort_key e
                    | OCol _ _ => false end) (q_order q).
Definition chain_cols_pat (p : pattern) : list string := np_var (p_start p) :: flat_map hop_cols (p_hops p).

Lemma okeys_of_sort_keys ks : forallb (fun k => match k with OEnv _ _ => true | OCol _ _ => false end) ks = true -> okeys_of (sort_keys ks) = ks.
Proof.
  induction ks as [|k ks IH]; intros H; [reflexivity|]. cbn [forallb] in H. apply andb_true_iff in H. destruct H as [H1 H2].
  destruct k; [|discriminate H1]. cbn. unfold okeys_of, sort_keys in IH. rewrite (IH H2). reflexivity.
Qed.

Lemma opt_sort_ne ks p : ks <> [] -> opt_sort ks p = LSort (sort_keys ks) p.
Proof. destruct ks; [intros H; exfalso; apply H; reflexivity|reflexivity]. Qed.
Lemma spec_order_ne st ks rs : ks <> [] ->
  spec_order st ks rs = stable_sort (fun a b => match okeys_cmp st ks a b with Gt => false | _ => true end) rs.
Proof. destruct ks; [intros H; exfalso; apply H; reflexivity|reflexivity]. Qed.

Theorem gql_order_answer_l st q :
  store_ok st -> single_hops (q_pat q) = true -> single_labels (q_pat q) = true -> pat_fresh (q_pat q) = true ->
  no_type_case st (q_pat q) = true -> directed (q_pat q) = true ->
  plain_core q = true -> order_core q = true -> q_order q <> [] ->
  match q_ret q with RPlain items _ => props_on_nodes (q_pat q) items | _ => true end = true ->
  keys_fresh (chain_cols_pat (q_pat q)) (map fst (sort_keys (q_order q))) ->
  plan_rows st (gql_plan_of q) = answer st q.
Proof.
  intros Hok H1 H2 Hf H3 H4 Hp Hoc Hone Hpn Hkf. unfold plain_core in Hp. apply andb_true_iff in Hp. destruct Hp as [Hp Hw].
  destruct (q_ret q) as [items dd|] eqn:Hr; [|discriminate Hp]. destruct dd; [discriminate Hp|].
  destruct (chain_obindings_nc st (q_pat q) Hf) as (t0 & Hs0 & Hwf0 & Hnc0 & Hc0 & He0).
  assert (Hv : forall x, List.In x (pat_vars (q_pat q)) -> List.In x (filter nonanon (cols t0))).
  { intros x Hx. rewrite Hc0. apply pat_vars_cols; assumption. }
  assert (Hbody : exists t, sem_ops st (where_plan (q_where q) (chain_plan (q_pat q))) = Ok t /\ wfc t /\ cols t = cols t0 /\
                            nodecells t (pat_nvars (q_pat q)) /\
                            tbl_envs t = spec_where st (q_where q) (obindings_g st (q_pat q))).
  { unfold where_plan. destruct (q_where q) as [w|].
    - assert (Hna : forall x, List.In x (expr_vars w) -> String.eqb x anon = false).
      { intros x Hx. pose proof (Hv x (expr_vars_in_spec _ _ Hw x Hx)) as Hi. apply filter_In in Hi. destruct Hi as [_ Hi].
        unfold nonanon in Hi. apply negb_true_iff in Hi. exact Hi. }
      destruct (where_sem st w t0 Hwf0 Hna) as [Hwf' He'].
      eexists. split; [rewrite sem_ops_filter, Hs0; reflexivity|]. split; [exact Hwf'|]. split; [reflexivity|].
      split; [apply nodecells_filter; exact Hnc0|]. rewrite He', He0. reflexivity.
    - exists t0. split; [exact Hs0|]. split; [exact Hwf0|]. split; [reflexivity|]. split; [exact Hnc0|]. rewrite He0. reflexivity. }
  destruct Hbody as (t & Hs & Hwf & Hc & Hnc & He).
  assert (Hob : obindings_g st (q_pat q) = bindings st (q_pat q)).
  { rewrite <- (obindings_directed st (q_pat q) Hok H1 H2 H3 H4). unfold obindings_g, obindings. f_equal.
    clear -H1. unfold single_hops in H1. rewrite forallb_forall in H1.
    assert (Hh : forall hs acc, (forall h, List.In h hs -> h_len h = HOne) -> obind_hops_g st hs acc = obind_hops st hs acc).
    { induction hs as [|h hs IH]; intros acc Hl; [reflexivity|]. cbn [obind_hops_g obind_hops].
      rewrite IH by (intros h' Hh'; apply Hl; right; exact Hh'). f_equal. apply flat_map_ext_in. intros ec _.
      unfold obind_hop_g, obind_hop, ostep_h. rewrite (Hl h (or_introl eq_refl)). reflexivity. }
    apply Hh. intros h Hh'. specialize (H1 h Hh'). destruct (h_len h); [reflexivity|discriminate]. }
  set (keys := sort_keys (q_order q)) in *.
  assert (Hoenv : forallb (fun k => match k with OEnv _ _ => true | OCol _ _ => false end) (q_order q) = true).
  { unfold order_core in Hoc. rewrite forallb_forall in Hoc |- *. intros k Hk. specialize (Hoc k Hk). destruct k; [reflexivity|discriminate Hoc]. }
  assert (Hkeys : forallb (fun k : lexpr * bool => core_item (filter nonanon (cols t)) (fst k) && sort_key (fst k)) keys = true).
  { unfold order_core in Hoc. rewrite forallb_forall in Hoc |- *. intros k Hk. unfold keys, sort_keys in Hk. apply in_flat_map in Hk.
    destruct Hk as (ok & Hok1 & Hok2). specialize (Hoc ok Hok1). destruct ok; [|destruct Hok2]. destruct Hok2 as [<-|[]]. cbn [fst].
    apply andb_true_iff in Hoc. destruct Hoc as [Ha Hb]. rewrite Hb, andb_true_r. rewrite Hc. eapply core_item_mono; [exact Hv|exact Ha]. }
  assert (Hkf' : keys_fresh (cols t) (map fst keys)) by (rewrite Hc, Hc0; exact Hkf).
  destruct (sort_sem st keys t Hwf Hkf' Hkeys) as (t1 & f & Hsort & Hc1 & Hf1).
  set (le_rows := fun a b : row => le_env st keys (row_env (cols t) a) (row_env (cols t) b)) in *.
  set (sorted := stable_sort le_rows (rows t)) in *.
  set (t2 := mkT (cols t1) (map (fun r => map to_gen (f r)) sorted)) in *.
  assert (Hsort' : sem_ops st (LSort keys (where_plan (q_where q) (chain_plan (q_pat q)))) = Ok t2).
  { cbn [sem_ops]. rewrite Hs. cbn [rbind]. exact Hsort. }
  set (sorted0 := sorted).
  set (cutl := fun (A : Type) (l : list A) => spec_limit (q_limit q) (spec_skip (q_skip q) l)).
  assert (Hcutmap : forall (A B : Type) (g : A -> B) (l : list A), cutl B (map g l) = map g (cutl A l)).
  { intros A B g l. unfold cutl. destruct (q_limit q), (q_skip q); cbn [spec_limit spec_skip]; rewrite <- ?firstn_map', <- ?skipn_map'; reflexivity. }
  assert (Hcutin : forall (A : Type) (l : list A) x, List.In x (cutl A l) -> List.In x l).
  { intros A l x Hx. unfold cutl in Hx. destruct (q_limit q), (q_skip q); cbn [spec_limit spec_skip] in Hx;
      try (apply in_firstn' in Hx); try (apply in_skipn' in Hx); exact Hx. }
  clear sorted0. rename sorted into sorted_all. set (sorted := cutl row sorted_all).
  set (t2c := mkT (cols t1) (map (fun r => map to_gen (f r)) sorted)).
  assert (Hcut : sem_ops st (opt_limit (q_limit q) (opt_skip (q_skip q) (LSort keys (where_plan (q_where q) (chain_plan (q_pat q)))))) = Ok t2c).
  { assert (Hfix : forall rs : list row, Forall (fun r => map to_gen r = r) rs ->
                   forall n, skip_rows n rs = skipn n rs /\ limit_rows n rs = firstn n rs).
    { intros rs Hfx n. split.
      - unfold skip_rows. destruct (Nat.eqb n 0) eqn:E; [apply Nat.eqb_eq in E; subst n; reflexivity|].
        clear E. revert n. induction Hfx as [|r rs' Hrr _ IH]; intros n; destruct n; cbn [skipn map]; try reflexivity.
        + rewrite Hrr. f_equal. apply (IH 0%nat).
        + apply IH.
      - unfold limit_rows. destruct rs as [|r0 rs0] eqn:Ers; [destruct n; reflexivity|]. rewrite <- Ers in *.
        destruct (Nat.leb n 0) eqn:E0; [apply Nat.leb_le in E0; assert (n = 0%nat) by lia; subst n; reflexivity|].
        destruct (Nat.leb (List.length rs) n) eqn:E1; [apply Nat.leb_le in E1; rewrite firstn_all2 by exact E1; reflexivity|].
        clear E0 E1 Ers. revert n. induction Hfx as [|r rs' Hrr _ IH]; intros n; destruct n; cbn [firstn map]; try reflexivity.
        rewrite Hrr. f_equal. apply IH. }
    assert (Hfx2 : Forall (fun r => map to_gen r = r) (rows t2)).
    { unfold t2. cbn [rows mkT]. apply Forall_forall. intros r Hr2. apply in_map_iff in Hr2. destruct Hr2 as (r0 & <- & _). apply to_gen_idem. }
    assert (Hrows2 : rows t2c = cutl row (rows t2)).
    { unfold t2c, t2, sorted. cbn [rows mkT]. symmetry. apply Hcutmap. }
    replace t2c with (mkT (cols t1) (cutl row (rows t2))) by (unfold t2c in *; cbn [rows mkT] in Hrows2; rewrite <- Hrows2; reflexivity).
    unfold cutl.
    destruct (q_limit q) as [n|], (q_skip q) as [k|]; cbn [opt_limit opt_skip spec_limit spec_skip];
      rewrite ?sem_ops_limit, ?sem_ops_skip, Hsort'; cbn [rbind]; unfold limit_tbl, skip_tbl; cbn [rows cols mkT].
    - assert (Hfx3 : Forall (fun r => map to_gen r = r) (skipn k (rows t2))).
      { apply Forall_forall. intros r Hr3. apply in_skipn' in Hr3. rewrite Forall_forall in Hfx2. apply Hfx2. exact Hr3. }
      rewrite (proj1 (Hfix (rows t2) Hfx2 k)). rewrite (proj2 (Hfix _ Hfx3 n)). reflexivity.
    - rewrite (proj2 (Hfix (rows t2) Hfx2 n)). reflexivity.
    - rewrite (proj1 (Hfix (rows t2) Hfx2 k)). reflexivity.
    - reflexivity. }
  assert (Hsub : forall r, List.In r sorted -> List.In r (rows t)).
  { intros r Hrs. apply (stable_sort_in le_rows _ r). apply (Hcutin row sorted_all r Hrs). }
  set (envs := map (row_env (cols t)) sorted).
  destruct (return_sem_gen st items t2c envs (filter nonanon (cols t))) as (t' & Hret & Hout).
  - intros r2 Hr2. cbn [t2c rows cols mkT] in *. apply in_map_iff in Hr2. destruct Hr2 as (r & <- & Hrin).
    destruct (Hf1 r (Hsub r Hrin)) as [Hl Hold]. split; [rewrite map_length; exact Hl|].
    intros x Hx. apply filter_In in Hx. destruct Hx as [Hx _]. rewrite col_cell_to_gen, (Hold x Hx).
    destruct Hwf as [_ Hwr]. destruct (Hwr r (Hsub r Hrin)) as [Hlr Her].
    destruct (col_cell_in (cols t) r x Hx Hlr) as (c & _ & Hcc & Hcin). rewrite Hcc. rewrite Forall_forall in Her.
    pose proof (Her c Hcin) as Hce. destruct c; cbn in Hce |- *; [exact I|exact I|destruct Hce].
  - intros x Hx. cbn [t2c cols mkT]. rewrite Hc1. apply in_or_app. left. apply filter_In in Hx. apply Hx.
  - rewrite forallb_forall in Hp |- *. intros e He'. eapply core_item_mono; [|apply Hp; exact He']. intros x Hx. rewrite Hc. apply Hv. exact Hx.
  - unfold envs. cbn [t2c rows cols mkT]. apply Forall2_map_both. intros r Hrin.
    pose proof (Hsub r Hrin) as Hin. destruct Hwf as [Hnd Hwr]. destruct (Hwr r Hin) as [Hl Hent].
    destruct (Hf1 r Hin) as [_ Hold].
    transitivity (map (ival st (cols t) r) items).
    + apply map_ext_in. intros e He'.
      assert (Hcore : core_item (filter nonanon (cols t)) e = true).
      { rewrite forallb_forall in Hp. eapply core_item_mono; [|apply Hp; exact He']. intros x Hx. rewrite Hc. apply Hv. exact Hx. }
      destruct e; cbn [core_item] in Hcore; try discriminate Hcore; cbn [ival]; try reflexivity.
      * apply existsb_exists in Hcore. destruct Hcore as (y & Hy & Hxy). apply String.eqb_eq in Hxy. subst y. apply filter_In in Hy.
        rewrite col_cell_to_gen, (Hold x (proj1 Hy)). reflexivity.
      * apply existsb_exists in Hcore. destruct Hcore as (y & Hy & Hxy). apply String.eqb_eq in Hxy. subst y. apply filter_In in Hy.
        rewrite col_cell_to_gen, (Hold x (proj1 Hy)).
        unfold props_on_nodes in Hpn. rewrite forallb_forall in Hpn. specialize (Hpn _ He').
        change (existsb (String.eqb x) (pat_nvars (q_pat q)) = true) in Hpn. apply existsb_exists in Hpn.
        destruct Hpn as (y & Hy' & Hxy). apply String.eqb_eq in Hxy. subst y. destruct (Hnc r x Hin Hy') as (i & Hi). rewrite Hi. reflexivity.
    + apply map_ext_in. intros e He'. apply ival_item_val; try assumption.
      rewrite forallb_forall in Hp. eapply core_item_mono; [|apply Hp; exact He']. intros x Hx. rewrite Hc. apply Hv. exact Hx.
  - (* assemble *)
    unfold plan_rows, gql_plan_of. rewrite Hr. rewrite (opt_sort_ne _ _ Hone). fold keys.
    assert (Hfull : sem_ops st (LReturn (ret_items items) false (opt_limit (q_limit q) (opt_skip (q_skip q) (LSort keys (where_plan (q_where q) (chain_plan (q_pat q))))))) = Ok t').
    { change (sem_ops st (LReturn (ret_items items) false ?i)) with (do t <- sem_ops st i; do r <- return_tbl st (ret_items items) t; if false then Ok (mkT (cols r) (distinct_rows (rows r))) else Ok r).
      rewrite Hcut. cbn [rbind]. rewrite Hret. reflexivity. }
    rewrite Hfull, Hout.
    (* the declarative side *)
    unfold answer. rewrite Hr. cbn [rbind]. f_equal.
    rewrite (spec_order_ne st _ _ Hone).
    rewrite <- (okeys_of_sort_keys (q_order q) Hoenv). fold keys.
    unfold spec_project.
    rewrite (stable_sort_map (fun en => (en, map (item_val st en) items)) _ (le_env st keys)).
    2:{ intros a b. unfold le_env. rewrite okeys_cmp_env. reflexivity. }
    change (spec_limit (q_limit q) (spec_skip (q_skip q) ?l)) with (cutl _ l).
    rewrite <- (Hcutmap _ _ snd), map_map. cbn [snd]. unfold project_envs, envs, sorted.
    rewrite <- (Hcutmap _ _ (row_env (cols t))). rewrite <- (Hcutmap _ _ (fun en => map (item_val st en) items)).
    f_equal. f_equal. unfold sorted_all.
    rewrite <- (stable_sort_map (row_env (cols t)) (le_env st keys) le_rows) by (intros a b; reflexivity).
    fold (tbl_envs t). rewrite He, Hob. reflexivity.
Qed.

(** * Grouping and aggregation: Aggregate(body) *)
Definition agg_exprs (keys : list lexpr) (aggs : list aggx) : list lexpr :=
  keys ++ flat_map (fun a => match ag_arg a with Some e => [e] | None => [] end) aggs.
Definition agg_types (keys : list lexpr) (aggs : list aggx) : list coltype :=
  map (fun _ => TGen) keys ++ map agg_coltype aggs.
(** what the result vectors make of the declarative rows (C08-K13 is exactly the case where this
    changes them) *)
Definition typed_answer (keys : list lexpr) (aggs : list aggx) (rs : list (list val)) : list (list val) :=
  map (map cell_val) (typed_rows (match keys with [] => map agg_coltype aggs | _ => agg_types keys aggs end) (map (map CVal) rs)).

Lemma mapM_combine_map {A B C} (g : A -> B) (F : A * B -> res C) (G' : A -> res C) (l : list A) :
  (forall a, List.In a l -> F (a, g a) = G' a) -> mapM F (combine l (map g l)) = mapM G' l.
Proof.
  induction l as [|a l IH]; intros H; [reflexivity|]. cbn [map combine mapM]. rewrite (H a (or_introl eq_refl)).
  destruct (G' a); [|reflexivity]. cbn [rbind]. rewrite IH by (intros a' Ha'; apply H; right; exact Ha'). reflexivity.
Qed.
Definition keyof_cols (gcols : list nat) (r : row) : list val := map (fun i => cell_val (nth i r (CVal VNull))) gcols.
Definition one_group (aggs : list aggx) (acols : list (option nat)) (gcols : list nat) (rows1 : list row) (k : list val) : res row :=
  let rs := filter (fun r => row_vals_eqb (keyof_cols gcols r) k) rows1 in
  do avs <- mapM (fun ac : aggx * option nat => agg_value (fst ac)
                              (match snd ac with Some c => map (fun r => cell_val (nth c r (CVal VNull))) rs | None => [] end)
                              (List.length rs)) (combine aggs acols);
  Ok (map CVal (k ++ avs)).
Definition agg_core (gb : list lexpr) (aggs : list aggx) (t1 : tbl) (gcols : list nat) (acols : list (option nat)) : res tbl :=
  let names := map expr_name gb ++ map agg_name aggs in
  if negb (forallb (fun r => forallb group_key_ok (keyof_cols gcols r)) (rows t1)) then Err else
  match gb with
  | [] => do r <- one_group aggs acols gcols (rows t1) []; Ok (mkT names (typed_rows (map agg_coltype aggs) [r]))
  | _ => do rs <- mapM (one_group aggs acols gcols (rows t1)) (dedup_by row_vals_eqb [] (map (keyof_cols gcols) (rows t1)));
         Ok (mkT names (typed_rows (map (fun _ => TGen) gb ++ map agg_coltype aggs) rs))
  end.
Lemma aggregate_tbl_core st gb aggs t :
  aggregate_tbl st gb aggs t =
  (do t1 <- add_prop_cols st t (agg_exprs gb aggs);
   do gcols <- mapM (key_col (cols t1)) gb;
   do acols <- mapM (fun a : aggx => match ag_arg a with Some e => do c <- key_col (cols t1) e; Ok (Some c) | None => Ok None end) aggs;
   agg_core gb aggs t1 gcols acols).
Proof. reflexivity. Qed.

Lemma mapM_rel {A B C} (f : A -> res B) (g : A -> res C) (R : B -> C -> Prop) (l : list A) :
  (forall a, match f a, g a with Ok b, Ok c => R b c | Err, Err => True | _, _ => False end) ->
  match mapM f l, mapM g l with Ok bs, Ok cs => Forall2 R bs cs | Err, Err => True | _, _ => False end.
Proof.
  intros H. induction l as [|a l IH]; [constructor|]. cbn [mapM]. specialize (H a).
  destruct (f a), (g a); cbn [rbind]; try contradiction; [|exact I].
  destruct (mapM f l), (mapM g l); cbn [rbind]; try contradiction; [|exact I]. constructor; assumption.
Qed.
Lemma group_match {A B} (K : list lexpr) (R : A -> B -> Prop) (x1 y1 : A) (x2 y2 : B) :
  (K = [] -> R x1 x2) -> (K <> [] -> R y1 y2) ->
  R (match K with [] => x1 | _ :: _ => y1 end) (match K with [] => x2 | _ :: _ => y2 end).
Proof. destruct K; intros H1 H2; [apply H1; reflexivity|apply H2; discriminate]. Qed.

Theorem agg_sem st keys aggs t :
  wfc t -> keys_fresh (cols t) (agg_exprs keys aggs) ->
  forallb (fun e => core_item (filter nonanon (cols t)) e && sort_key e) (agg_exprs keys aggs) = true ->
  (forall r, List.In r (rows t) -> forallb group_key_ok (map (item_val st (row_env (cols t) r)) keys) = true) ->
  match aggregate_tbl st keys aggs t, spec_group st keys aggs (tbl_envs t) with
  | Ok t', Ok rs => out_rows t' = typed_answer keys aggs (map snd rs)
  | Err, Err => True
  | _, _ => False
  end.
Proof.
  intros Hw Hfr Hk Hgk. rewrite forallb_forall in Hk.
  assert (Hvars : forall x k, List.In (EProp x k) (agg_exprs keys aggs) -> List.In x (cols t)).
  { intros x k Hin. specialize (Hk _ Hin). apply andb_true_iff in Hk. destruct Hk as [Hk _]. cbn [core_item] in Hk.
    apply existsb_exists in Hk. destruct Hk as (y & Hy & Hxy). apply String.eqb_eq in Hxy. subst y. apply filter_In in Hy. apply Hy. }
  rewrite aggregate_tbl_core.
  destruct (add_prop_cols_spec st t (agg_exprs keys aggs) Hw Hfr Hvars) as (t1 & Ha & Hc1 & f & Hrows1 & Hf).
  rewrite Ha. cbn [rbind].
  (* key columns *)
  assert (Hkc : forall e, List.In e (agg_exprs keys aggs) -> exists c, key_col (cols t1) e = Ok c).
  { intros e He. specialize (Hk e He). apply andb_true_iff in Hk. destruct Hk as [Hci Hsk].
    apply (key_col_ok t1 (cols t) _ e Hc1 Hsk).
    - intros x Hx. rewrite Hx in Hci. cbn [core_item] in Hci. apply existsb_exists in Hci. destruct Hci as (y & Hy & Hxy).
      apply String.eqb_eq in Hxy. subst y. apply filter_In in Hy. apply Hy.
    - intros x k Hx. apply prop_cols_complete; [rewrite <- Hx; exact He|]. destruct Hfr as [Hfr1 _]. apply Hfr1. rewrite <- Hx. exact He. }
  set (colof := fun e => match key_col (cols t1) e with Ok c => c | Err => 0%nat end).
  assert (Hgcols : mapM (key_col (cols t1)) keys = Ok (map colof keys)).
  { apply mapM_map. intros e He. destruct (Hkc e (in_or_app _ _ _ (or_introl He))) as (c & Hc). unfold colof. rewrite Hc. reflexivity. }
  rewrite Hgcols. cbn [rbind].
  set (acolf := fun a : aggx => match ag_arg a with Some e => Some (colof e) | None => None end).
  assert (Hacols : mapM (fun a : aggx => match ag_arg a with Some e => do c <- key_col (cols t1) e; Ok (Some c) | None => Ok None end) aggs
                   = Ok (map acolf aggs)).
  { apply mapM_map. intros a Hain. unfold acolf. destruct (ag_arg a) as [e|] eqn:Ee; [|reflexivity].
    destruct (Hkc e) as (c & Hc).
    { apply in_or_app. right. apply in_flat_map. exists a. split; [exact Hain|]. rewrite Ee. left. reflexivity. }
    unfold colof. rewrite Hc. reflexivity. }
  rewrite Hacols. cbn [rbind].
  (* values of key / argument columns in a row *)
  assert (Hval : forall r e, List.In r (rows t) -> List.In e (agg_exprs keys aggs) ->
                 cell_val (nth (colof e) (f r) (CVal VNull)) = item_val st (row_env (cols t) r) e).
  { intros r e Hr He. destruct (Hkc e He) as (c & Hc). unfold colof. rewrite Hc.
    specialize (Hk e He). apply andb_true_iff in Hk. destruct Hk as [Hci Hsk]. destruct (Hf r Hr) as (_ & Hold & Hnew).
    rewrite <- (key_value st t t1 f (map (fun e => (e, false)) (agg_exprs keys aggs)) r e c Hw); try assumption.
    - rewrite <- (map_nth cell_val). reflexivity.
    - rewrite map_map. cbn [fst]. rewrite map_id. exact Hfr.
    - rewrite map_map. cbn [fst]. rewrite map_id. exact Hc1.
    - rewrite map_map. cbn [fst]. rewrite map_id. exact Hold.
    - rewrite map_map. cbn [fst]. rewrite map_id. exact Hnew.
    - rewrite map_map. cbn [fst]. rewrite map_id. exact He. }
  set (E := row_env (cols t)).
  set (keyofr := keyof_cols (map colof keys)).
  set (keyofe := fun en : env => map (item_val st en) keys).
  assert (Hkey : forall r, List.In r (rows t) -> keyofr (f r) = keyofe (E r)).
  { intros r Hr. unfold keyofr, keyof_cols, keyofe. rewrite map_map. apply map_ext_in. intros e He. apply Hval; [exact Hr|apply in_or_app; left; exact He]. }
  unfold agg_core. rewrite Hrows1. fold keyofr.
  (* the group-key check *)
  assert (Hgk' : negb (forallb (fun r => forallb group_key_ok (keyofr r)) (map f (rows t))) = false).
  { apply negb_false_iff. apply forallb_forall. intros r' Hr'. apply in_map_iff in Hr'. destruct Hr' as (r & <- & Hr).
    rewrite (Hkey r Hr). apply Hgk. exact Hr. }
  rewrite Hgk'.
  set (oner := one_group aggs (map acolf aggs) (map colof keys) (map f (rows t))).
  set (onee := fun k : list val =>
      let g := filter (fun en => row_vals_eqb (keyofe en) k) (tbl_envs t) in
      do avs <- mapM (fun a => agg_value a (match ag_arg a with Some e => map (fun en => item_val st en e) g | None => [] end)
                                         (List.length g)) aggs;
      Ok (@nil (string * ent), k ++ avs)).
  assert (Hone : forall k, match oner k, onee k with
                           | Ok r, Ok ev => r = map CVal (snd ev)
                           | Err, Err => True
                           | _, _ => False end).
  { intros k. unfold oner, one_group, onee. cbv zeta. fold keyofr. unfold tbl_envs. fold E.
    rewrite !filter_map_comm.
    rewrite (filter_ext_in' (fun a => row_vals_eqb (keyofr (f a)) k) (fun a => row_vals_eqb (keyofe (E a)) k))
      by (intros r Hr; rewrite (Hkey r Hr); reflexivity).
    set (G := filter (fun a => row_vals_eqb (keyofe (E a)) k) (rows t)).
    assert (HG : forall r, List.In r G -> List.In r (rows t)) by (intros r Hr; apply filter_In in Hr; apply Hr).
    rewrite !map_length.
    assert (Hav : mapM (fun ac : aggx * option nat => agg_value (fst ac)
                          (match snd ac with Some c => map (fun r => cell_val (nth c r (CVal VNull))) (map f G) | None => [] end) (List.length G))
                       (combine aggs (map acolf aggs))
                  = mapM (fun a => agg_value a (match ag_arg a with Some e => map (fun en => item_val st en e) (map E G) | None => [] end) (List.length G)) aggs).
    { apply mapM_combine_map. intros a Hain. cbn [fst snd].
      assert (Harg : match acolf a with Some c => map (fun r => cell_val (nth c r (CVal VNull))) (map f G) | None => [] end
                     = match ag_arg a with Some e => map (fun en => item_val st en e) (map E G) | None => [] end).
      { unfold acolf. destruct (ag_arg a) as [e|] eqn:Ee; [|reflexivity]. rewrite !map_map. apply map_ext_in. intros r Hr.
        apply Hval; [apply HG; exact Hr|]. apply in_or_app. right. apply in_flat_map. exists a. split; [exact Hain|].
        rewrite Ee. left. reflexivity. }
      rewrite Harg. reflexivity. }
    rewrite Hav. match goal with |- context [rbind ?m _] => destruct m as [avs|] end; cbn [rbind]; cbv beta iota; [reflexivity|exact I]. }
  unfold spec_group. fold keyofe. fold onee.
  apply (group_match keys
           (fun (a : res tbl) (b : res (list (env * list val))) =>
              match a, b with
              | Ok t', Ok rs => out_rows t' = typed_answer keys aggs (map snd rs)
              | Err, Err => True
              | _, _ => False end)).
  - (* no grouping: one row *)
    intros Ekeys. specialize (Hone []). unfold onee, keyofe in Hone |- *. cbv zeta in Hone |- *.
    destruct (oner []) as [r|];
      match type of Hone with context [match ?B with Ok _ => _ | Err => _ end] => destruct B as [ev|] end;
      cbn [rbind]; try contradiction; [|exact I].
    subst r. cbn [out_rows rows mkT map]. unfold typed_answer. rewrite Ekeys. reflexivity.
  - intros Ekeys.
    assert (Hgroups : dedup_by row_vals_eqb [] (map keyofr (map f (rows t))) = dedup_by row_vals_eqb [] (map keyofe (tbl_envs t))).
    { f_equal. unfold tbl_envs. fold E. rewrite !map_map. apply map_ext_in. intros r Hr. apply Hkey. exact Hr. }
    rewrite Hgroups.
    generalize (dedup_by row_vals_eqb [] (map keyofe (tbl_envs t))) as groups. intros groups.
    match goal with |- match rbind ?MA _ with Ok _ => match ?MB with _ => _ end | Err => _ end =>
      match MA with mapM ?F ?L => match MB with mapM ?G _ =>
        pose proof (mapM_rel F G (fun r ev => r = map CVal (snd ev)) L Hone) as Hmap0 end end;
      remember MA as RA eqn:EA; remember MB as RB eqn:EB;
      assert (Hmap : match RA, RB with
                     | Ok bs, Ok cs => Forall2 (fun (r : row) (ev : env * list val) => r = map CVal (snd ev)) bs cs
                     | Err, Err => True | _, _ => False end) by (subst RA RB; exact Hmap0) end.
    clear Hmap0 EA EB. destruct RA as [rs1|], RB as [rs2|]; cbn [rbind]; try contradiction; [|exact I].
    assert (rs1 = map (fun ev => map CVal (snd ev)) rs2) by (clear -Hmap; induction Hmap; cbn [map]; [reflexivity|subst; f_equal; assumption]).
    subst rs1. cbn [out_rows rows mkT]. unfold typed_answer, agg_types.
    destruct keys as [|k0 keys']; [exfalso; apply Ekeys; reflexivity|].
    rewrite (map_map snd (map CVal)). reflexivity.
Qed.

(** the aggregating core query: MATCH chain [WHERE] RETURN keys, aggregates *)
Definition agg_core_q (q : query) : bool :=
  match q_ret q with
  | RAgg keys aggs => forallb (fun e => core_item (pat_vars (q_pat q)) e && sort_key e) (agg_exprs keys aggs)
  | _ => false
  end
  && match q_where q with Some w => expr_vars_in (pat_vars (q_pat q)) w | None => true end.

Theorem agg_answer_l st q keys aggs :
  store_ok st -> single_hops (q_pat q) = true -> single_labels (q_pat q) = true -> pat_fresh (q_pat q) = true ->
  no_type_case st (q_pat q) = true -> directed (q_pat q) = true ->
  q_ret q = RAgg keys aggs -> agg_core_q q = true -> q_order q = [] -> q_skip q = None -> q_limit q = None ->
  keys_fresh (chain_cols_pat (q_pat q)) (agg_exprs keys aggs) ->
  (forall en, List.In en (body_envs st q) -> forallb group_key_ok (map (item_val st en) keys) = true) ->
  match plan_rows st (gql_plan_of q), answer st q with
  | Ok rows, Ok rs => rows = typed_answer keys aggs rs
  | Err, Err => True
  | _, _ => False
  end.
Proof.
  intros Hok H1 H2 Hf H3 H4 Hr Hac Ho Hsk Hli Hkf Hgk. unfold agg_core_q in Hac. rewrite Hr in Hac.
  apply andb_true_iff in Hac. destruct Hac as [Hac Hw].
  destruct (body_sem st q H1 Hf Hw) as (t & Hs & Hwf & Hv & He).
  rewrite (obindings_directed st (q_pat q) Hok H1 H2 H3 H4) in He. fold (body_envs st q) in He.
  destruct (chain_obindings_wfc st (q_pat q) H1 Hf) as (t0 & Hs0 & _ & Hc0 & _).
  assert (Hcols : cols t = chain_cols_pat (q_pat q)).
  { unfold where_plan in Hs. destruct (q_where q); [|rewrite Hs0 in Hs; inversion Hs; subst; exact Hc0].
    rewrite sem_ops_filter, Hs0 in Hs. cbn [rbind] in Hs. inversion Hs; subst. exact Hc0. }
  pose proof (agg_sem st keys aggs t Hwf) as Hagg.
  rewrite Hcols in Hagg. specialize (Hagg Hkf). rewrite <- Hcols in Hagg.
  assert (Hk : forallb (fun e => core_item (filter nonanon (cols t)) e && sort_key e) (agg_exprs keys aggs) = true).
  { rewrite forallb_forall in Hac |- *. intros e He'. specialize (Hac e He'). apply andb_true_iff in Hac. destruct Hac as [Ha Hb].
    rewrite Hb, andb_true_r. eapply core_item_mono; [exact Hv|exact Ha]. }
  specialize (Hagg Hk).
  assert (Hg : forall r, List.In r (rows t) -> forallb group_key_ok (map (item_val st (row_env (cols t) r)) keys) = true).
  { intros r Hrin. apply Hgk. rewrite <- He. unfold tbl_envs. apply in_map. exact Hrin. }
  specialize (Hagg Hg). rewrite He in Hagg.
  unfold plan_rows, gql_plan_of. rewrite Hr, Hsk, Hli. cbn [opt_skip opt_limit sem_ops]. rewrite Hs. cbn [rbind].
  unfold answer. rewrite Hr, Ho, Hsk, Hli. cbn [spec_order spec_skip spec_limit]. fold (body_envs st q).
  destruct (aggregate_tbl st keys aggs t) as [t'|], (spec_group st keys aggs (body_envs st q)) as [rs|]; cbn [rbind]; try contradiction; [|exact I].
  exact Hagg.
Qed.
