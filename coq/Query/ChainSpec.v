(** C08 — vocabulary of the chain and clause theorems (definitions only; no proofs):
    freshness of pattern variables as a decidable condition, the operational reading of a pattern
    at the level of bindings ([obindings]: what nested Scan/Expand/hasLabel-Filter operators
    enumerate, defects included), and the conditions under which a returned item reads what the
    declarative semantics reads. *)
From Coq Require Import ZArith List Bool String Ascii Lia Permutation.
From GV Require Export Query.PatSpec.
Import ListNotations.
Open Scope Z_scope.

(** every variable a hop introduces is new, different from the other variable of the hop, and not
    the planner's name for anonymous edge columns *)
Fixpoint hops_fresh (cs : list string) (hs : list hop) : bool :=
  match hs with
  | [] => true
  | h :: r =>
      let to := np_var (h_to h) in
      let ec := edge_col (h_evar h) in
      negb (existsb (String.eqb to) cs) && negb (String.eqb to ec) && negb (String.eqb to anon)
      && match h_evar h with
         | Some e => negb (String.eqb e anon) && negb (existsb (String.eqb e) cs)
         | None => true end
      && hops_fresh (cs ++ [ec; to]) r
  end.
Definition pat_fresh (p : pattern) : bool :=
  negb (String.eqb (np_var (p_start p)) anon) && hops_fresh [np_var (p_start p)] (p_hops p).
(** the variable of a variable-length edge pattern is not bound by the declarative semantics, so
    the theorems ask for such hops to be anonymous *)
Definition var_hops_anonymous (p : pattern) : bool :=
  forallb (fun h => match h_len h, h_evar h with HVar _ _, Some _ => false | _, _ => true end) (p_hops p).

(** * The operational reading of a single-hop pattern, as bindings.
    [ostep]: the (edge, far end) pairs an ExpandOperator produces at a node (adjacency lists,
    case-insensitive type match, forward list then backward list); [first_label_ok]: the one
    hasLabel filter that the translators emit for a labelled target. *)
Definition ostep (st : store) (d : dir) (ty : option string) (cur : Z) : list (Z * Z) :=
  map (fun te => (snd te, fst te)) (neighbors st true cur d ty).
Definition first_label_ok (st : store) (np : npat) (i : Z) : bool :=
  match np_labels np with
  | [] => true
  | l :: _ => match get_node st i with Some n => has_label n l | None => false end
  end.
Definition obind_hop (st : store) (h : hop) (ec : env * Z) : list (env * Z) :=
  map (fun ef => (fst ec ++ (match h_evar h with Some r => [(r, EEdge (fst ef))] | None => [] end)
                         ++ [(np_var (h_to h), ENode (snd ef))], snd ef))
      (filter (fun ef => first_label_ok st (h_to h) (snd ef)) (ostep st (h_dir h) (h_type h) (snd ec))).
Fixpoint obind_hops (st : store) (hs : list hop) (acc : list (env * Z)) : list (env * Z) :=
  match hs with
  | [] => acc
  | h :: r => obind_hops st r (flat_map (obind_hop st h) acc)
  end.
Definition obindings (st : store) (p : pattern) : list env :=
  map fst (obind_hops st (p_hops p)
             (map (fun n => ([(np_var (p_start p), ENode (nid n))], nid n))
                  (filter (fun n => match np_labels (p_start p) with [] => true | l :: _ => has_label n l end) (nodes st)))).

(** the declarative step restricted to far ends that exist *)
Definition dstep_live (st : store) (d : dir) (ty : option string) (cur : Z) : list (Z * Z) :=
  filter (fun ef => node_exists st (snd ef)) (dstep st d ty cur).

(** * Clauses *)
(** a returned item / sort key of the core: a variable, a property of a variable, or a literal *)
Definition core_item (vs : list string) (e : lexpr) : bool :=
  match e with
  | EVar x | EProp x _ => existsb (String.eqb x) vs
  | ELit _ => true
  | _ => false
  end.
Definition pat_vars (p : pattern) : list string := pat_nvars p ++ pat_evars p.
(** a plain query of the core: plain non-DISTINCT RETURN of core items, WHERE over pattern variables *)
Definition plain_core (q : query) : bool :=
  match q_ret q with
  | RPlain items false => forallb (core_item (pat_vars (q_pat q))) items
  | _ => false
  end
  && match q_where q with Some w => expr_vars_in (pat_vars (q_pat q)) w | None => true end.
(** the rows a plain RETURN hands out for a list of bindings *)
Definition project_envs (st : store) (items : list lexpr) (es : list env) : list (list val) :=
  map (fun en => map (item_val st en) items) es.

(** * The plans the front ends really build (gql_translator.rs / cypher_translator.rs), clause
    placement included.
    GQL (since ce12a2a / cc624f1): Return(Limit(Skip(Sort(Filter(chain))))) — ORDER BY below SKIP/LIMIT;
    with DISTINCT: Limit(Skip(Return DISTINCT(Sort(..)))) so that DISTINCT precedes SKIP/LIMIT; aggregating returns: Limit(Skip(Aggregate(Filter(chain)))).
    Cypher: Limit(Skip(Sort(Return(Filter(chain))))) — ORDER BY ends up above RETURN (C08-K9).
    The [_pre] shapes are what the translators built before ce12a2a / a5bb467. *)
Definition sort_keys (ks : list okey) : list (lexpr * bool) :=
  flat_map (fun k => match k with OEnv e desc => [(e, desc)] | OCol _ _ => [] end) ks.
Definition opt_skip (s : option nat) (p : lop) : lop := match s with Some n => LSkip n p | None => p end.
Definition opt_limit (s : option nat) (p : lop) : lop := match s with Some n => LLimit n p | None => p end.
Definition opt_sort (ks : list okey) (p : lop) : lop := match ks with [] => p | _ => LSort (sort_keys ks) p end.
Definition ret_items (items : list lexpr) : list (lexpr * option string) := map (fun e => (e, @None string)) items.
Definition gql_plan_of (q : query) : lop :=
  let body := where_plan (q_where q) (chain_plan (q_pat q)) in
  match q_ret q with
  | RPlain items false => LReturn (ret_items items) false (opt_limit (q_limit q) (opt_skip (q_skip q) (opt_sort (q_order q) body)))
  | RPlain items true =>      (* since cc624f1: SKIP/LIMIT above the Return that plans DISTINCT *)
      opt_limit (q_limit q) (opt_skip (q_skip q) (LReturn (ret_items items) true (opt_sort (q_order q) body)))
  | RAgg keys aggs => opt_limit (q_limit q) (opt_skip (q_skip q) (LAggregate keys aggs body))
  end.
(** between ce12a2a and cc624f1: DISTINCT still applied after SKIP/LIMIT *)
Definition gql_plan_pre_distinct_of (q : query) : lop :=
  let body := where_plan (q_where q) (chain_plan (q_pat q)) in
  match q_ret q with
  | RPlain items d => LReturn (ret_items items) d (opt_limit (q_limit q) (opt_skip (q_skip q) (opt_sort (q_order q) body)))
  | RAgg keys aggs => opt_limit (q_limit q) (opt_skip (q_skip q) (LAggregate keys aggs body))
  end.
(** before ce12a2a: SKIP/LIMIT below ORDER BY and below the aggregate *)
Definition gql_plan_pre_of (q : query) : lop :=
  let body := where_plan (q_where q) (chain_plan (q_pat q)) in
  match q_ret q with
  | RPlain items d => LReturn (ret_items items) d (opt_sort (q_order q) (opt_limit (q_limit q) (opt_skip (q_skip q) body)))
  | RAgg keys aggs => LAggregate keys aggs (opt_limit (q_limit q) (opt_skip (q_skip q) body))
  end.
Definition cypher_plan_of (q : query) : lop :=
  let body := where_plan (q_where q) (chain_plan (q_pat q)) in
  match q_ret q with
  | RPlain items d => opt_limit (q_limit q) (opt_skip (q_skip q) (opt_sort (q_order q) (LReturn (ret_items items) d body)))
  | RAgg keys aggs => opt_limit (q_limit q) (opt_skip (q_skip q) (LAggregate keys aggs body))
  end.
(** before a5bb467 Cypher's count(expr) became AggregateFunction::Count (count-star semantics) *)
Definition cypher_agg_pre (a : aggx) : aggx :=
  match ag_fn a with
  | ACountNN => mkAgg ACount (ag_arg a) (ag_distinct a) (ag_alias a)
  | _ => a
  end.
Definition cypher_plan_pre_of (q : query) : lop :=
  let body := where_plan (q_where q) (chain_plan (q_pat q)) in
  match q_ret q with
  | RPlain items d => opt_limit (q_limit q) (opt_skip (q_skip q) (opt_sort (q_order q) (LReturn (ret_items items) d body)))
  | RAgg keys aggs => opt_limit (q_limit q) (opt_skip (q_skip q) (LAggregate keys (map cypher_agg_pre aggs) body))
  end.
(** before 36a1196 plan_return never looked at ReturnOp.distinct: the plan behaved like the same
    plan with every DISTINCT flag cleared *)
Fixpoint clear_distinct (p : lop) : lop :=
  match p with
  | LScan x l => LScan x l
  | LExpand f t e d ty mn mx i => LExpand f t e d ty mn mx (clear_distinct i)
  | LFilter e i => LFilter e (clear_distinct i)
  | LReturn its _ i => LReturn its false (clear_distinct i)
  | LProject its i => LProject its (clear_distinct i)
  | LSort ks i => LSort ks (clear_distinct i)
  | LSkip n i => LSkip n (clear_distinct i)
  | LLimit n i => LLimit n (clear_distinct i)
  | LDistinct i => LDistinct (clear_distinct i)
  | LAggregate g a i => LAggregate g a (clear_distinct i)
  end.
(** what the engine hands out for a plan *)
Definition plan_rows (st : store) (p : lop) : res (list (list val)) :=
  match sem_ops st p with Ok t => Ok (out_rows t) | Err => Err end.
