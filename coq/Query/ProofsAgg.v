(** C11 — proofs about the aggregate functions (StreamAgg.v): grouping is per-group folding, and
    what COUNT / SUM / AVG / MIN / MAX / COLLECT / FIRST / LAST fold to. *)
From GV Require Import Base.BitsFacts Query.Expr Query.Stream Query.StreamAgg Query.ProofsStream.
Open Scope Z_scope.

(** * a list of aggregates is folded component-wise *)
Definition fold_one (m : mode) (f : aggf) (rows : list row) : astate :=
  fold_left (fun st r => agg_update2 m r f st) rows (agg_init f).

Lemma fold_aggs_gen m aggs : forall rows (g : aggf -> astate),
  fold_left (fun sts r => aggs_update2 m aggs r sts) rows (map g aggs)
  = map (fun f => fold_left (fun st r => agg_update2 m r f st) rows (g f)) aggs.
Proof.
  induction rows as [|r t IH]; intros g; [reflexivity|].
  cbn [fold_left].
  assert (E : aggs_update2 m aggs r (map g aggs) = map (fun f => agg_update2 m r f (g f)) aggs).
  { unfold aggs_update2. clear. induction aggs as [|a l IH]; [reflexivity|].
    cbn [map combine fst snd]. f_equal. exact IH. }
  rewrite E. apply (IH (fun f => agg_update2 m r f (g f))).
Qed.
Lemma fold_aggs_map m aggs rows : fold_aggs m aggs rows = map (fun f => fold_one m f rows) aggs.
Proof. unfold fold_aggs, aggs_init2, fold_one. apply fold_aggs_gen. Qed.

(** a single aggregate over column [c] only sees the non-NULL values of that column *)
Lemma fold_col m f c : agg_col f = Some c -> forall rows st,
  fold_left (fun st r => agg_update2 m r f st) rows st = fold_left (agg_step m) (col_vals c rows) st.
Proof.
  intros Hc. induction rows as [|r t IH]; intros st; [reflexivity|].
  cbn [fold_left]. unfold col_vals. cbn [flat_map]. fold (col_vals c t).
  unfold agg_update2 at 2. rewrite Hc.
  destruct (nth_error r c) as [v|]; [|apply IH].
  destruct v; try apply IH; cbn [app fold_left]; apply IH.
Qed.
Lemma fold_one_col m f c rows : agg_col f = Some c ->
  fold_one m f rows = fold_left (agg_step m) (col_vals c rows) (agg_init f).
Proof. intros H. unfold fold_one. now apply fold_col. Qed.

(** * COUNT *)
Lemma step_count m : forall vs n, fold_left (agg_step m) vs (SCount n) = SCount (n + Z.of_nat (length vs)).
Proof.
  induction vs as [|v t IH]; intros n; [cbn; f_equal; lia|].
  cbn [fold_left agg_step]. rewrite IH. cbn [length]. f_equal. lia.
Qed.
Lemma fold_count_star_gen m : forall rows n,
  fold_left (fun st r => agg_update2 m r FCountStar st) rows (SCount n) = SCount (n + Z.of_nat (length rows)).
Proof.
  induction rows as [|r t IH]; intros n; [cbn; f_equal; lia|].
  cbn [fold_left]. unfold agg_update2 at 2. cbn [agg_col agg_step]. rewrite IH. cbn [length]. f_equal. lia.
Qed.
Lemma fold_count_star m rows : fold_one m FCountStar rows = SCount (Z.of_nat (length rows)).
Proof. unfold fold_one. cbn [agg_init]. now rewrite fold_count_star_gen. Qed.
Lemma fold_count m c rows : fold_one m (FCount c) rows = SCount (Z.of_nat (length (col_vals c rows))).
Proof. rewrite (fold_one_col m (FCount c) c) by reflexivity. cbn [agg_init]. now rewrite step_count. Qed.

(** * SUM: the values the code adds are the Int64s; Bool, list and non-numeric strings are ignored *)

Lemma zsum_from l : forall a, fold_left Z.add l a = a + zsum l.
Proof.
  unfold zsum. induction l as [|x t IH]; intros a; [cbn; lia|].
  cbn [fold_left]. rewrite IH, (IH (0 + x)). lia.
Qed.
Lemma zsum_cons x t : zsum (x :: t) = x + zsum t.
Proof. unfold zsum at 1. cbn [fold_left]. rewrite zsum_from. lia. Qed.

Lemma step_sum : forall m vs acc, forallb sum_dom vs = true ->
  partial_ok (- two63) (two63 - 1) acc (ints_of_vals vs) = true ->
  fold_left (agg_step m) vs (SSum acc) = SSum (acc + zsum (ints_of_vals vs)).
Proof.
  intros m. induction vs as [|v t IH]; intros acc D P; [cbn; f_equal; unfold zsum; cbn; lia|].
  cbn [forallb] in D. apply andb_true_iff in D as [D1 D2].
  cbn [fold_left]. destruct v as [|b|i|f|s|l]; cbn [agg_step ints_of_vals flat_map app] in *;
    try (apply IH; assumption); try discriminate D1.
  - (* Int *)
    cbn [partial_ok] in P. apply andb_true_iff in P as [P1 P2]. apply andb_true_iff in P1 as [Pa Pb].
    unfold in_i64b. rewrite Pa. replace (acc + i <? two63) with true by (symmetry; apply Z.ltb_lt; apply Z.leb_le in Pb; lia).
    cbn [andb]. rewrite (IH _ D2 P2), zsum_cons. unfold ints_of_vals. f_equal. lia.
  - (* Str *)
    cbn [sum_dom] in D1. destruct (numeric_like s); [discriminate D1|]. apply IH; assumption.
Qed.
(** since a66b89b no aggregate state is a panic *)
Lemma agg_step_no_panic m st v : st_panic st = false -> st_panic (agg_step m st v) = false.
Proof.
  destruct st as [n|s|s n|o|o|o|o|l| |]; cbn [agg_step]; intros H; try discriminate H; try reflexivity.
  - destruct v; try reflexivity. + destruct (in_i64b (s + z)); reflexivity. + destruct (numeric_like s0); reflexivity.
  - destruct v; try reflexivity. + destruct ((Z.abs z <=? two53) && (Z.abs (s + z) <=? two53)); reflexivity. + destruct (numeric_like s0); reflexivity.
  - destruct o as [cur|]; [|reflexivity]. destruct (agg_cmp v cur) as [[c|]|]; try reflexivity. destruct (c <? 0); reflexivity.
  - destruct o as [cur|]; [|reflexivity]. destruct (agg_cmp v cur) as [[c|]|]; try reflexivity. destruct (0 <? c); reflexivity.
  - destruct o; reflexivity.
Qed.

(** * AVG *)
Lemma step_avg m : forall vs s n, forallb sum_dom vs = true ->
  forallb (fun i => Z.abs i <=? two53) (ints_of_vals vs) = true ->
  partial_ok (- two53) two53 s (ints_of_vals vs) = true ->
  fold_left (agg_step m) vs (SAvg s n)
  = SAvg (s + zsum (ints_of_vals vs)) (n + Z.of_nat (length (ints_of_vals vs))).
Proof.
  induction vs as [|v t IH]; intros s n D B P; [cbn; f_equal; unfold zsum; cbn; lia|].
  cbn [forallb] in D. apply andb_true_iff in D as [D1 D2].
  cbn [fold_left]. destruct v as [|b|i|f|x|l]; cbn [agg_step ints_of_vals flat_map app] in *;
    try (apply IH; assumption); try discriminate D1.
  - cbn [forallb] in B. apply andb_true_iff in B as [B1 B2]. rewrite B1.
    cbn [partial_ok] in P. apply andb_true_iff in P as [P1 P2]. apply andb_true_iff in P1 as [Pa Pb].
    replace (Z.abs (s + i) <=? two53) with true by (symmetry; apply Z.leb_le; apply Z.leb_le in Pa, Pb; lia).
    cbn [andb]. rewrite (IH _ _ D2 B2 P2), zsum_cons. unfold ints_of_vals. cbn [length]. f_equal; lia.
  - cbn [sum_dom] in D1. destruct (numeric_like x); [discriminate D1|]. apply IH; assumption.
Qed.

(** * MIN / MAX over Int64 values *)
Lemma step_min_int m cur x : agg_step m (SMin (Some (VInt cur))) (VInt x) = SMin (Some (VInt (Z.min cur x))).
Proof.
  cbn [agg_step agg_cmp]. unfold cmp_z.
  destruct (Z.ltb_spec x cur) as [H|H].
  - change (-1 <? 0) with true. cbn iota. do 3 f_equal. lia.
  - destruct (Z.ltb_spec cur x) as [H2|H2].
    + change (1 <? 0) with false. cbn iota. do 3 f_equal. lia.
    + change (0 <? 0) with false. cbn iota. do 3 f_equal. lia.
Qed.
Lemma step_max_int m cur x : agg_step m (SMax (Some (VInt cur))) (VInt x) = SMax (Some (VInt (Z.max cur x))).
Proof.
  cbn [agg_step agg_cmp]. unfold cmp_z.
  destruct (Z.ltb_spec x cur) as [H|H].
  - change (0 <? -1) with false. cbn iota. do 3 f_equal. lia.
  - destruct (Z.ltb_spec cur x) as [H2|H2].
    + change (0 <? 1) with true. cbn iota. do 3 f_equal. lia.
    + change (0 <? 0) with false. cbn iota. do 3 f_equal. lia.
Qed.
Lemma step_min_ints m : forall l cur,
  fold_left (agg_step m) (map VInt l) (SMin (Some (VInt cur))) = SMin (Some (VInt (fold_left Z.min l cur))).
Proof.
  induction l as [|x t IH]; intros cur; [reflexivity|].
  cbn [map fold_left]. rewrite step_min_int. apply IH.
Qed.
Lemma step_max_ints m : forall l cur,
  fold_left (agg_step m) (map VInt l) (SMax (Some (VInt cur))) = SMax (Some (VInt (fold_left Z.max l cur))).
Proof.
  induction l as [|x t IH]; intros cur; [reflexivity|].
  cbn [map fold_left]. rewrite step_max_int. apply IH.
Qed.
Lemma all_ints_map vs : all_ints vs = true -> vs = map VInt (ints_of_vals vs).
Proof.
  induction vs as [|v t IH]; [reflexivity|]. cbn [all_ints forallb]. intros H. apply andb_true_iff in H as [H1 H2].
  destruct v; try discriminate H1. cbn [ints_of_vals flat_map app map]. f_equal. now apply IH.
Qed.
Lemma fold_min_ints m vs : all_ints vs = true ->
  fold_left (agg_step m) vs (SMin None) = SMin (option_map VInt (zmin_list (ints_of_vals vs))).
Proof.
  intros H. rewrite (all_ints_map vs H) at 1. destruct (ints_of_vals vs) as [|x t]; [reflexivity|].
  cbn [map fold_left agg_step zmin_list option_map]. apply step_min_ints.
Qed.
Lemma fold_max_ints m vs : all_ints vs = true ->
  fold_left (agg_step m) vs (SMax None) = SMax (option_map VInt (zmax_list (ints_of_vals vs))).
Proof.
  intros H. rewrite (all_ints_map vs H) at 1. destruct (ints_of_vals vs) as [|x t]; [reflexivity|].
  cbn [map fold_left agg_step zmax_list option_map]. apply step_max_ints.
Qed.
(** the minimum is a lower bound and an element *)
Lemma fold_min_le : forall l cur, fold_left Z.min l cur <= cur /\ (forall x, In x l -> fold_left Z.min l cur <= x)
  /\ (fold_left Z.min l cur = cur \/ In (fold_left Z.min l cur) l).
Proof.
  induction l as [|y t IH]; intros cur; [cbn; repeat split; try lia; intros x []; now left|].
  cbn [fold_left]. destruct (IH (Z.min cur y)) as (A & B & C). repeat split.
  - lia.
  - intros x [<-|H]; [lia|now apply B].
  - destruct C as [C|C]; [|right; now right].
    destruct (Z.min_spec cur y) as [[_ E]|[_ E]]; rewrite E in *; [now left|right; left; congruence].
Qed.
Lemma fold_max_ge : forall l cur, cur <= fold_left Z.max l cur /\ (forall x, In x l -> x <= fold_left Z.max l cur)
  /\ (fold_left Z.max l cur = cur \/ In (fold_left Z.max l cur) l).
Proof.
  induction l as [|y t IH]; intros cur; [cbn; repeat split; try lia; intros x []; now left|].
  cbn [fold_left]. destruct (IH (Z.max cur y)) as (A & B & C). repeat split.
  - lia.
  - intros x [<-|H]; [lia|now apply B].
  - destruct C as [C|C]; [|right; now right].
    destruct (Z.max_spec cur y) as [[_ E]|[_ E]]; rewrite E in *; [right; left; congruence|now left].
Qed.

(** * COLLECT / FIRST / LAST *)
Lemma step_collect m : forall vs l, fold_left (agg_step m) vs (SCollect l) = SCollect (l ++ vs).
Proof.
  induction vs as [|v t IH]; intros l; [now rewrite app_nil_r|].
  cbn [fold_left agg_step]. rewrite IH, <- app_assoc. reflexivity.
Qed.
Lemma step_first_some m v : forall vs, fold_left (agg_step m) vs (SFirst (Some v)) = SFirst (Some v).
Proof. induction vs as [|x t IH]; [reflexivity|]. cbn [fold_left agg_step]. exact IH. Qed.
Lemma fold_first m vs : fold_left (agg_step m) vs (SFirst None) = SFirst (hd_error vs).
Proof. destruct vs as [|v t]; [reflexivity|]. cbn [fold_left agg_step hd_error]. apply step_first_some. Qed.
Lemma step_last m : forall vs o, fold_left (agg_step m) vs (SLast o)
  = SLast (match vs with [] => o | _ => Some (last vs VNull) end).
Proof.
  induction vs as [|v t IH]; intros o; [reflexivity|].
  cbn [fold_left agg_step]. rewrite IH. destruct t; reflexivity.
Qed.

(** * grouping = folding each group's rows *)

Section Groups.
  Context {S : Type}.
  Variable key : row -> rowkey.
  Variable step : row -> S -> S.
  Variable init : S.

  Fixpoint glookup2 (k : rowkey) (gs : list (rowkey * S)) : option S :=
    match gs with
    | [] => None
    | (k0, st) :: t => if rowkey_dec k k0 then Some st else glookup2 k t
    end.

  Lemma gup_keys k u : forall gs,
    map fst (gupdate k u init gs)
    = if in_dec rowkey_dec k (map fst gs) then map fst gs else map fst gs ++ [k].
  Proof.
    induction gs as [|[k0 st] t IH]; [reflexivity|].
    cbn [gupdate map fst]. destruct (rowkey_eqb k k0) eqn:E.
    - apply rowkey_eqb_eq in E. subst k0. cbn [map fst].
      destruct (in_dec rowkey_dec k (k :: map fst t)) as [_|N]; [reflexivity|]. exfalso. apply N. now left.
    - assert (Ne : k <> k0) by (intros ->; rewrite (proj2 (rowkey_eqb_eq k0 k0) eq_refl) in E; discriminate).
      cbn [map fst]. rewrite IH.
      destruct (in_dec rowkey_dec k (map fst t)) as [I|N], (in_dec rowkey_dec k (k0 :: map fst t)) as [I'|N'];
        try reflexivity.
      + exfalso. apply N'. now right.
      + destruct I' as [I'|I']; [congruence|contradiction].
  Qed.
  Lemma gup_lookup k u k' : forall gs,
    glookup2 k' (gupdate k u init gs)
    = if rowkey_dec k' k then Some (u (match glookup2 k gs with Some st => st | None => init end)) else glookup2 k' gs.
  Proof.
    induction gs as [|[k0 st] t IH].
    - cbn [gupdate glookup2]. destruct (rowkey_dec k' k); reflexivity.
    - cbn [gupdate]. destruct (rowkey_eqb k k0) eqn:E.
      + apply rowkey_eqb_eq in E. subst k0. cbn [glookup2].
        destruct (rowkey_dec k k) as [_|N]; [|congruence]. destruct (rowkey_dec k' k); reflexivity.
      + assert (Ne : k <> k0) by (intros ->; rewrite (proj2 (rowkey_eqb_eq k0 k0) eq_refl) in E; discriminate).
        cbn [glookup2]. rewrite IH. destruct (rowkey_dec k k0); [congruence|].
        destruct (rowkey_dec k' k0), (rowkey_dec k' k); try reflexivity. congruence.
  Qed.

  Definition gfold (rows : list row) (gs : list (rowkey * S)) : list (rowkey * S) :=
    fold_left (fun gs r => gupdate (key r) (step r) init gs) rows gs.
  Definition group_rows (k : rowkey) (rows : list row) : list row := filter (fun r => rowkey_eqb (key r) k) rows.
  Definition ginv (gs : list (rowkey * S)) (rows : list row) : Prop :=
    NoDup (map fst gs)
    /\ (forall k, In k (map fst gs) <-> In k (map key rows))
    /\ (forall k, glookup2 k gs = if in_dec rowkey_dec k (map key rows)
                                  then Some (fold_left (fun st r => step r st) (group_rows k rows) init) else None).

  Lemma ginv_step gs rows r : ginv gs rows -> ginv (gupdate (key r) (step r) init gs) (rows ++ [r]).
  Proof.
    intros (ND & KS & LK). set (k := key r).
    assert (GR : forall k', group_rows k' (rows ++ [r])
                            = group_rows k' rows ++ (if rowkey_dec k k' then [r] else [])).
    { intros k'. unfold group_rows. rewrite filter_app. cbn [filter]. fold k.
      destruct (rowkey_dec k k') as [->|Ne].
      - now rewrite (proj2 (rowkey_eqb_eq k' k') eq_refl).
      - destruct (rowkey_eqb k k') eqn:E; [apply rowkey_eqb_eq in E; congruence|reflexivity]. }
    split; [|split].
    - rewrite gup_keys. destruct (in_dec rowkey_dec k (map fst gs)) as [I|N]; [exact ND|].
      apply NoDup_snoc; assumption.
    - intros k'. rewrite gup_keys, map_app, in_app_iff. cbn [map In]. fold k.
      destruct (in_dec rowkey_dec k (map fst gs)) as [I|N].
      + rewrite KS. split; [tauto|]. intros [H|[<-|[]]]; [exact H|now apply KS].
      + rewrite in_app_iff, KS. cbn [In]. tauto.
    - intros k'. rewrite gup_lookup, GR, map_app. cbn [map]. fold k.
      destruct (rowkey_dec k' k) as [->|Ne].
      + destruct (rowkey_dec k k) as [_|N]; [|congruence].
        destruct (in_dec rowkey_dec k (map key rows ++ [k])) as [_|N]; [|exfalso; apply N; rewrite in_app_iff; right; now left].
        rewrite LK, fold_left_app. cbn [fold_left].
        destruct (in_dec rowkey_dec k (map key rows)) as [I|N]; [reflexivity|].
        assert (E : group_rows k rows = []).
        { unfold group_rows. clear -N. induction rows as [|x t IHt]; [reflexivity|].
          cbn [filter]. destruct (rowkey_eqb (key x) k) eqn:E.
          - apply rowkey_eqb_eq in E. exfalso. apply N. rewrite <- E. now left.
          - apply IHt. intros H. apply N. now right. }
        rewrite E. reflexivity.
      + rewrite LK. destruct (rowkey_dec k k'); [congruence|]. rewrite app_nil_r.
        destruct (in_dec rowkey_dec k' (map key rows)) as [I|N], (in_dec rowkey_dec k' (map key rows ++ [k])) as [I'|N'];
          try reflexivity.
        * exfalso. apply N'. rewrite in_app_iff. now left.
        * apply in_app_iff in I' as [I'|[I'|[]]]; [contradiction|congruence].
  Qed.

  Lemma gfold_inv : forall rows gs pre, ginv gs pre -> ginv (gfold rows gs) (pre ++ rows).
  Proof.
    induction rows as [|r t IH]; intros gs pre H; [now rewrite app_nil_r|].
    cbn [gfold fold_left]. replace (pre ++ r :: t) with ((pre ++ [r]) ++ t) by (now rewrite <- app_assoc).
    apply IH, ginv_step, H.
  Qed.
  Lemma ginv_nil : ginv [] [].
  Proof.
    split; [constructor|split]; [intros k; tauto|]. intros k. cbn. destruct (in_dec rowkey_dec k []) as [[]|_]. reflexivity.
  Qed.
  Lemma glookup2_in gs : NoDup (map fst gs) -> forall k st, In (k, st) gs -> glookup2 k gs = Some st.
  Proof.
    induction gs as [|[k0 st0] t IH]; intros ND k st; [intros []|].
    cbn [map fst] in ND. inversion ND as [|x l Hn ND']; subst. cbn [glookup2]. intros [H|H].
    - injection H as <- <-. destruct (rowkey_dec k0 k0); [reflexivity|congruence].
    - destruct (rowkey_dec k k0) as [->|Ne]; [|now apply IH].
      exfalso. apply Hn. change k0 with (fst (k0, st)). now apply in_map.
  Qed.

  Lemma gfold_spec rows :
    let gs := gfold rows [] in
    NoDup (map fst gs) /\ (forall k, In k (map fst gs) <-> In k (map key rows))
    /\ (forall k st, In (k, st) gs -> st = fold_left (fun st r => step r st) (group_rows k rows) init).
  Proof.
    intros gs. pose proof (gfold_inv rows [] [] ginv_nil) as (ND & KS & LK). cbn [app] in *.
    split; [exact ND|split; [exact KS|]].
    intros k st H. pose proof (glookup2_in _ ND _ _ H) as G. fold gs in LK. rewrite LK in G.
    destruct (in_dec rowkey_dec k (map key rows)); [|discriminate]. now injection G as <-.
  Qed.
End Groups.

Lemma hash_groups2_spec_l m gcols aggs rows :
  let gs := hash_groups2 m gcols aggs rows in
  NoDup (map fst gs) /\ (forall k, In k (map fst gs) <-> In k (map (group_key gcols) rows))
  /\ (forall k sts, In (k, sts) gs -> sts = fold_aggs m aggs (filter (keyeqb gcols k) rows)).
Proof.
  intros gs.
  destruct (gfold_spec (group_key gcols) (aggs_update2 m aggs) (aggs_init2 aggs) rows) as (A & B & C).
  split; [exact A|split; [exact B|]]. intros k sts H. apply C in H. exact H.
Qed.

(** * the operators *)
Lemma simple_agg2_single m f t cs :
  simple_agg2 m [f] [t] cs
  = if st_panic (fold_one m f (rows_of cs)) then Panic
    else Ok [[push_typed t (agg_final (fold_one m f (rows_of cs)))]].
Proof.
  unfold simple_agg2. rewrite fold_aggs_map. cbn [map existsb orb final_row combine fst snd].
  destruct (st_panic (fold_one m f (rows_of cs))); reflexivity.
Qed.

Lemma count_star2_l m cs :
  simple_agg2 m [FCountStar] [TInt] cs = Ok [[VInt (Z.of_nat (length (rows_of cs)))]].
Proof. rewrite simple_agg2_single, fold_count_star. reflexivity. Qed.
Lemma count_col2_l m c cs :
  simple_agg2 m [FCount c] [TInt] cs = Ok [[VInt (Z.of_nat (length (col_vals c (rows_of cs))))]].
Proof. rewrite simple_agg2_single, fold_count. reflexivity. Qed.

Lemma sum_spec_l m c cs :
  let vs := col_vals c (rows_of cs) in
  forallb sum_dom vs = true -> partial_ok (- two63) (two63 - 1) 0 (ints_of_vals vs) = true ->
  simple_agg2 m [FSum c] [TInt] cs = Ok [[VInt (zsum (ints_of_vals vs))]].
Proof.
  intros vs D P. rewrite simple_agg2_single, (fold_one_col m (FSum c) c) by reflexivity.
  cbn [agg_init]. fold vs. rewrite (step_sum m vs 0 D P). reflexivity.
Qed.
(** the integer sum before a66b89b: a panic (overflow-checked build) or a wrong sum (release build) *)
Lemma sum_overflow_pre_refuted_l : exists l,
  sum_fold_pre Checked l = Panic /\ sum_fold_pre Wrapping l = Ok (- two63) /\ zsum l = two63.
Proof. exists [two63 - 1; 1]. repeat split; vm_compute; reflexivity. Qed.
(** ... and now: no panic; the operator leaves the integer domain (floating-point sum, not interpreted) *)
Lemma sum_overflow_now_l : forall m,
  simple_agg2 m [FSum 0%nat] [TAny] [mkChunk [[VInt (two63 - 1)]; [VInt 1]] None] = Ok [[out_marker]].
Proof. intros m. vm_compute. reflexivity. Qed.
Lemma fold_step_no_panic m : forall vs st, st_panic st = false -> st_panic (fold_left (agg_step m) vs st) = false.
Proof. induction vs as [|v t IH]; intros st H; [exact H|]. cbn [fold_left]. apply IH. now apply agg_step_no_panic. Qed.

Lemma avg_spec_l m c cs :
  let vs := col_vals c (rows_of cs) in
  let l := ints_of_vals vs in
  forallb sum_dom vs = true -> forallb (fun i => Z.abs i <=? two53) l = true ->
  partial_ok (- two53) two53 0 l = true ->
  simple_agg2 m [FAvg c] [TFloat] cs
  = Ok [[match l with [] => VNull | _ => VFloat (f_of_ratio (zsum l) (Z.of_nat (length l))) end]].
Proof.
  intros vs l D B P. rewrite simple_agg2_single, (fold_one_col m (FAvg c) c) by reflexivity.
  cbn [agg_init]. fold vs. rewrite (step_avg m vs 0 0 D B P). fold l. cbn [st_panic agg_final Z.add].
  destruct l as [|x t]; [reflexivity|]. cbn [length].
  destruct (Z.of_nat (S (length t)) =? 0) eqn:E; [apply Z.eqb_eq in E; lia|reflexivity].
Qed.

Lemma min_spec_l m c cs :
  let vs := col_vals c (rows_of cs) in
  all_ints vs = true ->
  simple_agg2 m [FMin c] [TInt] cs
  = Ok [[match zmin_list (ints_of_vals vs) with Some z => VInt z | None => VNull end]].
Proof.
  intros vs H. rewrite simple_agg2_single, (fold_one_col m (FMin c) c) by reflexivity.
  cbn [agg_init]. fold vs. rewrite (fold_min_ints m vs H).
  destruct (zmin_list (ints_of_vals vs)); reflexivity.
Qed.
Lemma max_spec_l m c cs :
  let vs := col_vals c (rows_of cs) in
  all_ints vs = true ->
  simple_agg2 m [FMax c] [TInt] cs
  = Ok [[match zmax_list (ints_of_vals vs) with Some z => VInt z | None => VNull end]].
Proof.
  intros vs H. rewrite simple_agg2_single, (fold_one_col m (FMax c) c) by reflexivity.
  cbn [agg_init]. fold vs. rewrite (fold_max_ints m vs H).
  destruct (zmax_list (ints_of_vals vs)); reflexivity.
Qed.
Lemma zmin_list_spec l z : zmin_list l = Some z -> In z l /\ forall x, In x l -> z <= x.
Proof.
  destruct l as [|a t]; [discriminate|]. cbn [zmin_list]. intros H. injection H as <-.
  destruct (fold_min_le t a) as (A & B & C). split.
  - destruct C as [->|C]; [now left|now right].
  - intros x [<-|H]; [exact A|now apply B].
Qed.
Lemma zmax_list_spec l z : zmax_list l = Some z -> In z l /\ forall x, In x l -> x <= z.
Proof.
  destruct l as [|a t]; [discriminate|]. cbn [zmax_list]. intros H. injection H as <-.
  destruct (fold_max_ge t a) as (A & B & C). split.
  - destruct C as [->|C]; [now left|now right].
  - intros x [<-|H]; [exact A|now apply B].
Qed.

Lemma collect_spec_l m c cs :
  simple_agg2 m [FCollect c] [TAny] cs = Ok [[VList (col_vals c (rows_of cs))]].
Proof.
  rewrite simple_agg2_single, (fold_one_col m (FCollect c) c) by reflexivity.
  cbn [agg_init]. rewrite step_collect. reflexivity.
Qed.
Lemma push_typed_any v : push_typed TAny v = v.
Proof. destruct v; reflexivity. Qed.
Lemma first_last_spec_l m c cs :
  let vs := col_vals c (rows_of cs) in
  simple_agg2 m [FFirst c; FLast c] [TAny; TAny] cs
  = Ok [[match vs with [] => VNull | v :: _ => v end; match vs with [] => VNull | _ => last vs VNull end]].
Proof.
  intros vs. unfold simple_agg2. rewrite fold_aggs_map. cbn [map].
  rewrite (fold_one_col m (FFirst c) c), (fold_one_col m (FLast c) c) by reflexivity.
  cbn [agg_init]. fold vs. rewrite fold_first, step_last.
  destruct vs as [|v t]; [reflexivity|].
  cbn [existsb st_panic orb final_row combine map fst snd agg_final hd_error].
  now rewrite !push_typed_any.
Qed.

(** a result whose type is not the one the output vector was created with is replaced by that
    type's default value *)
Lemma push_typed_ok t v : type_okb t v = true -> push_typed t v = v.
Proof. destruct t, v; cbn; try discriminate; reflexivity. Qed.
Lemma min_string_typed_refuted_l : exists cs v,
  simple_agg2 Checked [FMin 0%nat] [TAny] cs = Ok [[v]] /\ v <> VInt 0
  /\ simple_agg2 Checked [FMin 0%nat] [planner_type_pre (FMin 0%nat)] cs = Ok [[VInt 0]].
Proof.
  exists [mkChunk [[VStr [98]]; [VStr [97]]] None], (VStr [97]). repeat split; try reflexivity. discriminate.
Qed.
(** with the prepared repair of C11-K9 the result vector of SUM / MIN / MAX / COLLECT / FIRST / LAST
    takes every value *)
Lemma planner_type_fix_ok f v : match f with FCountStar | FCount _ | FAvg _ => True | _ => push_typed (planner_type f) v = v end.
Proof. destruct f; try exact I; cbn [planner_type]; apply push_typed_any. Qed.

(** * the result vectors of the hash aggregate: with intact validity bitmaps (prepared repair of
      C11-K11) every group row is key ++ typed results; as the code is, a second NULL in a typed
      column reads back as the default value *)
Lemma hash_agg2_rows_fix tys : forall gs, hash_agg2_rows false tys gs = map (group_row2 tys) gs.
Proof.
  unfold hash_agg2_rows. induction gs as [|g t IH]; [reflexivity|].
  cbn [map combine fst snd]. f_equal. exact IH.
Qed.
Lemma hash_agg2_fix_l m gcols aggs tys cs :
  hash_agg2 m gcols aggs tys cs
  = let gs := hash_groups2 m gcols aggs (rows_of cs) in
    if existsb (fun g => existsb st_panic (snd g)) gs then Panic else Ok (map (group_row2 tys) gs).
Proof. unfold hash_agg2, hash_agg2_v. cbn zeta. now rewrite hash_agg2_rows_fix. Qed.
Lemma typed_vector_second_null_refuted_l : exists cs,
  hash_agg2_pre Checked [0%nat] [FAvg 1%nat] [TFloat] cs = Ok [[VInt 1; VNull]; [VInt 2; VFloat 0]]
  /\ hash_agg2 Checked [0%nat] [FAvg 1%nat] [TFloat] cs = Ok [[VInt 1; VNull]; [VInt 2; VNull]].
Proof. exists [mkChunk [[VInt 1; VNull]; [VInt 2; VNull]] None]. split; reflexivity. Qed.
