(** C09 — Gallina transcription of [grafeo_engine::query::optimizer::Optimizer] (mod.rs) on the
    plan core of [Plan.v].  Model only; the proofs are in [ProofsOpt*.v].

    Transcribed branch for branch, defects included:
      [expr_vars]        = [collect_variables]
      [out_vars]         = [collect_output_variables_recursive]   (NodeScan: only its own variable,
                           the [input] is not visited; LeftJoin/Union/Empty: nothing)
      [try_push], [pfd]  = [try_push_filter_into], [push_filters_down]
                           (no conjunction splitting; Return is passed unconditionally; the join
                           type is not looked at; Limit/Skip/Sort/Distinct/Aggregate/LeftJoin/Union
                           stop a filter; a NodeScan's [input] and a LeftJoin's inputs are not visited)
      [required], [ppd]  = [collect_required_recursive], [push_projections_recursive]
                           (the pass never inserts a projection: it rebuilds the same tree)
      [jt_collect] ..    = [collect_join_tree], [extract_join_tree], [JoinGraphBuilder]
      [reorder_fires]    = "DPccp::optimize returns a plan" (the join graph is connected)
      [reorder_chk b a]  = a is a plan the pass may return for b: the cost-driven search is not
                           transcribed, its possible results are characterised (an all-Inner bushy
                           tree over the collected relations, every node carrying exactly the
                           graph edges that cross it, no cross products). *)
From Coq Require Import ZArith List Bool String.
Import ListNotations.
From GV Require Export Query.Plan.
Open Scope Z_scope.

(** ** Variable collectors *)
Fixpoint expr_vars (e : expr) : list var :=
  match e with
  | ELit _ => []
  | EVar x => [x]
  | EProp x _ => [x]
  | EBin _ a b => expr_vars a ++ expr_vars b
  | EUn _ a => expr_vars a
  | EHasLabel x _ => [x]
  | EOpaque _ vs => vs
  end.

Definition aliases (items : list item) : list var :=
  flat_map (fun it => match snd it with Some a => [a] | None => [] end) items.

Definition agg_aliases (aggs : list (aggfn * option var)) : list var :=
  flat_map (fun a => match snd a with Some x => [x] | None => [] end) aggs.

Fixpoint out_vars_pre (p : plan) : list var :=
  match p with
  | PScan x _ => [x]
  | PScanIn x _ _ => [x]
  | PExpand _ t ev _ _ h inp => t :: (match ev with Some e => [e] | None => [] end) ++ out_vars_pre inp
  | PFilter _ inp => out_vars_pre inp
  | PProject items inp => aliases items ++ out_vars_pre inp
  | PJoin _ _ l r => out_vars_pre l ++ out_vars_pre r
  | PAgg groups aggs _ => flat_map expr_vars groups ++ agg_aliases aggs
  | PReturn _ _ inp => out_vars_pre inp
  | PLimit _ inp => out_vars_pre inp
  | PSkip _ inp => out_vars_pre inp
  | PSort _ inp => out_vars_pre inp
  | PDistinct inp => out_vars_pre inp
  | PEmpty | PLeftJoin _ _ | PUnion _ _ => []
  end.

Definition uses_any (vs : list var) (s : list var) : bool := existsb (fun v => mem v s) vs.
Definition disjointb (a b : list var) : bool := negb (uses_any a b).

(** the variables an Expand introduces, as [try_push_filter_into] lists them: target, edge
    variable, path alias (the path *length* column [_path_length_p] is not in the list) *)
Definition xintro (t : var) (ev : option var) (h : hops) : list var :=
  t :: (match ev with Some e => [e] | None => [] end) ++ (match h_path h with Some p => [p] | None => [] end).
Definition xhidden (h : hops) : list var := match h_path h with Some p => [plen_name p] | None => [] end.

Fixpoint nodupb (l : list var) : bool :=
  match l with [] => true | x :: l' => negb (mem x l') && nodupb l' end.
Definition subsetb (a b : list var) : bool := forallb (fun x => mem x b) a.


(** ** Filter push-down *)
Fixpoint try_push_pre (pred : expr) (op : plan) : plan :=
  match op with
  | PProject items inp =>
      if disjointb (expr_vars pred) (aliases items)
      then PProject items (try_push_pre pred inp)
      else PFilter pred op
  | PReturn items d inp => PReturn items d (try_push_pre pred inp)
  | PExpand f t ev d ty h inp =>
      let introduced := xintro t ev h in
      if uses_any (expr_vars pred) introduced
      then PFilter pred op
      else PExpand f t ev d ty h (try_push_pre pred inp)
  | PJoin k cs l r =>
      let pv := expr_vars pred in
      let uses_left := uses_any pv (out_vars_pre l) in
      let uses_right := uses_any pv (out_vars_pre r) in
      if uses_left && negb uses_right then PJoin k cs (try_push_pre pred l) r
      else if uses_right && negb uses_left then PJoin k cs l (try_push_pre pred r)
      else PFilter pred op
  | _ => PFilter pred op
  end.

Fixpoint pfd_pre (op : plan) : plan :=
  match op with
  | PFilter e inp => try_push_pre e (pfd_pre inp)
  | PReturn items d inp => PReturn items d (pfd_pre inp)
  | PProject items inp => PProject items (pfd_pre inp)
  | PLimit n inp => PLimit n (pfd_pre inp)
  | PSkip n inp => PSkip n (pfd_pre inp)
  | PSort ks inp => PSort ks (pfd_pre inp)
  | PDistinct inp => PDistinct (pfd_pre inp)
  | PExpand f t ev d ty h inp => PExpand f t ev d ty h (pfd_pre inp)
  | PJoin k cs l r => PJoin k cs (pfd_pre l) (pfd_pre r)
  | PAgg gs ags inp => PAgg gs ags (pfd_pre inp)
  | PEmpty | PScan _ _ | PScanIn _ _ _ | PLeftJoin _ _ | PUnion _ _ => op
  end.

(** *** Where the push-down is justified
    [pfd_ok_pre p] follows the recursion of [pfd_pre]/[try_push_pre] and is false as soon as a predicate is moved
    to a place where one of its variables means something else:
      - through an Expand with a path alias [p] although it mentions the hidden column
        [_path_length_p] (the code only looks for [p]),
      - through a Project/Return although a variable it mentions is not an identity pass-through
        column of that operator (the code only looks at *aliases*, and not at all for Return),
      - into one side of a join although it mentions a column of the other side (the code decides
        with [out_vars_pre], which does not know the columns of a NodeScan's input, a LeftJoin, a Union),
      - into the optional side of a [JLeft] join (the code never looks at the join type).
    The finding class is its negation. *)
Fixpoint passes_through (v : var) (items : list item) : bool :=
  match items with
  | [] => false
  | it :: items' =>
      if String.eqb (item_name it) v
      then match fst it with EVar x => String.eqb x v | _ => false end
      else passes_through v items'
  end.

Definition through_ok (pv : list var) (items : list item) (inp : plan) : bool :=
  forallb (fun v => passes_through v items && mem v (schema inp)) pv.

Fixpoint try_push_ok_pre (pred : expr) (op : plan) : bool :=
  match op with
  | PProject items inp =>
      if disjointb (expr_vars pred) (aliases items)
      then through_ok (expr_vars pred) items inp && try_push_ok_pre pred inp
      else true
  | PReturn items d inp => through_ok (expr_vars pred) items inp && try_push_ok_pre pred inp
  | PExpand f t ev d ty h inp =>
      let introduced := xintro t ev h in
      if uses_any (expr_vars pred) introduced then true
      else disjointb (expr_vars pred) (xhidden h) && try_push_ok_pre pred inp
  | PJoin k cs l r =>
      let pv := expr_vars pred in
      let uses_left := uses_any pv (out_vars_pre l) in
      let uses_right := uses_any pv (out_vars_pre r) in
      if uses_left && negb uses_right then disjointb pv (schema r) && try_push_ok_pre pred l
      else if uses_right && negb uses_left
           then disjointb pv (schema l) && (match k with JLeft => false | _ => true end) && try_push_ok_pre pred r
      else true
  | _ => true
  end.

Fixpoint pfd_ok_pre (op : plan) : bool :=
  match op with
  | PFilter e inp => pfd_ok_pre inp && try_push_ok_pre e (pfd_pre inp)
  | PReturn _ _ inp | PProject _ inp | PLimit _ inp | PSkip _ inp | PSort _ inp | PDistinct inp
  | PExpand _ _ _ _ _ _ inp | PAgg _ _ inp => pfd_ok_pre inp
  | PJoin _ _ l r => pfd_ok_pre l && pfd_ok_pre r
  | PEmpty | PScan _ _ | PScanIn _ _ _ | PLeftJoin _ _ | PUnion _ _ => true
  end.

Definition k_push_pre (p : plan) : bool := negb (pfd_ok_pre p).

(** ** The code since 7426671 (repair of C09-K1).  The definitions above ([out_vars_pre] .. [k_push_pre])
    transcribe the code before it and are kept for the refutations.
      [out_vars]   = collect_output_variables_recursive with the inputs of a chained NodeScan, of
                         LeftJoin and of Union visited (an over-approximation of the columns),
      [passed_through] = is_passed_through: a projection list hands [v] through unchanged
                         ([v] or [v AS v]) and defines no other column of that name,
      [try_push]   = try_push_filter_into: Project and Return are passed only by predicates all of
                         whose variables are passed through; nothing is pushed into the optional side
                         of a Join{Left}. *)
Fixpoint out_vars (p : plan) : list var :=
  match p with
  | PScan x _ => [x]
  | PScanIn x _ inp => x :: out_vars inp
  | PExpand _ t ev _ _ h inp => xintro t ev h ++ out_vars inp
  | PFilter _ inp => out_vars inp
  | PProject items inp => aliases items ++ out_vars inp
  | PJoin _ _ l r => out_vars l ++ out_vars r
  | PAgg groups aggs _ => flat_map expr_vars groups ++ agg_aliases aggs
  | PReturn _ _ inp => out_vars inp
  | PLimit _ inp => out_vars inp
  | PSkip _ inp => out_vars inp
  | PSort _ inp => out_vars inp
  | PDistinct inp => out_vars inp
  | PLeftJoin l r | PUnion l r => out_vars l ++ out_vars r
  | PEmpty => []
  end.

Fixpoint passed_through (v : var) (items : list item) (found : bool) : bool :=
  match items with
  | [] => found
  | it :: items' =>
      let ident := (match fst it with EVar x => String.eqb x v | _ => false end)
                   && (match snd it with None => true | Some a => String.eqb a v end) in
      if ident then passed_through v items' true
      else if (match snd it with Some a => String.eqb a v | None => false end) then false
      else passed_through v items' found
  end.

Definition all_passed (pv : list var) (items : list item) : bool :=
  forallb (fun v => passed_through v items false) pv.

Fixpoint try_push (pred : expr) (op : plan) : plan :=
  match op with
  | PProject items inp =>
      if all_passed (expr_vars pred) items
      then PProject items (try_push pred inp)
      else PFilter pred op
  | PReturn items d inp =>
      if all_passed (expr_vars pred) items
      then PReturn items d (try_push pred inp)
      else PFilter pred op
  | PExpand f t ev d ty h inp =>
      let introduced := xintro t ev h in
      if uses_any (expr_vars pred) introduced
      then PFilter pred op
      else PExpand f t ev d ty h (try_push pred inp)
  | PJoin k cs l r =>
      let pv := expr_vars pred in
      let uses_left := uses_any pv (out_vars l) in
      let uses_right := uses_any pv (out_vars r) in
      let right_pushable := match k with JLeft => false | _ => true end in
      if uses_left && negb uses_right then PJoin k cs (try_push pred l) r
      else if uses_right && negb uses_left && right_pushable then PJoin k cs l (try_push pred r)
      else PFilter pred op
  | _ => PFilter pred op
  end.

Fixpoint pfd (op : plan) : plan :=
  match op with
  | PFilter e inp => try_push e (pfd inp)
  | PReturn items d inp => PReturn items d (pfd inp)
  | PProject items inp => PProject items (pfd inp)
  | PLimit n inp => PLimit n (pfd inp)
  | PSkip n inp => PSkip n (pfd inp)
  | PSort ks inp => PSort ks (pfd inp)
  | PDistinct inp => PDistinct (pfd inp)
  | PExpand f t ev d ty h inp => PExpand f t ev d ty h (pfd inp)
  | PJoin k cs l r => PJoin k cs (pfd l) (pfd r)
  | PAgg gs ags inp => PAgg gs ags (pfd inp)
  | PEmpty | PScan _ _ | PScanIn _ _ _ | PLeftJoin _ _ | PUnion _ _ => op
  end.

(** where the push-down is justified (same semantic side conditions as [try_push_ok],
    following the current branching); [k_push] is what is left of the class *)
Fixpoint try_push_ok (pred : expr) (op : plan) : bool :=
  match op with
  | PProject items inp =>
      if all_passed (expr_vars pred) items
      then through_ok (expr_vars pred) items inp && try_push_ok pred inp
      else true
  | PReturn items d inp =>
      if all_passed (expr_vars pred) items
      then through_ok (expr_vars pred) items inp && try_push_ok pred inp
      else true
  | PExpand f t ev d ty h inp =>
      let introduced := xintro t ev h in
      if uses_any (expr_vars pred) introduced then true
      else disjointb (expr_vars pred) (xhidden h) && try_push_ok pred inp
  | PJoin k cs l r =>
      let pv := expr_vars pred in
      let uses_left := uses_any pv (out_vars l) in
      let uses_right := uses_any pv (out_vars r) in
      let right_pushable := match k with JLeft => false | _ => true end in
      if uses_left && negb uses_right then disjointb pv (schema r) && try_push_ok pred l
      else if uses_right && negb uses_left && right_pushable
           then disjointb pv (schema l) && try_push_ok pred r
      else true
  | _ => true
  end.

Fixpoint pfd_ok (op : plan) : bool :=
  match op with
  | PFilter e inp => pfd_ok inp && try_push_ok e (pfd inp)
  | PReturn _ _ inp | PProject _ inp | PLimit _ inp | PSkip _ inp | PSort _ inp | PDistinct inp
  | PExpand _ _ _ _ _ _ inp | PAgg _ _ inp => pfd_ok inp
  | PJoin _ _ l r => pfd_ok l && pfd_ok r
  | PEmpty | PScan _ _ | PScanIn _ _ _ | PLeftJoin _ _ | PUnion _ _ => true
  end.

Definition k_push (p : plan) : bool := negb (pfd_ok p).

(** *** which plans push-down is proved to keep (ProofsOptPush [pfd_scoped])
    [wscoped]: every predicate and every projected expression mentions only columns of its input
    (what the Binder checks); [names_ok]: no predicate variable is spelled like a column name the
    planner invents ([_path_length_p], the name of an unaliased computed column, a Return alias). *)
Definition plain_item (it : item) : bool :=
  match fst it, snd it with EVar _, None => true | _, _ => false end.

Definition computed_item (it : item) : bool :=
  match fst it, snd it with EVar _, _ => false | _, Some _ => false | _, None => true end.

Definition odd_items (items : list item) : list var :=
  map item_name (filter (fun it => negb (plain_item it)) items).

Fixpoint hidden_names (p : plan) : list var :=
  match p with
  | PEmpty | PScan _ _ => []
  | PScanIn _ _ i => hidden_names i
  | PExpand _ _ _ _ _ h i => xhidden h ++ hidden_names i
  | PFilter _ i => hidden_names i
  | PProject items i => map item_name (filter computed_item items) ++ hidden_names i
  | PReturn items _ i => odd_items items ++ hidden_names i
  | PJoin _ _ l r | PLeftJoin l r | PUnion l r => hidden_names l ++ hidden_names r
  | PAgg gs ags i =>
      map expr_name (filter (fun g => match g with EVar _ => false | _ => true end) gs)
      ++ map agg_name (filter (fun a => match snd a with None => true | Some _ => false end) ags)
      ++ hidden_names i
  | PSort _ i | PSkip _ i | PLimit _ i | PDistinct i => hidden_names i
  end.

Fixpoint wscoped (p : plan) : bool :=
  match p with
  | PEmpty | PScan _ _ => true
  | PScanIn _ _ i | PExpand _ _ _ _ _ _ i | PAgg _ _ i | PSort _ i | PSkip _ i | PLimit _ i | PDistinct i => wscoped i
  | PFilter e i => subsetb (expr_vars e) (schema i) && wscoped i
  | PProject items i | PReturn items _ i =>
      forallb (fun it => subsetb (expr_vars (fst it)) (schema i)) items && wscoped i
  | PJoin _ _ l r | PLeftJoin l r | PUnion l r => wscoped l && wscoped r
  end.

Fixpoint filter_vars (p : plan) : list var :=
  match p with
  | PEmpty | PScan _ _ => []
  | PFilter e i => expr_vars e ++ filter_vars i
  | PScanIn _ _ i | PExpand _ _ _ _ _ _ i | PProject _ i | PReturn _ _ i | PAgg _ _ i
  | PSort _ i | PSkip _ i | PLimit _ i | PDistinct i => filter_vars i
  | PJoin _ _ l r | PLeftJoin l r | PUnion l r => filter_vars l ++ filter_vars r
  end.

Definition names_ok (p : plan) : bool := disjointb (filter_vars p) (hidden_names p).

(** ** Projection push-down *)
Definition reqcol := (var * option string)%type.     (* Variable v | Property v p *)

Fixpoint req_expr (e : expr) : list reqcol :=
  match e with
  | ELit _ => []
  | EVar x => [(x, None)]
  | EProp x p => [(x, Some p); (x, None)]
  | EBin _ a b => req_expr a ++ req_expr b
  | EUn _ a => req_expr a
  | EHasLabel x _ => [(x, None)]
  | EOpaque _ vs => map (fun v => (v, None)) vs
  end.

Fixpoint required (p : plan) : list reqcol :=
  match p with
  | PReturn items _ inp => flat_map (fun it => req_expr (fst it)) items ++ required inp
  | PProject items inp => flat_map (fun it => req_expr (fst it)) items ++ required inp
  | PFilter e inp => req_expr e ++ required inp
  | PSort ks inp => flat_map (fun k => req_expr (fst k)) ks ++ required inp
  | PAgg gs ags inp =>
      flat_map req_expr gs
      ++ flat_map (fun a => match fst a with ACountNonNull e => req_expr e | ACountStar => [] end) ags
      ++ required inp
  | PJoin _ cs l r =>
      flat_map (fun c => req_expr (fst c) ++ req_expr (snd c)) cs ++ required l ++ required r
  | PExpand f t ev _ _ _ inp =>
      (f, None) :: (t, None) :: (match ev with Some e => [(e, None)] | None => [] end) ++ required inp
  | PLimit _ inp => required inp
  | PSkip _ inp => required inp
  | PDistinct inp => required inp
  | PScan x _ => [(x, None)]
  | PScanIn x _ _ => [(x, None)]
  | PEmpty | PLeftJoin _ _ | PUnion _ _ => []
  end.

Fixpoint ppd_rec (p : plan) (req : list reqcol) : plan :=
  match p with
  | PReturn items d inp => PReturn items d (ppd_rec inp req)
  | PProject items inp => PProject items (ppd_rec inp req)
  | PFilter e inp => PFilter e (ppd_rec inp req)
  | PSort ks inp => PSort ks (ppd_rec inp req)
  | PAgg gs ags inp => PAgg gs ags (ppd_rec inp req)
  | PJoin k cs l r =>
      let lv := out_vars l in
      let rv := out_vars r in
      PJoin k cs (ppd_rec l (filter (fun c => mem (fst c) lv) req))
                 (ppd_rec r (filter (fun c => mem (fst c) rv) req))
  | PExpand f t ev d ty h inp => PExpand f t ev d ty h (ppd_rec inp req)
  | PLimit n inp => PLimit n (ppd_rec inp req)
  | PSkip n inp => PSkip n (ppd_rec inp req)
  | PDistinct inp => PDistinct (ppd_rec inp req)
  | PEmpty | PScan _ _ | PScanIn _ _ _ | PLeftJoin _ _ | PUnion _ _ => p
  end.

Definition ppd (p : plan) : plan := ppd_rec p (required p).

(** ** Join reordering *)
Definition cond_var (e : expr) : option var :=      (* extract_variable_from_expr *)
  match e with EVar x => Some x | EProp x _ => Some x | _ => None end.

Definition joininfo := (var * var * (expr * expr))%type.

Definition cond_infos (cs : list (expr * expr)) : list joininfo :=
  flat_map (fun c => match cond_var (fst c), cond_var (snd c) with
                     | Some a, Some b => [(a, b, c)]
                     | _, _ => []
                     end) cs.

(** [collect_join_tree]: relations (key variable, operator), join infos, "is a join tree" *)
Fixpoint jt_collect_pre (p : plan) : list (var * plan) * list joininfo * bool :=
  match p with
  | PJoin _ cs l r =>
      let '(rl, cl, okl) := jt_collect_pre l in
      let '(rr, cr, okr) := jt_collect_pre r in
      (rl ++ rr, cl ++ cr ++ cond_infos cs, okl && okr)
  | PScan x _ => ([(x, p)], [], true)
  | PScanIn x _ _ => ([(x, p)], [], true)
  | PFilter _ inp => jt_collect_pre inp           (* the predicate is forgotten *)
  | PExpand _ t _ _ _ _ _ => ([(t, p)], [], true)
  | _ => ([], [], false)
  end.

Definition jt_extract_pre (p : plan) : option (list (var * plan) * list joininfo) :=
  let '(rels, infos, ok) := jt_collect_pre p in
  if ok && (2 <=? Z.of_nat (List.length rels)) then Some (rels, infos) else None.

(** [JoinGraphBuilder]: [variable_to_node] keeps the last relation registered under a name *)
Fixpoint var_node (x : var) (rels : list (var * plan)) (i : nat) (acc : option nat) : option nat :=
  match rels with
  | [] => acc
  | (y, _) :: rels' => var_node x rels' (S i) (if String.eqb y x then Some i else acc)
  end.

Definition jedge := (nat * nat * (expr * expr))%type.

Definition jg_edges (rels : list (var * plan)) (infos : list joininfo) : list jedge :=
  flat_map (fun ji => match ji with
                      | (a, b, c) =>
                          match var_node a rels O None, var_node b rels O None with
                          | Some i, Some j => [(i, j, c)]
                          | _, _ => []
                          end
                      end) infos.

Fixpoint nmem (i : nat) (l : list nat) : bool :=
  match l with [] => false | j :: l' => Nat.eqb i j || nmem i l' end.

Definition crosses (s1 s2 : list nat) (e : jedge) : bool :=
  match e with
  | (i, j, _) => (nmem i s1 && nmem j s2) || (nmem i s2 && nmem j s1)
  end.

(** nodes reachable from the seen set in one step *)
Definition grow (edges : list jedge) (seen : list nat) : list nat :=
  fold_left (fun acc e => match e with
                          | (i, j, _) =>
                              let acc := if nmem i acc && negb (nmem j acc) then j :: acc else acc in
                              if nmem j acc && negb (nmem i acc) then i :: acc else acc
                          end) edges seen.

Fixpoint reach (fuel : nat) (edges : list jedge) (seen : list nat) : list nat :=
  match fuel with O => seen | S f => reach f edges (grow edges seen) end.

Definition connected (n : nat) (edges : list jedge) : bool :=
  let r := reach n edges [O] in
  forallb (fun i => nmem i r) (seq 0 n).

Definition reorder_fires_pre (p : plan) : bool :=
  match jt_extract_pre p with
  | Some (rels, infos) => connected (List.length rels) (jg_edges rels infos)
  | None => false
  end.

(** multiset equality of condition lists *)
Fixpoint remove_cond (c : expr * expr) (l : list (expr * expr)) : option (list (expr * expr)) :=
  match l with
  | [] => None
  | d :: l' => if cond_eqb c d then Some l' else option_map (cons d) (remove_cond c l')
  end.
Fixpoint conds_perm (a b : list (expr * expr)) : bool :=
  match a with
  | [] => match b with [] => true | _ => false end
  | c :: a' => match remove_cond c b with Some b' => conds_perm a' b' | None => false end
  end.

Fixpoint find_rel (q : plan) (rels : list (var * plan)) (i : nat) (used : list nat) : option nat :=
  match rels with
  | [] => None
  | (_, r) :: rels' => if plan_eqb q r && negb (nmem i used) then Some i else find_rel q rels' (S i) used
  end.

(** the relation indices a DPccp-shaped tree covers ([None]: not such a tree).  [used] threads the
    leaves already consumed so that structurally equal relations are matched one to one. *)
Fixpoint dp_tree_pre (rels : list (var * plan)) (edges : list jedge) (a : plan) (used : list nat)
  : option (list nat) :=
  match a with
  | PJoin JInner cs l r =>
      match dp_tree_pre rels edges l used with
      | Some sl =>
          match dp_tree_pre rels edges r (sl ++ used) with
          | Some sr =>
              let crossing := filter (crosses sl sr) edges in
              if negb (match crossing with [] => true | _ => false end)
                 && conds_perm cs (map snd crossing)
              then Some (sl ++ sr) else None
          | None => None
          end
      | None => None
      end
  | _ => match find_rel a rels O used with Some i => Some [i] | None => None end
  end.

Definition dp_tree_ok_pre (rels : list (var * plan)) (edges : list jedge) (a : plan) : bool :=
  match dp_tree_pre rels edges a [] with
  | Some s => Nat.eqb (List.length s) (List.length rels)
  | None => false
  end.

(** [reorder_chk_pre b a]: [a] is a possible result of [reorder_joins b] *)
Fixpoint reorder_chk_pre (b a : plan) : bool :=
  if reorder_fires_pre b then
    match jt_extract_pre b with
    | Some (rels, infos) => dp_tree_ok_pre rels (jg_edges rels infos) a
    | None => false
    end
  else
    match b, a with
    | PReturn its d i, PReturn its' d' j => list_eqb item_eqb its its' && Bool.eqb d d' && reorder_chk_pre i j
    | PProject its i, PProject its' j => list_eqb item_eqb its its' && reorder_chk_pre i j
    | PFilter e i, PFilter e' j => expr_eqb e e' && reorder_chk_pre i j
    | PLimit n i, PLimit m j => Nat.eqb n m && reorder_chk_pre i j
    | PSkip n i, PSkip m j => Nat.eqb n m && reorder_chk_pre i j
    | PSort ks i, PSort ks' j => list_eqb skey_eqb ks ks' && reorder_chk_pre i j
    | PDistinct i, PDistinct j => reorder_chk_pre i j
    | PAgg gs ags i, PAgg gs' ags' j => list_eqb expr_eqb gs gs' && list_eqb agg_eqb ags ags' && reorder_chk_pre i j
    | PExpand f t ev d ty h i, PExpand f' t' ev' d' ty' h' j =>
        String.eqb f f' && String.eqb t t' && ostr_eqb ev ev' && dir_eqb d d' && ostr_eqb ty ty' && hops_eqb h h'
        && reorder_chk_pre i j
    | _, _ => plan_eqb b a
    end.

(** *** The code since a2be94c (repair of C09-K2): "a is a plan reorder_joins may return for b".
    [jt_collect_pre] .. [reorder_chk_pre] above describe the code before it.
      [jt_collect]: only Inner/Cross joins belong to a join tree; a Filter over a base relation is
        a relation *with* its filter, a Filter over a join makes the tree unreorderable; a condition
        whose sides are not  variable-of-the-left-input = variable-of-the-right-input  (by
        [collect_output_variables]) makes it unreorderable; every condition variable must be the key
        of a relation ([jt_extract]),
      [dp_tree]: each node carries the crossing graph edges written  left side = right side
        ([JoinGraph::get_conditions] swaps a condition whose [from] relation is on the right). *)
Fixpoint base_var (p : plan) : option var :=
  match p with
  | PScan x _ => Some x
  | PScanIn x _ _ => Some x
  | PExpand _ t _ _ _ _ _ => Some t
  | PFilter _ i => base_var i
  | _ => None
  end.

Definition cond_oriented (l r : plan) (c : expr * expr) : bool :=
  match cond_var (fst c), cond_var (snd c) with
  | Some a, Some b => mem a (out_vars l) && mem b (out_vars r)
  | _, _ => false
  end.

Fixpoint jt_collect (p : plan) : list (var * plan) * list joininfo * bool :=
  match p with
  | PJoin k cs l r =>
      let '(rl, cl, okl) := jt_collect l in
      let '(rr, cr, okr) := jt_collect r in
      (rl ++ rr, cl ++ cr ++ cond_infos cs,
       (match k with JLeft => false | _ => true end) && forallb (cond_oriented l r) cs && okl && okr)
  | PScan x _ => ([(x, p)], [], true)
  | PScanIn x _ _ => ([(x, p)], [], true)
  | PFilter _ inp =>
      match base_var inp with
      | Some v => ([(v, p)], [], true)
      | None => ([], [], false)
      end
  | PExpand _ t _ _ _ _ _ => ([(t, p)], [], true)
  | _ => ([], [], false)
  end.

Definition jt_extract (p : plan) : option (list (var * plan) * list joininfo) :=
  let '(rels, infos, ok) := jt_collect p in
  let known := map fst rels in
  if ok && (2 <=? Z.of_nat (List.length rels))
     && forallb (fun ji => mem (fst (fst ji)) known && mem (snd (fst ji)) known) infos
  then Some (rels, infos) else None.

Definition reorder_fires (p : plan) : bool :=
  match jt_extract p with
  | Some (rels, infos) => connected (List.length rels) (jg_edges rels infos)
  | None => false
  end.

Definition orient (sl sr : list nat) (e : jedge) : expr * expr :=
  match e with
  | (i, j, c) => if nmem i sl && nmem j sr then c else (snd c, fst c)
  end.

Fixpoint dp_tree (rels : list (var * plan)) (edges : list jedge) (a : plan) (used : list nat)
  : option (list nat) :=
  match a with
  | PJoin JInner cs l r =>
      match dp_tree rels edges l used with
      | Some sl =>
          match dp_tree rels edges r (sl ++ used) with
          | Some sr =>
              let crossing := filter (crosses sl sr) edges in
              if negb (match crossing with [] => true | _ => false end)
                 && conds_perm cs (map (orient sl sr) crossing)
              then Some (sl ++ sr) else None
          | None => None
          end
      | None => None
      end
  | _ => match find_rel a rels O used with Some i => Some [i] | None => None end
  end.

Definition dp_tree_ok (rels : list (var * plan)) (edges : list jedge) (a : plan) : bool :=
  match dp_tree rels edges a [] with
  | Some s => Nat.eqb (List.length s) (List.length rels)
  | None => false
  end.

Fixpoint reorder_chk (b a : plan) : bool :=
  if reorder_fires b then
    match jt_extract b with
    | Some (rels, infos) => dp_tree_ok rels (jg_edges rels infos) a
    | None => false
    end
  else
    match b, a with
    | PReturn its d i, PReturn its' d' j => list_eqb item_eqb its its' && Bool.eqb d d' && reorder_chk i j
    | PProject its i, PProject its' j => list_eqb item_eqb its its' && reorder_chk i j
    | PFilter e i, PFilter e' j => expr_eqb e e' && reorder_chk i j
    | PLimit n i, PLimit m j => Nat.eqb n m && reorder_chk i j
    | PSkip n i, PSkip m j => Nat.eqb n m && reorder_chk i j
    | PSort ks i, PSort ks' j => list_eqb skey_eqb ks ks' && reorder_chk i j
    | PDistinct i, PDistinct j => reorder_chk i j
    | PAgg gs ags i, PAgg gs' ags' j => list_eqb expr_eqb gs gs' && list_eqb agg_eqb ags ags' && reorder_chk i j
    | PExpand f t ev d ty h i, PExpand f' t' ev' d' ty' h' j =>
        String.eqb f f' && String.eqb t t' && ostr_eqb ev ev' && dir_eqb d d' && ostr_eqb ty ty' && hops_eqb h h'
        && reorder_chk i j
    | _, _ => plan_eqb b a
    end.

(** what the front ends emit: no join carries a condition; then the pass cannot fire anywhere *)
Fixpoint no_conds (p : plan) : bool :=
  match p with
  | PJoin _ cs l r => (match cs with [] => true | _ => false end) && no_conds l && no_conds r
  | PScanIn _ _ i | PExpand _ _ _ _ _ _ i | PFilter _ i | PProject _ i | PReturn _ _ i | PAgg _ _ i
  | PSort _ i | PSkip _ i | PLimit _ i | PDistinct i => no_conds i
  | PLeftJoin l r | PUnion l r => no_conds l && no_conds r
  | PEmpty | PScan _ _ => true
  end.

(** ** The join normal form *)
(** leaves, effective conditions (the variable pairs the planner turns into hash keys), residual
    filters — of a tree of Inner/Cross joins and filters; anything else is a leaf *)
Definition used_pairs (ls rs : list var) (cs : list (expr * expr)) : list (var * var) :=
  flat_map (fun c => match c with
                     | (EVar x, EVar y) => if mem x ls && mem y rs then [(x, y)] else []
                     | _ => []
                     end) cs.

Fixpoint jnf (p : plan) : list plan * list (var * var) * list expr :=
  match p with
  | PJoin _ cs l r =>
      let '(ll, cl, fl) := jnf l in
      let '(lr, cr, fr) := jnf r in
      (ll ++ lr, cl ++ cr ++ used_pairs (schema l) (schema r) cs, fl ++ fr)
  | PFilter e inp => let '(l, c, f) := jnf inp in (l, c, e :: f)
  | _ => ([p], [], [])
  end.

Fixpoint inner_only (p : plan) : bool :=
  match p with
  | PJoin k _ l r => (match k with JLeft => false | _ => true end) && inner_only l && inner_only r
  | PFilter _ inp => inner_only inp
  | _ => true
  end.

Fixpoint remove_plan (q : plan) (l : list plan) : option (list plan) :=
  match l with
  | [] => None
  | d :: l' => if plan_eqb q d then Some l' else option_map (cons d) (remove_plan q l')
  end.
Fixpoint plans_perm (a b : list plan) : bool :=
  match a with
  | [] => match b with [] => true | _ => false end
  | c :: a' => match remove_plan c b with Some b' => plans_perm a' b' | None => false end
  end.

Definition pair_in (c : var * var) (l : list (var * var)) : bool :=
  existsb (fun d => (String.eqb (fst c) (fst d) && String.eqb (snd c) (snd d))
                    || (String.eqb (fst c) (snd d) && String.eqb (snd c) (fst d))) l.
Definition pairs_same (a b : list (var * var)) : bool :=
  forallb (fun c => pair_in c b) a && forallb (fun c => pair_in c a) b.
Definition exprs_same (a b : list expr) : bool :=
  forallb (fun e => existsb (expr_eqb e) b) a && forallb (fun e => existsb (expr_eqb e) a) b.

Definition jnf_eqb (p q : plan) : bool :=
  let '(lp, cp, fp) := jnf p in
  let '(lq, cq, fq) := jnf q in
  plans_perm lp lq && pairs_same cp cq && exprs_same fp fq.

(** well-formed join tree: the leaves' column sets are pairwise disjoint and every filter inside
    the tree only mentions columns of its sub-tree *)
Fixpoint filters_scoped (p : plan) : bool :=
  match p with
  | PJoin _ _ l r => filters_scoped l && filters_scoped r
  | PFilter e inp => subsetb (expr_vars e) (schema inp) && filters_scoped inp
  | _ => true
  end.

(** all rows of a plan have exactly the columns [schema] says (false only below a Union of
    differently shaped inputs) *)
Fixpoint uniform (p : plan) : bool :=
  match p with
  | PUnion a b => list_eqb String.eqb (schema a) (schema b) && uniform a && uniform b
  | PEmpty | PScan _ _ => true
  | PScanIn _ _ i | PExpand _ _ _ _ _ _ i | PFilter _ i | PProject _ i | PReturn _ _ i | PAgg _ _ i
  | PSort _ i | PSkip _ i | PLimit _ i | PDistinct i => uniform i
  | PJoin _ _ l r | PLeftJoin l r => uniform l && uniform r
  end.

Definition jt_wf (p : plan) : bool :=
  inner_only p && nodupb (schema p) && filters_scoped p && uniform p.

(** the meaning of a normal form: the product of the leaves, filtered by conditions and filters *)
Definition jl (p : plan) : list plan := fst (fst (jnf p)).
Definition jc (p : plan) : list (var * var) := snd (fst (jnf p)).
Definition jf (p : plan) : list expr := snd (jnf p).

Definition pair_holds (m : row) (c : var * var) : bool := key_eq (lookup (fst c) m) (lookup (snd c) m).

Definition jt_pred (G : graph) (p : plan) (m : row) : bool :=
  forallb (pair_holds m) (jc p) && forallb (fun e => passes G e m) (jf p).

Definition jt_base (G : graph) (p : plan) : list row := cross_all (map (sem G) (jl p)).

(** ** The whole pass *)
(** [reorder] stands for whatever [reorder_joins] returns under the statistics at hand *)
Definition optimize (fp jr pp : bool) (reorder : plan -> plan) (p : plan) : plan :=
  let p := if fp then pfd p else p in
  let p := if jr then reorder p else p in
  if pp then ppd p else p.

Definition after_fp (fp : bool) (p : plan) : plan := if fp then pfd p else p.
