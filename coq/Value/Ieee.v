(** IEEE-754 binary64 / binary32 values as BIT PATTERNS (DESIGN §4 "Floats").

    A float is the integer [0 <= b < 2^64] (resp. [2^32]) that Rust's [f64::to_bits]
    ([f32::to_bits]) returns; [f64::from_bits] is the identity in the other direction.
    Nothing here is a real number and nothing is a [PrimFloat]: the functions below are the
    comparison / classification / conversion operations the anchored code of C16 uses, as
    total computable functions over [Z].  Definitions only (proofs: Value/ProofsIeee.v).

    Validated against rustc's f64/f32 on every run of the C16 check (kinds f64_pair,
    f64_class, of_i64, f32_pair). *)
From GV Require Export Base.Bits.
Open Scope Z_scope.

Definition two52 : Z := 2 ^ 52.
Definition two53 : Z := 2 ^ 53.
Definition two32 : Z := 2 ^ 32.
Definition two31 : Z := 2 ^ 31.
Definition two23 : Z := 2 ^ 23.

Definition in_u32 (z : Z) : Prop := 0 <= z < two32.
Definition in_u32b (z : Z) : bool := (0 <=? z) && (z <? two32).
Definition in_u8b (z : Z) : bool := (0 <=? z) && (z <? 256).

(** [f64::to_bits] / [f64::from_bits]: the model *is* the bit pattern *)
Definition f64_to_bits (b : Z) : Z := b.
Definition f64_from_bits (b : Z) : Z := b.

(** ** binary64 fields *)
Definition f64_sign (b : Z) : Z := b / two63.              (* 0 | 1 *)
Definition f64_expo (b : Z) : Z := (b / two52) mod 2048.   (* biased exponent *)
Definition f64_mant (b : Z) : Z := b mod two52.
Definition f64_mag (b : Z) : Z := b mod two63.             (* everything but the sign *)

Definition f64_inf_mag : Z := 2047 * two52.                (* 0x7FF0_0000_0000_0000 *)

Definition f64_is_nan (b : Z) : bool := f64_inf_mag <? f64_mag b.
Definition f64_is_inf (b : Z) : bool := f64_mag b =? f64_inf_mag.
Definition f64_is_zero (b : Z) : bool := f64_mag b =? 0.
Definition f64_is_subnormal (b : Z) : bool := (f64_expo b =? 0) && negb (f64_mant b =? 0).
Definition f64_is_neg (b : Z) : bool := f64_sign b =? 1.   (* is_sign_negative *)

Inductive fclass := FNan | FInf | FZero | FSubnormal | FNormal.
Definition fclass_eqb (a b : fclass) : bool :=
  match a, b with
  | FNan, FNan | FInf, FInf | FZero, FZero | FSubnormal, FSubnormal | FNormal, FNormal => true
  | _, _ => false
  end.
Definition f64_classify (b : Z) : fclass :=
  if f64_is_nan b then FNan else if f64_is_inf b then FInf else if f64_is_zero b then FZero
  else if f64_is_subnormal b then FSubnormal else FNormal.

(** the order key of a non-NaN pattern: sign-magnitude read as a signed integer; the
    numerical order of non-NaN floats is the order of their keys and [+0.0], [-0.0] share key 0 *)
Definition f64_key (b : Z) : Z := if f64_sign b =? 0 then f64_mag b else - f64_mag b.

(** IEEE [==], [<], [<=] *)
Definition f64_eq (a b : Z) : bool :=
  negb (f64_is_nan a) && negb (f64_is_nan b) && (f64_key a =? f64_key b).
Definition f64_lt (a b : Z) : bool :=
  negb (f64_is_nan a) && negb (f64_is_nan b) && (f64_key a <? f64_key b).
Definition f64_le (a b : Z) : bool :=
  negb (f64_is_nan a) && negb (f64_is_nan b) && (f64_key a <=? f64_key b).

(** [f64::partial_cmp] *)
Definition f64_partial_cmp (a b : Z) : option comparison :=
  if f64_is_nan a || f64_is_nan b then None else Some (f64_key a ?= f64_key b).

(** the total order "NaN greatest, all NaNs equal, -0.0 = +0.0" (what [OrderedFloat64::cmp] computes) *)
Definition f64_ord_cmp (a b : Z) : comparison :=
  match f64_is_nan a, f64_is_nan b with
  | true, true => Eq
  | true, false => Gt
  | false, true => Lt
  | false, false => match f64_partial_cmp a b with Some c => c | None => Eq end
  end.

(** [f64::total_cmp] (IEEE totalOrder; not used by the anchored code, kept for the tie) *)
Definition f64_total_key (b : Z) : Z := if f64_sign b =? 0 then f64_mag b else - f64_mag b - 1.
Definition f64_total_cmp (a b : Z) : comparison := f64_total_key a ?= f64_total_key b.

(** ** [i64 as f64]: round to nearest, ties to even.  Total; never NaN/inf. *)
Definition f64_of_nat_mag (m : Z) : Z :=      (* m > 0 : magnitude bits of the nearest double *)
  let e := Z.log2 m in
  if e <=? 52 then (e + 1023) * two52 + (m * 2 ^ (52 - e) - two52)
  else
    let sh := e - 52 in
    let q := m / 2 ^ sh in
    let r := m mod 2 ^ sh in
    let h := 2 ^ (sh - 1) in
    let up := (h <? r) || ((r =? h) && Z.odd q) in
    (* a carry out of the 53-bit significand bumps the exponent field by itself *)
    (e + 1023) * two52 + ((if up then q + 1 else q) - two52).

Definition f64_of_i64 (i : Z) : Z :=
  if i =? 0 then 0
  else if i <? 0 then two63 + f64_of_nat_mag (- i)
  else f64_of_nat_mag i.

(** ** binary32 (elements of [Value::Vector]) *)
Definition f32_sign (b : Z) : Z := b / two31.
Definition f32_expo (b : Z) : Z := (b / two23) mod 256.
Definition f32_mant (b : Z) : Z := b mod two23.
Definition f32_mag (b : Z) : Z := b mod two31.
Definition f32_inf_mag : Z := 255 * two23.                 (* 0x7F80_0000 *)
Definition f32_is_nan (b : Z) : bool := f32_inf_mag <? f32_mag b.
Definition f32_is_inf (b : Z) : bool := f32_mag b =? f32_inf_mag.
Definition f32_is_zero (b : Z) : bool := f32_mag b =? 0.
Definition f32_is_subnormal (b : Z) : bool := (f32_expo b =? 0) && negb (f32_mant b =? 0).
Definition f32_classify (b : Z) : fclass :=
  if f32_is_nan b then FNan else if f32_is_inf b then FInf else if f32_is_zero b then FZero
  else if f32_is_subnormal b then FSubnormal else FNormal.
Definition f32_key (b : Z) : Z := if f32_sign b =? 0 then f32_mag b else - f32_mag b.
Definition f32_eq (a b : Z) : bool :=
  negb (f32_is_nan a) && negb (f32_is_nan b) && (f32_key a =? f32_key b).
Definition f32_partial_cmp (a b : Z) : option comparison :=
  if f32_is_nan a || f32_is_nan b then None else Some (f32_key a ?= f32_key b).

(** comparison helpers shared by the runners *)
Definition cmp_eqb (a b : comparison) : bool :=
  match a, b with Eq, Eq | Lt, Lt | Gt, Gt => true | _, _ => false end.
