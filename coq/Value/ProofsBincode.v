(** C16 — round-trip proofs for the bincode model ([Value/Bincode.v]).

    The first part (primitives) is independent of [Value] and meant for reuse by the WAL
    theories: every primitive encoder [enc_x] / decoder [dec_x] pair satisfies

        dec_x (enc_x a ++ rest) = Some (a, rest)

    for every in-range [a] and EVERY continuation [rest] (so the lemmas compose by plain
    rewriting, left to right, through a record's fields).  The second part is the round trip
    of [enc_value]/[dec_value] for all well-formed values, and injectivity of the encoding.

    No axioms; every lemma is closed with Qed. *)
From GV Require Import Base.BitsFacts Value.Laws Value.Induction.
From Coq Require Import ZArith Lia List Bool ZifyBool.
Import ListNotations.
Open Scope Z_scope.

(** * Part 1: primitives *)

(** ** lengths *)
Lemma zlen_nil {A} : zlen (@nil A) = 0.
Proof. reflexivity. Qed.
Lemma zlen_cons {A} (a : A) l : zlen (a :: l) = 1 + zlen l.
Proof. unfold zlen. cbn [length]. lia. Qed.
Lemma zlen_app {A} (a b : list A) : zlen (a ++ b) = zlen a + zlen b.
Proof. unfold zlen. rewrite app_length. lia. Qed.
Lemma zlen_nonneg {A} (l : list A) : 0 <= zlen l.
Proof. unfold zlen. lia. Qed.

(** ** fixed-width little-endian integers *)
Lemma le_bytes_length : forall n z, length (le_bytes n z) = n.
Proof.
  induction n as [|n IH]; intros z; cbn [le_bytes length]; [reflexivity|].
  rewrite IH. reflexivity.
Qed.

Lemma of_le_bytes_le_bytes : forall n z, 0 <= z < 256 ^ Z.of_nat n -> of_le_bytes (le_bytes n z) = z.
Proof.
  induction n as [|n IH]; intros z Hz.
  - change (256 ^ Z.of_nat 0) with 1 in Hz. cbn [le_bytes of_le_bytes]. lia.
  - cbn [le_bytes of_le_bytes].
    rewrite Nat2Z.inj_succ, Z.pow_succ_r in Hz by lia.
    rewrite IH.
    + pose proof (Z.div_mod z 256) as Hdm. lia.
    + split.
      * apply Z.div_pos; lia.
      * apply Z.div_lt_upper_bound; lia.
Qed.

(** literal-width instances (the bounds are closed numerals, convenient for [lia]) *)
Lemma of_le_bytes_2 z : 0 <= z < 65536 -> of_le_bytes (le_bytes 2 z) = z.
Proof. intros Hz. apply of_le_bytes_le_bytes. exact Hz. Qed.
Lemma of_le_bytes_4 z : 0 <= z < 2 ^ 32 -> of_le_bytes (le_bytes 4 z) = z.
Proof. intros Hz. apply of_le_bytes_le_bytes. exact Hz. Qed.
Lemma of_le_bytes_8 z : in_u64 z -> of_le_bytes (le_bytes 8 z) = z.
Proof. intros Hz. apply of_le_bytes_le_bytes. exact Hz. Qed.

(** ** [take]: reading back exactly what was appended in front *)
Lemma take_app : forall (x rest : bytes), take (zlen x) (x ++ rest) = Some (x, rest).
Proof.
  intros x rest. unfold take.
  replace ((0 <=? zlen x) && (zlen x <=? zlen (x ++ rest))) with true
    by (rewrite zlen_app; pose proof (zlen_nonneg x); pose proof (zlen_nonneg rest); lia).
  unfold zlen. rewrite Nat2Z.id.
  rewrite firstn_app, skipn_app, Nat.sub_diag, firstn_all, skipn_all.
  cbn [firstn skipn app]. rewrite app_nil_r. reflexivity.
Qed.

Lemma take_le_bytes n z rest : take (Z.of_nat n) (le_bytes n z ++ rest) = Some (le_bytes n z, rest).
Proof.
  rewrite <- (le_bytes_length n z) at 1. apply (take_app (le_bytes n z) rest).
Qed.
Lemma take_le2 z rest : take 2 (le_bytes 2 z ++ rest) = Some (le_bytes 2 z, rest).
Proof. exact (take_le_bytes 2 z rest). Qed.
Lemma take_le4 z rest : take 4 (le_bytes 4 z ++ rest) = Some (le_bytes 4 z, rest).
Proof. exact (take_le_bytes 4 z rest). Qed.
Lemma take_le8 z rest : take 8 (le_bytes 8 z ++ rest) = Some (le_bytes 8 z, rest).
Proof. exact (take_le_bytes 8 z rest). Qed.

(** ** varint (u64 / usize / u32-by-value) *)
Lemma dec_varint_small b r : b <=? 250 = true -> dec_varint (b :: r) = Some (b, r).
Proof. intros H. cbn [dec_varint]. rewrite H. reflexivity. Qed.
Lemma dec_varint_251 r : dec_varint (251 :: r) = do (x, r') <- take 2 r; Some (of_le_bytes x, r').
Proof. reflexivity. Qed.
Lemma dec_varint_252 r : dec_varint (252 :: r) = do (x, r') <- take 4 r; Some (of_le_bytes x, r').
Proof. reflexivity. Qed.
Lemma dec_varint_253 r : dec_varint (253 :: r) = do (x, r') <- take 8 r; Some (of_le_bytes x, r').
Proof. reflexivity. Qed.
Lemma dec_varint32_small b r : b <=? 250 = true -> dec_varint32 (b :: r) = Some (b, r).
Proof. intros H. cbn [dec_varint32]. rewrite H. reflexivity. Qed.
Lemma dec_varint32_251 r : dec_varint32 (251 :: r) = do (x, r') <- take 2 r; Some (of_le_bytes x, r').
Proof. reflexivity. Qed.
Lemma dec_varint32_252 r : dec_varint32 (252 :: r) = do (x, r') <- take 4 r; Some (of_le_bytes x, r').
Proof. reflexivity. Qed.

Lemma varint_roundtrip_l : forall u rest, in_u64 u -> dec_varint (enc_varint u ++ rest) = Some (u, rest).
Proof.
  intros u rest Hu. unfold enc_varint.
  destruct (u <=? 250) eqn:E1; [cbn [app]; apply dec_varint_small; exact E1|].
  destruct (u <=? 65535) eqn:E2.
  { cbn [app]. rewrite dec_varint_251, take_le2. cbn [obind].
    rewrite of_le_bytes_2 by lia. reflexivity. }
  destruct (u <=? 4294967295) eqn:E3.
  { cbn [app]. rewrite dec_varint_252, take_le4. cbn [obind].
    rewrite of_le_bytes_4 by (change (2 ^ 32) with 4294967296; lia). reflexivity. }
  cbn [app]. rewrite dec_varint_253, take_le8. cbn [obind].
  rewrite of_le_bytes_8 by exact Hu. reflexivity.
Qed.

Lemma varint32_roundtrip_l : forall u rest, 0 <= u < 2 ^ 32 -> dec_varint32 (enc_varint u ++ rest) = Some (u, rest).
Proof.
  intros u rest Hu. change (2 ^ 32) with 4294967296 in Hu. unfold enc_varint.
  destruct (u <=? 250) eqn:E1; [cbn [app]; apply dec_varint32_small; exact E1|].
  destruct (u <=? 65535) eqn:E2.
  { cbn [app]. rewrite dec_varint32_251, take_le2. cbn [obind].
    rewrite of_le_bytes_2 by lia. reflexivity. }
  destruct (u <=? 4294967295) eqn:E3; [|lia].
  cbn [app]. rewrite dec_varint32_252, take_le4. cbn [obind].
  rewrite of_le_bytes_4 by (change (2 ^ 32) with 4294967296; lia). reflexivity.
Qed.

Lemma enc_varint_nonempty u : (1 <= length (enc_varint u))%nat.
Proof.
  unfold enc_varint.
  destruct (u <=? 250); [cbn [length]; lia|].
  destruct (u <=? 65535); [cbn [length]; lia|].
  destruct (u <=? 4294967295); cbn [length]; lia.
Qed.

(** ** zig-zag and i64 *)
Lemma zigzag_roundtrip_l : forall i, in_i64 i -> zz_dec (zz_enc i) = i /\ in_u64 (zz_enc i).
Proof.
  intros i Hi. unfold zz_enc, zz_dec, in_i64, in_u64 in *. rewrite two63_val in Hi. rewrite two64_val.
  destruct (i <? 0) eqn:E.
  - replace ((- i - 1) * 2 + 1) with (1 + 2 * (- i - 1)) by lia.
    rewrite Z.even_add_mul_2. change (Z.even 1) with false. cbv iota.
    split; [Z.div_mod_to_equations; lia | lia].
  - replace (i * 2) with (0 + 2 * i) by lia.
    rewrite Z.even_add_mul_2. change (Z.even 0) with true. cbv iota.
    split; [Z.div_mod_to_equations; lia | lia].
Qed.

Lemma i64_roundtrip_l : forall i rest, in_i64 i -> dec_i64 (enc_i64 i ++ rest) = Some (i, rest).
Proof.
  intros i rest Hi. destruct (zigzag_roundtrip_l i Hi) as [Hd Hu].
  unfold enc_i64, dec_i64. rewrite (varint_roundtrip_l _ rest Hu). cbn [obind].
  rewrite Hd. reflexivity.
Qed.

(** ** bool, f64, f32 *)
Lemma bool_roundtrip_l : forall b rest, dec_bool (enc_bool b ++ rest) = Some (b, rest).
Proof. intros [|] rest; reflexivity. Qed.

Lemma f64_roundtrip_l : forall f rest, in_u64 f -> dec_f64 (enc_f64 f ++ rest) = Some (f, rest).
Proof.
  intros f rest Hf. unfold dec_f64, enc_f64. rewrite take_le8. cbn [obind].
  rewrite of_le_bytes_8 by exact Hf. reflexivity.
Qed.

Lemma f32_roundtrip_l : forall f rest, 0 <= f < 2 ^ 32 -> dec_f32 (enc_f32 f ++ rest) = Some (f, rest).
Proof.
  intros f rest Hf. unfold dec_f32, enc_f32. rewrite take_le4. cbn [obind].
  rewrite of_le_bytes_4 by exact Hf. reflexivity.
Qed.

(** ** byte strings and strings *)
Lemma zlen_in_u64 {A} (l : list A) : zlen l < two64 -> in_u64 (zlen l).
Proof. intros H. unfold in_u64. pose proof (zlen_nonneg l). lia. Qed.

Lemma blob_roundtrip_l : forall s rest, zlen s < two64 -> dec_blob (enc_blob s ++ rest) = Some (s, rest).
Proof.
  intros s rest Hs. unfold dec_blob, enc_blob, dec_usize, enc_usize.
  rewrite <- app_assoc, varint_roundtrip_l by (apply zlen_in_u64; exact Hs).
  cbn [obind]. apply take_app.
Qed.

Lemma str_roundtrip_l : forall s rest, utf8_valid s = true -> zlen s < two64 -> dec_str (enc_str s ++ rest) = Some (s, rest).
Proof.
  intros s rest Hu Hs. unfold dec_str, enc_str. rewrite blob_roundtrip_l by exact Hs.
  cbn [obind]. rewrite Hu. reflexivity.
Qed.

(** ** sequences: [dec_many] reads back [flat_map e l] when [d] inverts [e] on every element
       of [l] (for every continuation) and the fuel covers the element count *)
Lemma dec_many_roundtrip_l :
  forall (A : Type) (e : A -> bytes) (d : bytes -> option (A * bytes)) (l : list A) (fuel : nat) (rest : bytes),
    Forall (fun x => forall r, d (e x ++ r) = Some (x, r)) l ->
    (length l <= fuel)%nat ->
    dec_many d fuel (zlen l) (flat_map e l ++ rest) = Some (l, rest).
Proof.
  intros A e d l. induction l as [|a l IH]; intros fuel rest HF Hlen.
  - destruct fuel; reflexivity.
  - destruct fuel as [|k]; [cbn [length] in Hlen; lia|].
    inversion HF as [|a' l' Ha HF']; subst a' l'.
    cbn [dec_many flat_map].
    replace (zlen (a :: l) <=? 0) with false by (rewrite zlen_cons; pose proof (zlen_nonneg l); lia).
    rewrite <- app_assoc, Ha. cbn [obind].
    replace (zlen (a :: l) - 1) with (zlen l) by (rewrite zlen_cons; lia).
    rewrite IH; [reflexivity | exact HF' | cbn [length] in Hlen; lia].
Qed.

(** [dec_seq] = length prefix, then [dec_many] *)
Lemma seq_roundtrip_l :
  forall (A : Type) (e : A -> bytes) (d : bytes -> option (A * bytes)) (l : list A) (fuel : nat) (rest : bytes),
    Forall (fun x => forall r, d (e x ++ r) = Some (x, r)) l ->
    (length l <= fuel)%nat -> zlen l < two64 ->
    dec_seq d fuel (enc_seq e l ++ rest) = Some (l, rest).
Proof.
  intros A e d l fuel rest HF Hlen Hl. unfold dec_seq, enc_seq, dec_usize, enc_usize.
  rewrite <- app_assoc, varint_roundtrip_l by (apply zlen_in_u64; exact Hl).
  cbn [obind]. apply dec_many_roundtrip_l; assumption.
Qed.

(** ** BTreeMap: inserting strictly ascending keys one by one rebuilds the entry list *)
Lemma keys_sorted_cons2 {A} k (v : A) k' v' m :
  keys_sorted ((k, v) :: (k', v') :: m)
  = match bytes_cmp k k' with Lt => keys_sorted ((k', v') :: m) | _ => false end.
Proof. reflexivity. Qed.

Lemma keys_sorted_cons_inv {A} (m : list (bytes * A)) : forall k v,
  keys_sorted ((k, v) :: m) = true ->
  keys_sorted m = true /\ Forall (fun kv => bytes_cmp k (fst kv) = Lt) m.
Proof.
  induction m as [|[k' v'] m IH]; intros k v H.
  - split; [reflexivity | constructor].
  - rewrite keys_sorted_cons2 in H. destruct (bytes_cmp k k') eqn:E; try discriminate H.
    split; [exact H|].
    destruct (IH k' v' H) as [_ HF].
    constructor; [exact E|].
    eapply Forall_impl; [|exact HF]. intros kv Hkv. cbn beta in Hkv |- *.
    eapply bytes_cmp_lt_trans; eassumption.
Qed.

Lemma keys_sorted_app_l {A} (a b : list (bytes * A)) : keys_sorted (a ++ b) = true -> keys_sorted a = true.
Proof.
  induction a as [|[k v] a IH]; intros H; [reflexivity|].
  destruct a as [|[k' v'] a']; [reflexivity|].
  cbn [app] in H. rewrite keys_sorted_cons2 in H |- *.
  destruct (bytes_cmp k k'); try discriminate H. apply IH. exact H.
Qed.

Lemma minsert_last {A} (acc : list (bytes * A)) k v :
  keys_sorted (acc ++ [(k, v)]) = true -> minsert k v acc = acc ++ [(k, v)].
Proof.
  induction acc as [|[k' v'] r IH]; intros H; [reflexivity|].
  cbn [app] in H. destruct (keys_sorted_cons_inv _ _ _ H) as [Hs HF].
  assert (Hlt : bytes_cmp k' k = Lt).
  { rewrite Forall_forall in HF. apply (HF (k, v)). apply in_or_app. right. left. reflexivity. }
  cbn [minsert app]. rewrite (bytes_cmp_antisym k' k), Hlt. cbn [CompOpp].
  rewrite (IH Hs). reflexivity.
Qed.

Lemma fold_minsert_sorted {A} (l : list (bytes * A)) : forall acc,
  keys_sorted (acc ++ l) = true ->
  fold_left (fun m kv => minsert (fst kv) (snd kv) m) l acc = acc ++ l.
Proof.
  induction l as [|[k v] l IH]; intros acc H.
  - cbn [fold_left]. rewrite app_nil_r. reflexivity.
  - change ((k, v) :: l) with ([(k, v)] ++ l) in H. rewrite app_assoc in H.
    cbn [fold_left fst snd]. rewrite minsert_last by (apply keys_sorted_app_l in H; exact H).
    rewrite (IH _ H), <- app_assoc. reflexivity.
Qed.

Lemma mof_list_sorted_l : forall (A : Type) (m : list (bytes * A)), keys_sorted m = true -> mof_list m = m.
Proof.
  intros A m H. unfold mof_list. rewrite fold_minsert_sorted; [reflexivity | exact H].
Qed.

(** ** sums over lists (fuel bookkeeping) *)
Lemma sum_ge_in {A} (f : A -> nat) l x :
  In x l -> (f x <= fold_right (fun y acc => f y + acc) 0 l)%nat.
Proof.
  induction l as [|a l IH]; intros Hin; [destruct Hin|].
  cbn [fold_right]. destruct Hin as [->|Hin]; [lia|]. specialize (IH Hin). lia.
Qed.
Lemma sum_ge_len {A} (f : A -> nat) l :
  (forall x, 1 <= f x)%nat -> (length l <= fold_right (fun y acc => f y + acc) 0 l)%nat.
Proof.
  intros Hf. induction l as [|a l IH]; cbn [fold_right length]; [lia|]. specialize (Hf a). lia.
Qed.
Lemma sum_le_flat_map {A} (f : A -> nat) (e : A -> bytes) l :
  Forall (fun x => f x <= length (e x))%nat l ->
  (fold_right (fun y acc => f y + acc) 0 l <= length (flat_map e l))%nat.
Proof.
  intros HF. induction HF as [|a l Ha _ IH]; cbn [fold_right flat_map length]; [lia|].
  rewrite app_length. lia.
Qed.
Lemma len_le_flat_map {A} (e : A -> bytes) l :
  (forall x, 1 <= length (e x))%nat -> (length l <= length (flat_map e l))%nat.
Proof.
  intros He. induction l as [|a l IH]; cbn [flat_map length]; [lia|].
  rewrite app_length. specialize (He a). lia.
Qed.

Lemma vsize_pos v : (1 <= vsize v)%nat.
Proof. destruct v; cbn [vsize]; lia. Qed.

(** * Part 2: [Value] *)

Lemma dec_value_fuel_S k bs :
  dec_value_fuel (S k) bs =
  do (tag, r) <- dec_u32 bs;
  if tag =? 0 then Some (VNull, r)
  else if tag =? 1 then do (b, r') <- dec_bool r; Some (VBool b, r')
  else if tag =? 2 then do (i, r') <- dec_i64 r; Some (VInt i, r')
  else if tag =? 3 then do (f, r') <- dec_f64 r; Some (VFloat f, r')
  else if tag =? 4 then do (s, r') <- dec_str r; Some (VStr s, r')
  else if tag =? 5 then do (b, r') <- dec_blob r; Some (VBytes b, r')
  else if tag =? 6 then do (t, r') <- dec_i64 r; Some (VTs t, r')
  else if tag =? 7 then do (l, r') <- dec_seq (dec_value_fuel k) k r; Some (VList l, r')
  else if tag =? 8 then do (l, r') <- dec_seq (dec_entry (dec_value_fuel k)) k r; Some (VMap (mof_list l), r')
  else if tag =? 9 then do (x, r') <- dec_seq dec_f32 k r; Some (VVec x, r')
  else None.
Proof. reflexivity. Qed.

(** reading the variant index back *)
Lemma dec_tag t body : 0 <= t <= 9 -> dec_u32 (enc_u32 t ++ body) = Some (t, body).
Proof.
  intros Ht. unfold dec_u32, enc_u32. apply varint32_roundtrip_l.
  change (2 ^ 32) with 4294967296. lia.
Qed.

Ltac open_tag :=
  rewrite dec_value_fuel_S; cbn [enc_value vtag]; rewrite <- app_assoc;
  rewrite dec_tag by lia; cbn [obind]; cbn [Z.eqb Pos.eqb].

Lemma wf_len_ok {A} (l : list A) : len_ok l = true -> zlen l < two64.
Proof. unfold len_ok. intros H. apply Z.ltb_lt. exact H. Qed.

Lemma bincode_roundtrip_fuel_l : forall v fuel rest, wf v -> (vsize v <= fuel)%nat ->
  dec_value_fuel fuel (enc_value v ++ rest) = Some (v, rest).
Proof.
  intros v.
  induction v as [|b|i|f|s|b|t|l IHl|m IHm|x] using value_ind'; intros fuel rest Hwf Hsz;
    (destruct fuel as [|k]; [pose proof (vsize_pos VNull); cbn [vsize] in *; lia|]);
    unfold wf in Hwf; cbn [wfb] in Hwf.
  - (* Null *) open_tag. reflexivity.
  - (* Bool *) open_tag. rewrite bool_roundtrip_l. reflexivity.
  - (* Int *) open_tag. apply in_i64b_spec in Hwf. rewrite i64_roundtrip_l by exact Hwf. reflexivity.
  - (* Float *) open_tag. apply in_u64b_spec in Hwf. rewrite f64_roundtrip_l by exact Hwf. reflexivity.
  - (* Str *) open_tag. apply andb_prop in Hwf. destruct Hwf as [Hu Hl]. apply wf_len_ok in Hl.
    rewrite str_roundtrip_l by assumption. reflexivity.
  - (* Bytes *) open_tag. apply andb_prop in Hwf. destruct Hwf as [_ Hl]. apply wf_len_ok in Hl.
    rewrite blob_roundtrip_l by assumption. reflexivity.
  - (* Timestamp *) open_tag. apply in_i64b_spec in Hwf. rewrite i64_roundtrip_l by exact Hwf. reflexivity.
  - (* List *) open_tag. apply andb_prop in Hwf. destruct Hwf as [Hall Hl]. apply wf_len_ok in Hl.
    cbn [vsize] in Hsz.
    change (enc_usize (zlen l) ++ flat_map enc_value l) with (enc_seq enc_value l).
    rewrite (seq_roundtrip_l value enc_value (dec_value_fuel k) l k rest); [reflexivity| |  |exact Hl].
    + rewrite forallb_forall in Hall. rewrite Forall_forall in IHl |- *.
      intros y Hy r. apply (IHl y Hy); [apply Hall; exact Hy|].
      pose proof (sum_ge_in vsize l y Hy) as Hle. cbn beta in Hle. lia.
    + pose proof (sum_ge_len vsize l vsize_pos) as Hle. cbn beta in Hle. lia.
  - (* Map *) open_tag. apply andb_prop in Hwf. destruct Hwf as [Hwf Hl]. apply wf_len_ok in Hl.
    apply andb_prop in Hwf. destruct Hwf as [Hall Hsorted].
    cbn [vsize] in Hsz.
    change (enc_usize (zlen m) ++ flat_map (fun kv => enc_str (fst kv) ++ enc_value (snd kv)) m)
      with (enc_seq (fun kv : bytes * value => enc_str (fst kv) ++ enc_value (snd kv)) m).
    rewrite (seq_roundtrip_l (bytes * value) (fun kv => enc_str (fst kv) ++ enc_value (snd kv))
               (dec_entry (dec_value_fuel k)) m k rest); [| | |exact Hl].
    + cbn [obind]. rewrite mof_list_sorted_l by exact Hsorted. reflexivity.
    + rewrite forallb_forall in Hall. rewrite Forall_forall in IHm |- *.
      intros [key y] Hy r. specialize (Hall _ Hy). cbn [fst snd] in Hall |- *.
      apply andb_prop in Hall. destruct Hall as [Hall Hwy]. apply andb_prop in Hall.
      destruct Hall as [Hku Hkl]. apply wf_len_ok in Hkl.
      unfold dec_entry. rewrite <- app_assoc, str_roundtrip_l by assumption. cbn [obind].
      pose proof (IHm (key, y) Hy k r) as IHy. cbn [snd] in IHy.
      rewrite IHy; [reflexivity | exact Hwy |].
      pose proof (sum_ge_in (fun kv : bytes * value => vsize (snd kv)) m (key, y) Hy) as Hle.
      cbn beta in Hle. cbn [snd] in Hle |- *. lia.
    + pose proof (sum_ge_len (fun kv : bytes * value => vsize (snd kv)) m (fun kv => vsize_pos (snd kv))) as Hle.
      cbn beta in Hle. lia.
  - (* Vector *) open_tag. apply andb_prop in Hwf. destruct Hwf as [Hall Hl]. apply wf_len_ok in Hl.
    cbn [vsize] in Hsz.
    change (enc_usize (zlen x) ++ flat_map enc_f32 x) with (enc_seq enc_f32 x).
    rewrite (seq_roundtrip_l Z enc_f32 dec_f32 x k rest); [reflexivity| | lia |exact Hl].
    rewrite forallb_forall in Hall. rewrite Forall_forall.
    intros y Hy r. apply f32_roundtrip_l. specialize (Hall y Hy).
    unfold in_u32b, two32 in Hall. lia.
Qed.

Lemma le_bytes_flat_len n (x : list Z) : (length x <= length (flat_map (le_bytes (S n)) x))%nat.
Proof. apply len_le_flat_map. intros y. rewrite le_bytes_length. lia. Qed.

Lemma vsize_le_enc_l : forall v, (vsize v <= length (enc_value v))%nat.
Proof.
  intros v.
  induction v as [|b|i|f|s|b|t|l IHl|m IHm|x] using value_ind';
    cbn [enc_value vtag vsize]; unfold enc_u32, enc_usize, enc_str, enc_blob; rewrite ?app_length;
    match goal with |- context [length (enc_varint ?u)] => pose proof (enc_varint_nonempty u) as Htag end;
    try lia.
  - pose proof (sum_le_flat_map vsize enc_value l IHl) as Hle. cbn beta in Hle. lia.
  - pose proof (sum_le_flat_map (fun kv : bytes * value => vsize (snd kv))
                  (fun kv => (enc_usize (zlen (fst kv)) ++ fst kv) ++ enc_value (snd kv)) m) as Hle.
    cbn beta in Hle. unfold enc_usize in *.
    assert (HF : Forall (fun kv : bytes * value =>
                (vsize (snd kv) <= length ((enc_varint (zlen (fst kv)) ++ fst kv) ++ enc_value (snd kv)))%nat) m).
    { eapply Forall_impl; [|exact IHm]. intros kv Hkv. cbn beta in Hkv |- *.
      rewrite !app_length. lia. }
    specialize (Hle HF). lia.
  - assert (Hle : (length x <= length (flat_map enc_f32 x))%nat).
    { apply len_le_flat_map. intros y. unfold enc_f32. rewrite le_bytes_length. lia. }
    lia.
Qed.

Lemma bincode_roundtrip_l : forall v rest, wf v -> dec_value (enc_value v ++ rest) = Some (v, rest).
Proof.
  intros v rest Hwf. unfold dec_value. apply bincode_roundtrip_fuel_l; [exact Hwf|].
  pose proof (vsize_le_enc_l v) as Hle. rewrite app_length. lia.
Qed.

Lemma decode_from_slice_roundtrip_l : forall v, wf v -> decode_from_slice (enc_value v) = Some (v, zlen (enc_value v)).
Proof.
  intros v Hwf. unfold decode_from_slice.
  pose proof (bincode_roundtrip_l v [] Hwf) as H. rewrite app_nil_r in H. rewrite H.
  cbn [obind]. rewrite zlen_nil, Z.sub_0_r. reflexivity.
Qed.

Lemma bincode_injective_l : forall a b r1 r2, wf a -> wf b ->
  enc_value a ++ r1 = enc_value b ++ r2 -> a = b /\ r1 = r2.
Proof.
  intros a b r1 r2 Ha Hb Heq.
  pose proof (bincode_roundtrip_l a r1 Ha) as H1.
  pose proof (bincode_roundtrip_l b r2 Hb) as H2.
  rewrite Heq, H2 in H1. injection H1 as -> ->. split; reflexivity.
Qed.
