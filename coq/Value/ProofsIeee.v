(** C16 — facts about the bit-pattern model of binary64 (Value/Ieee.v): the conversion
    [i64 as f64] ([f64_of_i64], round to nearest, ties to even) never yields NaN, stays in the
    u64 range, is monotone w.r.t. the order key, and is injective on [-2^53, 2^53]. *)
From GV Require Import Base.BitsFacts Value.Ieee.
From Coq Require Import ZArith Lia Bool.
Open Scope Z_scope.

Lemma two52_val : two52 = 4503599627370496. Proof. reflexivity. Qed.
Lemma two53_val : two53 = 9007199254740992. Proof. reflexivity. Qed.
Lemma f64_inf_mag_val : f64_inf_mag = 9218868437227405312. Proof. reflexivity. Qed.

Lemma pow2_pos n : 0 <= n -> 0 < 2 ^ n.
Proof. intros Hn. apply Z.pow_pos_nonneg; lia. Qed.

(** ** the rounding step, abstracted from the powers of two *)
Definition rne (p h m : Z) : Z :=
  if (h <? m mod p) || ((m mod p =? h) && Z.odd (m / p)) then m / p + 1 else m / p.

Lemma rne_mono p h m m' : 0 < p -> m <= m' -> rne p h m <= rne p h m'.
Proof.
  intros Hp Hm. unfold rne.
  pose proof (Z.div_mod m p ltac:(lia)) as E1.
  pose proof (Z.div_mod m' p ltac:(lia)) as E2.
  pose proof (Z.mod_pos_bound m p Hp) as B1.
  pose proof (Z.mod_pos_bound m' p Hp) as B2.
  set (q := m / p) in *. set (r := m mod p) in *.
  set (q' := m' / p) in *. set (r' := m' mod p) in *.
  clearbody q r q' r'.
  assert (Hq : q <= q') by nia.
  destruct (Z.eq_dec q q') as [Eq|Nq].
  - subst q'. assert (Hr : r <= r') by lia.
    destruct (Z.ltb_spec h r) as [L1|L1], (Z.eqb_spec r h) as [Q1|Q1],
             (Z.ltb_spec h r') as [L2|L2], (Z.eqb_spec r' h) as [Q2|Q2];
      destruct (Z.odd q); cbn [orb andb]; lia.
  - assert (Hlt : q + 1 <= q') by lia.
    match goal with |- (if ?b then _ else _) <= (if ?c then _ else _) => destruct b, c; lia end.
Qed.

Lemma rne_bounds p h m lo hi : 0 < p -> p * lo <= m -> m < p * hi -> lo <= rne p h m <= hi.
Proof.
  intros Hp Hlo Hhi. unfold rne.
  pose proof (Z.div_mod m p ltac:(lia)) as E1.
  pose proof (Z.mod_pos_bound m p Hp) as B1.
  set (q := m / p) in *. set (r := m mod p) in *. clearbody q r.
  assert (Hq1 : lo <= q) by nia.
  assert (Hq2 : q < hi) by nia.
  match goal with |- _ <= (if ?b then _ else _) <= _ => destruct b; lia end.
Qed.

(** ** the two branches of [f64_of_nat_mag] *)
Lemma nat_mag_small m : Z.log2 m <= 52 ->
  f64_of_nat_mag m = (Z.log2 m + 1023) * two52 + (m * 2 ^ (52 - Z.log2 m) - two52).
Proof.
  intros He. unfold f64_of_nat_mag. cbv zeta.
  destruct (Z.leb_spec (Z.log2 m) 52) as [L|L]; [reflexivity|lia].
Qed.

Lemma nat_mag_big m : 52 < Z.log2 m ->
  f64_of_nat_mag m
  = (Z.log2 m + 1023) * two52 + (rne (2 ^ (Z.log2 m - 52)) (2 ^ (Z.log2 m - 52 - 1)) m - two52).
Proof.
  intros He. unfold f64_of_nat_mag, rne. cbv zeta.
  destruct (Z.leb_spec (Z.log2 m) 52) as [L|L]; [lia|reflexivity].
Qed.

(** significand of the exact branch: 2^52 <= m * 2^(52-e) < 2^53 *)
Lemma small_sig_bounds m : 0 < m -> Z.log2 m <= 52 ->
  two52 <= m * 2 ^ (52 - Z.log2 m) < 2 * two52.
Proof.
  intros Hm He.
  pose proof (Z.log2_spec m Hm) as [S1 S2].
  pose proof (Z.log2_nonneg m) as Hn.
  rewrite Z.pow_succ_r in S2 by exact Hn.
  assert (Hk : 2 ^ Z.log2 m * 2 ^ (52 - Z.log2 m) = two52).
  { rewrite <- Z.pow_add_r by lia. unfold two52. f_equal. lia. }
  pose proof (pow2_pos (52 - Z.log2 m) ltac:(lia)) as Kp.
  set (A := 2 ^ Z.log2 m) in *. set (k := 2 ^ (52 - Z.log2 m)) in *. clearbody A k.
  split; nia.
Qed.

Lemma big_sig_bounds m : 0 < m -> 52 < Z.log2 m ->
  two52 <= rne (2 ^ (Z.log2 m - 52)) (2 ^ (Z.log2 m - 52 - 1)) m <= 2 * two52.
Proof.
  intros Hm He.
  pose proof (Z.log2_spec m Hm) as [S1 S2].
  pose proof (Z.log2_nonneg m) as Hn.
  rewrite Z.pow_succ_r in S2 by exact Hn.
  assert (Hk : 2 ^ Z.log2 m = 2 ^ (Z.log2 m - 52) * two52).
  { unfold two52. rewrite <- Z.pow_add_r by lia. f_equal. lia. }
  pose proof (pow2_pos (Z.log2 m - 52) ltac:(lia)) as Pp.
  apply rne_bounds; [exact Pp|lia|lia].
Qed.

Lemma nat_mag_bounds m : 0 < m ->
  (Z.log2 m + 1023) * two52 <= f64_of_nat_mag m <= (Z.log2 m + 1024) * two52.
Proof.
  intros Hm. destruct (Z_le_gt_dec (Z.log2 m) 52) as [L|G].
  - rewrite (nat_mag_small m L). pose proof (small_sig_bounds m Hm L) as B.
    rewrite two52_val in *. lia.
  - rewrite (nat_mag_big m ltac:(lia)). pose proof (big_sig_bounds m Hm ltac:(lia)) as B.
    rewrite two52_val in *. lia.
Qed.

Lemma nat_mag_small_lt m : 0 < m -> Z.log2 m <= 52 ->
  f64_of_nat_mag m < (Z.log2 m + 1024) * two52.
Proof.
  intros Hm L. rewrite (nat_mag_small m L). pose proof (small_sig_bounds m Hm L) as B.
  rewrite two52_val in *. lia.
Qed.

(** ** monotonicity of round-to-nearest-even on magnitudes *)
Lemma nat_mag_mono m m' : 0 < m -> m <= m' -> f64_of_nat_mag m <= f64_of_nat_mag m'.
Proof.
  intros Hm Hle.
  pose proof (Z.log2_le_mono m m' Hle) as He.
  destruct (Z.eq_dec (Z.log2 m) (Z.log2 m')) as [Eq|Nq].
  - destruct (Z_le_gt_dec (Z.log2 m) 52) as [L|G].
    + rewrite (nat_mag_small m L), (nat_mag_small m' ltac:(lia)). rewrite <- Eq.
      pose proof (pow2_pos (52 - Z.log2 m) ltac:(pose proof (Z.log2_nonneg m); lia)) as Kp.
      set (k := 2 ^ (52 - Z.log2 m)) in *. clearbody k. nia.
    + rewrite (nat_mag_big m ltac:(lia)), (nat_mag_big m' ltac:(lia)). rewrite <- Eq.
      pose proof (rne_mono (2 ^ (Z.log2 m - 52)) (2 ^ (Z.log2 m - 52 - 1)) m m'
                    (pow2_pos (Z.log2 m - 52) ltac:(lia)) Hle) as R.
      lia.
  - pose proof (nat_mag_bounds m Hm) as B1.
    pose proof (nat_mag_bounds m' ltac:(lia)) as B2.
    rewrite two52_val in *. lia.
Qed.

(** strict below 2^53 (the conversion is exact there) *)
Lemma nat_mag_smono_small m m' : 0 < m -> m < m' -> m' <= two53 ->
  f64_of_nat_mag m < f64_of_nat_mag m'.
Proof.
  intros Hm Hlt Hb.
  pose proof (Z.log2_le_mono m m' ltac:(lia)) as He.
  assert (L : Z.log2 m <= 52).
  { assert (H : Z.log2 m < 53); [|lia]. apply Z.log2_lt_pow2; [exact Hm|]. fold two53. lia. }
  destruct (Z.eq_dec (Z.log2 m) (Z.log2 m')) as [Eq|Nq].
  - rewrite (nat_mag_small m L), (nat_mag_small m' ltac:(lia)). rewrite <- Eq.
    pose proof (pow2_pos (52 - Z.log2 m) ltac:(pose proof (Z.log2_nonneg m); lia)) as Kp.
    set (k := 2 ^ (52 - Z.log2 m)) in *. clearbody k. nia.
  - pose proof (nat_mag_small_lt m Hm L) as B1.
    pose proof (nat_mag_bounds m' ltac:(lia)) as B2.
    rewrite two52_val in *. lia.
Qed.

Lemma nat_mag_range m : 0 < m -> m <= two63 ->
  1023 * two52 <= f64_of_nat_mag m <= 1087 * two52.
Proof.
  intros Hm Hb.
  pose proof (nat_mag_bounds m Hm) as B.
  pose proof (Z.log2_nonneg m) as Hn.
  assert (L : Z.log2 m <= 63).
  { pose proof (Z.log2_le_mono m two63 Hb) as H. unfold two63 in H.
    rewrite Z.log2_pow2 in H by lia. exact H. }
  rewrite two52_val in *. lia.
Qed.

(** ** fields of a pattern given as sign + magnitude *)
Lemma f64_mag_pos g : 0 <= g < two63 -> f64_mag g = g.
Proof. intros Hg. unfold f64_mag. apply Z.mod_small. exact Hg. Qed.
Lemma f64_mag_neg g : 0 <= g < two63 -> f64_mag (two63 + g) = g.
Proof.
  intros Hg. unfold f64_mag. rewrite two63_val in *. Z.div_mod_to_equations; lia.
Qed.
Lemma f64_key_pos g : 0 <= g < two63 -> f64_key g = g.
Proof.
  intros Hg. unfold f64_key, f64_sign. rewrite (f64_mag_pos g Hg).
  rewrite Z.div_small by exact Hg. reflexivity.
Qed.
Lemma f64_key_neg g : 0 <= g < two63 -> f64_key (two63 + g) = - g.
Proof.
  intros Hg. unfold f64_key, f64_sign. rewrite (f64_mag_neg g Hg).
  assert (E : (two63 + g) / two63 = 1).
  { rewrite two63_val in *. Z.div_mod_to_equations; lia. }
  rewrite E. reflexivity.
Qed.

Lemma nat_mag_lt_two63 m : 0 < m -> m <= two63 -> 0 < f64_of_nat_mag m < two63.
Proof.
  intros Hm Hb. pose proof (nat_mag_range m Hm Hb) as R.
  rewrite two52_val, ?two63_val in *. lia.
Qed.

(** the order key of a converted integer *)
Lemma f64_key_of_i64 i : in_i64 i ->
  f64_key (f64_of_i64 i)
  = if i =? 0 then 0 else if i <? 0 then - f64_of_nat_mag (- i) else f64_of_nat_mag i.
Proof.
  intros Hi. unfold f64_of_i64, in_i64 in *.
  destruct (Z.eqb_spec i 0) as [Z0|NZ]; [reflexivity|].
  destruct (Z.ltb_spec i 0) as [N|P].
  - apply f64_key_neg. pose proof (nat_mag_lt_two63 (- i) ltac:(lia) ltac:(lia)). lia.
  - apply f64_key_pos. pose proof (nat_mag_lt_two63 i ltac:(lia) ltac:(lia)). lia.
Qed.

Lemma f64_mag_of_i64 i : in_i64 i ->
  f64_mag (f64_of_i64 i) = if i =? 0 then 0 else f64_of_nat_mag (Z.abs i).
Proof.
  intros Hi. unfold f64_of_i64, in_i64 in *.
  destruct (Z.eqb_spec i 0) as [Z0|NZ]; [reflexivity|].
  destruct (Z.ltb_spec i 0) as [N|P].
  - rewrite Z.abs_neq by lia.
    apply f64_mag_neg. pose proof (nat_mag_lt_two63 (- i) ltac:(lia) ltac:(lia)). lia.
  - rewrite Z.abs_eq by lia.
    apply f64_mag_pos. pose proof (nat_mag_lt_two63 i ltac:(lia) ltac:(lia)). lia.
Qed.

(** ** the lemmas used by Value/ProofsOrd.v *)
Lemma f64_of_i64_not_nan : forall i, in_i64 i -> f64_is_nan (f64_of_i64 i) = false.
Proof.
  intros i Hi. unfold f64_is_nan. rewrite (f64_mag_of_i64 i Hi).
  apply Z.ltb_ge. rewrite f64_inf_mag_val.
  destruct (Z.eqb_spec i 0) as [Z0|NZ]; [lia|].
  unfold in_i64 in Hi.
  pose proof (nat_mag_range (Z.abs i) ltac:(lia) ltac:(lia)) as R.
  rewrite two52_val in R. lia.
Qed.

Lemma f64_of_i64_range : forall i, in_i64 i -> in_u64 (f64_of_i64 i).
Proof.
  intros i Hi. unfold f64_of_i64, in_i64, in_u64 in *.
  destruct (Z.eqb_spec i 0) as [Z0|NZ]; [rewrite two64_val; lia|].
  destruct (Z.ltb_spec i 0) as [N|P].
  - pose proof (nat_mag_lt_two63 (- i) ltac:(lia) ltac:(lia)) as R.
    rewrite two63_val, two64_val in *. lia.
  - pose proof (nat_mag_lt_two63 i ltac:(lia) ltac:(lia)) as R.
    rewrite two63_val, two64_val in *. lia.
Qed.

Lemma f64_of_i64_mono : forall i j, in_i64 i -> in_i64 j -> i <= j ->
  f64_key (f64_of_i64 i) <= f64_key (f64_of_i64 j).
Proof.
  intros i j Hi Hj Hle.
  rewrite (f64_key_of_i64 i Hi), (f64_key_of_i64 j Hj).
  unfold in_i64 in *.
  destruct (Z.eqb_spec i 0) as [Zi|NZi]; destruct (Z.eqb_spec j 0) as [Zj|NZj];
    destruct (Z.ltb_spec i 0) as [Ni|Pi]; destruct (Z.ltb_spec j 0) as [Nj|Pj]; try lia.
  - pose proof (nat_mag_lt_two63 j ltac:(lia) ltac:(lia)). lia.
  - pose proof (nat_mag_lt_two63 (- i) ltac:(lia) ltac:(lia)). lia.
  - pose proof (nat_mag_mono (- j) (- i) ltac:(lia) ltac:(lia)). lia.
  - pose proof (nat_mag_lt_two63 (- i) ltac:(lia) ltac:(lia)).
    pose proof (nat_mag_lt_two63 j ltac:(lia) ltac:(lia)). lia.
  - pose proof (nat_mag_mono i j ltac:(lia) ltac:(lia)). lia.
Qed.

(** strict monotonicity (exactness) on [-2^53, 2^53] *)
Lemma f64_of_i64_smono_small : forall i j, - two53 <= i -> j <= two53 -> i < j ->
  f64_key (f64_of_i64 i) < f64_key (f64_of_i64 j).
Proof.
  intros i j Hi Hj Hlt.
  assert (Ii : in_i64 i) by (unfold in_i64; rewrite two53_val, two63_val in *; lia).
  assert (Ij : in_i64 j) by (unfold in_i64; rewrite two53_val, two63_val in *; lia).
  rewrite (f64_key_of_i64 i Ii), (f64_key_of_i64 j Ij).
  unfold in_i64 in *.
  destruct (Z.eqb_spec i 0) as [Zi|NZi]; destruct (Z.eqb_spec j 0) as [Zj|NZj];
    destruct (Z.ltb_spec i 0) as [Ni|Pi]; destruct (Z.ltb_spec j 0) as [Nj|Pj]; try lia.
  - pose proof (nat_mag_lt_two63 j ltac:(lia) ltac:(lia)). lia.
  - pose proof (nat_mag_lt_two63 (- i) ltac:(lia) ltac:(lia)). lia.
  - pose proof (nat_mag_smono_small (- j) (- i) ltac:(lia) ltac:(lia) ltac:(lia)). lia.
  - pose proof (nat_mag_lt_two63 (- i) ltac:(lia) ltac:(lia)).
    pose proof (nat_mag_lt_two63 j ltac:(lia) ltac:(lia)). lia.
  - pose proof (nat_mag_smono_small i j ltac:(lia) ltac:(lia) ltac:(lia)). lia.
Qed.

Lemma f64_of_i64_inj_small : forall i j, - two53 <= i <= two53 -> - two53 <= j <= two53 ->
  f64_of_i64 i = f64_of_i64 j -> i = j.
Proof.
  intros i j Hi Hj E.
  destruct (Z.lt_trichotomy i j) as [L|[Q|G]]; [|exact Q|].
  - pose proof (f64_of_i64_smono_small i j ltac:(lia) ltac:(lia) L) as S. rewrite E in S. lia.
  - pose proof (f64_of_i64_smono_small j i ltac:(lia) ltac:(lia) ltac:(lia)) as S. rewrite E in S. lia.
Qed.

(** sign of the key (the first form of the exactness statement) *)
Lemma f64_of_i64_key_sign : forall i, in_i64 i ->
  (i < 0 -> f64_key (f64_of_i64 i) < 0) /\ (i = 0 -> f64_key (f64_of_i64 i) = 0)
  /\ (0 < i -> 0 < f64_key (f64_of_i64 i)).
Proof.
  intros i Hi. rewrite (f64_key_of_i64 i Hi). unfold in_i64 in Hi.
  destruct (Z.eqb_spec i 0) as [Zi|NZi]; destruct (Z.ltb_spec i 0) as [Ni|Pi]; try lia.
  - pose proof (nat_mag_lt_two63 (- i) ltac:(lia) ltac:(lia)). lia.
  - pose proof (nat_mag_lt_two63 i ltac:(lia) ltac:(lia)). lia.
Qed.
