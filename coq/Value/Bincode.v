(** bincode 2.0.1, [config::standard()] (little endian, variable-length integers, no limit),
    through serde — the encoding the WAL ([wal/log.rs] l.193, [wal/async_log.rs] l.121:
    [bincode::serde::encode_to_vec(record, standard())]; recovery.rs:
    [bincode::serde::decode_from_slice]) and the snapshot ([database.rs] l.1711/1725) use.

    SELF-CONTAINED and meant for reuse by the WAL theories (C05–C07):

    - primitives  [enc_u8 enc_bool enc_varint enc_u32 enc_u64 enc_usize enc_i64 enc_f64
                   enc_f32 enc_str enc_seq] with decoders [dec_*] of type
                   [bytes -> option (A * bytes)] (value, unread rest; [None] = DecodeError);
    - [enc_value]/[dec_value] for [Value] as serde's derive lays it out:
        enum        -> variant index as u32 (varint), then the payload
        bool        -> one byte 0/1 (other bytes are a decode error)
        i64         -> zig-zag, then varint            u64/usize -> varint
        varint      -> b<=250: [b] | 251,u16 LE | 252,u32 LE | 253,u64 LE (254/255 error);
                       the decoder accepts non-minimal forms, as bincode does
        f64 / f32   -> 8 / 4 bytes little endian of the bit pattern (never varint)
        str         -> usize length, bytes; decoding checks UTF-8
        Arc<[u8]>   -> serde "rc": a *sequence* of u8: usize length, one raw byte each
        Arc<[T]>    -> usize length, elements
        BTreeMap    -> usize length, (key, value) pairs in key order; decoding inserts the
                       pairs one by one into a BTreeMap ([mof_list])
        newtype struct (Timestamp, PropertyKey) -> its field
    Round-trip lemmas (Value/ProofsBincode.v, all closed under the global context), for reuse:
      varint_roundtrip_l varint32_roundtrip_l zigzag_roundtrip_l i64_roundtrip_l bool_roundtrip_l
      f64_roundtrip_l f32_roundtrip_l blob_roundtrip_l str_roundtrip_l
      dec_many_roundtrip_l / seq_roundtrip_l   (any element codec [e]/[d] with d (e x ++ r) = Some (x, r))
      mof_list_sorted_l                         (BTreeMap re-insertion of a key-sorted entry list)
      bincode_roundtrip_l : wf v -> dec_value (enc_value v ++ rest) = Some (v, rest)
      bincode_roundtrip_fuel_l, decode_from_slice_roundtrip_l, bincode_injective_l (prefix-free)
    (the same statements are the pinned theorems bincode_* of Props/Props_C16.v).  To encode a
    struct/enum of the WAL: fields in declaration order, enum variants as [enc_u32 index] first;
    compose the decoders with [obind] and the lemmas above (take_app for fixed-width fields).
    Definitions only; everything runs under vm_compute. *)
From GV Require Export Value.Model.
Open Scope Z_scope.

(** ** reading a fixed number of bytes *)
Definition take (n : Z) (bs : bytes) : option (bytes * bytes) :=
  if (0 <=? n) && (n <=? zlen bs) then Some (firstn (Z.to_nat n) bs, skipn (Z.to_nat n) bs) else None.

Definition obind {A B} (o : option A) (f : A -> option B) : option B :=
  match o with Some a => f a | None => None end.
Notation "'do' p <- e ; k" := (obind e (fun p => k))
  (at level 200, p pattern, e at level 100, k at level 200, right associativity).

(** ** primitives *)
Definition enc_u8 (b : Z) : bytes := [b].
Definition dec_u8 (bs : bytes) : option (Z * bytes) :=
  match bs with b :: r => Some (b, r) | [] => None end.

Definition enc_bool (b : bool) : bytes := [b2z b].
Definition dec_bool (bs : bytes) : option (bool * bytes) :=
  match bs with
  | b :: r => if b =? 0 then Some (false, r) else if b =? 1 then Some (true, r) else None
  | [] => None
  end.

(** varint_encode_u64 (also used for usize and, by value, for u32/u16) *)
Definition enc_varint (u : Z) : bytes :=
  if u <=? 250 then [u]
  else if u <=? 65535 then 251 :: le_bytes 2 u
  else if u <=? 4294967295 then 252 :: le_bytes 4 u
  else 253 :: le_bytes 8 u.

(** varint_decode_u64 / usize: marker 254 (u128) and 255 (reserved) are errors *)
Definition dec_varint (bs : bytes) : option (Z * bytes) :=
  match bs with
  | [] => None
  | b :: r =>
      if b <=? 250 then Some (b, r)
      else if b =? 251 then do (x, r') <- take 2 r; Some (of_le_bytes x, r')
      else if b =? 252 then do (x, r') <- take 4 r; Some (of_le_bytes x, r')
      else if b =? 253 then do (x, r') <- take 8 r; Some (of_le_bytes x, r')
      else None
  end.
(** varint_decode_u32: marker 253 is an error as well *)
Definition dec_varint32 (bs : bytes) : option (Z * bytes) :=
  match bs with
  | [] => None
  | b :: r =>
      if b <=? 250 then Some (b, r)
      else if b =? 251 then do (x, r') <- take 2 r; Some (of_le_bytes x, r')
      else if b =? 252 then do (x, r') <- take 4 r; Some (of_le_bytes x, r')
      else None
  end.

Definition enc_u64 := enc_varint.
Definition dec_u64 := dec_varint.
Definition enc_usize := enc_varint.
Definition dec_usize := dec_varint.
Definition enc_u32 := enc_varint.
Definition dec_u32 := dec_varint32.

(** zig-zag of varint_encode_i64 / varint_decode_i64 *)
Definition zz_enc (i : Z) : Z := if i <? 0 then (- i - 1) * 2 + 1 else i * 2.
Definition zz_dec (n : Z) : Z := if Z.even n then n / 2 else - (n / 2) - 1.
Definition enc_i64 (i : Z) : bytes := enc_varint (zz_enc i).
Definition dec_i64 (bs : bytes) : option (Z * bytes) :=
  do (n, r) <- dec_varint bs; Some (zz_dec n, r).

Definition enc_f64 (bits : Z) : bytes := le_bytes 8 bits.
Definition dec_f64 (bs : bytes) : option (Z * bytes) :=
  do (x, r) <- take 8 bs; Some (of_le_bytes x, r).
Definition enc_f32 (bits : Z) : bytes := le_bytes 4 bits.
Definition dec_f32 (bs : bytes) : option (Z * bytes) :=
  do (x, r) <- take 4 bs; Some (of_le_bytes x, r).

(** byte strings: [enc_blob] is both serialize_str (the decoder then checks UTF-8) and a
    sequence of u8 (no check) *)
Definition enc_blob (s : bytes) : bytes := enc_usize (zlen s) ++ s.
Definition dec_blob (bs : bytes) : option (bytes * bytes) :=
  do (n, r) <- dec_usize bs; take n r.
Definition enc_str := enc_blob.
Definition dec_str (bs : bytes) : option (bytes * bytes) :=
  do (s, r) <- dec_blob bs; if utf8_valid s then Some (s, r) else None.

(** sequences: length, then the elements.  [dec_many d fuel n] reads [n] elements with [d];
    every element of every type used here occupies at least one byte, so [fuel] = number of
    available bytes is always enough ([None] also when the fuel runs out) *)
Section Seq.
  Context {A : Type}.
  Definition enc_seq (e : A -> bytes) (l : list A) : bytes := enc_usize (zlen l) ++ flat_map e l.
  Context (d : bytes -> option (A * bytes)).
  Fixpoint dec_many (fuel : nat) (n : Z) (bs : bytes) : option (list A * bytes) :=
    if n <=? 0 then Some ([], bs)
    else match fuel with
         | O => None
         | S k => do (x, r) <- d bs; do (xs, r') <- dec_many k (n - 1) r; Some (x :: xs, r')
         end.
  Definition dec_seq (fuel : nat) (bs : bytes) : option (list A * bytes) :=
    do (n, r) <- dec_usize bs; dec_many fuel n r.
End Seq.

(** ** [Value] *)
Definition enc_entry (e : value -> bytes) (kv : bytes * value) : bytes :=
  enc_str (fst kv) ++ e (snd kv).

Fixpoint enc_value (v : value) : bytes :=
  enc_u32 (vtag v) ++
  match v with
  | VNull => []
  | VBool b => enc_bool b
  | VInt i => enc_i64 i
  | VFloat f => enc_f64 f
  | VStr s => enc_str s
  | VBytes b => enc_blob b
  | VTs t => enc_i64 t
  | VList l => enc_usize (zlen l) ++ flat_map enc_value l
  | VMap m => enc_usize (zlen m) ++ flat_map (fun kv => enc_str (fst kv) ++ enc_value (snd kv)) m
  | VVec x => enc_usize (zlen x) ++ flat_map enc_f32 x
  end.

Definition dec_entry (d : bytes -> option (value * bytes)) (bs : bytes) : option ((bytes * value) * bytes) :=
  do (k, r) <- dec_str bs; do (v, r') <- d r; Some ((k, v), r').

(** [fuel] bounds the nesting depth and the element counts; [dec_value] below supplies
    [1 + number of input bytes], which is always enough (every value is at least one byte) *)
Fixpoint dec_value_fuel (fuel : nat) (bs : bytes) : option (value * bytes) :=
  match fuel with
  | O => None
  | S k =>
      do (tag, r) <- dec_u32 bs;
      if tag =? 0 then Some (VNull, r)
      else if tag =? 1 then do (b, r') <- dec_bool r; Some (VBool b, r')
      else if tag =? 2 then do (i, r') <- dec_i64 r; Some (VInt i, r')
      else if tag =? 3 then do (f, r') <- dec_f64 r; Some (VFloat f, r')
      else if tag =? 4 then do (s, r') <- dec_str r; Some (VStr s, r')
      else if tag =? 5 then do (b, r') <- dec_blob r; Some (VBytes b, r')
      else if tag =? 6 then do (t, r') <- dec_i64 r; Some (VTs t, r')
      else if tag =? 7 then do (l, r') <- dec_seq (dec_value_fuel k) k r; Some (VList l, r')
      else if tag =? 8 then do (l, r') <- dec_seq (dec_entry (dec_value_fuel k)) k r; Some (VMap (mof_list l), r')
      else if tag =? 9 then do (x, r') <- dec_seq dec_f32 k r; Some (VVec x, r')
      else None                                   (* serde: invalid variant index *)
  end.

Definition dec_value (bs : bytes) : option (value * bytes) := dec_value_fuel (S (length bs)) bs.

(** [bincode::serde::decode_from_slice]: the value and the number of bytes read *)
Definition decode_from_slice (bs : bytes) : option (value * Z) :=
  do (v, r) <- dec_value bs; Some (v, zlen bs - zlen r).
