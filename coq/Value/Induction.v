(** Structural induction principle for the nested inductive [value] (lists of values, lists of
    (key, value) entries), and basic facts about the generic helpers of Value/Model.v.
    Shared by the proof files of C16. *)
From GV Require Import Value.Laws.
From Coq Require Import Lia.
Open Scope Z_scope.

Section ValueInd.
  Variable P : value -> Prop.
  Hypothesis HNull : P VNull.
  Hypothesis HBool : forall b, P (VBool b).
  Hypothesis HInt : forall i, P (VInt i).
  Hypothesis HFloat : forall f, P (VFloat f).
  Hypothesis HStr : forall s, P (VStr s).
  Hypothesis HBytes : forall b, P (VBytes b).
  Hypothesis HTs : forall t, P (VTs t).
  Hypothesis HList : forall l, Forall P l -> P (VList l).
  Hypothesis HMap : forall m, Forall (fun kv => P (snd kv)) m -> P (VMap m).
  Hypothesis HVec : forall x, P (VVec x).

  Fixpoint value_ind' (v : value) : P v :=
    match v with
    | VNull => HNull
    | VBool b => HBool b
    | VInt i => HInt i
    | VFloat f => HFloat f
    | VStr s => HStr s
    | VBytes b => HBytes b
    | VTs t => HTs t
    | VList l =>
        HList l ((fix go (l : list value) : Forall P l :=
                    match l with
                    | [] => Forall_nil _
                    | x :: r => Forall_cons _ (value_ind' x) (go r)
                    end) l)
    | VMap m =>
        HMap m ((fix go (m : list (bytes * value)) : Forall (fun kv => P (snd kv)) m :=
                   match m with
                   | [] => Forall_nil _
                   | kv :: r => Forall_cons _ (value_ind' (snd kv)) (go r)
                   end) m)
    | VVec x => HVec x
    end.
End ValueInd.

(** ** [all2] *)
Lemma all2_length {A B} (f : A -> B -> bool) l1 l2 : all2 f l1 l2 = true -> length l1 = length l2.
Proof.
  revert l2; induction l1 as [|a r IH]; intros [|b r2]; cbn [all2]; try discriminate; auto.
  intros H. apply andb_prop in H. destruct H as [_ H]. cbn [length]. f_equal. auto.
Qed.

Lemma all2_eq_spec {A} (f : A -> A -> bool) (l1 l2 : list A) :
  Forall (fun a => forall b, f a b = true <-> a = b) l1 -> (all2 f l1 l2 = true <-> l1 = l2).
Proof.
  intros HF; revert l2; induction HF as [|a r Ha _ IH]; intros [|b r2]; cbn [all2]; split; intros H;
    try discriminate; auto.
  - apply andb_prop in H. destruct H as [H1 H2]. apply Ha in H1. apply IH in H2. congruence.
  - injection H as -> ->. apply andb_true_intro. split; [apply Ha; reflexivity|apply IH; reflexivity].
Qed.

Lemma bytes_eqb_spec (a b : bytes) : bytes_eqb a b = true <-> a = b.
Proof.
  unfold bytes_eqb. apply all2_eq_spec. apply Forall_forall. intros x _ y. apply Z.eqb_eq.
Qed.
Lemma bytes_eqb_refl (a : bytes) : bytes_eqb a a = true.
Proof. apply bytes_eqb_spec; reflexivity. Qed.

(** ** [bytes_cmp] is a strict total order on byte lists *)
Lemma bytes_cmp_eq (a b : bytes) : bytes_cmp a b = Eq <-> a = b.
Proof.
  revert b; induction a as [|x a IH]; intros [|y b]; cbn [bytes_cmp]; split; intros H; try discriminate; auto.
  - destruct (x ?= y) eqn:E; try discriminate. apply Z.compare_eq in E. apply IH in H. congruence.
  - injection H as -> ->. rewrite Z.compare_refl. apply IH; reflexivity.
Qed.
Lemma bytes_cmp_refl (a : bytes) : bytes_cmp a a = Eq.
Proof. apply bytes_cmp_eq; reflexivity. Qed.
Lemma bytes_cmp_antisym (a b : bytes) : bytes_cmp b a = CompOpp (bytes_cmp a b).
Proof.
  revert b; induction a as [|x a IH]; intros [|y b]; cbn [bytes_cmp CompOpp]; auto.
  rewrite (Z.compare_antisym x y). destruct (x ?= y); cbn [CompOpp]; auto.
Qed.
Lemma bytes_cmp_lt_trans (a b c : bytes) : bytes_cmp a b = Lt -> bytes_cmp b c = Lt -> bytes_cmp a c = Lt.
Proof.
  revert b c; induction a as [|x a IH]; intros [|y b] [|z c]; cbn [bytes_cmp]; try discriminate; auto.
  destruct (x ?= y) eqn:E1; destruct (y ?= z) eqn:E2; try discriminate; intros H1 H2.
  - apply Z.compare_eq in E1, E2. subst. rewrite Z.compare_refl. eauto.
  - apply Z.compare_eq in E1. subst. rewrite E2. reflexivity.
  - apply Z.compare_eq in E2. subst. rewrite E1. reflexivity.
  - rewrite Z.compare_lt_iff in E1, E2. assert (E : x < z) by lia. rewrite <- Z.compare_lt_iff in E. rewrite E. reflexivity.
Qed.
