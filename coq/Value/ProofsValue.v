(** C16 — HashableValue: [heq] is bit-level identity on well-formed values (hence an
    equivalence), equal values feed every hasher identically, and the feed is injective. *)
From GV Require Import Base.BitsFacts Value.Laws Value.RowKey Value.Induction.
From Coq Require Import Lia.
Open Scope Z_scope.

(** ** structural equality *)
Lemma all2_pair_eq_spec (f : value -> value -> bool) (m m' : list (bytes * value)) :
  Forall (fun kv => forall b, f (snd kv) b = true <-> snd kv = b) m ->
  (all2 (fun kv kv' => bytes_eqb (fst kv) (fst kv') && f (snd kv) (snd kv')) m m' = true <-> m = m').
Proof.
  intros HF. apply all2_eq_spec. eapply Forall_impl; [|exact HF].
  intros [k v] Hv [k' v']. cbn [fst snd] in *. split; intros H.
  - apply andb_prop in H. destruct H as [H1 H2]. apply bytes_eqb_spec in H1. apply Hv in H2. congruence.
  - injection H as -> ->. apply andb_true_intro. split; [apply bytes_eqb_refl|apply Hv; reflexivity].
Qed.

Lemma value_eqb_spec_l : forall a b, value_eqb a b = true <-> a = b.
Proof.
  induction a using value_ind'; intros b0; destruct b0; cbn [value_eqb]; split; intros H0;
    try discriminate; try reflexivity.
  - apply Bool.eqb_prop in H0. congruence.
  - injection H0 as ->. apply Bool.eqb_reflx.
  - apply Z.eqb_eq in H0. congruence.
  - injection H0 as ->. apply Z.eqb_refl.
  - apply Z.eqb_eq in H0. congruence.
  - injection H0 as ->. apply Z.eqb_refl.
  - apply bytes_eqb_spec in H0. congruence.
  - injection H0 as ->. apply bytes_eqb_refl.
  - apply bytes_eqb_spec in H0. congruence.
  - injection H0 as ->. apply bytes_eqb_refl.
  - apply Z.eqb_eq in H0. congruence.
  - injection H0 as ->. apply Z.eqb_refl.
  - apply (all2_eq_spec value_eqb) in H0; [congruence|assumption].
  - injection H0 as ->. apply (all2_eq_spec value_eqb); [assumption|reflexivity].
  - apply (all2_pair_eq_spec value_eqb) in H0; [congruence|assumption].
  - injection H0 as ->. apply (all2_pair_eq_spec value_eqb); [assumption|reflexivity].
  - apply (all2_eq_spec Z.eqb) in H0; [congruence|]. apply Forall_forall. intros z _ y. apply Z.eqb_eq.
  - injection H0 as ->. apply (all2_eq_spec Z.eqb); [|reflexivity]. apply Forall_forall. intros z _ y. apply Z.eqb_eq.
Qed.

(** ** sorted entry lists *)
Lemma keys_sorted_cons {A} k (v : A) r :
  keys_sorted ((k, v) :: r) = true ->
  keys_sorted r = true /\ Forall (fun kv => bytes_cmp k (fst kv) = Lt) r.
Proof.
  revert k v. induction r as [|[k' v'] r IH]; intros k v H.
  - split; [reflexivity|constructor].
  - cbn [keys_sorted] in H. destruct (bytes_cmp k k') eqn:E; try discriminate.
    fold (keys_sorted ((k', v') :: r)) in H.
    destruct (IH k' v' H) as [Hs Hall]. split; [exact H|].
    constructor; [exact E|]. eapply Forall_impl; [|exact Hall].
    intros [k2 v2] H2. cbn [fst] in *. eapply bytes_cmp_lt_trans; eauto.
Qed.

Lemma bytes_cmp_lt_irrefl k : bytes_cmp k k = Lt -> False.
Proof. rewrite bytes_cmp_refl. discriminate. Qed.

Lemma mlookup_in {A} k (m : list (bytes * A)) v : mlookup k m = Some v -> In (k, v) m.
Proof.
  induction m as [|[k' v'] r IH]; cbn [mlookup]; [discriminate|].
  destruct (bytes_eqb k k') eqn:E.
  - intros H. injection H as ->. apply bytes_eqb_spec in E. subst. left. reflexivity.
  - intros H. right. auto.
Qed.

Lemma mlookup_sorted {A} k (v : A) m : keys_sorted m = true -> In (k, v) m -> mlookup k m = Some v.
Proof.
  induction m as [|[k' v'] r IH]; intros Hs Hin; [destruct Hin|].
  apply keys_sorted_cons in Hs. destruct Hs as [Hs Hall]. cbn [mlookup].
  destruct Hin as [Heq|Hin].
  - injection Heq as -> ->. rewrite bytes_eqb_refl. reflexivity.
  - destruct (bytes_eqb k k') eqn:E.
    + apply bytes_eqb_spec in E. subst k'. rewrite Forall_forall in Hall.
      specialize (Hall _ Hin). cbn [fst] in Hall. exfalso. eapply bytes_cmp_lt_irrefl; eauto.
    + auto.
Qed.

Lemma keys_sorted_nodup {A} (m : list (bytes * A)) : keys_sorted m = true -> NoDup m.
Proof.
  induction m as [|[k v] r IH]; intros Hs; [constructor|].
  apply keys_sorted_cons in Hs. destruct Hs as [Hs Hall]. constructor; [|auto].
  intros Hin. rewrite Forall_forall in Hall. specialize (Hall _ Hin). cbn [fst] in Hall.
  eapply bytes_cmp_lt_irrefl; eauto.
Qed.

Lemma sorted_mutual_incl_eq {A} (m m' : list (bytes * A)) :
  keys_sorted m = true -> keys_sorted m' = true -> incl m m' -> incl m' m -> m = m'.
Proof.
  revert m'. induction m as [|[k v] r IH]; intros [|[k' v'] r'] Hs Hs' H1 H2.
  - reflexivity.
  - exfalso. apply (H2 (k', v')). left; reflexivity.
  - exfalso. apply (H1 (k, v)). left; reflexivity.
  - apply keys_sorted_cons in Hs. destruct Hs as [Hs Hall].
    apply keys_sorted_cons in Hs'. destruct Hs' as [Hs' Hall'].
    rewrite Forall_forall in Hall, Hall'.
    assert (Hhead : (k, v) = (k', v')).
    { destruct (H1 (k, v) (or_introl eq_refl)) as [E|Hin]; [congruence|].
      destruct (H2 (k', v') (or_introl eq_refl)) as [E|Hin']; [congruence|].
      specialize (Hall' _ Hin). specialize (Hall _ Hin'). cbn [fst] in *.
      exfalso. eapply bytes_cmp_lt_irrefl. eapply bytes_cmp_lt_trans; eauto. }
    injection Hhead as <- <-. f_equal. apply IH; auto.
    + intros x Hx. destruct (H1 x (or_intror Hx)) as [E|Hin]; [|exact Hin].
      subst x. specialize (Hall _ Hx). cbn [fst] in Hall. exfalso. eapply bytes_cmp_lt_irrefl; eauto.
    + intros x Hx. destruct (H2 x (or_intror Hx)) as [E|Hin]; [|exact Hin].
      subst x. specialize (Hall' _ Hx). cbn [fst] in Hall'. exfalso. eapply bytes_cmp_lt_irrefl; eauto.
Qed.

Lemma sorted_incl_length_eq {A} (m m' : list (bytes * A)) :
  keys_sorted m = true -> keys_sorted m' = true -> incl m m' -> length m = length m' -> m = m'.
Proof.
  intros Hs Hs' Hi Hl. apply sorted_mutual_incl_eq; auto.
  apply NoDup_length_incl; auto; [apply keys_sorted_nodup; auto|lia].
Qed.

(** ** well-formedness, unpacked *)
Lemma wf_list l : wf (VList l) -> Forall wf l.
Proof.
  unfold wf. cbn [wfb]. intros H. apply andb_prop in H. destruct H as [H _].
  rewrite forallb_forall in H. apply Forall_forall. exact H.
Qed.
Lemma wf_map m : wf (VMap m) -> Forall (fun kv => wf (snd kv)) m /\ keys_sorted m = true.
Proof.
  unfold wf. cbn [wfb]. intros H. apply andb_prop in H. destruct H as [H _].
  apply andb_prop in H. destruct H as [H Hs]. split; [|exact Hs].
  rewrite forallb_forall in H. apply Forall_forall. intros kv Hin. specialize (H kv Hin).
  apply andb_prop in H. tauto.
Qed.

(** ** [heq] is bit-level identity *)
Lemma all2_heq_spec (l l' : list value) :
  Forall (fun x => forall y, wf y -> (heq x y = true <-> x = y)) l -> Forall wf l' ->
  (all2 heq l l' = true <-> l = l').
Proof.
  intros HF; revert l'; induction HF as [|a r Ha _ IH]; intros [|b r2] Hw; cbn [all2]; split; intros H;
    try discriminate; auto.
  - inversion Hw as [|? ? Hb Hr]; subst. apply andb_prop in H. destruct H as [H1 H2].
    apply (Ha b Hb) in H1. apply (IH r2 Hr) in H2. congruence.
  - inversion Hw as [|? ? Hb Hr]; subst. injection H as -> ->. apply andb_true_intro.
    split; [apply (Ha b Hb); reflexivity|apply (IH r2 Hr); reflexivity].
Qed.

Lemma zlen_eqb_of_eq {A} (l l' : list A) : length l = length l' -> (zlen l =? zlen l') = true.
Proof. intros H. unfold zlen. rewrite H. apply Z.eqb_refl. Qed.

Lemma heq_spec_l : forall a, wf a -> forall b, wf b -> (heq a b = true <-> a = b).
Proof.
  induction a using value_ind'; intros Hwa b0 Hwb.
  - destruct b0; cbn [heq veq]; split; intros H0; try discriminate; reflexivity.
  - destruct b0; cbn [heq veq]; split; intros H0; try discriminate.
    + apply Bool.eqb_prop in H0. congruence.
    + injection H0 as ->. apply Bool.eqb_reflx.
  - destruct b0; cbn [heq veq]; split; intros H0; try discriminate.
    + apply Z.eqb_eq in H0. congruence.
    + injection H0 as ->. apply Z.eqb_refl.
  - destruct b0; cbn [heq veq]; split; intros H0; try discriminate.
    + apply Z.eqb_eq in H0. congruence.
    + injection H0 as ->. apply Z.eqb_refl.
  - destruct b0; cbn [heq veq]; split; intros H0; try discriminate.
    + apply bytes_eqb_spec in H0. congruence.
    + injection H0 as ->. apply bytes_eqb_refl.
  - destruct b0; cbn [heq veq]; split; intros H0; try discriminate.
    + apply bytes_eqb_spec in H0. congruence.
    + injection H0 as ->. apply bytes_eqb_refl.
  - destruct b0; cbn [heq veq]; split; intros H0; try discriminate.
    + apply Z.eqb_eq in H0. congruence.
    + injection H0 as ->. apply Z.eqb_refl.
  - (* List *)
    assert (HF : Forall (fun x => forall y, wf y -> (heq x y = true <-> x = y)) l).
    { apply wf_list in Hwa. rewrite Forall_forall in *. intros x Hx y Hy. apply H; auto. }
    destruct b0; cbn [heq veq]; split; intros H0; try discriminate.
    + apply andb_prop in H0. destruct H0 as [_ H0].
      apply (all2_heq_spec l l0 HF (wf_list _ Hwb)) in H0. congruence.
    + injection H0 as <-. apply andb_true_intro. split; [apply Z.eqb_refl|].
      apply (all2_heq_spec l l HF (wf_list _ Hwa)). reflexivity.
  - (* Map *)
    destruct (wf_map _ Hwa) as [Hvw Hs].
    assert (HF : Forall (fun kv => forall y, wf y -> (heq (snd kv) y = true <-> snd kv = y)) m).
    { rewrite Forall_forall in *. intros kv Hin y Hy. apply H; auto. }
    clear H.
    destruct b0 as [| | | | | | | |m'|]; cbn [heq veq]; split; intros H0; try discriminate.
    + destruct (wf_map _ Hwb) as [Hvw' Hs'].
      apply andb_prop in H0. destruct H0 as [Hlen Hall].
      apply Z.eqb_eq in Hlen. unfold zlen in Hlen. apply Nat2Z.inj in Hlen.
      f_equal. apply sorted_incl_length_eq; auto.
      intros [k v] Hin. rewrite forallb_forall in Hall. specialize (Hall _ Hin). cbn [fst snd] in Hall.
      destruct (mlookup k m') as [bv|] eqn:El; [|discriminate].
      apply mlookup_in in El.
      rewrite Forall_forall in HF, Hvw'. specialize (HF _ Hin bv (Hvw' _ El)). cbn [snd] in HF.
      apply HF in Hall. subst bv. exact El.
    + injection H0 as <-. apply andb_true_intro. split; [apply Z.eqb_refl|].
      apply forallb_forall. intros [k v] Hin. cbn [fst snd].
      rewrite (mlookup_sorted k v m Hs Hin).
      rewrite Forall_forall in HF, Hvw. apply (HF _ Hin v (Hvw _ Hin)). reflexivity.
  - (* Vector *)
    destruct b0; cbn [heq veq]; split; intros H0; try discriminate.
    + apply andb_prop in H0. destruct H0 as [_ H0].
      apply (all2_eq_spec Z.eqb) in H0; [congruence|]. apply Forall_forall. intros z _ y. apply Z.eqb_eq.
    + injection H0 as <-. apply andb_true_intro. split; [apply Z.eqb_refl|].
      apply (all2_eq_spec Z.eqb); [|reflexivity]. apply Forall_forall. intros z _ y. apply Z.eqb_eq.
Qed.

Lemma heq_refl_l : forall a, wf a -> heq a a = true.
Proof. intros a Ha. apply (heq_spec_l a Ha a Ha). reflexivity. Qed.

Lemma heq_sym_l : forall a b, wf a -> wf b -> heq a b = heq b a.
Proof.
  intros a b Ha Hb. destruct (heq a b) eqn:E1; destruct (heq b a) eqn:E2; auto.
  - apply (heq_spec_l a Ha b Hb) in E1. subst. rewrite (heq_refl_l b Hb) in E2. discriminate.
  - apply (heq_spec_l b Hb a Ha) in E2. subst. rewrite (heq_refl_l a Ha) in E1. discriminate.
Qed.

Lemma heq_trans_l : forall a b c, wf a -> wf b -> wf c -> heq a b = true -> heq b c = true -> heq a c = true.
Proof.
  intros a b c Ha Hb Hc H1 H2. apply (heq_spec_l a Ha b Hb) in H1. apply (heq_spec_l b Hb c Hc) in H2.
  subst. apply heq_refl_l; auto.
Qed.

Lemma heq_equiv_l :
  (forall a, wf a -> heq a a = true) /\
  (forall a b, wf a -> wf b -> heq a b = heq b a) /\
  (forall a b c, wf a -> wf b -> wf c -> heq a b = true -> heq b c = true -> heq a c = true).
Proof. split; [exact heq_refl_l|split; [exact heq_sym_l|exact heq_trans_l]]. Qed.

Lemma heq_hash_l : forall a b, wf a -> wf b -> heq a b = true -> hfeed a = hfeed b.
Proof. intros a b Ha Hb H. apply (heq_spec_l a Ha b Hb) in H. subst. reflexivity. Qed.

(** ** the hasher feed is injective (prefix-free, even): different values never feed a hasher
       the same sequence, so they can only collide by an accident of the hash function *)
Lemma map_hu32_inj x x' r1 r2 :
  length x = length x' -> map HU32 x ++ r1 = map HU32 x' ++ r2 -> x = x' /\ r1 = r2.
Proof.
  revert x'. induction x as [|a x IH]; intros [|b x'] Hl H; cbn [length] in Hl; try discriminate.
  - split; [reflexivity|exact H].
  - cbn [map app] in H. injection H as Hab H. injection Hl as Hl. destruct (IH x' Hl H) as [-> ->].
    subst. auto.
Qed.

Lemma hfeed_inj_app_l : forall a b r1 r2, hfeed a ++ r1 = hfeed b ++ r2 -> a = b /\ r1 = r2.
Proof.
  induction a using value_ind'; intros b0 r1 r2 H0; destruct b0; cbn [hfeed vtag hfeed_str app] in H0;
    try (injection H0 as H0; discriminate H0); try (injection H0; intros; discriminate).
  - injection H0 as H0. auto.
  - injection H0 as Hb H0. split; [|exact H0]. destruct b, b0; cbn [b2z] in Hb; try discriminate; reflexivity.
  - injection H0 as Hb H0. subst. auto.
  - injection H0 as Hb H0. subst. auto.
  - injection H0 as Hb H0. subst. auto.
  - injection H0 as Hl Hb H0. subst. auto.
  - injection H0 as Hb H0. subst. auto.
  - (* List *)
    injection H0 as Hl H0. unfold zlen in Hl. apply Nat2Z.inj in Hl.
    enough (E : l = l0 /\ r1 = r2) by (destruct E; subst; auto).
    revert l0 Hl H0. induction H as [|x r Hx _ IH]; intros [|y r'] Hl H0; cbn [length] in Hl; try discriminate.
    + cbn [flat_map app] in H0. auto.
    + cbn [flat_map] in H0. rewrite <- !app_assoc in H0. apply Hx in H0. destruct H0 as [-> H0].
      injection Hl as Hl. destruct (IH r' Hl H0) as [-> ->]. auto.
  - (* Map *)
    injection H0 as Hl H0. unfold zlen in Hl. apply Nat2Z.inj in Hl.
    enough (E : m = m0 /\ r1 = r2) by (destruct E; subst; auto).
    revert m0 Hl H0. induction H as [|[k v] r Hx _ IH]; intros [|[k' v'] r'] Hl H0; cbn [length] in Hl; try discriminate.
    + cbn [flat_map app] in H0. auto.
    + cbn [flat_map fst snd hfeed_str app] in H0. injection H0 as Hk H0. subst k'.
      rewrite <- !app_assoc in H0. cbn [snd] in Hx. apply Hx in H0. destruct H0 as [-> H0].
      injection Hl as Hl. destruct (IH r' Hl H0) as [-> ->]. auto.
  - (* Vector *)
    injection H0 as Hl H0. unfold zlen in Hl. apply Nat2Z.inj in Hl.
    destruct (map_hu32_inj _ _ _ _ Hl H0) as [-> ->]. auto.
Qed.

Lemma hfeed_injective_l : forall a b, hfeed a = hfeed b -> a = b.
Proof.
  intros a b H. apply (hfeed_inj_app_l a b [] []). rewrite !app_nil_r. exact H.
Qed.

(** a structure keyed by ([hfeed], [heq]) — HashIndex, the LPG property index — neither
    separates equal values nor merges different ones *)
Lemma heq_iff_feed_l : forall a b, wf a -> wf b -> (heq a b = true <-> hfeed a = hfeed b).
Proof.
  intros a b Ha Hb. split; [apply heq_hash_l; auto|].
  intros H. apply hfeed_injective_l in H. subst. apply heq_refl_l; auto.
Qed.

(** ** derived [PartialEq for Value] is NOT reflexive (NaN), unlike [heq] *)
Lemma veq_not_reflexive_l : exists a, wf a /\ veq a a = false /\ heq a a = true.
Proof. exists (VList [VFloat 9221120237041090560]). vm_compute. auto. Qed.

(** ** row keys of DISTINCT / GROUP BY *)
Lemma rowkey_merges_refuted_l :
  exists a b, wf a /\ wf b /\ a <> b /\ heq a b = false /\ k_rowkey a b = true
              /\ forall dbg, keypart_of dbg a = keypart_of dbg b.
Proof.
  exists (VInt 4607182418800017408), (VFloat 4607182418800017408).
  repeat split; try (vm_compute; congruence); discriminate.
Qed.

Lemma sint64_inj_u64 f g : in_u64 f -> in_u64 g -> sint64 f = sint64 g -> f = g.
Proof.
  intros Hf Hg H. rewrite <- (wrap64_small f Hf), <- (wrap64_small g Hg).
  rewrite <- (wrap64_sint64 f), <- (wrap64_sint64 g). congruence.
Qed.

Lemma rowkey_injective_outside_K_l : forall dbg a b, wf a -> wf b ->
  k_rowkey a b = false -> keypart_of dbg a = keypart_of dbg b -> a = b.
Proof.
  intros dbg a b Ha Hb HK H.
  destruct a, b; cbn [k_rowkey is_simple_key negb orb] in HK; try discriminate;
    cbn [keypart_of] in H; try discriminate; try congruence.
  - injection H as H. rewrite H in HK. rewrite Z.eqb_refl in HK. discriminate.
  - injection H as H. rewrite <- H in HK. rewrite Z.eqb_refl in HK. discriminate.
  - injection H as H. f_equal. unfold wf in Ha, Hb. cbn [wfb] in Ha, Hb.
    apply in_u64b_spec in Ha, Hb. apply sint64_inj_u64; auto.
Qed.

(** GROUP BY returns the key it was given exactly for Null / Bool / Int64 / String *)
Lemma groupkey_preserved_outside_K_l : forall dbg v, k_groupkey v = false -> group_key_out dbg v = v.
Proof. intros dbg v H. destruct v; cbn [k_groupkey is_simple_key negb] in H; try discriminate; reflexivity. Qed.
Lemma groupkey_changed_refuted_l : exists v, wf v /\ k_groupkey v = true /\ forall dbg, group_key_out dbg v <> v.
Proof. exists (VFloat 4607182418800017408). repeat split. intros dbg. vm_compute. discriminate. Qed.
