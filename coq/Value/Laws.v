(** C16 — definitions used by the theorem statements: bit-level equality, the laws as boolean
    checkers on the model, the finding classes K, size measures.  Definitions only. *)
From GV Require Export Value.Spill.
Open Scope Z_scope.

(** ** bit-level structural equality of values *)
Fixpoint value_eqb (a b : value) : bool :=
  match a, b with
  | VNull, VNull => true
  | VBool x, VBool y => Bool.eqb x y
  | VInt x, VInt y => x =? y
  | VFloat x, VFloat y => x =? y
  | VStr x, VStr y => bytes_eqb x y
  | VBytes x, VBytes y => bytes_eqb x y
  | VTs x, VTs y => x =? y
  | VList x, VList y => all2 value_eqb x y
  | VMap x, VMap y => all2 (fun kv kv' => bytes_eqb (fst kv) (fst kv') && value_eqb (snd kv) (snd kv')) x y
  | VVec x, VVec y => all2 Z.eqb x y
  | _, _ => false
  end.

Definition ovalue_eqb (a b : ovalue) : bool :=
  match a, b with
  | OInt x, OInt y => x =? y
  | OFloat x, OFloat y => x =? y
  | OStr x, OStr y => bytes_eqb x y
  | OBool x, OBool y => Bool.eqb x y
  | OTs x, OTs y => x =? y
  | _, _ => false
  end.

Definition ocomparison_eqb := option_eqb cmp_eqb.

(** ** the laws, evaluated on the model (compared with the harness's verdict on the
       implementation, so that the oracle itself is tied to the model) *)
Definition comp_opp_eqb (c d : comparison) : bool := cmp_eqb c (CompOpp d).
(** hash consistency of a pair of orderables: eq -> same feed *)
Definition olaw_hash (x y : ovalue) : bool := implb (oeq x y) (feed_eqb (ofeed x) (ofeed y)).
(** pair laws that hold everywhere: antisymmetry, eq <-> cmp = Equal, symmetry of eq *)
Definition olaw_pair (x y : ovalue) : bool :=
  comp_opp_eqb (ocmp y x) (ocmp x y) && Bool.eqb (oeq x y) (cmp_eqb (ocmp x y) Eq) && Bool.eqb (oeq x y) (oeq y x).
Definition cle (c : comparison) : bool := negb (cmp_eqb c Gt).
(** transitivity of <= (with antisymmetry this is transitivity of <, of ==, and their mixes) and of == *)
Definition olaw_trans (x y z : ovalue) : bool :=
  implb (cle (ocmp x y) && cle (ocmp y z)) (cle (ocmp x z))
  && implb (oeq x y && oeq y z) (oeq x z).
Definition perms3 {A} (a b c : A) : list (A * A * A) :=
  [(a, b, c); (a, c, b); (b, a, c); (b, c, a); (c, a, b); (c, b, a)].
Definition olaw_trans_all (x y z : ovalue) : bool :=
  forallb (fun t => olaw_trans (fst (fst t)) (snd (fst t)) (snd t)) (perms3 x y z).

Definition hlaw_pair (a b : value) : bool :=
  Bool.eqb (heq a b) (heq b a) && Bool.eqb (heq a b) (value_eqb a b)
  && implb (heq a b) (feed_eqb (hfeed a) (hfeed b)) && heq a a && heq b b.

(** ** finding classes *)
(** C16-K2: pairs on which [oeq] may hold although the feeds differ: a mixed Int/Float pair,
    or two floats with different bits that are both NaN or both zero *)
Definition k_hash (x y : ovalue) : bool :=
  match x, y with
  | OInt _, OFloat _ | OFloat _, OInt _ => true
  | OFloat p, OFloat q =>
      negb (p =? q) && ((f64_is_nan p && f64_is_nan q) || (f64_is_zero p && f64_is_zero q))
  | _, _ => false
  end.
Definition k_hash_v (a b : value) : bool :=
  match otry_from a, otry_from b with Some x, Some y => k_hash x y | _, _ => false end.

(** C16-K1: triples in which two different integers convert to the same double and the
    third element is a float equal to it *)
Definition collide (i j f : Z) : bool :=
  negb (i =? j) && cmp_eqb (of64_cmp (f64_of_i64 i) f) Eq && cmp_eqb (of64_cmp (f64_of_i64 j) f) Eq.
Definition k_trans (x y z : ovalue) : bool :=
  match x, y, z with
  | OInt i, OInt j, OFloat f | OInt i, OFloat f, OInt j | OFloat f, OInt i, OInt j => collide i j f
  | _, _, _ => false
  end.
(** the only argument ORDER in which a law fails: Int, Float, Int ([k_trans] is its closure
    under reordering, which is what the check classifies: it tests all six orders) *)
Definition k_mid (x y z : ovalue) : bool :=
  match x, y, z with OInt i, OFloat f, OInt j => collide i j f | _, _, _ => false end.
(** the wider, purely syntactic class: an Int and a Float occur in the triple *)
Definition is_oint (o : ovalue) : bool := match o with OInt _ => true | _ => false end.
Definition is_ofloat (o : ovalue) : bool := match o with OFloat _ => true | _ => false end.
Definition k_mixed3 (x y z : ovalue) : bool :=
  (is_oint x || is_oint y || is_oint z) && (is_ofloat x || is_ofloat y || is_ofloat z).

(** C16-K3: DISTINCT / GROUP BY keys ([keypart_of]) merge different values: a float and the
    integer with the same bit pattern, or any value that is keyed by its Debug text *)
Definition is_simple_key (v : value) : bool :=
  match v with VNull | VBool _ | VInt _ | VFloat _ | VStr _ => true | _ => false end.
Definition k_rowkey (a b : value) : bool :=
  match a, b with
  | VInt i, VFloat f | VFloat f, VInt i => i =? sint64 f
  | _, _ => negb (is_simple_key a) || negb (is_simple_key b)
  end.

(** ** size measure used as decoder fuel: one per node, one per element of a byte string /
       vector (so that [vsize v <= length (enc_value v)] and [<= length (sp_enc v)]) *)
Fixpoint vsize (v : value) : nat :=
  match v with
  | VNull | VBool _ | VInt _ | VFloat _ | VTs _ => 1
  | VStr s => 1 + length s
  | VBytes b => 1 + length b
  | VList l => 1 + fold_right (fun x acc => vsize x + acc)%nat 0%nat l
  | VMap m => 1 + fold_right (fun kv acc => vsize (snd kv) + acc)%nat 0%nat m
  | VVec x => 1 + length x
  end.
