(** C16 — model of [grafeo_common::types::value]: [Value], [HashableValue], [OrderableValue],
    [OrderedFloat64], transcribed from crates/grafeo-common/src/types/value.rs (and
    timestamp.rs: [Timestamp] is a newtype over i64 with derived Eq/Ord/Hash).

    Conventions: i64 are [Z] in the i64 range; f64/f32 are BIT PATTERNS ([Value/Ieee.v]);
    strings (ArcStr, PropertyKey) are their UTF-8 byte lists; [Arc<[u8]>] a byte list;
    [Arc<BTreeMap<PropertyKey, Value>>] is the list of (key, value) in iteration order, i.e.
    strictly sorted by key bytes ([wfb]).  Definitions only; everything runs under vm_compute. *)
From GV Require Export Base.Bits Value.Ieee.
Open Scope Z_scope.

Definition bytes := list Z.

(** ** the [Value] enum, variant for variant (value.rs l.87) *)
Inductive value :=
| VNull
| VBool (b : bool)
| VInt (i : Z)                          (* Int64 *)
| VFloat (bits : Z)                     (* Float64, bit pattern *)
| VStr (s : bytes)                      (* String(ArcStr), UTF-8 bytes *)
| VBytes (b : bytes)                    (* Bytes(Arc<[u8]>) *)
| VTs (micros : Z)                      (* Timestamp(i64) *)
| VList (l : list value)                (* List(Arc<[Value]>) *)
| VMap (m : list (bytes * value))       (* Map(Arc<BTreeMap<PropertyKey, Value>>), key-sorted *)
| VVec (v : list Z).                    (* Vector(Arc<[f32]>), bit patterns *)

(** [std::mem::discriminant]: declaration order *)
Definition vtag (v : value) : Z :=
  match v with
  | VNull => 0 | VBool _ => 1 | VInt _ => 2 | VFloat _ => 3 | VStr _ => 4 | VBytes _ => 5
  | VTs _ => 6 | VList _ => 7 | VMap _ => 8 | VVec _ => 9
  end.

Definition b2z (b : bool) : Z := if b then 1 else 0.
Definition zlen {A} (l : list A) : Z := Z.of_nat (length l).

(** ** generic helpers (the function argument is a section variable so that nested recursion
       through these is accepted by the guard checker) *)
Section All2.
  Context {A B : Type} (f : A -> B -> bool).
  Fixpoint all2 (l1 : list A) (l2 : list B) : bool :=
    match l1, l2 with
    | [], [] => true
    | a :: r1, b :: r2 => f a b && all2 r1 r2
    | _, _ => false
    end.
End All2.

Definition bytes_eqb : bytes -> bytes -> bool := all2 Z.eqb.

(** [str::cmp] / [[u8]::cmp]: lexicographic on bytes *)
Fixpoint bytes_cmp (a b : bytes) : comparison :=
  match a, b with
  | [], [] => Eq
  | [], _ :: _ => Lt
  | _ :: _, [] => Gt
  | x :: a', y :: b' => match x ?= y with Eq => bytes_cmp a' b' | c => c end
  end.

(** [BTreeMap::get] on the sorted entry list *)
Section Lookup.
  Context {A : Type}.
  Fixpoint mlookup (k : bytes) (m : list (bytes * A)) : option A :=
    match m with
    | [] => None
    | (k', v) :: r => if bytes_eqb k k' then Some v else mlookup k r
    end.
  (** [BTreeMap::insert]: replace the value of an equal key, else insert in key order *)
  Fixpoint minsert (k : bytes) (v : A) (m : list (bytes * A)) : list (bytes * A) :=
    match m with
    | [] => [(k, v)]
    | (k', v') :: r =>
        match bytes_cmp k k' with
        | Lt => (k, v) :: m
        | Eq => (k', v) :: r          (* the old key object is kept, the value replaced *)
        | Gt => (k', v') :: minsert k v r
        end
    end.
  Definition mof_list (l : list (bytes * A)) : list (bytes * A) :=
    fold_left (fun m kv => minsert (fst kv) (snd kv) m) l [].
  Fixpoint keys_sorted (m : list (bytes * A)) : bool :=
    match m with
    | [] => true
    | (k, _) :: r =>
        match r with
        | [] => true
        | (k', _) :: _ => match bytes_cmp k k' with Lt => keys_sorted r | _ => false end
        end
    end.
End Lookup.

(** ** UTF-8 validity ([core::str::from_utf8]: no overlong forms, no surrogates, <= U+10FFFF) *)
Definition u8_cont (b : Z) : bool := (128 <=? b) && (b <=? 191).
Definition u8_in (lo hi b : Z) : bool := (lo <=? b) && (b <=? hi).
Fixpoint utf8_valid (l : bytes) : bool :=
  match l with
  | [] => true
  | b0 :: r =>
      if u8_in 0 127 b0 then utf8_valid r
      else if u8_in 194 223 b0 then
        match r with b1 :: r1 => u8_cont b1 && utf8_valid r1 | _ => false end
      else if u8_in 224 239 b0 then
        match r with
        | b1 :: b2 :: r2 =>
            (if b0 =? 224 then u8_in 160 191 b1 else if b0 =? 237 then u8_in 128 159 b1 else u8_cont b1)
            && u8_cont b2 && utf8_valid r2
        | _ => false
        end
      else if u8_in 240 244 b0 then
        match r with
        | b1 :: b2 :: b3 :: r3 =>
            (if b0 =? 240 then u8_in 144 191 b1 else if b0 =? 244 then u8_in 128 143 b1 else u8_cont b1)
            && u8_cont b2 && u8_cont b3 && utf8_valid r3
        | _ => false
        end
      else false
  end.

(** ** well-formed values: exactly what a Rust [Value] can be *)
Definition len_ok {A} (l : list A) : bool := zlen l <? two64.
Fixpoint wfb (v : value) : bool :=
  match v with
  | VNull | VBool _ => true
  | VInt i => in_i64b i
  | VFloat f => in_u64b f
  | VStr s => utf8_valid s && len_ok s
  | VBytes b => forallb in_u8b b && len_ok b
  | VTs t => in_i64b t
  | VList l => forallb wfb l && len_ok l
  | VMap m => forallb (fun kv => utf8_valid (fst kv) && len_ok (fst kv) && wfb (snd kv)) m
              && keys_sorted m && len_ok m
  | VVec x => forallb in_u32b x && len_ok x
  end.
Definition wf (v : value) : Prop := wfb v = true.

(** ** derived [PartialEq for Value] (value.rs l.86): IEEE equality on floats (NaN <> NaN,
       +0.0 = -0.0), element-wise on lists/vectors, entry-wise in key order on maps *)
Fixpoint veq (a b : value) : bool :=
  match a, b with
  | VNull, VNull => true
  | VBool x, VBool y => Bool.eqb x y
  | VInt x, VInt y => x =? y
  | VFloat x, VFloat y => f64_eq x y
  | VStr x, VStr y => bytes_eqb x y
  | VBytes x, VBytes y => bytes_eqb x y
  | VTs x, VTs y => x =? y
  | VList x, VList y => all2 veq x y
  | VMap x, VMap y => all2 (fun kv kv' => bytes_eqb (fst kv) (fst kv') && veq (snd kv) (snd kv')) x y
  | VVec x, VVec y => all2 f32_eq x y
  | _, _ => false
  end.

(** ** [PartialEq for HashableValue] (value.rs l.750) *)
Fixpoint heq (a b : value) : bool :=
  match a, b with
  | VFloat x, VFloat y => x =? y                              (* to_bits() == to_bits() *)
  | VList x, VList y => (zlen x =? zlen y) && all2 heq x y    (* len check, then zip().all() *)
  | VMap x, VMap y =>
      (zlen x =? zlen y)
      && forallb (fun kv => match mlookup (fst kv) y with
                            | Some bv => heq (snd kv) bv
                            | None => false
                            end) x
  | VVec x, VVec y => (zlen x =? zlen y) && all2 Z.eqb x y
  | _, _ => veq a b                                           (* "normal Value equality" *)
  end.

(** ** the [Hasher::write_*] calls a [Hash] impl issues.  A hasher is fed exactly this
       sequence, so two values with equal feeds hash equally under ANY hasher. *)
Inductive hword :=
| HIsize (z : Z)        (* write_isize : mem::Discriminant of a default-repr enum *)
| HUsize (z : Z)        (* write_usize : usize::hash, write_length_prefix's default *)
| HU8 (z : Z)           (* write_u8    : bool::hash, the 0xff terminator of write_str's default *)
| HU32 (z : Z)          (* write_u32 *)
| HI64 (z : Z)          (* write_i64 *)
| HU64 (z : Z)          (* write_u64 *)
| HBytes (b : bytes)    (* write(&[u8]) *)
| HOther (width z : Z). (* any other write_* call (u16/u128/i8/...): never issued by the modelled impls *)

Definition hword_eqb (a b : hword) : bool :=
  match a, b with
  | HIsize x, HIsize y | HUsize x, HUsize y | HU8 x, HU8 y | HU32 x, HU32 y
  | HI64 x, HI64 y | HU64 x, HU64 y => x =? y
  | HBytes x, HBytes y => bytes_eqb x y
  | HOther w x, HOther w' y => (w =? w') && (x =? y)
  | _, _ => false
  end.
Definition feed_eqb : list hword -> list hword -> bool := all2 hword_eqb.

(** [str::hash] = [Hasher::write_str], whose (only stable) definition is write(bytes); write_u8(0xff) *)
Definition hfeed_str (s : bytes) : list hword := [HBytes s; HU8 255].

(** [Hash for HashableValue] (value.rs l.711) *)
Fixpoint hfeed (v : value) : list hword :=
  HIsize (vtag v) ::
  match v with
  | VNull => []
  | VBool b => [HU8 (b2z b)]
  | VInt i => [HI64 i]
  | VFloat f => [HU64 f]
  | VStr s => hfeed_str s
  | VBytes b => [HUsize (zlen b); HBytes b]          (* [u8]::hash: length prefix, then one write *)
  | VTs t => [HI64 t]
  | VList l => HUsize (zlen l) :: flat_map hfeed l
  | VMap m => HUsize (zlen m) :: flat_map (fun kv => hfeed_str (fst kv) ++ hfeed (snd kv)) m
  | VVec x => HUsize (zlen x) :: map HU32 x
  end.

(** ** [OrderedFloat64] (value.rs l.516-556) *)
Definition of64_eq (a b : Z) : bool :=
  match f64_is_nan a, f64_is_nan b with
  | true, true => true
  | true, false | false, true => false
  | false, false => f64_eq a b
  end.
Definition of64_cmp (a b : Z) : comparison :=
  match f64_is_nan a, f64_is_nan b with
  | true, true => Eq
  | true, false => Gt
  | false, true => Lt
  | false, false => match f64_partial_cmp a b with Some c => c | None => Eq end
  end.

(** ** [OrderableValue] (value.rs l.482) *)
Inductive ovalue :=
| OInt (i : Z) | OFloat (bits : Z) | OStr (s : bytes) | OBool (b : bool) | OTs (micros : Z).

Definition otag (o : ovalue) : Z :=          (* mem::discriminant: declaration order *)
  match o with OInt _ => 0 | OFloat _ => 1 | OStr _ => 2 | OBool _ => 3 | OTs _ => 4 end.
Definition oordinal (o : ovalue) : Z :=      (* type_ordinal() *)
  match o with OBool _ => 0 | OInt _ => 1 | OFloat _ => 2 | OStr _ => 3 | OTs _ => 4 end.

Definition otry_from (v : value) : option ovalue :=
  match v with
  | VInt i => Some (OInt i) | VFloat f => Some (OFloat f) | VStr s => Some (OStr s)
  | VBool b => Some (OBool b) | VTs t => Some (OTs t)
  | VNull | VBytes _ | VList _ | VMap _ | VVec _ => None
  end.
Definition ointo_value (o : ovalue) : value :=
  match o with
  | OInt i => VInt i | OFloat f => VFloat f | OStr s => VStr s | OBool b => VBool b | OTs t => VTs t
  end.

Definition bool_cmp (a b : bool) : comparison :=
  match a, b with false, true => Lt | true, false => Gt | _, _ => Eq end.

(** [PartialEq for OrderableValue] (l.623) *)
Definition oeq (a b : ovalue) : bool :=
  match a, b with
  | OInt x, OInt y => x =? y
  | OFloat x, OFloat y => of64_eq x y
  | OStr x, OStr y => bytes_eqb x y
  | OBool x, OBool y => Bool.eqb x y
  | OTs x, OTs y => x =? y
  | OInt x, OFloat y => f64_eq (f64_of_i64 x) y       (* a as f64 == b.0 *)
  | OFloat x, OInt y => f64_eq x (f64_of_i64 y)
  | _, _ => false
  end.

(** [Ord for OrderableValue] (l.647) *)
Definition ocmp (a b : ovalue) : comparison :=
  match a, b with
  | OInt x, OInt y => x ?= y
  | OFloat x, OFloat y => of64_cmp x y
  | OStr x, OStr y => bytes_cmp x y
  | OBool x, OBool y => bool_cmp x y
  | OTs x, OTs y => x ?= y
  | OInt x, OFloat y => of64_cmp (f64_of_i64 x) y
  | OFloat x, OInt y => of64_cmp x (f64_of_i64 y)
  | _, _ => oordinal a ?= oordinal b
  end.

(** [Hash for OrderableValue] (l.678) *)
Definition ofeed (o : ovalue) : list hword :=
  HIsize (otag o) ::
  match o with
  | OInt i => [HI64 i]
  | OFloat f => [HU64 f]                 (* OrderedFloat64::hash: to_bits().hash() *)
  | OStr s => hfeed_str s
  | OBool b => [HU8 (b2z b)]
  | OTs t => [HI64 t]
  end.

Definition owfb (o : ovalue) : bool := wfb (ointo_value o).

(** ** the row keys of DISTINCT and GROUP BY (distinct.rs [RowKey::from_row], aggregate.rs
       [GroupKey::from_row]; the two are textually the same function).  [Debug] text of the
       remaining variants is external ([dbg], a section variable wherever it is used). *)
Inductive keypart := KNull | KBool (b : bool) | KInt (i : Z) | KString (s : bytes).
Definition keypart_eqb (a b : keypart) : bool :=
  match a, b with
  | KNull, KNull => true
  | KBool x, KBool y => Bool.eqb x y
  | KInt x, KInt y => x =? y
  | KString x, KString y => bytes_eqb x y
  | _, _ => false
  end.
Definition keypart_of (dbg : value -> bytes) (v : value) : keypart :=
  match v with
  | VNull => KNull
  | VBool b => KBool b
  | VInt i => KInt i
  | VFloat f => KInt (sint64 f)            (* f.to_bits() as i64 *)
  | VStr s => KString s
  | _ => KString (dbg v)                   (* format!("{v:?}") *)
  end.
