(** The spill serializer (crates/grafeo-core/src/execution/spill/serializer.rs): one tag byte
    per value, fixed-width little-endian integers (no varints), u64 lengths.

      0 Null | 1 Bool b | 2 Int64 le8 | 3 Float64 le8(bits) | 4 String len8 bytes
      5 Bytes len8 bytes | 6 Timestamp le8 | 7 List len8 values | 8 Map len8 (klen8 key value)*
      9 Vector len8 le4(bits)*

    The reader accepts any non-zero byte as [true], checks UTF-8 on strings and keys, inserts
    map entries one by one into a BTreeMap, and fails on any other tag / on a short read.
    (On absurd lengths the Rust reader allocates first — [vec![0; len]], [Vec::with_capacity]
    — which the model does not describe; no writer produces such input.)
    Definitions only. *)
From GV Require Export Value.Bincode.
Open Scope Z_scope.

(** i64 <-> its two's-complement u64 ([to_le_bytes] / [from_le_bytes]) *)
Definition le8_i64 (i : Z) : bytes := le_bytes 8 (wrap64 i).
Definition sp_len {A} (l : list A) : bytes := le_bytes 8 (zlen l).

Definition sp_blob (s : bytes) : bytes := sp_len s ++ s.

Fixpoint sp_enc (v : value) : bytes :=
  vtag v ::
  match v with
  | VNull => []
  | VBool b => [b2z b]
  | VInt i => le8_i64 i
  | VFloat f => le_bytes 8 f
  | VStr s => sp_blob s
  | VBytes b => sp_blob b
  | VTs t => le8_i64 t
  | VList l => sp_len l ++ flat_map sp_enc l
  | VMap m => sp_len m ++ flat_map (fun kv => sp_blob (fst kv) ++ sp_enc (snd kv)) m
  | VVec x => sp_len x ++ flat_map (le_bytes 4) x
  end.

(** the byte count [serialize_value] returns *)
Fixpoint sp_size (v : value) : Z :=
  match v with
  | VNull => 1
  | VBool _ => 2
  | VInt _ | VFloat _ | VTs _ => 9
  | VStr s => 1 + 8 + zlen s
  | VBytes b => 1 + 8 + zlen b
  | VList l => fold_left (fun acc x => acc + sp_size x) l (1 + 8)
  | VMap m => fold_left (fun acc kv => acc + (8 + zlen (fst kv)) + sp_size (snd kv)) m (1 + 8)
  | VVec x => 1 + 8 + zlen x * 4
  end.

Definition sp_u64 (bs : bytes) : option (Z * bytes) :=
  do (x, r) <- take 8 bs; Some (of_le_bytes x, r).
Definition sp_i64 (bs : bytes) : option (Z * bytes) :=
  do (u, r) <- sp_u64 bs; Some (sint64 u, r).
Definition sp_dec_blob (bs : bytes) : option (bytes * bytes) :=
  do (n, r) <- sp_u64 bs; take n r.
Definition sp_dec_str (bs : bytes) : option (bytes * bytes) :=
  do (s, r) <- sp_dec_blob bs; if utf8_valid s then Some (s, r) else None.
Definition sp_dec_entry (d : bytes -> option (value * bytes)) (bs : bytes) : option ((bytes * value) * bytes) :=
  do (k, r) <- sp_dec_str bs; do (v, r') <- d r; Some ((k, v), r').
Definition sp_f32 (bs : bytes) : option (Z * bytes) :=
  do (x, r) <- take 4 bs; Some (of_le_bytes x, r).

Fixpoint sp_dec_fuel (fuel : nat) (bs : bytes) : option (value * bytes) :=
  match fuel with
  | O => None
  | S k =>
      match bs with
      | [] => None
      | tag :: r =>
          if tag =? 0 then Some (VNull, r)
          else if tag =? 1 then do (b, r') <- dec_u8 r; Some (VBool (negb (b =? 0)), r')
          else if tag =? 2 then do (i, r') <- sp_i64 r; Some (VInt i, r')
          else if tag =? 3 then do (f, r') <- sp_u64 r; Some (VFloat f, r')
          else if tag =? 4 then do (s, r') <- sp_dec_str r; Some (VStr s, r')
          else if tag =? 5 then do (b, r') <- sp_dec_blob r; Some (VBytes b, r')
          else if tag =? 6 then do (t, r') <- sp_i64 r; Some (VTs t, r')
          else if tag =? 7 then
            do (n, r') <- sp_u64 r; do (l, r'') <- dec_many (sp_dec_fuel k) k n r'; Some (VList l, r'')
          else if tag =? 8 then
            do (n, r') <- sp_u64 r;
            do (l, r'') <- dec_many (sp_dec_entry (sp_dec_fuel k)) k n r'; Some (VMap (mof_list l), r'')
          else if tag =? 9 then
            do (n, r') <- sp_u64 r; do (x, r'') <- dec_many sp_f32 k n r'; Some (VVec x, r'')
          else None
      end
  end.

Definition sp_dec (bs : bytes) : option (value * bytes) := sp_dec_fuel (S (length bs)) bs.

(** rows: [serialize_row] / [deserialize_row(expected_columns)] *)
Definition sp_enc_row (row : list value) : bytes := sp_len row ++ flat_map sp_enc row.
Definition sp_row_size (row : list value) : Z := fold_left (fun acc x => acc + sp_size x) row 8.
Definition sp_dec_row (expected : Z) (bs : bytes) : option (list value * bytes) :=
  do (n, r) <- sp_u64 bs;
  if (0 <? expected) && negb (n =? expected) then None
  else dec_many sp_dec (length r) n r.
