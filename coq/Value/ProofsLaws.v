(** C16 — the finding classes are EXACT: the boolean law checkers of Value/Laws.v (the very
    terms the check evaluates beside the implementation's verdict) hold precisely outside K. *)
From GV Require Import Base.BitsFacts Value.Laws Value.Induction Value.ProofsIeee Value.ProofsOrd.
From Coq Require Import Lia.
Open Scope Z_scope.

Lemma cle_true c : cle c = true <-> c <> Gt.
Proof. destruct c; cbn [cle cmp_eqb negb]; split; intros H; try reflexivity; try discriminate; congruence. Qed.

Lemma olaw_trans_sharp x y z :
  owfb x = true -> owfb y = true -> owfb z = true -> k_mid x y z = false -> olaw_trans x y z = true.
Proof.
  intros Wx Wy Wz K. unfold olaw_trans. apply andb_true_intro. split.
  - destruct (cle (ocmp x y)) eqn:E1; [|reflexivity]. destruct (cle (ocmp y z)) eqn:E2; [|reflexivity].
    cbn [andb implb]. apply cle_true. apply cle_true in E1, E2.
    apply (ocmp_le_trans_sharp_l x y z); assumption.
  - destruct (oeq x y) eqn:E1; [|reflexivity]. destruct (oeq y z) eqn:E2; [|reflexivity].
    cbn [andb implb]. apply (oeq_trans_sharp_l x y z); assumption.
Qed.

(** [k_trans] is invariant under every reordering of the triple *)
Lemma k_trans_swap12 x y z : k_trans y x z = k_trans x y z.
Proof. destruct x, y, z; cbn [k_trans]; try reflexivity; apply collide_sym. Qed.
Lemma k_trans_swap23 x y z : k_trans x z y = k_trans x y z.
Proof. destruct x, y, z; cbn [k_trans]; try reflexivity; apply collide_sym. Qed.

Lemma olaw_trans_all_outside_K_l : forall x y z,
  owfb x = true -> owfb y = true -> owfb z = true -> k_trans x y z = false -> olaw_trans_all x y z = true.
Proof.
  intros x y z Wx Wy Wz K. unfold olaw_trans_all, perms3. cbn [forallb fst snd].
  assert (K2 : k_trans x z y = false) by (rewrite k_trans_swap23; exact K).
  assert (K3 : k_trans y x z = false) by (rewrite k_trans_swap12; exact K).
  assert (K4 : k_trans y z x = false) by (rewrite k_trans_swap23; exact K3).
  assert (K5 : k_trans z x y = false) by (rewrite k_trans_swap12; exact K2).
  assert (K6 : k_trans z y x = false) by (rewrite k_trans_swap23; exact K5).
  rewrite !olaw_trans_sharp by (try assumption; apply k_trans_mid; assumption).
  reflexivity.
Qed.

Lemma olaw_trans_mid_fails i j f : collide i j f = true -> in_i64 i -> in_i64 j -> j < i ->
  olaw_trans (OInt i) (OFloat f) (OInt j) = false.
Proof.
  intros Hc Ii Ij Hlt. destruct (k_mid_tight_l i j f Hc Ii Ij Hlt) as (E1 & E2 & E3).
  unfold olaw_trans. rewrite E1, E2, E3. reflexivity.
Qed.

Lemma olaw_trans_all_inside_K_l : forall x y z,
  owfb x = true -> owfb y = true -> owfb z = true -> k_trans x y z = true -> olaw_trans_all x y z = false.
Proof.
  intros x y z Wx Wy Wz K.
  assert (Hex : exists t, In t (perms3 x y z) /\ olaw_trans (fst (fst t)) (snd (fst t)) (snd t) = false).
  { destruct x as [i| | | |], y as [j| | | |], z as [k| | | |]; cbn [k_trans] in K; try discriminate K.
    - (* I I F *) pose proof (owfb_int _ Wx) as Ii. pose proof (owfb_int _ Wy) as Ij.
      assert (NE : i <> j) by (apply collide_true_iff in K; tauto).
      destruct (Z.lt_total i j) as [L|[E|L]]; [|congruence|].
      + exists (OInt j, OFloat bits, OInt i). split; [cbn; tauto|]. cbn [fst snd].
        apply olaw_trans_mid_fails; auto. rewrite collide_sym. exact K.
      + exists (OInt i, OFloat bits, OInt j). split; [cbn; tauto|]. cbn [fst snd].
        apply olaw_trans_mid_fails; auto.
    - (* I F I *) pose proof (owfb_int _ Wx) as Ii. pose proof (owfb_int _ Wz) as Ij.
      assert (NE : i <> k) by (apply collide_true_iff in K; tauto).
      destruct (Z.lt_total i k) as [L|[E|L]]; [|congruence|].
      + exists (OInt k, OFloat bits, OInt i). split; [cbn; tauto|]. cbn [fst snd].
        apply olaw_trans_mid_fails; auto. rewrite collide_sym. exact K.
      + exists (OInt i, OFloat bits, OInt k). split; [cbn; tauto|]. cbn [fst snd].
        apply olaw_trans_mid_fails; auto.
    - (* F I I *) pose proof (owfb_int _ Wy) as Ii. pose proof (owfb_int _ Wz) as Ij.
      assert (NE : j <> k) by (apply collide_true_iff in K; tauto).
      destruct (Z.lt_total j k) as [L|[E|L]]; [|congruence|].
      + exists (OInt k, OFloat bits, OInt j). split; [cbn; tauto|]. cbn [fst snd].
        apply olaw_trans_mid_fails; auto. rewrite collide_sym. exact K.
      + exists (OInt j, OFloat bits, OInt k). split; [cbn; tauto|]. cbn [fst snd].
        apply olaw_trans_mid_fails; auto. }
  destruct Hex as (t & Hin & Hf). unfold olaw_trans_all.
  destruct (forallb _ (perms3 x y z)) eqn:E; [|reflexivity].
  rewrite forallb_forall in E. rewrite (E t Hin) in Hf. discriminate.
Qed.

(** K1 is exactly the set of (unordered) well-formed triples on which transitivity fails *)
Lemma k_trans_exact_l : forall x y z, owfb x = true -> owfb y = true -> owfb z = true ->
  olaw_trans_all x y z = negb (k_trans x y z).
Proof.
  intros x y z Wx Wy Wz. destruct (k_trans x y z) eqn:K; cbn [negb].
  - apply olaw_trans_all_inside_K_l; assumption.
  - apply olaw_trans_all_outside_K_l; assumption.
Qed.

(** K2 is exactly the set of well-formed pairs that are == and feed the hasher differently *)
Lemma feed_eqb_refl f : feed_eqb f f = true.
Proof.
  unfold feed_eqb. induction f as [|w r IH]; cbn [all2]; [reflexivity|]. rewrite IH, andb_true_r.
  destruct w; cbn [hword_eqb]; rewrite ?Z.eqb_refl; try reflexivity. apply bytes_eqb_refl.
Qed.
Lemma hword_eqb_eq a b : hword_eqb a b = true -> a = b.
Proof.
  destruct a, b; cbn [hword_eqb]; try discriminate; intros H;
    try (apply Z.eqb_eq in H; congruence).
  - apply bytes_eqb_spec in H. congruence.
  - apply andb_prop in H. destruct H as [H1 H2]. apply Z.eqb_eq in H1, H2. congruence.
Qed.
Lemma feed_eqb_eq f g : feed_eqb f g = true -> f = g.
Proof.
  unfold feed_eqb. revert g. induction f as [|a r IH]; intros [|b r2]; cbn [all2]; try discriminate; auto.
  intros H. apply andb_prop in H. destruct H as [H1 H2]. apply hword_eqb_eq in H1. apply IH in H2. congruence.
Qed.

Lemma k_hash_exact_l : forall x y, owfb x = true -> owfb y = true ->
  olaw_hash x y = negb (k_hash x y && oeq x y).
Proof.
  intros x y Wx Wy. unfold olaw_hash. destruct (oeq x y) eqn:E; cbn [implb]; [|rewrite andb_false_r; reflexivity].
  rewrite andb_true_r. destruct (k_hash x y) eqn:K; cbn [negb].
  - destruct (feed_eqb (ofeed x) (ofeed y)) eqn:F; [|reflexivity].
    apply feed_eqb_eq in F. exfalso. exact (k_hash_tight_l x y K E F).
  - rewrite (ohash_outside_K_l x y Wx Wy K E). apply feed_eqb_refl.
Qed.
