(** C16 — comparison of implementation observations with the model (run by checks/c16.py),
    the law checkers evaluated on the model, and the finding classes K. *)
From GV Require Export Value.Laws Value.RowKey.
Open Scope Z_scope.

(** ** floats (Value/Ieee.v against rustc) *)
(** a == b, a < b, a <= b, partial_cmp, total_cmp of two f64 given by their bits *)
Definition chk_f64_pair (a b : Z) (eq lt le : bool) (pc : option comparison) (tc : comparison) : bool :=
  Bool.eqb (f64_eq a b) eq && Bool.eqb (f64_lt a b) lt && Bool.eqb (f64_le a b) le
  && ocomparison_eqb (f64_partial_cmp a b) pc && cmp_eqb (f64_total_cmp a b) tc
  && cmp_eqb (of64_cmp a b) (match pc with Some c => c | None =>
                               if f64_is_nan a then (if f64_is_nan b then Eq else Gt) else Lt end).
(** is_nan, is_infinite, == 0.0, is_subnormal, is_sign_negative *)
Definition chk_f64_class (a : Z) (nan inf zero sub neg : bool) : bool :=
  Bool.eqb (f64_is_nan a) nan && Bool.eqb (f64_is_inf a) inf && Bool.eqb (f64_is_zero a) zero
  && Bool.eqb (f64_is_subnormal a) sub && Bool.eqb (f64_is_neg a) neg
  && fclass_eqb (f64_classify a)
       (if nan then FNan else if inf then FInf else if zero then FZero else if sub then FSubnormal else FNormal)
  && (f64_to_bits (f64_from_bits a) =? a).
Definition chk_f32_pair (a b : Z) (eq : bool) (pc : option comparison) : bool :=
  Bool.eqb (f32_eq a b) eq && ocomparison_eqb (f32_partial_cmp a b) pc.
Definition chk_f32_class (a : Z) (nan inf zero sub : bool) : bool :=
  Bool.eqb (f32_is_nan a) nan && Bool.eqb (f32_is_inf a) inf && Bool.eqb (f32_is_zero a) zero
  && Bool.eqb (f32_is_subnormal a) sub.
(** (i as f64).to_bits() *)
Definition chk_of_i64 (i bits : Z) : bool := f64_of_i64 i =? bits.

(** ** bincode primitives (the encoder's bytes, the decoder's result on those bytes) *)
Definition chk_bc_u64 (u : Z) (bs : bytes) : bool :=
  bytes_eqb (enc_u64 u) bs && option_eqb (fun p q => (fst p =? fst q) && bytes_eqb (snd p) (snd q)) (dec_u64 bs) (Some (u, [])).
Definition chk_bc_i64 (i : Z) (bs : bytes) : bool :=
  bytes_eqb (enc_i64 i) bs && option_eqb (fun p q => (fst p =? fst q) && bytes_eqb (snd p) (snd q)) (dec_i64 bs) (Some (i, [])).
Definition chk_bc_u32 (u : Z) (bs : bytes) : bool :=
  bytes_eqb (enc_u32 u) bs && option_eqb (fun p q => (fst p =? fst q) && bytes_eqb (snd p) (snd q)) (dec_u32 bs) (Some (u, [])).
(** decoding arbitrary bytes as u64 / u32 / i64: value and bytes consumed, or error *)
Definition dec_obs_eqb (bs : bytes) (m : option (Z * bytes)) (o : option (Z * Z)) : bool :=
  match m, o with
  | Some (v, r), Some (v', used) => (v =? v') && (zlen bs - zlen r =? used)
  | None, None => true
  | _, _ => false
  end.
Definition chk_bc_dec_int (bs : bytes) (o64 o32 oi64 : option (Z * Z)) : bool :=
  dec_obs_eqb bs (dec_u64 bs) o64 && dec_obs_eqb bs (dec_u32 bs) o32 && dec_obs_eqb bs (dec_i64 bs) oi64.

(** ** one value *)
(** the recorded [Hasher] calls of [HashableValue(v).hash(..)] *)
Definition chk_hfeed (v : value) (feed : list hword) : bool := wfb v && feed_eqb (hfeed v) feed.

Definition vz_eqb (p q : value * Z) : bool := value_eqb (fst p) (fst q) && (snd p =? snd q).
(** [encode_to_vec(&v, standard())] and [decode_from_slice] of those bytes (value, bytes read) *)
Definition chk_bincode (v : value) (bs : bytes) (dec : option (value * Z)) : bool :=
  bytes_eqb (enc_value v) bs && option_eqb vz_eqb (decode_from_slice bs) dec.
(** [decode_from_slice] on arbitrary (mutated) bytes *)
Definition chk_bincode_dec (bs : bytes) (dec : option (value * Z)) : bool :=
  option_eqb vz_eqb (decode_from_slice bs) dec
  && match dec with Some (v, _) => wfb v | None => true end.

(** [serialize_value] bytes + returned count, [deserialize_value] of those bytes *)
Definition chk_spill (v : value) (bs : bytes) (ret : Z) (dec : option value) : bool :=
  bytes_eqb (sp_enc v) bs && (sp_size v =? ret)
  && option_eqb value_eqb (match sp_dec bs with Some (x, []) => Some x | _ => None end) dec.
(** [deserialize_value] on mutated bytes: the value and the bytes consumed *)
Definition chk_spill_dec (bs : bytes) (dec : option (value * Z)) : bool :=
  option_eqb vz_eqb (match sp_dec bs with Some (x, r) => Some (x, zlen bs - zlen r) | None => None end) dec.
Definition chk_spill_row (row : list value) (bs : bytes) (ret expected : Z) (dec : option (list value)) : bool :=
  bytes_eqb (sp_enc_row row) bs && (sp_row_size row =? ret)
  && option_eqb (all2 value_eqb) (match sp_dec_row expected bs with Some (x, []) => Some x | _ => None end) dec.

(** [OrderableValue::try_from(&v)], its hash feed, [into_value()] *)
Definition chk_orderable (v : value) (o : option (ovalue * list hword * value)) : bool :=
  match otry_from v, o with
  | None, None => true
  | Some x, Some (x', feed, back) =>
      ovalue_eqb x x' && feed_eqb (ofeed x) feed && value_eqb (ointo_value x) back && value_eqb back v
  | _, _ => false
  end.

(** ** pairs: HashableValue ==, Value == (derived), and, when both are orderable,
       OrderableValue == and cmp *)
Definition chk_pair (a b : value) (h d : bool) (o : option (bool * comparison)) : bool :=
  Bool.eqb (heq a b) h && Bool.eqb (veq a b) d
  && match otry_from a, otry_from b, o with
     | Some x, Some y, Some (e, c) => Bool.eqb (oeq x y) e && cmp_eqb (ocmp x y) c
     | Some _, Some _, None => false
     | _, _, None => true
     | _, _, Some _ => false
     end.

(** the harness reports [hash_ok]/[pair_ok] (implementation verdicts) for a pair *)
Definition chk_pair_laws (a b : value) (h_ok : bool) (o : option (bool * bool)) : bool :=
  Bool.eqb (hlaw_pair a b) h_ok
  && match otry_from a, otry_from b, o with
     | Some x, Some y, Some (p_ok, hash_ok) => Bool.eqb (olaw_pair x y) p_ok && Bool.eqb (olaw_hash x y && olaw_hash y x) hash_ok
     | Some _, Some _, None => false
     | _, _, None => true
     | _, _, Some _ => false
     end.
(** transitivity verdict of the implementation over all six orders of a triple; and
    whether a BTreeIndex keyed by the three values has an insertion-order-independent size *)
Definition chk_triple (x y z : ovalue) (trans_ok : bool) : bool := Bool.eqb (olaw_trans_all x y z) trans_ok.
Definition htrans (a b c : value) : bool := implb (heq a b && heq b c) (heq a c).
Definition chk_htriple (a b c : value) (ok : bool) : bool :=
  Bool.eqb (forallb (fun t => htrans (fst (fst t)) (snd (fst t)) (snd t)) (perms3 a b c)) ok.

(** what the model predicts for "DISTINCT keeps both rows" when neither value is keyed by Debug text *)
Definition no_dbg (v : value) : bytes := [].
Definition chk_rowkey (a b : value) (merged : bool) : bool :=
  if is_simple_key a && is_simple_key b
  then Bool.eqb (keypart_eqb (keypart_of no_dbg a) (keypart_of no_dbg b)) merged
  else true.

(** the key GROUP BY returns for a single input key *)
Definition chk_groupkey (v ret : value) : bool :=
  if is_simple_key v then value_eqb (group_key_out no_dbg v) ret else true.

(** the payload of the WAL frame [len u32 | payload | crc32] that [WalManager::log] writes for
    [WalRecord::SetNodeProperty { id, key, value }] (variant 4: id u64, key String, value) *)
Definition chk_wal_setprop (id : Z) (key : bytes) (v : value) (payload : bytes) : bool :=
  bytes_eqb (enc_u32 4 ++ enc_u64 id ++ enc_str key ++ enc_value v) payload.

(** one case per unordered pair: both directions and the law verdicts, the values written once *)
Definition chk_pair2 (a b : value) (h1 d1 : bool) (o1 : option (bool * comparison))
                     (h2 d2 : bool) (o2 : option (bool * comparison))
                     (h_ok : bool) (laws : option (bool * bool)) : bool :=
  chk_pair a b h1 d1 o1 && chk_pair b a h2 d2 o2 && chk_pair_laws a b h_ok laws.
Definition chk_rowkey2 (a b : value) (merged gmerged : bool) : bool :=
  chk_rowkey a b merged && chk_rowkey a b gmerged.
Definition k_rowkey_ne (a b : value) : bool := k_rowkey a b && negb (value_eqb a b).
