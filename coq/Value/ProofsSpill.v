(** C16 — round-trip proofs for the spill serializer model ([Value/Spill.v]): every well-formed
    value (row) is read back exactly, with every continuation [rest]; the size function agrees
    with the number of bytes written; the encoding is injective (prefix-free).

    No axioms; every lemma is closed with Qed. *)
From GV Require Import Base.BitsFacts Value.Laws Value.Induction Value.ProofsBincode.
From Coq Require Import ZArith Lia List Bool ZifyBool.
Import ListNotations.
Open Scope Z_scope.

(** ** primitives *)
Lemma sp_u64_roundtrip z rest : in_u64 z -> sp_u64 (le_bytes 8 z ++ rest) = Some (z, rest).
Proof. intros Hz. exact (f64_roundtrip_l z rest Hz). Qed.

Lemma sp_i64_roundtrip i rest : in_i64 i -> sp_i64 (le8_i64 i ++ rest) = Some (i, rest).
Proof.
  intros Hi. unfold sp_i64, le8_i64. rewrite sp_u64_roundtrip by apply wrap64_range.
  cbn [obind]. rewrite sint64_wrap64, sint64_small by exact Hi. reflexivity.
Qed.

Lemma sp_f32_roundtrip z rest : 0 <= z < 2 ^ 32 -> sp_f32 (le_bytes 4 z ++ rest) = Some (z, rest).
Proof. intros Hz. exact (f32_roundtrip_l z rest Hz). Qed.

Lemma sp_len_roundtrip {A} (l : list A) rest : zlen l < two64 -> sp_u64 (sp_len l ++ rest) = Some (zlen l, rest).
Proof. intros Hl. unfold sp_len. apply sp_u64_roundtrip. apply zlen_in_u64. exact Hl. Qed.

Lemma sp_blob_roundtrip s rest : zlen s < two64 -> sp_dec_blob (sp_blob s ++ rest) = Some (s, rest).
Proof.
  intros Hs. unfold sp_dec_blob, sp_blob. rewrite <- app_assoc, sp_len_roundtrip by exact Hs.
  cbn [obind]. apply take_app.
Qed.

Lemma sp_str_roundtrip s rest : utf8_valid s = true -> zlen s < two64 ->
  sp_dec_str (sp_blob s ++ rest) = Some (s, rest).
Proof.
  intros Hu Hs. unfold sp_dec_str. rewrite sp_blob_roundtrip by exact Hs. cbn [obind].
  rewrite Hu. reflexivity.
Qed.

Lemma sp_len_length {A} (l : list A) : length (sp_len l) = 8%nat.
Proof. unfold sp_len. apply le_bytes_length. Qed.

(** ** one decoding step *)
Lemma sp_dec_fuel_S k tag r :
  sp_dec_fuel (S k) (tag :: r) =
  if tag =? 0 then Some (VNull, r)
  else if tag =? 1 then do (b, r') <- dec_u8 r; Some (VBool (negb (b =? 0)), r')
  else if tag =? 2 then do (i, r') <- sp_i64 r; Some (VInt i, r')
  else if tag =? 3 then do (f, r') <- sp_u64 r; Some (VFloat f, r')
  else if tag =? 4 then do (s, r') <- sp_dec_str r; Some (VStr s, r')
  else if tag =? 5 then do (b, r') <- sp_dec_blob r; Some (VBytes b, r')
  else if tag =? 6 then do (t, r') <- sp_i64 r; Some (VTs t, r')
  else if tag =? 7 then
    do (n, r') <- sp_u64 r; do (l, r'') <- dec_many (sp_dec_fuel k) k n r'; Some (VList l, r'')
  else if tag =? 8 then
    do (n, r') <- sp_u64 r;
    do (l, r'') <- dec_many (sp_dec_entry (sp_dec_fuel k)) k n r'; Some (VMap (mof_list l), r'')
  else if tag =? 9 then
    do (n, r') <- sp_u64 r; do (x, r'') <- dec_many sp_f32 k n r'; Some (VVec x, r'')
  else None.
Proof. reflexivity. Qed.

Lemma sp_tag_0 k r : sp_dec_fuel (S k) (0 :: r) = Some (VNull, r).
Proof. reflexivity. Qed.
Lemma sp_tag_1 k r : sp_dec_fuel (S k) (1 :: r) = do (b, r') <- dec_u8 r; Some (VBool (negb (b =? 0)), r').
Proof. reflexivity. Qed.
Lemma sp_tag_2 k r : sp_dec_fuel (S k) (2 :: r) = do (i, r') <- sp_i64 r; Some (VInt i, r').
Proof. reflexivity. Qed.
Lemma sp_tag_3 k r : sp_dec_fuel (S k) (3 :: r) = do (f, r') <- sp_u64 r; Some (VFloat f, r').
Proof. reflexivity. Qed.
Lemma sp_tag_4 k r : sp_dec_fuel (S k) (4 :: r) = do (s, r') <- sp_dec_str r; Some (VStr s, r').
Proof. reflexivity. Qed.
Lemma sp_tag_5 k r : sp_dec_fuel (S k) (5 :: r) = do (b, r') <- sp_dec_blob r; Some (VBytes b, r').
Proof. reflexivity. Qed.
Lemma sp_tag_6 k r : sp_dec_fuel (S k) (6 :: r) = do (t, r') <- sp_i64 r; Some (VTs t, r').
Proof. reflexivity. Qed.
Lemma sp_tag_7 k r : sp_dec_fuel (S k) (7 :: r) =
  do (n, r') <- sp_u64 r; do (l, r'') <- dec_many (sp_dec_fuel k) k n r'; Some (VList l, r'').
Proof. reflexivity. Qed.
Lemma sp_tag_8 k r : sp_dec_fuel (S k) (8 :: r) =
  do (n, r') <- sp_u64 r;
  do (l, r'') <- dec_many (sp_dec_entry (sp_dec_fuel k)) k n r'; Some (VMap (mof_list l), r'').
Proof. reflexivity. Qed.
Lemma sp_tag_9 k r : sp_dec_fuel (S k) (9 :: r) =
  do (n, r') <- sp_u64 r; do (x, r'') <- dec_many sp_f32 k n r'; Some (VVec x, r'').
Proof. reflexivity. Qed.

Lemma spill_roundtrip_fuel_l : forall v fuel rest, wf v -> (vsize v <= fuel)%nat ->
  sp_dec_fuel fuel (sp_enc v ++ rest) = Some (v, rest).
Proof.
  intros v.
  induction v as [|b|i|f|s|b|t|l IHl|m IHm|x] using value_ind'; intros fuel rest Hwf Hsz;
    (destruct fuel as [|k]; [pose proof (vsize_pos VNull); cbn [vsize] in *; lia|]);
    unfold wf in Hwf; cbn [wfb] in Hwf; cbn [sp_enc vtag]; rewrite <- app_comm_cons.
  - (* Null *) rewrite sp_tag_0. reflexivity.
  - (* Bool *) rewrite sp_tag_1. destruct b; reflexivity.
  - (* Int *) rewrite sp_tag_2. apply in_i64b_spec in Hwf. rewrite sp_i64_roundtrip by exact Hwf. reflexivity.
  - (* Float *) rewrite sp_tag_3. apply in_u64b_spec in Hwf. rewrite sp_u64_roundtrip by exact Hwf. reflexivity.
  - (* Str *) rewrite sp_tag_4. apply andb_prop in Hwf. destruct Hwf as [Hu Hl]. apply wf_len_ok in Hl.
    rewrite sp_str_roundtrip by assumption. reflexivity.
  - (* Bytes *) rewrite sp_tag_5. apply andb_prop in Hwf. destruct Hwf as [_ Hl]. apply wf_len_ok in Hl.
    rewrite sp_blob_roundtrip by assumption. reflexivity.
  - (* Timestamp *) rewrite sp_tag_6. apply in_i64b_spec in Hwf. rewrite sp_i64_roundtrip by exact Hwf. reflexivity.
  - (* List *) rewrite sp_tag_7. apply andb_prop in Hwf. destruct Hwf as [Hall Hl]. apply wf_len_ok in Hl.
    cbn [vsize] in Hsz.
    rewrite <- app_assoc, sp_len_roundtrip by exact Hl. cbn [obind].
    rewrite (dec_many_roundtrip_l value sp_enc (sp_dec_fuel k) l k rest); [reflexivity| |].
    + rewrite forallb_forall in Hall. rewrite Forall_forall in IHl |- *.
      intros y Hy r. apply (IHl y Hy); [apply Hall; exact Hy|].
      pose proof (sum_ge_in vsize l y Hy) as Hle. cbn beta in Hle. lia.
    + pose proof (sum_ge_len vsize l vsize_pos) as Hle. cbn beta in Hle. lia.
  - (* Map *) rewrite sp_tag_8. apply andb_prop in Hwf. destruct Hwf as [Hwf Hl]. apply wf_len_ok in Hl.
    apply andb_prop in Hwf. destruct Hwf as [Hall Hsorted].
    cbn [vsize] in Hsz.
    rewrite <- app_assoc, sp_len_roundtrip by exact Hl. cbn [obind].
    rewrite (dec_many_roundtrip_l (bytes * value) (fun kv => sp_blob (fst kv) ++ sp_enc (snd kv))
               (sp_dec_entry (sp_dec_fuel k)) m k rest).
    + cbn [obind]. rewrite mof_list_sorted_l by exact Hsorted. reflexivity.
    + rewrite forallb_forall in Hall. rewrite Forall_forall in IHm |- *.
      intros [key y] Hy r. specialize (Hall _ Hy). cbn [fst snd] in Hall |- *.
      apply andb_prop in Hall. destruct Hall as [Hall Hwy]. apply andb_prop in Hall.
      destruct Hall as [Hku Hkl]. apply wf_len_ok in Hkl.
      unfold sp_dec_entry. rewrite <- app_assoc, sp_str_roundtrip by assumption. cbn [obind].
      pose proof (IHm (key, y) Hy k r) as IHy. cbn [snd] in IHy.
      rewrite IHy; [reflexivity | exact Hwy |].
      pose proof (sum_ge_in (fun kv : bytes * value => vsize (snd kv)) m (key, y) Hy) as Hle.
      cbn beta in Hle. cbn [snd] in Hle |- *. lia.
    + pose proof (sum_ge_len (fun kv : bytes * value => vsize (snd kv)) m (fun kv => vsize_pos (snd kv))) as Hle.
      cbn beta in Hle. lia.
  - (* Vector *) rewrite sp_tag_9. apply andb_prop in Hwf. destruct Hwf as [Hall Hl]. apply wf_len_ok in Hl.
    cbn [vsize] in Hsz.
    rewrite <- app_assoc, sp_len_roundtrip by exact Hl. cbn [obind].
    rewrite (dec_many_roundtrip_l Z (le_bytes 4) sp_f32 x k rest); [reflexivity| | lia].
    rewrite forallb_forall in Hall. rewrite Forall_forall.
    intros y Hy r. apply sp_f32_roundtrip. specialize (Hall y Hy).
    unfold in_u32b, two32 in Hall. lia.
Qed.

Lemma sp_enc_nonempty v : (1 <= length (sp_enc v))%nat.
Proof. destruct v; cbn [sp_enc length]; lia. Qed.

Lemma vsize_le_sp_enc_l : forall v, (vsize v <= length (sp_enc v))%nat.
Proof.
  intros v.
  induction v as [|b|i|f|s|b|t|l IHl|m IHm|x] using value_ind';
    cbn [sp_enc vsize length]; unfold sp_blob; rewrite ?app_length, ?sp_len_length; try lia.
  - pose proof (sum_le_flat_map vsize sp_enc l IHl) as Hle. cbn beta in Hle. lia.
  - pose proof (sum_le_flat_map (fun kv : bytes * value => vsize (snd kv))
                  (fun kv => (sp_len (fst kv) ++ fst kv) ++ sp_enc (snd kv)) m) as Hle.
    cbn beta in Hle.
    assert (HF : Forall (fun kv : bytes * value =>
                (vsize (snd kv) <= length ((sp_len (fst kv) ++ fst kv) ++ sp_enc (snd kv)))%nat) m).
    { eapply Forall_impl; [|exact IHm]. intros kv Hkv. cbn beta in Hkv |- *.
      rewrite !app_length. lia. }
    specialize (Hle HF). lia.
  - pose proof (le_bytes_flat_len 3 x) as Hle. lia.
Qed.

Lemma spill_roundtrip_l : forall v rest, wf v -> sp_dec (sp_enc v ++ rest) = Some (v, rest).
Proof.
  intros v rest Hwf. unfold sp_dec. apply spill_roundtrip_fuel_l; [exact Hwf|].
  pose proof (vsize_le_sp_enc_l v) as Hle. rewrite app_length. lia.
Qed.

(** ** the byte count returned by [serialize_value] is the number of bytes written
       (no well-formedness needed) *)
Lemma fold_left_size {A} (g : Z -> A -> Z) (e : A -> bytes) (l : list A) :
  Forall (fun x => forall acc, g acc x = acc + zlen (e x)) l ->
  forall a, fold_left g l a = a + zlen (flat_map e l).
Proof.
  intros HF. induction HF as [|x l Hx _ IH]; intros a; cbn [fold_left flat_map].
  - rewrite zlen_nil. lia.
  - rewrite IH, Hx, zlen_app. lia.
Qed.

Lemma zlen_le_bytes n z : zlen (le_bytes n z) = Z.of_nat n.
Proof. unfold zlen. rewrite le_bytes_length. reflexivity. Qed.
Lemma zlen_sp_len {A} (l : list A) : zlen (sp_len l) = 8.
Proof. unfold sp_len. apply (zlen_le_bytes 8). Qed.

Lemma zlen_flat_le4 (x : list Z) : zlen (flat_map (le_bytes 4) x) = zlen x * 4.
Proof.
  induction x as [|a x IH]; cbn [flat_map]; [reflexivity|].
  rewrite zlen_app, zlen_cons, IH, (zlen_le_bytes 4). lia.
Qed.

Lemma spill_size_l : forall v, sp_size v = zlen (sp_enc v).
Proof.
  intros v.
  induction v as [|b|i|f|s|b|t|l IHl|m IHm|x] using value_ind';
    cbn [sp_enc sp_size vtag]; unfold sp_blob, le8_i64;
    rewrite ?zlen_cons, ?zlen_app, ?zlen_sp_len, ?zlen_nil, ?(zlen_le_bytes 8), ?zlen_flat_le4; try lia.
  - rewrite (fold_left_size _ sp_enc l); [lia|].
    eapply Forall_impl; [|exact IHl]. intros y Hy acc. cbn beta in Hy. rewrite Hy. reflexivity.
  - rewrite (fold_left_size _ (fun kv : bytes * value => (sp_len (fst kv) ++ fst kv) ++ sp_enc (snd kv)) m); [lia|].
    eapply Forall_impl; [|exact IHm]. intros kv Hkv acc. cbn beta in Hkv |- *.
    (* the model's [sp_size] mentions the key type as [list Z], the induction principle as [bytes] *)
    change (@snd (list Z) value kv) with (@snd bytes value kv).
    change (@fst (list Z) value kv) with (@fst bytes value kv).
    rewrite Hkv, !zlen_app, zlen_sp_len. lia.
Qed.

(** ** rows *)
Lemma spill_row_roundtrip_l : forall row rest e, Forall wf row -> zlen row < two64 ->
  (e = 0 \/ e = zlen row) -> sp_dec_row e (sp_enc_row row ++ rest) = Some (row, rest).
Proof.
  intros row rest e Hwf Hlen He. unfold sp_dec_row, sp_enc_row.
  rewrite <- app_assoc, sp_len_roundtrip by exact Hlen. cbn [obind].
  replace ((0 <? e) && negb (zlen row =? e)) with false by (destruct He as [He|He]; subst e; lia).
  apply dec_many_roundtrip_l.
  - eapply Forall_impl; [|exact Hwf]. intros v Hv r. cbn beta in Hv. apply spill_roundtrip_l. exact Hv.
  - rewrite app_length. pose proof (len_le_flat_map sp_enc row sp_enc_nonempty) as Hle. lia.
Qed.

Lemma spill_injective_l : forall a b r1 r2, wf a -> wf b ->
  sp_enc a ++ r1 = sp_enc b ++ r2 -> a = b /\ r1 = r2.
Proof.
  intros a b r1 r2 Ha Hb Heq.
  pose proof (spill_roundtrip_l a r1 Ha) as H1.
  pose proof (spill_roundtrip_l b r2 Hb) as H2.
  rewrite Heq, H2 in H1. injection H1 as -> ->. split; reflexivity.
Qed.
