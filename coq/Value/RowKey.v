(** C16 — the group key that GROUP BY hands back (aggregate.rs [GroupKey::to_values]) and the
    class of values it does not preserve.  Definitions only. *)
From GV Require Export Value.Laws.
Open Scope Z_scope.

Definition keypart_to_value (k : keypart) : value :=
  match k with
  | KNull => VNull
  | KBool b => VBool b
  | KInt i => VInt i
  | KString s => VStr s
  end.

(** the key column of the output row for an input key [v] *)
Definition group_key_out (dbg : value -> bytes) (v : value) : value := keypart_to_value (keypart_of dbg v).

(** C16-K3 (single value): every float (returned as the integer with its bits) and every value
    keyed by its Debug text (returned as that text) *)
Definition k_groupkey (v : value) : bool :=
  match v with VFloat _ => true | _ => negb (is_simple_key v) end.
