(** C16 — order / equality / hash laws of [OrderedFloat64] and [OrderableValue] on the model
    (Value/Model.v): what holds everywhere, what holds outside the finding classes K of
    Value/Laws.v, tightness of the classes, and the refutations on witnesses. *)
From GV Require Import Base.BitsFacts Value.Laws Value.Induction Value.ProofsIeee.
From Coq Require Import ZArith Lia Bool.
Open Scope Z_scope.

(** * [OrderedFloat64] *)
Lemma of64_cmp_unfold a b :
  of64_cmp a b =
  match f64_is_nan a, f64_is_nan b with
  | true, true => Eq
  | true, false => Gt
  | false, true => Lt
  | false, false => f64_key a ?= f64_key b
  end.
Proof.
  unfold of64_cmp, f64_partial_cmp. destruct (f64_is_nan a), (f64_is_nan b); reflexivity.
Qed.

Lemma of64_eq_unfold a b :
  of64_eq a b =
  match f64_is_nan a, f64_is_nan b with
  | true, true => true
  | true, false | false, true => false
  | false, false => f64_key a =? f64_key b
  end.
Proof.
  unfold of64_eq, f64_eq. destruct (f64_is_nan a), (f64_is_nan b); reflexivity.
Qed.

Lemma f64_eq_unfold a b :
  f64_eq a b =
  match f64_is_nan a, f64_is_nan b with
  | false, false => f64_key a =? f64_key b
  | _, _ => false
  end.
Proof.
  unfold f64_eq. destruct (f64_is_nan a), (f64_is_nan b); reflexivity.
Qed.

Lemma of64_le_iff a b :
  of64_cmp a b <> Gt <->
  (f64_is_nan b = true \/ (f64_is_nan a = false /\ f64_is_nan b = false /\ f64_key a <= f64_key b)).
Proof.
  rewrite of64_cmp_unfold. destruct (f64_is_nan a), (f64_is_nan b);
    rewrite ?Z.compare_le_iff; intuition (try discriminate; try congruence).
Qed.

Lemma of64_lt_iff a b :
  of64_cmp a b = Lt <->
  (f64_is_nan a = false /\ (f64_is_nan b = true \/ f64_key a < f64_key b)).
Proof.
  rewrite of64_cmp_unfold. destruct (f64_is_nan a), (f64_is_nan b);
    rewrite ?Z.compare_lt_iff; intuition (try discriminate; try congruence).
Qed.

Lemma of64_eq_iff a b :
  of64_cmp a b = Eq <->
  ((f64_is_nan a = true /\ f64_is_nan b = true)
   \/ (f64_is_nan a = false /\ f64_is_nan b = false /\ f64_key a = f64_key b)).
Proof.
  rewrite of64_cmp_unfold. destruct (f64_is_nan a), (f64_is_nan b);
    rewrite ?Z.compare_eq_iff; intuition (try discriminate; try congruence).
Qed.

Lemma of64_cmp_refl a : of64_cmp a a = Eq.
Proof.
  rewrite of64_cmp_unfold. destruct (f64_is_nan a); [reflexivity|apply Z.compare_refl].
Qed.

Lemma of64_cmp_antisym a b : of64_cmp b a = CompOpp (of64_cmp a b).
Proof.
  rewrite !of64_cmp_unfold. destruct (f64_is_nan a), (f64_is_nan b); try reflexivity.
  apply Z.compare_antisym.
Qed.

Lemma of64_eq_cmp a b : of64_eq a b = true <-> of64_cmp a b = Eq.
Proof.
  rewrite of64_eq_unfold, of64_cmp_unfold. destruct (f64_is_nan a), (f64_is_nan b);
    try (split; intros H; (reflexivity || discriminate H)).
  rewrite Z.eqb_eq, Z.compare_eq_iff. reflexivity.
Qed.

Lemma of64_eq_refl a : of64_eq a a = true.
Proof. apply of64_eq_cmp, of64_cmp_refl. Qed.

Lemma of64_eq_sym a b : of64_eq a b = of64_eq b a.
Proof.
  rewrite !of64_eq_unfold. destruct (f64_is_nan a), (f64_is_nan b); try reflexivity.
  apply Z.eqb_sym.
Qed.

Lemma f64_eq_sym a b : f64_eq a b = f64_eq b a.
Proof.
  rewrite !f64_eq_unfold. destruct (f64_is_nan a), (f64_is_nan b); try reflexivity.
  apply Z.eqb_sym.
Qed.

(** [f64_eq] (IEEE ==) agrees with [of64_cmp = Eq] as soon as one side is not NaN *)
Lemma f64_eq_cmp_l a b : f64_is_nan a = false -> (f64_eq a b = true <-> of64_cmp a b = Eq).
Proof.
  intros Na. rewrite f64_eq_unfold, of64_cmp_unfold, Na. destruct (f64_is_nan b).
  - split; intros H; discriminate H.
  - rewrite Z.eqb_eq, Z.compare_eq_iff. reflexivity.
Qed.
Lemma f64_eq_cmp_r a b : f64_is_nan b = false -> (f64_eq a b = true <-> of64_cmp a b = Eq).
Proof.
  intros Nb. rewrite f64_eq_unfold, of64_cmp_unfold, Nb. destruct (f64_is_nan a).
  - split; intros H; discriminate H.
  - rewrite Z.eqb_eq, Z.compare_eq_iff. reflexivity.
Qed.

Lemma of64_cle_trans a b c : of64_cmp a b <> Gt -> of64_cmp b c <> Gt -> of64_cmp a c <> Gt.
Proof.
  rewrite !of64_le_iff.
  intros [H1|(A1 & B1 & C1)] [H2|(A2 & B2 & C2)]; try (left; assumption); try congruence.
  right. repeat split; try assumption. lia.
Qed.

Lemma of64_lt_trans a b c : of64_cmp a b = Lt -> of64_cmp b c = Lt -> of64_cmp a c = Lt.
Proof.
  rewrite !of64_lt_iff.
  intros (A1 & [H1|C1]) (A2 & [H2|C2]); try congruence; (split; [assumption|]).
  - left; assumption.
  - right; lia.
Qed.

Lemma of64_eq_trans a b c : of64_cmp a b = Eq -> of64_cmp b c = Eq -> of64_cmp a c = Eq.
Proof.
  rewrite !of64_eq_iff.
  intros [(A1 & B1)|(A1 & B1 & C1)] [(A2 & B2)|(A2 & B2 & C2)]; try congruence.
  - left; split; assumption.
  - right; repeat split; try assumption. lia.
Qed.

Lemma of64_le_lt_trans a b c : of64_cmp a b <> Gt -> of64_cmp b c = Lt -> of64_cmp a c = Lt.
Proof.
  rewrite of64_le_iff, !of64_lt_iff.
  intros [H1|(A1 & B1 & C1)] (A2 & [H2|C2]); try congruence; (split; [assumption|]).
  - left; assumption.
  - right; lia.
Qed.

Lemma of64_lt_le_trans a b c : of64_cmp a b = Lt -> of64_cmp b c <> Gt -> of64_cmp a c = Lt.
Proof.
  rewrite of64_le_iff, !of64_lt_iff.
  intros (A1 & [H1|C1]) [H2|(A2 & B2 & C2)]; try congruence; (split; [assumption|]).
  - left; assumption.
  - left; assumption.
  - right; lia.
Qed.

(** bit-level consequence of equality: with both patterns in the u64 range, equal keys of
    two patterns that are not both zeros force equal bits *)
Lemma f64_key_inj p q : in_u64 p -> in_u64 q -> f64_key p = f64_key q ->
  f64_is_zero p && f64_is_zero q = false -> p = q.
Proof.
  unfold in_u64, f64_key, f64_sign, f64_is_zero, f64_mag. rewrite two63_val, two64_val.
  intros Hp Hq.
  destruct (Z.eqb_spec (p / 9223372036854775808) 0) as [S1|S1],
           (Z.eqb_spec (q / 9223372036854775808) 0) as [S2|S2],
           (Z.eqb_spec (p mod 9223372036854775808) 0) as [M1|M1],
           (Z.eqb_spec (q mod 9223372036854775808) 0) as [M2|M2];
    cbn [andb]; intros K Z0; try discriminate Z0; Z.div_mod_to_equations; lia.
Qed.

Lemma of64_eq_bits p q : in_u64 p -> in_u64 q -> of64_eq p q = true ->
  f64_is_nan p && f64_is_nan q = false -> f64_is_zero p && f64_is_zero q = false -> p = q.
Proof.
  intros Hp Hq E N Z0. rewrite of64_eq_unfold in E.
  destruct (f64_is_nan p), (f64_is_nan q); try discriminate.
  apply Z.eqb_eq in E. apply f64_key_inj; assumption.
Qed.

(** * [OrderableValue] *)

(** the ordinal classes of [Ord]: Bool < {Int, Float} < String < Timestamp *)
Definition oclass (o : ovalue) : Z :=
  match o with OBool _ => 0 | OInt _ | OFloat _ => 1 | OStr _ => 3 | OTs _ => 4 end.

Lemma ocmp_class_lt x y : oclass x < oclass y -> ocmp x y = Lt.
Proof. destruct x, y; cbn [oclass]; intros H; try lia; reflexivity. Qed.
Lemma ocmp_class_gt x y : oclass y < oclass x -> ocmp x y = Gt.
Proof. destruct x, y; cbn [oclass]; intros H; try lia; reflexivity. Qed.
Lemma oeq_class_ne x y : oclass x <> oclass y -> oeq x y = false.
Proof. destruct x, y; cbn [oclass]; intros H; try lia; reflexivity. Qed.

Lemma ocmp_le_class x y : ocmp x y <> Gt -> oclass x <= oclass y.
Proof.
  intros H. destruct (Z_lt_le_dec (oclass y) (oclass x)) as [L|L]; [|exact L].
  exfalso. apply H. apply ocmp_class_gt. exact L.
Qed.
Lemma ocmp_lt_class x y : ocmp x y = Lt -> oclass x <= oclass y.
Proof. intros H. apply ocmp_le_class. rewrite H. discriminate. Qed.
Lemma oeq_class x y : oeq x y = true -> oclass x = oclass y.
Proof.
  intros H. destruct (Z.eq_dec (oclass x) (oclass y)) as [E|N]; [exact E|].
  rewrite (oeq_class_ne x y N) in H. discriminate H.
Qed.

Lemma bool_cmp_refl b : bool_cmp b b = Eq.
Proof. destruct b; reflexivity. Qed.
Lemma bool_cmp_antisym a b : bool_cmp b a = CompOpp (bool_cmp a b).
Proof. destruct a, b; reflexivity. Qed.
Lemma bool_eqb_cmp a b : Bool.eqb a b = true <-> bool_cmp a b = Eq.
Proof. destruct a, b; cbn [Bool.eqb bool_cmp]; split; intros H; (reflexivity || discriminate H). Qed.

Lemma bytes_cmp_le_trans (a b c : bytes) :
  bytes_cmp a b <> Gt -> bytes_cmp b c <> Gt -> bytes_cmp a c <> Gt.
Proof.
  intros H1 H2.
  destruct (bytes_cmp a b) eqn:E1; [| |congruence].
  - apply bytes_cmp_eq in E1. subst b. exact H2.
  - destruct (bytes_cmp b c) eqn:E2; [| |congruence].
    + apply bytes_cmp_eq in E2. subst c. rewrite E1. discriminate.
    + rewrite (bytes_cmp_lt_trans a b c E1 E2). discriminate.
Qed.

(** ** laws that hold for every pair *)
Lemma ocmp_refl_l : forall x, ocmp x x = Eq.
Proof.
  intros [i|f|s|b|t]; cbn [ocmp].
  - apply Z.compare_refl.
  - apply of64_cmp_refl.
  - apply bytes_cmp_refl.
  - apply bool_cmp_refl.
  - apply Z.compare_refl.
Qed.

Lemma oeq_refl_l : forall x, oeq x x = true.
Proof.
  intros [i|f|s|b|t]; cbn [oeq].
  - apply Z.eqb_refl.
  - apply of64_eq_refl.
  - apply bytes_eqb_refl.
  - apply Bool.eqb_reflx.
  - apply Z.eqb_refl.
Qed.

Lemma ocmp_antisym_l : forall x y, ocmp y x = CompOpp (ocmp x y).
Proof.
  intros x y.
  destruct x as [i|f|s|b|t], y as [i'|f'|s'|b'|t']; cbn [ocmp oordinal];
    first [ apply Z.compare_antisym | apply of64_cmp_antisym | apply bytes_cmp_antisym
          | apply bool_cmp_antisym ].
Qed.

Lemma oeq_sym_l : forall x y, oeq x y = oeq y x.
Proof.
  intros x y.
  destruct x as [i|f|s|b|t], y as [i'|f'|s'|b'|t']; cbn [oeq]; try reflexivity.
  - apply Z.eqb_sym.
  - apply f64_eq_sym.
  - apply f64_eq_sym.
  - apply of64_eq_sym.
  - destruct (bytes_eqb s s') eqn:E1, (bytes_eqb s' s) eqn:E2; try reflexivity.
    + apply bytes_eqb_spec in E1. subst s'. rewrite bytes_eqb_refl in E2. discriminate E2.
    + apply bytes_eqb_spec in E2. subst s'. rewrite bytes_eqb_refl in E1. discriminate E1.
  - destruct b, b'; reflexivity.
  - apply Z.eqb_sym.
Qed.

Lemma owfb_int i : owfb (OInt i) = true -> in_i64 i.
Proof. cbn [owfb ointo_value wfb]. apply in_i64b_spec. Qed.
Lemma owfb_float f : owfb (OFloat f) = true -> in_u64 f.
Proof. cbn [owfb ointo_value wfb]. apply in_u64b_spec. Qed.

(** [eq <-> cmp = Equal].  The integers must be genuine i64: for an out-of-range [Z] the model
    of [as f64] can produce a NaN pattern, on which IEEE == and OrderedFloat64::cmp disagree. *)
Lemma oeq_iff_cmp_l : forall x y, owfb x = true -> owfb y = true ->
  (oeq x y = true <-> ocmp x y = Eq).
Proof.
  intros x y Wx Wy.
  destruct x as [i|f|s|b|t], y as [i'|f'|s'|b'|t']; cbn [oeq ocmp oordinal];
    try (split; intros H; discriminate H).
  - rewrite Z.eqb_eq, Z.compare_eq_iff. reflexivity.
  - apply f64_eq_cmp_l. apply f64_of_i64_not_nan. apply owfb_int. exact Wx.
  - apply f64_eq_cmp_r. apply f64_of_i64_not_nan. apply owfb_int. exact Wy.
  - apply of64_eq_cmp.
  - rewrite bytes_eqb_spec, bytes_cmp_eq. reflexivity.
  - apply bool_eqb_cmp.
  - rewrite Z.eqb_eq, Z.compare_eq_iff. reflexivity.
Qed.

(** the direction that needs no range hypothesis *)
Lemma oeq_cmp_l : forall x y, oeq x y = true -> ocmp x y = Eq.
Proof.
  intros x y.
  destruct x as [i|f|s|b|t], y as [i'|f'|s'|b'|t']; cbn [oeq ocmp oordinal];
    try (intros H; discriminate H).
  - rewrite Z.eqb_eq, Z.compare_eq_iff. auto.
  - rewrite f64_eq_unfold, of64_cmp_unfold.
    destruct (f64_is_nan (f64_of_i64 i)), (f64_is_nan f'); try (intros H; discriminate H).
    rewrite Z.eqb_eq, Z.compare_eq_iff. auto.
  - rewrite f64_eq_unfold, of64_cmp_unfold.
    destruct (f64_is_nan f), (f64_is_nan (f64_of_i64 i')); try (intros H; discriminate H).
    rewrite Z.eqb_eq, Z.compare_eq_iff. auto.
  - apply of64_eq_cmp.
  - rewrite bytes_eqb_spec, bytes_cmp_eq. auto.
  - apply bool_eqb_cmp.
  - rewrite Z.eqb_eq, Z.compare_eq_iff. auto.
Qed.

(** without the range hypothesis the equivalence is false in the model *)
Lemma oeq_iff_cmp_needs_wf :
  exists x y, owfb y = true /\ ocmp x y = Eq /\ oeq x y = false
              /\ x = OInt (2 ^ 1024 + 2 ^ 1000) /\ y = OFloat 9221120237041090560.
Proof.
  exists (OInt (2 ^ 1024 + 2 ^ 1000)), (OFloat 9221120237041090560).
  repeat split; vm_compute; reflexivity.
Qed.

Lemma ocmp_total_l : forall x y, owfb x = true -> owfb y = true ->
  ocmp x y = Lt \/ oeq x y = true \/ ocmp y x = Lt.
Proof.
  intros x y Wx Wy. destruct (ocmp x y) eqn:E.
  - right; left. apply (oeq_iff_cmp_l x y Wx Wy). exact E.
  - left; reflexivity.
  - right; right. rewrite (ocmp_antisym_l x y), E. reflexivity.
Qed.

(** ** the finding class of transitivity *)
Lemma cmp_eqb_Eq c : cmp_eqb c Eq = true <-> c = Eq.
Proof. destruct c; cbn [cmp_eqb]; split; intros H; (reflexivity || discriminate H). Qed.

Lemma collide_true_iff i j f :
  collide i j f = true <->
  (i <> j /\ of64_cmp (f64_of_i64 i) f = Eq /\ of64_cmp (f64_of_i64 j) f = Eq).
Proof.
  unfold collide. rewrite !andb_true_iff, !cmp_eqb_Eq, negb_true_iff, Z.eqb_neq. tauto.
Qed.

Lemma collide_sym i j f : collide i j f = collide j i f.
Proof.
  unfold collide. rewrite (Z.eqb_sym i j).
  destruct (negb (j =? i)); cbn [andb]; [apply andb_comm|reflexivity].
Qed.

(** [k_mid] (Value/Laws.v): the only argument order in which a law can fail: Int, Float, Int *)

Lemma k_trans_mid x y z : k_trans x y z = false -> k_mid x y z = false.
Proof. destruct x, y, z; cbn [k_trans k_mid]; auto. Qed.

Lemma k_mixed3_trans x y z : k_mixed3 x y z = false -> k_trans x y z = false.
Proof.
  destruct x, y, z; cbn [k_mixed3 k_trans is_oint is_ofloat orb andb]; intros H;
    try reflexivity; discriminate H.
Qed.

(** [k_trans] is closed under reversal of the triple (so hypotheses about (x,y,z) transfer to (z,y,x)) *)
Lemma k_trans_rev x y z : k_trans z y x = k_trans x y z.
Proof. destruct x, y, z; cbn [k_trans]; try reflexivity; apply collide_sym. Qed.

Ltac num_facts Wx Wy Wz :=
  try (pose proof (owfb_int _ Wx) as Ix; pose proof (f64_of_i64_not_nan _ Ix) as Nx);
  try (pose proof (owfb_int _ Wy) as Iy; pose proof (f64_of_i64_not_nan _ Iy) as Ny);
  try (pose proof (owfb_int _ Wz) as Iz; pose proof (f64_of_i64_not_nan _ Iz) as Nz).

(** ** transitivity of <=, sharp form: only the (Int, Float, Int) collisions are excluded *)
Lemma ocmp_le_trans_sharp_l : forall x y z,
  owfb x = true -> owfb y = true -> owfb z = true -> k_mid x y z = false ->
  ocmp x y <> Gt -> ocmp y z <> Gt -> ocmp x z <> Gt.
Proof.
  intros x y z Wx Wy Wz K Hxy Hyz.
  pose proof (ocmp_le_class x y Hxy) as C1. pose proof (ocmp_le_class y z Hyz) as C2.
  destruct (Z_lt_le_dec (oclass x) (oclass z)) as [L|L].
  { rewrite (ocmp_class_lt x z L). discriminate. }
  destruct x as [i|f|s|b|t], y as [i'|f'|s'|b'|t'], z as [i''|f''|s''|b''|t''];
    cbn [oclass] in C1, C2, L; try lia; clear C1 C2 L; cbn [ocmp] in *; num_facts Wx Wy Wz.
  - (* I I I *) rewrite Z.compare_le_iff in *. lia.
  - (* I I F *) rewrite Z.compare_le_iff in Hxy.
    pose proof (f64_of_i64_mono i i' Ix Iy Hxy) as M.
    rewrite of64_le_iff in *. destruct Hyz as [Hn|(_ & Nf & Kle)]; [left; exact Hn|].
    right. repeat split; try assumption. lia.
  - (* I F I *) cbn [k_mid] in K. apply Z.compare_le_iff.
    destruct (Z_le_gt_dec i i'') as [Le|Gt']; [exact Le|exfalso].
    pose proof (f64_of_i64_mono i'' i Iz Ix ltac:(lia)) as M.
    rewrite of64_le_iff in Hxy, Hyz.
    destruct Hxy as [Hn|(_ & Nf & K1)]; destruct Hyz as [Hn'|(Nf' & _ & K2)]; try congruence.
    assert (Hc : collide i i'' f' = true).
    { apply collide_true_iff. split; [lia|]. rewrite !of64_eq_iff.
      split; right; repeat split; try assumption; lia. }
    congruence.
  - (* I F F *) exact (of64_cle_trans _ _ _ Hxy Hyz).
  - (* F I I *) rewrite Z.compare_le_iff in Hyz.
    pose proof (f64_of_i64_mono i' i'' Iy Iz Hyz) as M.
    rewrite of64_le_iff in *. destruct Hxy as [Hn|(Nf & _ & Kle)]; [congruence|].
    right. repeat split; try assumption. lia.
  - (* F I F *) exact (of64_cle_trans _ _ _ Hxy Hyz).
  - (* F F I *) exact (of64_cle_trans _ _ _ Hxy Hyz).
  - (* F F F *) exact (of64_cle_trans _ _ _ Hxy Hyz).
  - (* S S S *) exact (bytes_cmp_le_trans _ _ _ Hxy Hyz).
  - (* B B B *) destruct b, b', b''; cbn [bool_cmp] in *; congruence.
  - (* T T T *) rewrite Z.compare_le_iff in *. lia.
Qed.

Lemma ocmp_le_trans_outside_K_l : forall x y z,
  owfb x = true -> owfb y = true -> owfb z = true -> k_trans x y z = false ->
  ocmp x y <> Gt -> ocmp y z <> Gt -> ocmp x z <> Gt.
Proof.
  intros x y z Wx Wy Wz K. apply ocmp_le_trans_sharp_l; try assumption.
  apply k_trans_mid. exact K.
Qed.

Lemma ocmp_le_trans_outside_mixed_l : forall x y z,
  owfb x = true -> owfb y = true -> owfb z = true -> k_mixed3 x y z = false ->
  ocmp x y <> Gt -> ocmp y z <> Gt -> ocmp x z <> Gt.
Proof.
  intros x y z Wx Wy Wz K. apply ocmp_le_trans_outside_K_l; try assumption.
  apply k_mixed3_trans. exact K.
Qed.

(** ** transitivity of <: holds for ALL well-formed triples (no class needed) *)
Lemma ocmp_lt_trans_l : forall x y z,
  owfb x = true -> owfb y = true -> owfb z = true ->
  ocmp x y = Lt -> ocmp y z = Lt -> ocmp x z = Lt.
Proof.
  intros x y z Wx Wy Wz Hxy Hyz.
  pose proof (ocmp_lt_class x y Hxy) as C1. pose proof (ocmp_lt_class y z Hyz) as C2.
  destruct (Z_lt_le_dec (oclass x) (oclass z)) as [L|L].
  { exact (ocmp_class_lt x z L). }
  destruct x as [i|f|s|b|t], y as [i'|f'|s'|b'|t'], z as [i''|f''|s''|b''|t''];
    cbn [oclass] in C1, C2, L; try lia; clear C1 C2 L; cbn [ocmp] in *; num_facts Wx Wy Wz.
  - (* I I I *) rewrite Z.compare_lt_iff in *. lia.
  - (* I I F *) rewrite Z.compare_lt_iff in Hxy.
    pose proof (f64_of_i64_mono i i' Ix Iy ltac:(lia)) as M.
    rewrite of64_lt_iff in *. destruct Hyz as (_ & [Hn|Klt]); (split; [assumption|]).
    + left; exact Hn.
    + right; lia.
  - (* I F I *) apply Z.compare_lt_iff.
    destruct (Z_lt_le_dec i i'') as [Lt'|Ge]; [exact Lt'|exfalso].
    pose proof (f64_of_i64_mono i'' i Iz Ix Ge) as M.
    rewrite of64_lt_iff in Hxy, Hyz.
    destruct Hxy as (_ & [Hn|K1]); destruct Hyz as (Nf' & [Hn'|K2]); try congruence. lia.
  - (* I F F *) exact (of64_lt_trans _ _ _ Hxy Hyz).
  - (* F I I *) rewrite Z.compare_lt_iff in Hyz.
    pose proof (f64_of_i64_mono i' i'' Iy Iz ltac:(lia)) as M.
    rewrite of64_lt_iff in *. destruct Hxy as (Nf & [Hn|Klt]); [congruence|].
    split; [assumption|]. right; lia.
  - (* F I F *) exact (of64_lt_trans _ _ _ Hxy Hyz).
  - (* F F I *) exact (of64_lt_trans _ _ _ Hxy Hyz).
  - (* F F F *) exact (of64_lt_trans _ _ _ Hxy Hyz).
  - (* S S S *) exact (bytes_cmp_lt_trans _ _ _ Hxy Hyz).
  - (* B B B *) destruct b, b', b''; cbn [bool_cmp] in *; congruence.
  - (* T T T *) rewrite Z.compare_lt_iff in *. lia.
Qed.

Lemma ocmp_lt_trans_outside_K_l : forall x y z,
  owfb x = true -> owfb y = true -> owfb z = true -> k_trans x y z = false ->
  ocmp x y = Lt -> ocmp y z = Lt -> ocmp x z = Lt.
Proof. intros x y z Wx Wy Wz _. apply ocmp_lt_trans_l; assumption. Qed.

(** ** transitivity of ==, sharp form and outside K *)
Lemma oeq_trans_sharp_l : forall x y z,
  owfb x = true -> owfb y = true -> owfb z = true -> k_mid x y z = false ->
  oeq x y = true -> oeq y z = true -> oeq x z = true.
Proof.
  intros x y z Wx Wy Wz K Hxy Hyz.
  pose proof (oeq_class x y Hxy) as C1. pose proof (oeq_class y z Hyz) as C2.
  apply (oeq_iff_cmp_l x y Wx Wy) in Hxy. apply (oeq_iff_cmp_l y z Wy Wz) in Hyz.
  apply (oeq_iff_cmp_l x z Wx Wz).
  destruct x as [i|f|s|b|t], y as [i'|f'|s'|b'|t'], z as [i''|f''|s''|b''|t''];
    cbn [oclass] in C1, C2; try lia; clear C1 C2; cbn [ocmp] in *; num_facts Wx Wy Wz.
  - (* I I I *) rewrite Z.compare_eq_iff in *. lia.
  - (* I I F *) rewrite Z.compare_eq_iff in Hxy. subst i'. exact Hyz.
  - (* I F I *) cbn [k_mid] in K. apply Z.compare_eq_iff.
    destruct (Z.eq_dec i i'') as [E|NE]; [exact E|exfalso].
    assert (Hc : collide i i'' f' = true).
    { apply collide_true_iff. split; [exact NE|]. split; [exact Hxy|].
      rewrite of64_cmp_antisym, Hyz. reflexivity. }
    congruence.
  - (* I F F *) exact (of64_eq_trans _ _ _ Hxy Hyz).
  - (* F I I *) rewrite Z.compare_eq_iff in Hyz. subst i''. exact Hxy.
  - (* F I F *) exact (of64_eq_trans _ _ _ Hxy Hyz).
  - (* F F I *) exact (of64_eq_trans _ _ _ Hxy Hyz).
  - (* F F F *) exact (of64_eq_trans _ _ _ Hxy Hyz).
  - (* S S S *) rewrite bytes_cmp_eq in *. congruence.
  - (* B B B *) destruct b, b', b''; cbn [bool_cmp] in *; congruence.
  - (* T T T *) rewrite Z.compare_eq_iff in *. lia.
Qed.

Lemma ocmp_eq_trans_outside_K_l : forall x y z,
  owfb x = true -> owfb y = true -> owfb z = true -> k_trans x y z = false ->
  oeq x y = true -> oeq y z = true -> oeq x z = true.
Proof.
  intros x y z Wx Wy Wz K. apply oeq_trans_sharp_l; try assumption.
  apply k_trans_mid. exact K.
Qed.

(** [Ord]-level version: cmp = Equal is transitive outside K *)
Lemma ocmp_Eq_trans_outside_K_l : forall x y z,
  owfb x = true -> owfb y = true -> owfb z = true -> k_trans x y z = false ->
  ocmp x y = Eq -> ocmp y z = Eq -> ocmp x z = Eq.
Proof.
  intros x y z Wx Wy Wz K Hxy Hyz.
  apply (oeq_iff_cmp_l x z Wx Wz).
  apply (ocmp_eq_trans_outside_K_l x y z Wx Wy Wz K).
  - apply (oeq_iff_cmp_l x y Wx Wy). exact Hxy.
  - apply (oeq_iff_cmp_l y z Wy Wz). exact Hyz.
Qed.

(** ** tightness of K1: inside the class the law really fails *)
Lemma k_trans_tight_l : forall i j f, collide i j f = true -> in_i64 i -> in_i64 j ->
  oeq (OInt i) (OFloat f) = true /\ oeq (OFloat f) (OInt j) = true /\ oeq (OInt i) (OInt j) = false.
Proof.
  intros i j f Hc Ii Ij. apply collide_true_iff in Hc. destruct Hc as (NE & E1 & E2).
  cbn [oeq]. repeat split.
  - apply (f64_eq_cmp_l _ _ (f64_of_i64_not_nan i Ii)). exact E1.
  - rewrite f64_eq_sym. apply (f64_eq_cmp_l _ _ (f64_of_i64_not_nan j Ij)). exact E2.
  - apply Z.eqb_neq. exact NE.
Qed.

(** in the failing order the <=-law itself fails for one of the two orientations *)
Lemma k_mid_tight_l : forall i j f, collide i j f = true -> in_i64 i -> in_i64 j -> j < i ->
  ocmp (OInt i) (OFloat f) = Eq /\ ocmp (OFloat f) (OInt j) = Eq /\ ocmp (OInt i) (OInt j) = Gt.
Proof.
  intros i j f Hc Ii Ij Hlt. apply collide_true_iff in Hc. destruct Hc as (NE & E1 & E2).
  cbn [ocmp]. repeat split.
  - exact E1.
  - rewrite of64_cmp_antisym, E2. reflexivity.
  - apply Z.compare_gt_iff. exact Hlt.
Qed.

(** ** hashing *)
Lemma ohash_outside_K_l : forall x y, owfb x = true -> owfb y = true ->
  k_hash x y = false -> oeq x y = true -> ofeed x = ofeed y.
Proof.
  intros x y Wx Wy K E.
  destruct x as [i|f|s|b|t], y as [i'|f'|s'|b'|t']; cbn [oeq k_hash] in *; try discriminate.
  - apply Z.eqb_eq in E. subst i'. reflexivity.
  - apply owfb_float in Wx. apply owfb_float in Wy.
    destruct (Z.eqb_spec f f') as [Q|NQ]; [subst f'; reflexivity|].
    cbn [negb andb] in K. apply orb_false_iff in K. destruct K as [K1 K2].
    rewrite (of64_eq_bits f f' Wx Wy E K1 K2). reflexivity.
  - apply bytes_eqb_spec in E. subst s'. reflexivity.
  - apply Bool.eqb_prop in E. subst b'. reflexivity.
  - apply Z.eqb_eq in E. subst t'. reflexivity.
Qed.

Lemma k_hash_tight_l : forall x y, k_hash x y = true -> oeq x y = true -> ofeed x <> ofeed y.
Proof.
  intros x y K E.
  destruct x as [i|f|s|b|t], y as [i'|f'|s'|b'|t']; cbn [k_hash] in K; try discriminate K;
    cbn [ofeed otag]; intros Q.
  - discriminate Q.
  - discriminate Q.
  - apply andb_prop in K. destruct K as [K _]. apply negb_true_iff, Z.eqb_neq in K.
    injection Q as Q'. contradiction.
Qed.

(** ** refutations on witnesses *)
Lemma ocmp_not_transitive_refuted_l :
  exists x y z, owfb x = true /\ owfb y = true /\ owfb z = true /\
    oeq x y = true /\ oeq y z = true /\ oeq x z = false /\
    ocmp x y = Eq /\ ocmp y z = Eq /\ ocmp x z = Gt /\ k_trans x y z = true.
Proof.
  exists (OInt 9007199254740993), (OFloat 4845873199050653696), (OInt 9007199254740992).
  repeat split; vm_compute; reflexivity.
Qed.

Lemma oeq_hash_inconsistent_refuted_l :
  (exists x y, oeq x y = true /\ ofeed x <> ofeed y /\ x = OInt 1 /\ y = OFloat 4607182418800017408)
  /\ (exists x y, oeq x y = true /\ ofeed x <> ofeed y /\ x = OFloat 0 /\ y = OFloat (2 ^ 63))
  /\ (exists x y, oeq x y = true /\ ofeed x <> ofeed y
                  /\ x = OFloat 9221120237041090560 /\ y = OFloat 9221120237041090561).
Proof.
  split; [|split].
  - exists (OInt 1), (OFloat 4607182418800017408).
    split; [vm_compute; reflexivity|]. split; [vm_compute; discriminate|]. split; reflexivity.
  - exists (OFloat 0), (OFloat (2 ^ 63)).
    split; [vm_compute; reflexivity|]. split; [vm_compute; discriminate|]. split; reflexivity.
  - exists (OFloat 9221120237041090560), (OFloat 9221120237041090561).
    split; [vm_compute; reflexivity|]. split; [vm_compute; discriminate|]. split; reflexivity.
Qed.
