(** C19 — soundness of the shortest-path, traversal, component and topological-order certificates. *)
From Coq Require Import ZArith List Bool Lia Relations Permutation.
From GV Require Import Algo.Cert Algo.ProofsBase.
Import ListNotations.
Open Scope Z_scope.

(** * node paths *)
Lemma min_w_edge : forall g u v m, min_w g u v = Some m ->
  exists e, In e (edges g) /\ esrc e = u /\ edst e = v /\ ew e = m.
Proof.
  intros g u v. unfold min_w. induction (edges g) as [|e L IH]; intros m H; cbn [fold_right] in H; [discriminate|].
  destruct ((esrc e =? u) && (edst e =? v)) eqn:E.
  - apply andb_true_iff in E. destruct E as [E1 E2]. apply Z.eqb_eq in E1. apply Z.eqb_eq in E2.
    destruct (fold_right _ None L) as [m'|] eqn:F.
    + inversion H as [Hm]. destruct (Z.min_spec m' (ew e)) as [[_ Hmin]|[_ Hmin]]; rewrite Hmin.
      * destruct (IH m' eq_refl) as [e' [Hin Hr]]. exists e'. split; [right; assumption|assumption].
      * exists e. split; [left; reflexivity|auto].
    + inversion H. exists e. split; [left; reflexivity|auto].
  - destruct (IH m H) as [e' [Hin Hr]]. exists e'. split; [right; assumption|assumption].
Qed.

Lemma npath_w_walk : forall g l w, npath_w g l = Some w ->
  match l with
  | [] => False
  | s :: _ => exists p, walk g s p (last l 0) /\ s :: map edst p = l /\ wsum p = w
  end.
Proof.
  intros g. induction l as [|x r IH]; intros w H; [discriminate|].
  cbn [npath_w] in H. destruct r as [|y r'].
  - inversion H. exists []. split; [constructor|]. split; reflexivity.
  - destruct (min_w g x y) as [a|] eqn:M; [|discriminate].
    destruct (npath_w g (y :: r')) as [b|] eqn:N; [|discriminate]. inversion H. subst w.
    destruct (min_w_edge _ _ _ _ M) as [e [He [Hs [Hd Hw]]]].
    specialize (IH b eq_refl). cbn beta iota in IH. destruct IH as [p [Hp [Hn Hsum]]].
    exists (e :: p). split.
    + rewrite <- Hs. constructor; [assumption|]. rewrite Hd. exact Hp.
    + split.
      * cbn [map]. rewrite Hd. rewrite Hn. reflexivity.
      * rewrite wsum_cons. lia.
Qed.

Lemma path_ok_real : forall g s t w l, path_ok g s t w l = true -> real_path g l s t w.
Proof.
  intros g s t w l H. unfold path_ok in H. rewrite !andb_true_iff in H. destruct H as [[H1 H2] H3].
  apply oz_eqb_eq in H3. apply npath_w_walk in H3. destruct l as [|x r]; [contradiction|].
  cbn [head_is] in H1. apply Z.eqb_eq in H1. subst x. unfold last_is in H2. apply Z.eqb_eq in H2.
  destruct H3 as [p [Hp [Hn Hs]]]. exists p. rewrite H2 in Hp. auto.
Qed.

(** * single-source certificate *)
Section Sssp.
  Variables (g : graph) (s : Z) (d : list (Z * Z)).
  Hypothesis Htri : forall e, In e (edges g) -> forall du, lookup d (esrc e) = Some du ->
    exists dv, lookup d (edst e) = Some dv /\ dv <= du + ew e.

  Lemma lower_bound : forall a p b, walk g a p b -> forall da, lookup d a = Some da ->
    exists db, lookup d b = Some db /\ db <= da + wsum p.
  Proof.
    intros a p b H. induction H as [u|e p v He Hw IH]; intros da Hda.
    - exists da. split; [assumption|]. cbn. lia.
    - destruct (Htri e He da Hda) as [dv [Hdv Hle]]. destruct (IH dv Hdv) as [db [Hdb Hle2]].
      exists db. split; [assumption|]. rewrite wsum_cons. lia.
  Qed.
End Sssp.

Lemma sssp_cert_parts : forall g s d paths, sssp_cert g s d paths = true ->
  wf g /\ In s (nodes g) /\ lookup d s = Some 0 /\
  (forall e, In e (edges g) -> forall du, lookup d (esrc e) = Some du ->
     exists dv, lookup d (edst e) = Some dv /\ dv <= du + ew e) /\
  (forall v x, lookup d v = Some x -> exists l, real_path g l s v x).
Proof.
  intros g s d paths H. unfold sssp_cert in H. rewrite !andb_true_iff in H.
  destruct H as [[[[[H1 H2] H3] H4] H5] H6].
  split; [apply wfb_wf; assumption|]. split; [apply memb_In; assumption|].
  split; [apply oz_eqb_eq; assumption|]. split.
  - intros e He du Hdu. rewrite forallb_forall in H5. specialize (H5 e He). rewrite Hdu in H5.
    destruct (lookup d (edst e)) as [dv|]; [|discriminate]. exists dv. split; [reflexivity|]. apply Z.leb_le. assumption.
  - intros v x Hl. apply lookup_In in Hl. rewrite forallb_forall in H6. specialize (H6 _ Hl).
    cbn [fst snd] in H6. apply existsb_exists in H6. destruct H6 as [l [_ Hl2]]. exists l. apply path_ok_real. assumption.
Qed.

Theorem sssp_cert_sound_l : forall g s d paths, sssp_cert g s d paths = true -> sssp_spec g s (lookup d).
Proof.
  intros g s d paths H. destruct (sssp_cert_parts _ _ _ _ H) as [Hwf [Hs [H0 [Htri Hreal]]]].
  intros v Hv. destruct (lookup d v) as [x|] eqn:E.
  - split.
    + destruct (Hreal v x E) as [l [p [Hp [_ Hsum]]]]. exists p. auto.
    + intros p Hp. destruct (lower_bound g d Htri s p v Hp 0 H0) as [db [Hdb Hle]]. rewrite E in Hdb. inversion Hdb. lia.
  - intros [p Hp]. destruct (lower_bound g d Htri s p v Hp 0 H0) as [db [Hdb _]]. congruence.
Qed.

(** an accepted certificate also excludes negative cycles that can be reached from the source *)
Theorem sssp_cert_no_neg_cycle_l : forall g s d paths, sssp_cert g s d paths = true -> ~ neg_cycle_from g s.
Proof.
  intros g s d paths H [p [c [u [Hp [Hc Hneg]]]]].
  destruct (sssp_cert_parts _ _ _ _ H) as [_ [_ [H0 [Htri _]]]].
  destruct (lower_bound g d Htri s p u Hp 0 H0) as [du [Hdu _]].
  destruct (lower_bound g d Htri u c u Hc du Hdu) as [du' [Hdu' Hle]]. rewrite Hdu in Hdu'. inversion Hdu'. lia.
Qed.

Lemma is_dist_unique : forall g s v x y, is_dist g s v x -> is_dist g s v y -> x = y.
Proof.
  intros g s v x y [[p [Hp Hx]] Hminx] [[q [Hq Hy]] Hminy].
  specialize (Hminx q Hq). specialize (Hminy p Hp). lia.
Qed.

(** all single-source algorithms that are accepted agree *)
Theorem sssp_agree_l : forall g s d1 p1 d2 p2, sssp_cert g s d1 p1 = true -> sssp_cert g s d2 p2 = true ->
  forall v, In v (nodes g) -> lookup d1 v = lookup d2 v.
Proof.
  intros g s d1 p1 d2 p2 H1 H2 v Hv. apply sssp_cert_sound_l in H1. apply sssp_cert_sound_l in H2.
  specialize (H1 v Hv). specialize (H2 v Hv).
  destruct (lookup d1 v) as [x|], (lookup d2 v) as [y|]; try reflexivity.
  - f_equal. apply (is_dist_unique g s v); assumption.
  - exfalso. apply H2. destruct H1 as [[p [Hp _]] _]. exists p. assumption.
  - exfalso. apply H1. destruct H2 as [[p [Hp _]] _]. exists p. assumption.
Qed.

(** predecessor map: the predecessor of v lies on a shortest path to v, one tight edge before v *)
Theorem pred_cert_sound_l : forall g s d paths pred, sssp_cert g s d paths = true -> pred_cert g s d pred = true ->
  forall v x, lookup d v = Some x -> v <> s ->
  exists u du e, lookup pred v = Some u /\ is_dist g s u du /\ In e (edges g) /\ esrc e = u /\ edst e = v /\ du + ew e = x.
Proof.
  intros g s d paths pred H Hp v x Hl Hne. pose proof (sssp_cert_sound_l _ _ _ _ H) as Hspec.
  destruct (sssp_cert_parts _ _ _ _ H) as [Hwf [Hs _]].
  unfold pred_cert in Hp. rewrite forallb_forall in Hp. specialize (Hp _ (lookup_In _ _ _ Hl)). cbn [fst snd] in Hp.
  apply orb_true_iff in Hp. destruct Hp as [Hp|Hp]; [apply Z.eqb_eq in Hp; contradiction|].
  destruct (lookup pred v) as [u|]; [|discriminate]. destruct (lookup d u) as [du|] eqn:Du; [|discriminate].
  apply existsb_exists in Hp. destruct Hp as [e [He Hc]]. rewrite !andb_true_iff in Hc. destruct Hc as [[C1 C2] C3].
  apply Z.eqb_eq in C1. apply Z.eqb_eq in C2. apply Z.eqb_eq in C3.
  exists u, du, e. split; [reflexivity|]. split.
  - assert (Hu : In u (nodes g)). { destruct Hwf as [_ [_ Hw]]. rewrite <- C1. apply (Hw e He). }
    specialize (Hspec u Hu). rewrite Du in Hspec. assumption.
  - auto.
Qed.

(** single-pair answers *)
Definition pair_spec (g : graph) (s t : Z) (ans : option (Z * list Z)) : Prop :=
  match ans with
  | None => ~ reachable g s t
  | Some (x, l) => is_dist g s t x /\ real_path g l s t x
  end.
Theorem pair_cert_sound_l : forall g s t d paths ans, In t (nodes g) -> pair_cert g s t d paths ans = true -> pair_spec g s t ans.
Proof.
  intros g s t d paths ans Ht H. unfold pair_cert in H. apply andb_true_iff in H. destruct H as [H1 H2].
  pose proof (sssp_cert_sound_l _ _ _ _ H1 t Ht) as Hs. destruct ans as [[x l]|]; cbn [pair_spec].
  - apply andb_true_iff in H2. destruct H2 as [A B]. apply oz_eqb_eq in A. rewrite A in Hs. split; [assumption|].
    apply path_ok_real. assumption.
  - destruct (lookup d t); [discriminate|assumption].
Qed.

(** negative cycles *)
Lemma anycycle_cert_sound_l : forall g cyc, anycycle_cert g cyc = true -> neg_cycle g.
Proof.
  intros g cyc H. unfold anycycle_cert in H. destruct cyc as [|c r]; [discriminate|].
  apply andb_true_iff in H. destruct H as [H1 H2].
  destruct (npath_w g (c :: r)) as [w|] eqn:N; [|discriminate]. apply Z.ltb_lt in H2.
  apply npath_w_walk in N. destruct N as [p [Hp [_ Hs]]]. unfold last_is in H1. apply Z.eqb_eq in H1.
  rewrite H1 in Hp. exists p, c. split; [assumption|lia].
Qed.
Theorem negcycle_cert_sound_l : forall g s pre cyc, negcycle_cert g s pre cyc = true -> neg_cycle_from g s.
Proof.
  intros g s pre cyc H. unfold negcycle_cert in H. destruct cyc as [|c r]; [discriminate|].
  rewrite !andb_true_iff in H. destruct H as [[[[H1 H2] H3] H4] H5].
  destruct (npath_w g pre) as [w0|] eqn:N0; [|discriminate].
  apply npath_w_walk in N0. destruct pre as [|x pr]; [contradiction|]. cbn [head_is] in H1. apply Z.eqb_eq in H1. subst x.
  unfold last_is in H2. apply Z.eqb_eq in H2. destruct N0 as [p [Hp _]]. rewrite H2 in Hp.
  destruct (npath_w g (c :: r)) as [w|] eqn:N; [|discriminate]. apply Z.ltb_lt in H5.
  apply npath_w_walk in N. destruct N as [q [Hq [_ Hs]]]. unfold last_is in H4. apply Z.eqb_eq in H4. rewrite H4 in Hq.
  exists p, q, c. split; [assumption|]. split; [assumption|lia].
Qed.
(** with a reachable negative cycle no distance to the cycle exists, so no answer could be right *)
Theorem neg_cycle_no_dist_l : forall g s, neg_cycle_from g s -> exists u, reachable g s u /\ forall x, ~ is_dist g s u x.
Proof.
  intros g s [p [c [u [Hp [Hc Hneg]]]]]. exists u. split; [exists p; assumption|].
  intros x [[q [Hq Hx]] Hmin]. specialize (Hmin (q ++ c) (walk_app _ _ _ _ _ _ Hq Hc)). rewrite wsum_app in Hmin. lia.
Qed.

Definition bf_spec (g : graph) (s : Z) (d : Z -> option Z) (flag : bool) : Prop :=
  if flag then neg_cycle_from g s else sssp_spec g s d /\ ~ neg_cycle_from g s.
Theorem bf_cert_sound_l : forall g s d paths flag wit, bf_cert g s d paths flag wit = true -> bf_spec g s (lookup d) flag.
Proof.
  intros g s d paths flag wit H. unfold bf_cert in H. destruct flag; cbn [bf_spec].
  - apply (negcycle_cert_sound_l _ _ _ _ H).
  - split; [apply (sssp_cert_sound_l _ _ _ _ H)|apply (sssp_cert_no_neg_cycle_l _ _ _ _ H)].
Qed.

(** all pairs *)
Definition apsp_spec (g : graph) (rows : list (Z * list (Z * Z) * list (list Z))) (flag : bool) : Prop :=
  if flag then neg_cycle g
  else (forall s, In s (nodes g) -> exists d ps, In (s, d, ps) rows /\ sssp_spec g s (lookup d)) /\ ~ neg_cycle g.
Theorem apsp_cert_sound_l : forall g rows flag cyc, apsp_cert g rows flag cyc = true -> apsp_spec g rows flag.
Proof.
  intros g rows flag cyc H. unfold apsp_cert in H. destruct flag; cbn [apsp_spec].
  - apply (anycycle_cert_sound_l _ _ H).
  - apply andb_true_iff in H. destruct H as [Hwf H]. apply wfb_wf in Hwf. rewrite forallb_forall in H.
    assert (R : forall s, In s (nodes g) -> exists d ps, In (s, d, ps) rows /\ sssp_cert g s d ps = true).
    { intros s Hs. specialize (H s Hs). apply existsb_exists in H. destruct H as [[[s' d] ps] [Hin Hc]].
      apply andb_true_iff in Hc. destruct Hc as [E Hc]. apply Z.eqb_eq in E. subst s'. exists d, ps. auto. }
    split.
    + intros s Hs. destruct (R s Hs) as [d [ps [Hin Hc]]]. exists d, ps. split; [assumption|apply (sssp_cert_sound_l _ _ _ _ Hc)].
    + intros [c [u [Hc Hneg]]]. destruct c as [|e c']; [cbn in Hneg; lia|].
      inversion Hc as [|e0 p0 v0 He Hw]; subst.
      assert (Hu : In (esrc e) (nodes g)). { destruct Hwf as [_ [_ Hw']]. apply (Hw' e He). }
      destruct (R _ Hu) as [d [ps [_ Hcert]]]. apply (sssp_cert_no_neg_cycle_l _ _ _ _ Hcert).
      exists [], (e :: c'), (esrc e). split; [constructor|]. split; assumption.
Qed.

(** * traversals *)
Theorem reach_cert_sound_l : forall g s l, reach_cert g s l = true -> reach_spec g s l.
Proof.
  intros g s l H. unfold reach_cert in H. rewrite !andb_true_iff in H. destruct H as [[[H1 H2] H3] H4].
  destruct (reach_ok (out_adj g) (fuel_of g) s) as [Rs|] eqn:R; [|discriminate].
  split; [apply nodupb_NoDup; assumption|]. intro v. rewrite (same_set_iff _ _ H4 v).
  apply (reach_ok_reachable _ _ _ _ R).
Qed.

Lemma layers_ok_spec : forall layers i d, layers_ok layers i d = true ->
  forall k ly, nth_error layers k = Some ly -> forall v, In v ly <-> exists x, In (v, x) d /\ x = i + Z.of_nat k.
Proof.
  induction layers as [|l0 r IH]; intros i d H k ly Hk v.
  - destruct k; discriminate.
  - cbn [layers_ok] in H. rewrite !andb_true_iff in H. destruct H as [[[H1 H2] H3] H4].
    destruct k as [|k].
    + inversion Hk. subst ly. rewrite (same_set_iff _ _ H3 v). rewrite in_map_iff. split.
      * intros [[v' x] [E Hin]]. cbn in E. subst v'. apply filter_In in Hin. destruct Hin as [Hin Hx].
        cbn in Hx. apply Z.eqb_eq in Hx. exists x. split; [assumption|lia].
      * intros [x [Hin Hx]]. exists (v, x). split; [reflexivity|]. apply filter_In. split; [assumption|].
        cbn. apply Z.eqb_eq. lia.
    + cbn [nth_error] in Hk. rewrite (IH (i + 1) d H4 k ly Hk v). split; intros [x [A B]]; exists x; split; try assumption; lia.
Qed.

Lemma nodup_keys_lookup : forall d, NoDup (map fst d) -> forall v x, In (v, x) d -> lookup d v = Some x.
Proof.
  intros d H2 v0 x0 Hin. destruct (lookup d v0) as [y|] eqn:E.
  - apply lookup_In in E. f_equal. induction d as [|[a b] r IH]; [contradiction|].
    cbn [map fst] in H2. inversion H2 as [|? ? Hn Hr]; subst. destruct Hin as [Hin|Hin], E as [E|E].
    + congruence.
    + inversion Hin; subst. exfalso. apply Hn. apply in_map_iff. exists (v0, y). auto.
    + inversion E; subst. exfalso. apply Hn. apply in_map_iff. exists (v0, x0). auto.
    + apply IH; assumption.
  - exfalso. apply (lookup_None _ _ E x0). assumption.
Qed.

(** layer k holds exactly the nodes at distance k *)
Theorem layers_cert_sound_l : forall g s layers d paths, layers_cert g s layers d paths = true ->
  forall k ly, nth_error layers k = Some ly -> forall v, In v ly <-> (In v (nodes g) /\ is_dist g s v (Z.of_nat k)).
Proof.
  intros g s layers d paths H k ly Hk v. unfold layers_cert in H. rewrite !andb_true_iff in H.
  destruct H as [[[H1 H2] H3] H4]. pose proof (sssp_cert_sound_l _ _ _ _ H1) as Hs.
  rewrite (layers_ok_spec _ _ _ H3 k ly Hk v). apply nodupb_NoDup in H2.
  assert (Hkeys : forall v x, In (v, x) d -> In v (nodes g)).
  { intros v0 x0 Hin. unfold sssp_cert in H1. rewrite !andb_true_iff in H1. destruct H1 as [[[_ K] _] _].
    rewrite forallb_forall in K. apply memb_In. apply (K _ Hin). }
  pose proof (nodup_keys_lookup d H2) as Hl.
  split.
  - intros [x [Hin Hx]]. pose proof (Hkeys _ _ Hin) as Hv. split; [assumption|]. specialize (Hs v Hv).
    rewrite (Hl _ _ Hin) in Hs. replace (Z.of_nat k) with x by lia. assumption.
  - intros [Hv Hd]. specialize (Hs v Hv). destruct (lookup d v) as [x|] eqn:E.
    + exists x. split; [apply lookup_In; assumption|]. cbn. apply (is_dist_unique g s v); assumption.
    + exfalso. apply Hs. destruct Hd as [[p [Hp _]] _]. exists p. assumption.
Qed.

Theorem perm_cert_sound_l : forall g l, perm_cert g l = true -> Permutation l (nodes g).
Proof.
  intros g l H. unfold perm_cert in H. rewrite !andb_true_iff in H. destruct H as [[H1 H2] H3].
  apply NoDup_Permutation; [apply nodupb_NoDup; assumption|apply wfb_wf in H1; apply H1|apply same_set_iff; assumption].
Qed.

(** * components *)
Lemma table_get_spec : forall adj fuel ns u, In u ns -> table_get (reach_table adj fuel ns) u = reach_ok adj fuel u.
Proof.
  intros adj fuel ns u. unfold table_get, reach_table. induction ns as [|x r IH]; intro H; [contradiction|].
  cbn [map find fst]. destruct (x =? u) eqn:E.
  - apply Z.eqb_eq in E. subst x. reflexivity.
  - apply Z.eqb_neq in E. destruct H as [H|H]; [contradiction|]. apply IH. assumption.
Qed.

Lemma classes_cert_parts : forall g adj mutual lab, classes_cert g adj mutual lab = true ->
  (forall u, In u (nodes g) -> lookup lab u <> None) /\
  forall u v, In u (nodes g) -> In v (nodes g) ->
    (lookup lab u = lookup lab v <->
      clos_refl_trans Z (astep adj) u v /\ (mutual = true -> clos_refl_trans Z (astep adj) v u)).
Proof.
  intros g adj mutual lab H. unfold classes_cert in H. cbv zeta in H. rewrite !andb_true_iff in H. destruct H as [[[H1 H2] H3] H4].
  split.
  - intros u Hu. rewrite forallb_forall in H2. specialize (H2 u Hu). destruct (lookup lab u); discriminate.
  - intros u v Hu Hv. rewrite forallb_forall in H4. specialize (H4 u Hu). rewrite (table_get_spec _ _ _ _ Hu) in H4.
    destruct (reach_ok adj (fuel_of g) u) as [Su|] eqn:Ru; [|discriminate].
    rewrite forallb_forall in H4. specialize (H4 v Hv). rewrite (table_get_spec _ _ _ _ Hv) in H4.
    destruct (reach_ok adj (fuel_of g) v) as [Sv|] eqn:Rv; [|discriminate].
    apply eqb_prop in H4. rewrite <- (reach_ok_spec _ _ _ _ Ru v). rewrite <- (reach_ok_spec _ _ _ _ Rv u).
    rewrite <- !memb_In. rewrite <- oz_eqb_eq. rewrite H4. rewrite andb_true_iff, orb_true_iff, negb_true_iff.
    destruct mutual; split.
    + intros [A [B|B]]; [discriminate|]. auto.
    + intros [A B]. split; [assumption|right; apply B; reflexivity].
    + intros [A _]. split; [assumption|discriminate].
    + intros [A _]. split; [assumption|left; reflexivity].
Qed.

Theorem wcc_cert_sound_l : forall g lab, wcc_cert g lab = true -> wcc_spec g (lookup lab).
Proof.
  intros g lab H. destruct (classes_cert_parts _ _ _ _ H) as [A B]. split; [assumption|].
  intros u v Hu Hv. rewrite (B u v Hu Hv). rewrite uconn_rt.
  split; [intros [C _]; assumption|intro C; split; [assumption|discriminate]].
Qed.
Theorem scc_cert_sound_l : forall g lab, scc_cert g lab = true -> scc_spec g (lookup lab).
Proof.
  intros g lab H. destruct (classes_cert_parts _ _ _ _ H) as [A B]. split; [assumption|].
  intros u v Hu Hv. rewrite (B u v Hu Hv). rewrite !reachable_rt.
  split; [intros [C D]; split; [assumption|apply D; reflexivity]|intros [C D]; split; [assumption|intros _; assumption]].
Qed.

(** * topological order *)
Lemma pos_of_split : forall x l i j, pos_of x l i = Some j ->
  exists l1 l2, l = l1 ++ x :: l2 /\ j = i + Z.of_nat (length l1).
Proof.
  intros x. induction l as [|y r IH]; intros i j H; [discriminate|]. cbn [pos_of] in H.
  destruct (y =? x) eqn:E.
  - apply Z.eqb_eq in E. subst y. inversion H. exists [], r. split; [reflexivity|cbn; lia].
  - destruct (IH _ _ H) as [l1 [l2 [A B]]]. exists (y :: l1), l2. split; [cbn; rewrite A; reflexivity|cbn [length]; lia].
Qed.

Lemma pos_before : forall l a b k i j, pos_of a l k = Some i -> pos_of b l k = Some j -> i < j -> before l a b.
Proof.
  induction l as [|y r IH]; intros a b k i j Ha Hb Hlt; [discriminate|]. cbn [pos_of] in Ha, Hb.
  destruct (y =? a) eqn:Ea.
  - apply Z.eqb_eq in Ea. subst y. inversion Ha. subst i. destruct (a =? b) eqn:Eb; [inversion Hb; lia|].
    destruct (pos_of_split _ _ _ _ Hb) as [m1 [m2 [A _]]]. exists [], m1, m2. rewrite A. reflexivity.
  - destruct (y =? b) eqn:Eb.
    + inversion Hb. subst j. destruct (pos_of_split _ _ _ _ Ha) as [m1 [m2 [_ B]]]. lia.
    + destruct (IH a b _ _ _ Ha Hb Hlt) as [l1 [l2 [l3 E]]]. exists (y :: l1), l2, l3. rewrite E. reflexivity.
Qed.

Lemma pos_of_app_notin : forall x l1 r k, ~ In x l1 -> pos_of x (l1 ++ r) k = pos_of x r (k + Z.of_nat (length l1)).
Proof.
  intros x. induction l1 as [|y l1 IH]; intros r k Hn; cbn [app length].
  - f_equal. lia.
  - cbn [pos_of]. destruct (y =? x) eqn:E; [apply Z.eqb_eq in E; exfalso; apply Hn; left; assumption|].
    rewrite IH; [f_equal; lia|intro; apply Hn; right; assumption].
Qed.

Lemma before_pos_gen : forall a b l2 l3 l1 k, NoDup (l1 ++ a :: l2 ++ b :: l3) ->
  pos_of a (l1 ++ a :: l2 ++ b :: l3) k = Some (k + Z.of_nat (length l1)) /\
  pos_of b (l1 ++ a :: l2 ++ b :: l3) k = Some (k + Z.of_nat (length l1) + 1 + Z.of_nat (length l2)).
Proof.
  intros a b l2 l3. induction l1 as [|y l1 IH]; intros k Hnd; cbn [app length] in *.
  - inversion Hnd as [|? ? Ha Hnd2]; subst. cbn [pos_of]. rewrite Z.eqb_refl. split; [f_equal; lia|].
    assert (Hab : (a =? b) = false). { apply Z.eqb_neq. intro; subst b. apply Ha. apply in_or_app. right. left. reflexivity. }
    rewrite Hab. rewrite pos_of_app_notin.
    + cbn [pos_of]. rewrite Z.eqb_refl. f_equal. lia.
    + apply NoDup_remove_2 in Hnd2. intro; apply Hnd2; apply in_or_app; left; assumption.
  - inversion Hnd as [|? ? Hy Hnd2]; subst. cbn [pos_of].
    assert (Hya : (y =? a) = false). { apply Z.eqb_neq. intro; subst y. apply Hy. apply in_or_app. right. left. reflexivity. }
    assert (Hyb : (y =? b) = false).
    { apply Z.eqb_neq. intro; subst y. apply Hy. apply in_or_app. right. right. apply in_or_app. right. left. reflexivity. }
    rewrite Hya, Hyb. destruct (IH (k + 1) Hnd2) as [A B]. rewrite A, B. split; f_equal; lia.
Qed.

Lemma before_pos : forall l a b, NoDup l -> before l a b ->
  exists i j, pos_of a l 0 = Some i /\ pos_of b l 0 = Some j /\ i < j.
Proof.
  intros l a b Hnd [l1 [l2 [l3 E]]]. subst l. destruct (before_pos_gen a b l2 l3 l1 0 Hnd) as [A B].
  eexists. eexists. split; [exact A|]. split; [exact B|lia].
Qed.

Theorem topo_cert_sound_l : forall g ans, topo_cert g ans = true ->
  match ans with Some l => topo_order g l | None => cyclic g end.
Proof.
  intros g ans H. unfold topo_cert in H. apply andb_true_iff in H. destruct H as [Hwf H]. apply wfb_wf in Hwf.
  destruct ans as [l|].
  - rewrite !andb_true_iff in H. destruct H as [[H1 H2] H3]. split.
    + apply NoDup_Permutation; [apply nodupb_NoDup; assumption|apply Hwf|apply same_set_iff; assumption].
    + intros e He. rewrite forallb_forall in H3. specialize (H3 e He).
      destruct (pos_of (esrc e) l 0) as [i|] eqn:Pi; [|discriminate].
      destruct (pos_of (edst e) l 0) as [j|] eqn:Pj; [|discriminate].
      apply Z.ltb_lt in H3. apply (pos_before _ _ _ _ _ _ Pi Pj H3).
  - unfold finds_cycle in H. apply existsb_exists in H. destruct H as [e [He H]].
    destruct (reach_ok (out_adj g) (fuel_of g) (edst e)) as [Rs|] eqn:R; [|discriminate].
    apply memb_In in H. apply (reach_ok_reachable _ _ _ _ R) in H. destruct H as [p Hp]. exists e, p. auto.
Qed.

(** an order exists only for acyclic graphs *)
Theorem topo_order_acyclic_l : forall g l, wf g -> topo_order g l -> ~ cyclic g.
Proof.
  intros g l Hwf [Hperm Hord] [e [p [He Hp]]].
  assert (Hnd : NoDup l). { apply (Permutation_NoDup (Permutation_sym Hperm)). apply Hwf. }
  assert (Hedge : forall e, In e (edges g) -> exists i j, pos_of (esrc e) l 0 = Some i /\ pos_of (edst e) l 0 = Some j /\ i < j).
  { intros e0 He0. apply before_pos; [assumption|apply Hord; assumption]. }
  assert (Hwalk : forall a q b, walk g a q b -> forall i, pos_of a l 0 = Some i -> exists j, pos_of b l 0 = Some j /\ i <= j).
  { intros a q b Hq. induction Hq as [u|e0 q v He0 Hq IH]; intros i Hi.
    - exists i. split; [assumption|lia].
    - destruct (Hedge e0 He0) as [i' [j' [A [B C]]]]. rewrite A in Hi. inversion Hi. subst i'.
      destruct (IH j' B) as [j [D E]]. exists j. split; [assumption|lia]. }
  destruct (Hedge e He) as [i [j [A [B C]]]]. destruct (Hwalk _ _ _ Hp j B) as [i' [D E]].
  rewrite A in D. inversion D. lia.
Qed.
