(** C19 — executable specifications / checkers for the structure algorithms (triangles, k-core,
    bridges, articulation points) and for PageRank as a distribution.  They are evaluated by the
    check with vm_compute on the implementation's outputs; soundness (checker = true -> the
    specification of Spec.v) is proved in ProofsStruct.v / ProofsPr.v. *)
From Coq Require Import ZArith List Bool Lia QArith.
From GV Require Export Algo.Cert.
Import ListNotations.
Open Scope Z_scope.

(** * the undirected simple view *)
Definition joinedb (g : graph) (u v : Z) : bool :=
  existsb (fun e => ((esrc e =? u) && (edst e =? v)) || ((esrc e =? v) && (edst e =? u))) (edges g).
Definition adjb (g : graph) (u v : Z) : bool := negb (u =? v) && joinedb g u v.
(** distinct neighbours of [v] other than [v] *)
Definition nbrs (g : graph) (v : Z) : list Z := filter (adjb g v) (nodes g).

(** * triangles *)
Definition tri_pairs (g : graph) (v : Z) : list (Z * Z) :=
  let N := nbrs g v in
  filter (fun ab => if fst ab <? snd ab then adjb g (fst ab) (snd ab) else false) (list_prod N N).
Definition tri_count (g : graph) (v : Z) : Z := Z.of_nat (length (tri_pairs g v)).
Definition tri_triples (g : graph) : list (Z * Z * Z) :=
  filter (fun t => if fst (fst t) <? snd (fst t) then if snd (fst t) <? snd t then
                     if adjb g (fst (fst t)) (snd (fst t)) then if adjb g (snd (fst t)) (snd t) then adjb g (fst (fst t)) (snd t)
                     else false else false else false else false)
         (list_prod (list_prod (nodes g) (nodes g)) (nodes g)).
Definition tri_total (g : graph) : Z := Z.of_nat (length (tri_triples g)).
(** [tc]: per-node counts as returned by triangle_count(); [total]: total_triangles() *)
Definition tri_cert (g : graph) (tc : list (Z * Z)) (total : Z) : bool :=
  wfb g && forallb (fun kv => memb (fst kv) (nodes g)) tc
  && forallb (fun v => oz_eqb (lookup tc v) (Some (tri_count g v))) (nodes g)
  && (total =? tri_total g).
(** degree and local clustering coefficient: [x] is the binary64 bit pattern of the coefficient;
    accepted when it is within relative error 2^-53 of triangles / (k choose 2) (0 when k < 2) *)
Definition degree (g : graph) (v : Z) : Z := Z.of_nat (length (nbrs g v)).
Definition lcc_ok (g : graph) (v x : Z) : bool :=
  match f64_scaled x with
  | None => false
  | Some z =>
      let k := degree g v in
      if k <? 2 then z =? 0
      else let den := k * (k - 1) / 2 in let t := tri_count g v in
           Z.abs (z * den - t * Z.pos two1074) * 2 ^ 53 <=? t * Z.pos two1074
  end.
Definition lcc_cert (g : graph) (lc : list (Z * Z)) : bool :=
  wfb g && forallb (fun kv => memb (fst kv) (nodes g)) lc
  && forallb (fun v => match lookup lc v with Some x => lcc_ok g v x | None => false end) (nodes g).

(** * k-core: peel away nodes joined to fewer than [k] members until nothing changes *)
Definition jnbrs (g : graph) (v : Z) : list Z := filter (joinedb g v) (nodes g).
Definition deg_in (g : graph) (alive : list Z) (v : Z) : Z :=
  Z.of_nat (length (filter (fun u => memb u alive) (jnbrs g v))).
Fixpoint peel (g : graph) (k : Z) (fuel : nat) (alive : list Z) : list Z :=
  match fuel with
  | O => alive
  | S f => let alive' := filter (fun v => k <=? deg_in g alive v) alive in
           if Nat.eqb (length alive') (length alive) then alive else peel g k f alive'
  end.
Definition stableb (g : graph) (k : Z) (alive : list Z) : bool := forallb (fun v => k <=? deg_in g alive v) alive.
(** the k-core (None when the fuel did not suffice to reach the fixpoint) *)
Definition kcore_of (g : graph) (k : Z) : option (list Z) :=
  let A := peel g k (length (nodes g)) (nodes g) in if stableb g k A then Some A else None.
Definition in_core (tbl : list (Z * option (list Z))) (k v : Z) : option bool :=
  match find (fun p => fst p =? k) tbl with
  | Some (_, Some A) => Some (memb v A)
  | _ => None
  end.
(** [c]: core numbers as returned by kcore_decomposition(); [maxc]: its max_core *)
Definition kcore_cert (g : graph) (c : list (Z * Z)) (maxc : Z) : bool :=
  let ks := nodupZ (flat_map (fun kv => [snd kv; snd kv + 1]) c) in
  let tbl := map (fun k => (k, kcore_of g k)) ks in
  wfb g && forallb (fun kv => memb (fst kv) (nodes g)) c
  && forallb (fun v => match lookup c v with
                       | Some k => (0 <=? k) && (k <=? maxc)
                                   && match in_core tbl k v, in_core tbl (k + 1) v with
                                      | Some true, Some false => true | _, _ => false end
                       | None => false
                       end) (nodes g)
  && (match nodes g with [] => maxc =? 0 | _ => existsb (fun v => oz_eqb (lookup c v) (Some maxc)) (nodes g) end).
(** k_core(k): exactly the nodes with core number >= k *)
Definition kcore_list_cert (g : graph) (c : list (Z * Z)) (k : Z) (l : list Z) : bool :=
  nodupb l && same_set l (filter (fun v => match lookup c v with Some x => k <=? x | None => false end) (nodes g)).

(** * bridges *)
Definition is_bridgeb (g : graph) (a b : Z) : option bool :=
  if adjb g a b then
    match uconnb (without_pair (edges g) a b) (fuel_of g) a b with
    | Some c => Some (negb c) | None => None end
  else Some false.
Definition pair_memb (a b : Z) (l : list (Z * Z)) : bool := existsb (fun p => (fst p =? a) && (snd p =? b)) l.
Fixpoint pairs_nodupb (l : list (Z * Z)) : bool :=
  match l with [] => true | p :: r => negb (pair_memb (fst p) (snd p) r) && pairs_nodupb r end.
Definition bridges_cert (g : graph) (l : list (Z * Z)) : bool :=
  wfb g && pairs_nodupb l && forallb (fun p => negb (pair_memb (snd p) (fst p) l)) l
  && forallb (fun p => match is_bridgeb g (fst p) (snd p) with Some true => true | _ => false end) l
  && forallb (fun a => forallb (fun b =>
        match is_bridgeb g a b with
        | Some true => pair_memb a b l || pair_memb b a l
        | Some false => true
        | None => false
        end) (nodes g)) (nodes g).

(** * articulation points *)
Definition is_cutb (g : graph) (v : Z) : option bool :=
  let E := edges g in let E' := without_node E v in let n := fuel_of g in
  let others := filter (fun a => negb (a =? v)) (nodes g) in
  fold_right (fun a acc =>
      match acc, reach_ok (uadj E) n a, reach_ok (uadj E') n a with
      | Some r, Some R, Some R' => Some (r || existsb (fun b => memb b R && negb (memb b R')) others)
      | _, _, _ => None
      end) (Some false) others.
Definition artic_cert (g : graph) (l : list Z) : bool :=
  wfb g && nodupb l && forallb (fun v => memb v (nodes g)) l
  && forallb (fun v => match is_cutb g v with Some c => Bool.eqb c (memb v l) | None => false end) (nodes g).

(** * PageRank as a distribution: the scores (binary64 bit patterns) are finite, non-negative and
      their exact sum is within 10^-9 of 1 *)
Fixpoint scaled_all (bits : list Z) : option (list Z) :=
  match bits with
  | [] => Some []
  | b :: r => match f64_scaled b, scaled_all r with Some z, Some t => Some (z :: t) | _, _ => None end
  end.
Definition zsuml (l : list Z) : Z := fold_right Z.add 0 l.
Definition pr_cert (g : graph) (pr : list (Z * Z)) : bool :=
  wfb g && nodupb (map fst pr) && same_set (map fst pr) (nodes g)
  && match scaled_all (map snd pr) with
     | None => false
     | Some zs =>
         forallb (fun z => 0 <=? z) zs
         && match nodes g with
            | [] => true
            | _ => Z.abs (zsuml zs - Z.pos two1074) * 10 ^ 9 <=? Z.pos two1074
            end
     end.
