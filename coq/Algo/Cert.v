(** C19 — certificate checkers (bool functions, executed by the check with vm_compute on the
    implementation's outputs).  Soundness (cert = true -> Spec) is proved in Proofs*.v. *)
From Coq Require Import ZArith List Bool Lia.
From GV Require Export Algo.Spec.
Import ListNotations.
Open Scope Z_scope.

(** * Small decidable helpers *)
Definition memb (x : Z) (l : list Z) : bool := existsb (Z.eqb x) l.
Fixpoint nodupb (l : list Z) : bool :=
  match l with [] => true | x :: r => negb (memb x r) && nodupb r end.
Definition inclb (a b : list Z) : bool := forallb (fun x => memb x b) a.
Definition same_set (a b : list Z) : bool := inclb a b && inclb b a.
Definition oz_eqb (a b : option Z) : bool :=
  match a, b with Some x, Some y => x =? y | None, None => true | _, _ => false end.
Definition is_some {A} (o : option A) : bool := match o with Some _ => true | None => false end.
Definition lookup (l : list (Z * Z)) (k : Z) : option Z :=
  match find (fun p => fst p =? k) l with Some p => Some (snd p) | None => None end.
Definition edge_eqb (a b : edge) : bool :=
  (esrc a =? esrc b) && (edst a =? edst b) && (eid a =? eid b) && (ew a =? ew b).
Definition ememb (e : edge) (l : list edge) : bool := existsb (edge_eqb e) l.
Fixpoint enodupb (l : list edge) : bool :=
  match l with [] => true | x :: r => negb (ememb x r) && enodupb r end.

Definition wfb (g : graph) : bool :=
  nodupb (nodes g) && nodupb (map eid (edges g))
  && forallb (fun e => memb (esrc e) (nodes g) && memb (edst e) (nodes g)) (edges g).

(** * Closure computation with a checked fixpoint *)
Fixpoint insert_all (xs seen : list Z) : list Z :=
  match xs with [] => seen | x :: r => insert_all r (if memb x seen then seen else x :: seen) end.
Fixpoint grow (adj : Z -> list Z) (fuel : nat) (seen : list Z) : list Z :=
  match fuel with
  | O => seen
  | S f => let seen' := insert_all (flat_map adj seen) seen in
           if Nat.eqb (length seen') (length seen) then seen else grow adj f seen'
  end.
Definition closedb (adj : Z -> list Z) (Rs : list Z) : bool :=
  forallb (fun u => forallb (fun v => memb v Rs) (adj u)) Rs.
(** the set reachable from [r] along [adj], or None when [fuel] rounds did not reach the fixpoint *)
Definition reach_ok (adj : Z -> list Z) (fuel : nat) (r : Z) : option (list Z) :=
  let Rs := grow adj fuel [r] in if closedb adj Rs then Some Rs else None.

Definition out_adj (g : graph) (u : Z) : list Z :=
  map edst (filter (fun e => esrc e =? u) (edges g)).
Definition uadj (E : list edge) (u : Z) : list Z :=
  map edst (filter (fun e => esrc e =? u) E) ++ map esrc (filter (fun e => edst e =? u) E).
Definition fuel_of (g : graph) : nat := length (nodes g).

(** undirected connectivity of [a] and [b] over the edge list [E] *)
Definition uconnb (E : list edge) (fuel : nat) (a b : Z) : option bool :=
  match reach_ok (uadj E) fuel a with Some Rs => Some (memb b Rs) | None => None end.

(** * Shortest paths *)
(** cheapest edge from [u] to [v] *)
Definition min_w (g : graph) (u v : Z) : option Z :=
  fold_right (fun e acc =>
      if (esrc e =? u) && (edst e =? v)
      then match acc with Some m => Some (Z.min m (ew e)) | None => Some (ew e) end
      else acc) None (edges g).
(** weight of the node path [l], realised hop by hop with the cheapest edge *)
Fixpoint npath_w (g : graph) (l : list Z) : option Z :=
  match l with
  | [] => None
  | x :: r =>
      match r with
      | [] => Some 0
      | y :: _ => match min_w g x y, npath_w g r with
                  | Some a, Some b => Some (a + b)
                  | _, _ => None
                  end
      end
  end.
Definition head_is (s : Z) (l : list Z) : bool := match l with x :: _ => x =? s | [] => false end.
Definition last_is (t : Z) (l : list Z) : bool := match l with [] => false | _ => last l 0 =? t end.
(** [l] is a node path from [s] to [t] of weight exactly [w] *)
Definition path_ok (g : graph) (s t w : Z) (l : list Z) : bool :=
  head_is s l && last_is t l && oz_eqb (npath_w g l) (Some w).

(** [d]: finite distances from [s]; [paths]: for every finite entry a node path attaining it *)
Definition sssp_cert (g : graph) (s : Z) (d : list (Z * Z)) (paths : list (list Z)) : bool :=
  wfb g && memb s (nodes g) && oz_eqb (lookup d s) (Some 0)
  && forallb (fun kv => memb (fst kv) (nodes g)) d
  && forallb (fun e => match lookup d (esrc e) with
                       | None => true
                       | Some du => match lookup d (edst e) with
                                    | Some dv => dv <=? du + ew e
                                    | None => false
                                    end
                       end) (edges g)
  && forallb (fun kv => existsb (path_ok g s (fst kv) (snd kv)) paths) d.

(** the predecessor map: every finite node other than [s] has a predecessor joined to it by a tight edge *)
Definition pred_cert (g : graph) (s : Z) (d pred : list (Z * Z)) : bool :=
  forallb (fun kv =>
      let v := fst kv in
      (v =? s) ||
      match lookup pred v with
      | None => false
      | Some u => match lookup d u with
                  | None => false
                  | Some du => existsb (fun e => (esrc e =? u) && (edst e =? v) && (du + ew e =? snd kv)) (edges g)
                  end
      end) d.

(** single-pair answers (dijkstra_path, A-star): against a certified distance vector *)
Definition pair_cert (g : graph) (s t : Z) (d : list (Z * Z)) (paths : list (list Z))
                     (ans : option (Z * list Z)) : bool :=
  sssp_cert g s d paths &&
  match ans with
  | None => negb (is_some (lookup d t))
  | Some (x, l) => oz_eqb (lookup d t) (Some x) && path_ok g s t x l
  end.

(** negative cycle witness: node path [pre] from [s] to the first node of the closed node path [cyc] *)
Definition negcycle_cert (g : graph) (s : Z) (pre cyc : list Z) : bool :=
  match cyc with
  | [] => false
  | c :: _ =>
      head_is s pre && last_is c pre && is_some (npath_w g pre)
      && last_is c cyc && match npath_w g cyc with Some w => w <? 0 | None => false end
  end.
Definition anycycle_cert (g : graph) (cyc : list Z) : bool :=
  match cyc with
  | [] => false
  | c :: _ => last_is c cyc && match npath_w g cyc with Some w => w <? 0 | None => false end
  end.

(** Bellman-Ford: flag = false -> distances certified; flag = true -> a reachable negative cycle is exhibited *)
Definition bf_cert (g : graph) (s : Z) (d : list (Z * Z)) (paths : list (list Z)) (flag : bool)
                   (wit : list Z * list Z) : bool :=
  if flag then negcycle_cert g s (fst wit) (snd wit) else sssp_cert g s d paths.

(** Floyd-Warshall: one certified row per node, or a negative cycle *)
Definition apsp_cert (g : graph) (rows : list (Z * list (Z * Z) * list (list Z))) (flag : bool)
                     (cyc : list Z) : bool :=
  if flag then anycycle_cert g cyc
  else wfb g && forallb (fun s => existsb (fun r => match r with (s', d, ps) => (s' =? s) && sssp_cert g s d ps end) rows) (nodes g).

(** * Traversals *)
Definition reach_cert (g : graph) (s : Z) (l : list Z) : bool :=
  wfb g && memb s (nodes g) && nodupb l &&
  match reach_ok (out_adj g) (fuel_of g) s with Some Rs => same_set l Rs | None => false end.
(** BFS layers: layer i = the nodes at hop distance i ([d], [paths] certify the hop distances) *)
Fixpoint layers_ok (layers : list (list Z)) (i : Z) (d : list (Z * Z)) : bool :=
  match layers with
  | [] => true
  | ly :: r => nodupb ly && negb (match ly with [] => true | _ => false end)
               && same_set ly (map fst (filter (fun kv => snd kv =? i) d))
               && layers_ok r (i + 1) d
  end.
Definition layers_cert (g : graph) (s : Z) (layers : list (list Z)) (d : list (Z * Z)) (paths : list (list Z)) : bool :=
  sssp_cert g s d paths && nodupb (map fst d) && layers_ok layers 0 d
  && (Z.of_nat (length (concat layers)) =? Z.of_nat (length d)).
Definition perm_cert (g : graph) (l : list Z) : bool := wfb g && nodupb l && same_set l (nodes g).

(** * Components *)
(** reach sets of all nodes, computed once *)
Definition reach_table (adj : Z -> list Z) (fuel : nat) (ns : list Z) : list (Z * option (list Z)) :=
  map (fun u => (u, reach_ok adj fuel u)) ns.
Definition table_get (tbl : list (Z * option (list Z))) (u : Z) : option (list Z) :=
  match find (fun p => fst p =? u) tbl with Some p => snd p | None => None end.
Definition classes_cert (g : graph) (adj : Z -> list Z) (mutual : bool) (lab : list (Z * Z)) : bool :=
  let tbl := reach_table adj (fuel_of g) (nodes g) in
  wfb g && forallb (fun u => is_some (lookup lab u)) (nodes g)
  && forallb (fun kv => memb (fst kv) (nodes g)) lab
  && forallb (fun u =>
       match table_get tbl u with
       | None => false
       | Some Su =>
           forallb (fun v =>
             match table_get tbl v with
             | None => false
             | Some Sv => Bool.eqb (oz_eqb (lookup lab u) (lookup lab v))
                                   (memb v Su && (negb mutual || memb u Sv))
             end) (nodes g)
       end) (nodes g).
Definition wcc_cert (g : graph) (lab : list (Z * Z)) : bool := classes_cert g (uadj (edges g)) false lab.
Definition scc_cert (g : graph) (lab : list (Z * Z)) : bool := classes_cert g (out_adj g) true lab.
Fixpoint nodupZ (l : list Z) : list Z :=
  match l with [] => [] | x :: r => if memb x r then nodupZ r else x :: nodupZ r end.
Definition count_ok (lab : list (Z * Z)) (cnt : Z) : bool :=
  Z.of_nat (length (nodupZ (map snd lab))) =? cnt.

(** * Topological sort *)
Fixpoint pos_of (x : Z) (l : list Z) (i : Z) : option Z :=
  match l with [] => None | y :: r => if y =? x then Some i else pos_of x r (i + 1) end.
Definition finds_cycle (g : graph) : bool :=
  existsb (fun e => match reach_ok (out_adj g) (fuel_of g) (edst e) with
                    | Some Rs => memb (esrc e) Rs | None => false end) (edges g).
Definition topo_cert (g : graph) (ans : option (list Z)) : bool :=
  wfb g &&
  match ans with
  | Some l => nodupb l && same_set l (nodes g)
              && forallb (fun e => match pos_of (esrc e) l 0, pos_of (edst e) l 0 with
                                   | Some i, Some j => i <? j | _, _ => false end) (edges g)
  | None => finds_cycle g
  end.

(** * Minimum spanning forests *)
(** all splittings T = T1 ++ e :: T2, as (e, T1 ++ T2) *)
Fixpoint splits (pre T : list edge) : list (edge * list edge) :=
  match T with [] => [] | e :: r => (e, rev pre ++ r) :: splits (e :: pre) r end.
Definition msf_cert (g : graph) (T : list edge) : bool :=
  let n := fuel_of g in
  wfb g && enodupb T && forallb (fun e => ememb e (edges g)) T
  (* forest *)
  && forallb (fun er => match uconnb (snd er) n (esrc (fst er)) (edst (fst er)) with
                        | Some false => true | _ => false end) (splits [] T)
  (* spanning *)
  && forallb (fun e => match uconnb T n (esrc e) (edst e) with Some true => true | _ => false end) (edges g)
  (* cycle property: a non-tree edge is at least as heavy as every tree edge on the tree path between its ends *)
  && forallb (fun f => ememb f T ||
        forallb (fun er => match uconnb (snd er) n (esrc f) (edst f) with
                           | Some true => true
                           | Some false => ew (fst er) <=? ew f
                           | None => false
                           end) (splits [] T)) (edges g).

(** the component of [start] as a graph of its own (Prim grows one tree) *)
Definition comp_graph (g : graph) (start : Z) : option graph :=
  match reach_ok (uadj (edges g)) (fuel_of g) start with
  | Some Rs => Some (mkG (filter (fun v => memb v Rs) (nodes g))
                        (filter (fun e => memb (esrc e) Rs && memb (edst e) Rs) (edges g)))
  | None => None
  end.
Definition prim_cert (g : graph) (start : Z) (T : list edge) : bool :=
  wfb g && memb start (nodes g) &&
  match comp_graph g start with Some g' => msf_cert g' T | None => false end.

(** * Maximum flow *)
Definition flookup (fl : list (Z * Z * Z)) (u v : Z) : Z :=
  match find (fun x => (fst (fst x) =? u) && (snd (fst x) =? v)) fl with
  | Some x => snd x | None => 0 end.
Fixpoint pairs_nodup (fl : list (Z * Z * Z)) : bool :=
  match fl with
  | [] => true
  | x :: r => negb (existsb (fun y => (fst (fst y) =? fst (fst x)) && (snd (fst y) =? snd (fst x))) r) && pairs_nodup r
  end.
(** residual adjacency of the flow [fl] *)
Definition res_adj (g : graph) (fl : list (Z * Z * Z)) (u : Z) : list Z :=
  filter (fun v => (flookup fl u v <? cap g u v) || (0 <? flookup fl v u)) (nodes g).
Definition flow_cert (g : graph) (s t : Z) (fl : list (Z * Z * Z)) (val : Z) : bool :=
  let f := flookup fl in
  wfb g && memb s (nodes g) && memb t (nodes g) && negb (s =? t) && pairs_nodup fl
  && forallb (fun x => memb (fst (fst x)) (nodes g) && memb (snd (fst x)) (nodes g)
                       && (0 <=? snd x) && (snd x <=? cap g (fst (fst x)) (snd (fst x)))) fl
  && forallb (fun e => 0 <=? ew e) (edges g)
  && forallb (fun v => (v =? s) || (v =? t) || (excess g f v =? 0)) (nodes g)
  && (excess g f s =? val)
  && (let Rs := grow (res_adj g fl) (fuel_of g) [s] in
      memb s Rs && negb (memb t Rs)
      && forallb (fun u => negb (memb u Rs) ||
           forallb (fun v => memb v Rs || ((f u v =? cap g u v) && (f v u =? 0))) (nodes g)) (nodes g)).
