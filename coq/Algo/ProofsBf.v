(** C19 — Bellman-Ford as transcribed: a raised negative-cycle flag is right.  After k full rounds
    every node's distance is at most the weight of every walk of at most k edges; every distance is
    the weight of a real walk; any walk can be shortened to fewer than |V| edges without gaining
    weight unless it passes through a negative cycle.  So an edge that still relaxes after |V|-1
    rounds exhibits a reachable negative cycle. *)
From Coq Require Import ZArith List Bool Lia Relations Permutation.
From GV Require Import Algo.Cert Algo.Model Algo.ProofsBase Algo.ProofsPath Algo.ProofsModel.
Import ListNotations.
Open Scope Z_scope.

(** * splitting walks *)
Lemma walk_split_at : forall g a p b, walk g a p b -> forall x, In x (a :: map edst p) ->
  exists p1 p2, p = p1 ++ p2 /\ walk g a p1 x /\ walk g x p2 b.
Proof.
  intros g a p b H. induction H as [u|e p v He Hw IH]; intros x Hx.
  - destruct Hx as [<-|[]]. exists [], []. repeat split; constructor.
  - destruct (Z.eq_dec x (esrc e)) as [->|N].
    + exists [], (e :: p). split; [reflexivity|]. split; [constructor|constructor; assumption].
    + destruct Hx as [Hx|Hx]; [congruence|]. cbn [map] in Hx. destruct (IH x Hx) as [p1 [p2 [E [W1 W2]]]].
      exists (e :: p1), p2. split; [cbn; rewrite E; reflexivity|]. split; [constructor; assumption|assumption].
Qed.
Lemma walk_dup : forall g a q b, walk g a q b ->
  NoDup (a :: map edst q) \/
  exists q1 c q2 u, q = q1 ++ c ++ q2 /\ c <> [] /\ walk g a q1 u /\ walk g u c u /\ walk g u q2 b.
Proof.
  intros g a q b H. induction H as [u|e p v He Hw IH].
  - left. constructor; [intros []|constructor].
  - destruct IH as [ND|[q1 [c [q2 [u [E [Nc [W1 [Wc W2]]]]]]]]].
    + destruct (in_dec Z.eq_dec (esrc e) (edst e :: map edst p)) as [Hin|Hnot].
      * right. destruct (walk_split_at g _ _ _ Hw (esrc e) Hin) as [p1 [p2 [E [W1 W2]]]].
        exists [], (e :: p1), p2, (esrc e). split; [cbn; rewrite E; reflexivity|]. split; [discriminate|].
        split; [constructor|]. split; [constructor; assumption|assumption].
      * left. cbn [map]. constructor; assumption.
    + right. exists (e :: q1), c, q2, u. split; [cbn; rewrite E; reflexivity|]. split; [assumption|].
      split; [constructor; assumption|]. split; assumption.
Qed.
Lemma walk_nodes_in : forall g, wf g -> forall a q b, walk g a q b -> In a (nodes g) -> incl (a :: map edst q) (nodes g).
Proof.
  intros g Hwf a q b H. induction H as [u|e p v He Hw IH]; intros Ha x Hx.
  - destruct Hx as [<-|[]]. assumption.
  - destruct Hx as [<-|Hx]; [assumption|]. cbn [map] in Hx. apply IH; [|assumption]. destruct Hwf as [_ [_ W]]. apply (W e He).
Qed.

(** every walk from [s] can be made duplicate-free without gaining weight, unless it meets a negative cycle *)
Lemma shorten : forall g s len q v, (length q <= len)%nat -> walk g s q v ->
  neg_cycle_from g s \/ exists q', walk g s q' v /\ NoDup (s :: map edst q') /\ wsum q' <= wsum q.
Proof.
  intros g s. induction len as [|len IH]; intros q v L W.
  - destruct q; [|cbn in L; lia]. right. exists []. split; [assumption|]. split; [constructor; [intros []|constructor]|lia].
  - destruct (walk_dup g s q v W) as [ND|[q1 [c [q2 [u [E [Nc [W1 [Wc W2]]]]]]]]].
    + right. exists q. split; [assumption|]. split; [assumption|lia].
    + destruct (Z_lt_le_dec (wsum c) 0) as [Neg|Pos].
      * left. exists q1, c, u. auto.
      * assert (W' : walk g s (q1 ++ q2) v) by (apply walk_app with u; assumption).
        assert (L' : (length (q1 ++ q2) <= len)%nat).
        { subst q. rewrite !app_length in L. rewrite app_length. destruct c; [congruence|]. cbn [length] in L. lia. }
        destruct (IH _ _ L' W') as [N|[q' [A [B C]]]]; [left; assumption|]. right. exists q'. split; [assumption|]. split; [assumption|].
        subst q. rewrite !wsum_app in *. lia.
Qed.

Section BF2.
  Variables (g : graph) (s : Z).
  Hypothesis Hwf : wf g.
  Hypothesis Hs : In s (nodes g).

  Definition le_val (d d' : list (Z * Z)) : Prop := forall v x, lookup d v = Some x -> exists x', lookup d' v = Some x' /\ x' <= x.
  Lemma le_val_refl : forall d, le_val d d.
  Proof. intros d v x H. exists x. split; [assumption|lia]. Qed.
  Lemma le_val_trans : forall a b c, le_val a b -> le_val b c -> le_val a c.
  Proof. intros a b c H1 H2 v x Hx. destruct (H1 v x Hx) as [y [Hy L1]]. destruct (H2 v y Hy) as [z [Hz L2]]. exists z. split; [assumption|lia]. Qed.

  Lemma relax_le : forall st e, le_val (bd st) (bd (relax st e)).
  Proof.
    intros st e v x Hx. unfold relax. destruct (lookup (bd st) (esrc e)) as [du|] eqn:Du; [|exists x; split; [assumption|lia]].
    cbv zeta. destruct (lookup (bd st) (edst e)) as [cur|] eqn:Dv.
    - destruct (du + ew e <? cur) eqn:C; [|exists x; split; [assumption|lia]]. cbn [bd]. rewrite lookup_upd.
      destruct (edst e =? v) eqn:E; [|exists x; split; [assumption|lia]]. apply Z.eqb_eq in E. subst v. rewrite Dv in Hx. inversion Hx. subst cur.
      apply Z.ltb_lt in C. exists (du + ew e). split; [reflexivity|lia].
    - cbn [bd]. rewrite lookup_upd. destruct (edst e =? v) eqn:E; [|exists x; split; [assumption|lia]]. apply Z.eqb_eq in E. subst v. congruence.
  Qed.
  Lemma fold_le : forall es st, le_val (bd st) (bd (fold_left relax es st)).
  Proof.
    induction es as [|e r IH]; intro st; cbn [fold_left]; [apply le_val_refl|]. apply le_val_trans with (bd (relax st e)); [apply relax_le|apply IH].
  Qed.
  Lemma relax_edge : forall st e du, lookup (bd st) (esrc e) = Some du ->
    exists dv, lookup (bd (relax st e)) (edst e) = Some dv /\ dv <= du + ew e.
  Proof.
    intros st e du Du. unfold relax. rewrite Du. cbv zeta. destruct (lookup (bd st) (edst e)) as [cur|] eqn:Dv.
    - destruct (du + ew e <? cur) eqn:C.
      + cbn [bd]. rewrite lookup_upd, Z.eqb_refl. exists (du + ew e). split; [reflexivity|lia].
      + apply Z.ltb_ge in C. exists cur. split; [assumption|lia].
    - cbn [bd]. rewrite lookup_upd, Z.eqb_refl. exists (du + ew e). split; [reflexivity|lia].
  Qed.
  Lemma fold_edge : forall es st e du, In e es -> lookup (bd st) (esrc e) = Some du ->
    exists dv, lookup (bd (fold_left relax es st)) (edst e) = Some dv /\ dv <= du + ew e.
  Proof.
    induction es as [|x r IH]; intros st e du He Du; [contradiction|]. cbn [fold_left]. destruct He as [->|He].
    - destruct (relax_edge st e du Du) as [dv [Dv L]]. destruct (fold_le r (relax st e) _ _ Dv) as [dv' [Dv' L']]. exists dv'. split; [assumption|lia].
    - destruct (relax_le st x _ _ Du) as [du' [Du' L]]. destruct (IH (relax st x) e du' He Du') as [dv [Dv L']]. exists dv. split; [assumption|lia].
  Qed.

  (** after k rounds: at most the weight of every walk of at most k edges *)
  Definition bounded (k : nat) (d : list (Z * Z)) : Prop :=
    forall q v, walk g s q v -> (length q <= k)%nat -> exists x, lookup d v = Some x /\ x <= wsum q.
  Lemma round_bounded : forall k d p, bounded k d -> bounded (S k) (bd (bf_round (edges g) d p)).
  Proof.
    intros k d p B q v Hq Hl. unfold bf_round. destruct q as [|e0 q0] eqn:Eq.
    - inversion Hq; subst. destruct (B [] _ Hq) as [x [Hx Lx]]; [cbn; lia|].
      destruct (fold_le (edges g) (mkBf d p false) _ _ Hx) as [x' [Hx' L']]. exists x'. split; [assumption|]. cbn in *. lia.
    - rewrite <- Eq in *. destruct (walk_snoc _ _ _ _ Hq) as [q' [e [E [Wq [He Hd]]]]]; [subst; discriminate|].
      subst v. assert (Lq : (length q' <= k)%nat) by (rewrite E, app_length in Hl; cbn [length] in Hl; lia).
      destruct (B q' _ Wq Lq) as [du [Du Ldu]].
      destruct (fold_edge (edges g) (mkBf d p false) e du He Du) as [dv [Dv Ldv]]. exists dv. split; [assumption|].
      rewrite E, wsum_app, wsum_cons. cbn [wsum fold_right]. lia.
  Qed.
  Lemma rounds_bounded : forall k j d p, attained g s d -> bounded j d ->
    let r := bf_rounds (edges g) k d p in
    attained g s (fst r) /\ (all_tight g (fst r) \/ bounded (j + k) (fst r)).
  Proof.
    induction k as [|k IH]; intros j d p A B; cbn [bf_rounds].
    - cbn [fst]. split; [assumption|]. right. replace (j + 0)%nat with j by lia. assumption.
    - cbv zeta. destruct (bch (bf_round (edges g) d p)) eqn:C.
      + assert (A' : attained g s (bd (bf_round (edges g) d p))) by (apply fold_attained; [apply incl_refl|assumption]).
        pose proof (round_bounded j d p B) as B'.
        specialize (IH (S j) _ (bp (bf_round (edges g) d p)) A' B'). cbv zeta in IH.
        replace (j + S k)%nat with (S j + k)%nat by lia. exact IH.
      + cbn [fst]. unfold bf_round in *. destruct (fold_unchanged _ _ C) as [E T]. rewrite E. cbn [bd].
        split; [assumption|]. left. exact T.
  Qed.

  (** the flag is right: a negative cycle can be reached from the source *)
  Theorem bf_model_flag_l : forall d p, bf_model g s = (d, p, true) -> neg_cycle_from g s.
  Proof.
    intros d p H. unfold bf_model in H. rewrite (proj2 (memb_In s (nodes g)) Hs) in H.
    set (r := bf_rounds (edges g) (length (nodes g) - 1) [(s, 0)] []) in *. cbv zeta in H. injection H as _ _ Hn.
    assert (A0 : attained g s [(s, 0)]).
    { intros v x Hl. unfold lookup in Hl. cbn [find fst snd] in Hl. destruct (s =? v) eqn:E; [|discriminate].
      apply Z.eqb_eq in E. subst v. inversion Hl. exists []. split; [constructor|reflexivity]. }
    assert (B0 : bounded 0 [(s, 0)]).
    { intros q v Hq Hl. destruct q; [|cbn in Hl; lia]. inversion Hq; subst. exists 0. unfold lookup. cbn [find fst snd]. rewrite Z.eqb_refl. split; [reflexivity|cbn; lia]. }
    destruct (rounds_bounded (length (nodes g) - 1) 0 [(s, 0)] [] A0 B0) as [A C]. fold r in A, C.
    unfold neg_check in Hn. apply existsb_exists in Hn. destruct Hn as [e [He Hc]].
    destruct (lookup (fst r) (esrc e)) as [du|] eqn:Du; [|discriminate]. destruct (lookup (fst r) (edst e)) as [dv|] eqn:Dv; [|discriminate].
    apply Z.ltb_lt in Hc. destruct C as [T|B].
    - destruct (T e He du Du) as [dv' [Dv' N]]. rewrite Dv in Dv'. inversion Dv'. subst dv'. contradiction.
    - destruct (A _ _ Du) as [q [Wq Sq]].
      assert (W : walk g s (q ++ [e]) (edst e)) by (apply walk_app with (esrc e); [assumption|constructor; [assumption|constructor]]).
      destruct (shorten g s _ _ _ (le_n _) W) as [N|[q' [W' [ND Lw]]]]; [assumption|]. exfalso.
      assert (Len : (length q' <= length (nodes g) - 1)%nat).
      { pose proof (NoDup_incl_length ND (walk_nodes_in g Hwf _ _ _ W' Hs)) as L. cbn [length] in L. rewrite map_length in L. lia. }
      destruct (B q' _ W' Len) as [x [Hx Lx]]. rewrite Dv in Hx. inversion Hx. subst x.
      rewrite wsum_app, wsum_cons in Lw. cbn [wsum fold_right] in Lw. lia.
  Qed.
End BF2.

(** both directions *)
Theorem bf_model_full_l : forall g s d p flag, wf g -> In s (nodes g) -> bf_model g s = (d, p, flag) ->
  if flag then neg_cycle_from g s else sssp_spec g s (lookup d) /\ ~ neg_cycle_from g s.
Proof.
  intros g s d p flag Hwf Hs H. destruct flag; [apply (bf_model_flag_l g s Hwf Hs d p H)|apply (bf_model_sound_l g s Hwf Hs d p H)].
Qed.
